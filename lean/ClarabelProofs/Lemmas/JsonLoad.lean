/-
  Lemmas about `ClarabelModel/JsonLoad.lean`: the verdict of `load_from_file`'s post-parse
  validation, what an accepted record guarantees for `DefaultSolver::new`, and the record
  round trip `save_to_file` → `load_from_file`.
-/
import ClarabelModel.JsonLoad
import ClarabelModel.Cones.GenPow
import ClarabelProofs.Props.C09
import ClarabelProofs.Lemmas.UpdateAbs

namespace Clarabel.JsonLoad
open Clarabel Clarabel.Json Clarabel.Cones

variable {α γ : Type}

/-! ### `usize` arithmetic -/

theorem wrap_of_lt {x : Nat} (h : x < usizeMod) : wrap x = x := Nat.mod_eq_of_lt h

/-- without wrap-around the compiled `nvars` is the mathematical one -/
theorem nvarsU_eq_of_noWrap (c : ConeT α) (h : noWrap c = true) : nvarsU c = c.nvars := by
  cases c with
  | genpow αs d =>
    simp only [noWrap, decide_eq_true_eq] at h
    simp only [nvarsU, ConeT.nvars, wrap_of_lt h]
  | psd n =>
    simp only [noWrap, decide_eq_true_eq] at h
    have h1 : n + 1 < usizeMod := by
      rcases Nat.eq_zero_or_pos n with h0 | hpos
      · subst h0; decide
      · calc n + 1 ≤ n * (n + 1) := Nat.le_mul_of_pos_left _ hpos
          _ < usizeMod := h
    simp only [nvarsU, ConeT.nvars, ConeT.triangularNumber, wrap_of_lt h1, wrap_of_lt h]
  | zero n => rfl
  | nonneg n => rfl
  | soc n => rfl
  | exp => rfl
  | pow a => rfl

/-- every cone of the list has non-wrapping size arithmetic -/
def NoWrap (cones : List (ConeT α)) : Prop := ∀ c ∈ cones, noWrap c = true

/-- `checked_nvars` answers `Some` exactly on the cones whose size arithmetic does not wrap,
and then with the mathematical size -/
theorem checkedNvars_some (c : ConeT α) (k : Nat) (h : checkedNvars c = some k) :
    noWrap c = true ∧ k = c.nvars := by
  cases c with
  | genpow αs d =>
    simp only [checkedNvars] at h
    split at h
    · rename_i hlt; cases h; exact ⟨by simp [noWrap, hlt], rfl⟩
    · cases h
  | psd n =>
    simp only [checkedNvars] at h
    split at h
    · split at h
      · rename_i hlt; cases h
        exact ⟨by simp [noWrap, hlt], rfl⟩
      · cases h
    · cases h
  | zero n => cases h; exact ⟨rfl, rfl⟩
  | nonneg n => cases h; exact ⟨rfl, rfl⟩
  | soc n => cases h; exact ⟨rfl, rfl⟩
  | exp => cases h; exact ⟨rfl, rfl⟩
  | pow a => cases h; exact ⟨rfl, rfl⟩

theorem checkedNvars_of_noWrap (c : ConeT α) (h : noWrap c = true) :
    checkedNvars c = some c.nvars := by
  cases c with
  | genpow αs d =>
    simp only [noWrap, decide_eq_true_eq] at h
    simp [checkedNvars, h, ConeT.nvars]
  | psd n =>
    simp only [noWrap, decide_eq_true_eq] at h
    have h1 : n + 1 < usizeMod := by
      rcases Nat.eq_zero_or_pos n with h0 | hpos
      · subst h0; decide
      · calc n + 1 ≤ n * (n + 1) := Nat.le_mul_of_pos_left _ hpos
          _ < usizeMod := h
    simp [checkedNvars, h, h1, ConeT.nvars, ConeT.triangularNumber]
  | zero n => rfl
  | nonneg n => rfl
  | soc n => rfl
  | exp => rfl
  | pow a => rfl

/-- the fold of `checkedSum`, once `none`, stays `none` -/
theorem checkedFold_none (l : List (ConeT α)) :
    l.foldl (fun acc c => acc.bind (fun a => (checkedNvars c).bind (fun k =>
      if a + k < usizeMod then some (a + k) else none))) none = none := by
  induction l with
  | nil => rfl
  | cons x xs ihx => simpa [List.foldl_cons] using ihx

theorem checkedSum_go (cones : List (ConeT α)) (a k : Nat)
    (h : cones.foldl (fun acc c => acc.bind (fun a => (checkedNvars c).bind (fun k =>
      if a + k < usizeMod then some (a + k) else none))) (some a) = some k) :
    a + numel cones = k ∧ NoWrap cones ∧
      cones.foldl (fun acc c => wrap (acc + nvarsU c)) a = k := by
  induction cones generalizing a with
  | nil =>
    have hk : a = k := by simpa using h
    refine ⟨by simp [numel, hk], ?_, by simpa using hk⟩
    intro c hc
    cases hc
  | cons c cs ih =>
    simp only [List.foldl_cons, Option.bind_some] at h
    cases hk : checkedNvars c with
    | none => rw [hk] at h; simp only [Option.bind_none] at h; rw [checkedFold_none] at h; cases h
    | some kc =>
      rw [hk] at h
      simp only [Option.bind_some] at h
      obtain ⟨hnw, rfl⟩ := checkedNvars_some c kc hk
      by_cases hlt : a + c.nvars < usizeMod
      · rw [if_pos hlt] at h
        obtain ⟨h1, h2, h3⟩ := ih _ h
        refine ⟨by simp only [numel]; omega, ?_, ?_⟩
        · intro x hx
          cases hx with
          | head => exact hnw
          | tail _ hm => exact h2 x hm
        · simp only [List.foldl_cons, nvarsU_eq_of_noWrap c hnw, wrap_of_lt hlt]
          exact h3
      · rw [if_neg hlt] at h; rw [checkedFold_none] at h; cases h

/-- the checked sum of an accepted cone list is the true number of rows, and no cone's
`usize` size arithmetic wraps -/
theorem numel_of_checkedSum (cones : List (ConeT α)) (k : Nat)
    (h : checkedSum cones = some k) : numel cones = k ∧ NoWrap cones := by
  have := checkedSum_go cones 0 k h
  exact ⟨by omega, this.2.1⟩

/-- when the checked sum exists the wrapping sum of `_check_dimensions` is the same number -/
theorem wrappingSum_of_checkedSum (cones : List (ConeT α)) (k : Nat)
    (h : checkedSum cones = some k) : wrappingSum cones = k :=
  (checkedSum_go cones 0 k h).2.2

/-- the pre-fix sum (before /repo fb4bc53): `acc.checked_add(cone.nvars())` with the wrapping
`nvars()` -/
def checkedSumOld (cones : List (ConeT α)) : Option Nat :=
  cones.foldl (fun acc c => acc.bind (fun a =>
    if a + nvarsU c < usizeMod then some (a + nvarsU c) else none)) (some 0)

theorem numel_filter_nonempty (cones : List (ConeT α)) :
    numel (cones.filter (fun c => c.nvars != 0)) = numel cones := by
  induction cones with
  | nil => rfl
  | cons c cs ih =>
    by_cases hc : c.nvars = 0
    · simp [hc, numel, ih]
    · simp [hc, numel, ih]

theorem effectiveCones_of_noWrap (cones : List (ConeT α)) (hw : NoWrap cones) :
    effectiveCones cones = cones.filter (fun c => c.nvars != 0) := by
  unfold effectiveCones
  apply List.filter_congr
  intro c hc
  rw [nvarsU_eq_of_noWrap c (hw c hc)]

theorem foldl_add_map_nvars (cones : List (ConeT α)) (a : Nat) :
    (cones.map ConeT.nvars).foldl (fun acc c => acc + c) a = a + numel cones := by
  induction cones generalizing a with
  | nil => simp [numel]
  | cons c cs ih => simp only [List.map_cons, List.foldl_cons, ih, numel]; omega

/-! ### the verdict of the validation -/

/-- the dimension clause of `load_from_file`, as a proposition -/
def DimsOk (d : Record α γ) : Prop :=
  d.P.m = d.P.n ∧ d.P.n = d.q.size ∧ d.A.n = d.q.size ∧ d.A.m = d.b.size ∧
    checkedSum d.cones = some d.b.size

instance (d : Record α γ) : Decidable (DimsOk d) := by unfold DimsOk; infer_instance

/-- the input handed to `DefaultSolver::new` for an accepted record -/
def inputOf (d : Record α γ) (arg : Option (LSettings α γ)) : SolverInput α γ :=
  { P := d.P, q := d.q, A := d.A, b := d.b, cones := d.cones, settings := loadSettings d.settings arg }

theorem dims_test_iff (d : Record α γ) :
    (!d.P.isSquare || d.P.n != d.q.size || d.A.n != d.q.size || d.A.m != d.b.size
      || checkedSum d.cones != some d.b.size) = false ↔ DimsOk d := by
  simp only [Bool.or_eq_false_iff, Bool.not_eq_false', bne_eq_false_iff_eq, Csc.isSquare,
    beq_iff_eq, DimsOk, and_assoc]

/-- `check_format` accepted ⇒ the first column pointer is zero: the separate test of
`load_from_file` is dead code since /repo 190e6c4 -/
theorem colptr_first_of_checkFormat (M : Csc α) (h : M.checkFormat = .ok ()) :
    M.colptr[0]? = some 0 := by
  have hc := (C16.check_format_iff M).mp h
  have hs := hc.canon.colptr_size
  have h0 := hc.colptr_zero
  have hlt : 0 < M.colptr.size := by omega
  rw [Array.getD_eq_getD_getElem?, Array.getElem?_eq_getElem hlt] at h0
  rw [Array.getElem?_eq_getElem hlt]
  simpa using h0

section verdict
variable [Add α] [Sub α] [Mul α] [LT α] [DecidableLT α] [OfNat α 0] [OfNat α 1] [OfScientific α]
  [FloatLike α]

/-- **The verdict, test by test** (the order of the Rust code). -/
theorem loadRecord_cases (ft : Features) (d : Record α γ) (arg : Option (LSettings α γ)) :
    (∀ e, d.P.checkFormat = .error e → loadRecord ft d arg = .error (.invalidP e)) ∧
    (d.P.checkFormat = .ok () → ∀ e, d.A.checkFormat = .error e →
      loadRecord ft d arg = .error (.invalidA e)) ∧
    (d.P.checkFormat = .ok () → d.A.checkFormat = .ok () →
      ∀ f, validateSettings ft (loadSettings d.settings arg) = .error f →
      loadRecord ft d arg = .error (.settings f)) ∧
    (d.P.checkFormat = .ok () → d.A.checkFormat = .ok () →
      validateSettings ft (loadSettings d.settings arg) = .ok () →
      d.cones.any badGenpow = true → loadRecord ft d arg = .error .genpow) ∧
    (d.P.checkFormat = .ok () → d.A.checkFormat = .ok () →
      validateSettings ft (loadSettings d.settings arg) = .ok () →
      d.cones.any badGenpow = false → ¬ DimsOk d → loadRecord ft d arg = .error .dimensions) ∧
    (d.P.checkFormat = .ok () → d.A.checkFormat = .ok () →
      validateSettings ft (loadSettings d.settings arg) = .ok () →
      d.cones.any badGenpow = false → DimsOk d → loadRecord ft d arg = .ok (inputOf d arg)) := by
  refine ⟨?_, ?_, ?_, ?_, ?_, ?_⟩
  · intro e he; simp only [loadRecord, he]
  · intro hP e he; simp only [loadRecord, hP, he]
  · intro hP hA f hf
    have h0 : (d.P.colptr[0]? != some 0 || d.A.colptr[0]? != some 0) = false := by
      simp [colptr_first_of_checkFormat _ hP, colptr_first_of_checkFormat _ hA]
    simp only [loadRecord, hP, hA, h0, Bool.false_eq_true, ↓reduceIte, hf]
  · intro hP hA hS hg
    have h0 : (d.P.colptr[0]? != some 0 || d.A.colptr[0]? != some 0) = false := by
      simp [colptr_first_of_checkFormat _ hP, colptr_first_of_checkFormat _ hA]
    simp only [loadRecord, hP, hA, h0, Bool.false_eq_true, ↓reduceIte, hS, hg]
  · intro hP hA hS hg hD
    have h0 : (d.P.colptr[0]? != some 0 || d.A.colptr[0]? != some 0) = false := by
      simp [colptr_first_of_checkFormat _ hP, colptr_first_of_checkFormat _ hA]
    have hd : (!d.P.isSquare || d.P.n != d.q.size || d.A.n != d.q.size || d.A.m != d.b.size
      || checkedSum d.cones != some d.b.size) = true := by
      cases hx : (!d.P.isSquare || d.P.n != d.q.size || d.A.n != d.q.size || d.A.m != d.b.size
        || checkedSum d.cones != some d.b.size) with
      | true => rfl
      | false => exact absurd ((dims_test_iff d).mp hx) hD
    simp only [loadRecord, hP, hA, h0, Bool.false_eq_true, ↓reduceIte, hS, hg, hd]
  · intro hP hA hS hg hD
    have h0 : (d.P.colptr[0]? != some 0 || d.A.colptr[0]? != some 0) = false := by
      simp [colptr_first_of_checkFormat _ hP, colptr_first_of_checkFormat _ hA]
    have hd := (dims_test_iff d).mpr hD
    simp only [loadRecord, hP, hA, h0, Bool.false_eq_true, ↓reduceIte, hS, hg, hd, inputOf]

/-- an accepted record passed every test, and the input is the record with the effective
settings -/
theorem loadRecord_ok (ft : Features) (d : Record α γ) (arg : Option (LSettings α γ))
    (inp : SolverInput α γ) (h : loadRecord ft d arg = .ok inp) :
    d.P.checkFormat = .ok () ∧ d.A.checkFormat = .ok () ∧
    validateSettings ft (loadSettings d.settings arg) = .ok () ∧
    d.cones.any badGenpow = false ∧ DimsOk d ∧ inp = inputOf d arg := by
  obtain ⟨c1, c2, c3, c4, c5, c6⟩ := loadRecord_cases ft d arg
  cases hP : d.P.checkFormat with
  | error e => rw [c1 e hP] at h; cases h
  | ok u =>
    cases u
    cases hA : d.A.checkFormat with
    | error e => rw [c2 hP e hA] at h; cases h
    | ok u =>
      cases u
      cases hS : validateSettings ft (loadSettings d.settings arg) with
      | error f => rw [c3 hP hA f hS] at h; cases h
      | ok u =>
        cases u
        cases hg : d.cones.any badGenpow with
        | true => rw [c4 hP hA hS hg] at h; cases h
        | false =>
          by_cases hD : DimsOk d
          · rw [c6 hP hA hS hg hD] at h
            injection h with h
            exact ⟨rfl, rfl, rfl, rfl, hD, h.symm⟩
          · rw [c5 hP hA hS hg hD] at h; cases h

/-- the `colptr` error is never returned (dead test) -/
theorem loadRecord_ne_colptr (ft : Features) (d : Record α γ) (arg : Option (LSettings α γ)) :
    loadRecord ft d arg ≠ .error .colptr := by
  obtain ⟨c1, c2, c3, c4, c5, c6⟩ := loadRecord_cases ft d arg
  intro h
  cases hP : d.P.checkFormat with
  | error e => rw [c1 e hP] at h; cases h
  | ok u =>
    cases u
    cases hA : d.A.checkFormat with
    | error e => rw [c2 hP e hA] at h; cases h
    | ok u =>
      cases u
      cases hS : validateSettings ft (loadSettings d.settings arg) with
      | error f => rw [c3 hP hA f hS] at h; cases h
      | ok u =>
        cases u
        cases hg : d.cones.any badGenpow with
        | true => rw [c4 hP hA hS hg] at h; cases h
        | false =>
          by_cases hD : DimsOk d
          · rw [c6 hP hA hS hg hD] at h; cases h
          · rw [c5 hP hA hS hg hD] at h; cases h

end verdict

/-! ### what an accepted record guarantees for `DefaultSolver::new` -/

section pre
variable [Add α] [Sub α] [Mul α] [Div α] [Neg α] [LT α] [LE α] [DecidableLT α] [DecidableLE α]
  [BEq α] [OfNat α 0] [OfNat α 1] [OfNat α 2] [OfNat α 3] [OfScientific α] [FloatLike α]

omit [Neg α] [LE α] [DecidableLE α] [BEq α] [OfNat α 2] [OfNat α 3] in
/-- the exponent test of `load_from_file` is the pair of assertions of `GenPowerConeData::new` -/
theorem genpowNew_ok_iff (αs : Array α) : genpowOk αs = true ↔ ∃ ψ, GenPow.new αs = .ok ψ := by
  unfold genpowOk GenPow.new
  by_cases h1 : αs.toList.all (fun r => 0 < r) = true
  · by_cases h2 : fabs (1 - Vec.sum αs) < FloatLike.eps * FloatLike.ofNat αs.size * (0.5 : α)
    · simp [h1, h2, pure, Except.pure]
    · simp [h1, h2, throw, throwThe, MonadExceptOf.throw]
  · simp [h1, throw, throwThe, MonadExceptOf.throw]

/-- everything `DefaultSolver::new` asserts or indexes on before the numerical work -/
structure NewPre (ft : Features) (inp : SolverInput α γ) : Prop where
  /-- the five asserts of `_check_dimensions` (with the true cone sizes) -/
  checkDims : Loop.checkDimensions inp.P.m inp.P.n inp.q.size inp.A.m inp.A.n inp.b.size
    (inp.cones.map ConeT.nvars) = .ok ()
  /-- `P`, `A` are canonical CSC encodings: `colptr[0] = 0`, monotone, last = nnz, lengths
  consistent, rows strictly increasing per column and in range (`to_triu`, `select_rows`,
  `lrscale`, `gemv`, the KKT assembly index on exactly these facts) -/
  canonP : C16.Canonical0 inp.P
  canonA : C16.Canonical0 inp.A
  squareP : inp.P.m = inp.P.n
  colsP : inp.P.n = inp.q.size
  colsA : inp.A.n = inp.q.size
  rowsA : inp.A.m = inp.b.size
  /-- the cone sizes add up to the number of rows (`assert_eq!(cones.numel, data.m)`, the
  ranges of `rng_cones`) -/
  numel : numel inp.cones = inp.b.size
  /-- the assertions of `GenPowerCone::new` -/
  genpow : ∀ αs d, ConeT.genpow αs d ∈ inp.cones → ∃ ψ, GenPow.new αs = .ok ψ
  /-- the option strings `DefaultKKTSystem::new` / the chordal code `match` on -/
  settings : validateSettings ft inp.settings = .ok ()

omit [Neg α] [LE α] [DecidableLE α] [BEq α] [OfNat α 2] [OfNat α 3] in
theorem newPre_of_loadRecord (ft : Features) (d : Record α γ) (arg : Option (LSettings α γ))
    (inp : SolverInput α γ) (h : loadRecord ft d arg = .ok inp) :
    NewPre ft inp := by
  obtain ⟨hP, hA, hS, hg, hD, rfl⟩ := loadRecord_ok ft d arg inp h
  obtain ⟨h1, h2, h3, h4, h5⟩ := hD
  have hnum : numel d.cones = d.b.size := (numel_of_checkedSum d.cones _ h5).1
  refine ⟨?_, (C16.check_format_iff _).mp hP, (C16.check_format_iff _).mp hA, h1, h2, h3, h4, hnum,
    ?_, hS⟩
  · simp only [inputOf, Loop.checkDimensions, foldl_add_map_nvars, hnum, Nat.zero_add]
    simp [h1, h2, h3, h4, pure, Except.pure]
  · intro αs dd hmem
    apply (genpowNew_ok_iff αs).mp
    have := List.any_eq_false.mp hg _ hmem
    simpa [badGenpow] using this

omit [Add α] [Div α] [Neg α] [LE α] [DecidableLE α] [BEq α] [OfNat α 2] [OfNat α 3] [OfScientific α] in
/-- switching the chordal flag on can only replace the result by the model's
`chordal-not-modelled` answer (never by a panic) -/
theorem new_chordal_cases (P : Csc α) (q : Array α) (A : Csc α) (b : Array α) (cones : List (ConeT α))
    (pre : Bool) (inf : α) (dd : ProblemData α)
    (h : ProblemData.new P q A b cones pre false inf = .ok dd) (chord : Bool) :
    ProblemData.new P q A b cones pre chord inf = .ok dd ∨
    ProblemData.new P q A b cones pre chord inf = .error (.err "chordal-not-modelled") := by
  unfold ProblemData.new at h ⊢
  simp only [bind, Except.bind, pure, Except.pure, Bool.false_and, Bool.false_eq_true,
    ↓reduceIte] at h ⊢
  cases h1 : ProblemData.triuStep P with
  | error e => rw [h1] at h; cases h
  | ok Pn =>
    rw [h1] at h; simp only [] at h ⊢
    cases h2 : ProblemData.tryPresolver b (newCollapsed cones) pre inf with
    | error e => rw [h2] at h; cases h
    | ok pres =>
      rw [h2] at h; simp only [] at h ⊢
      cases h3 : ProblemData.reduceStep pres A b (newCollapsed cones) with
      | error e => rw [h3] at h; cases h
      | ok r =>
        rw [h3] at h; simp only [] at h ⊢
        by_cases hc : (chord && ProblemData.hasLargePsd r.2.2) = true
        · right; simp [hc, throw, throwThe, MonadExceptOf.throw]
        · left; simp only [hc, Bool.false_eq_true, ↓reduceIte]; exact h

omit [Neg α] [LE α] [DecidableLE α] [BEq α] [OfNat α 2] [OfNat α 3] [OfScientific α] in
/-- **no panic in the modelled part of `DefaultSolver::new`** for an input satisfying the
preconditions: `_check_dimensions` passes, no cone constructor sees a wrapped size, and
`DefaultProblemData::new` (collapse, upper triangle, presolve, row selection, cap) returns
its record; with the chordal flag the model may answer `chordal-not-modelled`, which is not a
panic. -/
theorem buildFromInput_ok (inp : SolverInput α γ) (inf : α)
    (hcanA : C16.Canonical0 inp.A) (hsq : inp.P.m = inp.P.n) (hcP : inp.P.n = inp.q.size)
    (hcA : inp.A.n = inp.q.size) (hrA : inp.A.m = inp.b.size)
    (hsum : checkedSum inp.cones = some inp.b.size) :
    ∃ dd, ProblemData.new inp.P inp.q inp.A inp.b (inp.cones.filter (fun c => c.nvars != 0))
        inp.settings.rest.presolveEnable false inf = .ok dd ∧
      (buildFromInput inp inf = .ok dd ∨
        buildFromInput inp inf = .error (.err "chordal-not-modelled")) ∧
      (inp.settings.rest.chordalEnable = false → buildFromInput inp inf = .ok dd) := by
  obtain ⟨hnum, hw⟩ := numel_of_checkedSum _ _ hsum
  have hnum' : numel (inp.cones.filter (fun c => c.nvars != 0)) = inp.b.size := by
    rw [numel_filter_nonempty]; exact hnum
  obtain ⟨_, _, dd, _, _, _, _, hnew, _⟩ :=
    C09.problemdata_new_spec inp.P inp.q inp.A inp.b (inp.cones.filter (fun c => c.nvars != 0))
      inp.settings.rest.presolveEnable inf hcanA.canon hrA hnum' hsq
  have hdims : Loop.checkDimensions inp.P.m inp.P.n inp.q.size inp.A.m inp.A.n inp.b.size
      [wrappingSum inp.cones] = .ok () := by
    simp only [Loop.checkDimensions, wrappingSum_of_checkedSum _ _ hsum, List.foldl_cons,
      List.foldl_nil, Nat.zero_add]
    simp [hsq, hcP, hcA, hrA, pure, Except.pure]
  have hany : (effectiveCones inp.cones).any sizeOverflow = false := by
    apply List.any_eq_false.mpr
    intro c hc
    have hmem : c ∈ inp.cones := (List.mem_filter.mp hc).1
    simp [sizeOverflow, hw c hmem]
  have hbuild : buildFromInput inp inf =
      ProblemData.new inp.P inp.q inp.A inp.b (inp.cones.filter (fun c => c.nvars != 0))
        inp.settings.rest.presolveEnable inp.settings.rest.chordalEnable inf := by
    rw [effectiveCones_of_noWrap _ hw] at hany
    unfold buildFromInput
    simp only [effectiveCones_of_noWrap _ hw, hdims, bind, Except.bind, hany, Bool.false_eq_true,
      ↓reduceIte]
  refine ⟨dd, hnew, ?_, ?_⟩
  · rw [hbuild]; exact new_chordal_cases _ _ _ _ _ _ _ _ hnew _
  · intro hc; rw [hbuild, hc]; exact hnew

end pre

/-! ### the record round trip `save_to_file` → `load_from_file` -/

/-- replacing the value array by one of the same length does not change the verdict of
`check_format` (it reads `nzval` through its length only) -/
theorem checkFormat_withNzval (M : Csc α) (v : Array α) (hv : v.size = M.nzval.size) :
    ({ M with nzval := v } : Csc α).checkFormat = M.checkFormat := by
  simp only [Csc.checkFormat, Csc.checkDimensions, Csc.colRows, hv]
  rfl

theorem isTriu_withNzval (M : Csc α) (v : Array α) :
    ({ M with nzval := v } : Csc α).isTriu = M.isTriu := by
  simp only [Csc.isTriu, Csc.colRows]

/-- `validate` reads the option strings only; the `time_limit` representation is irrelevant -/
theorem validateSettings_desanitize_sanitize (ft : Features) (st : LSettings α γ) :
    validateSettings ft (desanitize (sanitize st)) = validateSettings ft st := by
  obtain ⟨tl, rest⟩ := st
  cases tl <;> rfl

/-- the settings the loaded solver gets for a saved record -/
theorem loadSettings_sanitize (st : LSettings α γ) (arg : Option (LSettings α γ)) :
    loadSettings (sanitize st) arg = arg.getD (desanitize (sanitize st)) := rfl

section save
variable [Add α] [Sub α] [Mul α] [Div α] [LT α] [DecidableLT α] [OfNat α 0] [OfNat α 1]
  [OfScientific α] [FloatLike α]

/-- what makes a solver state a well-formed problem for the loader: canonical patterns,
matching dimensions, valid cone parameters, cone sizes adding up (in `usize`) to `m` -/
structure SaveState.Wf (s : SaveState α γ) : Prop where
  fmtP : s.st.P.checkFormat = .ok ()
  fmtA : s.st.A.checkFormat = .ok ()
  squareP : s.st.P.m = s.st.P.n
  colsP : s.st.P.n = s.st.q.size
  colsA : s.st.A.n = s.st.q.size
  rowsA : s.st.A.m = s.st.b.size
  genpow : s.cones.any badGenpow = false
  sum : checkedSum s.cones = some s.st.b.size

/-- the input the loader builds from a saved record -/
def savedInput (s : SaveState α γ) (arg : Option (LSettings α γ)) : SolverInput α γ :=
  { P := { s.st.P with nzval := (saveData s.st).P }, q := (saveData s.st).q,
    A := { s.st.A with nzval := (saveData s.st).A }, b := (saveData s.st).b,
    cones := s.cones, settings := arg.getD (desanitize (sanitize s.settings)) }

/-- **record-level round trip**: loading what `save_to_file` wrote succeeds and hands
`DefaultSolver::new` the saved patterns and numbers, the same cone list, and the supplied
settings resp. the de-sanitised saved settings. -/
theorem load_saveRecord (ft : Features) (s : SaveState α γ) (arg : Option (LSettings α γ))
    (hw : s.Wf) (hS : validateSettings ft (arg.getD s.settings) = .ok ()) :
    loadRecord ft (saveRecord s) arg = .ok (savedInput s arg) := by
  have hsP : (saveData s.st).P.size = s.st.P.nzval.size := by simp [saveData]
  have hsA : (saveData s.st).A.size = s.st.A.nzval.size := by simp [saveData]
  have hsq : (saveData s.st).q.size = s.st.q.size := by simp [saveData]
  have hsb : (saveData s.st).b.size = s.st.b.size := by simp [saveData]
  have hP : (saveRecord s).P.checkFormat = .ok () := by
    simp only [saveRecord]; rw [checkFormat_withNzval _ _ hsP]; exact hw.fmtP
  have hA : (saveRecord s).A.checkFormat = .ok () := by
    simp only [saveRecord]; rw [checkFormat_withNzval _ _ hsA]; exact hw.fmtA
  have hSet : validateSettings ft (loadSettings (saveRecord s).settings arg) = .ok () := by
    simp only [saveRecord, loadSettings_sanitize]
    cases arg with
    | none => simpa [validateSettings_desanitize_sanitize] using hS
    | some a => simpa using hS
  have hD : DimsOk (saveRecord s) := by
    refine ⟨hw.squareP, ?_, ?_, ?_, ?_⟩
    · simp only [saveRecord, hsq]; exact hw.colsP
    · simp only [saveRecord, hsq]; exact hw.colsA
    · simp only [saveRecord, hsb]; exact hw.rowsA
    · simp only [saveRecord, hsb]; exact hw.sum
  have := (loadRecord_cases ft (saveRecord s) arg).2.2.2.2.2 hP hA hSet hw.genpow hD
  rw [this]
  rfl

end save

/-! ### loading a saved record rebuilds the same internal problem -/

section rebuild
variable [Add α] [Sub α] [Mul α] [Div α] [LT α] [DecidableLT α] [OfNat α 0] [OfNat α 1]
  [OfScientific α] [FloatLike α]

omit [Add α] [Sub α] [Mul α] [Div α] [LT α] [DecidableLT α] [OfNat α 0] [OfNat α 1]
  [OfScientific α] [FloatLike α] in
theorem filter_nonempty_of_normal (cones : List (ConeT α)) (h : Normal cones) :
    cones.filter (fun c => c.nvars != 0) = cones := by
  apply List.filter_eq_self.mpr
  intro c hc
  have := (mem_good_of_normal h c hc).1
  simpa using this

/-- **`new(saved record)` re-derives the saved internal problem** (presolve off): for a solver
state whose cone list is in the normal form `new_collapsed` produces and whose `P` is stored
as an upper triangle — both hold for every `solver.data` — the constructor applied to the
loaded input keeps the cone list, the patterns and the numbers, and caps `b`. -/
theorem build_savedInput (s : SaveState α γ) (arg : Option (LSettings α γ)) (inf : α)
    (hw : s.Wf) (hnorm : Normal s.cones) (htriu : s.st.P.isTriu = true)
    (hpre : (savedInput s arg).settings.rest.presolveEnable = false)
    (hch : (savedInput s arg).settings.rest.chordalEnable = false) :
    ∃ dd, buildFromInput (savedInput s arg) inf = .ok dd ∧
      dd.cones = s.cones ∧ dd.P = (savedInput s arg).P ∧ dd.q = (savedInput s arg).q ∧
      dd.A = (savedInput s arg).A ∧ dd.b = ProblemData.capB (savedInput s arg).b inf ∧
      dd.presolver = none := by
  have hsP : (saveData s.st).P.size = s.st.P.nzval.size := by simp [saveData]
  have hsA : (saveData s.st).A.size = s.st.A.nzval.size := by simp [saveData]
  have hsq : (saveData s.st).q.size = s.st.q.size := by simp [saveData]
  have hsb : (saveData s.st).b.size = s.st.b.size := by simp [saveData]
  have hcanA : C16.Canonical0 (savedInput s arg).A := by
    apply (C16.check_format_iff _).mp
    simp only [savedInput]; rw [checkFormat_withNzval _ _ hsA]; exact hw.fmtA
  have hsq' : (savedInput s arg).P.m = (savedInput s arg).P.n := hw.squareP
  have hcP : (savedInput s arg).P.n = (savedInput s arg).q.size := by
    simp only [savedInput, hsq]; exact hw.colsP
  have hcA : (savedInput s arg).A.n = (savedInput s arg).q.size := by
    simp only [savedInput, hsq]; exact hw.colsA
  have hrA : (savedInput s arg).A.m = (savedInput s arg).b.size := by
    simp only [savedInput, hsb]; exact hw.rowsA
  have hsum : checkedSum (savedInput s arg).cones = some (savedInput s arg).b.size := by
    simp only [savedInput, hsb]; exact hw.sum
  obtain ⟨dd, hnew, _, hok⟩ := buildFromInput_ok (savedInput s arg) inf hcanA hsq' hcP hcA hrA hsum
  have hfil : (savedInput s arg).cones.filter (fun c => c.nvars != 0) = s.cones :=
    filter_nonempty_of_normal s.cones hnorm
  rw [hfil, hpre] at hnew
  obtain ⟨hnumel, _⟩ := numel_of_checkedSum _ _ hsum
  obtain ⟨keep, Pn, d0, _, _, _, hPn, hnew0, hdP, hdq, _, _, hcase⟩ :=
    C09.problemdata_new_spec (savedInput s arg).P (savedInput s arg).q (savedInput s arg).A
      (savedInput s arg).b s.cones false inf hcanA.canon hrA hnumel hsq'
  have hdd : d0 = dd := by rw [hnew0] at hnew; injection hnew
  subst hdd
  have hPn' : Pn = (savedInput s arg).P := by
    have ht : (savedInput s arg).P.isTriu = true := by
      simp only [savedInput]; rw [isTriu_withNzval]; exact htriu
    unfold ProblemData.triuStep at hPn
    simp only [ht, Bool.not_true, Bool.false_eq_true, ↓reduceIte, pure, Except.pure] at hPn
    injection hPn with hPn; exact hPn.symm
  simp only [Bool.false_eq_true, false_and, ↓reduceIte] at hcase
  obtain ⟨hA, hb, hc, _, hp⟩ := hcase
  refine ⟨d0, hok hch, ?_, ?_, hdq, hA, hb, hp⟩
  · rw [hc]; exact C09.collapse_fixpoint s.cones hnorm
  · rw [hdP, hPn']

end rebuild

/-! ### concrete data for the non-vacuity examples of `Props/C19.lean` -/

section example_
open Clarabel.Update

/-- a `FloatLike ℚ` for the examples (`ε = 2⁻⁵²`) -/
@[reducible] def floatLikeQ : FloatLike ℚ :=
  ⟨id, id, id, fun a _ => a, max, min, abs, fun _ => false, fun _ => true, 1 / 4503599627370496,
   fun n => n⟩

attribute [local instance] floatLikeQ

def exFeatures : Features := { faer := true, sdp := true }

def exSettings : LSettings ℚ Unit :=
  { timeLimit := .infinity,
    rest := { directSolveMethod := "qdldl", mergeMethod := "none", presolveEnable := false,
              chordalEnable := false, other := () } }

/-- the equilibrated 1×1 solver state of C08 (`d = 2`, `e = 3`, `c = 2`) with one nonnegative
cone -/
def exSave : SaveState ℚ Unit := { st := exStateQ, cones := [.nonneg 1], settings := exSettings }

theorem exSave_wf : exSave.Wf := ⟨rfl, rfl, rfl, rfl, rfl, rfl, rfl, rfl⟩

theorem exSettings_valid : validateSettings exFeatures exSettings = .ok () := by
  simp [validateSettings, validDirectSolveMethod, validMergeMethod, exSettings, exFeatures]

/-- a record that is a well-formed problem … -/
def exRecord : Record ℚ Unit :=
  { P := ⟨1, 1, #[0, 1], #[0], #[8]⟩, q := #[4], A := ⟨1, 1, #[0, 1], #[0], #[6]⟩, b := #[3],
    cones := [.nonneg 1], settings := exSettings }

theorem exRecord_loads : loadRecord exFeatures exRecord none = .ok (inputOf exRecord none) :=
  (loadRecord_cases exFeatures exRecord none).2.2.2.2.2 rfl rfl exSettings_valid rfl (by decide)

/-- … one whose `P` has a shifted first column pointer … -/
def exRecordBadP : Record ℚ Unit := { exRecord with P := ⟨1, 1, #[1, 1], #[0], #[8]⟩ }

/-- … and one whose cone list has the wrong size -/
def exRecordBadDims : Record ℚ Unit := { exRecord with cones := [.nonneg 2] }

end example_

end Clarabel.JsonLoad
