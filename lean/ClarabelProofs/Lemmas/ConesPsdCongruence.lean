/-
  C15 / C13, PSD cone: the *congruence bridge* between the Nesterov–Todd scaled space, in
  which `PSDTriangleCone::step_length` works, and the original coordinates.

  The step-length code looks at `Λ + t·mat(WΔz)` and `Λ + t·mat(W⁻ᵀΔs)` (`Λ = diag λ`).  With
  the NT identities `Rᵀ·mat(z)·R = Λ`, `R⁻¹·mat(s)·R⁻ᵀ = Λ`, `R·R⁻¹ = I` one has

      Rᵀ (Z + tΔZ) R = Λ + t·mat(WΔz),      R⁻¹ (S + tΔS) R⁻ᵀ = Λ + t·mat(W⁻ᵀΔs),

  and congruence by an invertible matrix preserves positive definiteness, positive
  semidefiniteness and singularity (the elementary half of Sylvester's law of inertia:
  `xᵀ(PᵀMP)x = (Px)ᵀM(Px)` and `x ≠ 0 ⇔ Px ≠ 0`).  Hence everything `stepLength_spec` says about
  the scaled iterate holds verbatim for the unscaled iterates `Z + tΔZ`, `S + tΔS`
  (`stepLength_spec_unscaled`).  `assembleScaling_contracts` derives the NT contract `NtOk` and
  the scaling contract `ScalingOk` from the LAPACK contracts (Cholesky, SVD).
-/
import ClarabelProofs.Lemmas.ConesPsdStep
import ClarabelProofs.Lemmas.ConesPsdScaling
import Mathlib.Data.Matrix.Mul

noncomputable section

namespace Clarabel.PsdStep
open PsdTri Finset Matrix
open PsdIndex (triangularNumber)

/-! ## quadratic forms of entry functions as Mathlib dot products -/

/-- a vector on `Fin n` as a function on `Nat` (zero outside) -/
def extV {n : Nat} (x : Fin n → ℝ) : Nat → ℝ := fun i => if h : i < n then x ⟨i, h⟩ else 0

theorem restrict_extV {n : Nat} (x : Fin n → ℝ) : (fun i : Fin n => extV x i) = x := by
  funext i
  simp [extV, i.2]

theorem nrm2_pos_iff_ne_zero (n : Nat) (v : Nat → ℝ) :
    0 < nrm2 n v ↔ (fun i : Fin n => v i) ≠ 0 := by
  rw [nrm2_pos_iff]
  constructor
  · rintro ⟨i, hi, hv⟩ h0
    exact hv (congrFun h0 ⟨i, hi⟩)
  · intro h
    by_contra hne
    apply h
    funext i
    by_contra hi
    exact hne ⟨i, i.2, hi⟩

theorem qform_eq_dot (n : Nat) (M : MatFn ℝ) (v : Nat → ℝ) :
    qform n M v = (fun i : Fin n => v i) ⬝ᵥ (toM n M *ᵥ fun i : Fin n => v i) := by
  unfold qform
  simp only [dotProduct, Matrix.mulVec, toM_apply, sum_range_fin, mul_sum]
  exact sum_congr rfl fun i _ => sum_congr rfl fun j _ => by ring

theorem posDef_iff_matrix (n : Nat) (M : MatFn ℝ) :
    PosDef n M ↔ ∀ x : Fin n → ℝ, x ≠ 0 → 0 < x ⬝ᵥ (toM n M *ᵥ x) := by
  constructor
  · intro h x hx
    have := h (extV x) ((nrm2_pos_iff_ne_zero n _).mpr (by rw [restrict_extV]; exact hx))
    rwa [qform_eq_dot, restrict_extV] at this
  · intro h v hv
    rw [qform_eq_dot]
    exact h _ ((nrm2_pos_iff_ne_zero n v).mp hv)

theorem posSemidef_iff_matrix (n : Nat) (M : MatFn ℝ) :
    PosSemidef n M ↔ ∀ x : Fin n → ℝ, 0 ≤ x ⬝ᵥ (toM n M *ᵥ x) := by
  constructor
  · intro h x
    have := h (extV x)
    rwa [qform_eq_dot, restrict_extV] at this
  · intro h v
    rw [qform_eq_dot]
    exact h _

theorem singular_iff_matrix (n : Nat) (M : MatFn ℝ) :
    (∃ v, 0 < nrm2 n v ∧ qform n M v = 0)
      ↔ ∃ x : Fin n → ℝ, x ≠ 0 ∧ x ⬝ᵥ (toM n M *ᵥ x) = 0 := by
  constructor
  · rintro ⟨v, hv, hq⟩
    exact ⟨_, (nrm2_pos_iff_ne_zero n v).mp hv, by rw [← qform_eq_dot]; exact hq⟩
  · rintro ⟨x, hx, hq⟩
    refine ⟨extV x, (nrm2_pos_iff_ne_zero n _).mpr (by rw [restrict_extV]; exact hx), ?_⟩
    rw [qform_eq_dot, restrict_extV]
    exact hq

/-! ## congruence by an invertible matrix -/

/-- `xᵀ(PᵀAP)x = (Px)ᵀA(Px)` -/
theorem dot_congr {n : Nat} (A P : Matrix (Fin n) (Fin n) ℝ) (x : Fin n → ℝ) :
    x ⬝ᵥ ((Pᵀ * A * P) *ᵥ x) = (P *ᵥ x) ⬝ᵥ (A *ᵥ (P *ᵥ x)) := by
  rw [← Matrix.mulVec_mulVec, ← Matrix.mulVec_mulVec, Matrix.dotProduct_mulVec,
    Matrix.vecMul_transpose]

theorem mulVec_cancel {n : Nat} {P Q : Matrix (Fin n) (Fin n) ℝ} (hPQ : P * Q = 1)
    (y : Fin n → ℝ) : P *ᵥ (Q *ᵥ y) = y := by
  rw [Matrix.mulVec_mulVec, hPQ, Matrix.one_mulVec]

theorem mulVec_ne_zero {n : Nat} {P Q : Matrix (Fin n) (Fin n) ℝ} (hPQ : P * Q = 1)
    {x : Fin n → ℝ} (hx : x ≠ 0) : P *ᵥ x ≠ 0 := by
  intro h0
  apply hx
  have := mulVec_cancel (mul_eq_one_comm.mp hPQ) x
  rw [h0, Matrix.mulVec_zero] at this
  exact this.symm

theorem mulVec_ne_zero' {n : Nat} {P Q : Matrix (Fin n) (Fin n) ℝ} (hPQ : P * Q = 1)
    {y : Fin n → ℝ} (hy : y ≠ 0) : Q *ᵥ y ≠ 0 :=
  mulVec_ne_zero (mul_eq_one_comm.mp hPQ) hy

/-- congruence by an invertible matrix: `B = PᵀAP`, `P·Q = I` -/
theorem PosDef.congr_iff {n : Nat} {A B : MatFn ℝ} {P Q : Matrix (Fin n) (Fin n) ℝ}
    (hB : toM n B = Pᵀ * toM n A * P) (hPQ : P * Q = 1) : PosDef n B ↔ PosDef n A := by
  rw [posDef_iff_matrix, posDef_iff_matrix, hB]
  constructor
  · intro h y hy
    have := h (Q *ᵥ y) (mulVec_ne_zero' hPQ hy)
    rwa [dot_congr, mulVec_cancel hPQ] at this
  · intro h x hx
    rw [dot_congr]
    exact h _ (mulVec_ne_zero hPQ hx)

theorem PosSemidef.congr_iff {n : Nat} {A B : MatFn ℝ} {P Q : Matrix (Fin n) (Fin n) ℝ}
    (hB : toM n B = Pᵀ * toM n A * P) (hPQ : P * Q = 1) : PosSemidef n B ↔ PosSemidef n A := by
  rw [posSemidef_iff_matrix, posSemidef_iff_matrix, hB]
  constructor
  · intro h y
    have := h (Q *ᵥ y)
    rwa [dot_congr, mulVec_cancel hPQ] at this
  · intro h x
    rw [dot_congr]
    exact h _

theorem singular_congr_iff {n : Nat} {A B : MatFn ℝ} {P Q : Matrix (Fin n) (Fin n) ℝ}
    (hB : toM n B = Pᵀ * toM n A * P) (hPQ : P * Q = 1) :
    (∃ v, 0 < nrm2 n v ∧ qform n B v = 0) ↔ ∃ v, 0 < nrm2 n v ∧ qform n A v = 0 := by
  rw [singular_iff_matrix, singular_iff_matrix, hB]
  constructor
  · rintro ⟨x, hx, hq⟩
    exact ⟨P *ᵥ x, mulVec_ne_zero hPQ hx, by rw [← dot_congr]; exact hq⟩
  · rintro ⟨y, hy, hq⟩
    exact ⟨Q *ᵥ y, mulVec_ne_zero' hPQ hy, by rw [dot_congr, mulVec_cancel hPQ]; exact hq⟩

/-! ## the Nesterov–Todd contract and the two congruences -/

/-- the unscaled iterate `mat(z) + t·mat(dz)` (original coordinates) -/
def unscaled (z dz : Array ℝ) (t : ℝ) : MatFn ℝ :=
  fun i j => svecToMat z i j + t * svecToMat dz i j

/-- the Nesterov–Todd contract of a PSD block at the point `(z, s)`: sizes,
`W z = λ = W⁻ᵀ s` (as `svec(diag λ)`), `R·R⁻¹ = I` -/
def NtOk (K : Cone ℝ) (z s : Array ℝ) : Prop :=
  K.R.size = K.n * K.n ∧ K.Rinv.size = K.n * K.n ∧ z.size = triangularNumber K.n ∧
  s.size = triangularNumber K.n ∧
  mulW K false z z 1 0 = .ok (lamVec K.n K.lam) ∧
  mulWinv K true s s 1 0 = .ok (lamVec K.n K.lam) ∧
  toM K.n (matOf K.n K.R) * toM K.n (matOf K.n K.Rinv) = 1

theorem toM_pointMat (n : Nat) (lam : Array ℝ) :
    toM n (pointMat lam) = Matrix.diagonal (fun i : Fin n => lam.getD i 0) :=
  toM_diagFn n lam

theorem toM_shifted (n : Nat) (lam d : Array ℝ) (t : ℝ) :
    toM n (shifted lam d t)
      = Matrix.diagonal (fun i : Fin n => lam.getD i 0) + t • toM n (svecToMat d) := by
  rw [← toM_pointMat]
  ext i j
  simp only [toM_apply, shifted, Matrix.add_apply, Matrix.smul_apply, smul_eq_mul]

theorem toM_unscaled (n : Nat) (z dz : Array ℝ) (t : ℝ) :
    toM n (unscaled z dz t) = toM n (svecToMat z) + t • toM n (svecToMat dz) := by
  ext i j
  simp only [toM_apply, unscaled, Matrix.add_apply, Matrix.smul_apply, smul_eq_mul]

/-- a successful `mul_Wx` returns `mul_Wx_inner` -/
theorem mulWx_eq_inner (t : Bool) (n : Nat) (Rx y x : Array ℝ) (a b : ℝ) (out : Array ℝ)
    (h : mulWx t n Rx y x a b = .ok out) : out = mulWxInner t n (matOf n Rx) y x a b := by
  unfold mulWx at h
  cases hg : sizeGuard (Rx.size == n * n && x.size == PsdIndex.triangularNumber n
      && y.size == PsdIndex.triangularNumber n) with
  | error e => rw [hg] at h; cases h
  | ok u =>
    rw [hg] at h
    simp only [bind, Except.bind, pure, Except.pure, Except.ok.injEq] at h
    exact h.symm

/-- `mat(mul_W(N) x) = Rᵀ·mat(x)·R` for a successful call -/
theorem toM_mulW_N (K : Cone ℝ) (y x out : Array ℝ) (h : mulW K false y x 1 0 = .ok out) :
    toM K.n (svecToMat out)
      = (toM K.n (matOf K.n K.R))ᵀ * toM K.n (svecToMat x) * toM K.n (matOf K.n K.R) := by
  rw [mulWx_eq_inner _ _ _ _ _ _ _ _ h, toM_mulWxInner]
  simp only [shapeM, Bool.false_eq_true, if_false]

/-- `mat(mul_Winv(T) x) = R⁻¹·mat(x)·R⁻ᵀ` for a successful call (written as a congruence by
`R⁻ᵀ`) -/
theorem toM_mulWinv_T (K : Cone ℝ) (y x out : Array ℝ) (h : mulWinv K true y x 1 0 = .ok out) :
    toM K.n (svecToMat out)
      = ((toM K.n (matOf K.n K.Rinv))ᵀ)ᵀ * toM K.n (svecToMat x)
          * (toM K.n (matOf K.n K.Rinv))ᵀ := by
  rw [mulWx_eq_inner _ _ _ _ _ _ _ _ h, toM_mulWxInner]
  simp only [shapeM, if_true]

/-- `Rᵀ·mat(z)·R = Λ` -/
theorem NtOk.matZ {K : Cone ℝ} {z s : Array ℝ} (h : NtOk K z s) :
    (toM K.n (matOf K.n K.R))ᵀ * toM K.n (svecToMat z) * toM K.n (matOf K.n K.R)
      = Matrix.diagonal (fun i : Fin K.n => K.lam.getD i 0) := by
  rw [← toM_mulW_N K z z _ h.2.2.2.2.1, toM_svecToMat_lamVec]

/-- `R⁻¹·mat(s)·R⁻ᵀ = Λ` -/
theorem NtOk.matS {K : Cone ℝ} {z s : Array ℝ} (h : NtOk K z s) :
    ((toM K.n (matOf K.n K.Rinv))ᵀ)ᵀ * toM K.n (svecToMat s) * (toM K.n (matOf K.n K.Rinv))ᵀ
      = Matrix.diagonal (fun i : Fin K.n => K.lam.getD i 0) := by
  rw [← toM_mulWinv_T K s s _ h.2.2.2.2.2.1, toM_svecToMat_lamVec]

/-- `R⁻ᵀ·Rᵀ = I` -/
theorem NtOk.inv_s {K : Cone ℝ} {z s : Array ℝ} (h : NtOk K z s) :
    (toM K.n (matOf K.n K.Rinv))ᵀ * (toM K.n (matOf K.n K.R))ᵀ = 1 := by
  rw [← Matrix.transpose_mul, h.2.2.2.2.2.2, Matrix.transpose_one]

/-- `Rᵀ(Z + tΔZ)R = Λ + t·mat(WΔz)` -/
theorem shifted_eq_congr_z (K : Cone ℝ) (z s dz dzW : Array ℝ) (t : ℝ) (h : NtOk K z s)
    (hdz : mulW K false dz dz 1 0 = .ok dzW) :
    toM K.n (shifted K.lam dzW t)
      = (toM K.n (matOf K.n K.R))ᵀ * toM K.n (unscaled z dz t) * toM K.n (matOf K.n K.R) := by
  rw [toM_shifted, toM_unscaled, Matrix.mul_add, Matrix.add_mul, Matrix.mul_smul,
    Matrix.smul_mul, h.matZ, toM_mulW_N K dz dz dzW hdz]

/-- `R⁻¹(S + tΔS)R⁻ᵀ = Λ + t·mat(W⁻ᵀΔs)` -/
theorem shifted_eq_congr_s (K : Cone ℝ) (z s ds dsW : Array ℝ) (t : ℝ) (h : NtOk K z s)
    (hds : mulWinv K true ds ds 1 0 = .ok dsW) :
    toM K.n (shifted K.lam dsW t)
      = ((toM K.n (matOf K.n K.Rinv))ᵀ)ᵀ * toM K.n (unscaled s ds t)
          * (toM K.n (matOf K.n K.Rinv))ᵀ := by
  rw [toM_shifted, toM_unscaled, Matrix.mul_add, Matrix.add_mul, Matrix.mul_smul,
    Matrix.smul_mul, h.matS, toM_mulWinv_T K ds ds dsW hds]

/-! ## the congruence bridge -/

/-- [R] the congruence bridge, `z` side: `Z + tΔZ ≻ 0 ⇔ Λ + t·mat(WΔz) ≻ 0` -/
theorem posDef_unscaled_z_iff (K : Cone ℝ) (z s dz dzW : Array ℝ) (t : ℝ) (h : NtOk K z s)
    (hdz : mulW K false dz dz 1 0 = .ok dzW) :
    PosDef K.n (unscaled z dz t) ↔ PosDef K.n (shifted K.lam dzW t) :=
  (PosDef.congr_iff (shifted_eq_congr_z K z s dz dzW t h hdz) h.2.2.2.2.2.2).symm

/-- [R] the congruence bridge, `s` side: `S + tΔS ≻ 0 ⇔ Λ + t·mat(W⁻ᵀΔs) ≻ 0` -/
theorem posDef_unscaled_s_iff (K : Cone ℝ) (z s ds dsW : Array ℝ) (t : ℝ) (h : NtOk K z s)
    (hds : mulWinv K true ds ds 1 0 = .ok dsW) :
    PosDef K.n (unscaled s ds t) ↔ PosDef K.n (shifted K.lam dsW t) :=
  (PosDef.congr_iff (shifted_eq_congr_s K z s ds dsW t h hds) h.inv_s).symm

theorem posSemidef_unscaled_z_iff (K : Cone ℝ) (z s dz dzW : Array ℝ) (t : ℝ) (h : NtOk K z s)
    (hdz : mulW K false dz dz 1 0 = .ok dzW) :
    PosSemidef K.n (unscaled z dz t) ↔ PosSemidef K.n (shifted K.lam dzW t) :=
  (PosSemidef.congr_iff (shifted_eq_congr_z K z s dz dzW t h hdz) h.2.2.2.2.2.2).symm

theorem posSemidef_unscaled_s_iff (K : Cone ℝ) (z s ds dsW : Array ℝ) (t : ℝ) (h : NtOk K z s)
    (hds : mulWinv K true ds ds 1 0 = .ok dsW) :
    PosSemidef K.n (unscaled s ds t) ↔ PosSemidef K.n (shifted K.lam dsW t) :=
  (PosSemidef.congr_iff (shifted_eq_congr_s K z s ds dsW t h hds) h.inv_s).symm

theorem singular_unscaled_z_iff (K : Cone ℝ) (z s dz dzW : Array ℝ) (t : ℝ) (h : NtOk K z s)
    (hdz : mulW K false dz dz 1 0 = .ok dzW) :
    (∃ v, 0 < nrm2 K.n v ∧ qform K.n (unscaled z dz t) v = 0)
      ↔ ∃ v, 0 < nrm2 K.n v ∧ qform K.n (shifted K.lam dzW t) v = 0 :=
  (singular_congr_iff (shifted_eq_congr_z K z s dz dzW t h hdz) h.2.2.2.2.2.2).symm

theorem singular_unscaled_s_iff (K : Cone ℝ) (z s ds dsW : Array ℝ) (t : ℝ) (h : NtOk K z s)
    (hds : mulWinv K true ds ds 1 0 = .ok dsW) :
    (∃ v, 0 < nrm2 K.n v ∧ qform K.n (unscaled s ds t) v = 0)
      ↔ ∃ v, 0 < nrm2 K.n v ∧ qform K.n (shifted K.lam dsW t) v = 0 :=
  (singular_congr_iff (shifted_eq_congr_s K z s ds dsW t h hds) h.inv_s).symm

/-- `StepSpec` in original coordinates -/
def StepSpecU (n : Nat) (z dz : Array ℝ) (amax a : ℝ) : Prop :=
  0 ≤ a ∧ a ≤ amax ∧ (∀ t, 0 ≤ t → t < a → PosDef n (unscaled z dz t)) ∧
    PosSemidef n (unscaled z dz a) ∧
    (a < amax → ∃ v, 0 < nrm2 n v ∧ qform n (unscaled z dz a) v = 0)

theorem StepSpec.unscaled_z {K : Cone ℝ} {z s dz dzW : Array ℝ} {amax a : ℝ} (h : NtOk K z s)
    (hdz : mulW K false dz dz 1 0 = .ok dzW) (hsp : StepSpec K.n K.lam dzW amax a) :
    StepSpecU K.n z dz amax a := by
  obtain ⟨h0, h1, h2, h3, h4⟩ := hsp
  exact ⟨h0, h1, fun t ht hta => (posDef_unscaled_z_iff K z s dz dzW t h hdz).mpr (h2 t ht hta),
    (posSemidef_unscaled_z_iff K z s dz dzW a h hdz).mpr h3,
    fun hlt => (singular_unscaled_z_iff K z s dz dzW a h hdz).mpr (h4 hlt)⟩

theorem StepSpec.unscaled_s {K : Cone ℝ} {z s ds dsW : Array ℝ} {amax a : ℝ} (h : NtOk K z s)
    (hds : mulWinv K true ds ds 1 0 = .ok dsW) (hsp : StepSpec K.n K.lam dsW amax a) :
    StepSpecU K.n s ds amax a := by
  obtain ⟨h0, h1, h2, h3, h4⟩ := hsp
  exact ⟨h0, h1, fun t ht hta => (posDef_unscaled_s_iff K z s ds dsW t h hds).mpr (h2 t ht hta),
    (posSemidef_unscaled_s_iff K z s ds dsW a h hds).mpr h3,
    fun hlt => (singular_unscaled_s_iff K z s ds dsW a h hds).mpr (h4 hlt)⟩

/-- [R] `PSDTriangleCone::step_length` safe and tight in ORIGINAL coordinates: under the NT
contract at `(z, s)`, the scaling contract and the spectral contract for both LAPACK answers,
`Z + tΔZ ≻ 0` for `t ∈ [0, αz)`, `Z + αzΔZ ⪰ 0`, and `αz < αmax` puts `Z + αzΔZ` on the
boundary of the cone; the same for `S`. -/
theorem stepLength_spec_unscaled (K : Cone ℝ) (z s dz ds : Array ℝ) (γz γs amax : ℝ) (r : ℝ × ℝ)
    (h : stepLength K dz ds (some γz) (some γs) amax = .ok r) (hn : 0 < K.n)
    (hs : ScalingOk K.n K.lam K.lamIsqrt) (ham : 0 ≤ amax) (hnt : NtOk K z s)
    (hγz : ∀ d, mulW K false dz dz 1 0 = .ok d → IsMinEig K.n (scaledDir d K.lamIsqrt) γz)
    (hγs : ∀ d, mulWinv K true ds ds 1 0 = .ok d → IsMinEig K.n (scaledDir d K.lamIsqrt) γs) :
    StepSpecU K.n z dz amax r.1 ∧ StepSpecU K.n s ds amax r.2 := by
  obtain ⟨dzW, dsW, h1, h2, p1, p2⟩ := stepLength_spec K dz ds γz γs amax r h hn hs ham hγz hγs
  exact ⟨p1.unscaled_z hnt h1, p2.unscaled_s hnt h2⟩

/-! ## the current point -/

/-- `Λ ≻ 0` under the scaling contract -/
theorem pointMat_posDef (n : Nat) (lam lisqrt : Array ℝ) (hs : ScalingOk n lam lisqrt) :
    PosDef n (pointMat lam) := by
  intro v hv
  have hlam : ∀ i, i < n → 0 < lam.getD i 0 := by
    intro i hi
    obtain ⟨h1, h2⟩ := hs i hi
    have h3 : 0 < lisqrt.getD i 0 * lisqrt.getD i 0 := mul_pos h1 h1
    by_contra hneg
    have : lisqrt.getD i 0 * lisqrt.getD i 0 * lam.getD i 0 ≤ 0 :=
      mul_nonpos_of_nonneg_of_nonpos h3.le (not_lt.mp hneg)
    linarith
  unfold pointMat
  rw [qform_diag]
  obtain ⟨i, hi, hne⟩ := (nrm2_pos_iff n v).mp hv
  refine sum_pos' (fun j hj => mul_nonneg (hlam j (mem_range.mp hj)).le (mul_self_nonneg _))
    ⟨i, mem_range.mpr hi, mul_pos (hlam i hi) (mul_self_pos.mpr hne)⟩

/-- the current point itself is positive definite under the contracts (`t = 0`) -/
theorem NtOk.posDef (K : Cone ℝ) (z s : Array ℝ) (h : NtOk K z s)
    (hs : ScalingOk K.n K.lam K.lamIsqrt) :
    PosDef K.n (svecToMat z) ∧ PosDef K.n (svecToMat s) := by
  have hΛ := pointMat_posDef K.n K.lam K.lamIsqrt hs
  constructor
  · exact (PosDef.congr_iff (by rw [toM_pointMat]; exact h.matZ.symm) h.2.2.2.2.2.2).mp hΛ
  · exact (PosDef.congr_iff (by rw [toM_pointMat]; exact h.matS.symm) h.inv_s).mp hΛ

/-! ## LAPACK contracts ⇒ NT contract + scaling contract -/

/-- the fields `n`, `λ`, `Λisqrt` stored by `assembleScaling` -/
theorem assembleScaling_fields (n : Nat) (L1 L2 U Vt sig : Array ℝ) (K : Cone ℝ) (RRt : Array ℝ)
    (h : assembleScaling n L1 L2 U Vt sig = .ok (K, RRt)) :
    K.n = n ∧ K.lam = sig ∧ K.lamIsqrt = sig.map (fun v => 1 / sqrt v) := by
  unfold assembleScaling at h
  cases hg : sizeGuard (L1.size == n * n && L2.size == n * n && U.size == n * n
      && Vt.size == n * n && sig.size == n) with
  | error e => rw [hg] at h; cases h
  | ok u =>
    rw [hg] at h
    simp only [bind, Except.bind, pure, Except.pure, Except.ok.injEq, Prod.mk.injEq] at h
    rw [← h.1]
    exact ⟨rfl, rfl, rfl⟩

/-- [R] LAPACK contracts ⇒ NT contract + scaling contract: with Cholesky factors `S = L₁L₁ᵀ`,
`Z = L₂L₂ᵀ`, SVD `L₂ᵀL₁ = U·diag(σ)·Vt`, `UᵀU = Vt·Vtᵀ = I`, `σ > 0`, the cone assembled by
`assembleScaling` satisfies `NtOk K z s` and `ScalingOk` -/
theorem assembleScaling_contracts (n : Nat) (L1 L2 U Vt sig s z : Array ℝ)
    (h1 : L1.size = n * n) (h2 : L2.size = n * n) (hU : U.size = n * n) (hV : Vt.size = n * n)
    (hsg : sig.size = n) (hs : s.size = triangularNumber n) (hz : z.size = triangularNumber n)
    (hS : toM n (svecToMat s) = toM n (matOf n L1) * (toM n (matOf n L1))ᵀ)
    (hZ : toM n (svecToMat z) = toM n (matOf n L2) * (toM n (matOf n L2))ᵀ)
    (hsvd : (toM n (matOf n L2))ᵀ * toM n (matOf n L1)
      = toM n (matOf n U) * Matrix.diagonal (fun i : Fin n => sig.getD i 0) * toM n (matOf n Vt))
    (hUo : (toM n (matOf n U))ᵀ * toM n (matOf n U) = 1)
    (hVo : toM n (matOf n Vt) * (toM n (matOf n Vt))ᵀ = 1)
    (hpos : ∀ i, i < n → 0 < sig.getD i 0) :
    ∃ K RRt, assembleScaling n L1 L2 U Vt sig = .ok (K, RRt) ∧ K.n = n ∧ NtOk K z s ∧
      ScalingOk K.n K.lam K.lamIsqrt := by
  obtain ⟨K, RRt, hK, hW, _, _, hI⟩ := assembleScaling_nt n L1 L2 U Vt sig s z z h1 h2 hU hV hsg
    hs hz hz hS hZ hsvd hUo hVo hpos
  obtain ⟨K', RRt', hK', _, hWi, _, _⟩ := assembleScaling_nt n L1 L2 U Vt sig s z s h1 h2 hU hV hsg
    hs hz hs hS hZ hsvd hUo hVo hpos
  obtain ⟨K'', RRt'', _, hK'', _, _, hRs, hRis, _⟩ :=
    assembleScaling_spec n L1 L2 U Vt sig h1 h2 hU hV hsg
  have e1 : K' = K := by
    rw [hK] at hK'
    simp only [Except.ok.injEq, Prod.mk.injEq] at hK'
    exact hK'.1.symm
  have e2 : K'' = K := by
    rw [hK] at hK''
    simp only [Except.ok.injEq, Prod.mk.injEq] at hK''
    exact hK''.1.symm
  rw [e1] at hWi
  rw [e2] at hRs hRis
  obtain ⟨hn, hlam, hli⟩ := assembleScaling_fields n L1 L2 U Vt sig K RRt hK
  subst hn
  refine ⟨K, RRt, hK, rfl, ⟨hRs, hRis, hz, hs, hW, hWi, hI⟩, ?_⟩
  intro i hi
  have hj : i < sig.size := by rw [hsg]; exact hi
  have hsi := hpos i hi
  have e : K.lamIsqrt.getD i 0 = 1 / Real.sqrt (sig.getD i 0) := by
    rw [hli]
    simp [Array.getD_eq_getD_getElem?, hj]
  rw [e, hlam]
  exact ⟨one_div_pos.mpr (Real.sqrt_pos.mpr hsi),
    Psd.isqrt_hyp (fun _ : Fin 1 => sig.getD i 0) (fun _ => hsi) 0⟩

/-! ## non-vacuity -/

/-- the `1 × 1` cone with `λ = Λisqrt = R = R⁻¹ = 1` at `z = s = (1)` satisfies the NT
contract -/
theorem ntOk_example : NtOk (⟨1, #[1], #[1], #[1], #[1], #[]⟩ : PsdTri.Cone ℝ) #[1] #[1] := by
  refine ⟨rfl, rfl, rfl, rfl, ?_, ?_, ?_⟩
  · simp [mulW, mulWx, sizeGuard, PsdIndex.triangularNumber, mulWxInner, matToSvec, packed, gemm,
      mm, tr, matOf, svecToMat, sumN, isZero, bind, Except.bind, pure, Except.pure, lamVec, diagFn]
  · simp [mulWinv, mulWx, sizeGuard, PsdIndex.triangularNumber, mulWxInner, matToSvec, packed,
      gemm, mm, tr, matOf, svecToMat, sumN, isZero, bind, Except.bind, pure, Except.pure, lamVec,
      diagFn]
  · ext i j
    have hi : i = 0 := Subsingleton.elim _ _
    have hj : j = 0 := Subsingleton.elim _ _
    subst hi hj
    simp [Matrix.mul_apply, matOf]

/-- …and the scaling contract, so `NtOk.posDef` and `stepLength_spec_unscaled` apply to it -/
theorem scalingOk_example : ScalingOk 1 (#[1] : Array ℝ) #[1] := by
  intro i hi
  have : i = 0 := by omega
  subst this
  simp

end Clarabel.PsdStep
