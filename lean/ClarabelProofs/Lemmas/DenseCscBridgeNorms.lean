/-
  C16: the bridge "dense ∘ csc = csc ∘ dense" for `quad_form` and the ∞-norm kernels
  (continuation of `DenseCscBridge.lean`).

  As there, the lemmas take what the CSC spec theorem says about the CSC result as explicit
  hypotheses; the wrappers in `Props/C16.lean` discharge them from `C16.quadForm_spec`,
  `C16.colNorms_spec`, … .  What is proved here is the mathematical content: on a canonical
  matrix every column holds each row at most once, so `toDense i j` is the stored value or `0`,
  and the zeros the dense code sees in addition do not change a maximum whose floor is `≥ 0`.
-/
import ClarabelProofs.Lemmas.DenseCscBridge
import ClarabelProofs.Lemmas.DenseQuad
import ClarabelProofs.Lemmas.DenseNorms
import ClarabelProofs.Lemmas.CscReduce

namespace Clarabel.Dense
open Clarabel Clarabel.C16

variable {α : Type}

/-! ### the dense value of a canonical matrix: the stored value or zero -/

theorem filter_row_cases (c : List (Nat × α)) (i : Nat) (hs : (c.map (·.1)).Pairwise (· < ·)) :
    c.filter (fun e => e.1 == i) = [] ∨ ∃ e, c.filter (fun e => e.1 == i) = [e] := by
  have hlen := Csc.filter_row_length_le_one c i hs
  match hf : c.filter (fun e => e.1 == i) with
  | [] => exact Or.inl hf
  | [e] => exact Or.inr ⟨e, hf⟩
  | _ :: _ :: _ => rw [hf] at hlen; simp at hlen

/-- a stored entry is the dense value at its position -/
theorem toDense_of_mem [AddMonoid α] {M : Csc α} (hM : Canonical M) {j : Nat} (hj : j < M.n)
    {e : Nat × α} (he : e ∈ M.col j) : M.toDense e.1 j = e.2 := by
  have hmem : e ∈ (M.col j).filter (fun e' => e'.1 == e.1) :=
    List.mem_filter.mpr ⟨he, by simp⟩
  unfold Csc.toDense
  rcases filter_row_cases (M.col j) e.1 (Csc.colOK_of_canonical hM j hj).1 with h | ⟨x, h⟩
  · rw [h] at hmem; simp at hmem
  · rw [h] at hmem ⊢
    have : e = x := by simpa using hmem
    subst this
    simp only [List.foldl_cons, List.foldl_nil]
    exact zero_add _

/-- the dense value is `0` or a stored entry of that row -/
theorem toDense_cases [AddMonoid α] {M : Csc α} (hM : Canonical M) (i : Nat) {j : Nat}
    (hj : j < M.n) :
    M.toDense i j = 0 ∨ ∃ e ∈ M.col j, e.1 = i ∧ M.toDense i j = e.2 := by
  rcases filter_row_cases (M.col j) i (Csc.colOK_of_canonical hM j hj).1 with h | ⟨x, h⟩
  · left
    unfold Csc.toDense
    rw [h]; rfl
  · right
    have hx : x ∈ (M.col j).filter (fun e => e.1 == i) := by rw [h]; simp
    obtain ⟨hx1, hx2⟩ := List.mem_filter.mp hx
    have hxi : x.1 = i := by simpa using hx2
    refine ⟨x, hx1, hxi, ?_⟩
    rw [← hxi]
    exact toDense_of_mem hM hj hx1

/-- a stored entry's value is one of `nzval` -/
theorem mem_col_nzval (M : Csc α) (j : Nat) (e : Nat × α) (he : e ∈ M.col j) :
    e.2 ∈ M.nzval.toList := by
  unfold Csc.col at he
  have := (List.of_mem_zip he).2
  simp only [Array.toList_extract, List.extract_eq_drop_take'] at this
  exact List.mem_of_mem_take (List.mem_of_mem_drop this)

/-- `is_triu`: every stored entry of column `j` has row `≤ j` -/
theorem col_le_of_isTriu {M : Csc α} (hM : Canonical M) (htri : M.isTriu = true) :
    ∀ j, j < M.n → ∀ e ∈ M.col j, e.1 ≤ j := by
  intro j hj e he
  unfold Csc.isTriu at htri
  simp only [List.all_eq_true, List.mem_range, decide_eq_true_eq] at htri
  have := htri j hj e.1
  rw [Csc.colRows_eq_map_col M hM.len_eq] at this
  exact this (List.mem_map_of_mem he)

/-- nothing is stored below the diagonal of an upper triangular matrix -/
theorem toDense_zero_of_below [Add α] [OfNat α 0] {M : Csc α} {i j : Nat}
    (hle : ∀ e ∈ M.col j, e.1 ≤ j) (h : j < i) : M.toDense i j = 0 := by
  rw [Csc.toDense_eq_foldl_colVals, Csc.colVals_eq_nil_of_not_mem]
  · rfl
  · intro e he
    have := hle e he
    omega

/-- the symmetric read of `ofCsc M` -/
theorem symElem_ofCsc [Add α] [OfNat α 0] (M : Csc α) (hsq : M.m = M.n) {i j : Nat}
    (hi : i < M.n) (hj : j < M.n) :
    symElem (ofCsc M) M.n i j = if i ≤ j then M.toDense i j else M.toDense j i := by
  unfold symElem
  split
  · rw [← hsq]; exact ofCsc_getD M (by omega) hj
  · rw [← hsq]; exact ofCsc_getD M (by omega) hi

/-! ### quad_form -/

/-- `hq` is the conclusion of `C16.quadForm_spec`, `hle` what `is_triu` says -/
theorem quadForm_ofCsc [CommRing α] [DecidableEq α] (M : Csc α) (y x : Array α)
    (hsq : M.m = M.n) (hle : ∀ j, j < M.n → ∀ e ∈ M.col j, e.1 ≤ j)
    (hx : x.size = M.n) (hy : y.size = M.n)
    (hq : M.quadForm y x = .ok (∑ i ∈ Finset.range M.n, ∑ j ∈ Finset.range M.n,
      y.getD i 0 * (if i = j then M.toDense i i else M.toDense i j + M.toDense j i)
        * x.getD j 0)) :
    quadForm (ofCsc M) y x = M.quadForm y x := by
  rw [hq, quadForm_spec (ofCsc M) y x (ofCsc_wf M) hsq hx hy]
  congr 1
  apply Finset.sum_congr rfl
  intro i hi
  apply Finset.sum_congr rfl
  intro j hj
  have hi' : i < M.n := Finset.mem_range.mp hi
  have hj' : j < M.n := Finset.mem_range.mp hj
  have hs : symElem (ofCsc M) (ofCsc M).n i j
      = if i = j then M.toDense i i else M.toDense i j + M.toDense j i := by
    show symElem (ofCsc M) M.n i j = _
    rw [symElem_ofCsc M hsq hi' hj']
    rcases Nat.lt_trichotomy i j with h | h | h
    · rw [if_pos (by omega), if_neg (by omega), toDense_zero_of_below (hle i hi') h, add_zero]
    · subst h; simp
    · rw [if_neg (by omega), if_neg (by omega), toDense_zero_of_below (hle j hj') h, zero_add]
  rw [hs]

/-! ### ∞-norms -/

section lawful
variable [Field α] [LinearOrder α] [IsStrictOrderedRing α] [FloatLike α] [LawfulFloatLike α]

omit [IsStrictOrderedRing α] [FloatLike α] [LawfulFloatLike α] in
/-- raising the floor of a maximum whose floor was `0` -/
theorem IsMaxOf_max {N a0 : α} {l : List α} (hN : Csc.IsMaxOf N 0 l) (h0 : 0 ≤ a0) :
    Csc.IsMaxOf (max a0 N) a0 l := by
  obtain ⟨h1, h2, h3⟩ := hN
  refine ⟨le_max_left _ _, fun a ha => le_trans (h2 a ha) (le_max_right _ _), ?_⟩
  rcases h3 with h | h
  · left; rw [h]; exact max_eq_left h0
  · rcases max_choice a0 N with hm | hm
    · left; exact hm
    · right; rw [hm]; exact h

omit [IsStrictOrderedRing α] [FloatLike α] [LawfulFloatLike α] in
theorem colAbs_ofCsc (M : Csc α) {j : Nat} (hj : j < M.n) :
    colAbs (ofCsc M) j = (List.range M.m).map (fun i => |M.toDense i j|) := by
  unfold colAbs
  apply List.map_congr_left
  intro i hi
  rw [ofCsc_getD M (List.mem_range.mp hi) hj]

omit [IsStrictOrderedRing α] [FloatLike α] [LawfulFloatLike α] in
theorem rowAbs_ofCsc (M : Csc α) {i : Nat} (hi : i < M.m) :
    rowAbs (ofCsc M) i = (List.range M.n).map (fun j => |M.toDense i j|) := by
  unfold rowAbs
  apply List.map_congr_left
  intro j hj
  rw [ofCsc_getD M hi (List.mem_range.mp hj)]

omit [LinearOrder α] [IsStrictOrderedRing α] [FloatLike α] [LawfulFloatLike α] in
theorem symRow_ofCsc (M : Csc α) (hsq : M.m = M.n) {k : Nat} (hk : k < M.n) :
    symRow (ofCsc M) k
      = (List.range M.n).map (fun j => if k ≤ j then M.toDense k j else M.toDense j k) := by
  unfold symRow
  apply List.map_congr_left
  intro j hj
  exact symElem_ofCsc M hsq hk (List.mem_range.mp hj)

omit [FloatLike α] [LawfulFloatLike α] in
/-- a dense column holds the stored absolute values and zeros … -/
theorem colAbs_sub (M : Csc α) (hM : Canonical M) {j : Nat} (hj : j < M.n) :
    ∀ a ∈ colAbs (ofCsc M) j, a = 0 ∨ a ∈ (M.col j).map (fun e => |e.2|) := by
  intro a ha
  rw [colAbs_ofCsc M hj] at ha
  obtain ⟨i, _, rfl⟩ := List.mem_map.mp ha
  rcases toDense_cases hM i hj with h | ⟨e, he, _, h⟩
  · left; rw [h, abs_zero]
  · right; rw [h]; exact List.mem_map.mpr ⟨e, he, rfl⟩

omit [IsStrictOrderedRing α] [FloatLike α] [LawfulFloatLike α] in
/-- … and all of the stored ones -/
theorem col_sub_colAbs (M : Csc α) (hM : Canonical M) {j : Nat} (hj : j < M.n) :
    ∀ a ∈ (M.col j).map (fun e => |e.2|), a ∈ colAbs (ofCsc M) j := by
  intro a ha
  obtain ⟨e, he, rfl⟩ := List.mem_map.mp ha
  rw [colAbs_ofCsc M hj]
  refine List.mem_map.mpr ⟨e.1, List.mem_range.mpr ((Csc.colOK_of_canonical hM j hj).2 e he), ?_⟩
  show |M.toDense e.1 j| = |e.2|
  rw [toDense_of_mem hM hj he]

omit [FloatLike α] [LawfulFloatLike α] in
theorem rowAbs_sub (M : Csc α) (hM : Canonical M) {i : Nat} (hi : i < M.m) :
    ∀ a ∈ rowAbs (ofCsc M) i,
      a = 0 ∨ a ∈ (M.cols.flatten.filter (fun e => e.1 == i)).map (fun e => |e.2|) := by
  intro a ha
  rw [rowAbs_ofCsc M hi] at ha
  obtain ⟨j, hj, rfl⟩ := List.mem_map.mp ha
  have hj' : j < M.n := List.mem_range.mp hj
  rcases toDense_cases hM i hj' with h | ⟨e, he, hei, h⟩
  · left; rw [h, abs_zero]
  · right
    rw [h]
    refine List.mem_map.mpr ⟨e, List.mem_filter.mpr ⟨?_, by simpa using hei⟩, rfl⟩
    exact List.mem_flatten.mpr ⟨M.col j, List.mem_map.mpr ⟨j, hj, rfl⟩, he⟩

omit [IsStrictOrderedRing α] [FloatLike α] [LawfulFloatLike α] in
theorem row_sub_rowAbs (M : Csc α) (hM : Canonical M) {i : Nat} (hi : i < M.m) :
    ∀ a ∈ (M.cols.flatten.filter (fun e => e.1 == i)).map (fun e => |e.2|),
      a ∈ rowAbs (ofCsc M) i := by
  intro a ha
  obtain ⟨e, he, rfl⟩ := List.mem_map.mp ha
  obtain ⟨he1, he2⟩ := List.mem_filter.mp he
  have hei : e.1 = i := by simpa using he2
  obtain ⟨c, hc, hec⟩ := List.mem_flatten.mp he1
  obtain ⟨j, hj, rfl⟩ := List.mem_map.mp hc
  have hj' : j < M.n := List.mem_range.mp hj
  rw [rowAbs_ofCsc M hi]
  refine List.mem_map.mpr ⟨j, hj, ?_⟩
  show |M.toDense i j| = |e.2|
  rw [← hei, toDense_of_mem hM hj' hec]

omit [LinearOrder α] [IsStrictOrderedRing α] [FloatLike α] [LawfulFloatLike α] in
theorem getD_eq_getElem (xs : Array α) {j : Nat} (hj : j < xs.size) : xs.getD j 0 = xs[j] := by
  rw [Array.getD_eq_getD_getElem?, Array.getElem?_eq_getElem hj]; rfl

/-- `hv`, `hsz`, `hvd` are the conclusions of `C16.colNorms_spec` -/
theorem colNorms_ofCsc (M : Csc α) (norms v : Array α) (hM : Canonical M)
    (hs : norms.size = M.n) (hv : M.colNorms norms = .ok v) (hsz : v.size = M.n)
    (hvd : ∀ j, j < M.n → ∃ r, v[j]? = some r ∧
      Csc.IsMaxOf r 0 ((M.col j).map (fun e => |e.2|))) :
    colNorms (ofCsc M) norms = M.colNorms norms := by
  obtain ⟨w, hw, hwsz, hwd⟩ := colNorms_spec (ofCsc M) norms (ofCsc_wf M) (by rw [hs]; exact le_refl _)
  rw [hw, hv]
  congr 1
  apply array_ext_getElem? w v M.n (by rw [hwsz, hs]) hsz
  intro j hj
  obtain ⟨N, hN, hwj⟩ := hwd j (by omega)
  obtain ⟨r, hr, hmax⟩ := hvd j hj
  rw [hwj, hr]
  congr 1
  apply IsMaxOf_unique hN hmax
  · intro a ha
    rcases colAbs_sub M hM hj a ha with h | h
    · left; rw [h]
    · right; exact h
  · intro a ha
    right; exact col_sub_colAbs M hM hj a ha

/-- `hv`, `hsz`, `hvd` are the conclusions of `C16.colNormsNoReset_spec`; every incoming slot
must be `≥ 0` (the dense code takes `max` with the column norm, which is `≥ 0` even for an
empty column; the CSC code only with the stored values) -/
theorem colNormsNoReset_ofCsc (M : Csc α) (norms v : Array α) (hM : Canonical M)
    (hs : norms.size = M.n) (hpos : ∀ j (hj : j < norms.size), 0 ≤ norms[j])
    (hv : M.colNormsNoReset norms = .ok v) (hsz : v.size = M.n)
    (hvd : ∀ j, j < M.n → ∃ r, v[j]? = some r ∧
      Csc.IsMaxOf r (norms.getD j 0) ((M.col j).map (fun e => |e.2|))) :
    colNormsNoReset (ofCsc M) norms = M.colNormsNoReset norms := by
  obtain ⟨w, hw, hwsz, hwd⟩ := colNormsNoReset_spec (ofCsc M) norms (ofCsc_wf M)
    (by rw [hs]; exact le_refl _)
  rw [hw, hv]
  congr 1
  apply array_ext_getElem? w v M.n (by rw [hwsz, hs]) hsz
  intro j hj
  have hj' : j < norms.size := by omega
  obtain ⟨N, hN, hwj⟩ := hwd j hj'
  obtain ⟨r, hr, hmax⟩ := hvd j hj
  rw [getD_eq_getElem norms hj'] at hmax
  rw [hwj, hr]
  congr 1
  apply IsMaxOf_unique (IsMaxOf_max hN (hpos j hj')) hmax
  · intro a ha
    rcases colAbs_sub M hM hj a ha with h | h
    · left; rw [h]; exact hpos j hj'
    · right; exact h
  · intro a ha
    right; exact col_sub_colAbs M hM hj a ha

/-- `hv`, `hsz`, `hvd` are the conclusions of `C16.rowNorms_spec` -/
theorem rowNorms_ofCsc (M : Csc α) (norms v : Array α) (hM : Canonical M)
    (hs : norms.size = M.m) (hv : M.rowNorms norms = .ok v) (hsz : v.size = M.m)
    (hvd : ∀ i, i < M.m → ∃ r, v[i]? = some r ∧
      Csc.IsMaxOf r 0 ((M.cols.flatten.filter (fun e => e.1 == i)).map (fun e => |e.2|))) :
    rowNorms (ofCsc M) norms = M.rowNorms norms := by
  obtain ⟨w, hw, hwsz, hwd⟩ := rowNorms_spec (ofCsc M) norms (ofCsc_wf M) (by rw [hs]; exact le_refl _)
  rw [hw, hv]
  congr 1
  apply array_ext_getElem? w v M.m (by rw [hwsz, hs]) hsz
  intro i hi
  obtain ⟨r', hwi, hmax'⟩ := hwd i hi
  obtain ⟨r, hr, hmax⟩ := hvd i hi
  rw [hwi, hr]
  congr 1
  apply IsMaxOf_unique hmax' hmax
  · intro a ha
    rcases rowAbs_sub M hM hi a ha with h | h
    · left; rw [h]
    · right; exact h
  · intro a ha
    right; exact row_sub_rowAbs M hM hi a ha

/-- `hv`, `hsz`, `hvd` are the conclusions of `C16.rowNormsNoReset_spec`; every incoming slot
must be `≥ 0` (the dense code also sees the zeros of the row) -/
theorem rowNormsNoReset_ofCsc (M : Csc α) (norms v : Array α) (hM : Canonical M)
    (hs : norms.size = M.m) (hpos : ∀ i (hi : i < norms.size), 0 ≤ norms[i])
    (hv : M.rowNormsNoReset norms = .ok v) (hsz : v.size = M.m)
    (hvd : ∀ i, i < M.m → ∃ r, v[i]? = some r ∧
      Csc.IsMaxOf r (norms.getD i 0)
        ((M.cols.flatten.filter (fun e => e.1 == i)).map (fun e => |e.2|))) :
    rowNormsNoReset (ofCsc M) norms = M.rowNormsNoReset norms := by
  obtain ⟨w, hw, hwsz, hwd, _⟩ := rowNormsNoReset_spec (ofCsc M) norms (ofCsc_wf M)
    (by rw [hs]; exact le_refl _)
  rw [hw, hv]
  congr 1
  apply array_ext_getElem? w v M.m (by rw [hwsz, hs]) hsz
  intro i hi
  have hi' : i < norms.size := by omega
  obtain ⟨r', hwi, hmax'⟩ := hwd i hi
  obtain ⟨r, hr, hmax⟩ := hvd i hi
  rw [getD_eq_getElem norms hi'] at hmax
  rw [hwi, hr]
  congr 1
  apply IsMaxOf_unique hmax' hmax
  · intro a ha
    rcases rowAbs_sub M hM hi a ha with h | h
    · left; rw [h]; exact hpos i hi'
    · right; exact h
  · intro a ha
    right; exact row_sub_rowAbs M hM hi a ha

/-- `hv`, `hsz`, `hvd` are the conclusions of `C16.colNormsSym_spec`, `hle` what `is_triu`
says; all stored values must be `≥ 0` because the dense code takes no absolute value -/
theorem colNormsSym_ofCsc (M : Csc α) (norms v : Array α) (hM : Canonical M) (hsq : M.m = M.n)
    (hle : ∀ j, j < M.n → ∀ e ∈ M.col j, e.1 ≤ j)
    (hs : norms.size = M.n) (hnn : ∀ j, j < M.n → ∀ e ∈ M.col j, 0 ≤ e.2)
    (hv : M.colNormsSym norms = .ok v) (hsz : v.size = M.n)
    (hvd : ∀ k, k < M.n → ∃ r, v[k]? = some r ∧ 0 ≤ r ∧
      (∀ j, j < M.n → ∀ e ∈ M.col j, (j = k ∨ e.1 = k) → |e.2| ≤ r) ∧
      (r = 0 ∨ ∃ j, j < M.n ∧ ∃ e ∈ M.col j, (j = k ∨ e.1 = k) ∧ r = |e.2|)) :
    colNormsSym (ofCsc M) norms = M.colNormsSym norms := by
  obtain ⟨w, hw, hwsz, hwd⟩ := colNormsSym_spec (ofCsc M) norms (ofCsc_wf M) hsq
    (by rw [hs]; exact le_refl _)
  rw [hw, hv]
  congr 1
  apply array_ext_getElem? w v M.n (by rw [hwsz, hs]) hsz
  intro k hk
  obtain ⟨r', hwk, h1', h2', h3'⟩ := hwd k hk
  obtain ⟨r, hr, h1, h2, h3⟩ := hvd k hk
  rw [symRow_ofCsc M hsq hk] at h2' h3'
  rw [hwk, hr]
  congr 1
  apply le_antisymm
  · -- r' ≤ r
    rcases h3' with h | h
    · rw [h]; exact h1
    · obtain ⟨j, hj, hjv⟩ := List.mem_map.mp h
      have hj' : j < M.n := List.mem_range.mp hj
      rw [← hjv]
      split
      · rcases toDense_cases hM k hj' with hz | ⟨e, he, hek, hz⟩
        · rw [hz]; exact h1
        · rw [hz]; exact le_trans (le_abs_self _) (h2 j hj' e he (Or.inr hek))
      · rcases toDense_cases hM j hk with hz | ⟨e, he, _, hz⟩
        · rw [hz]; exact h1
        · rw [hz]; exact le_trans (le_abs_self _) (h2 k hk e he (Or.inl rfl))
  · -- r ≤ r'
    rcases h3 with h | ⟨j, hj, e, he, hor, h⟩
    · rw [h]; exact h1'
    · rw [h, abs_of_nonneg (hnn j hj e he)]
      apply h2'
      have hval := toDense_of_mem hM hj he
      have hrow : e.1 < M.n := by rw [← hsq]; exact (Csc.colOK_of_canonical hM j hj).2 e he
      have htri := hle j hj e he
      rcases hor with hjk | hek
      · -- the entry lies in column `k`, row `e.1 ≤ k`
        subst hjk
        refine List.mem_map.mpr ⟨e.1, List.mem_range.mpr hrow, ?_⟩
        by_cases hke : j ≤ e.1
        · have : e.1 = j := by omega
          rw [if_pos hke, ← hval, this]
        · rw [if_neg hke, hval]
      · -- the entry lies in row `k`, column `j ≥ k`
        subst hek
        refine List.mem_map.mpr ⟨j, List.mem_range.mpr hj, ?_⟩
        rw [if_pos htri, hval]

end lawful

end Clarabel.Dense
