/-
  Helper lemmas for C16: `check_format` / `check_dimensions`.

  /repo 190e6c4 added the test `colptr[0] != 0 → BadColptr` to `check_dimensions`.  The
  definitions `…Old` below are verbatim copies of the model before that fix; they document
  the pre-fix behaviour (accepting encodings with orphan entries) and let the old
  characterisation be reused: new check = old check ∧ `colptr[0] = 0`.
-/
import ClarabelProofs.Lemmas.CscBasic

namespace Clarabel.Csc
open Clarabel.C16

variable {α : Type}

/-- `check_dimensions` before /repo 190e6c4 -/
def checkDimensionsOld (M : Csc α) : Except FormatError Unit :=
  if M.rowval.size != M.nzval.size then .error .incompatibleDimension
  else if M.colptr.size == 0 || M.colptr.size - 1 != M.n || M.colptr.getD M.n 0 != M.rowval.size then
    .error .incompatibleDimension
  else if anyAdjacent (fun a b => decide (a > b)) M.colptr.toList then .error .badColptr
  else .ok ()

/-- `check_format` before /repo 190e6c4 -/
def checkFormatOld (M : Csc α) : Except FormatError Unit :=
  match M.checkDimensionsOld with
  | .error e => .error e
  | .ok () =>
    if (List.range M.n).any (fun j => anyAdjacent (fun a b => decide (a ≥ b)) (M.colRows j)) then
      .error .badRowval
    else if !(M.rowval.toList.all (fun r => decide (r < M.m))) then .error .badRowval
    else .ok ()

/-- `canonicalize` before /repo 190e6c4 -/
def canonicalizeOld [Add α] (M : Csc α) : Except FormatError (Csc α) :=
  match M.checkDimensionsOld with
  | .error e => .error e
  | .ok () => .ok (M.sortIndices.deduplicate)

/-- the pre-fix `check_format` accepts exactly the `Canonical` encodings (shifted ones
included) -/
theorem checkFormatOld_iff (M : Csc α) : M.checkFormatOld = .ok () ↔ Canonical M := by
  unfold checkFormatOld checkDimensionsOld
  constructor
  · intro h
    split at h
    · cases h
    · rename_i hd
      split at hd
      · cases hd
      · rename_i h1
        split at hd
        · cases hd
        · rename_i h2
          split at hd
          · cases hd
          · rename_i h3
            split at h
            · cases h
            · rename_i h4
              split at h
              · cases h
              · rename_i h5
                simp only [bne_iff_ne, ne_eq, Decidable.not_not] at h1
                simp only [Bool.or_eq_true, beq_iff_eq, bne_iff_ne, ne_eq, not_or, Decidable.not_not] at h2
                have h3' := (anyAdjacent_false_iff _ _).mp (by simpa using h3)
                refine ⟨h1, by omega, h2.2, ?_, ?_, ?_⟩
                · simpa using h3'
                · intro j hj
                  have : anyAdjacent (fun a b => decide (a ≥ b)) (M.colRows j) = false := by
                    have h4' : ∀ x, x < M.n → anyAdjacent (fun a b => decide (a ≥ b)) (M.colRows x) = false := by
                      simpa using h4
                    exact h4' j hj
                  simpa using (anyAdjacent_false_iff _ _).mp this
                · intro r hr
                  have hall : (M.rowval.toList.all (fun r => decide (r < M.m))) = true := by
                    cases hb : (M.rowval.toList.all (fun r => decide (r < M.m))) with
                    | true => rfl
                    | false => exact absurd (by rw [hb]; rfl) h5
                  exact of_decide_eq_true (List.all_eq_true.mp hall r hr)
  · intro ⟨h1, h2, h3, h4, h5, h6⟩
    have e1 : (M.rowval.size != M.nzval.size) = false := by simp [h1]
    have e2 : (M.colptr.size == 0 || M.colptr.size - 1 != M.n || M.colptr.getD M.n 0 != M.rowval.size) = false := by
      simp [h2, h3]
    have e3 : anyAdjacent (fun a b => decide (a > b)) M.colptr.toList = false :=
      (anyAdjacent_false_iff _ _).mpr (by simpa using h4)
    have e4 : (List.range M.n).any (fun j => anyAdjacent (fun a b => decide (a ≥ b)) (M.colRows j)) = false := by
      simp only [List.any_eq_false, List.mem_range]
      intro j hj
      simpa using (anyAdjacent_false_iff _ _).mpr (by simpa using h5 j hj)
    have e5 : (M.rowval.toList.all (fun r => decide (r < M.m))) = true :=
      List.all_eq_true.mpr (fun r hr => decide_eq_true (h6 r hr))
    simp only [e1, e2, e3, e4, e5, Bool.false_eq_true, ↓reduceIte, Bool.not_true]


/-- the dimension tests that precede the `colptr` tests -/
def dimsConsistent (M : Csc α) : Prop :=
  M.rowval.size = M.nzval.size ∧ M.colptr.size = M.n + 1 ∧ M.colptr.getD M.n 0 = M.rowval.size

theorem checkDimensions_eq (M : Csc α) :
    M.checkDimensions =
      match M.checkDimensionsOld with
      | .error .incompatibleDimension => .error .incompatibleDimension
      | r => if M.colptr.getD 0 0 != 0 then .error .badColptr else r := by
  unfold checkDimensions checkDimensionsOld
  by_cases h1 : (M.rowval.size != M.nzval.size) = true
  · simp only [h1, ↓reduceIte]
  · by_cases h2 : (M.colptr.size == 0 || M.colptr.size - 1 != M.n || M.colptr.getD M.n 0 != M.rowval.size) = true
    · simp only [h1, h2, Bool.false_eq_true, ↓reduceIte]
    · by_cases h3 : (M.colptr.getD 0 0 != 0) = true
      · by_cases h4 : anyAdjacent (fun a b => decide (a > b)) M.colptr.toList = true <;>
          simp only [h1, h2, h3, h4, Bool.false_eq_true, ↓reduceIte]
      · by_cases h4 : anyAdjacent (fun a b => decide (a > b)) M.colptr.toList = true <;>
          simp only [h1, h2, h3, h4, Bool.false_eq_true, ↓reduceIte]

theorem checkDimensions_ok_iff (M : Csc α) :
    M.checkDimensions = .ok () ↔ M.checkDimensionsOld = .ok () ∧ M.colptr.getD 0 0 = 0 := by
  rw [checkDimensions_eq]
  generalize M.colptr.getD 0 0 = c
  cases h : M.checkDimensionsOld with
  | error e =>
    cases e <;> by_cases h0 : c = 0 <;> simp [h0]
  | ok u =>
    by_cases h0 : c = 0 <;> simp [h0]

/-- an encoding that passes the dimension tests but starts at `colptr[0] ≠ 0` is rejected with
`BadColptr` -/
theorem checkDimensions_shifted (M : Csc α) (hd : dimsConsistent M) (h0 : M.colptr.getD 0 0 ≠ 0) :
    M.checkDimensions = .error .badColptr := by
  obtain ⟨h1, h2, h3⟩ := hd
  unfold checkDimensions
  have e1 : (M.rowval.size != M.nzval.size) = false := by simp [h1]
  have e2 : (M.colptr.size == 0 || M.colptr.size - 1 != M.n || M.colptr.getD M.n 0 != M.rowval.size) = false := by
    simp [h2, h3]
  have e3 : (M.colptr.getD 0 0 != 0) = true := by simpa using h0
  simp only [e1, e2, e3, Bool.false_eq_true, ↓reduceIte]

theorem checkFormat_ok_iff_old (M : Csc α) :
    M.checkFormat = .ok () ↔ M.checkFormatOld = .ok () ∧ M.colptr.getD 0 0 = 0 := by
  unfold checkFormat checkFormatOld
  cases hn : M.checkDimensions with
  | error e =>
    have hne : ¬ (M.checkDimensionsOld = .ok () ∧ M.colptr.getD 0 0 = 0) := by
      rw [← checkDimensions_ok_iff, hn]; simp
    cases ho : M.checkDimensionsOld with
    | error e' =>
      constructor
      · intro h; cases h
      · rintro ⟨h, _⟩; cases h
    | ok u =>
      have h0 : ¬ M.colptr.getD 0 0 = 0 := fun h => hne ⟨ho, h⟩
      constructor
      · intro h; cases h
      · rintro ⟨_, h⟩; exact absurd h h0
  | ok u =>
    obtain ⟨ho, h0⟩ := (checkDimensions_ok_iff M).mp hn
    rw [ho]
    exact ⟨fun h => ⟨h, h0⟩, fun h => h.1⟩

theorem checkFormat_iff0 (M : Csc α) : M.checkFormat = .ok () ↔ Canonical0 M := by
  rw [checkFormat_ok_iff_old, checkFormatOld_iff]
  exact ⟨fun h => ⟨h.1, h.2⟩, fun h => ⟨h.canon, h.colptr_zero⟩⟩

end Clarabel.Csc
