/-
  C12 bridge lemmas: the CSC loops `Qdldl.lsolve` / `Qdldl.dltsolve` compute the dense
  triangular solves with the dense meaning `denseL` of the stored factor.
-/
import ClarabelModel.Qdldl
import Mathlib.Algebra.BigOperators.Fin
import Mathlib.Algebra.Field.Basic
import Mathlib.Tactic.Ring

namespace Clarabel.Qdldl
open BigOperators

variable {α : Type} [Field α]

theorem getE_ok {β : Type} (xs : Array β) (i : Nat) (s : String) (h : i < xs.size) :
    getE xs i s = .ok xs[i] := by
  simp [getE, h, pure, Except.pure]

theorem setE_ok {β : Type} (xs : Array β) (i : Nat) (v : β) (s : String) (h : i < xs.size) :
    setE xs i v s = .ok (xs.set i v h) := by
  simp [setE, h, pure, Except.pure]

/-- generic invariant rule for a monadic loop over `0 … n-1` -/
theorem foldlM_range_inv {β : Type} (f : β → Nat → MErr β) (P : Nat → β → Prop) (n : Nat) (x0 : β)
    (h0 : P 0 x0) (hstep : ∀ i, i < n → ∀ x, P i x → ∃ x', f x i = .ok x' ∧ P (i + 1) x') :
    ∃ xn, (List.range n).foldlM f x0 = .ok xn ∧ P n xn := by
  induction n with
  | zero => exact ⟨x0, rfl, h0⟩
  | succ k ih =>
    obtain ⟨xk, hk, hP⟩ := ih (fun i hi x hx => hstep i (by omega) x hx)
    obtain ⟨x', hx', hP'⟩ := hstep k (by omega) xk hP
    refine ⟨x', ?_, hP'⟩
    rw [List.range_succ, List.foldlM_append, hk]
    simp [bind, Except.bind, hx', pure, Except.pure]

/-- contribution of the stored entries `js` (positions in `Li/Lx`) to row `r` -/
def colSum (Li : Array Nat) (Lx : Array α) (js : List Nat) (r : Nat) : α :=
  (js.map (fun j => if Li.getD j 0 = r then Lx.getD j 0 else 0)).sum

/-- positions of the stored entries of column `c` -/
def colIdx (Lp : Array Nat) (c : Nat) : List Nat :=
  List.range' (Lp.getD c 0) (Lp.getD (c + 1) 0 - Lp.getD c 0)

/-- dense meaning of the CSC arrays `(Lp, Li, Lx)`: entry `(r, c)` (duplicates add) -/
def denseL (Lp Li : Array Nat) (Lx : Array α) (r c : Nat) : α := colSum Li Lx (colIdx Lp c) r

/-- the arrays describe an `n × n` strictly lower triangular matrix -/
structure LowerCsc (n : Nat) (Lp Li : Array Nat) (Lx : Array α) : Prop where
  lp_size : Lp.size = n + 1
  lp_mono : ∀ c, c < n → Lp.getD c 0 ≤ Lp.getD (c + 1) 0
  lp_bound : ∀ c, c ≤ n → Lp.getD c 0 ≤ Li.size
  lx_size : Lx.size = Li.size
  rows : ∀ c, c < n → ∀ j ∈ colIdx Lp c, c < Li.getD j 0 ∧ Li.getD j 0 < n

theorem colIdx_lt {n : Nat} {Lp Li : Array Nat} {Lx : Array α} (h : LowerCsc n Lp Li Lx) (c : Nat)
    (hc : c < n) (j : Nat) (hj : j ∈ colIdx Lp c) : j < Li.size := by
  have := h.lp_bound (c + 1) (by omega)
  have hm := h.lp_mono c hc
  simp only [colIdx, List.mem_range'_1] at hj
  omega

theorem denseL_upper {n : Nat} {Lp Li : Array Nat} {Lx : Array α} (h : LowerCsc n Lp Li Lx)
    (r c : Nat) (hc : c < n) (hrc : r ≤ c) : denseL Lp Li Lx r c = 0 := by
  unfold denseL colSum
  apply List.sum_eq_zero
  intro v hv
  obtain ⟨j, hj, rfl⟩ := List.mem_map.mp hv
  have := (h.rows c hc j hj).1
  have : ¬ Li.getD j 0 = r := by omega
  rw [if_neg this]

/-- the inner loop of `_lsolve`: `x ← x - xi · (column given by js)` -/
theorem lsolve_col (Li : Array Nat) (Lx : Array α) (xi : α) (js : List Nat) (x : Array α)
    (hj : ∀ j ∈ js, j < Li.size ∧ j < Lx.size ∧ Li.getD j 0 < x.size) :
    ∃ x', js.foldlM (lsolveEntry Li Lx xi) x = .ok x' ∧ x'.size = x.size ∧
      ∀ r, x'.getD r 0 = x.getD r 0 - colSum Li Lx js r * xi := by
  induction js generalizing x with
  | nil => exact ⟨x, rfl, rfl, by simp [colSum]⟩
  | cons j t ih =>
    obtain ⟨h1, h2, h3⟩ := hj j (by simp)
    have e1 : Li.getD j 0 = Li[j] := by simp [h1]
    have e2 : Lx.getD j 0 = Lx[j] := by simp [h2]
    rw [e1] at h3
    have hstep : lsolveEntry Li Lx xi x j = .ok (x.set Li[j] (x[Li[j]] - Lx[j] * xi) h3) := by
      simp only [lsolveEntry, getE_ok _ _ _ h1, getE_ok _ _ _ h2, getE_ok _ _ _ h3, setE_ok _ _ _ _ h3,
        bind, Except.bind]
    obtain ⟨x', hx', hs, hv⟩ := ih (x.set Li[j] (x[Li[j]] - Lx[j] * xi) h3)
      (by intro k hk; simpa using hj k (by simp [hk]))
    refine ⟨x', ?_, by simpa using hs, ?_⟩
    · rw [List.foldlM_cons, hstep]; simpa [bind, Except.bind] using hx'
    · intro r
      rw [hv r]
      have hc : colSum Li Lx (j :: t) r = (if Li[j] = r then Lx[j] else 0) + colSum Li Lx t r := by
        simp only [colSum, List.map_cons, List.sum_cons, e1, e2]
      rw [hc]
      by_cases hr : Li[j] = r
      · subst hr
        have a1 : (x.set Li[j] (x[Li[j]] - Lx[j] * xi) h3).getD Li[j] 0 = x[Li[j]] - Lx[j] * xi := by
          simp [Array.getD_eq_getD_getElem?]
        have a2 : x.getD Li[j] 0 = x[Li[j]] := by simp [h3]
        rw [a1, a2]; simp only [↓reduceIte]; ring
      · have : (x.set Li[j] (x[Li[j]] - Lx[j] * xi) h3).getD r 0 = x.getD r 0 := by
          rw [Array.getD_eq_getD_getElem?, Array.getD_eq_getD_getElem?, Array.getElem?_set]
          simp only [hr, ↓reduceIte]
        rw [this, if_neg hr]; ring

/-- **`_lsolve` solves `(I + L) y = b`** for the dense meaning of the stored `L` -/
theorem lsolve_spec (n : Nat) (Lp Li : Array Nat) (Lx : Array α) (h : LowerCsc n Lp Li Lx)
    (b : Array α) (hb : b.size = n) :
    ∃ y, lsolve Lp Li Lx b = .ok y ∧ y.size = n ∧
      ∀ r, r < n → y.getD r 0 + ∑ c ∈ Finset.range n, denseL Lp Li Lx r c * y.getD c 0 = b.getD r 0 := by
  let P : Nat → Array α → Prop := fun i x =>
    x.size = n ∧ ∀ r, r < n →
      x.getD r 0 + ∑ c ∈ Finset.range i, denseL Lp Li Lx r c * x.getD c 0 = b.getD r 0
  have := foldlM_range_inv (lsolveStep Lp Li Lx) P n b ⟨hb, by intro r _; simp⟩ (by
    intro i hi x ⟨hxs, hinv⟩
    have hix : i < x.size := by omega
    have h1 : i < Lp.size := by rw [h.lp_size]; omega
    have h2 : i + 1 < Lp.size := by rw [h.lp_size]; omega
    have hf : Lp[i] = Lp.getD i 0 := by simp [h1]
    have hl : Lp[i + 1] = Lp.getD (i + 1) 0 := by simp [h2]
    have hmono := h.lp_mono i hi
    have hbd := h.lp_bound (i + 1) (by omega)
    have hcond : (!(decide (Lp[i] ≤ Lp[i + 1]) && decide (Lp[i + 1] ≤ Lx.size) && decide (Lp[i + 1] ≤ Li.size))) = false := by
      rw [hf, hl, h.lx_size, decide_eq_true hmono, decide_eq_true hbd]; rfl
    obtain ⟨x', hx', hs', hv'⟩ := lsolve_col Li Lx x[i] (colIdx Lp i) x (by
      intro j hj
      have hjl := colIdx_lt h i hi j hj
      exact ⟨hjl, by rw [h.lx_size]; exact hjl, by rw [hxs]; exact (h.rows i hi j hj).2⟩)
    refine ⟨x', ?_, by omega, ?_⟩
    · simp only [lsolveStep, getE_ok _ _ _ hix, getE_ok _ _ _ h1, getE_ok _ _ _ h2, bind, Except.bind, hcond,
        Bool.false_eq_true, ↓reduceIte]
      rw [hf, hl]; exact hx'
    · intro r hr
      have hxi : x.getD i 0 = x[i] := by simp [hix]
      -- entries up to i are unchanged by the column update
      have hsame : ∀ c, c ≤ i → x'.getD c 0 = x.getD c 0 := by
        intro c hc
        rw [hv' c]
        have : colSum Li Lx (colIdx Lp i) c = 0 := denseL_upper h c i hi hc
        rw [this]; ring
      rw [Finset.sum_range_succ]
      have hsum : ∑ c ∈ Finset.range i, denseL Lp Li Lx r c * x'.getD c 0 =
          ∑ c ∈ Finset.range i, denseL Lp Li Lx r c * x.getD c 0 := by
        refine Finset.sum_congr rfl (fun c hc => ?_)
        rw [hsame c (by have := Finset.mem_range.mp hc; omega)]
      rw [hsum, hsame i (Nat.le_refl _), hv' r, ← hinv r hr, hxi]
      unfold denseL
      ring)
  obtain ⟨y, hy, hys, hyv⟩ := this
  exact ⟨y, by unfold lsolve; rw [hb]; exact hy, hys, hyv⟩

/-! ### `_dltsolve` -/

theorem reverse_range_eq_map (n : Nat) :
    (List.range n).reverse = (List.range n).map (fun k => n - 1 - k) := by
  apply List.ext_getElem
  · simp
  · intro i h1 h2
    simp only [List.length_reverse, List.length_range] at h1
    simp only [List.getElem_reverse, List.getElem_range, List.getElem_map, List.length_range]

/-- the inner loop of `_dltsolve`: a dot product of the stored column with `x` -/
theorem dot_col (Li : Array Nat) (Lx : Array α) (x : Array α) (js : List Nat) (s0 : α)
    (hj : ∀ j ∈ js, j < Li.size ∧ j < Lx.size ∧ Li.getD j 0 < x.size) :
    js.foldlM (dotEntry Li Lx x) s0 =
      .ok (s0 + (js.map (fun j => Lx.getD j 0 * x.getD (Li.getD j 0) 0)).sum) := by
  induction js generalizing s0 with
  | nil => simp [pure, Except.pure]
  | cons j t ih =>
    obtain ⟨h1, h2, h3⟩ := hj j (by simp)
    have e1 : Li.getD j 0 = Li[j] := by simp [h1]
    have e2 : Lx.getD j 0 = Lx[j] := by simp [h2]
    rw [e1] at h3
    have e3 : x.getD Li[j] 0 = x[Li[j]] := by simp [h3]
    have hstep : dotEntry Li Lx x s0 j = .ok (s0 + Lx[j] * x[Li[j]]) := by
      simp only [dotEntry, getE_ok _ _ _ h1, getE_ok _ _ _ h2, getE_ok _ _ _ h3, bind, Except.bind,
        pure, Except.pure]
    rw [List.foldlM_cons, hstep]
    simp only [bind, Except.bind]
    rw [ih _ (by intro k hk; exact hj k (by simp [hk]))]
    simp only [List.map_cons, List.sum_cons, e1, e2, e3]
    congr 1; ring

/-- a dot product over stored entries is the dense column times the vector -/
theorem dot_eq_dense (Li : Array Nat) (Lx : Array α) (x : Array α) (n : Nat) (js : List Nat)
    (hj : ∀ j ∈ js, Li.getD j 0 < n) :
    (js.map (fun j => Lx.getD j 0 * x.getD (Li.getD j 0) 0)).sum =
      ∑ r ∈ Finset.range n, colSum Li Lx js r * x.getD r 0 := by
  induction js with
  | nil => simp [colSum]
  | cons j t ih =>
    have hc : ∀ r, colSum Li Lx (j :: t) r =
        (if Li.getD j 0 = r then Lx.getD j 0 else 0) + colSum Li Lx t r := by
      intro r; simp only [colSum, List.map_cons, List.sum_cons]
    simp only [List.map_cons, List.sum_cons, hc, add_mul, Finset.sum_add_distrib]
    rw [ih (by intro k hk; exact hj k (by simp [hk]))]
    congr 1
    have hmem : Li.getD j 0 ∈ Finset.range n := Finset.mem_range.mpr (hj j (by simp))
    rw [Finset.sum_eq_single_of_mem (Li.getD j 0) hmem]
    · simp
    · intro r _ hr
      rw [if_neg (fun e => hr e.symm)]; ring

/-- **`_dltsolve` solves `(I + L)ᵀ x = Dinv ∘ y`** for the dense meaning of the stored `L` -/
theorem dltsolve_spec (n : Nat) (Lp Li : Array Nat) (Lx Dinv : Array α) (h : LowerCsc n Lp Li Lx)
    (hD : Dinv.size = n) (y : Array α) (hy : y.size = n) :
    ∃ x, dltsolve Lp Li Lx Dinv y = .ok x ∧ x.size = n ∧
      ∀ i, i < n → x.getD i 0 + ∑ r ∈ Finset.range n, denseL Lp Li Lx r i * x.getD r 0 =
        y.getD i 0 * Dinv.getD i 0 := by
  let Q : Nat → Array α → Prop := fun k x =>
    x.size = n ∧
    (∀ i, n - k ≤ i → i < n → x.getD i 0 + ∑ r ∈ Finset.range n, denseL Lp Li Lx r i * x.getD r 0 =
        y.getD i 0 * Dinv.getD i 0) ∧
    (∀ i, i < n - k → x.getD i 0 = y.getD i 0)
  have := foldlM_range_inv (fun x k => dltsolveStep Lp Li Lx Dinv x (n - 1 - k)) Q n y
    ⟨hy, by intro i h1 h2; omega, by intro i _; rfl⟩ (by
    intro k hk x ⟨hxs, hfin, hraw⟩
    have hi : n - 1 - k < n := by omega
    generalize hidef : n - 1 - k = i at hi
    have hix : i < x.size := by omega
    have hiD : i < Dinv.size := by omega
    have h1 : i < Lp.size := by rw [h.lp_size]; omega
    have h2 : i + 1 < Lp.size := by rw [h.lp_size]; omega
    have hf : Lp[i] = Lp.getD i 0 := by simp [h1]
    have hl : Lp[i + 1] = Lp.getD (i + 1) 0 := by simp [h2]
    have hmono := h.lp_mono i hi
    have hbd := h.lp_bound (i + 1) (by omega)
    have hcond : (!(decide (Lp[i] ≤ Lp[i + 1]) && decide (Lp[i + 1] ≤ Lx.size) && decide (Lp[i + 1] ≤ Li.size))) = false := by
      rw [hf, hl, h.lx_size, decide_eq_true hmono, decide_eq_true hbd]; rfl
    have hvalid : ∀ j ∈ colIdx Lp i, j < Li.size ∧ j < Lx.size ∧ Li.getD j 0 < x.size := by
      intro j hj
      have hjl := colIdx_lt h i hi j hj
      exact ⟨hjl, by rw [h.lx_size]; exact hjl, by rw [hxs]; exact (h.rows i hi j hj).2⟩
    have hdot := dot_col Li Lx x (colIdx Lp i) 0 hvalid
    rw [dot_eq_dense Li Lx x n (colIdx Lp i) (fun j hj => (h.rows i hi j hj).2), zero_add] at hdot
    refine ⟨x.set i (x[i] * Dinv[i] - ∑ r ∈ Finset.range n, colSum Li Lx (colIdx Lp i) r * x.getD r 0) hix,
      ?_, by simpa using hxs, ?_, ?_⟩
    · simp only [dltsolveStep, getE_ok _ _ _ h1, getE_ok _ _ _ h2, getE_ok _ _ _ hix, getE_ok _ _ _ hiD,
        setE_ok _ _ _ _ hix, bind, Except.bind, hcond, Bool.false_eq_true, ↓reduceIte]
      rw [hf, hl]
      unfold colIdx at hdot
      rw [hdot]
      rfl
    · -- the rows i, i+1, …, n-1 satisfy their equations
      set x' := x.set i (x[i] * Dinv[i] - ∑ r ∈ Finset.range n, colSum Li Lx (colIdx Lp i) r * x.getD r 0) hix
        with hx'
      have hget : ∀ r, r ≠ i → x'.getD r 0 = x.getD r 0 := by
        intro r hr
        rw [hx', Array.getD_eq_getD_getElem?, Array.getD_eq_getD_getElem?, Array.getElem?_set]
        simp only [Ne.symm hr, ↓reduceIte]
      have hgeti : x'.getD i 0 = x[i] * Dinv[i] - ∑ r ∈ Finset.range n, colSum Li Lx (colIdx Lp i) r * x.getD r 0 := by
        rw [hx']; simp [Array.getD_eq_getD_getElem?]
      -- the column sums of the columns c ≥ i do not see the change of x[i]
      have hsum : ∀ c, i ≤ c → c < n →
          ∑ r ∈ Finset.range n, denseL Lp Li Lx r c * x'.getD r 0 =
            ∑ r ∈ Finset.range n, denseL Lp Li Lx r c * x.getD r 0 := by
        intro c hc hcn
        refine Finset.sum_congr rfl (fun r _ => ?_)
        by_cases hr : r = i
        · subst hr; rw [denseL_upper h r c hcn hc]; ring
        · rw [hget r hr]
      intro c hc1 hc2
      by_cases hci : c = i
      · subst hci
        rw [hsum c (Nat.le_refl _) hc2, hgeti]
        have e1 : x[c] = y.getD c 0 := by
          have := hraw c (by omega); rw [← this]; simp [hix]
        have e2 : Dinv[c] = Dinv.getD c 0 := by simp [hiD]
        rw [e1, e2]; unfold denseL; ring
      · have hgt : i < c := by omega
        rw [hsum c (by omega) hc2, hget c hci]
        exact hfin c (by omega) hc2
    · intro c hc
      have hne : c ≠ i := by omega
      have : (x.set i (x[i] * Dinv[i] - ∑ r ∈ Finset.range n, colSum Li Lx (colIdx Lp i) r * x.getD r 0) hix).getD c 0
          = x.getD c 0 := by
        rw [Array.getD_eq_getD_getElem?, Array.getD_eq_getD_getElem?, Array.getElem?_set]
        simp only [Ne.symm hne, ↓reduceIte]
      rw [this]; exact hraw c (by omega))
  obtain ⟨x, hx, hxs, hfin, _⟩ := this
  refine ⟨x, ?_, hxs, fun i hi => hfin i (by omega) hi⟩
  unfold dltsolve
  rw [hy, reverse_range_eq_map, List.foldlM_map]
  exact hx

/-- **`_solve`** (`_lsolve` then `_dltsolve`): the result satisfies the two triangular systems -/
theorem solveRaw_spec (n : Nat) (Lp Li : Array Nat) (Lx Dinv : Array α) (h : LowerCsc n Lp Li Lx)
    (hD : Dinv.size = n) (b : Array α) (hb : b.size = n) :
    ∃ y x : Array α, solveRaw Lp Li Lx Dinv b = .ok x ∧ y.size = n ∧ x.size = n ∧
      (∀ r, r < n → y.getD r 0 + ∑ c ∈ Finset.range n, denseL Lp Li Lx r c * y.getD c 0 = b.getD r 0) ∧
      (∀ i, i < n → x.getD i 0 + ∑ r ∈ Finset.range n, denseL Lp Li Lx r i * x.getD r 0 =
        y.getD i 0 * Dinv.getD i 0) := by
  obtain ⟨y, hy, hys, hyv⟩ := lsolve_spec n Lp Li Lx h b hb
  obtain ⟨x, hx, hxs, hxv⟩ := dltsolve_spec n Lp Li Lx Dinv h hD y hys
  refine ⟨y, x, ?_, hys, hxs, hyv, hxv⟩
  unfold solveRaw
  simp only [bind, Except.bind, hy, hx]

end Clarabel.Qdldl
