/-
  Helper lemmas for C16: operations that rewrite `nzval` in place (scale / negate /
  lscale) and column-wise value maps (rscale / lrscale).
-/
import ClarabelProofs.Lemmas.CscGemv

namespace Clarabel.Csc
open Clarabel.C16

variable {α : Type}

theorem zip_zipWith_left {β : Type} (r : List Nat) (v : List β) (g : Nat → β → β) :
    r.zip (List.zipWith g r v) = (r.zip v).map (fun e => (e.1, g e.1 e.2)) := by
  induction r generalizing v with
  | nil => simp
  | cons a t ih =>
    cases v with
    | nil => simp
    | cons b w => simp [ih]

theorem zipWith_const_left {β : Type} (r : List Nat) (v : List β) (f : β → β)
    (h : r.length = v.length) : List.zipWith (fun _ x => f x) r v = v.map f := by
  induction r generalizing v with
  | nil => cases v with
    | nil => rfl
    | cons b w => simp at h
  | cons a t ih =>
    cases v with
    | nil => simp at h
    | cons b w => simp [ih w (by simpa using h)]

/-- a matrix with the same pattern whose values are `g row value`: its columns -/
theorem col_of_vals (M M' : Csc α) (g : Nat → α → α)
    (hc : M'.colptr = M.colptr) (hr : M'.rowval = M.rowval)
    (hv : M'.nzval.toList = List.zipWith g M.rowval.toList M.nzval.toList) (j : Nat) :
    M'.col j = (M.col j).map (fun e => (e.1, g e.1 e.2)) := by
  unfold col
  rw [hc, hr]
  simp only [Array.toList_extract, List.extract_eq_drop_take', hv]
  rw [List.take_zipWith, List.drop_zipWith, zip_zipWith_left]

theorem canonical_of_same_pattern {M M' : Csc α} (hM : Canonical M)
    (hm : M'.m = M.m) (hn : M'.n = M.n) (hc : M'.colptr = M.colptr) (hr : M'.rowval = M.rowval)
    (hv : M'.nzval.size = M.nzval.size) : Canonical M' := by
  refine ⟨by rw [hr, hv]; exact hM.len_eq, by rw [hc, hn]; exact hM.colptr_size,
    by rw [hc, hn, hr]; exact hM.colptr_last, by rw [hc]; exact hM.colptr_mono, ?_,
    by rw [hr, hm]; exact hM.rows_bound⟩
  intro j hj
  have : M'.colRows j = M.colRows j := by unfold colRows; rw [hc, hr]
  rw [this]
  exact hM.rows_sorted j (by omega)

theorem colVals_map_rowval (c : List (Nat × α)) (g : Nat → α → α) (i : Nat) :
    colVals (c.map (fun e => (e.1, g e.1 e.2))) i = (colVals c i).map (g i) := by
  induction c with
  | nil => rfl
  | cons e t ih =>
    rw [List.map_cons, colVals_cons, colVals_cons]
    by_cases h : e.1 = i
    · subst h; simp [ih]
    · simp [h, ih]

theorem sum_map_mul_right' [Semiring α] (l : List α) (c : α) : (l.map (· * c)).sum = l.sum * c := by
  induction l with
  | nil => simp
  | cons a t ih => simp [ih, add_mul]

theorem sum_map_neg' [Ring α] (l : List α) : (l.map (fun v => -v)).sum = -l.sum := by
  induction l with
  | nil => simp
  | cons a t ih => simp [ih, add_comm]

theorem colOK_map_val (m : Nat) (c : List (Nat × α)) (g : Nat → α → α) (h : ColOK m c) :
    ColOK m (c.map (fun e => (e.1, g e.1 e.2))) := by
  refine ⟨?_, ?_⟩
  · rw [List.map_map]
    exact h.1
  · intro e he
    simp only [List.mem_map] at he
    obtain ⟨e', he', rfl⟩ := he
    exact h.2 e' he'


theorem map_zip_eq_zipWith_swap {β : Type} (v : List β) (r : List Nat) (h : β → Nat → β) :
    (v.zip r).map (fun p => h p.1 p.2) = List.zipWith (fun a b => h b a) r v := by
  induction v generalizing r with
  | nil => simp
  | cons b w ih =>
    cases r with
    | nil => simp
    | cons a t => simp [ih]

theorem getE_eq_ok {β : Type} (xs : Array β) (i : Nat) (d : β) (site : String) (h : i < xs.size) :
    getE xs i site = .ok (xs.getD i d) := by
  simp [getE, Array.getD_eq_getD_getElem?, Array.getElem?_eq_getElem h]
  rfl

end Clarabel.Csc
