/-
  C12: `QDLDLFactorisation::new(A, perm)` and `solve` end to end.

  `new` = `check_structure`, `_invperm`, `permute_symmetric`, the `Dsigns` permutation,
  `QDLDLWorkspace::new` (`_etree`) and `_factor` on a freshly allocated object.  With the
  `Represents` bridge (`QdldlRepresents.lean`) every step is discharged from hypotheses on the
  user's matrix and ordering, so the theorems about `_factor_inner` become theorems about `new`.
-/
import ClarabelProofs.Lemmas.QdldlRepresents
import ClarabelProofs.Lemmas.QdldlFactorVal
import ClarabelProofs.Lemmas.QdldlRefactor
import ClarabelProofs.Lemmas.QdldlFactorSolve

namespace Clarabel.Qdldl

/-! ### `permute` / `ipermute` -/

theorem filterMap_getElem?_eq_map {β : Type} (b : Array β) (d : β) (l : List Nat) (h : ∀ j ∈ l, j < b.size) :
    l.filterMap (fun j => b[j]?) = l.map (fun j => b.getD j d) := by
  induction l with
  | nil => rfl
  | cons j t ih =>
    have hj := h j (by simp)
    rw [List.filterMap_cons, List.map_cons, ih (fun x hx => h x (List.mem_cons_of_mem _ hx))]
    simp [hj, Array.getD_eq_getD_getElem?]

/-- `permute(x, b, p)` with `|p| = |x|` and in-range indices: `x[i] = b[p[i]]` -/
theorem permute_spec {β : Type} (x b : Array β) (p : Array Nat) (d : β) (hps : p.size = x.size)
    (hlt : ∀ j ∈ p.toList, j < b.size) :
    ∃ r, Perm.permute x b p = .ok r ∧ r.size = x.size ∧ ∀ i, i < x.size → r.getD i d = b.getD (p.getD i 0) d := by
  have htake : p.toList.take x.size = p.toList := by
    rw [List.take_of_length_le (by simp [hps])]
  have hall : (p.toList.all fun j => decide (j < b.size)) = true := by
    rw [List.all_eq_true]; intro j hj; simpa using hlt j hj
  have hdrop : x.toList.drop p.size = [] := by
    rw [List.drop_eq_nil_iff]; simp [hps]
  refine ⟨(p.toList.map (fun j => b.getD j d)).toArray, ?_, by simp [hps], ?_⟩
  · unfold Perm.permute
    simp only [htake, hall, ↓reduceIte, hdrop, List.append_nil, pure, Except.pure]
    rw [filterMap_getElem?_eq_map b d p.toList hlt]
  · intro i hi
    have hi' : i < p.size := by omega
    simp [Array.getD_eq_getD_getElem?, hi']

theorem foldlM_setE_eq_scatter {β : Type} (pos : List Nat) (vals : List β) (x : Array β)
    (hlt : ∀ p ∈ pos, p < x.size) (site : String) :
    (pos.zip vals).foldlM (fun (x : Array β) (pb : Nat × β) => setE x pb.1 pb.2 site) x =
      .ok (scatter x pos vals) := by
  induction pos generalizing vals x with
  | nil => simp [scatter, pure, Except.pure]
  | cons q r ih =>
    cases vals with
    | nil => simp [scatter, pure, Except.pure]
    | cons v vs =>
      have hq : q < x.size := hlt q (by simp)
      rw [List.zip_cons_cons, List.foldlM_cons, setE_ok _ _ _ _ hq]
      simp only [bind, Except.bind]
      rw [ih vs (x.set q v hq) (by intro p hp; simpa using hlt p (List.mem_cons_of_mem _ hp))]
      simp [scatter, Array.setIfInBounds, hq]

/-- `ipermute(x, b, p)` for a permutation `p` of `0 … n-1`, `|x| = |b| = n`: `x[p[i]] = b[i]` -/
theorem ipermute_spec {β : Type} (x b : Array β) (p : Array Nat) (d : β) (hnd : p.toList.Nodup)
    (hlt : ∀ j ∈ p.toList, j < x.size) (hpb : p.size = b.size) :
    ∃ r, Perm.ipermute x b p = .ok r ∧ r.size = x.size ∧
      ∀ i, i < p.size → r.getD (p.getD i 0) d = b.getD i d := by
  refine ⟨scatter x p.toList b.toList, ?_, scatter_size _ _ _, ?_⟩
  · unfold Perm.ipermute
    exact foldlM_setE_eq_scatter p.toList b.toList x hlt _
  · intro i hi
    have hi' : i < p.toList.length := by simpa using hi
    have := scatter_get x p.toList b.toList hnd (by simp [hpb]) hlt i hi'
    have e : p.getD i 0 = p.toList[i] := by simp [Array.getD_eq_getD_getElem?, hi]
    rw [e, Array.getD_eq_getD_getElem?, this]
    have hib : i < b.size := by omega
    simp [Array.getD_eq_getD_getElem?, hib]

/-! ### the object `_qdldl_new` hands to `_factor` -/

/-- the freshly allocated factorisation object of `_qdldl_new` -/
def freshObj {α : Type} [OfNat α 0] (n : Nat) (perm iperm : Array Nat) (P : Csc α) (map : Array Nat)
    (es : EtreeState) (rp : RegParams α) (logical : Bool) : Factorisation α :=
  { perm := perm, iperm := iperm,
    L := { m := n, n := n,
           colptr := (Array.replicate (n + 1) 0).setIfInBounds n (es.Lnz.toList.foldl (· + ·) 0),
           rowval := Array.replicate (es.Lnz.toList.foldl (· + ·) 0) 0,
           nzval := Array.replicate (es.Lnz.toList.foldl (· + ·) 0) 0 },
    D := Array.replicate n 0, Dinv := Array.replicate n 0,
    etree := es.etree, Lnz := es.Lnz, triuA := P, AtoPAPt := map, rp := rp,
    positiveInertia := 0, regularizeCount := 0, isSymbolic := logical }

/-- the `Dsigns` vector of the workspace: the user's signs permuted, default `+1` -/
def dsignsOf (n : Nat) (dsigns : Option (Array Int)) (perm : Array Nat) : MErr (Array Int) :=
  match dsigns with
  | some ds => Perm.permute (Array.replicate n (1 : Int)) ds perm
  | none => pure (Array.replicate n (1 : Int))

/-- the sign used by the pivot rule in row `r` of the permuted matrix -/
def signAt (dsigns : Option (Array Int)) (perm : Array Nat) (r : Nat) : Int :=
  match dsigns with
  | some ds => ds.getD (perm.getD r 0) 0
  | none => 1

section general
variable {α : Type} [Add α] [Sub α] [Mul α] [Div α] [Neg α] [OfNat α 0] [OfNat α 1] [LT α]
  [DecidableLT α] [BEq α] [FloatLike α]

/-- `new` as a composition of its successful stages -/
theorem new_eq (A : Csc α) (perm iperm : Array Nat) (dsigns : Option (Array Int)) (enable : Bool)
    (eps delta : α) (logical : Bool) (P : Csc α) (map : Array Nat) (Ds : Array Int) (es : EtreeState)
    (h1 : checkStructure A = .ok ()) (h2 : Perm.invperm perm = .ok iperm)
    (h3 : permuteSymmetric A iperm = .ok (P, map)) (h4 : dsignsOf A.m dsigns perm = .ok Ds)
    (h5 : etree P.m P.colptr P.rowval = .ok es) :
    new A perm dsigns enable eps delta logical =
      factor (freshObj A.m perm iperm P map es
        { Dsigns := Ds, enable := enable, eps := eps, delta := delta } logical) logical := by
  unfold new newWithOrdering
  simp only [h1, h2, h3, bind, Except.bind]
  unfold dsignsOf at h4
  cases dsigns with
  | none =>
    simp only [pure, Except.pure] at h4
    have : Ds = Array.replicate A.m 1 := (Except.ok.inj h4).symm
    subst this
    simp only [pure, Except.pure, h5]
    rfl
  | some ds =>
    simp only at h4
    simp only [h4, h5]
    rfl

/-- the stages of `new` succeed on a valid input -/
theorem new_stages (A : Csc α) (hw : wellFormed A = true) (hc : checkStructure A = .ok ())
    (hnd : NoDupCols A.colptr A.rowval) (perm iperm : Array Nat) (hip : Perm.invperm perm = .ok iperm)
    (hps : perm.size = A.n) (dsigns : Option (Array Int))
    (hds : ∀ ds, dsigns = some ds → A.n ≤ ds.size) :
    ∃ P map Ds es, permuteSymmetric A iperm = .ok (P, map) ∧ dsignsOf A.m dsigns perm = .ok Ds ∧
      etree P.m P.colptr P.rowval = .ok es ∧ P.m = A.n ∧ P.n = A.n ∧
      TriuCsc A.n P.colptr P.rowval ∧ EtreeInv (Apat P.colptr P.rowval) A.n A.n es ∧
      Represents A.n P.colptr P.rowval P.nzval (denseOf P.colptr P.rowval P.nzval) ∧
      (∀ i k, k < A.n → i ≤ k → denseOf P.colptr P.rowval P.nzval i k =
        denseOf A.colptr A.rowval A.nzval (min (perm.getD i 0) (perm.getD k 0))
          (max (perm.getD i 0) (perm.getD k 0))) ∧
      Ds.size = A.n ∧
      (∀ i, i < A.n → Ds.getD i 0 = signAt dsigns perm i) := by
  have hA := InputOK.of_checks A hw hc
  obtain ⟨hisz, hinv⟩ := invperm_invPair perm iperm hip
  rw [hps] at hinv hisz
  obtain ⟨P, map, hP⟩ := permuteSymmetric_total A hA iperm (by omega) hinv.ip_lt
  obtain ⟨hPn, hT⟩ := permuteSymmetric_triuCsc A iperm P map hP
  obtain ⟨_, hRep, hval⟩ := permuteSymmetric_represents A hA hnd iperm (fun i => perm.getD i 0) hinv P map hP
  have hPm : P.m = A.n := by
    obtain ⟨_, Pc, Pr, pos, _, hPe, _⟩ := permuteSymmetric_ok A iperm P map hP
    rw [hPe]
  rw [hPn] at hT hRep
  obtain ⟨es, hes, hI⟩ := etree_spec A.n P.colptr P.rowval hT
  have hpl : ∀ j ∈ perm.toList, j < A.n := by
    intro j hj
    obtain ⟨i, hi, hij⟩ := List.getElem_of_mem hj
    have hi' : i < perm.size := by simpa using hi
    have := hinv.pm_lt i (by omega)
    have e : perm.getD i 0 = perm[i] := by simp [Array.getD_eq_getD_getElem?, hi']
    simp only [e] at this
    rw [← hij]; simpa using this
  have hDs : ∃ Ds, dsignsOf A.m dsigns perm = .ok Ds ∧ Ds.size = A.n ∧
      (∀ i, i < A.n → Ds.getD i 0 = signAt dsigns perm i) := by
    cases dsigns with
    | none =>
      refine ⟨Array.replicate A.m 1, rfl, by simp [hA.sq], ?_⟩
      intro i hi
      simp [signAt, Array.getD_eq_getD_getElem?, hA.sq, hi]
    | some ds =>
      have hsz := hds ds rfl
      obtain ⟨r, hr, hrs, hrv⟩ := permute_spec (Array.replicate A.m (1 : Int)) ds perm 0
        (by simp [hps, hA.sq]) (fun j hj => by have := hpl j hj; omega)
      refine ⟨r, hr, by simpa [hA.sq] using hrs, ?_⟩
      intro i hi
      exact hrv i (by simp [hA.sq, hi])
  obtain ⟨Ds, hDs1, hDs2, hDs3⟩ := hDs
  exact ⟨P, map, Ds, es, hP, hDs1, by rw [hPm]; exact hes, hPm, hPn, hT, hI, hRep, hval, hDs2, hDs3⟩

/-- `_factor` in numeric mode succeeds exactly when `_factor_inner` does -/
theorem factor_false_eq (F : Factorisation α) :
    factor F false =
      (factorInner F.triuA.n F.triuA.colptr F.triuA.rowval F.triuA.nzval F.L.rowval F.L.nzval F.D F.Dinv
        F.Lnz F.etree false F.rp).map (fun s =>
        { F with
          L := { F.L with colptr := s.Lp, rowval := s.Li, nzval := s.Lx },
          D := s.D, Dinv := s.Dinv, positiveInertia := s.positive, regularizeCount := s.regularizeCount }) := by
  unfold factor
  simp only [Bool.false_eq_true, ↓reduceIte]
  cases factorInner F.triuA.n F.triuA.colptr F.triuA.rowval F.triuA.nzval F.L.rowval F.L.nzval F.D F.Dinv
    F.Lnz F.etree false F.rp <;> rfl

end general

/-! ### values: `new` computes `Π Sym(A) Πᵀ = (I+L) D (I+L)ᵀ`, `solve` solves `Sym(A) x = b` -/

section field
variable {α : Type} [Field α] [DecidableEq α] [LT α] [DecidableLT α] [FloatLike α]
open BigOperators Matrix

/-- the symmetric matrix whose upper triangle the user's `A` stores -/
noncomputable def symOf (A : Csc α) (i j : Nat) : α :=
  denseOf A.colptr A.rowval A.nzval (min i j) (max i j)

theorem symOf_comm (A : Csc α) (i j : Nat) : symOf A i j = symOf A j i := by
  unfold symOf; rw [Nat.min_comm, Nat.max_comm]

/-- what `new` returns (numeric mode), in terms of the user's matrix and ordering -/
structure NewSpec (A : Csc α) (perm : Array Nat) (dsigns : Option (Array Int)) (enable : Bool)
    (eps delta : α) (F : Factorisation α) : Prop where
  perm_eq : F.perm = perm
  numeric : F.isSymbolic = false
  triu_n : F.triuA.n = A.n
  dsz : F.D.size = A.n
  disz : F.Dinv.size = A.n
  lower : LowerCsc A.n F.L.colptr F.L.rowval F.L.nzval
  offdiag : ∀ r, r < A.n → ∀ c, c < r →
    denseL F.L.colptr F.L.rowval F.L.nzval r c * F.D.getD c 0 +
      ∑ j ∈ Finset.range c, denseL F.L.colptr F.L.rowval F.L.nzval c j *
        (denseL F.L.colptr F.L.rowval F.L.nzval r j * F.D.getD j 0) =
      symOf A (perm.getD c 0) (perm.getD r 0)
  diag : ∀ r, r < A.n → F.D.getD r 0 =
    (regularizePivot enable eps delta (signAt dsigns perm r)
      (symOf A (perm.getD r 0) (perm.getD r 0) - ∑ j ∈ Finset.range r,
        (denseL F.L.colptr F.L.rowval F.L.nzval r j * F.D.getD j 0) *
          denseL F.L.colptr F.L.rowval F.L.nzval r j)).1
  nz : ∀ c, c < A.n → F.D.getD c 0 ≠ 0 ∧ F.Dinv.getD c 0 = 1 / F.D.getD c 0
  inertia : F.positiveInertia = ((List.range A.n).filter (fun c => decide (0 < F.D.getD c 0))).length
  regcount : F.regularizeCount = ((List.range A.n).filter (fun r =>
    (regularizePivot enable eps delta (signAt dsigns perm r)
      (symOf A (perm.getD r 0) (perm.getD r 0) - ∑ j ∈ Finset.range r,
        (denseL F.L.colptr F.L.rowval F.L.nzval r j * F.D.getD j 0) *
          denseL F.L.colptr F.L.rowval F.L.nzval r j)).2)).length

/-- **`QDLDLFactorisation::new(A, perm)` is correct**: on a canonical upper-triangular `A` and a
permutation `perm` of `0 … n-1` the call returns `ZeroPivot` or a factorisation object, never
anything else, and the object satisfies `NewSpec`. -/
theorem new_correct (A : Csc α) (hw : wellFormed A = true) (hc : checkStructure A = .ok ())
    (hnd : NoDupCols A.colptr A.rowval) (hn : 0 < A.n) (perm iperm : Array Nat)
    (hip : Perm.invperm perm = .ok iperm) (hps : perm.size = A.n) (dsigns : Option (Array Int))
    (hds : ∀ ds, dsigns = some ds → A.n ≤ ds.size) (enable : Bool) (eps delta : α) :
    (new A perm dsigns enable eps delta false = .error errZeroPivot ∨
      ∃ F, new A perm dsigns enable eps delta false = .ok F) ∧
    ∀ F, new A perm dsigns enable eps delta false = .ok F → NewSpec A perm dsigns enable eps delta F := by
  obtain ⟨P, map, Ds, es, hP, hDs, hes, hPm, hPn, hT, hI, hRep, hval, hDsz, hDv⟩ :=
    new_stages A hw hc hnd perm iperm hip hps dsigns hds
  have hA := InputOK.of_checks A hw hc
  have heq := new_eq A perm iperm dsigns enable eps delta false P map Ds es hc hip hP hDs hes
  rw [heq, factor_false_eq]
  have C : FCtx A.n P.colptr P.rowval es.etree es.Lnz := FCtx.of_etree hn hT hI
  have hsum : LpOf es.Lnz A.n = es.Lnz.toList.foldl (· + ·) 0 := by
    have := cumsum_last es.Lnz
    rw [C.lsz] at this
    exact this
  set rp : RegParams α := { Dsigns := Ds, enable := enable, eps := eps, delta := delta } with hrp
  -- the call of `_factor_inner` made by `new`
  have hcall : factorInner (freshObj A.m perm iperm P map es rp false).triuA.n
      (freshObj A.m perm iperm P map es rp false).triuA.colptr
      (freshObj A.m perm iperm P map es rp false).triuA.rowval
      (freshObj A.m perm iperm P map es rp false).triuA.nzval
      (freshObj A.m perm iperm P map es rp false).L.rowval
      (freshObj A.m perm iperm P map es rp false).L.nzval
      (freshObj A.m perm iperm P map es rp false).D
      (freshObj A.m perm iperm P map es rp false).Dinv
      (freshObj A.m perm iperm P map es rp false).Lnz
      (freshObj A.m perm iperm P map es rp false).etree false
      (freshObj A.m perm iperm P map es rp false).rp =
      factorInner A.n P.colptr P.rowval P.nzval (Array.replicate (es.Lnz.toList.foldl (· + ·) 0) 0)
        (Array.replicate (es.Lnz.toList.foldl (· + ·) 0) 0) (Array.replicate A.n 0) (Array.replicate A.n 0)
        es.Lnz es.etree false rp := by
    show factorInner P.n _ _ _ _ _ (Array.replicate A.m 0) (Array.replicate A.m 0) _ _ _ _ = _
    rw [hPn, hA.sq]
    rfl
  rw [hcall]
  have hLi : LpOf es.Lnz A.n ≤ (Array.replicate (es.Lnz.toList.foldl (· + ·) 0) (0 : Nat)).size := by
    rw [hsum]; simp
  have hsg : rp.enable = true → A.n ≤ rp.Dsigns.size := fun _ => by rw [hrp]; simp [hDsz]
  have hval' := factorInner_val C P.nzval _ hRep (Array.replicate (es.Lnz.toList.foldl (· + ·) 0) 0)
    (Array.replicate (es.Lnz.toList.foldl (· + ·) 0) (0 : α)) (Array.replicate A.n 0) (Array.replicate A.n 0)
    hLi (by simp) (by simp) (by simp) rp hsg
  constructor
  · rcases hval'.1 with h | ⟨s, h⟩
    · left; rw [h]; rfl
    · right; rw [h]; exact ⟨_, rfl⟩
  · intro F hF
    cases hs : factorInner A.n P.colptr P.rowval P.nzval (Array.replicate (es.Lnz.toList.foldl (· + ·) 0) 0)
        (Array.replicate (es.Lnz.toList.foldl (· + ·) 0) (0 : α)) (Array.replicate A.n 0) (Array.replicate A.n 0)
        es.Lnz es.etree false rp with
    | error e => rw [hs] at hF; cases hF
    | ok s =>
      rw [hs] at hF
      have hFe : F = _ := (Except.ok.inj hF).symm
      obtain ⟨h1, h2, h3, h4, h5, h6, h7, h8, h9⟩ := factorInner_dense C P.nzval _ hRep
        (Array.replicate (es.Lnz.toList.foldl (· + ·) 0) 0)
        (Array.replicate (es.Lnz.toList.foldl (· + ·) 0) (0 : α)) (Array.replicate A.n 0) (Array.replicate A.n 0)
        hLi (by simp) (by simp) (by simp) rp hsg s hs
      have hsign : ∀ r, r < A.n → rp.Dsigns.getD r 0 = signAt dsigns perm r := by
        intro r hr
        show Ds.getD r 0 = _
        exact hDv r hr
      have hraw : ∀ r, r < A.n →
          rawPivot (denseOf P.colptr P.rowval P.nzval) (denseL s.Lp s.Li s.Lx) (fun j => s.D.getD j 0) r =
          symOf A (perm.getD r 0) (perm.getD r 0) - ∑ j ∈ Finset.range r,
            (denseL s.Lp s.Li s.Lx r j * s.D.getD j 0) * denseL s.Lp s.Li s.Lx r j := by
        intro r hr
        unfold rawPivot symOf
        rw [hval r r hr (Nat.le_refl _)]
      subst hFe
      refine ⟨rfl, rfl, hPn, h2, h3, h1, ?_, ?_, h7, h8, ?_⟩
      · intro r hr c hcr
        have := h5 r hr c hcr
        rw [hval c r hr (Nat.le_of_lt hcr)] at this
        exact this
      · intro r hr
        have := h6 r hr
        rw [hraw r hr, hsign r hr] at this
        exact this
      · show s.regularizeCount = _
        rw [h9]
        congr 1
        apply List.filter_congr
        intro r hr
        rw [List.mem_range] at hr
        rw [hraw r hr, hsign r hr]

/-- `_solve` on the CSC arrays composed with the permutation wrapper (lemma form of
`C12.solve_correct_csc`) -/
theorem solveRaw_correct {n : ℕ} (Lp Li : Array Nat) (Lx Dinv : Array α)
    (hcsc : LowerCsc n Lp Li Lx) (hDs : Dinv.size = n)
    (d : Fin n → α) (hd : ∀ i, d i ≠ 0) (hDinv : ∀ i : Fin n, Dinv.getD i 0 = 1 / d i)
    (A : Matrix (Fin n) (Fin n) α) (σ : Equiv.Perm (Fin n))
    (hPAP : ∀ i j, ((1 + Matrix.of fun (i j : Fin n) => denseL Lp Li Lx i j) * Matrix.diagonal d *
      (1 + Matrix.of fun (i j : Fin n) => denseL Lp Li Lx i j)ᵀ : Matrix (Fin n) (Fin n) α) i j = A (σ i) (σ j))
    (b : Fin n → α) (tmp : Array α) (hts : tmp.size = n) (htmp : ∀ i : Fin n, tmp.getD i 0 = b (σ i)) :
    ∃ t : Array α, solveRaw Lp Li Lx Dinv tmp = .ok t ∧ t.size = n ∧
      Matrix.mulVec A (fun r => t.getD (σ.symm r) 0) = b := by
  obtain ⟨y, t, hrun, hys, hts', hy, ht⟩ := solveRaw_spec n Lp Li Lx Dinv hcsc hDs tmp hts
  refine ⟨t, hrun, hts', ?_⟩
  apply Dense.solve_of_systems A (Matrix.of fun (i j : Fin n) => denseL Lp Li Lx i j) d σ b
    (fun i => y.getD i 0) (fun i => t.getD i 0) hd hPAP
  · funext i
    have := hy i i.isLt
    rw [Finset.sum_range] at this
    rw [Matrix.add_mulVec, Matrix.one_mulVec]
    simp only [Pi.add_apply, Matrix.mulVec, dotProduct, Matrix.of_apply]
    rw [this, htmp i]
  · funext i
    have := ht i i.isLt
    rw [Finset.sum_range] at this
    rw [Matrix.transpose_add, Matrix.transpose_one, Matrix.add_mulVec, Matrix.one_mulVec]
    simp only [Pi.add_apply, Matrix.mulVec, dotProduct, Matrix.transpose_apply, Matrix.of_apply]
    rw [this, hDinv i]

/-- an inverse pair as a permutation of `Fin n` -/
def InvPair.toEquiv {n : Nat} {pm ip : Nat → Nat} (h : InvPair n pm ip) : Equiv.Perm (Fin n) where
  toFun i := ⟨pm i, h.pm_lt i i.isLt⟩
  invFun j := ⟨ip j, h.ip_lt j j.isLt⟩
  left_inv i := Fin.ext (h.ip_pm i i.isLt)
  right_inv j := Fin.ext (h.pm_ip j j.isLt)

/-- **`new` then `solve`: `Sym(A) x = b`** (regulariser off) -/
theorem new_solve (A : Csc α) (hw : wellFormed A = true) (hc : checkStructure A = .ok ())
    (hnd : NoDupCols A.colptr A.rowval) (hn : 0 < A.n) (perm iperm : Array Nat)
    (hip : Perm.invperm perm = .ok iperm) (hps : perm.size = A.n) (dsigns : Option (Array Int))
    (hds : ∀ ds, dsigns = some ds → A.n ≤ ds.size) (eps delta : α) (F : Factorisation α)
    (hF : new A perm dsigns false eps delta false = .ok F) (b : Array α) (hb : b.size = A.n) :
    ∃ x, solve F b = .ok x ∧ x.size = A.n ∧
      Matrix.mulVec (Matrix.of fun i j : Fin A.n => symOf A i.val j.val) (fun j => x.getD j.val 0) =
        fun i => b.getD i.val 0 := by
  have hS := (new_correct A hw hc hnd hn perm iperm hip hps dsigns hds false eps delta).2 F hF
  obtain ⟨hisz, hinv⟩ := invperm_invPair perm iperm hip
  rw [hps] at hinv hisz
  have hpnd : perm.toList.Nodup ∧ ∀ j ∈ perm.toList, j < A.n := by
    unfold Perm.invperm at hip
    obtain ⟨hrange, hnd', _⟩ := (Perm.invpermLoop_ok_iff perm.size perm.toList 0 _ _ (by simp) iperm).mp hip
    exact ⟨hnd', fun j hj => by have := (hrange j hj).1; omega⟩
  -- the three stages of `solve`
  obtain ⟨tmp, htmp, htsz, htv⟩ := permute_spec (Array.replicate F.triuA.n (0 : α)) b F.perm 0
    (by rw [hS.perm_eq, hS.triu_n]; simp [hps]) (by rw [hS.perm_eq, hb]; exact hpnd.2)
  have htsz' : tmp.size = A.n := by rw [htsz]; simp [hS.triu_n]
  set σ := hinv.toEquiv with hσ
  -- the matrix identity `(1+L) D (1+L)ᵀ = Π Sym(A) Πᵀ`
  have hPAP : ∀ i j : Fin A.n,
      ((1 + Matrix.of fun (i j : Fin A.n) => denseL F.L.colptr F.L.rowval F.L.nzval i j) *
        Matrix.diagonal (fun i : Fin A.n => F.D.getD i 0) *
        (1 + Matrix.of fun (i j : Fin A.n) => denseL F.L.colptr F.L.rowval F.L.nzval i j)ᵀ :
          Matrix (Fin A.n) (Fin A.n) α) i j =
      (Matrix.of fun i j : Fin A.n => symOf A i.val j.val) (σ i) (σ j) := by
    intro i j
    have := ldl_matrix_form A.n (denseL F.L.colptr F.L.rowval F.L.nzval) (fun j => F.D.getD j 0)
      (fun c r => symOf A (perm.getD c 0) (perm.getD r 0))
      (fun r c hc hrc => denseL_upper hS.lower r c hc hrc) hS.offdiag (by
        intro r hr
        have := hS.diag r hr
        simp only [regularizePivot, Bool.false_eq_true, ↓reduceIte] at this
        rw [this]; ring) i j
    rw [this]
    show symOf A _ _ = symOf A (perm.getD i.val 0) (perm.getD j.val 0)
    rcases Nat.le_total i.val j.val with hle | hle
    · rw [Nat.min_eq_left hle, Nat.max_eq_right hle]
    · rw [Nat.min_eq_right hle, Nat.max_eq_left hle, symOf_comm]
  obtain ⟨t, hrun, hts, hsol⟩ := solveRaw_correct F.L.colptr F.L.rowval F.L.nzval F.Dinv hS.lower hS.disz
    (fun i => F.D.getD i 0) (fun i => (hS.nz i i.isLt).1) (fun i => (hS.nz i i.isLt).2)
    (Matrix.of fun i j : Fin A.n => symOf A i.val j.val) σ hPAP (fun i => b.getD i.val 0) tmp htsz' (by
      intro i
      rw [htv i (by simp [hS.triu_n])]
      rw [hS.perm_eq]
      rfl)
  obtain ⟨x, hx, hxs, hxv⟩ := ipermute_spec b t F.perm 0 (by rw [hS.perm_eq]; exact hpnd.1)
    (by rw [hS.perm_eq, hb]; exact hpnd.2) (by rw [hS.perm_eq, hps, hts])
  refine ⟨x, ?_, by rw [hxs, hb], ?_⟩
  · unfold solve
    have g1 : F.isSymbolic = false := hS.numeric
    have g2 : (b.size != F.D.size) = false := by rw [hb, hS.dsz]; simp
    simp only [g1, g2, Bool.false_eq_true, ↓reduceIte, bind, Except.bind, htmp, hrun, hx]
  · rw [← hsol]
    congr 1
    funext r
    have := hxv (iperm.getD r.val 0) (by rw [hS.perm_eq, hps]; exact hinv.ip_lt r r.isLt)
    rw [hS.perm_eq] at this
    have e : perm.getD (iperm.getD r.val 0) 0 = r.val := hinv.pm_ip r r.isLt
    rw [e] at this
    rw [this]
    rfl

end field

end Clarabel.Qdldl
