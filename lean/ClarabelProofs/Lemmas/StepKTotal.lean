/-
  C07, round 3: from an interior iterate over zero / nonnegative / second-order cones
  `calc_step_length` cannot fail (no panic site is reachable).
-/
import ClarabelProofs.Lemmas.StepKInterior
namespace Clarabel.StepK
open Clarabel Nonsym Loop.Step

/-- symmetric blocks whose `step_length` cannot fail from an interior point -/
def Blk.SymKind : Blk ℝ → Prop
  | .zero .. | .nn .. | .soc .. => True
  | _ => False

theorem Blk.coneFn_ok (ls : LineSearch ℝ) (b : Blk ℝ) (hk : b.SymKind) (hI : b.Interior) (hD : b.DirOk)
    (a : ℝ) (ha : 0 ≤ a) : ∃ r, (b.coneFn ls).stepLength a = .ok r := by
  cases b with
  | zero z s dz ds => exact ⟨_, rfl⟩
  | nn z s dz ds =>
    obtain ⟨e1, _, _⟩ := hI
    obtain ⟨e2, e3⟩ := hD
    refine ⟨(Nonneg.stepComponent a z.toList dz.toList, Nonneg.stepComponent a s.toList ds.toList), ?_⟩
    simp only [Blk.coneFn, Nonneg.stepLength, e1, e2, e3, ne_eq, not_true_eq_false, ↓reduceIte]
    rfl
  | soc z s dz ds =>
    obtain ⟨z0, z1, s0, s1, hz, hs, hzI, hsI⟩ := hI
    obtain ⟨e2, e3⟩ := hD
    obtain ⟨y0, y1, hy, hlen⟩ := toList_cons_of_size z dz z0 z1 hz e2
    obtain ⟨w0, w1, hw, hlen'⟩ := toList_cons_of_size s ds s0 s1 hs e3
    obtain ⟨t1, k1, _⟩ := C15.soc_step_safe_tight z0 z1 y0 y1 a hzI hlen ha
    obtain ⟨t2, k2, _⟩ := C15.soc_step_safe_tight s0 s1 w0 w1 a hsI hlen' ha
    refine ⟨(t1, t2), ?_⟩
    simp only [Blk.coneFn, Soc.stepLength, soc_component_of_toList z dz z0 z1 y0 y1 hz hy,
      soc_component_of_toList s ds s0 s1 w0 w1 hs hw, k1, k2, bind, Except.bind, pure, Except.pure]
  | exp z s dz ds => exact absurd hk id
  | pow al z s dz ds => exact absurd hk id
  | genpow al z s dz ds => exact absurd hk id
  | psd K γz γs z s dz ds => exact absurd hk id

theorem inner_ok (cones : List (Composite.ConeFn ℝ)) (symcond : Bool)
    (hok : ∀ c ∈ cones, ∀ a, 0 ≤ a → ∃ r, c.stepLength a = .ok r)
    (hnn : ∀ c ∈ cones, Composite.StepNonneg c) :
    ∀ a, 0 ≤ a → ∃ m, Composite.inner cones symcond a = .ok m := by
  induction cones with
  | nil => intro a _; exact ⟨a, rfl⟩
  | cons d t ih =>
    intro a ha
    have iht := ih (fun c hc => hok c (List.mem_cons_of_mem _ hc)) (fun c hc => hnn c (List.mem_cons_of_mem _ hc))
    simp only [Composite.inner, List.foldlM_cons]
    by_cases hs : (d.symmetric == symcond) = true
    · simp only [hs, ↓reduceIte, pure, Except.pure, bind, Except.bind]
      exact iht a ha
    · obtain ⟨r, hr⟩ := hok d List.mem_cons_self a ha
      obtain ⟨r0, r1⟩ := hnn d List.mem_cons_self a ha r hr
      simp only [hs, Bool.false_eq_true, ↓reduceIte, bind, Except.bind, hr, pure, Except.pure]
      exact iht _ (le_min ha (le_min r0 r1))

/-- [R] from an interior iterate over zero / nonnegative / second-order cones `calc_step_length`
cannot panic (the SOC line search's `starting point not in SOC` is unreachable) -/
theorem calcStepLength_ok_symmetric (maxValue : ℝ) (ls : LineSearch ℝ) (hs0 : 0 ≤ ls.step)
    (hs1 : ls.step ≤ 1) (hmax : 0 < maxValue) (p : Pt ℝ) (hI : p.Interior) (hD : p.DirOk)
    (hk : ∀ b ∈ p.blks, b.SymKind) (combined : Bool) (f : ℝ) (hf0 : 0 ≤ f) :
    ∃ α, calcStepLength maxValue ls p combined f = .ok α := by
  obtain ⟨hτ, hκ, hB⟩ := hI
  obtain ⟨hp, _, _, _⟩ := alphaMax_bounds p.τ p.κ p.dτ p.dκ maxValue hτ hκ hmax
  have hok : ∀ c ∈ p.blks.map (Blk.coneFn ls), ∀ a, 0 ≤ a → ∃ r, c.stepLength a = .ok r := by
    intro c hc a ha
    obtain ⟨b, hb, rfl⟩ := coneFn_mem hc
    exact Blk.coneFn_ok ls b (hk b hb) (hB b hb) (hD b hb) a ha
  have hnn : ∀ c ∈ p.blks.map (Blk.coneFn ls), Composite.StepNonneg c := by
    intro c hc
    obtain ⟨b, hb, rfl⟩ := coneFn_mem hc
    exact Blk.stepNonneg ls hs0 hs1 b (hB b hb) (hD b hb)
  obtain ⟨a1, h1⟩ := inner_ok _ true hok hnn _ (le_of_lt hp)
  obtain ⟨g0, _, _⟩ := Composite.inner_signed _ true hnn _ a1 (le_of_lt hp) h1
  have ha2 : 0 ≤ (if !(p.blks.map (Blk.coneFn ls)).all (·.symmetric) then fmin f a1 else a1) := by
    split
    · exact le_min hf0 g0
    · exact g0
  obtain ⟨a3, h3⟩ := inner_ok _ false hok hnn _ ha2
  refine ⟨if combined then fmin a3 a3 * f else fmin a3 a3, ?_⟩
  simp only [calcStepLength, coneStep, Composite.stepLength, h1, h3, bind, Except.bind, pure, Except.pure]
end Clarabel.StepK
