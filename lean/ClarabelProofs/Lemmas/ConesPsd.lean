/-
  PSD cone scaling (C13): the Nesterov–Todd identities of `psdtrianglecone.rs::update_scaling`
  as pure matrix algebra, with the LAPACK results (Cholesky factors, SVD) as hypotheses.
-/
import Mathlib.Data.Matrix.Mul
import Mathlib.Data.Matrix.Diagonal
import Mathlib.LinearAlgebra.Matrix.NonsingularInverse
import Mathlib.Analysis.SpecialFunctions.Sqrt
import Mathlib.Tactic.FieldSimp
import Mathlib.Tactic.Ring

namespace Clarabel.Psd
open Matrix

variable {n : ℕ} {K : Type} [Field K]

/-- `D Σ D = I` for diagonal `D = diag d`, `Σ = diag σ` with `dᵢ² σᵢ = 1` -/
theorem diag_sandwich_one (d σ : Fin n → K) (hd : ∀ i, d i * d i * σ i = 1) :
    diagonal d * diagonal σ * diagonal d = (1 : Matrix (Fin n) (Fin n) K) := by
  rw [diagonal_mul_diagonal, diagonal_mul_diagonal, ← diagonal_one]
  congr 1
  funext i
  have := hd i
  linear_combination this

/-- `D Σ Σ D = Σ` -/
theorem diag_sandwich_sq (d σ : Fin n → K) (hd : ∀ i, d i * d i * σ i = 1) :
    diagonal d * (diagonal σ * diagonal σ) * diagonal d = (diagonal σ : Matrix (Fin n) (Fin n) K) := by
  rw [diagonal_mul_diagonal, diagonal_mul_diagonal, diagonal_mul_diagonal]
  congr 1
  funext i
  have := hd i
  linear_combination (σ i) * this

/-- The scaling `R = L₁ V Σ^{-1/2}`, `R⁻¹ = Σ^{-1/2} Uᵀ L₂ᵀ` computed by `update_scaling`
satisfies `RᵀZR = Σ = R⁻¹ S R⁻ᵀ` and `R⁻¹R = RR⁻¹ = I`, given `S = L₁L₁ᵀ`, `Z = L₂L₂ᵀ`,
`L₂ᵀL₁ = UΣVᵀ` with `UᵀU = VᵀV = I` and `dᵢ²σᵢ = 1`. -/
theorem nt_scaling (S Z L1 L2 U V : Matrix (Fin n) (Fin n) K) (σ d : Fin n → K)
    (hS : S = L1 * L1ᵀ) (hZ : Z = L2 * L2ᵀ)
    (hsvd : L2ᵀ * L1 = U * diagonal σ * Vᵀ)
    (hU : Uᵀ * U = 1) (hV : Vᵀ * V = 1) (hd : ∀ i, d i * d i * σ i = 1) :
    let R := L1 * V * diagonal d
    let Rinv := diagonal d * Uᵀ * L2ᵀ
    Rᵀ * Z * R = diagonal σ ∧ Rinv * S * Rinvᵀ = diagonal σ ∧ Rinv * R = 1 ∧ R * Rinv = 1 := by
  intro R Rinv
  have hsvdT : L1ᵀ * L2 = V * diagonal σ * Uᵀ := by
    have := congrArg Matrix.transpose hsvd
    simpa [Matrix.transpose_mul, Matrix.mul_assoc] using this
  have hinv : Rinv * R = 1 := by
    calc Rinv * R = diagonal d * Uᵀ * (L2ᵀ * L1) * V * diagonal d := by
          simp only [R, Rinv, Matrix.mul_assoc]
      _ = diagonal d * (Uᵀ * U) * diagonal σ * (Vᵀ * V) * diagonal d := by
          rw [hsvd]; simp only [Matrix.mul_assoc]
      _ = diagonal d * diagonal σ * diagonal d := by
          rw [hU, hV]; simp only [Matrix.mul_one]
      _ = 1 := diag_sandwich_one d σ hd
  refine ⟨?_, ?_, hinv, mul_eq_one_comm.mp hinv⟩
  · calc Rᵀ * Z * R
        = diagonal d * Vᵀ * (L1ᵀ * L2) * (L2ᵀ * L1) * V * diagonal d := by
          simp only [R, hZ, Matrix.transpose_mul, Matrix.diagonal_transpose, Matrix.mul_assoc]
      _ = diagonal d * (Vᵀ * V) * diagonal σ * (Uᵀ * U) * diagonal σ * (Vᵀ * V) * diagonal d := by
          rw [hsvd, hsvdT]; simp only [Matrix.mul_assoc]
      _ = diagonal d * (diagonal σ * diagonal σ) * diagonal d := by
          rw [hU, hV]; simp only [Matrix.mul_one, Matrix.mul_assoc]
      _ = diagonal σ := diag_sandwich_sq d σ hd
  · calc Rinv * S * Rinvᵀ
        = diagonal d * Uᵀ * (L2ᵀ * L1) * (L1ᵀ * L2) * U * diagonal d := by
          simp only [Rinv, hS, Matrix.transpose_mul, Matrix.diagonal_transpose,
            Matrix.transpose_transpose, Matrix.mul_assoc]
      _ = diagonal d * (Uᵀ * U) * diagonal σ * (Vᵀ * V) * diagonal σ * (Uᵀ * U) * diagonal d := by
          rw [hsvd, hsvdT]; simp only [Matrix.mul_assoc]
      _ = diagonal d * (diagonal σ * diagonal σ) * diagonal d := by
          rw [hU, hV]; simp only [Matrix.mul_one, Matrix.mul_assoc]
      _ = diagonal σ := diag_sandwich_sq d σ hd

/-- the code's `Λ^{-1/2} = 1/√λ` satisfies the hypothesis `dᵢ²σᵢ = 1` for positive `σ` -/
theorem isqrt_hyp (σ : Fin n → ℝ) (hσ : ∀ i, 0 < σ i) :
    ∀ i, (1 / Real.sqrt (σ i)) * (1 / Real.sqrt (σ i)) * σ i = 1 := by
  intro i
  have h := Real.mul_self_sqrt (hσ i).le
  have hne : Real.sqrt (σ i) ≠ 0 := (Real.sqrt_pos.mpr (hσ i)).ne'
  field_simp
  nlinarith [h]

end Clarabel.Psd
