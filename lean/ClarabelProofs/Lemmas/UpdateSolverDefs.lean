/-
  C08 on the whole-solver model (`ClarabelModel/SolverUpdate.lean`): proof-side notions.

  * `MapFacts K0`  — index facts about the maps of a `DirectLDLKKTSolver` object (what
                     `assemble_kkt_matrix` and `permute_symmetric` guarantee: C11, C12).
  * `KSync lin K0 K pk ak` — `K` has the structure of `K0`; both of its value copies (the KKT matrix
                     and QDLDL's permuted copy) hold `pk` / `ak` at the `P` / `A` positions, and
                     what `K0` holds at every other position that `KKTSolver::update` does not
                     rewrite (`WK` / `WL` of `Lemmas/KktQwUpdate.lean`).  `pk`, `ak` are ghost
                     values: "the matrices the KKT copy was last synchronised with".
  * `DFrame d0 d`  — the problem data `d` differs from `d0` in the VALUES of `P, q, A, b` and the
                     norm caches only.
  * `Sh S T`       — the two solver states have the same vector lengths and cone shapes.
-/
import ClarabelModel.SolverUpdate
import ClarabelProofs.Lemmas.KktQwIdem

namespace Clarabel.Solver
open Clarabel

set_option linter.unusedSectionVars false
set_option linter.unusedVariables false

variable {α : Type}

section
variable [Add α] [Sub α] [Mul α] [Div α] [Neg α] [OfNat α 0] [OfNat α 1] [LT α] [DecidableLT α]
  [LE α] [DecidableLE α] [BEq α] [FloatLike α]

/-- index facts about the maps of the linear-solver object -/
structure MapFacts (K0 : KktSolver α) : Prop where
  nodup : (K0.map.P.toList ++ K0.map.A.toList).Nodup
  bound : ∀ i ∈ K0.map.P.toList ++ K0.map.A.toList, i < K0.KKT.nzval.size
  notWK : ∀ i ∈ K0.map.P.toList ++ K0.map.A.toList, ¬ WK K0.map i
  atopSize : K0.ldl.AtoPAPt.size = K0.KKT.nzval.size
  atopBound : ∀ j ∈ K0.ldl.AtoPAPt.toList, j < K0.ldl.triuA.nzval.size
  atopInj : ∀ i j, i < K0.ldl.AtoPAPt.size → j < K0.ldl.AtoPAPt.size →
    K0.ldl.AtoPAPt.getD i 0 = K0.ldl.AtoPAPt.getD j 0 → i = j
  /-- the permuted copy has one slot per stored entry … -/
  tsize : K0.ldl.triuA.nzval.size = K0.KKT.nzval.size
  /-- … and every slot is addressed (`AtoPAPt` is a bijection: injective between sets of equal size) -/
  atopSurj : ∀ j : Nat, j < K0.ldl.triuA.nzval.size → ∃ i : Nat, K0.ldl.AtoPAPt[i]? = some j

/-- `K` has the structure of `K0`, holds `pk` / `ak` at the `P` / `A` positions of both value
copies, and what `K0` holds at the other positions that `update` under `lin` does not rewrite -/
structure KSync (lin : LinSettings α) (K0 K : KktSolver α) (pk ak : Array α) : Prop where
  m : K0.m = K.m
  n : K0.n = K.n
  p : K0.p = K.p
  map : K0.map = K.map
  dsigns : K0.dsigns = K.dsigns
  hsz : K0.Hsblocks.size = K.Hsblocks.size
  km : K0.KKT.m = K.KKT.m
  kn : K0.KKT.n = K.KKT.n
  kcol : K0.KKT.colptr = K.KKT.colptr
  krow : K0.KKT.rowval = K.KKT.rowval
  nzsz : K0.KKT.nzval.size = K.KKT.nzval.size
  ldlS : LS (fun _ => False) K0.ldl K.ldl
  x : K0.x.size = K.x.size
  b : K0.b.size = K.b.size
  work1 : K0.work1.size = K.work1.size
  work2 : K0.work2.size = K.work2.size
  /-- static regularisation off: `diagonal_regularizer` is never written -/
  dr : lin.staticRegEnable = false → K0.diagonalRegularizer = K.diagonalRegularizer
  frame : ∀ i, ¬ WK K0.map i → i ∉ K0.map.P.toList → i ∉ K0.map.A.toList →
    K.KKT.nzval[i]? = K0.KKT.nzval[i]?
  kP : ∀ k, k < K0.map.P.size → K.KKT.nzval[K0.map.P.getD k 0]? = pk[k]?
  kA : ∀ k, k < K0.map.A.size → K.KKT.nzval[K0.map.A.getD k 0]? = ak[k]?
  lframe : ∀ j, (∀ i, K0.ldl.AtoPAPt[i]? = some j →
      ¬ WL lin K0.map i ∧ i ∉ K0.map.P.toList ∧ i ∉ K0.map.A.toList) →
    K.ldl.triuA.nzval[j]? = K0.ldl.triuA.nzval[j]?
  lP : ∀ k, k < K0.map.P.size → ¬ WL lin K0.map (K0.map.P.getD k 0) →
    K.ldl.triuA.nzval[K0.ldl.AtoPAPt.getD (K0.map.P.getD k 0) 0]? = pk[k]?
  lA : ∀ k, k < K0.map.A.size → ¬ WL lin K0.map (K0.map.A.getD k 0) →
    K.ldl.triuA.nzval[K0.ldl.AtoPAPt.getD (K0.map.A.getD k 0) 0]? = ak[k]?

end

/-- same sparsity pattern and number of stored values -/
structure SamePat (M M' : Csc α) : Prop where
  m : M'.m = M.m
  n : M'.n = M.n
  colptr : M'.colptr = M.colptr
  rowval : M'.rowval = M.rowval
  size : M'.nzval.size = M.nzval.size

theorem SamePat.rfl' (M : Csc α) : SamePat M M := ⟨rfl, rfl, rfl, rfl, rfl⟩

theorem SamePat.trans {M M' M'' : Csc α} (h : SamePat M M') (h' : SamePat M' M'') : SamePat M M'' :=
  ⟨h'.m.trans h.m, h'.n.trans h.n, h'.colptr.trans h.colptr, h'.rowval.trans h.rowval, h'.size.trans h.size⟩

/-- a matrix is its pattern with its value array -/
theorem SamePat.eq_with {M M' : Csc α} (h : SamePat M M') : M' = { M with nzval := M'.nzval } := by
  cases M; cases M'
  obtain ⟨h1, h2, h3, h4, _⟩ := h
  simp only at h1 h2 h3 h4
  subst h1 h2 h3 h4
  rfl

/-- the problem data `d` differs from `d0` in the values of `P, q, A, b` and the norm caches only -/
structure DFrame (d0 d : ProblemData α) : Prop where
  P : SamePat d0.P d.P
  A : SamePat d0.A d.A
  q : d.q.size = d0.q.size
  b : d.b.size = d0.b.size
  cones : d.cones = d0.cones
  n : d.n = d0.n
  m : d.m = d0.m
  equilibration : d.equilibration = d0.equilibration
  presolver : d.presolver = d0.presolver

theorem DFrame.rfl' (d : ProblemData α) : DFrame d d :=
  ⟨SamePat.rfl' _, SamePat.rfl' _, rfl, rfl, rfl, rfl, rfl, rfl, rfl⟩

theorem DFrame.trans {d0 d1 d2 : ProblemData α} (h : DFrame d0 d1) (h' : DFrame d1 d2) : DFrame d0 d2 :=
  ⟨h.P.trans h'.P, h.A.trans h'.A, h'.q.trans h.q, h'.b.trans h.b, h'.cones.trans h.cones, h'.n.trans h.n,
    h'.m.trans h.m, h'.equilibration.trans h.equilibration, h'.presolver.trans h.presolver⟩

section
variable [Add α] [Sub α] [Mul α] [Div α] [Neg α] [OfNat α 0] [OfNat α 1] [LT α] [DecidableLT α]
  [LE α] [DecidableLE α] [BEq α] [FloatLike α]

/-- same vector lengths and cone shapes (`SameShape` without the data) -/
def Sh (S T : SolverSt α) : Prop := SameShape { S with data := T.data } T

theorem Sh.rfl' (S : SolverSt α) : Sh S S := SameShape.rfl' S

theorem Sh.of_sameShape {S T : SolverSt α} (h : SameShape S T) : Sh S T := by
  have e : ({ S with data := T.data } : SolverSt α) = S := by rw [← h.data]
  unfold Sh
  rw [e]
  exact h

end

end Clarabel.Solver
