/-
  C06, round 7 (follow-up) — the interior-ness hypothesis `ConesInterior` of the `μ`-update
  theorems holds at the FIRST pass: `default_start()` leaves `s = 0` on the zero-cone rows.

  `symmetric_initialization` sets `s = _shift_to_cone_interior(s, primal = true)`; every branch of
  `_shift_to_cone_interior` ends in a `scaled_unit_shift(·, ·, primal)`, whose zero-cone case
  (`Zero.scaledUnitShift z a true`) writes zeros:

    `scaledUnitShift_zeroRows`, `shiftToConeInterior_zeroRows`   (C15's `Composite` model)
    `defaultStart_zero_rows`                                      (no shape hypothesis needed)
    `defaultStart_conesInterior`                                  (+ C07's `interior_initHyp`)

  With `pass_keeps_conesInterior` (`StepPassMuZero.lean`) the hypothesis then holds at the start of
  every pass that follows accepted passes.  Scalar type ℝ.
-/
import ClarabelProofs.Lemmas.StepPassMuZero
import ClarabelProofs.Lemmas.StepInitPoint
import ClarabelProofs.Lemmas.StepPassMuExample
import ClarabelProofs.Lemmas.ConesComposite

namespace Clarabel.Solver
open Clarabel Clarabel.Lemmas Residuals

set_option linter.unusedVariables false

/-- list-level core: shifting every block with `primal = true` leaves zeros on the zero-cone blocks
(whatever follows the last cone) -/
theorem shift_zeroRows (a : ℝ) : ∀ (cones : List (ConeSt ℝ)) (l : List ℝ)
    (parts : List (Composite.Spec × Array ℝ)) (outs : List (Array ℝ)) (rest : List ℝ),
    Composite.cutL (cones.map ConeSt.compSpec) l = .ok parts →
    parts.mapM (fun p => Composite.shift1 a true p.1 p.2) = .ok outs →
    ZeroConeRows cones ((outs.map Array.toList).flatten ++ rest)
  | [], _, _, _, _, _, _ => trivial
  | c :: cs, l, parts, outs, rest, hcut, hmap => by
    obtain ⟨hlen, tl, htl, rfl⟩ :=
      Composite.cutL_cons_ok c.compSpec (cs.map ConeSt.compSpec) l parts hcut
    simp only [List.mapM_cons] at hmap
    obtain ⟨o1, h1, hmap⟩ := bind_ok_inv hmap
    obtain ⟨outs', h2, hmap⟩ := bind_ok_inv hmap
    cases hmap
    rw [Bridge.compSpec_numel] at hlen
    have hsz : o1.toList.length = c.numel := by
      rw [Array.length_toList, shift1_size h1, Bridge.compSpec_numel, List.size_toArray,
        List.length_take]
      omega
    simp only [List.map_cons, List.flatten_cons, List.append_assoc]
    refine ⟨?_, ?_⟩
    · intro n hn v hv
      subst hn
      rw [List.take_left' hsz] at hv
      have e : o1 = Zero.scaledUnitShift
          (l.take (ConeSt.zero n : ConeSt ℝ).compSpec.numel).toArray a true :=
        (Except.ok.inj h1).symm
      rw [e] at hv
      simp only [Zero.scaledUnitShift, if_true, Array.toList_map, List.mem_map] at hv
      obtain ⟨_, _, rfl⟩ := hv
      rfl
    · rw [List.drop_left' hsz]
      exact shift_zeroRows a cs _ tl outs' rest htl h2

/-- `CompositeCone::scaled_unit_shift(z, a, primal = true)` leaves zeros on the zero-cone rows -/
theorem scaledUnitShift_zeroRows {cones : List (ConeSt ℝ)} {z z' : Array ℝ} {a : ℝ}
    (h : Composite.scaledUnitShift (cones.map ConeSt.compSpec) z a true = .ok z') :
    ZeroConeRows cones z'.toList := by
  unfold Composite.scaledUnitShift at h
  obtain ⟨parts, hparts, h⟩ := bind_ok_inv h
  obtain ⟨outs, houts, h⟩ := bind_ok_inv h
  cases h
  unfold Composite.glue
  exact shift_zeroRows a cones z.toList parts outs _ hparts houts

/-- **`_shift_to_cone_interior(z, primal = true)` leaves zeros on the zero-cone rows**: each of its
four branches ends in a `scaled_unit_shift(·, ·, true)` -/
theorem shiftToConeInterior_zeroRows {cones : List (ConeSt ℝ)} {z z' : Array ℝ}
    (h : Composite.shiftToConeInterior (cones.map ConeSt.compSpec) z true = .ok z') :
    ZeroConeRows cones z'.toList := by
  unfold Composite.shiftToConeInterior at h
  obtain ⟨⟨mm, pm⟩, _, h⟩ := bind_ok_inv h
  dsimp only at h
  split at h
  · exact scaledUnitShift_zeroRows h
  · split at h
    · obtain ⟨z1, hz1, h⟩ := bind_ok_inv h
      exact scaledUnitShift_zeroRows h
    · split at h
      · exact scaledUnitShift_zeroRows h
      · exact scaledUnitShift_zeroRows h

/-- **`default_start()` leaves `s = 0` on the zero-cone rows** (whatever the two KKT calls returned;
no shape hypothesis: a run on wrongly sized vectors that does not panic has the property too) -/
theorem defaultStart_zero_rows {S S0 : SolverSt ℝ} {st : Settings ℝ} (h : S.defaultStart st = .ok S0) :
    ZeroConeRows S0.cones S0.variables.s.toList := by
  obtain ⟨ok1, kk1, ok2, v, kk2, hu, hi, hsy, hc, hk, hd⟩ := defaultStart_inv h
  obtain ⟨-, -, -, hs, -⟩ := symmetricInitialization_inv hsy
  rw [hc]
  exact shiftToConeInterior_zeroRows hs

/-- **the interior-ness hypothesis of the `μ`-update theorems holds after `default_start()`**: on a
sized solver state (`SizedSt`, C07) the start is in C07's interior (`interior_initHyp`), `s = 0` on
the zero-cone rows, hence `ConesInterior` -/
theorem defaultStart_conesInterior {S S0 : SolverSt ℝ} {st : Settings ℝ} (hS : SizedSt S)
    (h : S.defaultStart st = .ok S0) :
    Interior (S0.cones.map ConeSt.compSpec) S0.variables
      ∧ ZeroConeRows S0.cones S0.variables.s.toList
      ∧ ConesInterior S0.cones S0.variables.s.toList S0.variables.z.toList := by
  have hI : Interior (S0.cones.map ConeSt.compSpec) S0.variables := interior_initHyp st S S0 hS h
  have hz := defaultStart_zero_rows h
  exact ⟨hI, hz, conesInterior_of_interior hI hz⟩

/-- `ZeroConeRows` is C01/C02's `ZeroRows` (`SolverFullDefs.lean`, the invariant `ZeroS` that
`zeroS_initHyp` / `zeroS_stepHyp` carry along `solve()`) read on the cone states -/
theorem zeroConeRows_iff_zeroRows : ∀ (cones : List (ConeSt ℝ)) (v : List ℝ),
    ZeroConeRows cones v ↔ ZeroRows (cones.map ConeSt.compSpec) v
  | [], _ => Iff.rfl
  | c :: cs, v => by
    have ih := zeroConeRows_iff_zeroRows cs (v.drop c.numel)
    cases c with
    | zero n =>
      show ((∀ k, ConeSt.zero n = ConeSt.zero k → ∀ x ∈ v.take n, x = 0) ∧ _) ↔
        ((∀ x ∈ v.take n, x = 0) ∧ _)
      rw [ih]
      constructor
      · rintro ⟨h1, h2⟩; exact ⟨h1 n rfl, h2⟩
      · rintro ⟨h1, h2⟩; exact ⟨fun k _ => h1, h2⟩
    | nonneg K =>
      show ((∀ k, ConeSt.nonneg K = ConeSt.zero k → _) ∧ _) ↔ ZeroRows _ (v.drop K.w.size)
      exact ⟨fun h => ih.mp h.2, fun h => ⟨(fun k hk => by cases hk), ih.mpr h⟩⟩
    | soc K =>
      show ((∀ k, ConeSt.soc K = ConeSt.zero k → _) ∧ _) ↔ ZeroRows _ (v.drop K.dim)
      exact ⟨fun h => ih.mp h.2, fun h => ⟨(fun k hk => by cases hk), ih.mpr h⟩⟩

/-- the same for the solver object `DefaultSolver::new` returns -/
theorem new_defaultStart_conesInterior {P : Csc ℝ} {q : Array ℝ} {A : Csc ℝ} {b : Array ℝ}
    {cones : List (ConeT ℝ)} {st : Settings ℝ} {perm : Array Nat} {S : Solver ℝ} {S0 : SolverSt ℝ}
    (hnew : Solver.new P q A b cones st perm = .ok S) (h : S.st.defaultStart st = .ok S0) :
    Interior (S0.cones.map ConeSt.compSpec) S0.variables
      ∧ ZeroConeRows S0.cones S0.variables.s.toList
      ∧ ConesInterior S0.cones S0.variables.s.toList S0.variables.z.toList :=
  defaultStart_conesInterior (SizedSt.of_new hnew) h

namespace MuExample

/-- non-vacuity over ℝ: on the composite zero(1) / nonneg(1) / soc(2), `_shift_to_cone_interior`
of `s = (7 | −3 | 0, 0)` with `primal = true` succeeds, and its result is `0` on the zero-cone row -/
theorem start_shift : ∃ s', Composite.shiftToConeInterior (cones.map ConeSt.compSpec) #[7, -3, 0, 0] true
      = .ok s' ∧ ZeroConeRows cones s'.toList := by
  obtain ⟨s', h, -⟩ := Composite.shiftToConeInterior_spec (cones.map ConeSt.compSpec) #[7, -3, 0, 0] true
    (by
      intro sp hsp
      simp only [cones, List.map_cons, List.map_nil, ConeSt.compSpec, List.mem_cons, List.not_mem_nil,
        or_false] at hsp
      rcases hsp with rfl | rfl | rfl
      · trivial
      · trivial
      · show 1 ≤ socK.dim
        decide)
    (by decide)
  exact ⟨s', h, shiftToConeInterior_zeroRows h⟩

end MuExample

end Clarabel.Solver
