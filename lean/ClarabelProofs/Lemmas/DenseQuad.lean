/-
  C16, dense matrix model: `quad_form` of `matrix_math.rs`.

  `quad_form(y, x)` is implemented for the owned `Matrix` only, reads the upper triangle only and
  returns `yᵀ·S·x` where `S` is the symmetric matrix whose upper triangle `A` holds
  (`S i j = symElem A n i j`).
-/
import ClarabelProofs.Lemmas.DenseSums
import ClarabelProofs.Lemmas.CscSym

namespace Clarabel.Dense
open Clarabel

variable {α : Type}

section defs
variable [Add α] [Mul α] [OfNat α 0]

/-- one entry of the upper triangle in the inner loop of `quad_form` -/
def qStep (A : Dense α) (y x : Array α) (col : Nat) (st : α × α × α) (row : Nat) : MErr (α × α × α) := do
  let mv ← get .N A row col
  if row < col then do
    let xr ← getE x row "x[row]"
    let yr ← getE y row "y[row]"
    pure (st.1, st.2.1 + mv * xr, st.2.2 + mv * yr)
  else do
    let xc ← getE x col "x[col]"
    let yc ← getE y col "y[col]"
    pure (st.1 + mv * xc * yc, st.2.1, st.2.2)

/-- one column of `quad_form` -/
def qCol (A : Dense α) (y x : Array α) (out : α) (col : Nat) : MErr α := do
  let (o, t1, t2) ← (List.range (col + 1)).foldlM (qStep A y x col) (out, (0 : α), (0 : α))
  let yc ← getE y col "y[col]"
  let xc ← getE x col "x[col]"
  pure (o + (t1 * yc + t2 * xc))

theorem quadForm_unfold (A : Dense α) (y x : Array α) :
    quadForm A y x = if A.m != A.n then .error (.panic "quad_form: assert is_square")
      else (List.range A.n).foldlM (qCol A y x) 0 := by
  unfold quadForm
  split <;> rfl

/-- [S] `quad_form` on a non-square matrix panics -/
theorem quadForm_panic_square (A : Dense α) (y x : Array α) (h : A.m ≠ A.n) :
    quadForm A y x = .error (.panic "quad_form: assert is_square") := by
  rw [quadForm_unfold]
  simp [h]

end defs

section ring
variable [CommRing α]

theorem qStep_fold (A : Dense α) (y x : Array α) (hA : WF A) (hsq : A.m = A.n) (col : Nat)
    (hc : col < A.n) (hx : x.size = A.n) (hy : y.size = A.n) (l : List Nat)
    (hl : ∀ r ∈ l, r ≤ col) (st : α × α × α) :
    ∃ st', l.foldlM (qStep A y x col) st = .ok st' ∧
      st'.1 + (st'.2.1 * y.getD col 0 + st'.2.2 * x.getD col 0)
        = st.1 + (st.2.1 * y.getD col 0 + st.2.2 * x.getD col 0)
          + (l.map (fun r => A.data.getD (r + A.m * col) 0 *
              Csc.quadW (fun k => x.getD k 0) (fun k => y.getD k 0) col r)).sum := by
  induction l generalizing st with
  | nil => exact ⟨st, rfl, by simp⟩
  | cons r t ih =>
    have hr : r ≤ col := hl r (by simp)
    have hrm : r < A.m := by omega
    have hidx : r + A.m * col < A.data.size := by rw [hA]; exact lin_lt hrm hc
    have hget : get .N A r col = .ok (A.data.getD (r + A.m * col) 0) := by
      unfold get indexLinear
      rw [getE_ok _ _ _ hidx]
      simp [Array.getD_eq_getD_getElem?, hidx]
    have hgx : ∀ k, k < A.n → ∀ s, getE x k s = .ok (x.getD k 0) := by
      intro k hk s
      rw [getE_ok _ _ _ (by omega)]
      simp [Array.getD_eq_getD_getElem?, show k < x.size by omega]
    have hgy : ∀ k, k < A.n → ∀ s, getE y k s = .ok (y.getD k 0) := by
      intro k hk s
      rw [getE_ok _ _ _ (by omega)]
      simp [Array.getD_eq_getD_getElem?, show k < y.size by omega]
    rw [List.foldlM_cons]
    by_cases hlt : r < col
    · have h1 : qStep A y x col st r = .ok (st.1,
          st.2.1 + A.data.getD (r + A.m * col) 0 * x.getD r 0,
          st.2.2 + A.data.getD (r + A.m * col) 0 * y.getD r 0) := by
        unfold qStep
        rw [hget]
        simp only [bind, Except.bind, hlt, ↓reduceIte, hgx r (by omega), hgy r (by omega)]
        rfl
      obtain ⟨st', h2, h3⟩ := ih (fun r' hr' => hl r' (List.mem_cons_of_mem _ hr')) (st.1,
          st.2.1 + A.data.getD (r + A.m * col) 0 * x.getD r 0,
          st.2.2 + A.data.getD (r + A.m * col) 0 * y.getD r 0)
      refine ⟨st', by rw [h1]; exact h2, ?_⟩
      rw [h3, List.map_cons, List.sum_cons]
      have : r ≠ col := by omega
      simp only [Csc.quadW, this, ↓reduceIte]
      ring
    · have heq : r = col := by omega
      have h1 : qStep A y x col st r = .ok (st.1 +
          A.data.getD (r + A.m * col) 0 * x.getD col 0 * y.getD col 0, st.2.1, st.2.2) := by
        unfold qStep
        rw [hget]
        simp only [bind, Except.bind, hlt, ↓reduceIte, hgx col hc, hgy col hc]
        rfl
      obtain ⟨st', h2, h3⟩ := ih (fun r' hr' => hl r' (List.mem_cons_of_mem _ hr')) (st.1 +
          A.data.getD (r + A.m * col) 0 * x.getD col 0 * y.getD col 0, st.2.1, st.2.2)
      refine ⟨st', by rw [h1]; exact h2, ?_⟩
      rw [h3, List.map_cons, List.sum_cons]
      simp only [Csc.quadW, heq, ↓reduceIte]
      ring

theorem qCol_eq (A : Dense α) (y x : Array α) (hA : WF A) (hsq : A.m = A.n) (col : Nat)
    (hc : col < A.n) (hx : x.size = A.n) (hy : y.size = A.n) (out : α) :
    qCol A y x out col = .ok (out + ((List.range (col + 1)).map (fun r =>
      A.data.getD (r + A.m * col) 0 *
        Csc.quadW (fun k => x.getD k 0) (fun k => y.getD k 0) col r)).sum) := by
  obtain ⟨st', h2, h3⟩ := qStep_fold A y x hA hsq col hc hx hy (List.range (col + 1))
    (fun r hr => by have := List.mem_range.mp hr; omega) (out, 0, 0)
  obtain ⟨o, t1, t2⟩ := st'
  unfold qCol
  rw [h2]
  have hgx : getE x col "x[col]" = .ok (x.getD col 0) := by
    rw [getE_ok _ _ _ (by omega)]
    simp [Array.getD_eq_getD_getElem?, show col < x.size by omega]
  have hgy : getE y col "y[col]" = .ok (y.getD col 0) := by
    rw [getE_ok _ _ _ (by omega)]
    simp [Array.getD_eq_getD_getElem?, show col < y.size by omega]
  simp only [bind, Except.bind, hgx, hgy, pure, Except.pure]
  simp only at h3
  rw [h3]
  simp

/-- [F] (commutative ring) `quad_form(y, x)` of a well-formed square matrix with vectors of
length `n` does not panic and returns `yᵀ·S·x = Σᵢ Σⱼ yᵢ·Sᵢⱼ·xⱼ`, where `S` is the symmetric
matrix whose upper triangle the matrix holds (`S i j = A[min i j, max i j]`; the strictly lower
triangle of `A` is never read) -/
theorem quadForm_spec (A : Dense α) (y x : Array α) (hA : WF A) (hsq : A.m = A.n)
    (hx : x.size = A.n) (hy : y.size = A.n) :
    quadForm A y x = .ok (∑ i ∈ Finset.range A.n, ∑ j ∈ Finset.range A.n,
      y.getD i 0 * symElem A A.n i j * x.getD j 0) := by
  rw [quadForm_unfold]
  have : (A.m != A.n) = false := by simp [hsq]
  simp only [this, Bool.false_eq_true, ↓reduceIte]
  rw [Csc.foldlM_add_eq (List.range A.n) (qCol A y x)
    (fun col => ((List.range (col + 1)).map (fun r => A.data.getD (r + A.m * col) 0 *
      Csc.quadW (fun k => x.getD k 0) (fun k => y.getD k 0) col r)).sum)
    (fun out col hcol => qCol_eq A y x hA hsq col (List.mem_range.mp hcol) hx hy out)]
  congr 1
  rw [zero_add, Csc.list_sum_range_eq]
  let Au : Nat → Nat → α := fun i j => if i ≤ j then A.data.getD (i + A.m * j) 0 else 0
  have h1 : ∀ j ∈ Finset.range A.n,
      ((List.range (j + 1)).map (fun r => A.data.getD (r + A.m * j) 0 *
        Csc.quadW (fun k => x.getD k 0) (fun k => y.getD k 0) j r)).sum =
      ∑ i ∈ Finset.range A.n, Au i j * Csc.quadW (fun k => x.getD k 0) (fun k => y.getD k 0) j i := by
    intro j hj
    have hj' := Finset.mem_range.mp hj
    rw [Csc.list_sum_range_eq]
    have hsub : Finset.range (j + 1) ⊆ Finset.range A.n := by
      intro i hi; simp only [Finset.mem_range] at hi ⊢; omega
    rw [← Finset.sum_subset hsub (f := fun i => Au i j *
      Csc.quadW (fun k => x.getD k 0) (fun k => y.getD k 0) j i)]
    · apply Finset.sum_congr rfl
      intro i hi
      have : i ≤ j := by have := Finset.mem_range.mp hi; omega
      simp only [Au, this, ↓reduceIte]
    · intro i _ hi
      have : ¬ i ≤ j := by simp only [Finset.mem_range] at hi; omega
      simp only [Au, this, ↓reduceIte, zero_mul]
  rw [Finset.sum_congr rfl h1, Csc.quad_sum_eq A.n Au (fun k => x.getD k 0) (fun k => y.getD k 0)]
  apply Finset.sum_congr rfl
  intro i _
  apply Finset.sum_congr rfl
  intro j _
  congr 2
  unfold symElem
  simp only [Au, hsq]
  rcases Nat.lt_trichotomy i j with h | h | h
  · have h1 : i ≠ j := by omega
    have h2 : i ≤ j := by omega
    have h3 : ¬ j ≤ i := by omega
    simp [h1, h2, h3]
  · subst h; simp
  · have h1 : i ≠ j := by omega
    have h2 : ¬ i ≤ j := by omega
    have h3 : j ≤ i := by omega
    simp [h1, h2, h3]

/-- [F] the strictly lower triangle is not read: two matrices with the same upper triangle
have the same quadratic form -/
theorem quadForm_upper_only (A A' : Dense α) (y x : Array α) (hA : WF A) (hA' : WF A')
    (hsq : A.m = A.n) (hm : A'.m = A.m) (hn : A'.n = A.n) (hx : x.size = A.n) (hy : y.size = A.n)
    (hup : ∀ i j, i ≤ j → j < A.n → A'.data.getD (i + A.n * j) 0 = A.data.getD (i + A.n * j) 0) :
    quadForm A' y x = quadForm A y x := by
  rw [quadForm_spec A y x hA hsq hx hy,
    quadForm_spec A' y x hA' (by omega) (by omega) (by omega), hn]
  congr 1
  apply Finset.sum_congr rfl
  intro i hi
  apply Finset.sum_congr rfl
  intro j hj
  have hi' := Finset.mem_range.mp hi
  have hj' := Finset.mem_range.mp hj
  congr 2
  unfold symElem
  split
  · rename_i h; exact hup i j h hj'
  · rename_i h; exact hup j i (by omega) hi'

end ring

end Clarabel.Dense
