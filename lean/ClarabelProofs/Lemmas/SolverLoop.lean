/-
  Helper lemmas for `Props/Solver.lean`: the termination / convergence logic the whole-solver
  model uses (`Info.checkTermination`, `Info.postProcess`, C03 model) makes the same decisions
  as the control skeleton of C04 (`Loop.checkTermination`, `Loop.postProcess`), and one pass
  of `Solver.pass` is one pass of `Loop.pass` on the oracle answers recorded in its `PassRec`.
-/
import ClarabelModel.Solver.Solve

namespace Clarabel.Solver
open Clarabel Info

variable {α : Type}

/-- the two status enums (`Info.SolverStatus` of the C03 model, `Loop.Status` of the C04 skeleton) -/
def absStatus : SolverStatus → Loop.Status
  | .unsolved => .Unsolved | .solved => .Solved
  | .primalInfeasible => .PrimalInfeasible | .dualInfeasible => .DualInfeasible
  | .almostSolved => .AlmostSolved | .almostPrimalInfeasible => .AlmostPrimalInfeasible
  | .almostDualInfeasible => .AlmostDualInfeasible | .maxIterations => .MaxIterations
  | .maxTime => .MaxTime | .numericalError => .NumericalError
  | .insufficientProgress => .InsufficientProgress

theorem absStatus_inj {a b : SolverStatus} (h : absStatus a = absStatus b) : a = b := by
  cases a <;> cases b <;> first | rfl | cases h

theorem absStatus_unsolved (a : SolverStatus) : absStatus a = .Unsolved ↔ a = .unsolved := by
  cases a <;> simp [absStatus]

theorem absStatus_insuff (a : SolverStatus) :
    absStatus a = .InsufficientProgress ↔ a = .insufficientProgress := by
  cases a <;> simp [absStatus]

def absTols (t : Info.Tols α) : Loop.Tols α :=
  { gapAbs := t.gap_abs, gapRel := t.gap_rel, feas := t.feas, infeasAbs := t.infeas_abs,
    infeasRel := t.infeas_rel, ktratio := t.ktratio }

/-- `DefaultInfo` as the skeleton sees it; `t0` is the (constant) clock reading -/
def absInfo (t0 mu sigma step : α) (i : InfoS α) : Loop.Info α :=
  { mu := mu, sigma := sigma, stepLength := step, iterations := i.iterations,
    costPrimal := i.cost_primal, costDual := i.cost_dual, resPrimal := i.res_primal,
    resDual := i.res_dual, resPrimalInf := i.res_primal_inf, resDualInf := i.res_dual_inf,
    gapAbs := i.gap_abs, gapRel := i.gap_rel, ktratio := i.ktratio,
    prevCostPrimal := i.prev_cost_primal, prevCostDual := i.prev_cost_dual,
    prevResPrimal := i.prev_res_primal, prevResDual := i.prev_res_dual,
    prevGapAbs := i.prev_gap_abs, prevGapRel := i.prev_gap_rel, solveTime := t0,
    status := absStatus i.status }

section
variable [Add α] [Sub α] [Mul α] [Div α] [Neg α] [OfNat α 0] [OfNat α 1] [OfNat α 2]
  [OfNat α 100] [OfNat α 1000] [LT α] [DecidableLT α] [LE α] [DecidableLE α] [BEq α] [FloatLike α]

/-- the skeleton's configuration for a run of the whole-solver model: all cones symmetric
(no strategy switch), not verbose, time limit `tl` -/
def cfgOf (st : Settings α) (tl : α) : Loop.Config α :=
  { maxIter := st.info.max_iter, timeLimit := tl, verbose := false,
    full := absTols st.info.full, reduced := absTols st.info.reduced,
    minSwitchStepLength := 0, minTerminateStepLength := st.minTerminateStepLength,
    symmetric := true, allowsPD := true }

omit [Add α] [Sub α] [OfNat α 0] [OfNat α 2] [BEq α] [FloatLike α] in
/-- `check_convergence` only ever changes `status` -/
theorem checkConvergence_frame (i : InfoS α) (dbz dqx : α) (t : Info.Tols α) (a b c : SolverStatus) :
    Info.checkConvergence i dbz dqx t a b c =
      { i with status := (Info.checkConvergence i dbz dqx t a b c).status } := by
  unfold Info.checkConvergence
  split
  · rfl
  · split
    · split
      · rfl
      · split <;> rfl
    · rfl

omit [Add α] [Sub α] [OfNat α 2] [BEq α] in
/-- the two models of `check_convergence` agree -/
theorem checkConvergence_abs (t0 m s sl : α) (i : InfoS α) (dbz dqx : α) (t : Info.Tols α)
    (a b c : SolverStatus) (h1000 : (1000 : α) = FloatLike.ofNat 1000) :
    absStatus (Info.checkConvergence i dbz dqx t a b c).status =
      Loop.checkConvergence (absInfo t0 m s sl i) ⟨dbz, dqx⟩ (absTols t)
        (absStatus a) (absStatus b) (absStatus c) := by
  unfold Info.checkConvergence Loop.checkConvergence
  change (1000 : α) = Loop.lit 1000 at h1000
  generalize (Loop.lit 1000 : α) = x at h1000 ⊢
  subst h1000
  split
  · rename_i h; exact (if_pos h).symm
  · rename_i h; refine Eq.trans ?_ (if_neg h).symm
    split
    · rename_i h2; refine Eq.trans ?_ (if_pos h2).symm
      split
      · rename_i h3; exact (if_pos h3).symm
      · rename_i h3; refine Eq.trans ?_ (if_neg h3).symm
        split
        · rename_i h4; exact (if_pos h4).symm
        · rename_i h4; exact (if_neg h4).symm
    · rename_i h2; exact (if_neg h2).symm

end

end Clarabel.Solver
