/-
  The standard chordal decomposition in terms of *clique blocks*
  (`ClarabelModel/Chordal/AugStd.lean` : `findStandardHAndCones`,
   `ClarabelModel/Chordal/Reverse.lean` : `hGemv`, `decompReverseStandard`).

  Tags: `[S]` structural, `[F]` uses (semi)ring / field laws.

  Contents
  * §1–4  `find_standard_H_and_cones_spec` [S]: a successful run returns `HI` = concatenation
    of the entries of the blocks `stdBlocks ci` (identity block of a plain cone, packed upper
    triangles of the cliques of a decomposed cone, post-order), the cone list
    `zero m :: stdCones ci`, `rows = Σ nvars`, `lenH = |HI|`.
  * §5–7  selection sums: `h_gemv_blocks` [F] — row `r` of `H x` is `Σ_B Block.term B r`
    (`selSum_clique`: a strictly increasing clique contributes at most one term, the entry
    `(pos a, pos b)` of its block to the entry `(a, b)`).
  * §8–10 the hypothesis `StdPatternOK` / `ChordalInfo.StdOK`, its consequences (cliques
    strictly increasing, `< d`, `|K_i| = nblk[i]`; `std_HI_lt_rows`; a row only sees the blocks
    of its own cone: `blockSum_group`).
  * §11   the theorems about the model: `std_gemv_blocks`, `std_gemv_cone_rows`
    (`s = Σ_K E_Kᵀ S_K E_K`), `standard_equiv_blocks`, `decomp_reverse_standard_blocks`.
  * §12   the concrete instance `exStdCi` (cones `[nonneg 1, psd 3]`, cliques `{0,1}`, `{1,2}`).
  * §13   `find_standard_H_and_cones_ok` [S]: no panic under `StdOK`.
  * §14   `blockSum_one`: the row sums of `H` count the blocks containing a row.
  The bridge from C17's `ValidCliqueTree` to `StdPatternOK` is in `ChordalStdBridge.lean`
  (kept apart so that this file only depends on `ChordalDecomp`).
-/
import ClarabelProofs.Lemmas.ChordalDecomp

namespace Clarabel.Chordal
open ChordalInfo

/-! ## 0. small inversion lemmas for `Except` -/

private theorem bind_ok_inv' {β γ : Type} (x : MErr β) (f : β → MErr γ) (c : γ)
    (h : (x >>= f) = .ok c) : ∃ a, x = .ok a ∧ f a = .ok c := by
  cases x with
  | error e => simp [bind, Except.bind] at h
  | ok a => exact ⟨a, rfl, h⟩

private theorem getE_ok_inv' {β : Type} (xs : Array β) (i : Nat) (s : String) (v : β)
    (h : getE xs i s = .ok v) : xs[i]? = some v := by
  unfold getE at h
  cases hx : xs[i]? with
  | none => rw [hx] at h; simp [throw, throwThe, MonadExceptOf.throw] at h
  | some w => rw [hx] at h; simp [pure, Except.pure] at h; rw [h]

private theorem getE_of_some {β : Type} (xs : Array β) (i : Nat) (s : String) (v : β)
    (h : xs[i]? = some v) : getE xs i s = .ok v := by
  unfold getE
  rw [h]; rfl

/-! ## 1. the loop body of `find_standard_H_and_cones` -/

/-- the body of the loop over the cones in `findStandardHAndCones` -/
def stdStep (ci : ChordalInfo) (acc : Array Nat × Array Cone × Nat × Nat) (coneidx : Nat) :
    MErr (Array Nat × Array Cone × Nat × Nat) := do
  let (HI, conesNew, row, k) := acc
  let cone ← getE ci.initCones coneidx "find_standard_H_and_cones"
  match ci.nextPattern? k coneidx with
  | some p =>
    if !cone.isPsd then throw (.panic "find_standard_H_and_cones: assert PSD") else
    let (HI, conesNew) ← decomposeWithSparsityPattern HI conesNew p row
    pure (HI, conesNew, row + cone.nvars, k + 1)
  | none =>
    let HI := (List.range cone.nvars).foldl (fun (a : Array Nat) i => a.push (row + i)) HI
    pure (HI, conesNew.push cone, row + cone.nvars, k)

theorem findStandardHAndCones_eq (ci : ChordalInfo) :
    ci.findStandardHAndCones = (do
      let (lenH, _) ← ci.getDecomposedDimAndOverlaps
      let (HI, conesNew, row, _) ← (List.range ci.initCones.size).foldlM (stdStep ci)
        (#[], #[Cone.zero ci.initDims.2], 0, 0)
      if HI.size != lenH then throw (.panic "new_from_triplets: assert") else
      pure { rows := row, lenH := lenH, HI := HI, conesNew := conesNew }) := by
  rfl

/-! ## 2. total accessors and the block specification -/

/-- vertices of the clique with post-order index `i` as `get_clique(i)` builds them (supernode,
then the separator vertices not yet present); empty sets where the tree has no entry -/
def cliqueVerts (t : SuperNodeTree) (i : Nat) : VSet :=
  (t.snode.getD (t.snodePost.getD i 0) #[]).extend
    (t.separators.getD (t.snodePost.getD i 0) #[]).toList

/-- the clique with post-order index `i` in original coordinates, sorted (total version of
`cliqueOriginal`) -/
def cliqueOrigD (p : SPattern) (i : Nat) : Array Nat :=
  VSet.sort ((cliqueVerts p.sntree i).toList.map (fun v => p.ordering.getD v 0)).toArray

/-- `nblk[i]` (total version of `get_nblk`) -/
def nblkD (t : SuperNodeTree) (i : Nat) : Nat := (t.nblk.getD #[]).getD i 0

/-- a block of consecutive columns of `H` -/
inductive Block where
  /-- the identity block of a cone that is not decomposed: rows `start .. start + nvars` -/
  | plain (start nvars : Nat)
  /-- the block of one clique `c` (sorted original indices) of a decomposed PSD cone whose
  packed triangle starts at row `start` -/
  | clique (start : Nat) (c : Array Nat)
  deriving Repr, Inhabited

/-- the row indices of the `1`s of the columns of a block, in column order -/
def Block.entries : Block → List Nat
  | .plain start nvars => List.range' start nvars
  | .clique start c => subblockEntries c start

/-- number of columns of a block -/
def Block.ncols : Block → Nat
  | .plain _ nvars => nvars
  | .clique _ c => triangularNumber c.size

/-- what one cone of the original problem becomes: its first row, and the sparsity pattern
if it is decomposed -/
structure ConeGroup where
  cone : Cone
  start : Nat
  pat : Option SPattern
  deriving Inhabited

/-- the blocks of `H` that belong to one original cone: the identity block, or the clique
blocks in post-order -/
def ConeGroup.blocks (g : ConeGroup) : List Block :=
  match g.pat with
  | some p => (List.range p.sntree.nCliques).map (fun i => Block.clique g.start (cliqueOrigD p i))
  | none => [Block.plain g.start g.cone.nvars]

/-- the cones of the decomposed problem that replace one original cone: itself, or the
PSD cones of dimension `nblk[i]` of its cliques in post-order -/
def ConeGroup.newCones (g : ConeGroup) : List Cone :=
  match g.pat with
  | some p => (List.range p.sntree.nCliques).map (fun i => Cone.psd (nblkD p.sntree i))
  | none => [g.cone]

/-- walk over the cone list exactly like `find_standard_H_and_cones`: `coneidx` the index of
the head cone, `k` the index of the next unused pattern, `row` the first row of the head cone -/
def stdGroupsFrom (ci : ChordalInfo) : List Cone → (coneidx k row : Nat) → List ConeGroup
  | [], _, _, _ => []
  | cone :: rest, coneidx, k, row =>
    { cone := cone, start := row, pat := ci.nextPattern? k coneidx } ::
      stdGroupsFrom ci rest (coneidx + 1)
        (if (ci.nextPattern? k coneidx).isSome then k + 1 else k) (row + cone.nvars)

/-- the cone groups of the standard decomposition -/
def stdGroups (ci : ChordalInfo) : List ConeGroup := stdGroupsFrom ci ci.initCones.toList 0 0 0

/-- the column blocks of `H`, left to right -/
def stdBlocks (ci : ChordalInfo) : List Block := (stdGroups ci).flatMap ConeGroup.blocks

/-- the cone list of the decomposed problem without the leading zero cone -/
def stdCones (ci : ChordalInfo) : List Cone := (stdGroups ci).flatMap ConeGroup.newCones

/-! ## 3. inversion of the accessors -/

private theorem getD_of_getElem? {β : Type} (xs : Array β) (i : Nat) (v d : β)
    (h : xs[i]? = some v) : xs.getD i d = v := by
  simp [Array.getD_eq_getD_getElem?, h]

/-- [S] a successful `get_clique(i)` returns `cliqueVerts t i` -/
theorem getClique_ok_inv (t : SuperNodeTree) (i : Nat) (c : VSet) (h : t.getClique i = .ok c) :
    c = cliqueVerts t i := by
  unfold SuperNodeTree.getClique at h
  obtain ⟨s1, h1, h⟩ := bind_ok_inv' _ _ _ h
  obtain ⟨s2, h2, h⟩ := bind_ok_inv' _ _ _ h
  unfold SuperNodeTree.getSnode at h1
  unfold SuperNodeTree.getSeparators at h2
  obtain ⟨p, hp, h1⟩ := bind_ok_inv' _ _ _ h1
  obtain ⟨p', hp', h2⟩ := bind_ok_inv' _ _ _ h2
  have e1 := getE_ok_inv' _ _ _ _ hp
  have e2 := getE_ok_inv' _ _ _ _ hp'
  obtain rfl : p = p' := Option.some.inj (e1.symm.trans e2)
  have e3 := getE_ok_inv' _ _ _ _ h1
  have e4 := getE_ok_inv' _ _ _ _ h2
  have hc : c = s1.extend s2.toList := (Except.ok.inj h).symm
  unfold cliqueVerts
  rw [getD_of_getElem? _ _ _ _ e1, getD_of_getElem? _ _ _ _ e3, getD_of_getElem? _ _ _ _ e4]
  exact hc

private theorem mapM_getE_ok_inv (a : Array Nat) (s : String) (l c : List Nat)
    (h : l.mapM (fun v => getE a v s) = .ok c) :
    c = l.map (fun v => a.getD v 0) ∧ ∀ v ∈ l, v < a.size := by
  induction l generalizing c with
  | nil =>
    simp [pure, Except.pure] at h
    subst h; simp
  | cons x xs ih =>
    rw [List.mapM_cons] at h
    obtain ⟨b, hb, h⟩ := bind_ok_inv' _ _ _ h
    obtain ⟨bs, hbs, h⟩ := bind_ok_inv' _ _ _ h
    obtain ⟨e1, e2⟩ := ih bs hbs
    have e3 := getE_ok_inv' _ _ _ _ hb
    have hx : x < a.size := by
      rcases Nat.lt_or_ge x a.size with hlt | hge
      · exact hlt
      · rw [Array.getElem?_eq_none hge] at e3; cases e3
    have hc : c = b :: bs := (Except.ok.inj h).symm
    refine ⟨?_, ?_⟩
    · rw [hc, List.map_cons, ← e1, getD_of_getElem? _ _ _ _ e3]
    · intro v hv
      rcases List.mem_cons.1 hv with rfl | hv
      · exact hx
      · exact e2 v hv

private theorem mapM_getE_ok (a : Array Nat) (s : String) (l : List Nat)
    (h : ∀ v ∈ l, v < a.size) :
    l.mapM (fun v => getE a v s) = .ok (l.map (fun v => a.getD v 0)) := by
  induction l with
  | nil => rfl
  | cons x xs ih =>
    have hx : x < a.size := h x (by simp)
    have e : getE a x s = .ok (a.getD x 0) := by
      apply getE_of_some
      simp [Array.getD_eq_getD_getElem?, hx]
    rw [List.mapM_cons, e, ih (fun v hv => h v (List.mem_cons_of_mem _ hv))]
    rfl

/-- [S] a successful `cliqueOriginal p i` returns `cliqueOrigD p i`, and then every clique
vertex indexes `ordering` in range -/
theorem cliqueOriginal_ok_inv (p : SPattern) (i : Nat) (c : Array Nat)
    (h : cliqueOriginal p i = .ok c) :
    c = cliqueOrigD p i ∧ ∀ v ∈ (cliqueVerts p.sntree i).toList, v < p.ordering.size := by
  unfold cliqueOriginal at h
  obtain ⟨cl, h1, h⟩ := bind_ok_inv' _ _ _ h
  obtain ⟨l, h2, h⟩ := bind_ok_inv' _ _ _ h
  have e1 := getClique_ok_inv _ _ _ h1
  subst e1
  obtain ⟨e2, e3⟩ := mapM_getE_ok_inv _ _ _ _ h2
  subst e2
  exact ⟨(Except.ok.inj h).symm, e3⟩

/-- [S] a successful `get_nblk(i)` returns `nblkD t i` -/
theorem getNblk_ok_inv (t : SuperNodeTree) (i n : Nat) (h : t.getNblk i = .ok n) :
    n = nblkD t i := by
  unfold SuperNodeTree.getNblk at h
  unfold nblkD
  cases hn : t.nblk with
  | none => rw [hn] at h; simp [throw, throwThe, MonadExceptOf.throw] at h
  | some nb =>
    rw [hn] at h
    simp only [Option.getD_some]
    rw [getD_of_getElem? _ _ _ _ (getE_ok_inv' _ _ _ _ h)]

/-! ## 4. the loops of `find_standard_H_and_cones` -/

/-- the loop of `decompose_with_sparsity_pattern` over the first `n` cliques -/
private theorem decompose_loop_inv (p : SPattern) (row n : Nat) (HI : Array Nat)
    (cn : Array Cone) (res : Array Nat × Array Cone)
    (h : (List.range n).foldlM (fun (acc : Array Nat × Array Cone) i => do
        let c ← cliqueOriginal p i
        let cdim ← p.sntree.getNblk i
        pure (addSubblockMap acc.1 c row, acc.2.push (.psd cdim))) (HI, cn) = .ok res) :
    res.1.toList = HI.toList ++
      (List.range n).flatMap (fun i => subblockEntries (cliqueOrigD p i) row) ∧
    res.2.toList = cn.toList ++ (List.range n).map (fun i => Cone.psd (nblkD p.sntree i)) ∧
    ∀ i, i < n → cliqueOriginal p i = .ok (cliqueOrigD p i) ∧
      p.sntree.getNblk i = .ok (nblkD p.sntree i) := by
  induction n generalizing res with
  | zero =>
    have : res = (HI, cn) := (Except.ok.inj h).symm
    subst this
    simp
  | succ n ih =>
    rw [List.range_succ, List.foldlM_append] at h
    obtain ⟨mid, hm, h⟩ := bind_ok_inv' _ _ _ h
    obtain ⟨i1, i2, i3⟩ := ih mid hm
    rw [List.foldlM_cons] at h
    obtain ⟨r1, h, h'⟩ := bind_ok_inv' _ _ _ h
    have : res = r1 := (Except.ok.inj h').symm
    subst this
    obtain ⟨c, hc, h⟩ := bind_ok_inv' _ _ _ h
    obtain ⟨cdim, hd, h⟩ := bind_ok_inv' _ _ _ h
    have e1 := (cliqueOriginal_ok_inv _ _ _ hc).1
    have e2 := getNblk_ok_inv _ _ _ hd
    subst e1 e2
    have : res = (addSubblockMap mid.1 (cliqueOrigD p n) row, mid.2.push (.psd (nblkD p.sntree n))) :=
      (Except.ok.inj h).symm
    subst this
    refine ⟨?_, ?_, ?_⟩
    · rw [List.range_succ]
      simp only [add_subblock_map_spec, Array.toList_append, i1,
        List.flatMap_append, List.flatMap_cons, List.flatMap_nil, List.append_nil,
        List.append_assoc]
      rfl
    · rw [List.range_succ]
      simp only [Array.toList_push, i2, List.map_append, List.map_cons,
        List.map_nil, List.append_assoc]
    · intro i hi
      rcases Nat.lt_or_ge i n with hlt | hge
      · exact i3 i hlt
      · have : i = n := by omega
        subst this
        exact ⟨hc, hd⟩

/-- [S] a successful `decompose_with_sparsity_pattern` appends the entries of the clique blocks
in post-order and the PSD cones of dimension `nblk[i]`; all accessors succeeded -/
theorem decompose_with_sparsity_pattern_inv (p : SPattern) (row : Nat) (HI : Array Nat)
    (cn : Array Cone) (res : Array Nat × Array Cone)
    (h : decomposeWithSparsityPattern HI cn p row = .ok res) :
    res.1.toList = HI.toList ++
      (List.range p.sntree.nCliques).flatMap (fun i => subblockEntries (cliqueOrigD p i) row) ∧
    res.2.toList = cn.toList ++
      (List.range p.sntree.nCliques).map (fun i => Cone.psd (nblkD p.sntree i)) ∧
    ∀ i, i < p.sntree.nCliques → cliqueOriginal p i = .ok (cliqueOrigD p i) ∧
      p.sntree.getNblk i = .ok (nblkD p.sntree i) :=
  decompose_loop_inv p row p.sntree.nCliques HI cn res h

private theorem foldl_push_range' (row n : Nat) (a : Array Nat) :
    ((List.range n).foldl (fun (a : Array Nat) i => a.push (row + i)) a).toList
      = a.toList ++ List.range' row n := by
  induction n with
  | zero => simp
  | succ n ih =>
    rw [List.range_succ, List.foldl_append, List.foldl_cons, List.foldl_nil, Array.toList_push, ih,
      List.append_assoc, ← List.range'_append (s := row) (m := n) (n := 1)]
    simp

/-- [S] one pass of the loop over the cones: what a successful pass appends -/
theorem stdStep_ok_inv (ci : ChordalInfo) (HI : Array Nat) (cn : Array Cone)
    (row k coneidx : Nat) (res : Array Nat × Array Cone × Nat × Nat)
    (h : stdStep ci (HI, cn, row, k) coneidx = .ok res) :
    ∃ cone, ci.initCones[coneidx]? = some cone ∧
      res.1.toList = HI.toList ++
        (ConeGroup.blocks ⟨cone, row, ci.nextPattern? k coneidx⟩).flatMap Block.entries ∧
      res.2.1.toList = cn.toList ++ ConeGroup.newCones ⟨cone, row, ci.nextPattern? k coneidx⟩ ∧
      res.2.2.1 = row + cone.nvars ∧
      res.2.2.2 = (if (ci.nextPattern? k coneidx).isSome then k + 1 else k) ∧
      ∀ p, ci.nextPattern? k coneidx = some p → cone.isPsd = true ∧
        ∀ i, i < p.sntree.nCliques → cliqueOriginal p i = .ok (cliqueOrigD p i) ∧
          p.sntree.getNblk i = .ok (nblkD p.sntree i) := by
  unfold stdStep at h
  obtain ⟨cone, hc, h⟩ := bind_ok_inv' _ _ _ h
  refine ⟨cone, getE_ok_inv' _ _ _ _ hc, ?_⟩
  cases hp : ci.nextPattern? k coneidx with
  | none =>
    rw [hp] at h
    have : res = ((List.range cone.nvars).foldl (fun (a : Array Nat) i => a.push (row + i)) HI,
        cn.push cone, row + cone.nvars, k) := (Except.ok.inj h).symm
    subst this
    refine ⟨?_, ?_, rfl, rfl, fun p hp' => by cases hp'⟩
    · rw [foldl_push_range']
      simp [ConeGroup.blocks, Block.entries]
    · simp [ConeGroup.newCones]
  | some p =>
    rw [hp] at h
    by_cases hpsd : cone.isPsd = true
    · simp only [hpsd, Bool.not_true, Bool.false_eq_true, if_false] at h
      obtain ⟨r, hr, h⟩ := bind_ok_inv' _ _ _ h
      have : res = (r.1, r.2, row + cone.nvars, k + 1) := (Except.ok.inj h).symm
      subst this
      obtain ⟨i1, i2, i3⟩ := decompose_with_sparsity_pattern_inv _ _ _ _ _ hr
      refine ⟨?_, ?_, rfl, rfl, fun p' hp' => ?_⟩
      · rw [i1]
        simp [ConeGroup.blocks, Block.entries, List.flatMap_map]
      · rw [i2]
        simp [ConeGroup.newCones]
      · cases hp'
        exact ⟨hpsd, i3⟩
    · simp [hpsd, throw, throwThe, MonadExceptOf.throw] at h

private theorem drop_cons_inv {β : Type} (l : List β) (s : Nat) (c : β) (rest : List β)
    (h : l.drop s = c :: rest) : l[s]? = some c ∧ l.drop (s + 1) = rest := by
  constructor
  · have := List.getElem?_drop (xs := l) (i := s) (j := 0)
    rw [h] at this
    simpa using this.symm
  · have := List.drop_drop (i := 1) (j := s) (l := l)
    rw [h] at this
    simpa using this.symm

/-- all accessors that the decomposition of a group uses succeeded -/
def ConeGroup.AccessOk (g : ConeGroup) : Prop :=
  ∀ p, g.pat = some p → g.cone.isPsd = true ∧
    ∀ i, i < p.sntree.nCliques → cliqueOriginal p i = .ok (cliqueOrigD p i) ∧
      p.sntree.getNblk i = .ok (nblkD p.sntree i)

/-- the loop over the cones from cone `s` on -/
private theorem std_loop_inv (ci : ChordalInfo) (cones : List Cone) (s : Nat)
    (hdrop : ci.initCones.toList.drop s = cones) (HI : Array Nat) (cn : Array Cone)
    (row k : Nat) (res : Array Nat × Array Cone × Nat × Nat)
    (h : (List.range' s cones.length).foldlM (stdStep ci) (HI, cn, row, k) = .ok res) :
    res.1.toList = HI.toList ++
      ((stdGroupsFrom ci cones s k row).flatMap ConeGroup.blocks).flatMap Block.entries ∧
    res.2.1.toList = cn.toList ++ (stdGroupsFrom ci cones s k row).flatMap ConeGroup.newCones ∧
    res.2.2.1 = row + (cones.map Cone.nvars).sum ∧
    ∀ g ∈ stdGroupsFrom ci cones s k row, g.AccessOk := by
  induction cones generalizing s HI cn row k res with
  | nil =>
    have : res = (HI, cn, row, k) := (Except.ok.inj h).symm
    subst this
    simp [stdGroupsFrom]
  | cons c rest ih =>
    obtain ⟨d1, d2⟩ := drop_cons_inv _ _ _ _ hdrop
    rw [List.length_cons, List.range'_succ, List.foldlM_cons] at h
    obtain ⟨mid, hm, h⟩ := bind_ok_inv' _ _ _ h
    obtain ⟨cone, e0, e1, e2, e3, e4, e5⟩ := stdStep_ok_inv ci HI cn row k s mid hm
    have hc : cone = c := by
      rw [← Array.getElem?_toList] at e0
      exact Option.some.inj (e0.symm.trans d1)
    subst hc
    obtain ⟨j1, j2, j3, j4⟩ := ih (s + 1) d2 mid.1 mid.2.1 mid.2.2.1 mid.2.2.2 res h
    rw [e3, e4] at j1 j2 j4
    rw [e3] at j3
    refine ⟨?_, ?_, ?_, ?_⟩
    · rw [j1, e1]
      simp only [stdGroupsFrom, List.flatMap_cons, List.flatMap_append, List.append_assoc]
    · rw [j2, e2]
      simp only [stdGroupsFrom, List.flatMap_cons, List.append_assoc]
    · rw [j3, List.map_cons, List.sum_cons]; omega
    · intro g hg
      simp only [stdGroupsFrom, List.mem_cons] at hg
      rcases hg with rfl | hg
      · exact e5
      · exact j4 g hg

/-- [S] **global structure of `find_standard_H_and_cones`**: when it succeeds,
* the row indices `HI` of the `1`s of `H` are the concatenation, over the original cones in
  order, of `start .. start + nvars` for a cone that is not decomposed, resp. of the packed
  upper triangles (`subblockEntries`) of its cliques in post-order for a decomposed one,
* the new cone list is the zero cone of size `m = initDims.2` followed by the original
  list with each decomposed PSD cone replaced by the PSD cones of dimension `nblk[i]` of its
  cliques,
* `H` has `Σ nvars` rows and `lenH = |HI|` columns,
* and every accessor used on the way succeeded (in particular a decomposed cone is PSD). -/
theorem find_standard_H_and_cones_spec (ci : ChordalInfo) (h : StdH)
    (hok : ci.findStandardHAndCones = .ok h) :
    h.HI.toList = (stdBlocks ci).flatMap Block.entries ∧
    h.conesNew.toList = Cone.zero ci.initDims.2 :: stdCones ci ∧
    h.rows = (ci.initCones.toList.map Cone.nvars).sum ∧
    h.lenH = h.HI.size ∧
    ∀ g ∈ stdGroups ci, g.AccessOk := by
  rw [findStandardHAndCones_eq] at hok
  obtain ⟨dims, _, hok⟩ := bind_ok_inv' _ _ _ hok
  obtain ⟨res, hres, hok⟩ := bind_ok_inv' _ _ _ hok
  have hl : List.range ci.initCones.size = List.range' 0 ci.initCones.toList.length := by
    rw [List.range_eq_range', Array.length_toList]
  rw [hl] at hres
  obtain ⟨j1, j2, j3, j4⟩ := std_loop_inv ci ci.initCones.toList 0 (by simp) _ _ _ _ res hres
  by_cases hsz : res.1.size = dims.1
  · simp only [hsz, bne_self_eq_false, Bool.false_eq_true, if_false] at hok
    have : h = { rows := res.2.2.1, lenH := dims.1, HI := res.1, conesNew := res.2.1 } :=
      (Except.ok.inj hok).symm
    subst this
    refine ⟨?_, ?_, ?_, hsz.symm, j4⟩
    · simpa [stdBlocks, stdGroups] using j1
    · simpa [stdCones, stdGroups] using j2
    · simpa using j3
  · have : (res.1.size != dims.1) = true := by simpa using hsz
    simp [this, throw, throwThe, MonadExceptOf.throw] at hok

/-! ### a concrete instance: cones `[nonneg 1, psd 3]`, the PSD cone decomposed along the path
`0 — 1 — 2` into the cliques `{0,1}` and `{1,2}` -/

/-- supernodes `{0}`, `{1,2}`; separators `{1}`, `∅`; clique 0 is the child of clique 1 -/
def exStdTree : SuperNodeTree :=
  { snode := #[#[0], #[1, 2]], snodePost := #[0, 1], snodeParent := #[1, noParent],
    snodeChildren := #[], post := #[], separators := #[#[1], #[]], nblk := some #[2, 2],
    nCliques := 2 }

def exStdPattern : SPattern := { sntree := exStdTree, ordering := #[0, 1, 2], origIndex := 1 }

def exStdCi : ChordalInfo :=
  { initDims := (2, 7), initCones := #[.nonneg 1, .psd 3], spatterns := #[exStdPattern] }

def exStdH : StdH :=
  { rows := 7, lenH := 7, HI := #[0, 1, 2, 3, 3, 5, 6],
    conesNew := #[.zero 7, .nonneg 1, .psd 2, .psd 2] }

private theorem sort_sorted (l : List Nat) (h : l.Pairwise (fun a b => a ≤ b)) :
    VSet.sort l.toArray = l.toArray := by
  unfold VSet.sort
  rw [List.mergeSort_of_pairwise (by simpa using h)]

theorem exStd_clique0 : cliqueOriginal exStdPattern 0 = .ok #[0, 1] := by
  have h : exStdPattern.sntree.getClique 0 = .ok #[0, 1] := by
    simp [SuperNodeTree.getClique, SuperNodeTree.getSnode, SuperNodeTree.getSeparators, getE,
      VSet.extend, VSet.insert, bind, Except.bind, pure, Except.pure, exStdTree, exStdPattern]
  have : cliqueOriginal exStdPattern 0 = .ok (VSet.sort [0, 1].toArray) := by
    unfold cliqueOriginal
    rw [h]
    rfl
  rw [this, sort_sorted _ (by decide)]

theorem exStd_clique1 : cliqueOriginal exStdPattern 1 = .ok #[1, 2] := by
  have h : exStdPattern.sntree.getClique 1 = .ok #[1, 2] := by
    simp [SuperNodeTree.getClique, SuperNodeTree.getSnode, SuperNodeTree.getSeparators, getE,
      VSet.extend, bind, Except.bind, pure, Except.pure, exStdTree, exStdPattern]
  have : cliqueOriginal exStdPattern 1 = .ok (VSet.sort [1, 2].toArray) := by
    unfold cliqueOriginal
    rw [h]
    rfl
  rw [this, sort_sorted _ (by decide)]

theorem exStd_decompose (HI : Array Nat) (cn : Array Cone) (row : Nat) :
    decomposeWithSparsityPattern HI cn exStdPattern row =
      .ok (addSubblockMap (addSubblockMap HI #[0, 1] row) #[1, 2] row,
        (cn.push (.psd 2)).push (.psd 2)) := by
  unfold decomposeWithSparsityPattern
  have : List.range exStdPattern.sntree.nCliques = [0, 1] := by rfl
  have n0 : exStdPattern.sntree.getNblk 0 = .ok 2 := by rfl
  have n1 : exStdPattern.sntree.getNblk 1 = .ok 2 := by rfl
  rw [this]
  simp only [List.foldlM_cons, List.foldlM_nil, exStd_clique0, exStd_clique1, n0, n1, bind,
    Except.bind, pure, Except.pure]

theorem exStd_ok : exStdCi.findStandardHAndCones = .ok exStdH := by
  rw [findStandardHAndCones_eq]
  have e0 : exStdCi.getDecomposedDimAndOverlaps = .ok (7, 1) := by rfl
  have e1 : List.range exStdCi.initCones.size = [0, 1] := by rfl
  have e2 : stdStep exStdCi (#[], #[Cone.zero exStdCi.initDims.2], 0, 0) 0
      = .ok (#[0], #[Cone.zero 7, Cone.nonneg 1], 1, 0) := by rfl
  have e3 : stdStep exStdCi (#[0], #[Cone.zero 7, Cone.nonneg 1], 1, 0) 1
      = .ok (#[0, 1, 2, 3, 3, 5, 6], #[.zero 7, .nonneg 1, .psd 2, .psd 2], 7, 1) := by
    have : stdStep exStdCi (#[0], #[Cone.zero 7, Cone.nonneg 1], 1, 0) 1
      = (do let (HI, conesNew) ← decomposeWithSparsityPattern #[0]
              #[Cone.zero 7, Cone.nonneg 1] exStdPattern 1
            pure (HI, conesNew, 1 + (Cone.psd 3).nvars, 0 + 1)) := by rfl
    rw [this, exStd_decompose]
    rfl
  rw [e0, e1]
  simp only [bind, Except.bind, List.foldlM_cons, List.foldlM_nil, e2, e3]
  rfl

example : exStdH.HI.toList = (stdBlocks exStdCi).flatMap Block.entries ∧
    exStdH.conesNew.toList = Cone.zero exStdCi.initDims.2 :: stdCones exStdCi ∧
    exStdH.rows = (exStdCi.initCones.toList.map Cone.nvars).sum ∧
    exStdH.lenH = exStdH.HI.size ∧ ∀ g ∈ stdGroups exStdCi, g.AccessOk :=
  find_standard_H_and_cones_spec exStdCi exStdH exStd_ok

/-! ## 5. selection sums: the row of `H x` block by block -/

section Sel
variable {α : Type}

/-- `Σ x (off + q)` over the positions `q` of `L` with `L[q] = r` (left to right) -/
def selSum [AddMonoid α] : List Nat → Nat → (Nat → α) → Nat → α
  | [], _, _, _ => 0
  | e :: L, off, x, r => (if e = r then x off else 0) + selSum L (off + 1) x r

theorem selSum_append [AddMonoid α] (L1 L2 : List Nat) (off : Nat) (x : Nat → α) (r : Nat) :
    selSum (L1 ++ L2) off x r = selSum L1 off x r + selSum L2 (off + L1.length) x r := by
  induction L1 generalizing off with
  | nil => simp [selSum]
  | cons e L ih =>
    rw [List.cons_append, selSum, selSum, ih, List.length_cons,
      show off + 1 + L.length = off + (L.length + 1) by omega, add_assoc]

/-- [F] `selSum` is the filtered sum of `h_gemv_sum` -/
theorem selSum_eq_filter [AddMonoid α] (L : List Nat) (off : Nat) (x : Nat → α) (r : Nat) :
    selSum L off x r = (((List.range L.length).filter (fun q => decide (L.getD q 0 = r))).map
      (fun q => x (off + q))).sum := by
  induction L generalizing off with
  | nil => simp [selSum]
  | cons e L ih =>
    rw [selSum, ih, List.length_cons, List.range_succ_eq_map, List.filter_cons]
    have e1 : (List.filter (fun q => decide ((e :: L).getD q 0 = r)) (List.map Nat.succ (List.range L.length)))
        = List.map Nat.succ (List.filter (fun q => decide (L.getD q 0 = r)) (List.range L.length)) := by
      rw [List.filter_map]
      rfl
    rw [e1]
    by_cases he : e = r
    · simp [he, List.map_map, Function.comp_def, Nat.add_assoc, Nat.add_comm 1]
    · simp [he, List.map_map, Function.comp_def, Nat.add_assoc, Nat.add_comm 1]

theorem selSum_not_mem [AddMonoid α] (L : List Nat) (off : Nat) (x : Nat → α) (r : Nat)
    (h : r ∉ L) : selSum L off x r = 0 := by
  induction L generalizing off with
  | nil => rfl
  | cons e L ih =>
    have h1 : e ≠ r := fun he => h (by simp [he])
    have h2 : r ∉ L := fun hm => h (List.mem_cons_of_mem _ hm)
    simp [selSum, h1, ih _ h2]

/-- in a duplicate-free list exactly one position is selected -/
theorem selSum_nodup [AddMonoid α] (L : List Nat) (off : Nat) (x : Nat → α) (r q : Nat)
    (hnd : L.Nodup) (hq : L[q]? = some r) : selSum L off x r = x (off + q) := by
  induction L generalizing off q with
  | nil => simp at hq
  | cons e L ih =>
    obtain ⟨h1, h2⟩ := List.nodup_cons.1 hnd
    cases q with
    | zero =>
      have he : e = r := by simpa using hq
      subst he
      simp [selSum, selSum_not_mem _ _ _ _ h1]
    | succ q =>
      have hq' : L[q]? = some r := by simpa using hq
      have hm : r ∈ L := List.mem_of_getElem? hq'
      have he : e ≠ r := fun he => h1 (he ▸ hm)
      simp only [selSum, he, if_false, zero_add, ih _ _ h2 hq']
      rw [show off + 1 + q = off + (q + 1) by omega]

end Sel

/-! ## 6. the contribution of one block to one row -/

section Term
variable {α : Type}

/-- the entry that a block of `s̃` (columns `off .. off + ncols`) contributes to row `r` of
`s = H s̃`: the identity block copies, the block of the clique `c` scatters the packed
`|c| × |c|` triangle `S` into the big triangle: entry `(a, b)` of `Eᵀ S E` is
`S[pos a, pos b]` when `a, b ∈ c` and `0` otherwise -/
def Block.term [Zero α] (x : Nat → α) (off : Nat) : Block → Nat → α
  | .plain start n, r => if start ≤ r ∧ r < start + n then x (off + (r - start)) else 0
  | .clique start c, r =>
    if start ≤ r ∧ (upperTriangularIndexToCoord (r - start)).1 ∈ c.toList ∧
        (upperTriangularIndexToCoord (r - start)).2 ∈ c.toList then
      x (off + coordToUpperTriangularIndex
        (c.toList.idxOf (upperTriangularIndexToCoord (r - start)).1,
         c.toList.idxOf (upperTriangularIndexToCoord (r - start)).2))
    else 0

/-- a clique block is well formed when the clique is strictly increasing -/
def Block.Sorted : Block → Prop
  | .plain _ _ => True
  | .clique _ c => ∀ i j, i < j → j < c.size → c.getD i 0 < c.getD j 0

private theorem length_tri {β : Type} (F : Nat → Nat → β) (n : Nat) :
    ((List.range n).flatMap (fun j => (List.range (j + 1)).map (F j))).length
      = triangularNumber n := by
  induction n with
  | zero => rfl
  | succ k ih =>
    rw [List.range_succ, List.flatMap_append, List.length_append, ih, triangularNumber_succ]
    simp
    omega

/-- position `tri(i, j)` of the column-major upper triangle holds the entry `(i, j)` -/
private theorem tri_getElem? {β : Type} (F : Nat → Nat → β) (n i j : Nat) (hij : i ≤ j)
    (hj : j < n) :
    ((List.range n).flatMap (fun j => (List.range (j + 1)).map (F j)))[triangularNumber j + i]?
      = some (F j i) := by
  induction n with
  | zero => omega
  | succ k ih =>
    rw [List.range_succ, List.flatMap_append, List.flatMap_singleton]
    rcases Nat.lt_or_ge j k with hlt | hge
    · have hm := triangularNumber_mono (show j + 1 ≤ k from hlt)
      rw [triangularNumber_succ] at hm
      rw [List.getElem?_append_left (by rw [length_tri]; omega)]
      exact ih hlt
    · have : j = k := by omega
      subst this
      rw [List.getElem?_append_right (by rw [length_tri]; omega), length_tri,
        Nat.add_sub_cancel_left, List.getElem?_map,
        List.getElem?_range (show i < j + 1 by omega)]
      rfl

theorem Block.length_entries (B : Block) : B.entries.length = B.ncols := by
  cases B with
  | plain s n => simp [Block.entries, Block.ncols]
  | clique s c => exact length_tri _ _

/-- [F] the identity block: row `r` of the cone receives column `off + (r - start)` -/
theorem selSum_plain [AddMonoid α] (start n off : Nat) (x : Nat → α) (r : Nat) :
    selSum (Block.plain start n).entries off x r = (Block.plain start n).term x off r := by
  show selSum (List.range' start n) off x r
    = if start ≤ r ∧ r < start + n then x (off + (r - start)) else 0
  by_cases h : start ≤ r ∧ r < start + n
  · rw [if_pos h]
    apply selSum_nodup _ _ _ _ _ (List.nodup_range' 1)
    rw [List.getElem?_range' (by omega)]
    congr 1
    omega
  · rw [if_neg h]
    apply selSum_not_mem
    rw [List.mem_range'_1]
    exact h

private theorem strict_mono_le (c : Array Nat)
    (hv : ∀ i j, i < j → j < c.size → c.getD i 0 < c.getD j 0) (i j : Nat) (hij : i ≤ j)
    (hj : j < c.size) : c.getD i 0 ≤ c.getD j 0 := by
  rcases Nat.lt_or_ge i j with h | h
  · exact Nat.le_of_lt (hv i j h hj)
  · have : i = j := by omega
    subst this; exact Nat.le_refl _

private theorem getD_idxOf (c : Array Nat) (a : Nat) (h : a ∈ c.toList) :
    c.toList.idxOf a < c.size ∧ c.getD (c.toList.idxOf a) 0 = a := by
  have h1 : c.toList.idxOf a < c.toList.length := List.idxOf_lt_length_of_mem h
  refine ⟨by simpa using h1, ?_⟩
  have h2 := List.getElem_idxOf h1
  rw [Array.getD_eq_getD_getElem?, ← Array.getElem?_toList, List.getElem?_eq_getElem h1, h2]
  rfl

/-- [F] a clique block of a strictly increasing clique: the row of the entry `(a, b)` of the
big triangle receives the entry `(pos a, pos b)` of the clique's triangle when `a, b ∈ c`, and
nothing otherwise (each clique contributes at most one term to a row) -/
theorem selSum_clique [AddMonoid α] (start : Nat) (c : Array Nat) (off : Nat) (x : Nat → α)
    (r : Nat) (hv : ∀ i j, i < j → j < c.size → c.getD i 0 < c.getD j 0) :
    selSum (Block.clique start c).entries off x r = (Block.clique start c).term x off r := by
  have hnd := add_subblock_map_injective c start hv
  obtain ⟨hab, hidx⟩ := index_coord_inv (r - start)
  show selSum (subblockEntries c start) off x r =
    if start ≤ r ∧ (upperTriangularIndexToCoord (r - start)).1 ∈ c.toList ∧
        (upperTriangularIndexToCoord (r - start)).2 ∈ c.toList then
      x (off + coordToUpperTriangularIndex
        (c.toList.idxOf (upperTriangularIndexToCoord (r - start)).1,
         c.toList.idxOf (upperTriangularIndexToCoord (r - start)).2))
    else 0
  generalize hrc : upperTriangularIndexToCoord (r - start) = rc at hab hidx ⊢
  obtain ⟨a, b⟩ := rc
  simp only at hab hidx ⊢
  by_cases h : start ≤ r ∧ a ∈ c.toList ∧ b ∈ c.toList
  · rw [if_pos h]
    obtain ⟨h0, ha, hb⟩ := h
    obtain ⟨ia, ea⟩ := getD_idxOf c a ha
    obtain ⟨ib, eb⟩ := getD_idxOf c b hb
    have hij : c.toList.idxOf a ≤ c.toList.idxOf b := by
      rcases Nat.lt_or_ge (c.toList.idxOf b) (c.toList.idxOf a) with hlt | hge
      · have := hv _ _ hlt ia
        omega
      · exact hge
    apply selSum_nodup _ _ _ _ _ hnd
    rw [coord_to_index_of_le hij]
    unfold subblockEntries
    rw [tri_getElem? (fun j i => start + coordToUpperTriangularIndex (c.getD i 0, c.getD j 0))
      c.size _ _ hij ib, ea, eb, hidx]
    congr 1
    omega
  · rw [if_neg h]
    apply selSum_not_mem
    intro hm
    apply h
    unfold subblockEntries at hm
    simp only [List.mem_flatMap, List.mem_range, List.mem_map] at hm
    obtain ⟨j, hj, i, hi, e⟩ := hm
    have hle := strict_mono_le c hv i j (by omega) hj
    have h0 : start ≤ r := by omega
    have e' : r - start = coordToUpperTriangularIndex (c.getD i 0, c.getD j 0) := by omega
    rw [e', coord_index_inv hle] at hrc
    have e1 : c.getD i 0 = a := congrArg Prod.fst hrc
    have e2 : c.getD j 0 = b := congrArg Prod.snd hrc
    have mem : ∀ k, k < c.size → c.getD k 0 ∈ c.toList := by
      intro k hk
      rw [Array.getD_eq_getD_getElem?, Array.getElem?_eq_getElem hk, Option.getD_some]
      exact Array.getElem_mem_toList hk
    exact ⟨h0, e1 ▸ mem i (by omega), e2 ▸ mem j hj⟩

/-- [F] one block, either kind -/
theorem selSum_block [AddMonoid α] (B : Block) (hB : B.Sorted) (off : Nat) (x : Nat → α)
    (r : Nat) : selSum B.entries off x r = B.term x off r := by
  cases B with
  | plain s n => exact selSum_plain s n off x r
  | clique s c => exact selSum_clique s c off x r hB

end Term

/-! ## 7. `H s̃` as the sum of the scattered blocks -/

section Blocks
variable {α : Type}

/-- the blocks paired with their first column: `off_B` = number of columns of the blocks
to the left of `B` -/
def blockOffsets : List Block → Nat → List (Nat × Block)
  | [], _ => []
  | B :: bs, off => (off, B) :: blockOffsets bs (off + B.ncols)

/-- total number of columns of a list of blocks -/
def blocksNcols (bs : List Block) : Nat := (bs.map Block.ncols).sum

theorem blockOffsets_append (l1 l2 : List Block) (off : Nat) :
    blockOffsets (l1 ++ l2) off = blockOffsets l1 off ++ blockOffsets l2 (off + blocksNcols l1) := by
  induction l1 generalizing off with
  | nil => simp [blockOffsets, blocksNcols]
  | cons B bs ih =>
    simp only [List.cons_append, blockOffsets, ih, blocksNcols, List.map_cons, List.sum_cons,
      Nat.add_assoc]

/-- the sum over all blocks of their contributions to row `r` -/
def blockSum [AddMonoid α] (bs : List Block) (off : Nat) (x : Nat → α) (r : Nat) : α :=
  ((blockOffsets bs off).map (fun ob => ob.2.term x ob.1 r)).sum

theorem blockSum_append [AddMonoid α] (l1 l2 : List Block) (off : Nat) (x : Nat → α) (r : Nat) :
    blockSum (l1 ++ l2) off x r = blockSum l1 off x r + blockSum l2 (off + blocksNcols l1) x r := by
  unfold blockSum
  rw [blockOffsets_append, List.map_append, List.sum_append]

/-- [F] the selection sum of a concatenation of well-formed blocks is the sum of the block
terms -/
theorem selSum_blocks [AddMonoid α] (bs : List Block) (hbs : ∀ B ∈ bs, B.Sorted) (off : Nat)
    (x : Nat → α) (r : Nat) :
    selSum (bs.flatMap Block.entries) off x r = blockSum bs off x r := by
  induction bs generalizing off with
  | nil => rfl
  | cons B bs ih =>
    rw [List.flatMap_cons, selSum_append, selSum_block B (hbs B (by simp)),
      ih (fun B' h => hbs B' (List.mem_cons_of_mem _ h)), Block.length_entries]
    simp [blockSum, blockOffsets]

/-- [F] **`s = H s̃` is the sum of the scattered blocks**: if the row indices of `H` are the
concatenation of the entries of the blocks `bs` (all cliques strictly increasing), then row `r`
of `H x` is `Σ_B term_B(r)`: `x[off_B + (r - start)]` for the identity block containing `r`,
and for every clique block `x[off_B + tri(pos a, pos b)]` when `r = start + tri(a, b)` with
`a, b` in the clique, `0` otherwise -/
theorem h_gemv_blocks [Semiring α] (rows : Nat) (HI : Array Nat) (bs : List Block)
    (hbl : HI.toList = bs.flatMap Block.entries) (hbs : ∀ B ∈ bs, B.Sorted)
    (x : Array α) (hx : x.size = HI.size) (hHI : ∀ j, j < HI.size → HI.getD j 0 < rows) :
    ∃ y, hGemv rows HI x = .ok y ∧ y.size = rows ∧
      ∀ r, r < rows → y.getD r 0 = blockSum bs 0 (fun j => x.getD j 0) r := by
  obtain ⟨y, h1, h2, h3⟩ := h_gemv_sum rows HI x hx hHI
  refine ⟨y, h1, h2, fun r hr => ?_⟩
  rw [h3 r hr, ← selSum_blocks bs hbs, ← hbl, selSum_eq_filter, Array.length_toList]
  simp only [Nat.zero_add]
  congr 2
  apply List.filter_congr
  intro q _
  simp [Array.getD_eq_getD_getElem?, List.getD_eq_getElem?_getD]

end Blocks

/-! ## 8. well-formed patterns: what `find_standard_H_and_cones` needs of a clique tree -/

/-- supernode of the clique with post-order index `i`, as a list -/
def stdSnodeL (t : SuperNodeTree) (i : Nat) : List Nat :=
  (t.snode.getD (t.snodePost.getD i 0) #[]).toList
/-- separator of the clique with post-order index `i`, as a list -/
def stdSepL (t : SuperNodeTree) (i : Nat) : List Nat :=
  (t.separators.getD (t.snodePost.getD i 0) #[]).toList

/-- the facts about a sparsity pattern of a `d × d` PSD cone that the standard decomposition
relies on (all of them clauses of the clique-tree validity predicate of C17):
`ordering` is an injective map of `0..d` into itself, the post-order lists stored cliques,
supernode and separator of every clique are disjoint, repetition-free and in range, and
`nblk[i]` is the size of clique `i`. -/
structure StdPatternOK (p : SPattern) (d : Nat) : Prop where
  ord_size : p.ordering.size = d
  ord_lt : ∀ v, v < d → p.ordering.getD v 0 < d
  ord_inj : ∀ u v, u < d → v < d → p.ordering.getD u 0 = p.ordering.getD v 0 → u = v
  post_size : p.sntree.nCliques ≤ p.sntree.snodePost.size
  post_lt : ∀ i, i < p.sntree.nCliques → p.sntree.snodePost.getD i 0 < p.sntree.snode.size
  sep_size : p.sntree.separators.size = p.sntree.snode.size
  clique_nodup : ∀ i, i < p.sntree.nCliques → (stdSnodeL p.sntree i ++ stdSepL p.sntree i).Nodup
  clique_lt : ∀ i, i < p.sntree.nCliques → ∀ v ∈ stdSnodeL p.sntree i ++ stdSepL p.sntree i, v < d
  nblk : ∃ nb, p.sntree.nblk = some nb ∧ nb.size = p.sntree.nCliques ∧
    ∀ i, i < p.sntree.nCliques → nb.getD i 0 = (stdSnodeL p.sntree i ++ stdSepL p.sntree i).length

private theorem extend_toList_of_nodup (s : VSet) (l : List Nat) (h : (s.toList ++ l).Nodup) :
    (s.extend l).toList = s.toList ++ l := by
  induction l generalizing s with
  | nil => simp [VSet.extend]
  | cons v l ih =>
    have hv : v ∉ s.toList := by
      intro hm
      have := (List.nodup_append.1 h).2.2 v hm v (by simp)
      exact this rfl
    have hins : s.insert v = s.push v := by
      unfold VSet.insert
      rw [if_neg]
      intro hc
      exact hv (Array.mem_toList_iff.2 (Array.contains_iff_mem.1 hc))
    have : s.extend (v :: l) = (s.insert v).extend l := rfl
    rw [this, hins, ih]
    · simp
    · simpa using h

/-- under `StdPatternOK` the clique is supernode ++ separator -/
theorem cliqueVerts_toList {p : SPattern} {d : Nat} (h : StdPatternOK p d) (i : Nat)
    (hi : i < p.sntree.nCliques) :
    (cliqueVerts p.sntree i).toList = stdSnodeL p.sntree i ++ stdSepL p.sntree i :=
  extend_toList_of_nodup _ _ (h.clique_nodup i hi)

/-- [S] under `StdPatternOK` clique `i` in original coordinates is strictly increasing, its
entries are `< d`, and it has `nblk[i]` elements -/
theorem cliqueOrigD_spec {p : SPattern} {d : Nat} (h : StdPatternOK p d) (i : Nat)
    (hi : i < p.sntree.nCliques) :
    (∀ a b, a < b → b < (cliqueOrigD p i).size →
      (cliqueOrigD p i).getD a 0 < (cliqueOrigD p i).getD b 0) ∧
    (∀ a, a < (cliqueOrigD p i).size → (cliqueOrigD p i).getD a 0 < d) ∧
    (cliqueOrigD p i).size = nblkD p.sntree i := by
  have hv := cliqueVerts_toList h i hi
  have hnd := h.clique_nodup i hi
  have hlt := h.clique_lt i hi
  rw [← hv] at hnd hlt
  set l := (cliqueVerts p.sntree i).toList.map (fun v => p.ordering.getD v 0) with hl
  have hc : (cliqueOrigD p i).toList = l.mergeSort (fun a b => decide (a ≤ b)) := rfl
  have hperm := List.mergeSort_perm l (fun a b => decide (a ≤ b))
  have hlnd : l.Nodup :=
    List.Nodup.map_on (fun u hu v hv' e => h.ord_inj u v (hlt u hu) (hlt v hv') e) hnd
  have hsnd : (cliqueOrigD p i).toList.Nodup := by rw [hc]; exact hperm.nodup_iff.2 hlnd
  have hsorted : (cliqueOrigD p i).toList.Pairwise (fun a b => a ≤ b) := by
    rw [hc]
    have := List.pairwise_mergeSort (le := fun (a b : Nat) => decide (a ≤ b))
      (by intro a b c; simp; omega) (by intro a b; simp; omega) l
    exact this.imp (by simp)
  have hstrict : (cliqueOrigD p i).toList.Pairwise (fun a b => a < b) :=
    (hsorted.and hsnd).imp (fun ⟨h1, h2⟩ => by omega)
  have hget : ∀ a (ha : a < (cliqueOrigD p i).size),
      (cliqueOrigD p i).getD a 0 = (cliqueOrigD p i).toList[a]'(by simpa using ha) := by
    intro a ha
    simp [Array.getD_eq_getD_getElem?, ha]
  refine ⟨fun a b hab hb => ?_, fun a ha => ?_, ?_⟩
  · rw [hget a (by omega), hget b hb]
    exact List.pairwise_iff_getElem.1 hstrict a b _ _ hab
  · rw [hget a ha]
    have hm : (cliqueOrigD p i).toList[a]'(by simpa using ha) ∈ l := by
      rw [← List.mem_mergeSort (le := fun (a b : Nat) => decide (a ≤ b)), ← hc]
      exact List.getElem_mem _
    rw [hl, List.mem_map] at hm
    obtain ⟨v, hvm, e⟩ := hm
    rw [← e]
    exact h.ord_lt v (hlt v hvm)
  · obtain ⟨nb, e1, _, e3⟩ := h.nblk
    have : (cliqueOrigD p i).size = (cliqueOrigD p i).toList.length := by simp
    rw [this, hc, List.length_mergeSort, hl, List.length_map, hv]
    unfold nblkD
    rw [e1, Option.getD_some, e3 i hi]

/-! ## 9. well-formed groups -/

/-- a group is well formed: a decomposed cone is `psd d` and its pattern is well formed -/
def ConeGroup.OK (g : ConeGroup) : Prop :=
  ∀ p, g.pat = some p → ∃ d, g.cone = .psd d ∧ StdPatternOK p d

/-- the hypothesis on the `ChordalInfo`: every stored pattern points to a PSD cone of the
dimension of its `ordering` and is well formed -/
def ChordalInfo.StdOK (ci : ChordalInfo) : Prop :=
  ∀ (k : Nat) (p : SPattern), ci.spatterns[k]? = some p →
    ∃ d, ci.initCones[p.origIndex]? = some (.psd d) ∧ StdPatternOK p d

theorem nextPattern?_some (ci : ChordalInfo) (k coneidx : Nat) (p : SPattern)
    (h : ci.nextPattern? k coneidx = some p) : ci.spatterns[k]? = some p ∧ p.origIndex = coneidx := by
  unfold ChordalInfo.nextPattern? at h
  cases hk : ci.spatterns[k]? with
  | none => rw [hk] at h; cases h
  | some q =>
    rw [hk] at h
    by_cases hq : (q.origIndex == coneidx) = true
    · simp only [hq, if_true, Option.some.injEq] at h
      subst h
      exact ⟨rfl, by simpa using hq⟩
    · simp [hq] at h

private theorem stdGroupsFrom_mem (ci : ChordalInfo) (cones : List Cone) (s k row : Nat)
    (hdrop : ci.initCones.toList.drop s = cones) :
    ∀ g ∈ stdGroupsFrom ci cones s k row, ∃ idx k', ci.initCones[idx]? = some g.cone ∧
      g.pat = ci.nextPattern? k' idx := by
  induction cones generalizing s k row with
  | nil => intro g hg; simp [stdGroupsFrom] at hg
  | cons c rest ih =>
    obtain ⟨d1, d2⟩ := drop_cons_inv _ _ _ _ hdrop
    intro g hg
    simp only [stdGroupsFrom, List.mem_cons] at hg
    rcases hg with rfl | hg
    · exact ⟨s, k, by rw [← Array.getElem?_toList]; exact d1, rfl⟩
    · exact ih _ _ _ d2 g hg

/-- [S] under `StdOK` every group of the walk is well formed -/
theorem stdGroups_ok (ci : ChordalInfo) (h : ci.StdOK) : ∀ g ∈ stdGroups ci, g.OK := by
  intro g hg p hp
  obtain ⟨idx, k', e1, e2⟩ := stdGroupsFrom_mem ci _ 0 0 0 (by simp) g hg
  rw [e2] at hp
  obtain ⟨e3, e4⟩ := nextPattern?_some ci k' idx p hp
  obtain ⟨d, e5, e6⟩ := h k' p e3
  rw [e4, e1] at e5
  exact ⟨d, Option.some.inj e5, e6⟩

private theorem stdGroupsFrom_start (ci : ChordalInfo) (cones : List Cone) (s k row : Nat) :
    ∀ g ∈ stdGroupsFrom ci cones s k row,
      row ≤ g.start ∧ g.start + g.cone.nvars ≤ row + (cones.map Cone.nvars).sum := by
  induction cones generalizing s k row with
  | nil => intro g hg; simp [stdGroupsFrom] at hg
  | cons c rest ih =>
    intro g hg
    simp only [stdGroupsFrom, List.mem_cons] at hg
    rw [List.map_cons, List.sum_cons]
    rcases hg with rfl | hg
    · simp only
      omega
    · have := ih _ _ _ g hg
      omega

/-- the row ranges of the groups are consecutive: groups to the left end before `g` starts,
groups to the right start after `g` ends -/
private theorem stdGroupsFrom_split (ci : ChordalInfo) (cones : List Cone) (s k row : Nat)
    (pre post : List ConeGroup) (g : ConeGroup)
    (h : stdGroupsFrom ci cones s k row = pre ++ g :: post) :
    (∀ g' ∈ pre, g'.start + g'.cone.nvars ≤ g.start) ∧
    (∀ g' ∈ post, g.start + g.cone.nvars ≤ g'.start) ∧
    row ≤ g.start ∧ g.start + g.cone.nvars ≤ row + (cones.map Cone.nvars).sum := by
  have hmem : g ∈ stdGroupsFrom ci cones s k row := by rw [h]; simp
  obtain ⟨b1, b2⟩ := stdGroupsFrom_start ci cones s k row g hmem
  refine ⟨?_, ?_, b1, b2⟩
  · induction pre generalizing cones s k row with
    | nil => intro g' hg'; cases hg'
    | cons g0 pre' ih =>
      cases cones with
      | nil => simp [stdGroupsFrom] at h
      | cons c rest =>
        simp only [stdGroupsFrom, List.cons_append, List.cons.injEq] at h
        obtain ⟨h0, ht⟩ := h
        have hm' : g ∈ stdGroupsFrom ci rest (s + 1)
            (if (ci.nextPattern? k s).isSome then k + 1 else k) (row + c.nvars) := by
          rw [ht]; simp
        have c1 := stdGroupsFrom_start _ _ _ _ _ g hm'
        intro g' hg'
        rcases List.mem_cons.1 hg' with rfl | hg'
        · rw [← h0]; simp only; omega
        · exact ih _ _ _ _ ht hm' c1.1 c1.2 g' hg'
  · induction pre generalizing cones s k row with
    | nil =>
      cases cones with
      | nil => simp [stdGroupsFrom] at h
      | cons c rest =>
        simp only [stdGroupsFrom, List.nil_append, List.cons.injEq] at h
        obtain ⟨h0, ht⟩ := h
        intro g' hg'
        rw [← ht] at hg'
        have := stdGroupsFrom_start _ _ _ _ _ g' hg'
        rw [← h0]; simp only; omega
    | cons g0 pre' ih =>
      cases cones with
      | nil => simp [stdGroupsFrom] at h
      | cons c rest =>
        simp only [stdGroupsFrom, List.cons_append, List.cons.injEq] at h
        obtain ⟨h0, ht⟩ := h
        have hm' : g ∈ stdGroupsFrom ci rest (s + 1)
            (if (ci.nextPattern? k s).isSome then k + 1 else k) (row + c.nvars) := by
          rw [ht]; simp
        have c1 := stdGroupsFrom_start _ _ _ _ _ g hm'
        exact ih _ _ _ _ ht hm' c1.1 c1.2

/-- [S] the cliques of a well-formed group are strictly increasing -/
theorem ConeGroup.blocks_sorted (g : ConeGroup) (hg : g.OK) : ∀ B ∈ g.blocks, B.Sorted := by
  intro B hB
  unfold ConeGroup.blocks at hB
  cases hp : g.pat with
  | none => rw [hp] at hB; simp at hB; subst hB; trivial
  | some p =>
    rw [hp] at hB
    simp only [List.mem_map, List.mem_range] at hB
    obtain ⟨i, hi, rfl⟩ := hB
    obtain ⟨d, _, hd⟩ := hg p hp
    exact (cliqueOrigD_spec hd i hi).1

/-- [S] every column of a block of a well-formed group has its `1` inside the row range of
the group's cone -/
theorem ConeGroup.entries_range (g : ConeGroup) (hg : g.OK) :
    ∀ B ∈ g.blocks, ∀ e ∈ B.entries, g.start ≤ e ∧ e < g.start + g.cone.nvars := by
  intro B hB e he
  unfold ConeGroup.blocks at hB
  cases hp : g.pat with
  | none =>
    rw [hp] at hB; simp at hB; subst hB
    simpa [Block.entries, List.mem_range'_1] using he
  | some p =>
    rw [hp] at hB
    simp only [List.mem_map, List.mem_range] at hB
    obtain ⟨i, hi, rfl⟩ := hB
    obtain ⟨d, hc, hd⟩ := hg p hp
    obtain ⟨s1, s2, _⟩ := cliqueOrigD_spec hd i hi
    have := add_subblock_map_range (cliqueOrigD p i) g.start d s2
      (strict_mono_le _ s1) e he
    rw [hc]
    exact this

/-! ## 10. `find_standard_H_and_cones` under `StdOK`: rows in range, blocks well formed -/

theorem stdBlocks_sorted (ci : ChordalInfo) (hci : ci.StdOK) : ∀ B ∈ stdBlocks ci, B.Sorted := by
  intro B hB
  unfold stdBlocks at hB
  obtain ⟨g, hg, hB⟩ := List.mem_flatMap.1 hB
  exact g.blocks_sorted (stdGroups_ok ci hci g hg) B hB

/-- [S] under `StdOK` every column of `H` has its `1` in a row `< rows` (this discharges the
hypothesis `hHI` of `standard_equiv` / `reverse_standard`) -/
theorem std_HI_lt_rows (ci : ChordalInfo) (h : StdH) (hok : ci.findStandardHAndCones = .ok h)
    (hci : ci.StdOK) : ∀ j, j < h.HI.size → h.HI.getD j 0 < h.rows := by
  obtain ⟨e1, _, e3, _, _⟩ := find_standard_H_and_cones_spec ci h hok
  intro j hj
  have hm : h.HI.getD j 0 ∈ h.HI.toList := by
    rw [Array.getD_eq_getD_getElem?, Array.getElem?_eq_getElem hj, Option.getD_some]
    exact Array.getElem_mem_toList hj
  rw [e1] at hm
  obtain ⟨B, hB, hm⟩ := List.mem_flatMap.1 hm
  unfold stdBlocks at hB
  obtain ⟨g, hg, hB⟩ := List.mem_flatMap.1 hB
  have r1 := g.entries_range (stdGroups_ok ci hci g hg) B hB _ hm
  have r2 := stdGroupsFrom_start ci _ 0 0 0 g hg
  rw [e3]
  omega

section GroupSum
variable {α : Type}

private theorem mem_toList_getD (c : Array Nat) (b : Nat) (h : b ∈ c.toList) :
    ∃ k, k < c.size ∧ c.getD k 0 = b := by
  obtain ⟨k, hk, e⟩ := List.mem_iff_getElem.1 h
  have hk' : k < c.size := by simpa using hk
  refine ⟨k, hk', ?_⟩
  rw [Array.getD_eq_getD_getElem?, Array.getElem?_eq_getElem hk', Option.getD_some]
  simpa using e

/-- [F] a block of a well-formed group contributes nothing outside the rows of its cone -/
theorem ConeGroup.term_outside [Zero α] (g : ConeGroup) (hg : g.OK) (B : Block)
    (hB : B ∈ g.blocks) (off : Nat) (x : Nat → α) (r : Nat)
    (hr : ¬ (g.start ≤ r ∧ r < g.start + g.cone.nvars)) : B.term x off r = 0 := by
  unfold ConeGroup.blocks at hB
  cases hp : g.pat with
  | none =>
    rw [hp] at hB; simp at hB; subst hB
    exact if_neg hr
  | some p =>
    rw [hp] at hB
    simp only [List.mem_map, List.mem_range] at hB
    obtain ⟨i, hi, rfl⟩ := hB
    obtain ⟨d, hc, hd⟩ := hg p hp
    obtain ⟨_, s2, _⟩ := cliqueOrigD_spec hd i hi
    apply if_neg
    rintro ⟨h0, _, hb⟩
    apply hr
    refine ⟨h0, ?_⟩
    obtain ⟨hab, hidx⟩ := index_coord_inv (r - g.start)
    obtain ⟨k, hk, e⟩ := mem_toList_getD _ _ hb
    have hbd : (upperTriangularIndexToCoord (r - g.start)).2 < d := e ▸ s2 k hk
    have := coord_index_lt hab hbd
    rw [hc]
    show r < g.start + triangularNumber d
    have hidx' : coordToUpperTriangularIndex ((upperTriangularIndexToCoord (r - g.start)).1,
        (upperTriangularIndexToCoord (r - g.start)).2) = r - g.start := hidx
    omega

theorem blockSum_eq_zero [AddMonoid α] (bs : List Block) (off : Nat) (x : Nat → α) (r : Nat)
    (h : ∀ B ∈ bs, ∀ off, B.term x off r = 0) : blockSum bs off x r = 0 := by
  induction bs generalizing off with
  | nil => rfl
  | cons B bs ih =>
    have e : blockSum (B :: bs) off x r = B.term x off r + blockSum bs (off + B.ncols) x r := by
      simp [blockSum, blockOffsets]
    rw [e, h B (by simp), ih _ (fun B' hB' => h B' (List.mem_cons_of_mem _ hB')), add_zero]

/-- [F] **a row only sees the blocks of its own cone**: for the group `g` of the walk (the
groups `pre` before it) and a row `r` of `g`'s cone, the sum over all blocks reduces to the
sum over the blocks of `g`, whose first column is the number of columns of `pre` -/
theorem blockSum_group [AddMonoid α] (ci : ChordalInfo) (hci : ci.StdOK)
    (pre post : List ConeGroup) (g : ConeGroup) (hsplit : stdGroups ci = pre ++ g :: post)
    (x : Nat → α) (r : Nat) (hr : g.start ≤ r ∧ r < g.start + g.cone.nvars) :
    blockSum (stdBlocks ci) 0 x r =
      blockSum g.blocks (blocksNcols (pre.flatMap ConeGroup.blocks)) x r := by
  have hok := stdGroups_ok ci hci
  obtain ⟨s1, s2, _, _⟩ := stdGroupsFrom_split ci _ 0 0 0 pre post g hsplit
  unfold stdBlocks
  rw [hsplit, List.flatMap_append, List.flatMap_cons, blockSum_append, blockSum_append,
    Nat.zero_add]
  rw [blockSum_eq_zero (pre.flatMap ConeGroup.blocks), blockSum_eq_zero (post.flatMap ConeGroup.blocks),
    zero_add, add_zero]
  · intro B hB off
    obtain ⟨g', hg', hB⟩ := List.mem_flatMap.1 hB
    have := s2 g' hg'
    exact g'.term_outside (hok g' (by rw [hsplit]; simp [hg'])) B hB off x r (by omega)
  · intro B hB off
    obtain ⟨g', hg', hB⟩ := List.mem_flatMap.1 hB
    have := s1 g' hg'
    exact g'.term_outside (hok g' (by rw [hsplit]; simp [hg'])) B hB off x r (by omega)

/-- first column of the block of clique `i` relative to the first column of its cone:
the sizes `triangularNumber |K_i'|` of the blocks of the cliques before it -/
def cliqueOffset (p : SPattern) (i : Nat) : Nat :=
  ((List.range i).map (fun i' => triangularNumber (cliqueOrigD p i').size)).sum

private theorem blockOffsets_map_range (f : Nat → Block) (n off : Nat) :
    blockOffsets ((List.range n).map f) off = (List.range n).map (fun i =>
      (off + ((List.range i).map (fun i' => (f i').ncols)).sum, f i)) := by
  induction n with
  | zero => rfl
  | succ n ih =>
    rw [List.range_succ, List.map_append, blockOffsets_append, ih, List.map_append]
    simp [blockOffsets, blocksNcols, List.map_map, Function.comp_def]

/-- [F] the cone that is not decomposed: `s[r] = s̃[off + (r - start)]` -/
theorem blockSum_plain_group [AddMonoid α] (g : ConeGroup) (hp : g.pat = none) (off : Nat)
    (x : Nat → α) (r : Nat) (hr : g.start ≤ r ∧ r < g.start + g.cone.nvars) :
    blockSum g.blocks off x r = x (off + (r - g.start)) := by
  unfold ConeGroup.blocks
  rw [hp]
  simp [blockSum, blockOffsets, Block.term, hr]

/-- [F] the decomposed cone: `s = Σ_K E_Kᵀ S_K E_K` — the row of the entry `(a, b)` of the big
triangle is the sum over the cliques `K_i ∋ a, b` (post-order index `i`) of the entry
`(pos a, pos b)` of the `i`-th clique block, which starts at column `off + cliqueOffset p i` -/
theorem blockSum_clique_group [AddMonoid α] (g : ConeGroup) (p : SPattern) (hp : g.pat = some p)
    (off : Nat) (x : Nat → α) (r : Nat) :
    blockSum g.blocks off x r = ((List.range p.sntree.nCliques).map (fun i =>
      (Block.clique g.start (cliqueOrigD p i)).term x (off + cliqueOffset p i) r)).sum := by
  unfold ConeGroup.blocks blockSum
  rw [hp]
  simp only [blockOffsets_map_range, List.map_map, Function.comp_def]
  rfl

end GroupSum

/-! ## 11. the theorems about the model: `H s̃`, the equivalence, and the reversal, by blocks -/

section Model
variable {α : Type}

private theorem filter_sum_eq_selSum [AddMonoid α] (HI : Array Nat) (f : Nat → α) (r : Nat) :
    (((List.range HI.size).filter (fun j => decide (HI.getD j 0 = r))).map f).sum
      = selSum HI.toList 0 f r := by
  rw [selSum_eq_filter, Array.length_toList]
  simp only [Nat.zero_add]
  congr 2
  apply List.filter_congr
  intro q _
  simp [Array.getD_eq_getD_getElem?, List.getD_eq_getElem?_getD]

/-- [F] `hSel` (row `r` of `H y` for a vector given as a function) in block form -/
theorem hSel_eq_blockSum [AddMonoid α] (h : StdH) (bs : List Block)
    (hbl : h.HI.toList = bs.flatMap Block.entries) (hbs : ∀ B ∈ bs, B.Sorted)
    (hlen : h.lenH = h.HI.size) (y : Nat → α) (r : Nat) :
    hSel (fun j => h.HI.getD j 0) h.lenH y r = blockSum bs 0 y r := by
  unfold hSel
  rw [hlen, filter_sum_eq_selSum, hbl, selSum_blocks bs hbs]

/-- [F] **`s = H s̃` of the standard decomposition is the sum of the scattered clique blocks.**
If `find_standard_H_and_cones` succeeds on well-formed patterns then `hGemv` (the product
`H s̃` of `decomp_reverse_standard`) does not panic and row `r` of the result is the sum over
all blocks of `stdBlocks ci` of their terms (`Block.term`). -/
theorem std_gemv_blocks [Semiring α] (ci : ChordalInfo) (h : StdH)
    (hok : ci.findStandardHAndCones = .ok h) (hci : ci.StdOK) (st : Array α)
    (hst : st.size = h.lenH) :
    ∃ s, hGemv h.rows h.HI st = .ok s ∧ s.size = h.rows ∧
      ∀ r, r < h.rows → s.getD r 0 = blockSum (stdBlocks ci) 0 (fun j => st.getD j 0) r := by
  obtain ⟨e1, _, _, e4, _⟩ := find_standard_H_and_cones_spec ci h hok
  exact h_gemv_blocks h.rows h.HI (stdBlocks ci) e1 (stdBlocks_sorted ci hci) st
    (by rw [hst, e4]) (std_HI_lt_rows ci h hok hci)

/-- the entry `(a, b)`, `a ≤ b`, of the scattered clique block, written with coordinates -/
theorem Block.term_clique_coord [Zero α] (start : Nat) (c : Array Nat) (off : Nat)
    (x : Nat → α) (a b : Nat) (hab : a ≤ b) :
    (Block.clique start c).term x off (start + coordToUpperTriangularIndex (a, b)) =
      if a ∈ c.toList ∧ b ∈ c.toList then
        x (off + coordToUpperTriangularIndex (c.toList.idxOf a, c.toList.idxOf b)) else 0 := by
  unfold Block.term
  simp only [Nat.add_sub_cancel_left, coord_index_inv hab, Nat.le_add_right, true_and]

/-- [F] **`s = H s̃`, cone by cone.**  Let `g` be the group of an original cone (`pre` the
groups before it, `off` their number of columns = the first column of `g`).
* `g` not decomposed: `s[r] = s̃[off + (r - start)]` on the rows of the cone.
* `g` decomposed with pattern `p`: the row of the entry `(a, b)`, `a ≤ b < d`, of the cone's
  triangle is `Σ_{i : a, b ∈ K_i} s̃[off + cliqueOffset p i + tri(pos_i a, pos_i b)]`,
  i.e. `s = Σ_K E_Kᵀ S_K E_K`. -/
theorem std_gemv_cone_rows [Semiring α] (ci : ChordalInfo) (h : StdH)
    (hok : ci.findStandardHAndCones = .ok h) (hci : ci.StdOK) (st : Array α)
    (hst : st.size = h.lenH) (pre post : List ConeGroup) (g : ConeGroup)
    (hsplit : stdGroups ci = pre ++ g :: post) :
    ∃ s, hGemv h.rows h.HI st = .ok s ∧ s.size = h.rows ∧
      g.start + g.cone.nvars ≤ h.rows ∧
      (g.pat = none → ∀ r, g.start ≤ r → r < g.start + g.cone.nvars →
        s.getD r 0 = st.getD (blocksNcols (pre.flatMap ConeGroup.blocks) + (r - g.start)) 0) ∧
      (∀ p d, g.pat = some p → g.cone = .psd d → ∀ a b, a ≤ b → b < d →
        s.getD (g.start + coordToUpperTriangularIndex (a, b)) 0 =
          ((List.range p.sntree.nCliques).map (fun i =>
            if a ∈ (cliqueOrigD p i).toList ∧ b ∈ (cliqueOrigD p i).toList then
              st.getD (blocksNcols (pre.flatMap ConeGroup.blocks) + cliqueOffset p i +
                coordToUpperTriangularIndex ((cliqueOrigD p i).toList.idxOf a,
                  (cliqueOrigD p i).toList.idxOf b)) 0
            else 0)).sum) := by
  obtain ⟨s, h1, h2, h3⟩ := std_gemv_blocks ci h hok hci st hst
  obtain ⟨_, _, e3, _, _⟩ := find_standard_H_and_cones_spec ci h hok
  obtain ⟨_, _, _, b2⟩ := stdGroupsFrom_split ci _ 0 0 0 pre post g hsplit
  have hrows : g.start + g.cone.nvars ≤ h.rows := by rw [e3]; omega
  refine ⟨s, h1, h2, hrows, fun hp r hr1 hr2 => ?_, fun p d hp hc a b hab hb => ?_⟩
  · rw [h3 r (by omega), blockSum_group ci hci pre post g hsplit _ r ⟨hr1, hr2⟩,
      blockSum_plain_group g hp _ _ r ⟨hr1, hr2⟩]
  · have hlt := coord_index_lt hab hb
    have hr2 : g.start + coordToUpperTriangularIndex (a, b) < g.start + g.cone.nvars := by
      rw [hc]; show _ < g.start + triangularNumber d; omega
    rw [h3 _ (by omega), blockSum_group ci hci pre post g hsplit _ _ ⟨by omega, hr2⟩,
      blockSum_clique_group g p hp]
    congr 1
    apply List.map_congr_left
    intro i _
    rw [Block.term_clique_coord _ _ _ _ a b hab, Nat.add_assoc]

/-- [F] **the equivalence of the augmented equalities, by blocks**: with `s₀ = 0`,
`[A H; 0 -I](x, y) + (s₀, s̃) = (b, 0)` holds iff `y = s̃` and
`A x + Σ_B (scattered block B of s̃) = b`; `H y` on the left is written in block form too
(`ax` stands for `A x`). -/
theorem standard_equiv_blocks [Ring α] (ci : ChordalInfo) (h : StdH)
    (hok : ci.findStandardHAndCones = .ok h) (hci : ci.StdOK) (st : Array α)
    (ax b y : Nat → α) (hst : st.size = h.lenH) :
    ∃ s, hGemv h.rows h.HI st = .ok s ∧ s.size = h.rows ∧
      (∀ r, r < h.rows → s.getD r 0 = blockSum (stdBlocks ci) 0 (fun j => st.getD j 0) r) ∧
      (((∀ r, r < h.rows → ax r + blockSum (stdBlocks ci) 0 y r + 0 = b r) ∧
          (∀ j, j < h.lenH → - y j + st.getD j 0 = 0)) ↔
       ((∀ j, j < h.lenH → y j = st.getD j 0) ∧
          (∀ r, r < h.rows → ax r + blockSum (stdBlocks ci) 0 (fun j => st.getD j 0) r = b r))) := by
  obtain ⟨e1, _, _, e4, _⟩ := find_standard_H_and_cones_spec ci h hok
  obtain ⟨s, h1, h2, h3⟩ := std_gemv_blocks ci h hok hci st hst
  refine ⟨s, h1, h2, h3, ?_⟩
  have hs := stdBlocks_sorted ci hci
  have := standard_equiv h.rows h.lenH (fun j => h.HI.getD j 0) ax b y (fun j => st.getD j 0)
  simp only [hSel_eq_blockSum h (stdBlocks ci) e1 hs e4] at this
  exact this

private theorem sum_map_one [Semiring α] (l : List Nat) :
    (l.map (fun _ => (1 : α))).sum = (l.length : α) := by
  induction l with
  | nil => simp
  | cons a t _ => simp [add_comm]

/-- [F] **`decomp_reverse_standard` by blocks**: no panic, `s[r]` is the sum of the scattered
blocks of `s̃ = old_s[m..]`, and `z[r]` is the same sum for `z̃` divided by the number `c_r` of
blocks that contain the entry `r` when `c_r > 1` (`c_r` = the block sum of the all-ones
vector). -/
theorem decomp_reverse_standard_blocks [Semiring α] [Div α] [LT α] [DecidableLT α]
    (ci : ChordalInfo) (h : StdH) (hok : ci.findStandardHAndCones = .ok h) (hci : ci.StdOK)
    (oldS oldZ : Array α) (hS : oldS.size = h.rows + h.lenH) (hZ : oldZ.size = h.rows + h.lenH) :
    ∃ s z : Array α, decompReverseStandard h h.rows oldS oldZ = .ok (s, z) ∧
      s.size = h.rows ∧ z.size = h.rows ∧
      ∀ r, r < h.rows →
        s.getD r 0 = blockSum (stdBlocks ci) 0 (fun j => oldS.getD (h.rows + j) 0) r ∧
        z.getD r 0 =
          if (1 : α) < blockSum (stdBlocks ci) 0 (fun _ => (1 : α)) r then
            blockSum (stdBlocks ci) 0 (fun j => oldZ.getD (h.rows + j) 0) r /
              blockSum (stdBlocks ci) 0 (fun _ => (1 : α)) r
          else blockSum (stdBlocks ci) 0 (fun j => oldZ.getD (h.rows + j) 0) r := by
  obtain ⟨e1, _, _, e4, _⟩ := find_standard_H_and_cones_spec ci h hok
  have hs := stdBlocks_sorted ci hci
  obtain ⟨s, z, h1, h2, h3, h4⟩ := decomp_reverse_standard_rows h h.rows oldS oldZ e4.symm
    (std_HI_lt_rows ci h hok hci) rfl hS hZ
  refine ⟨s, z, h1, h2, h3, fun r hr => ?_⟩
  obtain ⟨a1, a2⟩ := h4 r hr
  have conv : ∀ f : Nat → α, (List.range h.HI.size).foldl (fun acc j =>
      if h.HI.getD j 0 = r then acc + 1 * f j else acc) 0 = blockSum (stdBlocks ci) 0 f r := by
    intro f
    rw [foldl_guard_eq_sum (fun j => h.HI.getD j 0 = r), zero_add, filter_sum_eq_selSum, e1,
      selSum_blocks _ hs]
  have convc : (List.range h.HI.size).foldl (fun (acc : α) j =>
      if h.HI.getD j 0 = r then acc + 1 else acc) 0
        = blockSum (stdBlocks ci) 0 (fun _ => (1 : α)) r := by
    rw [foldl_guard_eq_count (fun j => h.HI.getD j 0 = r), zero_add, ← sum_map_one,
      filter_sum_eq_selSum, e1, selSum_blocks _ hs]
  refine ⟨by rw [a1, conv], ?_⟩
  rw [a2]
  simp only [conv, convc]

end Model

/-! ## 12. non-vacuity: the concrete instance satisfies every hypothesis used above -/

private theorem lt_two' {i : Nat} (h : i < 2) : i = 0 ∨ i = 1 := by omega
private theorem lt_three' {i : Nat} (h : i < 3) : i = 0 ∨ i = 1 ∨ i = 2 := by omega

theorem exStdPattern_ok : StdPatternOK exStdPattern 3 where
  ord_size := rfl
  ord_lt := by
    intro v hv
    rcases lt_three' hv with rfl | rfl | rfl <;> decide
  ord_inj := by
    intro u v hu hv
    rcases lt_three' hu with rfl | rfl | rfl <;> rcases lt_three' hv with rfl | rfl | rfl <;> decide
  post_size := by decide
  post_lt := by
    intro i hi
    rcases lt_two' hi with rfl | rfl <;> decide
  sep_size := rfl
  clique_nodup := by
    intro i hi
    rcases lt_two' hi with rfl | rfl <;> decide
  clique_lt := by
    intro i hi
    rcases lt_two' hi with rfl | rfl <;> decide
  nblk := by
    refine ⟨#[2, 2], rfl, rfl, fun i hi => ?_⟩
    rcases lt_two' hi with rfl | rfl <;> rfl

theorem exStdCi_ok : exStdCi.StdOK := by
  intro k p hp
  cases k with
  | zero =>
    have : p = exStdPattern := by
      have : (some exStdPattern : Option SPattern) = some p := hp
      exact (Option.some.inj this).symm
    subst this
    exact ⟨3, rfl, exStdPattern_ok⟩
  | succ k =>
    have : exStdCi.spatterns[k + 1]? = none := by
      apply Array.getElem?_eq_none
      show 1 ≤ k + 1
      omega
    rw [this] at hp
    cases hp

/-- the two groups of the instance: the nonnegative cone (row 0, column 0) and the PSD cone
(rows `1..7`, columns `1..7`, cliques `{0,1}`, `{1,2}`) -/
theorem exStd_groups : stdGroups exStdCi =
    [⟨.nonneg 1, 0, none⟩] ++ ⟨.psd 3, 1, some exStdPattern⟩ :: [] := by rfl

example : (cliqueOrigD exStdPattern 0).size = nblkD exStdPattern.sntree 0 :=
  (cliqueOrigD_spec exStdPattern_ok 0 (by decide)).2.2

example : ∀ g ∈ stdGroups exStdCi, g.OK := stdGroups_ok exStdCi exStdCi_ok

example : ∀ B ∈ stdBlocks exStdCi, B.Sorted := stdBlocks_sorted exStdCi exStdCi_ok

example : ∀ j, j < exStdH.HI.size → exStdH.HI.getD j 0 < exStdH.rows :=
  std_HI_lt_rows exStdCi exStdH exStd_ok exStdCi_ok

/-- `s̃ = (10 | 1 2 3 | 4 5 6)`: the identity block copies `10`, the clique blocks
`[[1,2],[2,3]]` on `{0,1}` and `[[4,5],[5,6]]` on `{1,2}` overlap in the entry `(1,1)` -/
example : hGemv (α := Int) 7 exStdH.HI #[10, 1, 2, 3, 4, 5, 6] = .ok #[10, 1, 2, 7, 0, 5, 6] := by
  rfl

example : ∃ s, hGemv (α := Int) exStdH.rows exStdH.HI #[10, 1, 2, 3, 4, 5, 6] = .ok s ∧
    s.size = exStdH.rows ∧ ∀ r, r < exStdH.rows →
      s.getD r 0 = blockSum (stdBlocks exStdCi) 0
        (fun j => (#[10, 1, 2, 3, 4, 5, 6] : Array Int).getD j 0) r :=
  std_gemv_blocks exStdCi exStdH exStd_ok exStdCi_ok _ rfl

example :=
  std_gemv_cone_rows exStdCi exStdH exStd_ok exStdCi_ok (#[10, 1, 2, 3, 4, 5, 6] : Array Int)
    rfl _ _ ⟨.psd 3, 1, some exStdPattern⟩ exStd_groups

example :=
  standard_equiv_blocks exStdCi exStdH exStd_ok exStdCi_ok (#[10, 1, 2, 3, 4, 5, 6] : Array Int)
    (fun _ => 0) (fun _ => 0) (fun _ => 0) rfl

example :=
  decomp_reverse_standard_blocks exStdCi exStdH exStd_ok exStdCi_ok
    (#[0, 0, 0, 0, 0, 0, 0, 10, 1, 2, 3, 4, 5, 6] : Array Rat)
    (#[0, 0, 0, 0, 0, 0, 0, 10, 2, 4, 6, 8, 10, 12] : Array Rat) rfl rfl

/-! ## 13. the no-panic direction: under `StdOK` `find_standard_H_and_cones` succeeds -/

private theorem getE_ok_of_lt {β : Type} (xs : Array β) (i : Nat) (s : String) (d : β)
    (h : i < xs.size) : getE xs i s = .ok (xs.getD i d) := by
  apply getE_of_some
  simp [Array.getD_eq_getD_getElem?, h]

section Forward
variable {p : SPattern} {d : Nat}

theorem getClique_ok (h : StdPatternOK p d) (i : Nat) (hi : i < p.sntree.nCliques) :
    p.sntree.getClique i = .ok (cliqueVerts p.sntree i) := by
  have h1 : i < p.sntree.snodePost.size := Nat.lt_of_lt_of_le hi h.post_size
  have h2 := h.post_lt i hi
  have h3 : p.sntree.snodePost.getD i 0 < p.sntree.separators.size := by rw [h.sep_size]; exact h2
  unfold SuperNodeTree.getClique SuperNodeTree.getSnode SuperNodeTree.getSeparators
  simp only [getE_ok_of_lt _ _ _ 0 h1, getE_ok_of_lt _ _ _ #[] h2, getE_ok_of_lt _ _ _ #[] h3,
    bind, Except.bind]
  rfl

theorem cliqueOriginal_ok (h : StdPatternOK p d) (i : Nat) (hi : i < p.sntree.nCliques) :
    cliqueOriginal p i = .ok (cliqueOrigD p i) := by
  unfold cliqueOriginal
  rw [getClique_ok h i hi]
  simp only [bind, Except.bind]
  rw [mapM_getE_ok]
  · rfl
  · intro v hv
    rw [cliqueVerts_toList h i hi] at hv
    rw [h.ord_size]
    exact h.clique_lt i hi v hv

theorem getNblk_ok (h : StdPatternOK p d) (i : Nat) (hi : i < p.sntree.nCliques) :
    p.sntree.getNblk i = .ok (nblkD p.sntree i) := by
  obtain ⟨nb, e1, e2, _⟩ := h.nblk
  unfold SuperNodeTree.getNblk nblkD
  rw [e1]
  exact getE_ok_of_lt _ _ _ 0 (by rw [e2]; exact hi)

theorem getOverlap_ok (h : StdPatternOK p d) (i : Nat) (hi : i < p.sntree.nCliques) :
    ∃ ov, p.sntree.getOverlap i = .ok ov := by
  have h1 : i < p.sntree.snodePost.size := Nat.lt_of_lt_of_le hi h.post_size
  have h2 := h.post_lt i hi
  have h3 : p.sntree.snodePost.getD i 0 < p.sntree.separators.size := by rw [h.sep_size]; exact h2
  unfold SuperNodeTree.getOverlap SuperNodeTree.getSeparators
  simp only [getE_ok_of_lt _ _ _ 0 h1, getE_ok_of_lt _ _ _ #[] h3, bind, Except.bind]
  exact ⟨_, rfl⟩

/-- the loop of the tree's `get_decomposed_dim_and_overlaps` over the first `n` cliques -/
private theorem tree_dims_loop (h : StdPatternOK p d) (n : Nat) (hn : n ≤ p.sntree.nCliques)
    (acc : Nat × Nat) :
    ∃ ov, (List.range n).foldlM (fun (acc : Nat × Nat) i => do
        let nb ← p.sntree.getNblk i
        let ov ← p.sntree.getOverlap i
        pure (acc.1 + triangularNumber nb, acc.2 + triangularNumber ov)) acc =
      .ok (acc.1 + ((List.range n).map (fun i => triangularNumber (nblkD p.sntree i))).sum, ov) := by
  induction n with
  | zero => exact ⟨acc.2, rfl⟩
  | succ n ih =>
    obtain ⟨ov, e⟩ := ih (by omega)
    obtain ⟨o, eo⟩ := getOverlap_ok h n (by omega)
    refine ⟨ov + triangularNumber o, ?_⟩
    rw [List.range_succ, List.foldlM_append, e]
    simp only [bind, Except.bind, List.foldlM_cons, List.foldlM_nil, getNblk_ok h n (by omega), eo,
      List.map_append, List.map_cons, List.map_nil, List.sum_append, List.sum_cons, List.sum_nil,
      pure, Except.pure, Nat.add_zero, Nat.add_assoc]

/-- [S] the tree's `get_decomposed_dim_and_overlaps` succeeds; the column count is
`Σ_i triangularNumber nblk[i]` -/
theorem tree_dims_ok (h : StdPatternOK p d) :
    ∃ ov, p.sntree.getDecomposedDimAndOverlaps =
      .ok (((List.range p.sntree.nCliques).map (fun i => triangularNumber (nblkD p.sntree i))).sum, ov) := by
  obtain ⟨ov, e⟩ := tree_dims_loop h p.sntree.nCliques (Nat.le_refl _) (0, 0)
  refine ⟨ov, ?_⟩
  unfold SuperNodeTree.getDecomposedDimAndOverlaps
  rw [e]
  simp

private theorem decompose_loop_ok (h : StdPatternOK p d) (row n : Nat) (hn : n ≤ p.sntree.nCliques)
    (HI : Array Nat) (cn : Array Cone) :
    ∃ res, (List.range n).foldlM (fun (acc : Array Nat × Array Cone) i => do
        let c ← cliqueOriginal p i
        let cdim ← p.sntree.getNblk i
        pure (addSubblockMap acc.1 c row, acc.2.push (.psd cdim))) (HI, cn) = .ok res := by
  induction n with
  | zero => exact ⟨(HI, cn), rfl⟩
  | succ n ih =>
    obtain ⟨res, e⟩ := ih (by omega)
    rw [List.range_succ, List.foldlM_append, e]
    simp only [bind, Except.bind, List.foldlM_cons, List.foldlM_nil, cliqueOriginal_ok h n (by omega),
      getNblk_ok h n (by omega), pure, Except.pure]
    exact ⟨_, rfl⟩

/-- [S] `decompose_with_sparsity_pattern` does not panic on a well-formed pattern -/
theorem decompose_with_sparsity_pattern_ok (h : StdPatternOK p d) (row : Nat) (HI : Array Nat)
    (cn : Array Cone) : ∃ res, decomposeWithSparsityPattern HI cn p row = .ok res :=
  decompose_loop_ok h row p.sntree.nCliques (Nat.le_refl _) HI cn

end Forward

/-- [S] under `StdOK` the number of columns of the blocks of a group is the number of
variables of the cones that replace the cone: the block of clique `i` occupies exactly the
rows of the new cone `psd nblk[i]` in the decomposed problem -/
theorem ConeGroup.ncols_eq_nvars (g : ConeGroup) (hg : g.OK) :
    g.blocks.map Block.ncols = g.newCones.map Cone.nvars := by
  unfold ConeGroup.blocks ConeGroup.newCones
  cases hp : g.pat with
  | none => rfl
  | some p =>
    obtain ⟨d, _, hd⟩ := hg p hp
    simp only [List.map_map]
    apply List.map_congr_left
    intro i hi
    have := (cliqueOrigD_spec hd i (List.mem_range.1 hi)).2.2
    simp [Block.ncols, Cone.nvars, this]

/-- the body of the loop of `ChordalInfo::get_decomposed_dim_and_overlaps` -/
def ddStep (ci : ChordalInfo) (acc : Nat × Nat × Nat) (coneidx : Nat) : MErr (Nat × Nat × Nat) := do
  let (sc, so, k) := acc
  match ci.nextPattern? k coneidx with
  | some p =>
    let (cols, ov) ← p.sntree.getDecomposedDimAndOverlaps
    pure (sc + cols, so + ov, k + 1)
  | none =>
    let cone ← getE ci.initCones coneidx "get_decomposed_dim_and_overlaps"
    pure (sc + cone.nvars, so, k)

theorem getDecomposedDimAndOverlaps_eq (ci : ChordalInfo) :
    ci.getDecomposedDimAndOverlaps = (do
      let (c, o, _) ← (List.range ci.initCones.size).foldlM (ddStep ci) (0, 0, 0)
      pure (c, o)) := by
  rfl

theorem length_flatMap_entries (bs : List Block) :
    (bs.flatMap Block.entries).length = blocksNcols bs := by
  induction bs with
  | nil => rfl
  | cons B bs ih =>
    rw [List.flatMap_cons, List.length_append, ih, Block.length_entries]
    simp [blocksNcols]

private theorem blocksNcols_append (l1 l2 : List Block) :
    blocksNcols (l1 ++ l2) = blocksNcols l1 + blocksNcols l2 := by
  simp [blocksNcols]

private theorem group_ncols_some (g : ConeGroup) (p : SPattern) (d : Nat) (hp : g.pat = some p)
    (hd : StdPatternOK p d) : blocksNcols g.blocks =
      ((List.range p.sntree.nCliques).map (fun i => triangularNumber (nblkD p.sntree i))).sum := by
  unfold ConeGroup.blocks blocksNcols
  rw [hp]
  simp only [List.map_map]
  congr 1
  apply List.map_congr_left
  intro i hi
  have := (cliqueOrigD_spec hd i (List.mem_range.1 hi)).2.2
  simp [Block.ncols, this]

private theorem dd_loop_ok (ci : ChordalInfo) (cones : List Cone) (s : Nat)
    (hdrop : ci.initCones.toList.drop s = cones) (sc so k row : Nat)
    (hok : ∀ g ∈ stdGroupsFrom ci cones s k row, g.OK) :
    ∃ so' k', (List.range' s cones.length).foldlM (ddStep ci) (sc, so, k) =
      .ok (sc + blocksNcols ((stdGroupsFrom ci cones s k row).flatMap ConeGroup.blocks), so', k') := by
  induction cones generalizing s sc so k row with
  | nil => exact ⟨so, k, rfl⟩
  | cons c rest ih =>
    obtain ⟨d1, d2⟩ := drop_cons_inv _ _ _ _ hdrop
    have d1' : ci.initCones[s]? = some c := by rw [← Array.getElem?_toList]; exact d1
    have hg := hok ⟨c, row, ci.nextPattern? k s⟩ (by simp [stdGroupsFrom])
    have hrest : ∀ g ∈ stdGroupsFrom ci rest (s + 1)
        (if (ci.nextPattern? k s).isSome then k + 1 else k) (row + c.nvars), g.OK :=
      fun g hg' => hok g (by simp [stdGroupsFrom, hg'])
    rw [List.length_cons, List.range'_succ, List.foldlM_cons]
    simp only [stdGroupsFrom, List.flatMap_cons, blocksNcols_append]
    cases hp : ci.nextPattern? k s with
    | none =>
      rw [hp] at hrest
      simp only [Option.isSome_none, Bool.false_eq_true, if_false] at hrest
      obtain ⟨so', k', e⟩ := ih (s + 1) d2 (sc + c.nvars) so k (row + c.nvars) hrest
      refine ⟨so', k', ?_⟩
      have estep : ddStep ci (sc, so, k) s = .ok (sc + c.nvars, so, k) := by
        unfold ddStep
        simp only [hp, getE_of_some _ _ _ _ d1', bind, Except.bind]
        rfl
      rw [estep]
      simp only [bind, Except.bind, Option.isSome_none, Bool.false_eq_true, if_false]
      rw [e]
      have : blocksNcols (ConeGroup.blocks ⟨c, row, none⟩) = c.nvars := by
        simp [ConeGroup.blocks, blocksNcols, Block.ncols]
      rw [this, Nat.add_assoc]
    | some p =>
      rw [hp] at hrest hg
      simp only [Option.isSome_some, if_true] at hrest
      obtain ⟨d, _, hd⟩ := hg p rfl
      obtain ⟨ov, et⟩ := tree_dims_ok hd
      obtain ⟨so', k', e⟩ := ih (s + 1) d2
        (sc + ((List.range p.sntree.nCliques).map (fun i => triangularNumber (nblkD p.sntree i))).sum)
        (so + ov) (k + 1) (row + c.nvars) hrest
      refine ⟨so', k', ?_⟩
      have estep : ddStep ci (sc, so, k) s = .ok
          (sc + ((List.range p.sntree.nCliques).map (fun i => triangularNumber (nblkD p.sntree i))).sum,
            so + ov, k + 1) := by
        unfold ddStep
        simp only [hp, et, bind, Except.bind]
        rfl
      rw [estep]
      simp only [bind, Except.bind, Option.isSome_some, if_true]
      rw [e, group_ncols_some ⟨c, row, some p⟩ p d rfl hd, Nat.add_assoc]

/-- [S] one pass of the loop over the cones succeeds on a stored cone with a well-formed group -/
theorem stdStep_ok (ci : ChordalInfo) (HI : Array Nat) (cn : Array Cone) (row k s : Nat)
    (c : Cone) (hc : ci.initCones[s]? = some c)
    (hg : ConeGroup.OK ⟨c, row, ci.nextPattern? k s⟩) :
    ∃ res, stdStep ci (HI, cn, row, k) s = .ok res := by
  unfold stdStep
  simp only [getE_of_some _ _ _ _ hc, bind, Except.bind]
  cases hp : ci.nextPattern? k s with
  | none => exact ⟨_, rfl⟩
  | some p =>
    rw [hp] at hg
    obtain ⟨d, hcd, hd⟩ := hg p rfl
    obtain ⟨res, e⟩ := decompose_with_sparsity_pattern_ok hd row HI cn
    have hcd' : c = Cone.psd d := hcd
    subst hcd'
    simp only [Cone.isPsd, Bool.not_true, Bool.false_eq_true, if_false, e]
    exact ⟨_, rfl⟩

private theorem std_loop_ok (ci : ChordalInfo) (cones : List Cone) (s : Nat)
    (hdrop : ci.initCones.toList.drop s = cones) (HI : Array Nat) (cn : Array Cone)
    (row k : Nat) (hok : ∀ g ∈ stdGroupsFrom ci cones s k row, g.OK) :
    ∃ res, (List.range' s cones.length).foldlM (stdStep ci) (HI, cn, row, k) = .ok res := by
  induction cones generalizing s HI cn row k with
  | nil => exact ⟨_, rfl⟩
  | cons c rest ih =>
    obtain ⟨d1, d2⟩ := drop_cons_inv _ _ _ _ hdrop
    have d1' : ci.initCones[s]? = some c := by rw [← Array.getElem?_toList]; exact d1
    have hg := hok ⟨c, row, ci.nextPattern? k s⟩ (by simp [stdGroupsFrom])
    obtain ⟨mid, hm⟩ := stdStep_ok ci HI cn row k s c d1' hg
    obtain ⟨cone, e0, _, _, e3, e4, _⟩ := stdStep_ok_inv ci HI cn row k s mid hm
    have : cone = c := Option.some.inj (e0.symm.trans d1')
    subst this
    have hrest : ∀ g ∈ stdGroupsFrom ci rest (s + 1) mid.2.2.2 mid.2.2.1, g.OK := by
      rw [e3, e4]
      exact fun g hg' => hok g (by simp [stdGroupsFrom, hg'])
    obtain ⟨res, e⟩ := ih (s + 1) d2 mid.1 mid.2.1 mid.2.2.1 mid.2.2.2 hrest
    refine ⟨res, ?_⟩
    rw [List.length_cons, List.range'_succ, List.foldlM_cons, hm]
    exact e

/-- [S] **no panic**: if every stored pattern points to a PSD cone of the dimension of its
`ordering` and is well formed (`StdOK`), `find_standard_H_and_cones` returns a result — none of
its index accesses, the `assert!(PSDTriangleConeT)` and the length assertion of
`new_from_triplets` (`|HI| = lenH`, i.e. `find_H_col_dimension` agrees with the columns
actually pushed) can fail. -/
theorem find_standard_H_and_cones_ok (ci : ChordalInfo) (hci : ci.StdOK) :
    ∃ h, ci.findStandardHAndCones = .ok h := by
  have hok := stdGroups_ok ci hci
  have hl : List.range ci.initCones.size = List.range' 0 ci.initCones.toList.length := by
    rw [List.range_eq_range', Array.length_toList]
  obtain ⟨so', k', e1⟩ := dd_loop_ok ci ci.initCones.toList 0 (by simp) 0 0 0 0 hok
  obtain ⟨res, e2⟩ := std_loop_ok ci ci.initCones.toList 0 (by simp) #[]
    #[Cone.zero ci.initDims.2] 0 0 hok
  obtain ⟨j1, _, _, _⟩ := std_loop_inv ci ci.initCones.toList 0 (by simp) _ _ _ _ res e2
  have hsz : res.1.size = blocksNcols ((stdGroups ci).flatMap ConeGroup.blocks) := by
    have : res.1.size = res.1.toList.length := by simp
    rw [this, j1, List.length_append, length_flatMap_entries]
    simp [stdGroups]
  rw [findStandardHAndCones_eq, getDecomposedDimAndOverlaps_eq, hl, e1]
  simp only [bind, Except.bind, pure, Except.pure, e2, Nat.zero_add]
  have hne : (res.1.size != blocksNcols ((stdGroupsFrom ci ci.initCones.toList 0 0 0).flatMap
      ConeGroup.blocks)) = false := by
    rw [hsz]; simp [stdGroups]
  simp only [hne, Bool.false_eq_true, if_false]
  exact ⟨_, rfl⟩

example : ∃ h, exStdCi.findStandardHAndCones = .ok h := find_standard_H_and_cones_ok exStdCi exStdCi_ok

/-! ## 14. the number of blocks that contain a row -/

/-- [S] the columns of one well-formed block hit pairwise different rows -/
theorem Block.entries_nodup (B : Block) (hB : B.Sorted) : B.entries.Nodup := by
  cases B with
  | plain s n => exact List.nodup_range' 1
  | clique s c => exact add_subblock_map_injective c s hB

section Count
variable {α : Type}

/-- [F] with the all-ones vector a block contributes `1` to the rows it contains -/
theorem Block.term_one [Semiring α] (B : Block) (hB : B.Sorted) (off r : Nat) :
    B.term (fun _ => (1 : α)) off r = if r ∈ B.entries then 1 else 0 := by
  rw [← selSum_block B hB]
  by_cases h : r ∈ B.entries
  · rw [if_pos h]
    obtain ⟨q, hq, e⟩ := List.mem_iff_getElem.1 h
    exact selSum_nodup _ _ _ _ q (B.entries_nodup hB) (by rw [List.getElem?_eq_getElem hq, e])
  · rw [if_neg h]
    exact selSum_not_mem _ _ _ _ h

/-- [F] the block sum of the all-ones vector (the `row_sums(H)` of `decomp_reverse_standard`)
is the number of blocks that contain the row -/
theorem blockSum_one [Semiring α] (bs : List Block) (hbs : ∀ B ∈ bs, B.Sorted) (off r : Nat) :
    blockSum bs off (fun _ => (1 : α)) r
      = ((bs.filter (fun B => decide (r ∈ B.entries))).length : α) := by
  induction bs generalizing off with
  | nil => simp [blockSum, blockOffsets]
  | cons B bs ih =>
    have e : blockSum (B :: bs) off (fun _ => (1 : α)) r
        = B.term (fun _ => (1 : α)) off r + blockSum bs (off + B.ncols) (fun _ => (1 : α)) r := by
      simp [blockSum, blockOffsets]
    rw [e, ih (fun B' h => hbs B' (List.mem_cons_of_mem _ h)), Block.term_one B (hbs B (by simp)),
      List.filter_cons]
    by_cases h : r ∈ B.entries
    · simp [h, add_comm]
    · simp [h]

end Count

example : blockSum (stdBlocks exStdCi) 0 (fun _ => (1 : Int)) 3
    = (((stdBlocks exStdCi).filter (fun B => decide (3 ∈ B.entries))).length : Int) :=
  blockSum_one _ (stdBlocks_sorted exStdCi exStdCi_ok) 0 3

end Clarabel.Chordal
