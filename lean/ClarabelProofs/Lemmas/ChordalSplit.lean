/-
  `split_cliques` (`ClarabelModel/Chordal/MergeCG.lean`): walking the cliques in post order
  (children before parents), every visited clique `c` gets the separator
  `cl[c] ∩ cl[parent c]` and keeps the supernode `cl[c] \ separator`, where `cl` are the
  clique sets *on entry*; nothing else changes and no index is out of range.
-/
import ClarabelModel.Chordal.MergeCG
import Mathlib.Data.List.Nodup

namespace Clarabel.Chordal

/-! ### reads and writes in `MErr` -/

private theorem getE_eq_ok {β : Type} (xs : Array β) (i : Nat) (s : String) (d : β) (h : i < xs.size) :
    getE xs i s = .ok (xs.getD i d) := by
  unfold getE
  simp [h, Array.getD, pure, Except.pure]

private theorem setE_eq_ok {β : Type} (xs : Array β) (i : Nat) (v : β) (s : String) (h : i < xs.size) :
    setE xs i v s = .ok (xs.setIfInBounds i v) := by
  unfold setE
  simp [h, Array.setIfInBounds, pure, Except.pure]

private theorem getD_setIfInBounds_self {β : Type} (xs : Array β) (i : Nat) (v d : β) (h : i < xs.size) :
    (xs.setIfInBounds i v).getD i d = v := by
  simp [Array.getD_eq_getD_getElem?, h]

private theorem getD_setIfInBounds_ne {β : Type} (xs : Array β) (i j : Nat) (v d : β) (h : i ≠ j) :
    (xs.setIfInBounds i v).getD j d = xs.getD j d := by
  simp [Array.getD_eq_getD_getElem?, h]

/-! ### set-level meaning of `inter` / `diff` -/

/-- [S] `inter` is intersection -/
theorem VSet.mem_inter (a b : VSet) (v : Nat) :
    v ∈ (a.inter b).toList ↔ v ∈ a.toList ∧ v ∈ b.toList := by
  simp [VSet.inter]

/-- [S] `diff` is set difference -/
theorem VSet.mem_diff (a b : VSet) (v : Nat) :
    v ∈ (a.diff b).toList ↔ v ∈ a.toList ∧ v ∉ b.toList := by
  simp [VSet.diff]

/-- [S] `a \ (a ∩ b) = a \ b` as sets -/
theorem VSet.mem_diff_inter (a b : VSet) (v : Nat) :
    v ∈ (a.diff (a.inter b)).toList ↔ v ∈ a.toList ∧ v ∉ b.toList := by
  rw [VSet.mem_diff, VSet.mem_inter]
  constructor
  · rintro ⟨h1, h2⟩; exact ⟨h1, fun h => h2 ⟨h1, h⟩⟩
  · rintro ⟨h1, h2⟩; exact ⟨h1, fun h => h2 h.2⟩

/-! ### the loop invariant -/

/-- state of `split_cliques` after the cliques in `done` have been visited -/
structure SplitInv (cl seps : Array VSet) (parent : Array Nat) (done : List Nat)
    (sn sp : Array VSet) : Prop where
  sn_size : sn.size = cl.size
  sp_size : sp.size = cl.size
  visited : ∀ c, c ∈ done →
    sp.getD c #[] = (cl.getD c #[]).inter (cl.getD (parent.getD c 0) #[]) ∧
    sn.getD c #[] =
      (cl.getD c #[]).diff ((cl.getD c #[]).inter (cl.getD (parent.getD c 0) #[]))
  untouched : ∀ c, c ∉ done → sn.getD c #[] = cl.getD c #[] ∧ sp.getD c #[] = seps.getD c #[]

/-- [S] the loop of `split_cliques` maintains `SplitInv` and does not panic -/
theorem split_fold (cl seps : Array VSet) (parent : Array Nat) :
    ∀ (l done : List Nat) (sn sp : Array VSet),
      SplitInv cl seps parent done sn sp →
      (done ++ l).Nodup →
      (done ++ l).Pairwise (fun a b => parent.getD b 0 ≠ a) →
      (∀ c, c ∈ l → c < cl.size ∧ c < parent.size ∧ parent.getD c 0 < cl.size ∧
        parent.getD c 0 ≠ c) →
      ∃ sn' sp', l.foldlM (splitStep parent) (sn, sp) = .ok (sn', sp') ∧
        SplitInv cl seps parent (done ++ l) sn' sp' := by
  intro l
  induction l with
  | nil =>
    intro done sn sp inv _ _ _
    exact ⟨sn, sp, rfl, by simpa using inv⟩
  | cons c l ih =>
    intro done sn sp inv hnd hpw hc
    obtain ⟨hc1, hc2, hc3, hc4⟩ := hc c (List.mem_cons_self ..)
    have hcd : c ∉ done := by
      intro h
      have := List.nodup_append.1 hnd
      exact this.2.2 c h c (List.mem_cons_self ..) rfl
    have hpd : parent.getD c 0 ∉ done := by
      intro h
      have := (List.pairwise_append.1 hpw).2.2 _ h c (List.mem_cons_self ..)
      exact this rfl
    have hsnc := (inv.untouched c hcd).1
    have hsnp : sn.getD (parent.getD c 0) #[] = cl.getD (parent.getD c 0) #[] := by
      exact (inv.untouched _ hpd).1
    -- one step
    have hstep : splitStep parent (sn, sp) c = .ok
        (sn.setIfInBounds c ((cl.getD c #[]).diff
            ((cl.getD c #[]).inter (cl.getD (parent.getD c 0) #[]))),
         sp.setIfInBounds c ((cl.getD c #[]).inter (cl.getD (parent.getD c 0) #[]))) := by
      unfold splitStep
      simp only [getE_eq_ok parent c _ 0 hc2,
        getE_eq_ok sn c _ #[] (by rw [inv.sn_size]; exact hc1),
        getE_eq_ok sn (parent.getD c 0) _ #[] (by rw [inv.sn_size]; exact hc3),
        setE_eq_ok sp c _ _ (by rw [inv.sp_size]; exact hc1),
        setE_eq_ok sn c _ _ (by rw [inv.sn_size]; exact hc1), hsnc, hsnp,
        bind, Except.bind, pure, Except.pure]
    have inv' : SplitInv cl seps parent (done ++ [c])
        (sn.setIfInBounds c ((cl.getD c #[]).diff
            ((cl.getD c #[]).inter (cl.getD (parent.getD c 0) #[]))))
        (sp.setIfInBounds c ((cl.getD c #[]).inter (cl.getD (parent.getD c 0) #[]))) := by
      refine ⟨by simpa using inv.sn_size, by simpa using inv.sp_size, ?_, ?_⟩
      · intro x hx
        rcases List.mem_append.1 hx with hx | hx
        · have hne : c ≠ x := fun h => hcd (h ▸ hx)
          rw [getD_setIfInBounds_ne _ _ _ _ _ hne, getD_setIfInBounds_ne _ _ _ _ _ hne]
          exact inv.visited x hx
        · have hxc : x = c := by simpa using hx
          subst hxc
          rw [getD_setIfInBounds_self _ _ _ _ (by rw [inv.sp_size]; exact hc1),
            getD_setIfInBounds_self _ _ _ _ (by rw [inv.sn_size]; exact hc1)]
          exact ⟨rfl, rfl⟩
      · intro x hx
        have hx1 : x ∉ done := fun h => hx (List.mem_append_left _ h)
        have hne : c ≠ x := fun h => hx (by simp [h])
        rw [getD_setIfInBounds_ne _ _ _ _ _ hne, getD_setIfInBounds_ne _ _ _ _ _ hne]
        exact inv.untouched x hx1
    have happ : done ++ [c] ++ l = done ++ c :: l := by simp
    obtain ⟨sn', sp', hf, hinv⟩ := ih (done ++ [c]) _ _ inv' (by rw [happ]; exact hnd)
      (by rw [happ]; exact hpw) (fun x hx => hc x (List.mem_cons_of_mem _ hx))
    refine ⟨sn', sp', ?_, by rw [happ] at hinv; exact hinv⟩
    rw [List.foldlM_cons, hstep]
    exact hf

/-- [S] `split_cliques` does not panic and computes, for every visited clique, the
separator `cl[c] ∩ cl[parent c]` and the supernode `cl[c] \ separator` from the clique sets
on entry; everything else is unchanged. -/
theorem split_cliques_spec (cl seps : Array VSet) (parent post : Array Nat) (nc : Nat)
    (hsz : seps.size = cl.size) (hnd : post.toList.Nodup) (hnc : 1 ≤ nc)
    (hpost : nc - 1 ≤ post.size)
    (hpar : ∀ j, j < nc - 1 →
      post.getD j 0 < cl.size ∧ post.getD j 0 < parent.size ∧
      parent.getD (post.getD j 0) 0 < cl.size ∧
      ∀ i, i ≤ j → post.getD i 0 ≠ parent.getD (post.getD j 0) 0) :
    ∃ sn' sp', splitCliques cl seps parent post nc = .ok (sn', sp') ∧
      sn'.size = cl.size ∧ sp'.size = seps.size ∧
      (∀ j, j < nc - 1 →
        let c := post.getD j 0
        let p := parent.getD c 0
        sp'.getD c #[] = (cl.getD c #[]).inter (cl.getD p #[]) ∧
        sn'.getD c #[] = (cl.getD c #[]).diff ((cl.getD c #[]).inter (cl.getD p #[]))) ∧
      (∀ c, (∀ j, j < nc - 1 → post.getD j 0 ≠ c) →
        sn'.getD c #[] = cl.getD c #[] ∧ sp'.getD c #[] = seps.getD c #[]) := by
  have hlen : (post.toList.take (nc - 1)).length = nc - 1 := by
    simp only [List.length_take, Array.length_toList]; omega
  have hget : ∀ j (hj : j < (post.toList.take (nc - 1)).length),
      (post.toList.take (nc - 1))[j] = post.getD j 0 := by
    intro j hj
    rw [hlen] at hj
    have : j < post.size := by omega
    simp [Array.getD, this]
  have hmem : ∀ c, c ∈ post.toList.take (nc - 1) ↔ ∃ j, j < nc - 1 ∧ post.getD j 0 = c := by
    intro c
    rw [List.mem_iff_getElem]
    constructor
    · rintro ⟨j, hj, rfl⟩
      exact ⟨j, by rw [hlen] at hj; exact hj, (hget j hj).symm⟩
    · rintro ⟨j, hj, rfl⟩
      exact ⟨j, by rw [hlen]; exact hj, hget j (by rw [hlen]; exact hj)⟩
  have inv0 : SplitInv cl seps parent [] cl seps :=
    ⟨rfl, hsz, fun c h => by simp at h, fun c _ => ⟨rfl, rfl⟩⟩
  have hnd' : ([] ++ post.toList.take (nc - 1)).Nodup := by
    simpa using (List.take_sublist _ _).nodup hnd
  have hpw : ([] ++ post.toList.take (nc - 1)).Pairwise (fun a b => parent.getD b 0 ≠ a) := by
    simp only [List.nil_append]
    rw [List.pairwise_iff_getElem]
    intro i j hi hj hij
    rw [hget i hi, hget j hj]
    rw [hlen] at hj
    exact fun h => (hpar j hj).2.2.2 i (by omega) h.symm
  have hc : ∀ c, c ∈ post.toList.take (nc - 1) → c < cl.size ∧ c < parent.size ∧
      parent.getD c 0 < cl.size ∧ parent.getD c 0 ≠ c := by
    intro c hcm
    obtain ⟨j, hj, rfl⟩ := (hmem c).1 hcm
    obtain ⟨h1, h2, h3, h4⟩ := hpar j hj
    exact ⟨h1, h2, h3, fun h => h4 j (Nat.le_refl _) h.symm⟩
  obtain ⟨sn', sp', hf, hinv⟩ := split_fold cl seps parent _ [] cl seps inv0 hnd' hpw hc
  refine ⟨sn', sp', ?_, hinv.sn_size, by rw [hinv.sp_size, hsz], ?_, ?_⟩
  · unfold splitCliques
    rw [if_neg (by omega), if_neg (by omega)]
    exact hf
  · intro j hj
    exact hinv.visited _ (by simpa using (hmem _).2 ⟨j, hj, rfl⟩)
  · intro c hcn
    refine hinv.untouched c ?_
    simp only [List.nil_append]
    intro hcm
    obtain ⟨j, hj, h⟩ := (hmem c).1 hcm
    exact hcn j hj h

/-- [S] set-level reading of `split_cliques_spec`: the new separator of a visited clique is
the intersection with the parent clique, the new supernode is the difference. -/
theorem split_cliques_mem (cl seps : Array VSet) (parent post : Array Nat) (nc : Nat)
    (hsz : seps.size = cl.size) (hnd : post.toList.Nodup) (hnc : 1 ≤ nc)
    (hpost : nc - 1 ≤ post.size)
    (hpar : ∀ j, j < nc - 1 →
      post.getD j 0 < cl.size ∧ post.getD j 0 < parent.size ∧
      parent.getD (post.getD j 0) 0 < cl.size ∧
      ∀ i, i ≤ j → post.getD i 0 ≠ parent.getD (post.getD j 0) 0) :
    ∃ sn' sp', splitCliques cl seps parent post nc = .ok (sn', sp') ∧
      ∀ j, j < nc - 1 → ∀ v,
        let c := post.getD j 0
        let p := parent.getD c 0
        (v ∈ (sp'.getD c #[]).toList ↔ v ∈ (cl.getD c #[]).toList ∧ v ∈ (cl.getD p #[]).toList) ∧
        (v ∈ (sn'.getD c #[]).toList ↔ v ∈ (cl.getD c #[]).toList ∧ v ∉ (cl.getD p #[]).toList) := by
  obtain ⟨sn', sp', h, _, _, hv, _⟩ :=
    split_cliques_spec cl seps parent post nc hsz hnd hnc hpost hpar
  refine ⟨sn', sp', h, ?_⟩
  intro j hj v
  obtain ⟨h1, h2⟩ := hv j hj
  refine ⟨?_, ?_⟩
  · rw [h1]; exact VSet.mem_inter _ _ v
  · rw [h2]; exact VSet.mem_diff_inter _ _ v

/-- the hypotheses hold for the path `0 - 1 - 2` rooted at `2`, visited in the order `0, 1, 2` -/
private theorem split_example_hyp : ∀ j, j < 3 - 1 →
    (#[0, 1, 2] : Array Nat).getD j 0 < (#[#[0, 1], #[1, 2], #[2, 3]] : Array VSet).size ∧
    (#[0, 1, 2] : Array Nat).getD j 0 < (#[1, 2, noParent] : Array Nat).size ∧
    (#[1, 2, noParent] : Array Nat).getD ((#[0, 1, 2] : Array Nat).getD j 0) 0 <
      (#[#[0, 1], #[1, 2], #[2, 3]] : Array VSet).size ∧
    ∀ i, i ≤ j → (#[0, 1, 2] : Array Nat).getD i 0 ≠
      (#[1, 2, noParent] : Array Nat).getD ((#[0, 1, 2] : Array Nat).getD j 0) 0 := by
  intro j hj
  have : j = 0 ∨ j = 1 := by omega
  rcases this with rfl | rfl
  · refine ⟨by decide, by decide, by decide, ?_⟩
    intro i hi
    have : i = 0 := by omega
    subst this; decide
  · refine ⟨by decide, by decide, by decide, ?_⟩
    intro i hi
    have : i = 0 ∨ i = 1 := by omega
    rcases this with rfl | rfl <;> decide

/-- non-vacuity of `split_cliques_spec` -/
example : ∃ sn' sp', splitCliques #[#[0, 1], #[1, 2], #[2, 3]] #[#[], #[], #[]]
    #[1, 2, noParent] #[0, 1, 2] 3 = .ok (sn', sp') :=
  let ⟨sn', sp', h, _⟩ := split_cliques_spec #[#[0, 1], #[1, 2], #[2, 3]] #[#[], #[], #[]]
    #[1, 2, noParent] #[0, 1, 2] 3 rfl (by decide) (by decide) (by decide) split_example_hyp
  ⟨sn', sp', h⟩

/-- non-vacuity of `split_cliques_mem` -/
example : ∃ sn' sp', splitCliques #[#[0, 1], #[1, 2], #[2, 3]] #[#[], #[], #[]]
    #[1, 2, noParent] #[0, 1, 2] 3 = .ok (sn', sp') :=
  let ⟨sn', sp', h, _⟩ := split_cliques_mem #[#[0, 1], #[1, 2], #[2, 3]] #[#[], #[], #[]]
    #[1, 2, noParent] #[0, 1, 2] 3 rfl (by decide) (by decide) (by decide) split_example_hyp
  ⟨sn', sp', h⟩

end Clarabel.Chordal
