/-
  C06, round 6 — the dense (Mathlib `Matrix`) reading of the residuals the whole-solver model
  computes at the top of a pass (`Solver.topNumerics`: `Residuals.update`, `Residuals.calcMu`).

  * `Solver.update_fields` [S]: inversion of `Residuals.update` for the two scalar fields C01's
    `updateK_dense` does not state (`rτ`, `dot_sz`);
  * `Solver.update_dense` [F]: on canonical `P` (n×n), `A` (m×n) and sized vectors, what
    `Residuals.update` returns is `rx = −Aᵀz − Px − τq`, `rz = Ax + s − τb`,
    `rτ = qᵀx + bᵀz + κ + xᵀPx/τ`, `dot_sz = sᵀz` in C06's vocabulary (`toFn`, `symMat`, `denseA`);
    composition of C01's `Residuals.update_eq_updateK` and `InfoUser.updateK_dense`;
  * `Solver.passResidUpdate_ok` [F]: under the same hypotheses `Residuals.update` does not panic;
  * `Solver.topNumerics_dense` [F]: the same for `topNumerics S iter`, plus
    `μ = (sᵀz + τκ)/(degree + 1)`.
-/
import ClarabelProofs.Lemmas.StepPassDefs
import ClarabelProofs.Lemmas.StepQuadForm
import ClarabelProofs.Lemmas.InfoArrayDense
import ClarabelProofs.Lemmas.InfoKernelBridge
import ClarabelProofs.Lemmas.SolverModelLoop

namespace Clarabel.Solver
open Clarabel Clarabel.Lemmas Matrix

/-- [S] the two scalar fields of the residual object that `updateK_dense` does not state -/
theorem update_fields (r0 res : Residuals.Resid ℝ) (v : Residuals.Vars ℝ) (d : Residuals.Data ℝ)
    (h : Residuals.update r0 v d = .ok res) :
    res.rτ = res.dot_qx + res.dot_bz + v.κ + res.dot_xPx / v.τ
    ∧ res.dot_qx = Vec.dot d.q v.x ∧ res.dot_bz = Vec.dot d.b v.z
    ∧ res.dot_sz = Vec.dot v.s v.z ∧ res.dot_xPx = Vec.dot v.x res.Px := by
  unfold Residuals.update at h
  obtain ⟨Px, -, h⟩ := bind_ok_inv h
  obtain ⟨rxi, -, h⟩ := bind_ok_inv h
  split at h
  · cases h
  obtain ⟨rzi, -, h⟩ := bind_ok_inv h
  obtain ⟨rx0, -, h⟩ := bind_ok_inv h
  obtain ⟨rx, -, h⟩ := bind_ok_inv h
  obtain ⟨rz, -, h⟩ := bind_ok_inv h
  cases h
  exact ⟨rfl, rfl, rfl, rfl, rfl⟩

/-- [F] under the shape hypotheses of `update_dense`, `Residuals.update` does not panic -/
theorem passResidUpdate_ok (r0 : Residuals.Resid ℝ) (v : Residuals.Vars ℝ) (P A : Csc ℝ)
    (q b : Array ℝ) (n m : ℕ)
    (hP : C16.Canonical P) (hA : C16.Canonical A)
    (hPn : P.n = n) (hPm : P.m = n) (hAn : A.n = n) (hAm : A.m = m)
    (hq : q.size = n) (hb : b.size = m)
    (hx : v.x.size = n) (hs : v.s.size = m) (hz : v.z.size = m)
    (h0Px : r0.Px.size = n) (h0rx : r0.rx.size = n) (h0rz : r0.rz.size = m)
    (h0rxi : r0.rx_inf.size = n) (h0rzi : r0.rz_inf.size = m) :
    ∃ res, Residuals.update r0 v { P := P, q := q, A := A, b := b } = .ok res := by
  obtain ⟨r, hr, -⟩ := InfoUser.updateK_dense r0 v P A q b n m hP hA hPn hPm hAn hAm hq hb hx hs hz
    h0Px h0rx h0rz h0rxi h0rzi
  refine ⟨r, ?_⟩
  rw [Residuals.update_eq_updateK r0 v { P := P, q := q, A := A, b := b } hP hA
    (by show P.m = P.n; rw [hPm, hPn]) (by show v.x.size = P.n; rw [hx, hPn])
    (by show v.x.size = A.n; rw [hx, hAn]) (by show v.z.size = A.m; rw [hz, hAm])
    (by show v.s.size = A.m; rw [hs, hAm]) (by show r0.Px.size = P.n; rw [h0Px, hPn])
    (by show r0.rx_inf.size = A.n; rw [h0rxi, hAn])]
  exact hr

/-- [F] **the dense reading of `DefaultResiduals::update`.**  On canonical `P` (n×n, one
triangle stored; `symMat P n` is `P + Pᵀ − diag P`), `A` (m×n) and vectors/buffers of the
problem's dimensions, the residual object `Residuals.update` returns holds
`rx = −Aᵀz − Px − τq`, `rz = Ax + s − τb`, `rτ = qᵀx + bᵀz + κ + xᵀPx/τ`, `dot_sz = sᵀz`. -/
theorem update_dense (r0 res : Residuals.Resid ℝ) (v : Residuals.Vars ℝ) (P A : Csc ℝ)
    (q b : Array ℝ) (n m : ℕ)
    (hP : C16.Canonical P) (hA : C16.Canonical A)
    (hPn : P.n = n) (hPm : P.m = n) (hAn : A.n = n) (hAm : A.m = m)
    (hq : q.size = n) (hb : b.size = m)
    (hx : v.x.size = n) (hs : v.s.size = m) (hz : v.z.size = m)
    (h0Px : r0.Px.size = n) (h0rx : r0.rx.size = n) (h0rz : r0.rz.size = m)
    (h0rxi : r0.rx_inf.size = n) (h0rzi : r0.rz_inf.size = m)
    (h : Residuals.update r0 v { P := P, q := q, A := A, b := b } = .ok res) :
    res.rx.size = n ∧ res.rz.size = m
    ∧ toFn res.rx n = -((denseA A m n)ᵀ *ᵥ toFn v.z m) - KktSystem.symMat P n *ᵥ toFn v.x n
        - v.τ • toFn q n
    ∧ toFn res.rz m = denseA A m n *ᵥ toFn v.x n + toFn v.s m - v.τ • toFn b m
    ∧ res.rτ = toFn q n ⬝ᵥ toFn v.x n + toFn b m ⬝ᵥ toFn v.z m + v.κ
        + (toFn v.x n ⬝ᵥ KktSystem.symMat P n *ᵥ toFn v.x n) / v.τ
    ∧ res.dot_sz = toFn v.s m ⬝ᵥ toFn v.z m := by
  obtain ⟨r, hr, a1, a2, -, -, a5, b1, b2, -, -, b5, b6, b7, b8⟩ :=
    InfoUser.updateK_dense r0 v P A q b n m hP hA hPn hPm hAn hAm hq hb hx hs hz
      h0Px h0rx h0rz h0rxi h0rzi
  have hbridge := Residuals.update_eq_updateK r0 v { P := P, q := q, A := A, b := b } hP hA
    (by show P.m = P.n; rw [hPm, hPn]) (by show v.x.size = P.n; rw [hx, hPn])
    (by show v.x.size = A.n; rw [hx, hAn]) (by show v.z.size = A.m; rw [hz, hAm])
    (by show v.s.size = A.m; rw [hs, hAm]) (by show r0.Px.size = P.n; rw [h0Px, hPn])
    (by show r0.rx_inf.size = A.n; rw [h0rxi, hAn])
  have hres : res = r := by
    rw [hbridge, hr] at h
    exact (Except.ok.inj h).symm
  obtain ⟨f1, f2, f3, f4, -⟩ := update_fields r0 res v _ h
  subst hres
  refine ⟨a1, a2, ?_, ?_, ?_, ?_⟩
  · funext j
    have e := congrFun b1 j
    simp only [Pi.sub_apply, Pi.neg_apply, Pi.smul_apply, smul_eq_mul, Matrix.mulVec, dotProduct,
      Matrix.transpose_apply]
    show res.rx.getD j 0 = _
    have e' : res.rx.getD j 0
        = -(∑ i : Fin m, A.toDense i j * v.z.getD i 0)
          + (-(∑ k : Fin n, KktSystem.symMat P n j k * v.x.getD k 0) - v.τ * q.getD j 0) := e
    rw [e']
    simp only [denseA, toFn]
    ring
  · funext i
    have e : res.rz.getD i 0
        = ((∑ k : Fin n, A.toDense i k * v.x.getD k 0) + v.s.getD i 0) - v.τ * b.getD i 0 :=
      congrFun b2 i
    simp only [Pi.sub_apply, Pi.add_apply, Pi.smul_apply, smul_eq_mul, Matrix.mulVec, dotProduct]
    show res.rz.getD i 0 = _
    rw [e]
    simp only [denseA, toFn]
  · have e6 : res.dot_qx = ∑ j : Fin n, q.getD j 0 * v.x.getD j 0 := b6
    have e7 : res.dot_bz = ∑ i : Fin m, b.getD i 0 * v.z.getD i 0 := b7
    have e8 : res.dot_xPx
        = ∑ j : Fin n, v.x.getD j 0 * ∑ k : Fin n, KktSystem.symMat P n j k * v.x.getD k 0 := b8
    rw [f1, e6, e7, e8]
    simp only [Matrix.mulVec, dotProduct, toFn]
  · rw [f4]
    exact dot_toFn v.s v.z hs hz

/-- [F] **the dense reading of the top of a pass** (`Solver.topNumerics`): the residual object
it returns holds the dense residuals of `S.data` at `S.variables`, and
`μ = (sᵀz + τκ)/(degree + 1)`. -/
theorem topNumerics_dense (S : SolverSt ℝ) (iter n m : ℕ)
    (res : Residuals.Resid ℝ) (mu : ℝ) (info1 : Info.InfoS ℝ)
    (hP : C16.Canonical S.data.P) (hA : C16.Canonical S.data.A)
    (hPn : S.data.P.n = n) (hPm : S.data.P.m = n) (hAn : S.data.A.n = n) (hAm : S.data.A.m = m)
    (hq : S.data.q.size = n) (hb : S.data.b.size = m)
    (hx : S.variables.x.size = n) (hs : S.variables.s.size = m) (hz : S.variables.z.size = m)
    (h0Px : S.residuals.Px.size = n) (h0rx : S.residuals.rx.size = n)
    (h0rz : S.residuals.rz.size = m)
    (h0rxi : S.residuals.rx_inf.size = n) (h0rzi : S.residuals.rz_inf.size = m)
    (h : topNumerics S iter = .ok (res, mu, info1)) :
    Residuals.update S.residuals S.variables
        { P := S.data.P, q := S.data.q, A := S.data.A, b := S.data.b } = .ok res
    ∧ res.rx.size = n ∧ res.rz.size = m
    ∧ toFn res.rx n = -((denseA S.data.A m n)ᵀ *ᵥ toFn S.variables.z m)
        - KktSystem.symMat S.data.P n *ᵥ toFn S.variables.x n - S.variables.τ • toFn S.data.q n
    ∧ toFn res.rz m = denseA S.data.A m n *ᵥ toFn S.variables.x n + toFn S.variables.s m
        - S.variables.τ • toFn S.data.b m
    ∧ res.rτ = toFn S.data.q n ⬝ᵥ toFn S.variables.x n + toFn S.data.b m ⬝ᵥ toFn S.variables.z m
        + S.variables.κ
        + (toFn S.variables.x n ⬝ᵥ KktSystem.symMat S.data.P n *ᵥ toFn S.variables.x n)
          / S.variables.τ
    ∧ res.dot_sz = toFn S.variables.s m ⬝ᵥ toFn S.variables.z m
    ∧ mu = (toFn S.variables.s m ⬝ᵥ toFn S.variables.z m + S.variables.τ * S.variables.κ)
        / ((degreeAll S.cones : ℝ) + 1) := by
  unfold topNumerics at h
  obtain ⟨r, hr, h⟩ := bind_ok_inv h
  obtain ⟨nq, -, h⟩ := bind_ok_inv h
  obtain ⟨nb, -, h⟩ := bind_ok_inv h
  obtain ⟨i1, -, h⟩ := bind_ok_inv h
  have hp := Except.ok.inj h
  have hres : r = res := congrArg Prod.fst hp
  have hmu : Residuals.calcMu r S.variables (degreeAll S.cones) = mu :=
    congrArg (fun p => p.2.1) hp
  subst hres
  obtain ⟨c1, c2, c3, c4, c5, c6⟩ := update_dense S.residuals r S.variables S.data.P S.data.A
    S.data.q S.data.b n m hP hA hPn hPm hAn hAm hq hb hx hs hz h0Px h0rx h0rz h0rxi h0rzi hr
  refine ⟨hr, c1, c2, c3, c4, c5, c6, ?_⟩
  rw [← hmu, ← c6]
  unfold Residuals.calcMu
  show _ = (r.dot_sz + S.variables.τ * S.variables.κ) / ((degreeAll S.cones : ℝ) + 1)
  congr 1
  exact Nat.cast_succ _

/-! ### non-vacuity -/

/-- the `1 × 1` matrix `[2]` -/
def rsExM : Csc ℝ := ⟨1, 1, #[0, 1], #[0], #[2]⟩

theorem rsExM_canonical : C16.Canonical rsExM := C16.check_format_canonical rsExM (by rfl)

/-- variables `x = [1]`, `s = [1]`, `z = [1]`, `τ = 1`, `κ = 1` -/
def rsExV : Residuals.Vars ℝ := ⟨#[1], #[1], #[1], 1, 1⟩
/-- residual buffers of a `1 × 1` problem -/
def rsExR : Residuals.Resid ℝ := ⟨#[0], #[0], 0, #[0], #[0], 0, 0, 0, 0, #[0]⟩

/-- the hypotheses of `update_dense` are satisfiable (`P = A = [2]`, `q = b = [3]`, `n = m = 1`):
`Residuals.update` returns a residual object, and it holds the dense residuals -/
example : ∃ res, Residuals.update rsExR rsExV { P := rsExM, q := #[3], A := rsExM, b := #[3] } = .ok res
    ∧ res.rx.size = 1 ∧ res.rz.size = 1
    ∧ toFn res.rx 1 = -((denseA rsExM 1 1)ᵀ *ᵥ toFn rsExV.z 1)
        - KktSystem.symMat rsExM 1 *ᵥ toFn rsExV.x 1 - rsExV.τ • toFn #[3] 1
    ∧ res.dot_sz = toFn rsExV.s 1 ⬝ᵥ toFn rsExV.z 1 := by
  obtain ⟨res, h⟩ := passResidUpdate_ok rsExR rsExV rsExM rsExM #[3] #[3] 1 1 rsExM_canonical rsExM_canonical
    rfl rfl rfl rfl rfl rfl rfl rfl rfl rfl rfl rfl rfl rfl
  obtain ⟨c1, c2, c3, -, -, c6⟩ := update_dense rsExR res rsExV rsExM rsExM #[3] #[3] 1 1
    rsExM_canonical rsExM_canonical rfl rfl rfl rfl rfl rfl rfl rfl rfl rfl rfl rfl rfl rfl h
  exact ⟨res, h, c1, c2, c3, c6⟩

end Clarabel.Solver
