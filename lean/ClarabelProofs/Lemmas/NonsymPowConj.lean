/-
  Power cone (C14): conjugacy of `gradient_primal` given an exact root of the Newton–Raphson
  target `f0`.
-/
import ClarabelProofs.Lemmas.NonsymPow

namespace Clarabel.Pow
open Clarabel Nonsym

/-- `f0(x) = 0` says `phi*(z₀,z₁) = x² + 2x/s₃` at `z = -g`. -/
theorem conj_phi {a s0 s1 s3 x : ℝ} (ha0 : 0 < a) (ha1 : a < 1) (h0 : 0 < s0) (h1 : 0 < s1)
    (h3 : 0 < s3) (hx : 0 < x)
    (hf : nrF0 s3 (powf s0 (2 * a) * powf s1 (2 - a * 2)) a x = 0) :
    phiDual a ((a * (x * s3) + 1 + a) / s0) (((1 - a) * (x * s3) + 2 - a) / s1) = x * x + x * 2 / s3 := by
  have h1a : 0 < 1 - a := by linarith
  have hy : 0 < x * s3 := mul_pos hx h3
  have hA : 0 < a * (x * s3) + 1 + a := by positivity
  have hB : 0 < (1 - a) * (x * s3) + 2 - a := by nlinarith
  have ht2 : 0 < x * 2 / s3 := by positivity
  have ht1 : 0 < x * x := by positivity
  have n3 : s3 ≠ 0 := ne_of_gt h3
  have E1 : 2 * a * (x * x) + (1 + a) * (x * 2 / s3) = (x * 2 / s3) * (a * (x * s3) + 1 + a) := by
    field_simp; ring
  have E2 : 2 * (1 - a) * (x * x) + (2 - a) * (x * 2 / s3) = (x * 2 / s3) * ((1 - a) * (x * s3) + 2 - a) := by
    field_simp; ring
  have hp0 : 0 < s0 ^ (2 * a) := Real.rpow_pos_of_pos h0 _
  have hp1 : 0 < s1 ^ (2 - a * 2) := Real.rpow_pos_of_pos h1 _
  unfold nrF0 nrT0 at hf
  simp only [real_powf_eq] at hf
  rw [E1, E2, logsafe_of_pos (mul_pos ht2 hA), logsafe_of_pos (mul_pos ht2 hB),
    logsafe_of_pos (mul_pos hp0 hp1), logsafe_of_pos (add_pos ht1 ht2), logsafe_of_pos ht2,
    logsafe_of_pos ha0, logsafe_of_pos h1a,
    Real.log_mul (ne_of_gt ht2) (ne_of_gt hA), Real.log_mul (ne_of_gt ht2) (ne_of_gt hB),
    Real.log_mul (ne_of_gt hp0) (ne_of_gt hp1), Real.log_rpow h0, Real.log_rpow h1] at hf
  have pz0 : 0 < (a * (x * s3) + 1 + a) / s0 / a := by positivity
  have pz1 : 0 < ((1 - a) * (x * s3) + 2 - a) / s1 / (1 - a) := by positivity
  have hlog : Real.log (x * x + x * 2 / s3) =
      2 * a * Real.log ((a * (x * s3) + 1 + a) / s0 / a)
        + 2 * (1 - a) * Real.log (((1 - a) * (x * s3) + 2 - a) / s1 / (1 - a)) := by
    rw [Real.log_div (ne_of_gt (div_pos hA h0)) (ne_of_gt ha0), Real.log_div (ne_of_gt hA) (ne_of_gt h0),
      Real.log_div (ne_of_gt (div_pos hB h1)) (ne_of_gt h1a), Real.log_div (ne_of_gt hB) (ne_of_gt h1)]
    linarith
  rw [phiDual_eq_sq ha0 ha1 (div_pos hA h0) (div_pos hB h1), ← exp_two_geo pz0 pz1, ← hlog,
    Real.exp_log (add_pos ht1 ht2)]

/-- conjugacy at an exact root: `z = -g(s)` lies in the interior of the dual cone (model
coordinates) and `∇f*(z) = -s`. -/
theorem conj_main {a s0 s1 s2 x : ℝ} (ha0 : 0 < a) (ha1 : a < 1) (h0 : 0 < s0) (h1 : 0 < s1)
    (h2 : s2 ≠ 0) (hx : 0 < x)
    (hf : nrF0 |s2| (powf s0 (2 * a) * powf s1 (2 - a * 2)) a x = 0) :
    let g := gradientPrimalOf a x s0 s1 s2
    DualInt a (-g.1) (-g.2.1) (-g.2.2) ∧ gradDual a (-g.1, -g.2.1, -g.2.2) = (-s0, -s1, -s2) := by
  have h3 : 0 < |s2| := abs_pos.mpr h2
  have hφ := conj_phi ha0 ha1 h0 h1 h3 hx hf
  have h1a : 0 < 1 - a := by linarith
  have hy : 0 < x * |s2| := mul_pos hx h3
  have hA : 0 < a * (x * |s2|) + 1 + a := by positivity
  have hB : 0 < (1 - a) * (x * |s2|) + 2 - a := by nlinarith
  have n0 : s0 ≠ 0 := ne_of_gt h0
  have n1 : s1 ≠ 0 := ne_of_gt h1
  have nx : x ≠ 0 := ne_of_gt hx
  -- the sign of g₂ follows s₂
  obtain ⟨g2, hg2, hgs, hgg⟩ : ∃ g2 : ℝ, (if s2 < 0 then -x else x) = g2 ∧ g2 * s2 = x * |s2| ∧ g2 * |s2| = x * s2 := by
    by_cases hneg : s2 < 0
    · exact ⟨-x, by simp [hneg], by rw [abs_of_neg hneg]; ring, by rw [abs_of_neg hneg]; ring⟩
    · have hpos : 0 < s2 := lt_of_le_of_ne (not_lt.mp hneg) (Ne.symm h2)
      exact ⟨x, by simp [hneg], by rw [abs_of_pos hpos], by rw [abs_of_pos hpos]⟩
  have hsq : g2 * g2 = x * x := by
    have : (g2 * |s2|) * (g2 * s2) = (x * s2) * (x * |s2|) := by rw [hgs, hgg]
    have hne : |s2| * s2 ≠ 0 := mul_ne_zero (ne_of_gt h3) h2
    have : (g2 * g2) * (|s2| * s2) = (x * x) * (|s2| * s2) := by linear_combination this
    exact mul_right_cancel₀ hne this
  simp only [gradientPrimalOf, hg2]
  have ez0 : -(-(a * g2 * s2 + 1 + a) / s0) = (a * (x * |s2|) + 1 + a) / s0 := by
    rw [mul_assoc, hgs]; ring
  have ez1 : -(-((1 - a) * g2 * s2 + 2 - a) / s1) = ((1 - a) * (x * |s2|) + 2 - a) / s1 := by
    rw [mul_assoc, hgs]; ring
  rw [ez0, ez1]
  have hψ : psiDual a ((a * (x * |s2|) + 1 + a) / s0) (((1 - a) * (x * |s2|) + 2 - a) / s1) (-g2)
      = x * 2 / |s2| := by
    unfold psiDual; rw [hφ]; linear_combination -hsq
  have ht2 : 0 < x * 2 / |s2| := by positivity
  refine ⟨⟨ha0, ha1, div_pos hA h0, div_pos hB h1, by rw [hψ]; exact ht2⟩, ?_⟩
  simp only [gradDual, grad0, grad1, grad2, hψ, hφ, Prod.mk.injEq]
  have n3 : |s2| ≠ 0 := ne_of_gt h3
  have nA : a * (x * |s2|) + 1 + a ≠ 0 := ne_of_gt hA
  have nB : (1 - a) * (x * |s2|) + 2 - a ≠ 0 := ne_of_gt hB
  refine ⟨?_, ?_, ?_⟩
  · field_simp; ring
  · have nB' : (1 - a) * x * |s2| + 2 - a ≠ 0 := by rw [mul_assoc]; exact nB
    field_simp
    ring
  · field_simp
    rw [hgg]

end Clarabel.Pow
