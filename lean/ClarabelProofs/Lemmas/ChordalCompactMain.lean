/-
  `find_compact_A_b_and_cones` : the main theorem about the triplet form of the result.
-/
import ClarabelProofs.Lemmas.ChordalCompactInfo

namespace Clarabel.Chordal
variable {α : Type}

/-- `SparseVector::new(b).nzind` -/
def bIndOf [BEq α] [OfNat α 0] (b : Array α) : Array Nat :=
  ((List.range b.size).filter (fun i => !(b.getD i 0 == 0))).toArray

theorem strictOn_toArray (l : List Nat) (h : l.Pairwise (· < ·)) : StrictOn l.toArray 0 l.toArray.size := by
  intro a b _ hab hb
  simp only [List.size_toArray] at hb
  have := getD_strict_of_sorted h hab hb
  simpa [Array.getD, List.getD_eq_getElem?_getD, hb, show a < l.length by omega] using this

theorem bIndOf_strict [BEq α] [OfNat α 0] (b : Array α) : StrictOn (bIndOf b) 0 (bIndOf b).size :=
  strictOn_toArray _ ((List.pairwise_lt_range).sublist List.filter_sublist)

theorem pairs_length {β : Type} (n : Nat) (f : Nat → List β) (h : ∀ o, (f o).length = 2) :
    ((List.range n).flatMap f).length = 2 * n := by
  induction n with
  | zero => rfl
  | succ n ih =>
    rw [List.range_succ, List.flatMap_append, List.length_append, ih]
    simp only [List.flatMap_cons, List.flatMap_nil, List.append_nil, h]
    omega

/-- number of entries written by `findnz` : one per stored entry -/
theorem findnzJ_length (A : Csc α) (hA : CscWF A) :
    ((List.range A.n).flatMap (fun c =>
      List.replicate (A.colptr.getD (c + 1) 0 - A.colptr.getD c 0) c)).length = A.colptr.getD A.n 0 := by
  have : ∀ m, m ≤ A.n → ((List.range m).flatMap (fun c =>
      List.replicate (A.colptr.getD (c + 1) 0 - A.colptr.getD c 0) c)).length = A.colptr.getD m 0 := by
    intro m
    induction m with
    | zero => intro _; simp [hA.cp_zero]
    | succ m ih =>
      intro hm
      rw [List.range_succ, List.flatMap_append, List.length_append, ih (by omega)]
      have := hA.cp_mono m (by omega)
      simp only [List.flatMap_cons, List.flatMap_nil, List.append_nil, List.length_replicate]
      omega
  exact this A.n (Nat.le_refl _)

/-- the triplet form of the compact problem on valid input: no panic; the row index of every
original entry of `A` and of `b` is its `NewRow`, the overlap slots hold their `OvTarget`
rows, nothing is left at the `usize::MAX` sentinel; the new cone list and `cone_maps` -/
theorem findCompactTriplets_spec [Neg α] [OfNat α 0] [OfNat α 1] [BEq α] (ci : ChordalInfo) (A : Csc α)
    (b : Array α) (H : CompactHyp ci A (bIndOf b)) (hnz : A.colptr.getD A.n 0 ≤ A.nzval.size)
    (hpos : A.colptr.getD A.n 0 + 2 * ci.ovBefore ci.initCones.size ≠ 0) :
    ∃ tr, findCompactTriplets ci A b = .ok tr ∧
      tr.dim = ci.newStart ci.initCones.size ∧ tr.nOverlaps = ci.ovBefore ci.initCones.size ∧
      tr.AaI.size = A.colptr.getD A.n 0 + 2 * tr.nOverlaps ∧
      tr.AaJ = ((List.range A.n).flatMap (fun c =>
          List.replicate (A.colptr.getD (c + 1) 0 - A.colptr.getD c 0) c)).toArray ++
        ((List.range tr.nOverlaps).flatMap (fun o => [A.n + o, A.n + o])).toArray ∧
      tr.AaV = (A.nzval.extract 0 (A.colptr.getD A.n 0)) ++
        ((List.range tr.nOverlaps).flatMap (fun _ => [(1 : α), -1])).toArray ∧
      tr.bInd = bIndOf b ∧ tr.bVal = (bIndOf b).toList.map (fun i => b.getD i 0) ∧
      tr.baI.size = (bIndOf b).size ∧
      (∀ slot, slot < A.colptr.getD A.n 0 → NewRow ci (A.rowval.getD slot 0) (tr.AaI.getD slot 0)) ∧
      (∀ y, A.colptr.getD A.n 0 ≤ y → y < A.colptr.getD A.n 0 + 2 * tr.nOverlaps →
        OvTarget ci (A.colptr.getD A.n 0) y (tr.AaI.getD y 0)) ∧
      (∀ slot, slot < (bIndOf b).size → NewRow ci ((bIndOf b).getD slot 0) (tr.baI.getD slot 0)) ∧
      tr.conesNew.toList = (List.range ci.initCones.size).flatMap ci.conesOf ∧
      tr.coneMaps.toList = (List.range ci.initCones.size).flatMap ci.mapsOf := by
  have hJ := findnzJ_length A H.wf
  obtain ⟨⟨st, k⟩, hfold, hI⟩ := foldlM_inv (compactConeStep ci A (bIndOf b) (coneStarts ci.initCones))
    (List.range ci.initCones.size)
    (fun c s => c ≤ ci.initCones.size → ConeInv ci A (bIndOf b)
      (Array.replicate (A.colptr.getD A.n 0 + 2 * ci.ovBefore ci.initCones.size) usizeMax)
      (Array.replicate (bIndOf b).size usizeMax) c s.1 s.2)
    ({ AaI := Array.replicate (A.colptr.getD A.n 0 + 2 * ci.ovBefore ci.initCones.size) usizeMax,
       baI := Array.replicate (bIndOf b).size usizeMax, conesNew := #[], coneMaps := #[], rowPtr := 0,
       overlapPtr := A.colptr.getD A.n 0 }, 0)
    (fun _ => { hk := rfl, hrow := rfl, hop := rfl, hcones := rfl, hmaps := rfl, hlast := rfl,
                updA := Upd.refl _ _, updB := Upd.refl _ _,
                hitA := fun _ _ c' h => by omega, hitB := fun _ _ c' h => by omega,
                hitO := fun y h1 h2 => by
                  have : ci.ovBefore 0 = 0 := rfl
                  omega })
    (by
      intro c hc s hs
      simp only [List.length_range] at hc
      obtain ⟨st, k⟩ := s
      simp only [List.getElem_range]
      obtain ⟨st', k', h1, h2⟩ := compactConeStep_spec ci A (bIndOf b) H _ _ (by simp) (by simp) c hc st k
        (hs (by omega))
      exact ⟨(st', k'), h1, fun _ => h2⟩)
  simp only [List.length_range] at hI
  have I := hI (Nat.le_refl _)
  refine ⟨{ dim := ci.newStart ci.initCones.size, nOverlaps := ci.ovBefore ci.initCones.size,
            AaI := st.AaI,
            AaJ := ((List.range A.n).flatMap (fun c =>
                List.replicate (A.colptr.getD (c + 1) 0 - A.colptr.getD c 0) c)).toArray ++
              ((List.range (ci.ovBefore ci.initCones.size)).flatMap (fun o => [A.n + o, A.n + o])).toArray,
            AaV := (A.nzval.extract 0 (A.colptr.getD A.n 0)) ++
              ((List.range (ci.ovBefore ci.initCones.size)).flatMap (fun _ => [(1 : α), -1])).toArray,
            bInd := bIndOf b, bVal := (bIndOf b).toList.map (fun i => b.getD i 0), baI := st.baI,
            conesNew := st.conesNew, coneMaps := st.coneMaps }, ?_, rfl, rfl, ?_, rfl, rfl, rfl, rfl, ?_, ?_, ?_,
          ?_, I.hcones, I.hmaps⟩
  · unfold findCompactTriplets
    rw [info_getDecomposedDimAndOverlaps ci H.valid]
    simp only [bind, Except.bind]
    rw [if_neg hpos]
    have hsz1 : (((List.range A.n).flatMap (fun c =>
          List.replicate (A.colptr.getD (c + 1) 0 - A.colptr.getD c 0) c)).toArray ++
        ((List.range (ci.ovBefore ci.initCones.size)).flatMap (fun o => [A.n + o, A.n + o])).toArray).size =
        A.colptr.getD A.n 0 + 2 * ci.ovBefore ci.initCones.size := by
      rw [Array.size_append, List.size_toArray, List.size_toArray, hJ, pairs_length _ _ (fun _ => rfl)]
    have hsz2 : ((A.nzval.extract 0 (A.colptr.getD A.n 0)) ++
        ((List.range (ci.ovBefore ci.initCones.size)).flatMap (fun _ => [(1 : α), -1])).toArray).size =
        A.colptr.getD A.n 0 + 2 * ci.ovBefore ci.initCones.size := by
      have e1 : ((List.range (ci.ovBefore ci.initCones.size)).flatMap
          (fun _ => [(1 : α), -1])).toArray.size = 2 * ci.ovBefore ci.initCones.size := by
        rw [List.size_toArray]; exact pairs_length _ _ (fun _ => rfl)
      rw [Array.size_append, e1, Array.size_extract]
      omega
    rw [if_neg (by rw [hsz1, hsz2]; simp)]
    have hfold' := hfold
    unfold bIndOf at hfold'
    rw [hfold']
    simp only [pure, Except.pure]
    congr 1
  · show st.AaI.size = _
    rw [I.updA.1]; simp
  · show st.baI.size = _
    rw [I.updB.1]; simp
  · intro slot hs
    obtain ⟨c', hc', h1, h2⟩ := H.rowsA slot hs
    rcases I.hitA slot hs c' hc' h1 h2 with h | h
    · exact h.2
    · omega
  · intro y h1 h2
    rcases I.hitO y h1 h2 with h | h
    · omega
    · exact h.2
  · intro slot hs
    obtain ⟨c', hc', h1, h2⟩ := H.rowsB slot hs
    exact I.hitB slot hs c' hc' h1 h2

end Clarabel.Chordal
