/-
  The END-TO-END theorems of the whole-solver model WITH NONSYMMETRIC CONES when PRESOLVE DROPS
  ROWS (lemma form).  Counterpart of `Lemmas/SolverFullPresolved.lean` (report) and
  `Lemmas/SolverFullPresolvedCert.lean` (verdicts).

  Pieces composed:
  * `presolve_transparent_model_fullN` (`Lemmas/SolverNSPresolveTransparentFull.lean`): the
    presolve-on solver `S` and the solver `S'` built with presolve OFF from the hand-reduced problem
    run the same trajectory; the two solutions are related by `SolveRelN.explicit`;
  * `full_report_chainN`, `full_solved_chainN`, `full_almost_solved_chainN`,
    `full_{primal,dual}_infeasible_chainN` (`Lemmas/SolverNSFullCompose.lean`) applied to the
    hand-reduced solver with the interior invariant (`InteriorN`) and the zero rows (`ZeroSN`);
  * SHARED with the first model (imported, not redone) because they are about `keepFlags`,
    `reverse_presolve`, the dense reading of the data: `Solver.presolved_numbers`,
    `Solver.report_presolved_of_facts`, `Solver.compositeMem_of_facts`, `Solver.select_capB`,
    `Presolve.collapse_handReduceCones`.
-/
import ClarabelProofs.Lemmas.SolverFullPresolvedCert
import ClarabelProofs.Lemmas.SolverNSPresolveTransparentFull
import ClarabelProofs.Lemmas.SolverNSFullCompose
import ClarabelProofs.Lemmas.SolverNSFullZero
import ClarabelProofs.Lemmas.SolverNSBridgeStep
import ClarabelProofs.Lemmas.SolverNSBridgeInit
import ClarabelProofs.Lemmas.SolverNSBridgeMem

namespace Clarabel.SolverNS
open Clarabel Info Residuals Clarabel.InfoUser Clarabel.InfoReport Clarabel.Dense Clarabel.InfoPresolve
open Clarabel.Solver (InputOK)

set_option linter.unusedSectionVars false
set_option linter.unusedVariables false

/-- the hand-reduced cone list has admissible parameters when the user's has (collapsible cones
become nonnegative cones, every other cone is copied) -/
theorem validCones_handReduceCones : ∀ (cones : List (ConeT ℝ)) (keep : List Bool),
    Equil.ValidCones cones → Equil.ValidCones (Presolve.handReduceCones keep cones) := by
  intro cones
  induction cones with
  | nil =>
    intro keep _ c hc
    simp [Presolve.handReduceCones] at hc
  | cons c cs ih =>
    intro keep h
    have hcs : Equil.ValidCones cs := fun c' hc' => h c' (List.mem_cons_of_mem _ hc')
    have hc0 : Equil.ValidCone c := h c (by simp)
    unfold Presolve.handReduceCones
    split
    · intro c' hc'
      rcases List.mem_cons.mp hc' with rfl | hc'
      · trivial
      · exact ih _ hcs c' hc'
    · intro c' hc'
      rcases List.mem_cons.mp hc' with rfl | hc'
      · exact hc0
      · exact ih _ hcs c' hc'

/-- the reversal facts between the full solution `sol` and the reduced solution `sol'` (what
`SolveRelN.explicit` provides), independent of the solver model -/
structure PresolvedSol (A : Csc ℝ) (keep : List Bool) (R : Csc ℝ) (infbound : ℝ)
    (sol sol' : Unscale.Solution ℝ) : Prop where
  sel : A.selectRows keep.toArray = .ok R
  len : keep.length = A.m
  Rm : R.m = keep.count true
  Rn : R.n = A.n
  status : sol'.status = sol.status
  x : sol'.x = sol.x
  facts : ∀ k, (hk : k < keep.length) →
      (keep[k] = true →
          sol.s[k]? = sol'.s[Unscale.rank keep k]?
          ∧ sol.z[k]? = sol'.z[Unscale.rank keep k]?
          ∧ (sol'.s[Unscale.rank keep k]?).isSome
          ∧ (sol'.z[Unscale.rank keep k]?).isSome)
      ∧ (keep[k] = false → sol.s[k]? = some infbound ∧ sol.z[k]? = some 0)

/-- a presolve-on run that dropped rows: the hand-reduced solver `S'` (presolve off), its result
`r'`, and the reversal facts -/
structure PresolvedRunN (P : Csc ℝ) (q : Array ℝ) (A : Csc ℝ) (b : Array ℝ) (cones : List (ConeT ℝ))
    (st : Settings ℝ) (perm : Array Nat) (r : SolveResult ℝ) (keep : List Bool)
    (R : Csc ℝ) (S' : Solver ℝ) (r' : SolveResult ℝ) : Prop where
  sol : PresolvedSol A keep R st.infbound r.S.solution r'.S.solution
  input : InputOK P q R (Vec.select b keep.toArray) (Presolve.handReduceCones keep cones)
  new' : Solver.new P q R (Vec.select b keep.toArray) (Presolve.handReduceCones keep cones)
    { st with presolveEnable := false } perm = .ok S'
  solve' : S'.solve { st with presolveEnable := false } = .ok r'
  obj_val : r'.S.solution.obj_val = r.S.solution.obj_val
  obj_val_dual : r'.S.solution.obj_val_dual = r.S.solution.obj_val_dual
  r_prim : r'.S.solution.r_prim = r.S.solution.r_prim
  r_dual : r'.S.solution.r_dual = r.S.solution.r_dual

/-- the setup shared by all theorems with dropped rows -/
theorem presolved_runN {P : Csc ℝ} {q : Array ℝ} {A : Csc ℝ} {b : Array ℝ}
    {cones : List (ConeT ℝ)} {st : Settings ℝ} {perm : Array Nat} {S : Solver ℝ} {r : SolveResult ℝ}
    {keep : List Bool}
    (hin : InputOK P q A b cones) (hpe : st.presolveEnable = true)
    (hk : Presolve.keepFlags (Presolve.threshold st.infbound) (Cones.newCollapsed cones) b.toList = .ok keep)
    (hc : keep.count true < b.size)
    (hnew : Solver.new P q A b cones st perm = .ok S) (hr : S.solve st = .ok r) :
    ∃ R S' r', PresolvedRunN P q A b cones st perm r keep R S' r' := by
  have hAcan : C16.Canonical A := hin.A_canon.canon
  obtain ⟨A', b', cones', S', h1, h2, h3, h4, h5, h6, h7, h8, hall⟩ :=
    presolve_transparent_model_fullN hAcan hpe hnew hk hc
  obtain ⟨-, r', hr', hrel⟩ := hall r hr
  obtain ⟨-, -, est, -, eov, eod, erp, erd, ex, -, -, hfacts⟩ := hrel.explicit
  unfold Presolve.handReduce at h1
  obtain ⟨A'', hsel, h1⟩ := Clarabel.Solver.bind_ok_inv h1
  have h1' := Except.ok.inj h1
  obtain ⟨rfl, rfl, rfl⟩ : A'' = A' ∧ Vec.select b keep.toArray = b'
      ∧ Presolve.handReduceCones keep cones = cones' := by
    simpa using h1'
  have hnum : Cones.numel (Cones.newCollapsed cones) = b.toList.length := by
    rw [Cones.newCollapsed, Cones.numel_collapseGo, hin.cones, ← hin.b]; simp
  obtain ⟨keep', hk', hl, -⟩ := Presolve.keepFlags_spec (Presolve.threshold st.infbound)
    (Cones.newCollapsed cones) b.toList hnum
  rw [hk] at hk'
  cases hk'
  have hlen : keep.length = A.m := by rw [hl, ← hin.b]; simp
  obtain ⟨e1, e2, e3, e4, e5⟩ := solver_new_dimsN h4
  obtain ⟨R, hR, hRc, -, -⟩ := Clarabel.Solver.selectRows_canonical0 A keep.toArray hin.A_canon
    (by simpa using hlen)
  have hRA : R = A'' := by rw [hR] at hsel; exact Except.ok.inj hsel
  subst hRA
  have hin' : InputOK P q R (Vec.select b keep.toArray) (Presolve.handReduceCones keep cones) :=
    ⟨hin.P_canon, hin.P_sq, hRc, by rw [h3]; exact hin.A_n, hin.q, e1, by rw [e2, e1]⟩
  refine ⟨R, S', r', ⟨hsel, hlen, h2, h3, est, ex, ?_⟩, hin', h4, hr', eov, eod, erp, erd⟩
  intro k hk
  have := hfacts k (by simpa using hk)
  simpa using this

/-! ### the arithmetic, stated on solution objects (copies of `Solver.presolved_*` with
`r.S.solution` ↦ `sol`; the cores `Solver.presolved_numbers`, `Solver.compositeMem_of_facts` are
imported) -/

/-- cone membership of the FULL returned vectors from that of the reduced ones -/
theorem presolvedSol_cone_lift {P : Csc ℝ} {q : Array ℝ} {A : Csc ℝ} {b : Array ℝ}
    {cones : List (ConeT ℝ)} {infbound : ℝ} {keep : List Bool} {R : Csc ℝ}
    {sol sol' : Unscale.Solution ℝ}
    (hin : InputOK P q A b cones)
    (hk : Presolve.keepFlags (Presolve.threshold infbound) (Cones.newCollapsed cones) b.toList = .ok keep)
    (H : PresolvedSol A keep R infbound sol sol') :
    (0 ≤ infbound → sol'.s.size = R.m →
      Equil.CompositeMem Equil.ConeMem (Cones.newCollapsed (Presolve.handReduceCones keep cones))
        sol'.s.toList →
      Equil.CompositeMem Equil.ConeMem (Cones.newCollapsed cones) sol.s.toList)
    ∧ (sol'.z.size = R.m →
      Equil.CompositeMem Equil.ConeMemDual (Cones.newCollapsed (Presolve.handReduceCones keep cones))
        sol'.z.toList →
      Equil.CompositeMem Equil.ConeMemDual (Cones.newCollapsed cones) sol.z.toList) := by
  have hnum : Cones.numel (Cones.newCollapsed cones) = b.toList.length := by
    rw [Cones.newCollapsed, Cones.numel_collapseGo, hin.cones, ← hin.b]; simp
  have hkl : keep.length = b.toList.length := by rw [H.len, ← hin.b]; simp
  have hcol := Presolve.collapse_handReduceCones cones keep (by rw [H.len, hin.cones])
  rw [hcol]
  constructor
  · intro hib hsz hmem
    exact Clarabel.Solver.compositeMem_of_facts Equil.ConeMem (fun _ _ => Iff.rfl)
      (Presolve.threshold infbound)
      infbound hib _ b.toList keep _ _ hk hnum hkl (by rw [hsz, H.Rm])
      (fun k hk' => ⟨fun h => ⟨((H.facts k hk').1 h).1, ((H.facts k hk').1 h).2.2.1⟩,
        fun h => ((H.facts k hk').2 h).1⟩) hmem
  · intro hsz hmem
    exact Clarabel.Solver.compositeMem_of_facts Equil.ConeMemDual (fun _ _ => Iff.rfl)
      (Presolve.threshold infbound)
      0 le_rfl _ b.toList keep _ _ hk hnum hkl (by rw [hsz, H.Rm])
      (fun k hk' => ⟨fun h => ⟨((H.facts k hk').1 h).2.1, ((H.facts k hk').1 h).2.2.2⟩,
        fun h => ((H.facts k hk').2 h).2⟩) hmem

/-- the termination test on the reduced data is the test on the user's full data, kept-row norms on
the primal side -/
theorem presolvedSol_test {P : Csc ℝ} {q : Array ℝ} {A : Csc ℝ} {b : Array ℝ}
    {cones : List (ConeT ℝ)} {infbound : ℝ} {keep : List Bool} {R : Csc ℝ}
    {sol sol' : Unscale.Solution ℝ}
    (hin : InputOK P q A b cones)
    (H : PresolvedSol A keep R infbound sol sol') (Pn : Csc ℝ) (feas gabs grel : ℝ)
    (T : let bc := ProblemData.capB (Vec.select b keep.toArray) infbound
      let p := problemOf Pn q R bc R.n R.m
      let x := vecFn sol'.x R.n
      let sv := vecFn sol'.s R.m
      let z := vecFn sol'.z R.m
      let pobj := dot x (mulV p.P x) / 2 + dot p.q x
      let dobj := -dot p.b z - dot x (mulV p.P x) / 2
      nrm (fun k => mulV p.A x k + sv k - p.b k) / max 1 (Vec.normInf bc + nrm x + nrm sv) < feas
      ∧ nrm (fun j => mulV p.P x j + mulVT p.A z j + p.q j) / max 1 (Vec.normInf q + nrm x + nrm z)
          < feas
      ∧ (|pobj - dobj| < gabs ∨ |pobj - dobj| / max 1 (min |pobj| |dobj|) < grel)) :
    let n := A.n
    let m := A.m
    let bc := ProblemData.capB b infbound
    let Pd := symFn Pn n
    let qd := vecFn q n
    let x := vecFn sol.x n
    let s := vecFn sol.s m
    let z := vecFn sol.z m
    let kp := keepFn keep m
    let normb := Vec.normInf (ProblemData.capB (Vec.select b keep.toArray) infbound)
    let pobj := dot x (mulV Pd x) / 2 + dot qd x
    let dobj := -dot (vecFn bc m) z - dot x (mulV Pd x) / 2
    nrmKept kp (fun i => mulV (matFn A m n) x i + s i - vecFn bc m i)
        / max 1 (normb + nrm x + nrmKept kp s) < feas
    ∧ nrm (fun j => mulV Pd x j + mulVT (matFn A m n) z j + qd j)
        / max 1 (Vec.normInf q + nrm x + nrm z) < feas
    ∧ (|pobj - dobj| < gabs ∨ |pobj - dobj| / max 1 (min |pobj| |dobj|) < grel)
    ∧ (∀ i, kp i = false → s i = infbound ∧ z i = 0) := by
  dsimp only [problemOf] at T
  obtain ⟨t1, t2, t3⟩ := T
  rw [H.x, H.Rn] at t1 t2 t3
  obtain ⟨e1, e2, e3, e4, e5, -, e7⟩ := Clarabel.Solver.presolved_numbers (n := A.n) (m := A.m)
    (mr := R.m) keep H.len
    H.Rm.symm A R (ProblemData.capB b infbound) hin.A_canon.canon rfl rfl
    (by unfold ProblemData.capB; rw [Array.size_map]; exact hin.b) H.sel infbound
    sol.s sol.z sol'.s sol'.z H.facts (vecFn sol.x A.n)
  rw [Clarabel.Solver.select_capB] at e2 e5
  dsimp only at e1 e2 e3 e4 e5 e7 ⊢
  have e1' : (fun j => mulV (symFn Pn A.n) (vecFn sol.x A.n) j
        + mulVT (matFn A A.m A.n) (vecFn sol.z A.m) j + vecFn q A.n j)
      = fun j => mulV (symFn Pn A.n) (vecFn sol.x A.n) j
        + mulVT (matFn R R.m A.n) (vecFn sol'.z R.m) j + vecFn q A.n j :=
    funext (fun j => by rw [e1 j])
  refine ⟨?_, ?_, ?_, e7⟩
  · rw [e5, e4]; exact t1
  · rw [e1', e3]; exact t2
  · rw [e2]; exact t3

/-- the Farkas numbers: reduced ↦ full -/
theorem presolvedSol_primal_cert {P : Csc ℝ} {q : Array ℝ} {A : Csc ℝ} {b : Array ℝ}
    {cones : List (ConeT ℝ)} {infbound : ℝ} {keep : List Bool} {R : Csc ℝ}
    {sol sol' : Unscale.Solution ℝ}
    (hin : InputOK P q A b cones)
    (H : PresolvedSol A keep R infbound sol sol') (c κ tabs trel : ℝ)
    (T : let bc := ProblemData.capB (Vec.select b keep.toArray) infbound
      let z := vecFn sol'.z R.m
      c * κ * dot (vecFn bc R.m) z < -tabs
      ∧ dot (vecFn bc R.m) z < 0
      ∧ nrm (mulVT (matFn R R.m R.n) z) < trel * c * (-(dot (vecFn bc R.m) z)) * max 1 (κ * nrm z)) :
    let bc := ProblemData.capB b infbound
    let z := vecFn sol.z A.m
    c * κ * dot (vecFn bc A.m) z < -tabs
    ∧ dot (vecFn bc A.m) z < 0
    ∧ nrm (mulVT (matFn A A.m A.n) z) < trel * c * (-(dot (vecFn bc A.m) z)) * max 1 (κ * nrm z)
    ∧ (∀ i, keepFn keep A.m i = false → z i = 0) := by
  obtain ⟨t1, t2, t3⟩ := T
  rw [H.Rn] at t3
  obtain ⟨e1, e2, e3, -, -, -, e7⟩ := Clarabel.Solver.presolved_numbers (n := A.n) (m := A.m)
    (mr := R.m) keep H.len
    H.Rm.symm A R (ProblemData.capB b infbound) hin.A_canon.canon rfl rfl
    (by unfold ProblemData.capB; rw [Array.size_map]; exact hin.b) H.sel infbound
    sol.s sol.z sol'.s sol'.z H.facts (fun _ => 0)
  rw [Clarabel.Solver.select_capB] at e2
  dsimp only at e1 e2 e3 e7 ⊢
  have e1' : mulVT (matFn A A.m A.n) (vecFn sol.z A.m)
      = mulVT (matFn R R.m A.n) (vecFn sol'.z R.m) := funext e1
  refine ⟨?_, ?_, ?_, fun i hi => (e7 i hi).2⟩
  · rw [e2]; exact t1
  · rw [e2]; exact t2
  · rw [e1', e2, e3]; exact t3

/-- the dual-infeasibility numbers: reduced ↦ full, kept rows -/
theorem presolvedSol_dual_cert {P : Csc ℝ} {q : Array ℝ} {A : Csc ℝ} {b : Array ℝ}
    {cones : List (ConeT ℝ)} {infbound : ℝ} {keep : List Bool} {R : Csc ℝ}
    {sol sol' : Unscale.Solution ℝ}
    (hin : InputOK P q A b cones)
    (H : PresolvedSol A keep R infbound sol sol') (Pn : Csc ℝ) (c κ tabs trel : ℝ)
    (T : let x := vecFn sol'.x R.n
      let sv := vecFn sol'.s R.m
      c * κ * dot (vecFn q R.n) x < -tabs
      ∧ dot (vecFn q R.n) x < 0
      ∧ nrm (mulV (symFn Pn R.n) x) < trel * (-(dot (vecFn q R.n) x)) * max 1 (κ * nrm x)
      ∧ nrm (fun k => mulV (matFn R R.m R.n) x k + sv k)
          < trel * c * (-(dot (vecFn q R.n) x)) * max 1 (κ * (nrm x + nrm sv))) :
    let x := vecFn sol.x A.n
    let sv := vecFn sol.s A.m
    let kp := keepFn keep A.m
    c * κ * dot (vecFn q A.n) x < -tabs
    ∧ dot (vecFn q A.n) x < 0
    ∧ nrm (mulV (symFn Pn A.n) x) < trel * (-(dot (vecFn q A.n) x)) * max 1 (κ * nrm x)
    ∧ nrmKept kp (fun k => mulV (matFn A A.m A.n) x k + sv k)
        < trel * c * (-(dot (vecFn q A.n) x)) * max 1 (κ * (nrm x + nrmKept kp sv))
    ∧ (∀ i, kp i = false → sv i = infbound) := by
  obtain ⟨t1, t2, t3, t4⟩ := T
  rw [H.x, H.Rn] at t1 t2 t3 t4
  obtain ⟨-, -, -, e4, -, e6, e7⟩ := Clarabel.Solver.presolved_numbers (n := A.n) (m := A.m)
    (mr := R.m) keep H.len
    H.Rm.symm A R (ProblemData.capB b infbound) hin.A_canon.canon rfl rfl
    (by unfold ProblemData.capB; rw [Array.size_map]; exact hin.b) H.sel infbound
    sol.s sol.z sol'.s sol'.z H.facts (vecFn sol.x A.n)
  dsimp only at e4 e6 e7 ⊢
  refine ⟨t1, t2, t3, ?_, fun i hi => (e7 i hi).1⟩
  rw [e6, e4]; exact t4

/-! ### the theorems with dropped rows -/

/-- the invariant the verdict theorems use: the interior of the cone and `s = 0` on zero-cone rows -/
theorem presolved_hypsN (st : Settings ℝ) (hf0 : 0 < st.maxStepFraction) (hf1 : st.maxStepFraction < 1)
    (hmv : 0 < st.maxValue) (hb0 : 0 ≤ st.linesearchBacktrackStep)
    (hb1 : st.linesearchBacktrackStep ≤ 1) :
    StepHypN st (fun l v => InteriorN l v ∧ ZeroSN l v)
    ∧ ∀ S0 : SolverSt ℝ, SizedN S0 → Equil.ValidCones (layoutN S0) →
        InitHypN st S0 (fun l v => InteriorN l v ∧ ZeroSN l v) :=
  ⟨(interiorN_stepHyp st hf0 hf1 hmv hb0 hb1).and (zeroSN_stepHyp st),
    fun S0 hS hv => (interiorN_initHyp st S0 hS hv).and (zeroSN_initHyp st S0 hS)⟩

/-- **`C03.ns_full_report_on_user_data_presolved`** (lemma form) -/
theorem full_report_presolved_chainN {P : Csc ℝ} {q : Array ℝ} {A : Csc ℝ} {b : Array ℝ}
    {cones : List (ConeT ℝ)} {st : Settings ℝ} {perm : Array Nat} {S : Solver ℝ} {r : SolveResult ℝ}
    {keep : List Bool}
    (hin : InputOK P q A b cones) (hvc : Equil.ValidCones cones) (hpe : st.presolveEnable = true)
    (hk : Presolve.keepFlags (Presolve.threshold st.infbound) (Cones.newCollapsed cones) b.toList = .ok keep)
    (hc : keep.count true < b.size)
    (hlo : 0 < st.equil.minScaling) (hhi : 0 < st.equil.maxScaling)
    (hf0 : 0 < st.maxStepFraction) (hf1 : st.maxStepFraction < 1) (hmv : 0 < st.maxValue)
    (hb0 : 0 ≤ st.linesearchBacktrackStep) (hb1 : st.linesearchBacktrackStep ≤ 1)
    (hnew : Solver.new P q A b cones st perm = .ok S) (hr : S.solve st = .ok r)
    (hst : r.S.solution.status.isInfeasible = false) :
    ∃ Pn, ProblemData.triuStep P = .ok Pn ∧
      let n := A.n
      let m := A.m
      let bc := ProblemData.capB b st.infbound
      let Pd := InfoUser.symFn Pn n
      let qd := InfoUser.vecFn q n
      let x := InfoUser.vecFn r.S.solution.x n
      let s := InfoUser.vecFn r.S.solution.s m
      let z := InfoUser.vecFn r.S.solution.z m
      let kp := InfoPresolve.keepFn keep m
      let normb := Vec.normInf (ProblemData.capB (Vec.select b keep.toArray) st.infbound)
      let pobj := Dense.dot x (Dense.mulV Pd x) / 2 + Dense.dot qd x
      let dobj := -Dense.dot (InfoUser.vecFn bc m) z - Dense.dot x (Dense.mulV Pd x) / 2
      r.S.solution.obj_val = some pobj
      ∧ r.S.solution.obj_val_dual = some dobj
      ∧ r.S.solution.r_prim = some (InfoPresolve.nrmKept kp (fun i => Dense.mulV (InfoUser.matFn A m n) x i + s i - InfoUser.vecFn bc m i)
            / max 1 (normb + Dense.nrm x + InfoPresolve.nrmKept kp s))
      ∧ r.S.solution.r_dual = some (Dense.nrm (fun j => Dense.mulV Pd x j + Dense.mulVT (InfoUser.matFn A m n) z j + qd j)
            / max 1 (Vec.normInf q + Dense.nrm x + Dense.nrm z))
      ∧ (∀ i, kp i = false → s i = st.infbound ∧ z i = 0) := by
  obtain ⟨R, S', r', H⟩ := presolved_runN hin hpe hk hc hnew hr
  have hst' : r'.S.solution.status.isInfeasible = false := by rw [H.sol.status]; exact hst
  obtain ⟨Pn, hPn, T⟩ := full_report_chainN (st := { st with presolveEnable := false })
    (interiorN_stepHyp _ hf0 hf1 hmv hb0 hb1)
    (fun S0 hS hv => interiorN_initHyp _ S0 hS hv) (fun _ _ h => h.pos.1)
    ⟨H.input, validCones_handReduceCones _ _ hvc, Or.inl rfl, hlo, hhi⟩ H.new' H.solve' hst'
  dsimp only [problemOf] at T
  obtain ⟨k1, k2, k3, k4, -, -, -, -, -⟩ := T
  rw [H.obj_val, H.sol.x] at k1
  rw [H.obj_val_dual, H.sol.x] at k2
  rw [H.r_prim, H.sol.x] at k3
  rw [H.r_dual, H.sol.x] at k4
  rw [H.sol.Rn] at k1 k2 k3 k4
  rw [← Clarabel.Solver.select_capB] at k2 k3
  obtain ⟨f1, f2, f3, f4, f5⟩ := Clarabel.Solver.report_presolved_of_facts (n := A.n) (m := A.m)
    (mr := R.m) keep H.sol.len H.sol.Rm.symm
    (symFn Pn A.n) (vecFn q A.n) A R (ProblemData.capB b st.infbound) hin.A_canon.canon rfl rfl
    (by unfold ProblemData.capB; rw [Array.size_map]; exact hin.b) H.sol.sel st.infbound
    r.S.solution.x r.S.solution.s r.S.solution.z r'.S.solution.s r'.S.solution.z H.sol.facts
    (Vec.normInf (Vec.select (ProblemData.capB b st.infbound) keep.toArray)) (Vec.normInf q)
    _ _ _ _ rfl rfl rfl rfl
  refine ⟨Pn, hPn, ?_⟩
  dsimp only
  refine ⟨?_, ?_, ?_, ?_, f5⟩
  · rw [k1, f1]
  · rw [k2, f2]
  · rw [k3, f3, Clarabel.Solver.select_capB]
  · rw [k4, f4]

/-- **`C01.ns_full_solved_certifies_presolved`** (lemma form) -/
theorem full_solved_presolved_chainN {P : Csc ℝ} {q : Array ℝ} {A : Csc ℝ} {b : Array ℝ}
    {cones : List (ConeT ℝ)} {st : Settings ℝ} {perm : Array Nat} {S : Solver ℝ} {r : SolveResult ℝ}
    {keep : List Bool}
    (hin : InputOK P q A b cones) (hvc : Equil.ValidCones cones) (hpe : st.presolveEnable = true)
    (hk : Presolve.keepFlags (Presolve.threshold st.infbound) (Cones.newCollapsed cones) b.toList = .ok keep)
    (hc : keep.count true < b.size) (hib : 0 ≤ st.infbound)
    (hlo : 0 < st.equil.minScaling) (hhi : 0 < st.equil.maxScaling)
    (hf0 : 0 < st.maxStepFraction) (hf1 : st.maxStepFraction < 1) (hmv : 0 < st.maxValue)
    (hb0 : 0 ≤ st.linesearchBacktrackStep) (hb1 : st.linesearchBacktrackStep ≤ 1)
    (hnew : Solver.new P q A b cones st perm = .ok S) (hr : S.solve st = .ok r)
    (hst : r.S.solution.status = .solved) :
    ∃ Pn, ProblemData.triuStep P = .ok Pn ∧
      let n := A.n
      let m := A.m
      let bc := ProblemData.capB b st.infbound
      let Pd := symFn Pn n
      let qd := vecFn q n
      let x := vecFn r.S.solution.x n
      let s := vecFn r.S.solution.s m
      let z := vecFn r.S.solution.z m
      let kp := keepFn keep m
      let normb := Vec.normInf (ProblemData.capB (Vec.select b keep.toArray) st.infbound)
      let pobj := dot x (mulV Pd x) / 2 + dot qd x
      let dobj := -dot (vecFn bc m) z - dot x (mulV Pd x) / 2
      nrmKept kp (fun i => mulV (matFn A m n) x i + s i - vecFn bc m i)
          / max 1 (normb + nrm x + nrmKept kp s) < st.info.full.feas
      ∧ nrm (fun j => mulV Pd x j + mulVT (matFn A m n) z j + qd j)
          / max 1 (Vec.normInf q + nrm x + nrm z) < st.info.full.feas
      ∧ (|pobj - dobj| < st.info.full.gap_abs
          ∨ |pobj - dobj| / max 1 (min |pobj| |dobj|) < st.info.full.gap_rel)
      ∧ (∀ i, kp i = false → s i = st.infbound ∧ z i = 0)
      ∧ Equil.CompositeMem Equil.ConeMem (Cones.newCollapsed cones) r.S.solution.s.toList
      ∧ Equil.CompositeMem Equil.ConeMemDual (Cones.newCollapsed cones) r.S.solution.z.toList
      ∧ r.S.solution.x.size = A.n := by
  obtain ⟨R, S', r', H⟩ := presolved_runN hin hpe hk hc hnew hr
  obtain ⟨Pn, hPn, T⟩ := full_solved_chainN (st := { st with presolveEnable := false })
    (presolved_hypsN { st with presolveEnable := false } hf0 hf1 hmv hb0 hb1).1
    (presolved_hypsN { st with presolveEnable := false } hf0 hf1 hmv hb0 hb1).2
    (fun _ _ h => h.1.pos.1) (fun _ _ h => ⟨h.1.mem_primal h.2, h.1.mem_dual⟩)
    ⟨H.input, validCones_handReduceCones _ _ hvc, Or.inl rfl, hlo, hhi⟩ H.new' H.solve'
    (by rw [H.sol.status]; exact hst)
  obtain ⟨t1, t2, t3, c1, c2, s1, s2, s3⟩ := T
  obtain ⟨l1, l2⟩ := presolvedSol_cone_lift hin hk H.sol
  obtain ⟨u1, u2, u3, u4⟩ := presolvedSol_test hin H.sol Pn st.info.full.feas st.info.full.gap_abs
    st.info.full.gap_rel ⟨t1, t2, t3⟩
  exact ⟨Pn, hPn, u1, u2, u3, u4, l1 hib s2 c1, l2 s3 c2, by rw [← H.sol.x, s1, H.sol.Rn]⟩

/-- **`C01.ns_full_almost_solved_certifies_presolved`** (lemma form) -/
theorem full_almost_solved_presolved_chainN {P : Csc ℝ} {q : Array ℝ} {A : Csc ℝ} {b : Array ℝ}
    {cones : List (ConeT ℝ)} {st : Settings ℝ} {perm : Array Nat} {S : Solver ℝ} {r : SolveResult ℝ}
    {keep : List Bool}
    (hin : InputOK P q A b cones) (hvc : Equil.ValidCones cones) (hpe : st.presolveEnable = true)
    (hk : Presolve.keepFlags (Presolve.threshold st.infbound) (Cones.newCollapsed cones) b.toList = .ok keep)
    (hc : keep.count true < b.size) (hib : 0 ≤ st.infbound)
    (hlo : 0 < st.equil.minScaling) (hhi : 0 < st.equil.maxScaling)
    (hf0 : 0 < st.maxStepFraction) (hf1 : st.maxStepFraction < 1) (hmv : 0 < st.maxValue)
    (hb0 : 0 ≤ st.linesearchBacktrackStep) (hb1 : st.linesearchBacktrackStep ≤ 1)
    (hnew : Solver.new P q A b cones st perm = .ok S) (hr : S.solve st = .ok r)
    (hst : r.S.solution.status = .almostSolved) :
    ∃ Pn, ProblemData.triuStep P = .ok Pn ∧
      let n := A.n
      let m := A.m
      let bc := ProblemData.capB b st.infbound
      let Pd := symFn Pn n
      let qd := vecFn q n
      let x := vecFn r.S.solution.x n
      let s := vecFn r.S.solution.s m
      let z := vecFn r.S.solution.z m
      let kp := keepFn keep m
      let normb := Vec.normInf (ProblemData.capB (Vec.select b keep.toArray) st.infbound)
      let pobj := dot x (mulV Pd x) / 2 + dot qd x
      let dobj := -dot (vecFn bc m) z - dot x (mulV Pd x) / 2
      nrmKept kp (fun i => mulV (matFn A m n) x i + s i - vecFn bc m i)
          / max 1 (normb + nrm x + nrmKept kp s) < st.info.reduced.feas
      ∧ nrm (fun j => mulV Pd x j + mulVT (matFn A m n) z j + qd j)
          / max 1 (Vec.normInf q + nrm x + nrm z) < st.info.reduced.feas
      ∧ (|pobj - dobj| < st.info.reduced.gap_abs
          ∨ |pobj - dobj| / max 1 (min |pobj| |dobj|) < st.info.reduced.gap_rel)
      ∧ (∀ i, kp i = false → s i = st.infbound ∧ z i = 0)
      ∧ Equil.CompositeMem Equil.ConeMem (Cones.newCollapsed cones) r.S.solution.s.toList
      ∧ Equil.CompositeMem Equil.ConeMemDual (Cones.newCollapsed cones) r.S.solution.z.toList
      ∧ r.S.solution.x.size = A.n := by
  obtain ⟨R, S', r', H⟩ := presolved_runN hin hpe hk hc hnew hr
  obtain ⟨Pn, hPn, T⟩ := full_almost_solved_chainN (st := { st with presolveEnable := false })
    (presolved_hypsN { st with presolveEnable := false } hf0 hf1 hmv hb0 hb1).1
    (presolved_hypsN { st with presolveEnable := false } hf0 hf1 hmv hb0 hb1).2
    (fun _ _ h => h.1.pos.1) (fun _ _ h => ⟨h.1.mem_primal h.2, h.1.mem_dual⟩)
    ⟨H.input, validCones_handReduceCones _ _ hvc, Or.inl rfl, hlo, hhi⟩ H.new' H.solve'
    (by rw [H.sol.status]; exact hst)
  obtain ⟨t1, t2, t3, c1, c2, s1, s2, s3⟩ := T
  obtain ⟨l1, l2⟩ := presolvedSol_cone_lift hin hk H.sol
  obtain ⟨u1, u2, u3, u4⟩ := presolvedSol_test hin H.sol Pn st.info.reduced.feas
    st.info.reduced.gap_abs st.info.reduced.gap_rel ⟨t1, t2, t3⟩
  exact ⟨Pn, hPn, u1, u2, u3, u4, l1 hib s2 c1, l2 s3 c2, by rw [← H.sol.x, s1, H.sol.Rn]⟩

/-- **`C02.ns_full_primal_infeasible_certifies_presolved`** / **`…_almost_…`** (lemma form) -/
theorem full_primal_infeasible_presolved_chainN (alm : Bool) {P : Csc ℝ} {q : Array ℝ} {A : Csc ℝ}
    {b : Array ℝ} {cones : List (ConeT ℝ)} {st : Settings ℝ} {perm : Array Nat} {S : Solver ℝ}
    {r : SolveResult ℝ} {keep : List Bool}
    (hin : InputOK P q A b cones) (hvc : Equil.ValidCones cones) (hpe : st.presolveEnable = true)
    (hk : Presolve.keepFlags (Presolve.threshold st.infbound) (Cones.newCollapsed cones) b.toList = .ok keep)
    (hc : keep.count true < b.size)
    (hlo : 0 < st.equil.minScaling) (hhi : 0 < st.equil.maxScaling)
    (hf0 : 0 < st.maxStepFraction) (hf1 : st.maxStepFraction < 1) (hmv : 0 < st.maxValue)
    (hb0 : 0 ≤ st.linesearchBacktrackStep) (hb1 : st.linesearchBacktrackStep ≤ 1)
    (htabs : 0 ≤ (if alm then st.info.reduced else st.info.full).infeas_abs)
    (hgate : alm = true → 1 ≤ (1 / st.info.reduced.ktratio) * 1000)
    (hnew : Solver.new P q A b cones st perm = .ok S) (hr : S.solve st = .ok r)
    (hst : r.S.solution.status = (if alm then .almostPrimalInfeasible else .primalInfeasible)) :
    ∃ (c κ : ℝ), 0 < c ∧ 0 < κ ∧
      let bc := ProblemData.capB b st.infbound
      let z := vecFn r.S.solution.z A.m
      let t := if alm then st.info.reduced else st.info.full
      c * κ * dot (vecFn bc A.m) z < -t.infeas_abs
      ∧ dot (vecFn bc A.m) z < 0
      ∧ nrm (mulVT (matFn A A.m A.n) z)
          < t.infeas_rel * c * (-(dot (vecFn bc A.m) z)) * max 1 (κ * nrm z)
      ∧ (∀ i, keepFn keep A.m i = false → z i = 0)
      ∧ Equil.CompositeMem Equil.ConeMemDual (Cones.newCollapsed cones) r.S.solution.z.toList := by
  obtain ⟨R, S', r', H⟩ := presolved_runN hin hpe hk hc hnew hr
  obtain ⟨c, κ, hc0, hκ, t1, t2, t3, c2, s3⟩ := full_primal_infeasible_chainN alm
    (st := { st with presolveEnable := false })
    (presolved_hypsN { st with presolveEnable := false } hf0 hf1 hmv hb0 hb1).1
    (presolved_hypsN { st with presolveEnable := false } hf0 hf1 hmv hb0 hb1).2
    (fun _ _ h => h.1.pos.2) (fun _ _ h => ⟨h.1.mem_primal h.2, h.1.mem_dual⟩)
    ⟨H.input, validCones_handReduceCones _ _ hvc, Or.inl rfl, hlo, hhi⟩ htabs hgate H.new' H.solve'
    (by rw [H.sol.status]; exact hst)
  obtain ⟨u1, u2, u3, u4⟩ := presolvedSol_primal_cert hin H.sol c κ
    (if alm then st.info.reduced else st.info.full).infeas_abs
    (if alm then st.info.reduced else st.info.full).infeas_rel ⟨t1, t2, t3⟩
  exact ⟨c, κ, hc0, hκ, u1, u2, u3, u4, (presolvedSol_cone_lift hin hk H.sol).2 s3 c2⟩

/-- **`C02.ns_full_dual_infeasible_certifies_presolved`** / **`…_almost_…`** (lemma form) -/
theorem full_dual_infeasible_presolved_chainN (alm : Bool) {P : Csc ℝ} {q : Array ℝ} {A : Csc ℝ}
    {b : Array ℝ} {cones : List (ConeT ℝ)} {st : Settings ℝ} {perm : Array Nat} {S : Solver ℝ}
    {r : SolveResult ℝ} {keep : List Bool}
    (hin : InputOK P q A b cones) (hvc : Equil.ValidCones cones) (hpe : st.presolveEnable = true)
    (hk : Presolve.keepFlags (Presolve.threshold st.infbound) (Cones.newCollapsed cones) b.toList = .ok keep)
    (hc : keep.count true < b.size) (hib : 0 ≤ st.infbound)
    (hlo : 0 < st.equil.minScaling) (hhi : 0 < st.equil.maxScaling)
    (hf0 : 0 < st.maxStepFraction) (hf1 : st.maxStepFraction < 1) (hmv : 0 < st.maxValue)
    (hb0 : 0 ≤ st.linesearchBacktrackStep) (hb1 : st.linesearchBacktrackStep ≤ 1)
    (htabs : 0 ≤ (if alm then st.info.reduced else st.info.full).infeas_abs)
    (hgate : alm = true → 1 ≤ (1 / st.info.reduced.ktratio) * 1000)
    (hnew : Solver.new P q A b cones st perm = .ok S) (hr : S.solve st = .ok r)
    (hst : r.S.solution.status = (if alm then .almostDualInfeasible else .dualInfeasible)) :
    ∃ (Pn : Csc ℝ) (c κ : ℝ), ProblemData.triuStep P = .ok Pn ∧ 0 < c ∧ 0 < κ ∧
      let x := vecFn r.S.solution.x A.n
      let sv := vecFn r.S.solution.s A.m
      let kp := keepFn keep A.m
      let t := if alm then st.info.reduced else st.info.full
      c * κ * dot (vecFn q A.n) x < -t.infeas_abs
      ∧ dot (vecFn q A.n) x < 0
      ∧ nrm (mulV (symFn Pn A.n) x)
          < t.infeas_rel * (-(dot (vecFn q A.n) x)) * max 1 (κ * nrm x)
      ∧ nrmKept kp (fun k => mulV (matFn A A.m A.n) x k + sv k)
          < t.infeas_rel * c * (-(dot (vecFn q A.n) x)) * max 1 (κ * (nrm x + nrmKept kp sv))
      ∧ (∀ i, kp i = false → sv i = st.infbound)
      ∧ Equil.CompositeMem Equil.ConeMem (Cones.newCollapsed cones) r.S.solution.s.toList
      ∧ r.S.solution.x.size = A.n := by
  obtain ⟨R, S', r', H⟩ := presolved_runN hin hpe hk hc hnew hr
  obtain ⟨Pn, c, κ, hPn, hc0, hκ, t1, t2, t3, t4, c1, s1, s2⟩ := full_dual_infeasible_chainN alm
    (st := { st with presolveEnable := false })
    (presolved_hypsN { st with presolveEnable := false } hf0 hf1 hmv hb0 hb1).1
    (presolved_hypsN { st with presolveEnable := false } hf0 hf1 hmv hb0 hb1).2
    (fun _ _ h => h.1.pos.2) (fun _ _ h => ⟨h.1.mem_primal h.2, h.1.mem_dual⟩)
    ⟨H.input, validCones_handReduceCones _ _ hvc, Or.inl rfl, hlo, hhi⟩ htabs hgate H.new' H.solve'
    (by rw [H.sol.status]; exact hst)
  obtain ⟨u1, u2, u3, u4, u5⟩ := presolvedSol_dual_cert hin H.sol Pn c κ
    (if alm then st.info.reduced else st.info.full).infeas_abs
    (if alm then st.info.reduced else st.info.full).infeas_rel ⟨t1, t2, t3, t4⟩
  exact ⟨Pn, c, κ, hPn, hc0, hκ, u1, u2, u3, u4, u5, (presolvedSol_cone_lift hin hk H.sol).1 hib s2 c1,
    by rw [← H.sol.x, s1, H.sol.Rn]⟩

end Clarabel.SolverNS
