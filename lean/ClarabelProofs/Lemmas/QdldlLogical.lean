/-
  C12: the `logical = true` (symbolic) pass of `_factor_inner`.

  In logical mode the loop of `_factor_inner` runs the same first loop per row (row pattern via the
  elimination tree, `D[k] = Ax[i]` for a stored diagonal, `y_vals` loaded) and a second loop that only
  records the row index (`Li[next_colspace[c]] = k`) and clears the work arrays: no arithmetic, no
  pivot step.  Result (`factorInner_logical`): never an error; `Lp = cumsum Lnz`, `Li` = the symbolic
  pattern (exactly as in numeric mode), `Lx` and `Dinv` untouched (the all-ones arrays `_factor`
  passes in), counters `0`, and `D[k] = triuA[k,k]` for `k ≥ 1`, `D[0] = 0` (`D` is zero-filled by
  `_factor_inner` itself; the `D.fill(1)` of `_factor` is overwritten).
-/
import ClarabelProofs.Lemmas.QdldlFactor

namespace Clarabel.Qdldl

section logical
variable {α : Type} [Add α] [Sub α] [Mul α] [Div α] [Neg α] [OfNat α 0] [OfNat α 1] [LT α]
  [DecidableLT α] [BEq α] [FloatLike α]
variable {n : Nat} {Ap Ai : Array Nat} {etree : Array (Option Nat)} {Lnz : Array Nat}

/-- one iteration of the second loop in logical mode, as a pure function -/
def rowElimL (k : Nat) (s : FState α) (c : Nat) : FState α :=
  let tmp := s.nextColspace.getD c 0
  { s with
    Li := s.Li.setIfInBounds tmp k
    nextColspace := s.nextColspace.setIfInBounds c (tmp + 1)
    yVals := s.yVals.setIfInBounds c 0
    yMarkers := s.yMarkers.setIfInBounds c false }

theorem rowEliminate_true_eq (k : Nat) (s : FState α) (c : Nat)
    (hc1 : c < s.nextColspace.size) (hc2 : c < s.yVals.size) (hc5 : c < s.yMarkers.size)
    (ht1 : s.nextColspace.getD c 0 < s.Li.size) :
    rowEliminate true k s c = .ok (rowElimL k s c) := by
  unfold rowEliminate rowElimL
  simp only [getE_getD _ _ _ 0 hc1, bind, Except.bind, Bool.not_true, Bool.false_eq_true, ↓reduceIte,
    pure, Except.pure, setE_ok _ _ _ _ ht1, setE_ok _ _ _ _ hc1, setE_ok _ _ _ _ hc2, setE_ok _ _ _ _ hc5,
    set_eq_setIfInBounds]

/-- the structural invariant of the second loop is preserved by the logical step, which leaves
`Lx`, `D`, `Dinv` alone -/
theorem mid_step_L (C : FCtx n Ap Ai etree Lnz) (LiSz : Nat) (hLi : LpOf Lnz n ≤ LiSz) (k : Nat)
    (hk : k < n) (ord : List Nat) (hO : OrdOK Ap Ai k ord) (s1 : FState α) (pre : List Nat) (c : Nat)
    (post : List Nat) (hord : ord = pre ++ c :: post) (s : FState α)
    (hM : Mid Ap Ai Lnz n k LiSz ord s1 pre s) :
    rowEliminate true k s c = .ok (rowElimL k s c) ∧
      Mid Ap Ai Lnz n k LiSz ord s1 (pre ++ [c]) (rowElimL k s c) := by
  obtain ⟨hcn, hck, hLc, hcpre, hlpc, hncc, hlen, hslot, hrows⟩ :=
    mid_facts C LiSz hLi k hk ord hO s1 pre c post hord s hM
  have hcord : c ∈ ord := by rw [hord]; simp
  constructor
  · apply rowEliminate_true_eq
    · rw [hM.ncsz]; exact hcn
    · rw [hM.yvsz]; exact hcn
    · rw [hM.msz]; exact hcn
    · rw [hncc, hM.lisz]; exact hslot
  · have hne_old : ∀ x, x < n → ∀ t, t < (Lrows (Apat Ap Ai) k x).length →
        LpOf Lnz x + t ≠ s.nextColspace.getD c 0 := by
      intro x hx t ht
      rw [hncc]
      by_cases hxc : x = c
      · subst hxc; omega
      · exact slot_ne C x c t _ hx hcn hxc
          (Nat.lt_of_lt_of_le ht (Llen_mono _ _ _ _ (by omega))) hlen
    have hmem_app : ∀ x, x ∈ pre ++ [c] ↔ (x ∈ pre ∨ x = c) := by intro x; simp
    constructor
    · exact hM.lp
    · exact hM.fDinv
    · exact hM.frc
    · exact hM.fpos
    · show (s.Li.setIfInBounds _ _).size = LiSz
      simpa using hM.lisz
    · exact hM.lxsz
    · exact hM.dsz
    · exact hM.disz
    · show (s.yMarkers.setIfInBounds _ _).size = n
      simpa using hM.msz
    · show (s.nextColspace.setIfInBounds _ _).size = n
      simpa using hM.ncsz
    · show (s.yVals.setIfInBounds _ _).size = n
      simpa using hM.yvsz
    · intro x hx
      show (s.yMarkers.setIfInBounds c false).getD x false = true ↔ _
      rw [getD_setIfInBounds, hmem_app]
      by_cases hxc : x = c
      · subst hxc
        rw [if_pos ⟨rfl, by rw [hM.msz]; exact hx⟩]
        simp
      · rw [if_neg (fun h => hxc h.1), hM.mrk x hx]
        simp [hxc]
    · intro x hx
      show (s.nextColspace.setIfInBounds c (s.nextColspace.getD c 0 + 1)).getD x 0 = _
      rw [getD_setIfInBounds]
      by_cases hxc : x = c
      · subst hxc
        rw [if_pos ⟨rfl, by rw [hM.ncsz]; exact hx⟩, hncc, if_pos (by simp)]
      · rw [if_neg (fun h => hxc h.1), hM.nc x hx]
        have : (x ∈ pre ++ [c]) ↔ x ∈ pre := by rw [hmem_app]; simp [hxc]
        simp only [this]
    · intro x hx t r hr
      show (s.Li.setIfInBounds (s.nextColspace.getD c 0) k).getD (LpOf Lnz x + t) 0 = r
      have ht : t < (Lrows (Apat Ap Ai) k x).length := by
        rcases Nat.lt_or_ge t (Lrows (Apat Ap Ai) k x).length with h | h
        · exact h
        · rw [List.getElem?_eq_none h] at hr; cases hr
      rw [getD_setIfInBounds, if_neg (fun h => hne_old x hx t ht h.1)]
      exact hM.li_old x hx t r hr
    · intro x hxp
      show (s.Li.setIfInBounds (s.nextColspace.getD c 0) k).getD _ 0 = k
      rw [getD_setIfInBounds]
      rcases (hmem_app x).mp hxp with h | h
      · have hxord : x ∈ ord := by rw [hord]; simp [h]
        obtain ⟨hxk, hLx⟩ := hO.mem x hxord
        have hxc : x ≠ c := fun e => hcpre (e ▸ h)
        rw [if_neg]
        · exact hM.li_new x h
        · intro h'
          rw [hncc] at h'
          exact slot_ne C x c _ _ (by omega) hcn hxc (Llen_lt _ _ _ _ hLx hk) hlen h'.1
      · subst h
        rw [if_pos ⟨by rw [hncc], by rw [hM.lisz, hncc]; exact hslot⟩]
    · intro x hx t ht
      exact hM.lx_old x hx t ht
    · intro x hx
      exact hM.dother x hx
    · intro x hx hcase
      show (s.yVals.setIfInBounds c 0).getD x 0 = 0
      rw [getD_setIfInBounds]
      by_cases hxc : x = c
      · subst hxc
        rw [if_pos ⟨rfl, by rw [hM.yvsz]; exact hx⟩]
      · rw [if_neg (fun h => hxc h.1)]
        apply hM.yvz x hx
        rcases hcase with h | h
        · exact Or.inl h
        · rcases (hmem_app x).mp h with h' | h'
          · exact Or.inr h'
          · exact absurd h' hxc

theorem setIfInBounds_getD_self {β : Type} (xs : Array β) (i : Nat) (d : β) :
    xs.setIfInBounds i (xs.getD i d) = xs := by
  apply Array.ext
  · simp
  · intro j h1 h2
    rw [Array.getElem_setIfInBounds]
    split
    · rename_i hij
      subst hij
      simp [Array.getD_eq_getD_getElem?, h2]
    · rfl

/-- one row of the logical pass -/
theorem factorRow_true (C : FCtx n Ap Ai etree Lnz) (Ax : Array α) (a : Nat → Nat → α)
    (hR : Represents n Ap Ai Ax a) (LiSz : Nat) (hLi : LpOf Lnz n ≤ LiSz) (rp : RegParams α)
    (k : Nat) (hk : k < n) (s : FState α) (hI : RowInv Ap Ai Lnz n k LiSz s) :
    ∃ s', factorRow n Ap Ai Ax etree true rp s k = .ok s' ∧ RowInv Ap Ai Lnz n (k + 1) LiSz s' ∧
      s'.Lx = s.Lx ∧ s'.Dinv = s.Dinv ∧ s'.regularizeCount = s.regularizeCount ∧
      s'.positive = s.positive ∧ (∀ c, c ≠ k → s'.D.getD c 0 = s.D.getD c 0) ∧ s'.D.getD k 0 = a k k := by
  have h1 : k < Ap.size := by rw [C.tri.ap_size]; omega
  have h2 : k + 1 < Ap.size := by rw [C.tri.ap_size]; omega
  obtain ⟨s1, yIdx, hO, hP, hM0, _, _, hrun1⟩ := factorRow_eq' C Ax a hR LiSz hLi rp k hk s hI
  -- second loop
  obtain ⟨s2, hrun2, hM2, hfr⟩ := foldlM_list_inv (rowEliminate true k)
    (fun pre s' => Mid Ap Ai Lnz n k LiSz yIdx.reverse s1 pre s' ∧
      (s'.Lx = s1.Lx ∧ s'.Dinv = s1.Dinv ∧ s'.D = s1.D ∧ s'.regularizeCount = s1.regularizeCount ∧
        s'.positive = s1.positive))
    yIdx.reverse s1 ⟨hM0, rfl, rfl, rfl, rfl, rfl⟩ (by
      intro pre c post hl s' ⟨hM', e1, e2, e3, e4, e5⟩
      obtain ⟨hr, hM''⟩ := mid_step_L C LiSz hLi k hk yIdx.reverse hO s1 pre c post hl s' hM'
      exact ⟨_, hr, hM'', e1, e2, e3, e4, e5⟩)
  obtain ⟨f1, f2, f3, f4, f5⟩ := hfr
  have e3 := hP.fLx; have e4 := hP.fDinv; have e6 := hP.frc; have e7 := hP.fpos
  simp only at e3 e4 e6 e7
  have hA2 : s1.D.getD k 0 = a k k := by
    by_cases hst : ∃ i ∈ List.range' (Ap.getD k 0) (Ap.getD (k + 1) 0 - Ap.getD k 0), Ai.getD i 0 = k
    · exact hP.dk1 hst
    · have := hP.dk0 hst
      simp only at this
      rw [this, hI.dz k (Nat.le_refl _) hk]
      symm
      apply hR.zero
      rintro ⟨t, h1, h2, h3⟩
      exact hst ⟨t, by rw [List.mem_range'_1]; omega, h3⟩
  refine ⟨s2, ?_, ?_, by rw [f1, e3], by rw [f2, e4], by rw [f4, e6], by rw [f5, e7], ?_, by rw [f3]; exact hA2⟩
  · simp only [factorRow, getE_getD _ _ _ 0 h1, getE_getD _ _ _ 0 h2, bind, Except.bind, hrun1, hrun2,
      Bool.not_true, Bool.false_eq_true, ↓reduceIte, pure, Except.pure]
  · have := rowInv_next (a := a) (etree := etree) LiSz k hk s hI s1 yIdx _ hO hP s2 hM2
      (s2.D.getD k 0) (s2.Dinv.getD k 0) s2.regularizeCount s2.positive
    rw [setIfInBounds_getD_self, setIfInBounds_getD_self] at this
    exact this
  · intro c hc
    rw [f3]
    have := hP.dother c hc
    simp only at this
    exact this

/-- the structural invariant for the initial state of the logical pass -/
theorem rowInv_init_L (C : FCtx n Ap Ai etree Lnz) (Li : Array Nat) (Lx Dinv : Array α)
    (hLx : Lx.size = Li.size) (hDi : Dinv.size = n) :
    RowInv Ap Ai Lnz n 1 Li.size
      ({ Lp := cumsum Lnz, Li := Li, Lx := Lx, D := Array.replicate n 0, Dinv := Dinv,
         yMarkers := Array.replicate n false, nextColspace := (cumsum Lnz).extract 0 n,
         yVals := Array.replicate n 0, regularizeCount := 0, positive := 0 } : FState α) := by
  have hn := C.hn
  have hl1 : ∀ c, Lrows (Apat Ap Ai) 1 c = [] := by
    intro c
    rw [Lrows_succ]
    have : ¬ Lpat (Apat Ap Ai) 0 c := fun h => by have := h.lt; omega
    simp [this, Lrows]
  refine { lp := rfl, lisz := rfl, lxsz := hLx, dsz := by simp, disz := hDi, msz := by simp,
           ncsz := ?_, yvsz := by simp, mrk0 := ?_, yv0 := ?_, nc := ?_, li := ?_, dz := ?_ }
  · show ((cumsum Lnz).extract 0 n).size = n
    simp [(cumsum_spec Lnz).1, C.lsz]
  · intro c hc
    show (Array.replicate n false).getD c false = false
    simp [Array.getD_eq_getD_getElem?, hc]
  · intro c hc
    show (Array.replicate n (0 : α)).getD c 0 = 0
    simp [Array.getD_eq_getD_getElem?, hc]
  · intro c hc
    show ((cumsum Lnz).extract 0 n).getD c 0 = _
    rw [hl1]
    simp only [List.length_nil, Nat.add_zero, LpOf, Array.getD_eq_getD_getElem?]
    congr 1
    rw [Array.getElem?_extract]
    simp [hc]
  · intro c hc t r hr
    rw [hl1] at hr; simp at hr
  · intro c _ hc
    show (Array.replicate n (0 : α)).getD c 0 = 0
    simp [Array.getD_eq_getD_getElem?, hc]

/-- **the logical (symbolic) pass of `_factor_inner`** never fails and computes: `Lp = cumsum Lnz`,
the row indices `Li` of the symbolic factor (`RowInv … n`), `Lx` and `Dinv` unchanged, both counters
`0`, `D[0] = 0` and `D[k] = a[k,k]` for `1 ≤ k < n`. -/
theorem factorInner_logical (C : FCtx n Ap Ai etree Lnz) (Ax : Array α) (a : Nat → Nat → α)
    (hR : Represents n Ap Ai Ax a) (Li : Array Nat) (Lx D Dinv : Array α)
    (hLi : LpOf Lnz n ≤ Li.size) (hLx : Lx.size = Li.size) (hDs : D.size = n) (hDi : Dinv.size = n)
    (rp : RegParams α) :
    ∃ s, factorInner n Ap Ai Ax Li Lx D Dinv Lnz etree true rp = .ok s ∧
      RowInv Ap Ai Lnz n n Li.size s ∧ s.Lx = Lx ∧ s.Dinv = Dinv ∧ s.regularizeCount = 0 ∧
      s.positive = 0 ∧ ∀ c, c < n → s.D.getD c 0 = if c = 0 then 0 else a c c := by
  have hn := C.hn
  have hsizes : (Lnz.size != n || D.size != n || Dinv.size != n || etree.size != n) = false := by
    simp [C.lsz, hDs, hDi, C.esz]
  obtain ⟨s, hs, hI, e1, e2, e3, e4, e5⟩ := foldlM_range_inv
    (fun s i => factorRow n Ap Ai Ax etree true rp s (1 + i))
    (fun i s => RowInv Ap Ai Lnz n (1 + i) Li.size s ∧ s.Lx = Lx ∧ s.Dinv = Dinv ∧
      s.regularizeCount = 0 ∧ s.positive = 0 ∧
      ∀ c, c < n → s.D.getD c 0 = if c = 0 ∨ 1 + i ≤ c then 0 else a c c)
    (n - 1)
    ({ Lp := cumsum Lnz, Li := Li, Lx := Lx, D := Array.replicate n 0, Dinv := Dinv,
       yMarkers := Array.replicate n false, nextColspace := (cumsum Lnz).extract 0 n,
       yVals := Array.replicate n 0, regularizeCount := 0, positive := 0 } : FState α)
    ⟨rowInv_init_L C Li Lx Dinv hLx hDi, rfl, rfl, rfl, rfl, by
      intro c hc
      show (Array.replicate n (0 : α)).getD c 0 = _
      have : c = 0 ∨ 1 + 0 ≤ c := by omega
      rw [if_pos this]
      simp [Array.getD_eq_getD_getElem?, hc]⟩
    (by
      intro i hi s ⟨hI, e1, e2, e3, e4, e5⟩
      obtain ⟨s', hrun, hI', f1, f2, f3, f4, f5, f6⟩ :=
        factorRow_true C Ax a hR Li.size hLi rp (1 + i) (by omega) s hI
      refine ⟨s', hrun, by rw [show 1 + (i + 1) = 1 + i + 1 by omega]; exact hI', by rw [f1, e1],
        by rw [f2, e2], by rw [f3, e3], by rw [f4, e4], ?_⟩
      intro c hc
      by_cases hck : c = 1 + i
      · subst hck
        rw [f6, if_neg (by omega)]
      · rw [f5 c hck, e5 c hc]
        by_cases h0 : c = 0 ∨ 1 + i ≤ c
        · rw [if_pos h0, if_pos (by omega)]
        · rw [if_neg h0, if_neg (by omega)])
  refine ⟨s, ?_, by rw [show 1 + (n - 1) = n by omega] at hI; exact hI, e1, e2, e3, e4, ?_⟩
  · have hn0 : (n == 0) = false := by rw [beq_eq_false_iff_ne]; omega
    unfold factorInner
    simp only [hsizes, hn0, Bool.false_eq_true, ↓reduceIte, Bool.not_true, bind, Except.bind, pure, Except.pure,
      List.range'_eq_map_range, List.foldlM_map]
    exact hs
  · intro c hc
    rw [e5 c hc]
    by_cases h0 : c = 0
    · rw [if_pos (Or.inl h0), if_pos h0]
    · rw [if_neg (by omega), if_neg h0]

/-- `_factor` in logical mode: the all-ones buffers go in, `_factor_inner` (logical) runs -/
theorem factor_true_eq (F : Factorisation α) :
    factor F true =
      (factorInner F.triuA.n F.triuA.colptr F.triuA.rowval F.triuA.nzval F.L.rowval
        (Array.replicate F.L.nzval.size 1) (Array.replicate F.D.size 1) (Array.replicate F.Dinv.size 1)
        F.Lnz F.etree true F.rp).map (fun s =>
        { F with
          L := { F.L with colptr := s.Lp, rowval := s.Li, nzval := s.Lx },
          D := s.D, Dinv := s.Dinv, positiveInertia := s.positive, regularizeCount := s.regularizeCount }) := by
  unfold factor
  simp only [↓reduceIte]
  cases factorInner F.triuA.n F.triuA.colptr F.triuA.rowval F.triuA.nzval F.L.rowval
    (Array.replicate F.L.nzval.size 1) (Array.replicate F.D.size 1) (Array.replicate F.Dinv.size 1)
    F.Lnz F.etree true F.rp <;> rfl

end logical

end Clarabel.Qdldl
