/-
  Clique-graph merge strategy, JUNCTION-TREE LINK: THE CLIQUES OF `SuperNodeTree::new` ARE
  MAXIMAL — no clique `snode[a] ∪ separators[a]` is contained in another one — hence the live
  cliques form an antichain when the loop of the clique-graph strategy is entered
  (`CGAntichain`, `ChordalCGJunctionDefs.lean`).

  1. graph theory on a filled pattern (`LPat.Filled`):
     * `LPat.Filled.child_below`     : climbing the elimination tree from `v` to a row `x` of its
                                        column keeps every row of `col v` above `x`;
     * `LPat.Filled.exists_child_succ`: if `r ∈ col v` and `col r ⊆ col v` then `r` has a child `y`
                                        (in the elimination tree) with `|col y| = |col r| + 1`;
     * `SnCover.antichain_of_max`    : if no representative has such a child, the cliques form an
                                        antichain.
  2. the CONVERSE half of the Pothen–Sun invariant (`PSMax`): a vertex that is still a
     representative when the pass ends (`snode_index < 0`) has no child whose degree is one larger
     (`psSi` = the new `snode_index` in closed form, `ps_step_si`, `PSMax.step`, `ps_fold_max`,
     `pothen_sun_max_spec`, `find_supernodes_max_spec`).
  3. glue through `SuperNodeTree::new`: `sntree_new_max`, `sntree_new_antichain`,
     `initialise_antichain`.
-/
import ClarabelProofs.Lemmas.ChordalSnodeParent
import ClarabelProofs.Lemmas.ChordalCGJunctionDefs

namespace Clarabel.Chordal
open Clarabel

/-! ### 1. graph theory on a filled pattern -/

namespace LPat.Filled
variable {L : LPat}

/-- [S] climbing the elimination tree: a row `x` of column `v` is the parent of a vertex `y ≥ v`
whose column still contains every row of `col v` above `x` -/
theorem child_below (h : L.Filled) : ∀ v, v < L.n → ∀ x ∈ L.col v,
    ∃ y, y + 1 < L.n ∧ L.par y = x ∧ v ≤ y ∧ ∀ z ∈ L.col v, x < z → z ∈ L.col y := by
  have aux : ∀ k v, v < L.n → L.n = v + k → ∀ x ∈ L.col v,
      ∃ y, y + 1 < L.n ∧ L.par y = x ∧ v ≤ y ∧ ∀ z ∈ L.col v, x < z → z ∈ L.col y := by
    intro k
    induction k using Nat.strongRecOn with
    | _ k ih =>
      intro v hv hk x hx
      have hv1 := h.lt_of_mem_col hv hx
      have hpb := h.par_bounds hv1
      by_cases hxp : L.par v = x
      · exact ⟨v, hv1, hxp, Nat.le_refl _, fun z hz _ => hz⟩
      · have hxc := h.closure v hv1 x hx (Ne.symm hxp)
        obtain ⟨y, hy1, hyp, hle, hz⟩ :=
          ih (L.n - L.par v) (by omega) (L.par v) hpb.2 (by omega) x hxc
        refine ⟨y, hy1, hyp, by omega, ?_⟩
        intro z hzv hxz
        have hpx := h.par_le hv hx
        exact hz z (h.closure v hv1 z hzv (by omega)) hxz
  intro v hv
  exact aux (L.n - v) v hv (by omega)

/-- [S] if `r` is a row of column `v` and the whole column of `r` lies in column `v`, then `r` has
a child `y` in the elimination tree whose column count is one larger:
`col y = {r} ∪ col r` -/
theorem exists_child_succ (h : L.Filled) {v r : Nat} (hv : v < L.n) (hr : r ∈ L.col v)
    (hsub : ∀ z ∈ L.col r, z ∈ L.col v) :
    ∃ y, y + 1 < L.n ∧ L.par y = r ∧ (L.col y).length = (L.col r).length + 1 := by
  obtain ⟨y, hy1, hyp, _, hz⟩ := h.child_below v hv r hr
  have hrn : r < L.n := (h.lower v hv r hr).2
  have hyn : y < L.n := by omega
  refine ⟨y, hy1, hyp, ?_⟩
  have hrny : r ∉ L.col r := fun hm => by
    have := (h.lower r hrn r hm).1
    omega
  have hperm : (L.col y).Perm (r :: L.col r) := by
    rw [List.perm_ext_iff_of_nodup (h.col_nodup hyn)
      (List.nodup_cons.2 ⟨hrny, h.col_nodup hrn⟩)]
    intro z
    rw [List.mem_cons]
    constructor
    · intro hzy
      by_cases e : z = r
      · exact Or.inl e
      · right
        have := h.closure y hy1 z hzy (by rw [hyp]; exact e)
        rw [hyp] at this
        exact this
    · rintro (e | hzr)
      · rw [e, ← hyp]; exact h.par_mem (h.connected y hy1)
      · exact hz z (hsub z hzr) (h.lower r hrn z hzr).1
  rw [hperm.length_eq]
  rfl

end LPat.Filled

/-- [S] distinct supernodes of a cover are disjoint -/
theorem SnCover.disjoint {L : LPat} {snode separators : Array VSet}
    (hc : SnCover L snode separators) : ∀ a b, a < snode.size → b < snode.size → a ≠ b →
    ∀ v ∈ (snode.getD a #[]).toList, v ∉ (snode.getD b #[]).toList := by
  have hdisj0 : ∀ a b, a < snode.size → b < snode.size → a < b →
      List.Disjoint (snode.getD a #[]).toList (snode.getD b #[]).toList := by
    intro a b ha hb hab
    have hnd : (snode.toList.flatMap (fun sn => sn.toList)).Nodup :=
      hc.partition.nodup_iff.2 List.nodup_range
    have hpw := (List.nodup_flatMap.1 hnd).2
    rw [List.pairwise_iff_getElem] at hpw
    have := hpw a b (by simpa using ha) (by simpa using hb) hab
    have e1 : snode.toList[a]'(by simpa using ha) = snode.getD a #[] := by
      simp [Array.getD_eq_getD_getElem?, ha]
    have e2 : snode.toList[b]'(by simpa using hb) = snode.getD b #[] := by
      simp [Array.getD_eq_getD_getElem?, hb]
    rw [← e1, ← e2]; exact this
  intro a b ha hb hab v hva hvb
  rcases Nat.lt_or_gt_of_ne hab with hlt | hgt
  · exact hdisj0 a b ha hb hlt hva hvb
  · exact hdisj0 b a hb ha hgt hvb hva

/-- [S] **MAXIMALITY ⇒ ANTICHAIN** on a filled pattern: if no representative vertex (smallest
vertex of a supernode) has a child in the elimination tree whose column count is one larger,
then no clique `snode[a] ∪ separators[a]` is contained in another one -/
theorem SnCover.antichain_of_max {L : LPat} {snode separators : Array VSet}
    (hc : SnCover L snode separators) (h : L.Filled)
    (hmax : ∀ sn ∈ snode.toList, ∀ c, c + 1 < L.n → L.par c = minOf sn →
      (L.col c).length ≠ (L.col (minOf sn)).length + 1) :
    ∀ a b, a < snode.size → b < snode.size → a ≠ b →
      ∃ v, (v ∈ (snode.getD a #[]).toList ∨ v ∈ (separators.getD a #[]).toList) ∧
        ¬ (v ∈ (snode.getD b #[]).toList ∨ v ∈ (separators.getD b #[]).toList) := by
  intro a b ha hb hab
  by_contra hcon
  have hsub : ∀ v, (v ∈ (snode.getD a #[]).toList ∨ v ∈ (separators.getD a #[]).toList) →
      (v ∈ (snode.getD b #[]).toList ∨ v ∈ (separators.getD b #[]).toList) := by
    intro v hv
    by_contra hn
    exact hcon ⟨v, hv, hn⟩
  have hma := snp_getD_mem_toList snode #[] ha
  have hmb := snp_getD_mem_toList snode #[] hb
  have SA := hc.snode_of _ hma
  have SB := hc.snode_of _ hmb
  generalize hra : minOf (snode.getD a #[]) = ra at SA
  generalize hrb : minOf (snode.getD b #[]) = rb at SB
  have hran : ra < L.n := SA.lt ra SA.rep_mem
  have hrbn : rb < L.n := SB.lt rb SB.rep_mem
  have hsepa := (hc.sep_spec a ha).2
  have hsepb := (hc.sep_spec b hb).2
  rw [hra] at hsepa
  rw [hrb] at hsepb
  -- the representative of `a` is a row of the column of the representative of `b`
  have hrab : ra ∈ L.col rb := by
    rcases hsub ra (Or.inl SA.rep_mem) with h1 | h1
    · exact absurd h1 (hc.disjoint a b ha hb hab ra SA.rep_mem)
    · exact ((hsepb ra).1 h1).1
  have hlt1 := (h.lower rb hrbn ra hrab).1
  -- and its whole column lies in that column
  have hcol : ∀ z ∈ L.col ra, z ∈ L.col rb := by
    intro z hz
    have hlt2 := (h.lower ra hran z hz).1
    have hza : z ∈ (snode.getD a #[]).toList ∨ z ∈ (separators.getD a #[]).toList := by
      rcases SA.cover h ra SA.rep_mem z hz with h1 | h1
      · exact Or.inl h1
      · exact Or.inr ((hsepa z).2 h1)
    rcases hsub z hza with h1 | h1
    · exact SB.mem_col_rep h z h1 (by omega)
    · exact ((hsepb z).1 h1).1
  obtain ⟨y, hy1, hyp, hlen⟩ := h.exists_child_succ hrbn hrab hcol
  exact hmax _ hma y hy1 (by rw [hra]; exact hyp) (by rw [hra]; exact hlen)

/-! ### 2. the converse half of the Pothen–Sun invariant -/

/-- does the pass on `v` claim the parent of `v` for the supernode of `v`? -/
def psClaim (parent degree : Array Nat) (si : Array Int) (v : Nat) : Bool :=
  parent.getD v 0 != noParent &&
    (degree.getD v 0 - 1 == degree.getD (parent.getD v 0) 0 && si.getD (parent.getD v 0) 0 == -1)

/-- `snode_index` after the pass of the loop of `pothen_sun` on `v`, in closed form -/
def psSi (parent degree : Array Nat) (si : Array Int) (v : Nat) : Array Int :=
  if psClaim parent degree si v = true then
    if si.getD v 0 < 0 then
      (si.setIfInBounds (parent.getD v 0) (Int.ofNat v)).setIfInBounds v (si.getD v 0 - 1)
    else
      (si.setIfInBounds (parent.getD v 0) (si.getD v 0)).setIfInBounds (si.getD v 0).toNat
        (si.getD (si.getD v 0).toNat 0 - 1)
  else si

/-- [S] one pass of the loop of `pothen_sun` (hypotheses of `ps_step`): no panic, `PSInv` is kept,
and the new `snode_index` is `psSi` -/
theorem ps_step_si {parent degree : Array Nat} {n rootIndex : Nat} {done : List Nat} {st : PSState}
    {v : Nat} (hpar : EtreeParent parent n) (hdsz : degree.size = n)
    (hdpos : ∀ v, v + 1 < n → 0 < degree.getD v 0) (hr : rootIndex < n)
    (hinv : PSInv parent degree n done st) (hv : v < n) (hvd : v ∉ done)
    (hpd : parent.getD v 0 ∉ done) :
    ∃ st', pothenSunStep parent degree rootIndex st v = .ok st' ∧
      PSInv parent degree n (v :: done) st' ∧
      st'.snodeIndex = psSi parent degree st.snodeIndex v := by
  rw [pothenSunStep_eq, getE_ok' parent v _ 0 (by rw [hpar.size_eq]; exact hv), ok_bind']
  -- the children update
  have hch' : ∀ tgt, tgt < n →
      (st.children.setIfInBounds tgt ((st.children.getD tgt #[]).insert v)).size = n ∧
      ∀ p, p < n → ∀ w ∈ ((st.children.setIfInBounds tgt
        ((st.children.getD tgt #[]).insert v)).getD p #[]).toList, w < n := by
    intro tgt _
    refine ⟨by simpa using hinv.sz_ch, ?_⟩
    intro p hp w hw
    by_cases e : tgt = p
    · subst e
      rw [getD_set_self' _ _ _ _ (by rw [hinv.sz_ch]; exact hp), VSet.mem_insert] at hw
      rcases hw with hw | rfl
      · exact hinv.ch_lt tgt hp w hw
      · exact hv
    · rw [getD_set_ne' _ _ _ _ _ e] at hw
      exact hinv.ch_lt p hp w hw
  by_cases hroot : parent.getD v 0 = noParent
  · -- `v` is the root
    have hsi : psSi parent degree st.snodeIndex v = st.snodeIndex := by
      unfold psSi psClaim
      rw [if_neg (by simp [hroot])]
    have hb1 : (parent.getD v 0 == noParent) = true := by simp [hroot]
    have hb2 : (parent.getD v 0 != noParent) = false := by simp [hroot]
    simp only [hb1, hb2, if_true, Bool.false_eq_true, if_false]
    rw [getE_ok' st.children rootIndex _ #[] (by rw [hinv.sz_ch]; exact hr), ok_bind',
      setE_ok' _ _ _ _ (by rw [hinv.sz_ch]; exact hr), ok_bind']
    obtain ⟨h1, h2⟩ := hch' rootIndex hr
    obtain ⟨st', e1, e2, e3, _⟩ :=
      ps_tail_desc _ v _ st.snodeParent hv hinv.sz_si hinv.sz_sp h1 h2 (hinv.core.mono v)
    exact ⟨st', e1, e2, by rw [e3, hsi]⟩
  · -- `v` has the parent `p`
    have hv1 : v + 1 < n := by
      by_cases hl : v + 1 < n
      · exact hl
      · have : v = n - 1 := by omega
        subst this
        exact absurd hpar.root hroot
    obtain ⟨hvp, hp⟩ := hpar.up v hv1
    have hcl : psClaim parent degree st.snodeIndex v =
        (degree.getD v 0 - 1 == degree.getD (parent.getD v 0) 0 &&
          st.snodeIndex.getD (parent.getD v 0) 0 == -1) := by
      unfold psClaim
      have : (parent.getD v 0 != noParent) = true := bne_iff_ne.2 hroot
      rw [this, Bool.true_and]
    have hsiE : psSi parent degree st.snodeIndex v =
        if (degree.getD v 0 - 1 == degree.getD (parent.getD v 0) 0 &&
          st.snodeIndex.getD (parent.getD v 0) 0 == -1) = true then
          if st.snodeIndex.getD v 0 < 0 then
            (st.snodeIndex.setIfInBounds (parent.getD v 0) (Int.ofNat v)).setIfInBounds v
              (st.snodeIndex.getD v 0 - 1)
          else
            (st.snodeIndex.setIfInBounds (parent.getD v 0) (st.snodeIndex.getD v 0)).setIfInBounds
              (st.snodeIndex.getD v 0).toNat
              (st.snodeIndex.getD (st.snodeIndex.getD v 0).toNat 0 - 1)
        else st.snodeIndex := by
      unfold psSi
      rw [hcl]
    rw [hsiE]
    generalize hpdef : parent.getD v 0 = p at hroot hvp hp hpd
    have hb1 : (p == noParent) = false := by simp [hroot]
    have hb2 : (p != noParent) = true := by simp [hroot]
    simp only [hb1, hb2, if_true, Bool.false_eq_true, if_false]
    rw [getE_ok' st.children p _ #[] (by rw [hinv.sz_ch]; exact hp), ok_bind',
      setE_ok' _ _ _ _ (by rw [hinv.sz_ch]; exact hp), ok_bind']
    obtain ⟨h1, h2⟩ := hch' p hp
    rw [getE_ok' degree v _ 0 (by omega), ok_bind', getE_ok' degree p _ 0 (by omega), ok_bind']
    have hd0 := hdpos v hv1
    rw [if_neg (by omega)]
    rw [getE_ok' st.snodeIndex p _ 0 (by rw [hinv.sz_si]; exact hp), ok_bind',
      getE_ok' st.snodeIndex v _ 0 (by rw [hinv.sz_si]; exact hv), ok_bind']
    by_cases hcond : (degree.getD v 0 - 1 == degree.getD p 0 && st.snodeIndex.getD p 0 == -1) = true
    · rw [if_pos hcond, if_pos hcond]
      have hdeg : degree.getD v 0 = degree.getD p 0 + 1 := by
        simp only [Bool.and_eq_true, beq_iff_eq] at hcond
        omega
      by_cases hsiv : st.snodeIndex.getD v 0 < 0
      · rw [if_pos hsiv, if_pos hsiv, setE_ok' _ _ _ _ (by rw [hinv.sz_si]; exact hp), ok_bind',
          setE_ok' _ _ _ _ (by rw [Array.size_setIfInBounds, hinv.sz_si]; exact hv), ok_bind']
        obtain ⟨st', e1, e2, e3, _⟩ :=
          ps_tail_desc _ v _ st.snodeParent hv (by simp; exact hinv.sz_si) hinv.sz_sp h1 h2
            (hinv.core.caseA hinv.sz_si hv hp (by omega) hvd hpd hpdef hdeg hsiv)
        exact ⟨st', e1, e2, e3⟩
      · rw [if_neg hsiv, if_neg hsiv]
        have h0 : 0 ≤ st.snodeIndex.getD v 0 := by omega
        obtain ⟨hr', hsr, hrd⟩ := hinv.core.target v hv h0
        have hrp : (st.snodeIndex.getD v 0).toNat ≠ p := fun e => hpd (e ▸ hrd)
        rw [setE_ok' _ _ _ _ (by rw [hinv.sz_si]; exact hp), ok_bind',
          getE_ok' _ _ _ 0 (by rw [Array.size_setIfInBounds, hinv.sz_si]; exact hr'), ok_bind',
          setE_ok' _ _ _ _ (by rw [Array.size_setIfInBounds, hinv.sz_si]; exact hr'), ok_bind',
          getD_set_ne' _ _ _ _ _ (Ne.symm hrp)]
        obtain ⟨st', e1, e2, e3, _⟩ :=
          ps_tail_desc _ v _ st.snodeParent hv (by simp; exact hinv.sz_si) hinv.sz_sp h1 h2
            (hinv.core.caseB hinv.sz_si hv hp (by omega) hvd hpd hpdef hdeg h0)
        exact ⟨st', e1, e2, e3⟩
    · rw [if_neg hcond, if_neg hcond]
      by_cases hsiv : st.snodeIndex.getD v 0 < 0
      · rw [if_pos hsiv, setE_ok' _ _ _ _ (by rw [hinv.sz_sp]; exact hv), ok_bind']
        obtain ⟨st', e1, e2, e3, _⟩ :=
          ps_tail_desc _ v st.snodeIndex (st.snodeParent.setIfInBounds v v) hv hinv.sz_si
            (by simp; exact hinv.sz_sp) h1 h2 (hinv.core.mono v)
        exact ⟨st', e1, e2, e3⟩
      · rw [if_neg hsiv]
        have h0 : 0 ≤ st.snodeIndex.getD v 0 := by omega
        obtain ⟨hr', _, _⟩ := hinv.core.target v hv h0
        rw [setE_ok' _ _ _ _ (by rw [hinv.sz_sp]; exact hr'), ok_bind']
        obtain ⟨st', e1, e2, e3, _⟩ :=
          ps_tail_desc _ v st.snodeIndex (st.snodeParent.setIfInBounds
            (st.snodeIndex.getD v 0).toNat (st.snodeIndex.getD v 0).toNat) hv hinv.sz_si
            (by simp; exact hinv.sz_sp) h1 h2 (hinv.core.mono v)
        exact ⟨st', e1, e2, e3⟩

/-- the converse half of the invariant of `pothen_sun` after processing the vertices `done` -/
structure PSMax (parent degree : Array Nat) (n : Nat) (done : List Nat) (si : Array Int) : Prop where
  /-- an unprocessed vertex is untouched or claimed (never a counting representative) -/
  fresh : ∀ x, x < n → x ∉ done → si.getD x 0 = -1 ∨ 0 ≤ si.getD x 0
  /-- the parent of a processed vertex whose degree is one larger has been claimed -/
  claimed : ∀ c ∈ done, c < n → parent.getD c 0 < n →
    degree.getD c 0 = degree.getD (parent.getD c 0) 0 + 1 → 0 ≤ si.getD (parent.getD c 0) 0

/-- [S] the initial `snode_index` satisfies `PSMax` -/
theorem PSMax.init (parent degree : Array Nat) (n : Nat) :
    PSMax parent degree n [] (Array.replicate n (-1)) where
  fresh := by
    intro x hx _
    left
    simp [Array.getD_eq_getD_getElem?, hx]
  claimed := by
    intro c hc
    simp at hc

/-- [S] one pass of the loop keeps `PSMax` -/
theorem PSMax.step {parent degree : Array Nat} {n : Nat} {done : List Nat} {si : Array Int}
    {v : Nat} (hm : PSMax parent degree n done si) (hcore : PSCore parent degree n done si)
    (hsz : si.size = n) (hnn : n < noParent) (hv : v < n) (hvd : v ∉ done)
    (hpd : parent.getD v 0 ∉ done)
    (hup : parent.getD v 0 ≠ noParent → v < parent.getD v 0 ∧ parent.getD v 0 < n) :
    PSMax parent degree n (v :: done) (psSi parent degree si v) := by
  generalize hpdef : parent.getD v 0 = p at hpd hup
  by_cases hcl : psClaim parent degree si v = true
  · -- the parent is claimed
    have hcl' := hcl
    unfold psClaim at hcl'
    rw [hpdef] at hcl'
    simp only [Bool.and_eq_true, bne_iff_ne, ne_eq, beq_iff_eq] at hcl'
    obtain ⟨hnp, _, hsip⟩ := hcl'
    obtain ⟨hvp, hp⟩ := hup hnp
    have hpv : p ≠ v := by omega
    by_cases hsiv : si.getD v 0 < 0
    · -- case A
      have e : psSi parent degree si v =
          (si.setIfInBounds p (Int.ofNat v)).setIfInBounds v (si.getD v 0 - 1) := by
        unfold psSi
        rw [if_pos hcl, if_pos hsiv, hpdef]
      rw [e]
      have gp : ((si.setIfInBounds p (Int.ofNat v)).setIfInBounds v (si.getD v 0 - 1)).getD p 0 =
          Int.ofNat v := by
        rw [getD_set_ne' _ _ _ _ _ (Ne.symm hpv), getD_set_self' _ _ _ _ (by omega)]
      have go : ∀ x, x ≠ v → x ≠ p →
          ((si.setIfInBounds p (Int.ofNat v)).setIfInBounds v (si.getD v 0 - 1)).getD x 0 =
            si.getD x 0 := by
        intro x h1 h2
        rw [getD_set_ne' _ _ _ _ _ (Ne.symm h1), getD_set_ne' _ _ _ _ _ (Ne.symm h2)]
      have hp0 : (0 : Int) ≤ Int.ofNat v := Int.natCast_nonneg v
      refine ⟨?_, ?_⟩
      · intro x hx hxd
        have hxv : x ≠ v := fun e' => hxd (e' ▸ List.mem_cons_self ..)
        by_cases exp : x = p
        · right; rw [exp, gp]; exact hp0
        · rw [go x hxv exp]
          exact hm.fresh x hx (fun hd => hxd (List.mem_cons_of_mem _ hd))
      · intro c hc hcn hq hdeg
        have key : ∀ q, q = p ∨ (q ≠ v ∧ 0 ≤ si.getD q 0) →
            0 ≤ ((si.setIfInBounds p (Int.ofNat v)).setIfInBounds v (si.getD v 0 - 1)).getD q 0 := by
          intro q hq'
          by_cases eqp : q = p
          · rw [eqp, gp]; exact hp0
          · rcases hq' with e' | ⟨h1, h2⟩
            · exact absurd e' eqp
            · rw [go q h1 eqp]; exact h2
        rcases List.mem_cons.1 hc with ecv | hcd
        · apply key; left; rw [ecv, hpdef]
        · have h0 := hm.claimed c hcd hcn hq hdeg
          apply key
          right
          refine ⟨fun e' => ?_, h0⟩
          rw [e'] at h0
          omega
    · -- case B
      have h0 : 0 ≤ si.getD v 0 := by omega
      obtain ⟨hr, hsr, hrd⟩ := hcore.target v hv h0
      have e : psSi parent degree si v =
          (si.setIfInBounds p (si.getD v 0)).setIfInBounds (si.getD v 0).toNat
            (si.getD (si.getD v 0).toNat 0 - 1) := by
        unfold psSi
        rw [if_pos hcl, if_neg hsiv, hpdef]
      rw [e]
      generalize hrdef : (si.getD v 0).toNat = r at hr hsr hrd
      have hrp : r ≠ p := fun e' => hpd (e' ▸ hrd)
      have gp : ((si.setIfInBounds p (si.getD v 0)).setIfInBounds r (si.getD r 0 - 1)).getD p 0 =
          si.getD v 0 := by
        rw [getD_set_ne' _ _ _ _ _ hrp, getD_set_self' _ _ _ _ (by omega)]
      have go : ∀ x, x ≠ r → x ≠ p →
          ((si.setIfInBounds p (si.getD v 0)).setIfInBounds r (si.getD r 0 - 1)).getD x 0 =
            si.getD x 0 := by
        intro x h1 h2
        rw [getD_set_ne' _ _ _ _ _ (Ne.symm h1), getD_set_ne' _ _ _ _ _ (Ne.symm h2)]
      refine ⟨?_, ?_⟩
      · intro x hx hxd
        have hxr : x ≠ r := fun e' => hxd (e' ▸ List.mem_cons_of_mem _ hrd)
        by_cases exp : x = p
        · right; rw [exp, gp]; exact h0
        · rw [go x hxr exp]
          exact hm.fresh x hx (fun hd => hxd (List.mem_cons_of_mem _ hd))
      · intro c hc hcn hq hdeg
        have key : ∀ q, q = p ∨ (q ≠ r ∧ 0 ≤ si.getD q 0) →
            0 ≤ ((si.setIfInBounds p (si.getD v 0)).setIfInBounds r (si.getD r 0 - 1)).getD q 0 := by
          intro q hq'
          by_cases eqp : q = p
          · rw [eqp, gp]; exact h0
          · rcases hq' with e' | ⟨h1, h2⟩
            · exact absurd e' eqp
            · rw [go q h1 eqp]; exact h2
        rcases List.mem_cons.1 hc with ecv | hcd
        · apply key; left; rw [ecv, hpdef]
        · have h0' := hm.claimed c hcd hcn hq hdeg
          apply key
          right
          refine ⟨fun e' => ?_, h0'⟩
          rw [e'] at h0'
          omega
  · -- `snode_index` is not touched
    have e : psSi parent degree si v = si := by
      unfold psSi
      rw [if_neg hcl]
    rw [e]
    refine ⟨fun x hx hxd => hm.fresh x hx (fun hd => hxd (List.mem_cons_of_mem _ hd)), ?_⟩
    intro c hc hcn hq hdeg
    rcases List.mem_cons.1 hc with ecv | hcd
    · subst ecv
      rw [hpdef] at hq hdeg ⊢
      have hne : si.getD p 0 ≠ -1 := by
        intro hs
        apply hcl
        unfold psClaim
        rw [hpdef]
        simp only [Bool.and_eq_true, bne_iff_ne, ne_eq, beq_iff_eq]
        exact ⟨by omega, by omega, hs⟩
      rcases hm.fresh p hq hpd with h1 | h1
      · exact absurd h1 hne
      · exact h1
    · exact hm.claimed c hcd hcn hq hdeg

/-- [S] the pass over a list of vertices in which nobody is listed twice, nor before one of its
children: no panic, `PSInv` and `PSMax` are kept -/
theorem ps_fold_max {parent degree : Array Nat} {n rootIndex : Nat} (hpar : EtreeParent parent n)
    (hdsz : degree.size = n) (hdpos : ∀ v, v + 1 < n → 0 < degree.getD v 0) (hr : rootIndex < n) :
    ∀ (todo done : List Nat) (st : PSState), PSInv parent degree n done st →
      PSMax parent degree n done st.snodeIndex → todo.Nodup →
      (∀ v ∈ todo, v < n ∧ v ∉ done ∧ parent.getD v 0 ∉ done) →
      todo.Pairwise (fun a b => parent.getD b 0 ≠ a) →
      ∃ st', todo.foldlM (pothenSunStep parent degree rootIndex) st = .ok st' ∧
        PSInv parent degree n (todo.reverse ++ done) st' ∧
        PSMax parent degree n (todo.reverse ++ done) st'.snodeIndex := by
  have hnn : n < noParent := by
    have := hpar.n_small
    have : inactiveNode < noParent := by decide
    omega
  intro todo
  induction todo with
  | nil => intro done st h hm _ _ _; exact ⟨st, rfl, by simpa using h, by simpa using hm⟩
  | cons v rest ih =>
    intro done st hinv hmax hnd hmem hpw
    obtain ⟨hv, hvd, hpd⟩ := hmem v (List.mem_cons_self ..)
    obtain ⟨st1, h1, hinv1, hsi1⟩ := ps_step_si hpar hdsz hdpos hr hinv hv hvd hpd
    have hmax1 : PSMax parent degree n (v :: done) st1.snodeIndex := by
      rw [hsi1]
      refine hmax.step hinv.core hinv.sz_si hnn hv hvd hpd ?_
      intro hnp
      have hv1 : v + 1 < n := by
        by_cases hl : v + 1 < n
        · exact hl
        · have : v = n - 1 := by omega
          subst this
          exact absurd hpar.root hnp
      exact hpar.up v hv1
    have hnd' := List.nodup_cons.1 hnd
    have hpw' := List.pairwise_cons.1 hpw
    obtain ⟨st2, h2, hinv2, hmax2⟩ := ih (v :: done) st1 hinv1 hmax1 hnd'.2 (fun w hw => by
      obtain ⟨a, b, c⟩ := hmem w (List.mem_cons_of_mem _ hw)
      refine ⟨a, ?_, ?_⟩
      · intro hm
        rcases List.mem_cons.1 hm with e | hm
        · exact hnd'.1 (e ▸ hw)
        · exact b hm
      · intro hm
        rcases List.mem_cons.1 hm with e | hm
        · exact hpw'.1 w hw e
        · exact c hm) hpw'.2
    have e : (v :: rest).reverse ++ done = rest.reverse ++ (v :: done) := by simp
    refine ⟨st2, ?_, ?_, ?_⟩
    · rw [List.foldlM_cons, h1, ok_bind']; exact h2
    · rw [e]; exact hinv2
    · rw [e]; exact hmax2

/-- [S] `pothen_sun` under the hypotheses of `pothen_sun_spec`: no panic, and the returned
`snode_index` satisfies `PSCore` and its converse `PSMax` -/
theorem pothen_sun_max_spec {parent post degree : Array Nat} {n : Nat}
    (hpar : EtreeParent parent n) (hdsz : degree.size = n)
    (hdpos : ∀ v, v + 1 < n → 0 < degree.getD v 0)
    (hnd : post.toList.Nodup) (hlt : ∀ v ∈ post.toList, v < n)
    (hpw : post.toList.Pairwise (fun a b => parent.getD b 0 ≠ a)) :
    ∃ sp si, pothenSun parent post degree = .ok (sp, si) ∧ si.size = n ∧
      PSCore parent degree n post.toList.reverse si ∧
      PSMax parent degree n post.toList.reverse si := by
  have hn := hpar.n_pos
  obtain ⟨st, hf, hinv, hmax⟩ := ps_fold_max hpar hdsz hdpos (show n - 1 < n by omega)
    post.toList [] _ (ps_init parent degree n) (PSMax.init parent degree n) hnd
    (fun v hv => ⟨hlt v hv, by simp, by simp⟩) hpw
  unfold pothenSun
  rw [hpar.findIdx_root]
  simp only [hpar.size_eq]
  show ∃ sp si, (List.foldlM (pothenSunStep parent degree (n - 1)) _ post.toList >>= _) = _ ∧ _
  rw [hf, ok_bind']
  refine ⟨_, _, rfl, hinv.sz_si, ?_, ?_⟩
  · simpa using hinv.core
  · simpa using hmax

/-- [S] **`find_supernodes`, MAXIMALITY**: under the hypotheses of `find_supernodes_spec` and a
post-order that lists every vertex, the result satisfies `Supernodes`, and every returned
supernode has a representative `r` (the `r` of `Supernodes.pred`) WITHOUT a child in the
elimination tree whose degree is one larger -/
theorem find_supernodes_max_spec {parent post degree : Array Nat} {n : Nat}
    (hpar : EtreeParent parent n) (hdsz : degree.size = n)
    (hdpos : ∀ v, v + 1 < n → 0 < degree.getD v 0)
    (hnd : post.toList.Nodup) (hlt : ∀ v ∈ post.toList, v < n)
    (hpw : post.toList.Pairwise (fun a b => parent.getD b 0 ≠ a))
    (hall : ∀ v, v < n → v ∈ post.toList) :
    ∃ snode sparent, findSupernodes parent post degree = .ok (snode, sparent) ∧
      Supernodes parent degree n snode ∧
      ∀ sn ∈ snode.toList, ∃ r ∈ sn.toList,
        (∀ x ∈ sn.toList, x ≠ r → ∃ c ∈ sn.toList, c < n ∧ parent.getD c 0 = x ∧
          degree.getD c 0 = degree.getD x 0 + 1) ∧
        (∀ c, c < n → parent.getD c 0 = r → degree.getD c 0 ≠ degree.getD r 0 + 1) := by
  obtain ⟨sp, si, hps, hsz, hcore, hmax⟩ := pothen_sun_max_spec hpar hdsz hdpos hnd hlt hpw
  obtain ⟨b, hf, hbsz, hb⟩ := fs_fold' si n (fun i hi => hcore.repOf_lt hi) n (Nat.le_refl _)
  have hrun : findSupernodes parent post degree =
      .ok ((b.toList.filter (fun s => !s.isEmpty)).toArray, sp) := by
    unfold findSupernodes
    rw [hps, ok_bind']
    simp only [hsz, hpar.size_eq]
    show ((List.range n).foldlM (fsStep' si) (Array.replicate n #[]) >>= _) = _
    rw [hf, ok_bind']
    rfl
  obtain ⟨snode0, sp0, hrun0, hSn⟩ := find_supernodes_spec hpar hdsz hdpos hnd hlt hpw
  rw [hrun] at hrun0
  injection hrun0 with hrun0
  injection hrun0 with e1 e2
  subst e1
  refine ⟨_, sp, hrun, hSn, ?_⟩
  intro sn hsn
  have hsn' : sn ∈ b.toList.filter (fun s => !s.isEmpty) := by simpa using hsn
  obtain ⟨hm, _⟩ := List.mem_filter.1 hsn'
  have hne := hSn.nonempty sn hsn
  obtain ⟨r, hr, e⟩ := List.getElem_of_mem hm
  have hr' : r < b.size := by simpa using hr
  have hrn : r < n := by omega
  have esn : sn = b.getD r #[] := by
    rw [← e]
    simp [Array.getD_eq_getD_getElem?, hr']
  subst esn
  -- the bucket is non-empty, so `r` is a representative and belongs to it
  obtain ⟨i, hi⟩ := List.exists_mem_of_ne_nil _ hne
  obtain ⟨hin, hir⟩ := ((hb r hrn).2 i).1 hi
  have hrneg : si.getD r 0 < 0 := hir ▸ hcore.rep_neg i hin
  refine ⟨r, ((hb r hrn).2 r).2 ⟨hrn, repOf_neg hrneg⟩, ?_, ?_⟩
  · intro x hx hxr
    obtain ⟨hxn, hxrep⟩ := ((hb r hrn).2 x).1 hx
    have hx0 : 0 ≤ si.getD x 0 := by
      by_contra hneg
      have : repOf si x = x := repOf_neg (by omega)
      omega
    obtain ⟨c, _, hcn, hcp, hcd, hcr⟩ := hcore.claimed x hxn hx0
    have : repOf si x = (si.getD x 0).toNat := repOf_nonneg hx0
    exact ⟨c, ((hb r hrn).2 c).2 ⟨hcn, by omega⟩, hcn, hcp, hcd⟩
  · intro c hcn hcp hcd
    have := hmax.claimed c (List.mem_reverse.2 (hall c hcn)) hcn (by rw [hcp]; exact hrn)
      (by rw [hcp]; exact hcd)
    rw [hcp] at this
    omega

/-! ### 3. glue through `SuperNodeTree::new` -/

/-- [S] **THE REPRESENTATIVES OF `SuperNodeTree::new` ARE MAXIMAL**: on a filled pattern the
smallest vertex of every supernode has no child in the elimination tree whose column count is
one larger -/
theorem sntree_new_max {L : LPat} (h : L.Filled) {t0 : SuperNodeTree}
    (hnew : SuperNodeTree.new L = .ok t0) :
    ∀ sn ∈ t0.snode.toList, ∀ c, c + 1 < L.n → L.par c = minOf sn →
      (L.col c).length ≠ (L.col (minOf sn)).length + 1 := by
  obtain ⟨parent, children, post, children', degree, h1, h2, h3, h4, hpar, hp, hdsz, hd, hdpos,
    hpnd, hplt, hpw, hpall, _⟩ := sntree_front_full h
  obtain ⟨snode, sparent, hfs, hsn, hmx⟩ :=
    find_supernodes_max_spec hpar hdsz hdpos hpnd hplt hpw hpall
  have hsnode : t0.snode = snode := by
    unfold SuperNodeTree.new at hnew
    rw [h1, ok_bind', h2, ok_bind', h3, ok_bind'] at hnew
    simp only [] at hnew
    rw [h4, ok_bind', hfs, ok_bind'] at hnew
    simp only [] at hnew
    cases hc : childrenFromParent sparent with
    | error e => rw [hc] at hnew; cases hnew
    | ok sc =>
      rw [hc, ok_bind'] at hnew
      cases hq : postOrder sparent sc sparent.size with
      | error e => rw [hq] at hnew; cases hnew
      | ok pr =>
        obtain ⟨spost, sc'⟩ := pr
        rw [hq, ok_bind'] at hnew
        simp only [] at hnew
        cases hs : findSeparators L snode with
        | error e => rw [hs] at hnew; cases hnew
        | ok seps =>
          rw [hs, ok_bind'] at hnew
          injection hnew with hnew
          subst hnew
          rfl
  rw [hsnode]
  intro sn hsnm c hc1 hpc hlen
  obtain ⟨r, hr, hpred, hno⟩ := hmx sn hsnm
  -- `r` is the smallest vertex of `sn`
  have hso : SnodeOf L sn.toList r := by
    refine ⟨hr, hsn.lt sn hsnm, ?_⟩
    intro x hx hxr
    obtain ⟨c', hc', hcn, hcp, hcd⟩ := hpred x hx hxr
    have hxn := hsn.lt sn hsnm x hx
    have hc1' : c' + 1 < L.n := by
      by_contra hlast
      have : c' = L.n - 1 := by omega
      subst this
      have := hpar.root
      have := hpar.lt_noParent hxn
      omega
    refine ⟨c', hc', hc1', (hp c' hc1').symm.trans hcp, ?_⟩
    rw [← hd c' hcn, ← hd x hxn]; exact hcd
  have hmin := minOf_spec sn (hsn.nonempty sn hsnm)
  have hle1 := hso.rep_le h _ hmin.1
  have hle2 := hmin.2 r hr
  have hrm : minOf sn = r := by omega
  rw [hrm] at hpc hlen
  have hrn : r < L.n := hsn.lt sn hsnm r hr
  refine hno c (by omega) ((hp c hc1).trans hpc) ?_
  rw [hd c (by omega), hd r hrn]
  exact hlen

/-- [S] **THE CLIQUES OF `SuperNodeTree::new` FORM AN ANTICHAIN**: on a filled pattern no clique
`snode[a] ∪ separators[a]` of the tree returned by `SuperNodeTree::new` is contained in another
one (they are the maximal cliques of the filled graph) -/
theorem sntree_new_antichain {L : LPat} (h : L.Filled) {t0 : SuperNodeTree}
    (hnew : SuperNodeTree.new L = .ok t0) :
    ∀ a b, a < t0.snode.size → b < t0.snode.size → a ≠ b →
      ∃ v ∈ cliqueList t0 a, v ∉ cliqueList t0 b := by
  intro a b ha hb hab
  obtain ⟨v, h1, h2⟩ :=
    (sntree_new_cover h hnew).1.antichain_of_max h (sntree_new_max h hnew) a b ha hb hab
  refine ⟨v, ?_, ?_⟩
  · unfold cliqueList; exact List.mem_append.2 h1
  · unfold cliqueList; exact fun hm => h2 (List.mem_append.1 hm)

/-- [S] **… hence after `initialise` of the clique-graph strategy the live cliques form an
antichain** (`CGInitRel` is what `initialise` establishes, `ChordalCGInit.lean`) -/
theorem initialise_antichain {L : LPat} (h : L.Filled) {t0 : SuperNodeTree}
    (hnew : SuperNodeTree.new L = .ok t0) {t1 : SuperNodeTree}
    (hrel : CGInitRel t0 t1) : CGAntichain t1 := by
  intro a b hla hlb hab
  obtain ⟨v, h1, h2⟩ := sntree_new_antichain h hnew a b (hrel.size ▸ hla.1) (hrel.size ▸ hlb.1) hab
  exact ⟨v, (hrel.clique a v).2 h1, fun hm => h2 ((hrel.clique b v).1 hm)⟩

/-! ### non-vacuity -/

/-- non-vacuity of `sntree_new_max` / `sntree_new_antichain`: `exFilledL` is filled and
`SuperNodeTree::new` succeeds on it -/
example : ∃ t0, SuperNodeTree.new exFilledL = .ok t0 ∧
    ∀ a b, a < t0.snode.size → b < t0.snode.size → a ≠ b →
      ∃ v ∈ cliqueList t0 a, v ∉ cliqueList t0 b := by
  obtain ⟨t0, hnew, _⟩ := sntree_new_ok exFilledL_filled
  exact ⟨t0, hnew, sntree_new_antichain exFilledL_filled hnew⟩

/-- non-vacuity of `initialise_antichain`: the relation `CGInitRel` is satisfiable for the tree of
`exFilledL` (witness: every supernode replaced by its whole clique) -/
example : ∃ t0 t1, SuperNodeTree.new exFilledL = .ok t0 ∧ CGInitRel t0 t1 ∧ CGAntichain t1 := by
  obtain ⟨t0, hnew, hok⟩ := sntree_new_ok exFilledL_filled
  have hsz : t0.separators.size = t0.snode.size := by rw [hok.cover.sep_eq]; simp
  have hrel : CGInitRel t0 { t0 with
      snode := ((List.range t0.snode.size).map (fun c => (cliqueList t0 c).toArray)).toArray
      snodeParent := Array.replicate t0.snodeParent.size inactiveNode
      snodeChildren := Array.replicate t0.snodeParent.size #[] } := by
    refine ⟨by simp, ?_, rfl, rfl, List.Perm.refl _, rfl, rfl, rfl, rfl⟩
    intro c v
    by_cases hc : c < t0.snode.size
    · simp [Array.getD_eq_getD_getElem?, hc]
    · have e : cliqueList t0 c = [] := by
        unfold cliqueList
        simp [Array.getD_eq_getD_getElem?, hc, hsz]
      rw [e]
      simp [Array.getD_eq_getD_getElem?, hc]
  exact ⟨t0, _, hnew, hrel, initialise_antichain exFilledL_filled hnew hrel⟩

/-- non-vacuity of `ps_fold_max` / `pothen_sun_max_spec` / `find_supernodes_max_spec`: their
hypotheses hold for the elimination tree, degrees and post-order of `exFilledL` -/
example : ∃ parent post degree snode sparent,
    findSupernodes parent post degree = .ok (snode, sparent) ∧
    ∀ sn ∈ snode.toList, ∃ r ∈ sn.toList,
      ∀ c, c < 5 → parent.getD c 0 = r → degree.getD c 0 ≠ degree.getD r 0 + 1 := by
  obtain ⟨parent, _, post, _, degree, _, _, _, _, hpar, _, hdsz, _, hdpos, hpnd, hplt, hpw, hpall,
    _⟩ := sntree_front_full exFilledL_filled
  obtain ⟨snode, sparent, h1, _, h3⟩ :=
    find_supernodes_max_spec hpar hdsz hdpos hpnd hplt hpw hpall
  refine ⟨parent, post, degree, snode, sparent, h1, fun sn hsn => ?_⟩
  obtain ⟨r, hr, _, h4⟩ := h3 sn hsn
  exact ⟨r, hr, h4⟩

/-- non-vacuity of `SnCover.antichain_of_max` and `LPat.Filled.exists_child_succ` /
`child_below`: on `exFilledL` vertex `2` is a row of column `0`, its column `{4}` is not inside
column `0 = {1, 2}` — whereas column `2 = {4}` lies in column `1 = {2, 4}`, and indeed `2` has
the child `1` with one more entry -/
example : ∃ y, y + 1 < exFilledL.n ∧ exFilledL.par y = 2 ∧
    (exFilledL.col y).length = (exFilledL.col 2).length + 1 :=
  exFilledL_filled.exists_child_succ (v := 1) (r := 2) (by decide) (by decide) (by decide)

end Clarabel.Chordal
