/-
  **The dense symmetric meaning of the assembled + updated + regularised KKT matrix is `listKkt`.**

  For the model's own `assemble_kkt_matrix` (upper triangle), `update` (`Kkt.updateValues` with
  scaling data that have the layout of the cone list) and the `± ε` writes of
  `regularize_and_refactor` (`Kkt.regularizeAndRestore` with the signs of `_fill_signs`):

  * `updated_*`            : the blocks of the symmetric meaning after `update`;
  * `assembled_symOf_eq_listKkt` : `symOf {K with nzval := nzF} (flatPos a) (flatPos b)
        = listKkt Pd ep B H V e ε a b` for all structured indices `a, b`, with
        `Pd = symOf P`, `H i = coneH` (the Hs block of cone `i`), `V i = coneV`, `e i = ep = coneE`
        (explicit functions of the scaling data), `B` the coupling block (rows of `A`, `+` auxiliary
        columns) as stored, `ε = r.eps`;
  * `assembled_quasiDefGE` : hence the symmetric meaning, indexed by `Fin K.n`, is quasidefinite
        with margin `ε` for the sign pattern of `_fill_signs` as soon as `P ⪰ 0` and every cone's
        bordered block has a nonnegative form.
-/
import ClarabelModel.Kkt
import ClarabelProofs.Lemmas.KktSymOfValues
import ClarabelProofs.Lemmas.KktInertiaList
import ClarabelProofs.Lemmas.KktUpdateTotal
import Mathlib.Data.List.Forall2

set_option linter.unusedSectionVars false
set_option linter.unusedVariables false

namespace Clarabel.Lemmas.KktSymOfMain
open Clarabel Clarabel.Csc Clarabel.Kkt Clarabel.Qdldl
open Clarabel.Lemmas.KktPlace Clarabel.Lemmas.KktSlots Clarabel.Lemmas.KktFillMaps
open Clarabel.Lemmas.KktTotal Clarabel.Lemmas.KktFinal Clarabel.Lemmas.KktIntended
open Clarabel.Lemmas.KktSpec Clarabel.Lemmas.KktSymOfIdx Clarabel.Lemmas.KktSymOfEntries
open Clarabel.Lemmas.KktSymOfValues
open Clarabel.Lemmas.KktInertia Clarabel.Lemmas.KktInertiaList
open Clarabel.Lemmas.KktInertiaCones Clarabel.Lemmas.KktSigns
open Clarabel.Lemmas.KktUpdateAsm Clarabel.Lemmas.KktUpdateSchur
open Clarabel.Lemmas.KktSorted (Canon IsTriu missingDiag)
open Clarabel.Lemmas.KktDistinct (pre pre_succ_le pre_le_total decomp_at)

-- ====================================================================================
-- the scaling data / Hs block of the cone at a position
-- ====================================================================================

section atpos
variable {α : Type} [Field α] [LinearOrder α] [IsStrictOrderedRing α] [FloatLike α]

/-- the scaling data of the cone at position `i` -/
def scalAt (scal : List (ConeScaling α)) (i : Nat) : ConeScaling α := scal.getD i (.zero 0)

/-- the `get_Hs` vector of the cone at position `i` -/
def blockAt (blocks : List (Array α)) (i : Nat) : Array α := blocks.getD i #[]

theorem layout_at {scal : List (ConeScaling α)} {cones : List ConeSpec}
    (hfits : LayoutFits scal cones) (i : Nat) (hi : i < cones.length) :
    ∃ hi' : i < scal.length, scal = scal.take i ++ scal[i] :: scal.drop (i + 1) ∧
      LayoutFits (scal.take i) (cones.take i) ∧ ScalingFits scal[i] cones[i] ∧
      scalAt scal i = scal[i] := by
  have hlen : scal.length = cones.length := List.Forall₂.length_eq hfits
  have hi' : i < scal.length := by omega
  refine ⟨hi', ?_, List.forall₂_take i hfits, ?_, ?_⟩
  · rw [← List.drop_eq_getElem_cons hi', List.take_append_drop]
  · have := List.Forall₂.get hfits hi' hi
    simpa using this
  · unfold scalAt
    simp [List.getD_eq_getElem?_getD, hi']

theorem block_at {scal : List (ConeScaling α)} {blocks : List (Array α)}
    (hget : scal.mapM getHs = .ok blocks) (i : Nat) (hi' : i < scal.length) {b : Array α}
    (hb : getHs scal[i] = .ok b) : blockAt blocks i = b := by
  obtain ⟨_, hpt⟩ := Clarabel.Lemmas.KktFillBlock.mapM_ok getHs scal blocks hget
  obtain ⟨y, hy, hfy⟩ := hpt i scal[i] (List.getElem?_eq_getElem hi')
  rw [hb] at hfy
  cases hfy
  unfold blockAt
  simp [List.getD_eq_getElem?_getD, hy]

/-- a cone is a sparse second-order cone, a generalised power cone, or has no expansion -/
theorem cone_kind (c : ConeSpec) :
    (∃ d, c = .soc d ∧ d > socNoExpansionMaxSize) ∨ (∃ a b, c = .genpow a b) ∨
      (nMinus c = 0 ∧ nPlus c = 0) := by
  cases c with
  | soc d =>
    by_cases hd : d > socNoExpansionMaxSize
    · exact Or.inl ⟨d, rfl, hd⟩
    · right; right
      simp [nMinus, nPlus, ConeSpec.isSparseExpandable, hd]
  | genpow a b => exact Or.inr (Or.inl ⟨a, b, rfl⟩)
  | zero d => right; right; simp [nMinus, nPlus, ConeSpec.isSparseExpandable]
  | nonneg d => right; right; simp [nMinus, nPlus, ConeSpec.isSparseExpandable]
  | exp => right; right; simp [nMinus, nPlus, ConeSpec.isSparseExpandable]
  | pow => right; right; simp [nMinus, nPlus, ConeSpec.isSparseExpandable]
  | psd n => right; right; simp [nMinus, nPlus, ConeSpec.isSparseExpandable]

end atpos

-- ====================================================================================
-- the blocks after `update`, by position in the cone list
-- ====================================================================================

section updated
variable {α : Type} [Field α] [LinearOrder α] [IsStrictOrderedRing α] [FloatLike α]
variable {P A : Csc α} {cones : List ConeSpec} {K : Csc α} {map : LDLDataMap}
  {sched : List (Entry α)} {Kc : Csc α} {nd : Nat}

theorem auxPos_eq (hin : KktInputs P A cones) (i j : Nat) :
    auxPos A.n cones i j = A.m + A.n + ((cones.take i).map conePdim).sum + j := by
  have hm : mTot cones = A.m := hin.m_eq
  unfold auxPos pre
  omega

/-- [F] rows × rows of cone `i`: minus its Hs block -/
theorem updated_rows (R : AsmRun P A cones .triu K map sched Kc nd) (hin : KktInputs P A cones)
    (scal : List (ConeScaling α)) (hfits : LayoutFits scal cones) (nz nz' : Array α)
    (hup : updateValues nz map scal = .ok nz') (blocks : List (Array α))
    (hget : scal.mapM getHs = .ok blocks) (i : Nat) (hi : i < cones.length) (a a' : Nat)
    (ha : a < cones[i].numel) (ha' : a' < cones[i].numel)
    (hp : cones[i].hsIsDiagonal = true → a = a') :
    symOf ({ K with nzval := nz' } : Csc α) (rowPos A.n cones i a) (rowPos A.n cones i a')
      = -(coneH cones[i] (blockAt blocks i) a a') := by
  obtain ⟨hi', hsd, hfp, hf1, _⟩ := layout_at hfits i hi
  have hup' : updateValues nz map (scal.take i ++ scal[i] :: scal.drop (i + 1)) = .ok nz' := by
    rw [← hsd]; exact hup
  obtain ⟨b, hb, _, hval⟩ := hs_values R hin (decomp_at cones i hi) nz nz' _ _ _ hfp hf1 hup'
  rw [block_at hget i hi' hb]
  rcases Nat.le_total a a' with hle | hle
  · exact hval a a' hle ha' hp
  · rw [symOf_comm, coneH_symm]
    exact hval a' a hle ha (fun h => (hp h).symm)

/-- [F] the expansion of a sparse second-order cone at position `i` -/
theorem updated_soc (R : AsmRun P A cones .triu K map sched Kc nd) (hin : KktInputs P A cones)
    (scal : List (ConeScaling α)) (hfits : LayoutFits scal cones)
    (hvec : ∀ i (hi : i < scal.length), VecFits scal[i]) (nz nz' : Array α)
    (hup : updateValues nz map scal = .ok nz') (i : Nat) (hi : i < cones.length) {d : Nat}
    (hci : cones[i] = .soc d) (hbig : d > socNoExpansionMaxSize) :
    ∃ η u v dd, scalAt scal i = .socSparse d η u v dd ∧
      (∀ k, k < d → symOf ({ K with nzval := nz' } : Csc α) (rowPos A.n cones i k)
        (auxPos A.n cones i 0) = -(η * η * v.getD k 0)) ∧
      (∀ k, k < d → symOf ({ K with nzval := nz' } : Csc α) (rowPos A.n cones i k)
        (auxPos A.n cones i 1) = -(η * η * u.getD k 0)) ∧
      symOf ({ K with nzval := nz' } : Csc α) (auxPos A.n cones i 0) (auxPos A.n cones i 0)
        = -(η * η) ∧
      symOf ({ K with nzval := nz' } : Csc α) (auxPos A.n cones i 1) (auxPos A.n cones i 1)
        = η * η := by
  obtain ⟨hi', hsd, hfp, hf1, hsa⟩ := layout_at hfits i hi
  have hv := hvec i hi'
  rw [hci] at hf1
  have hdec : cones = cones.take i ++ ConeSpec.soc d :: cones.drop (i + 1) := by
    rw [← hci]; exact decomp_at cones i hi
  cases hsc : scal[i] with
  | socSparse dim η u v dd =>
    rw [hsc] at hf1 hv hsd
    obtain ⟨rfl, _⟩ : dim = d ∧ d > socNoExpansionMaxSize := hf1
    obtain ⟨husz, hvsz⟩ : u.size = dim ∧ v.size = dim := hv
    have hup' : updateValues nz map (scal.take i ++ .socSparse dim η u v dd :: scal.drop (i + 1))
        = .ok nz' := by rw [← hsd]; exact hup
    obtain ⟨v1, v2, v3, v4⟩ := soc_values R hin hdec hbig nz nz' _ _ hfp hup' husz hvsz
    refine ⟨η, u, v, dd, by rw [hsa, hsc], ?_, ?_, ?_, ?_⟩
    · intro k hk; rw [auxPos_eq hin]; exact v1 k hk
    · intro k hk; rw [auxPos_eq hin]; exact v2 k hk
    · rw [auxPos_eq hin]; exact v3
    · rw [auxPos_eq hin]; exact v4
  | socDense w η =>
    rw [hsc] at hf1
    exact absurd hbig hf1.2
  | zero _ => rw [hsc] at hf1; exact absurd hf1 (by simp [ScalingFits])
  | nonneg _ => rw [hsc] at hf1; exact absurd hf1 (by simp [ScalingFits])
  | dense _ => rw [hsc] at hf1; exact absurd hf1 (by simp [ScalingFits])
  | genpow _ _ _ _ _ _ => rw [hsc] at hf1; exact absurd hf1 (by simp [ScalingFits])

/-- [F] the expansion of a generalised power cone at position `i` -/
theorem updated_genpow (R : AsmRun P A cones .triu K map sched Kc nd) (hin : KktInputs P A cones)
    (scal : List (ConeScaling α)) (hfits : LayoutFits scal cones)
    (hvec : ∀ i (hi : i < scal.length), VecFits scal[i]) (nz nz' : Array α)
    (hup : updateValues nz map scal = .ok nz') (i : Nat) (hi : i < cones.length) {a b : Nat}
    (hci : cones[i] = .genpow a b) :
    ∃ μ p q r d1 d2, scalAt scal i = .genpow μ p q r d1 d2 ∧ d1.size = a ∧ r.size = b ∧
      (∀ k, k < a → symOf ({ K with nzval := nz' } : Csc α) (rowPos A.n cones i k)
        (auxPos A.n cones i 0) = -(sqrt μ * q.getD k 0)) ∧
      (∀ k, k < b → symOf ({ K with nzval := nz' } : Csc α) (rowPos A.n cones i (a + k))
        (auxPos A.n cones i 1) = -(sqrt μ * r.getD k 0)) ∧
      (∀ k, k < a + b → symOf ({ K with nzval := nz' } : Csc α) (rowPos A.n cones i k)
        (auxPos A.n cones i 2) = -(sqrt μ * p.getD k 0)) ∧
      symOf ({ K with nzval := nz' } : Csc α) (auxPos A.n cones i 0) (auxPos A.n cones i 0) = -1 ∧
      symOf ({ K with nzval := nz' } : Csc α) (auxPos A.n cones i 1) (auxPos A.n cones i 1) = -1 ∧
      symOf ({ K with nzval := nz' } : Csc α) (auxPos A.n cones i 2) (auxPos A.n cones i 2) = 1 := by
  obtain ⟨hi', hsd, hfp, hf1, hsa⟩ := layout_at hfits i hi
  have hv := hvec i hi'
  rw [hci] at hf1
  cases hsc : scal[i] with
  | genpow μ p q r d1 d2 =>
    rw [hsc] at hf1 hv hsd
    obtain ⟨rfl, rfl⟩ : d1.size = a ∧ r.size = b := hf1
    obtain ⟨hpsz, hqsz⟩ : p.size = d1.size + r.size ∧ q.size = d1.size := hv
    have hdec : cones = cones.take i ++ ConeSpec.genpow d1.size r.size :: cones.drop (i + 1) := by
      rw [← hci]; exact decomp_at cones i hi
    have hup' : updateValues nz map (scal.take i ++ .genpow μ p q r d1 d2 :: scal.drop (i + 1))
        = .ok nz' := by rw [← hsd]; exact hup
    obtain ⟨v1, v2, v3, v4, v5, v6⟩ := genpow_values R hin hdec nz nz' _ _ hfp hup' hpsz hqsz
    refine ⟨μ, p, q, r, d1, d2, by rw [hsa, hsc], rfl, rfl, ?_, ?_, ?_, ?_, ?_, ?_⟩
    · intro k hk; rw [auxPos_eq hin]; exact v1 k hk
    · intro k hk
      rw [auxPos_eq hin]
      have := v2 k hk
      have e : rowPos A.n cones i (d1.size + k)
          = A.n + ((cones.take i).map ConeSpec.numel).sum + d1.size + k := by
        unfold rowPos pre; omega
      rw [e]; exact this
    · intro k hk; rw [auxPos_eq hin]; exact v3 k hk
    · rw [auxPos_eq hin]; exact v4
    · rw [auxPos_eq hin]; exact v5
    · rw [auxPos_eq hin]; exact v6
  | socSparse _ _ _ _ _ => rw [hsc] at hf1; exact absurd hf1 (by simp [ScalingFits])
  | socDense _ _ => rw [hsc] at hf1; exact absurd hf1 (by simp [ScalingFits])
  | zero _ => rw [hsc] at hf1; exact absurd hf1 (by simp [ScalingFits])
  | nonneg _ => rw [hsc] at hf1; exact absurd hf1 (by simp [ScalingFits])
  | dense _ => rw [hsc] at hf1; exact absurd hf1 (by simp [ScalingFits])

end updated


-- ====================================================================================
-- the blocks of `listKkt` for a cone list and its scaling data
-- ====================================================================================

section blocks
variable {α : Type} [Field α] [LinearOrder α] [IsStrictOrderedRing α] [FloatLike α]

/-- `Pd`: the symmetric matrix whose upper triangle `P` stores -/
noncomputable def PdOf (P : Csc α) (n : Nat) : Fin n → Fin n → α := fun x x' => symOf P x.val x'.val

/-- `H i`: the Hs block of cone `i` (`get_Hs` as a symmetric matrix) -/
def HOf (cones : List ConeSpec) (blocks : List (Array α)) :
    ∀ i : Fin cones.length, Fin (cones[i].numel) → Fin (cones[i].numel) → α :=
  fun i a a' => coneH cones[i] (blockAt blocks i.val) a.val a'.val

/-- `V i`: minus the stored MINUS auxiliary columns of cone `i` -/
def VOf (cones : List ConeSpec) (scal : List (ConeScaling α)) :
    ∀ i : Fin cones.length, Fin (nMinus cones[i]) → Fin (cones[i].numel) → α :=
  fun i c a => coneV (scalAt scal i.val) c.val a.val

/-- `e i`: minus the stored diagonal of the MINUS auxiliary variables of cone `i` -/
def eOf (cones : List ConeSpec) (scal : List (ConeScaling α)) :
    ∀ i : Fin cones.length, Fin (nMinus cones[i]) → α :=
  fun i _ => coneE (scalAt scal i.val)

/-- `ep`: the stored diagonal of the PLUS auxiliary variables -/
def epOf (cones : List ConeSpec) (scal : List (ConeScaling α)) :
    (Σ i : Fin cones.length, Fin (nPlus cones[i])) → α :=
  fun p => coneE (scalAt scal p.1.val)

theorem HOf_symm (cones : List ConeSpec) (blocks : List (Array α)) (i : Fin cones.length)
    (a a' : Fin (cones[i].numel)) : HOf cones blocks i a a' = HOf cones blocks i a' a :=
  coneH_symm _ _ _ _

/-- [F] the `ε` of `listKkt` is a signed diagonal shift -/
theorem listKkt_add_eps {ι₁ ιp L : Type} [Fintype ι₁] [DecidableEq ι₁] [Fintype ιp] [DecidableEq ιp]
    [Fintype L] [DecidableEq L] {ιr ιa : L → Type} [∀ i, Fintype (ιr i)] [∀ i, DecidableEq (ιr i)]
    [∀ i, Fintype (ιa i)] [∀ i, DecidableEq (ιa i)]
    (Pd : ι₁ → ι₁ → α) (ep : ιp → α) (B : (Σ i, ιr i ⊕ ιa i) → ι₁ ⊕ ιp → α)
    (H : ∀ i, ιr i → ιr i → α) (V : ∀ i, ιa i → ιr i → α) (e : ∀ i, ιa i → α) (ε : α)
    (a b : (ι₁ ⊕ ιp) ⊕ (Σ i, ιr i ⊕ ιa i)) :
    listKkt Pd ep B H V e ε a b
      = listKkt Pd ep B H V e 0 a b + if a = b then (if a.isLeft then ε else -ε) else 0 := by
  rcases a with (x | p) | ⟨i, u⟩ <;> rcases b with (x' | p') | ⟨j, u'⟩
  · by_cases h : x = x' <;> simp [listKkt, blockK, dsum, addDiag, h]
  · simp [listKkt, blockK, dsum]
  · simp [listKkt, blockK]
  · simp [listKkt, blockK, dsum]
  · by_cases h : p = p' <;> simp [listKkt, blockK, dsum, diagM, h]
  · simp [listKkt, blockK]
  · simp [listKkt, blockK]
  · simp [listKkt, blockK]
  · by_cases hij : i = j
    · subst hij
      rcases u with r | c <;> rcases u' with r' | c'
      · by_cases h : r = r' <;> simp [listKkt, blockK, sigmaDiag, expBlock, h]
        ring
      · simp [listKkt, blockK, sigmaDiag, expBlock]
      · simp [listKkt, blockK, sigmaDiag, expBlock]
      · by_cases h : c = c' <;> simp [listKkt, blockK, sigmaDiag, expBlock, h]
        ring
    · have hne : (⟨i, u⟩ : Σ i, ιr i ⊕ ιa i) ≠ ⟨j, u'⟩ := fun h => hij (congrArg Sigma.fst h)
      simp [listKkt, blockK, sigmaDiag, hij, hne]

end blocks

-- ====================================================================================
-- the main theorems
-- ====================================================================================

section main
variable {α : Type} [Field α] [LinearOrder α] [IsStrictOrderedRing α] [FloatLike α]
variable {P A : Csc α} {cones : List ConeSpec} {K : Csc α} {map : LDLDataMap}

/-- [F] **after `update`: the symmetric meaning of the assembled matrix is the UNREGULARISED
`listKkt`** (`ε = 0`), for every cone list: primal block `symOf P`, coupling `B` as stored, for each
cone `−[[Hᵢ, Vᵢ], [Vᵢᵀ, diag eᵢ]]`, plus-auxiliary diagonal `ep`. -/
theorem updated_symOf_eq_listKkt (hin : KktInputs P A cones)
    (hasm : assembleKktMatrix P A cones .triu = .ok (K, map))
    (scal : List (ConeScaling α)) (hfits : LayoutFits scal cones)
    (hvec : ∀ i (hi : i < scal.length), VecFits scal[i]) (nz' : Array α)
    (hup : updateValues K.nzval map scal = .ok nz') (blocks : List (Array α))
    (hget : scal.mapM getHs = .ok blocks) (a b : KktIdx A.n cones) :
    symOf ({ K with nzval := nz' } : Csc α) (flatPos A.n cones a) (flatPos A.n cones b)
      = listKkt (PdOf P A.n) (epOf cones scal)
          (couplingOf A.n cones (symOf ({ K with nzval := nz' } : Csc α)))
          (HOf cones blocks) (VOf cones scal) (eOf cones scal) 0 a b := by
  obtain ⟨sched, Kc, nd, R⟩ := asmRun_of_ok hin hasm
  apply listKkt_of_entries A.n cones _ (fun i j => symOf_comm _ i j)
  · -- primal block
    intro x x'
    have hz : (if x = x' then (0 : α) else 0) = 0 := by split <;> rfl
    rw [hz, add_zero]
    show _ = symOf P x.val x'.val
    rcases Nat.le_total x.val x'.val with hle | hle
    · exact p_block_values R hin scal nz' hup hle x'.isLt
    · rw [symOf_comm, symOf_comm P]
      exact p_block_values R hin scal nz' hup hle x.isLt
  · -- plus-auxiliary diagonal
    rintro ⟨i, b⟩
    rw [add_zero, flatPos_plus]
    have hb : b.val < nPlus (cones[i.val]'i.isLt) := b.isLt
    show _ = coneE (scalAt scal i.val)
    rcases cone_kind (cones[i.val]'i.isLt) with ⟨d, hci, hbig⟩ | ⟨a', b', hci⟩ | ⟨_, h0⟩
    · obtain ⟨η, u, v, dd, hsa, _, _, _, v4⟩ :=
        updated_soc R hin scal hfits hvec K.nzval nz' hup i.val i.isLt hci hbig
      rw [hci, nPlus_soc hbig] at hb
      rw [hci, nMinus_soc hbig, hsa]
      have : b.val = 0 := by omega
      rw [this]
      exact v4
    · obtain ⟨μ, p, q, r, d1, d2, hsa, _, _, _, _, _, _, _, v6⟩ :=
        updated_genpow R hin scal hfits hvec K.nzval nz' hup i.val i.isLt hci
      rw [hci, nPlus_genpow] at hb
      rw [hci, nMinus_genpow, hsa]
      have : b.val = 0 := by omega
      rw [this]
      exact v6
    · omega
  · -- rows × rows
    intro i a a'
    have hz : (if a = a' then (0 : α) else 0) = 0 := by split <;> rfl
    rw [hz, add_zero, flatPos_row, flatPos_row]
    by_cases hp : cones[i].hsIsDiagonal = true → a.val = a'.val
    · exact updated_rows R hin scal hfits K.nzval nz' hup blocks hget i.val i.isLt a.val a'.val
        a.isLt a'.isLt hp
    · have hd : cones[i].hsIsDiagonal = true := by
        by_contra hd; exact hp (fun h => absurd h hd)
      have hne : a.val ≠ a'.val := fun h => hp (fun _ => h)
      rw [← flatPos_row, ← flatPos_row,
        symOf_zero_of_not_pat R hin nz' (.inr ⟨i, .inl a⟩) (.inr ⟨i, .inl a'⟩)
          (fun h => hne (h.2 hd)) (fun h => hne (h.2 hd).symm)]
      have hd' : (cones[i.val]'i.isLt).hsIsDiagonal = true := hd
      show (0 : α) = -(coneH (cones[i.val]'i.isLt) (blockAt blocks i.val) a.val a'.val)
      simp [coneH, hd', hne]
  · -- rows × minus-auxiliary
    intro i a c
    rw [flatPos_row, flatPos_minus]
    have hc : c.val < nMinus (cones[i.val]'i.isLt) := c.isLt
    have ha : a.val < (cones[i.val]'i.isLt).numel := a.isLt
    show _ = -(coneV (scalAt scal i.val) c.val a.val)
    rcases cone_kind (cones[i.val]'i.isLt) with ⟨d, hci, hbig⟩ | ⟨a', b', hci⟩ | ⟨h0, _⟩
    · obtain ⟨η, u, v, dd, hsa, v1, _, _, _⟩ :=
        updated_soc R hin scal hfits hvec K.nzval nz' hup i.val i.isLt hci hbig
      rw [hci, nMinus_soc hbig] at hc
      rw [hci] at ha
      have : c.val = 0 := by omega
      rw [this, hsa]
      exact v1 a.val ha
    · obtain ⟨μ, p, q, r, d1, d2, hsa, hd1, hr, v1, v2, _, _, _, _⟩ :=
        updated_genpow R hin scal hfits hvec K.nzval nz' hup i.val i.isLt hci
      rw [hci, nMinus_genpow] at hc
      rw [hci] at ha
      simp only [ConeSpec.numel] at ha
      rw [hsa]
      rcases (by omega : c.val = 0 ∨ c.val = 1) with h0 | h1
      · by_cases hlt : a.val < a'
        · rw [h0]
          simp only [coneV, if_true, hd1, if_pos hlt]
          exact v1 a.val hlt
        · rw [← flatPos_row, ← flatPos_minus,
            symOf_zero_of_not_pat R hin nz' (.inr ⟨i, .inl a⟩) (.inr ⟨i, .inr c⟩) ?_ (fun h => h)]
          · simp [coneV, h0, hd1, hlt]
          · rintro ⟨_, hv⟩
            have hv' : VRow (cones[i.val]'i.isLt) c.val a.val := hv
            rw [hci] at hv'
            rcases hv' with ⟨_, h⟩ | ⟨h, _⟩ <;> omega
      · by_cases hge : a' ≤ a.val
        · rw [h1]
          simp only [coneV, hd1, if_pos hge]
          have := v2 (a.val - a') (by omega)
          rw [show a' + (a.val - a') = a.val by omega] at this
          simpa using this
        · rw [← flatPos_row, ← flatPos_minus,
            symOf_zero_of_not_pat R hin nz' (.inr ⟨i, .inl a⟩) (.inr ⟨i, .inr c⟩) ?_ (fun h => h)]
          · simp [coneV, h1, hd1, hge]
          · rintro ⟨_, hv⟩
            have hv' : VRow (cones[i.val]'i.isLt) c.val a.val := hv
            rw [hci] at hv'
            rcases hv' with ⟨h, _⟩ | ⟨_, h⟩ <;> omega
    · omega
  · -- minus-auxiliary diagonal
    intro i c
    rw [add_zero, flatPos_minus]
    have hc : c.val < nMinus (cones[i.val]'i.isLt) := c.isLt
    show _ = -(coneE (scalAt scal i.val))
    rcases cone_kind (cones[i.val]'i.isLt) with ⟨d, hci, hbig⟩ | ⟨a', b', hci⟩ | ⟨h0, _⟩
    · obtain ⟨η, u, v, dd, hsa, _, _, v3, _⟩ :=
        updated_soc R hin scal hfits hvec K.nzval nz' hup i.val i.isLt hci hbig
      rw [hci, nMinus_soc hbig] at hc
      have : c.val = 0 := by omega
      rw [this, hsa]
      exact v3
    · obtain ⟨μ, p, q, r, d1, d2, hsa, _, _, _, _, _, v4, v5, _⟩ :=
        updated_genpow R hin scal hfits hvec K.nzval nz' hup i.val i.isLt hci
      rw [hci, nMinus_genpow] at hc
      rw [hsa]
      rcases (by omega : c.val = 0 ∨ c.val = 1) with h0 | h1
      · rw [h0]; exact v4
      · rw [h1]; exact v5
    · omega
  · exact fun a b h1 h2 => symOf_zero_of_not_pat R hin nz' a b h1 h2

theorem coneE_nonneg (c : ConeScaling α) : 0 ≤ coneE c := by
  cases c <;> simp only [coneE] <;> first | exact mul_self_nonneg _ | exact zero_le_one | exact le_refl _

/-- the order of the assembled matrix in terms of the structured index type -/
theorem asm_order (hin : KktInputs P A cones)
    (hasm : assembleKktMatrix P A cones .triu = .ok (K, map)) :
    K.n = A.n + mTot cones + pTot cones := by
  obtain ⟨sched, Kc, nd, R⟩ := asmRun_of_ok hin hasm
  rw [R.mat.n_eq]
  have hm : mTot cones = A.m := hin.m_eq
  unfold kktDim pTot
  omega

/-- the sign vector of `_fill_signs` at the column of a structured index -/
theorem asm_signs_at (hin : KktInputs P A cones)
    (hasm : assembleKktMatrix P A cones .triu = .ok (K, map)) (ds : Array Int)
    (hds : fillSigns A.m A.n map.sparse_maps = .ok ds) (idx : KktIdx A.n cones) :
    ds[flatPos A.n cones idx]? = some (if idx.isLeft then 1 else -1) := by
  obtain ⟨sched, Kc, nd, R⟩ := asmRun_of_ok hin hasm
  obtain ⟨ds', hds', _, s1, s2, s3⟩ := R.signs_at
  rw [hds] at hds'
  cases hds'
  refine signs_at_flatPos A.n cones ds s1 ?_ ?_ idx
  · intro c hc1 hc2
    rw [hin.m_eq] at hc2
    exact s2 c hc1 hc2
  · intro pre' cn post j hdec hj
    rw [hin.m_eq]
    exact s3 pre' cn post j hdec hj

/-- [F] the `± ε` writes of `regularize_and_refactor` on the assembled matrix: `± ε` on the diagonal
of the symmetric meaning (sign by `_fill_signs`), nothing else -/
theorem regularized_symOf (hin : KktInputs P A cones)
    (hasm : assembleKktMatrix P A cones .triu = .ok (K, map)) (nz' : Array α)
    (ds : Array Int) (hds : fillSigns A.m A.n map.sparse_maps = .ok ds) (cst prp : α)
    (rr : Regularized α) (nzF : Array α)
    (hreg : regularizeAndRestore nz' map.diag_full ds true cst prp = .ok (rr, nzF))
    (a b : KktIdx A.n cones) :
    symOf ({ K with nzval := nzF } : Csc α) (flatPos A.n cones a) (flatPos A.n cones b)
      = symOf ({ K with nzval := nz' } : Csc α) (flatPos A.n cones a) (flatPos A.n cones b)
        + if a = b then (if a.isLeft then rr.eps else -rr.eps) else 0 := by
  obtain ⟨sched, Kc, nd, R⟩ := asmRun_of_ok hin hasm
  obtain ⟨hpat, _, _⟩ := asm_patOK R hin
  have M := R.maps hin.P_canon hin.P_triu hin.P_square hin.A_canon hin.n_eq hin.m_eq
  have hdfsz := M.diag_full.1
  have hslot : ∀ c (hc : c < map.diag_full.size),
      InCol K map.diag_full[c] c ∧ K.rowval.getD map.diag_full[c] 0 = c := by
    intro c hc
    obtain ⟨v, d, hd, hE⟩ := M.diag_full.2 c (by omega)
    rw [Array.getElem?_eq_getElem hc] at hd
    cases hd
    obtain ⟨h1, h2, _⟩ := entryAt_inCol hE
    exact ⟨h1, h2⟩
  have hndf : map.diag_full.toList.Nodup := by
    rw [List.nodup_iff_pairwise_ne, List.pairwise_iff_getElem]
    intro i j hi hj hij heq
    have hi' : i < map.diag_full.size := by simpa using hi
    have hj' : j < map.diag_full.size := by simpa using hj
    have e : map.diag_full[i] = map.diag_full[j] := by simpa using heq
    have h1 := (hslot i hi').1
    have h2 := (hslot j hj').1
    rw [e] at h1
    have := hpat.col_unique h1 h2
    omega
  obtain ⟨_, hframe, hshift, _, _, _⟩ := regularizeAndRestore_factor hreg hndf
  have hN : kktDim A cones = A.n + mTot cones + pTot cones := by
    have hm : mTot cones = A.m := hin.m_eq
    unfold kktDim pTot; omega
  rw [symOf_diag_rewrite hpat nz' nzF map.diag_full
    (fun k d => match ds[k]? with
      | some s => if s == 1 then d + rr.eps else d - rr.eps
      | none => d) hdfsz hslot hframe hshift _ _
    (by rw [hN]; exact flatPos_lt _ _ a) (by rw [hN]; exact flatPos_lt _ _ b)]
  by_cases hab : a = b
  · subst hab
    rw [if_pos rfl, if_pos rfl]
    simp only [asm_signs_at hin hasm ds hds a]
    cases a.isLeft <;> simp [sub_eq_add_neg]
  · rw [if_neg hab, if_neg (fun h => hab (flatPos_injective _ _ h)), add_zero]

/-- [F] **the dense symmetric meaning of the assembled + updated + regularised KKT matrix is
`listKkt`**, for every cone list: for all structured indices `a, b`,
`symOf {K with nzval := nzF} (flatPos a) (flatPos b) = listKkt Pd ep B H V e ε a b` with
`Pd = symOf P`, `Hᵢ` the Hs block of cone `i`, `Vᵢ`/`eᵢ`/`ep` the expansion columns / diagonals
(explicit functions of the scaling data), `B` the coupling as stored, `ε = r.eps`. -/
theorem assembled_symOf_eq_listKkt (hin : KktInputs P A cones)
    (hasm : assembleKktMatrix P A cones .triu = .ok (K, map))
    (scal : List (ConeScaling α)) (hfits : LayoutFits scal cones)
    (hvec : ∀ i (hi : i < scal.length), VecFits scal[i]) (nz' : Array α)
    (hup : updateValues K.nzval map scal = .ok nz') (blocks : List (Array α))
    (hget : scal.mapM getHs = .ok blocks)
    (ds : Array Int) (hds : fillSigns A.m A.n map.sparse_maps = .ok ds) (cst prp : α)
    (rr : Regularized α) (nzF : Array α)
    (hreg : regularizeAndRestore nz' map.diag_full ds true cst prp = .ok (rr, nzF))
    (a b : KktIdx A.n cones) :
    symOf ({ K with nzval := nzF } : Csc α) (flatPos A.n cones a) (flatPos A.n cones b)
      = listKkt (PdOf P A.n) (epOf cones scal)
          (couplingOf A.n cones (symOf ({ K with nzval := nzF } : Csc α)))
          (HOf cones blocks) (VOf cones scal) (eOf cones scal) rr.eps a b := by
  have hB : couplingOf A.n cones (symOf ({ K with nzval := nzF } : Csc α))
      = couplingOf A.n cones (symOf ({ K with nzval := nz' } : Csc α)) := by
    funext z y
    unfold couplingOf
    rw [regularized_symOf hin hasm nz' ds hds cst prp rr nzF hreg, if_neg (by simp), add_zero]
  rw [regularized_symOf hin hasm nz' ds hds cst prp rr nzF hreg a b,
    updated_symOf_eq_listKkt hin hasm scal hfits hvec nz' hup blocks hget a b, hB,
    listKkt_add_eps _ _ _ _ _ _ rr.eps a b]

/-- [F] **hence the symmetric meaning of the matrix handed to the LDL engine is quasidefinite with
margin `ε = r.eps`** for the sign pattern of the structured index of each column (`+` on primal and
plus-auxiliary columns, `−` on cone rows and minus-auxiliary columns), as soon as `P ⪰ 0` and every
cone's bordered block has a nonnegative form. -/
theorem assembled_quasiDefGE (hin : KktInputs P A cones)
    (hasm : assembleKktMatrix P A cones .triu = .ok (K, map))
    (scal : List (ConeScaling α)) (hfits : LayoutFits scal cones)
    (hvec : ∀ i (hi : i < scal.length), VecFits scal[i]) (nz' : Array α)
    (hup : updateValues K.nzval map scal = .ok nz') (blocks : List (Array α))
    (hget : scal.mapM getHs = .ok blocks)
    (ds : Array Int) (hds : fillSigns A.m A.n map.sparse_maps = .ok ds) (cst prp : α)
    (rr : Regularized α) (nzF : Array α)
    (hreg : regularizeAndRestore nz' map.diag_full ds true cst prp = .ok (rr, nzF))
    (hP : PosSemidef (PdOf P A.n))
    (hform : ∀ i y s, 0 ≤ expForm (HOf cones blocks i) (VOf cones scal i) (eOf cones scal i) y s) :
    QuasiDefGE (fun i j : Fin K.n => symOf ({ K with nzval := nzF } : Csc α) i.val j.val)
      (fun i => (kktEquiv A.n cones K.n (asm_order hin hasm) i).isLeft) Finset.univ rr.eps := by
  have hQ := quasiDefGE_listKkt (ε := rr.eps)
    (couplingOf A.n cones (symOf ({ K with nzval := nzF } : Csc α)))
    hP (fun p => coneE_nonneg (scalAt scal p.1.val)) (HOf_symm cones blocks) hform
  have hR := hQ.reindex (kktEquiv A.n cones K.n (asm_order hin hasm))
  have hfun : (fun i j : Fin K.n => symOf ({ K with nzval := nzF } : Csc α) i.val j.val)
      = fun a b => listKkt (PdOf P A.n) (epOf cones scal)
          (couplingOf A.n cones (symOf ({ K with nzval := nzF } : Csc α)))
          (HOf cones blocks) (VOf cones scal) (eOf cones scal) rr.eps
          (kktEquiv A.n cones K.n (asm_order hin hasm) a)
          (kktEquiv A.n cones K.n (asm_order hin hasm) b) := by
    funext i j
    rw [← assembled_symOf_eq_listKkt hin hasm scal hfits hvec nz' hup blocks hget ds hds cst prp rr
      nzF hreg, flatPos_kktEquiv, flatPos_kktEquiv]
  rw [hfun]
  exact hR

-- ====================================================================================
-- ingredients of the composition with QDLDL; the cone forms in terms of the scaling data
-- ====================================================================================

/-- the two diagonal writes of `regularize_and_refactor` succeed on the assembled maps -/
theorem regularize_exists (hin : KktInputs P A cones)
    (hasm : assembleKktMatrix P A cones .triu = .ok (K, map)) (nz' : Array α)
    (hsz : nz'.size = K.nzval.size) (ds : Array Int) (cst prp : α) :
    ∃ rr nzF, regularizeAndRestore nz' map.diag_full ds true cst prp = .ok (rr, nzF) := by
  obtain ⟨sched, Kc, nd, R⟩ := asmRun_of_ok hin hasm
  obtain ⟨hpat, _, _⟩ := asm_patOK R hin
  have M := R.maps hin.P_canon hin.P_triu hin.P_square hin.A_canon hin.n_eq hin.m_eq
  have hlt : ∀ i ∈ map.diag_full.toList, i < nz'.size := by
    intro j hj
    obtain ⟨c, hc, rfl⟩ := List.mem_iff_getElem.mp hj
    have hc' : c < map.diag_full.size := by simpa using hc
    obtain ⟨v, d, hd, hE⟩ := M.diag_full.2 c (by rw [← M.diag_full.1]; exact hc')
    rw [Array.getElem?_eq_getElem hc'] at hd
    cases hd
    obtain ⟨h1, _, _⟩ := entryAt_inCol hE
    have := hpat.pos_lt h1
    rw [hsz, R.mat.nzval_size, ← R.mat.rowval_size]
    simpa using this
  obtain ⟨dk, hdk⟩ := Clarabel.Lemmas.KktRun.mapM_exists
    (fun i => getE nz' i "KKT.nzval[diag_full]") map.diag_full.toList
    (fun i hi => ⟨_, Clarabel.Lemmas.KktRun.getE_some (Array.getElem?_eq_getElem (hlt i hi))⟩)
  have key : ∀ (sh : Array α) (e : α), ∃ (r : Regularized α) (nzF : Array α),
      (updateValuesKKT nz' map.diag_full sh >>= fun nzFactor =>
        updateValuesKKT nzFactor map.diag_full dk.toArray >>= fun nzval =>
          (pure ({ nzval := nzval, diagShifted := sh, diagKkt := dk.toArray, eps := e }, nzFactor) :
            MErr (Regularized α × Array α))) = .ok (r, nzF) := by
    intro sh e
    obtain ⟨nzF, hF, hFs⟩ :=
      Clarabel.Lemmas.KktUpdateTotal.updateValuesKKT_exists nz' map.diag_full sh hlt
    obtain ⟨nzv, hv, _⟩ := Clarabel.Lemmas.KktUpdateTotal.updateValuesKKT_exists nzF map.diag_full
      dk.toArray (by rw [hFs]; exact hlt)
    refine ⟨{ nzval := nzv, diagShifted := sh, diagKkt := dk.toArray, eps := e }, nzF, ?_⟩
    rw [hF]
    show (updateValuesKKT nzF map.diag_full dk.toArray >>= fun nzval => _) = _
    rw [hv]
    rfl
  unfold regularizeAndRestore
  simp only [Bool.not_true, Bool.false_eq_true, ↓reduceIte]
  rw [hdk]
  exact key _ _

/-- the sign vector of `_fill_signs` in the form `kkt_factorisation_signs` wants -/
theorem assembled_signs_getD (hin : KktInputs P A cones)
    (hasm : assembleKktMatrix P A cones .triu = .ok (K, map)) (ds : Array Int)
    (hds : fillSigns A.m A.n map.sparse_maps = .ok ds) :
    K.n ≤ ds.size ∧ ∀ i : Fin K.n, ds.getD i.val 0
      = if (kktEquiv A.n cones K.n (asm_order hin hasm) i).isLeft then 1 else -1 := by
  refine ⟨?_, ?_⟩
  · obtain ⟨sched, Kc, nd, R⟩ := asmRun_of_ok hin hasm
    obtain ⟨ds', hds', hsz, _⟩ := R.signs_at
    rw [hds] at hds'
    cases hds'
    rw [hsz, R.mat.n_eq]
  · intro i
    have := asm_signs_at hin hasm ds hds (kktEquiv A.n cones K.n (asm_order hin hasm) i)
    rw [flatPos_kktEquiv] at this
    simp [Array.getD_eq_getD_getElem?, this]

/-- [F] a cone without sparse expansion: the form of its bordered block is the form of its Hs block -/
theorem form_of_nonsparse (blocks : List (Array α)) (scal : List (ConeScaling α))
    (i : Fin cones.length) (h0 : nMinus cones[i] = 0)
    (hH : ∀ y, 0 ≤ qf (HOf cones blocks i) y) (y : Fin (cones[i].numel) → α)
    (s : Fin (nMinus cones[i]) → α) :
    0 ≤ expForm (HOf cones blocks i) (VOf cones scal i) (eOf cones scal i) y s := by
  have : IsEmpty (Fin (nMinus cones[i])) := ⟨fun x => by have := x.isLt; omega⟩
  rw [expForm_of_isEmpty]
  exact hH y

theorem soc_block_getD (k : ℕ) (η d : α) (x : Fin (k + 1)) :
    ((Array.replicate (k + 1) (η * η)).set! 0 (η * η * d)).getD x.val 0
      = η * η * Clarabel.Lemmas.KktExpansion.socD d x := by
  refine Fin.cases ?_ (fun i => ?_) x
  · simp [Clarabel.Lemmas.KktExpansion.socD, Array.getD_eq_getD_getElem?]
  · simp [Clarabel.Lemmas.KktExpansion.socD, Array.getD_eq_getD_getElem?]

theorem form_soc_aux {k : ℕ} {η w0 : α} {w1 : Fin k → α} {d u0 u1 v1 : α}
    (h : Clarabel.Lemmas.KktExpansion.SocSparse w0 w1 d u0 u1 v1)
    (m na : Nat) (hm : m = k + 1) (hna : na = 1) (H : Fin m → Fin m → α)
    (V : Fin na → Fin m → α) (e : Fin na → α)
    (hH : ∀ a a', H a a' = socH η d (Fin.cast hm a) (Fin.cast hm a'))
    (hV : ∀ c a, V c a = η * η * Clarabel.Lemmas.KktExpansion.socV v1 w1 (Fin.cast hm a))
    (he : ∀ c, e c = η * η) (y : Fin m → α) (s : Fin na → α) : 0 ≤ expForm H V e y s := by
  subst hm
  subst hna
  have e1 : H = socH η d := by funext a a'; rw [hH]; rfl
  have e2 : V = socVm η v1 w1 := by funext c a; rw [hV]; rfl
  have e3 : e = fun _ => η * η := funext he
  rw [e1, e2, e3]
  exact expForm_soc h y s

/-- [F] **the bordered block of a sparse second-order cone, in terms of the scaling data that
`update` reads**: for the cone `soc (k+1)` at position `i` with data `η, u, v, d` where `v` is the
vector `socV v1 w1` of the algebra and `SocSparse` holds (C13 `soc_update_sparse_data`), the form
`expForm (H i) (V i) (e i)` of `assembled_symOf_eq_listKkt` is nonnegative. -/
theorem form_soc (scal : List (ConeScaling α)) (hfits : LayoutFits scal cones)
    (blocks : List (Array α)) (hget : scal.mapM getHs = .ok blocks)
    (i : Fin cones.length) {k : ℕ} (hci : cones[i] = .soc (k + 1))
    (hbig : k + 1 > socNoExpansionMaxSize) {η d : α} {u v : Array α}
    (hsc : scalAt scal i.val = .socSparse (k + 1) η u v d)
    {w0 u0 u1 v1 : α} {w1 : Fin k → α}
    (hvk : ∀ j : Fin (k + 1), v.getD j.val 0 = Clarabel.Lemmas.KktExpansion.socV v1 w1 j)
    (hs : Clarabel.Lemmas.KktExpansion.SocSparse w0 w1 d u0 u1 v1)
    (y : Fin (cones[i].numel) → α) (s : Fin (nMinus cones[i]) → α) :
    0 ≤ expForm (HOf cones blocks i) (VOf cones scal i) (eOf cones scal i) y s := by
  have hci' : cones[i.val]'i.isLt = .soc (k + 1) := hci
  obtain ⟨hi', _, _, _, hsa⟩ := layout_at hfits i.val i.isLt
  have hb : blockAt blocks i.val = (Array.replicate (k + 1) (η * η)).set! 0 (η * η * d) := by
    apply block_at hget i.val hi'
    rw [← hsa, hsc]
    exact getHs_socSparse k η d u v
  have hm : (cones[i.val]'i.isLt).numel = k + 1 := by rw [hci']; rfl
  have hna : nMinus (cones[i.val]'i.isLt) = 1 := by rw [hci', nMinus_soc hbig]
  have hdiag : (cones[i.val]'i.isLt).hsIsDiagonal = true := by
    rw [hci']; simp [ConeSpec.hsIsDiagonal, hbig]
  refine form_soc_aux (η := η) hs _ _ hm hna _ _ _ ?_ ?_ ?_ y s
  · intro a a'
    show coneH (cones[i.val]'i.isLt) (blockAt blocks i.val) a.val a'.val = _
    rw [hb]
    unfold coneH socH diagM
    rw [if_pos hdiag]
    by_cases haa : a.val = a'.val
    · have : Fin.cast hm a = Fin.cast hm a' := Fin.ext haa
      rw [if_pos haa, if_pos this]
      exact soc_block_getD k η d (Fin.cast hm a)
    · have : Fin.cast hm a ≠ Fin.cast hm a' := fun h => haa (by simpa using congrArg Fin.val h)
      rw [if_neg haa, if_neg this]
  · intro c a
    show coneV (scalAt scal i.val) c.val a.val = _
    rw [hsc]
    show η * η * v.getD a.val 0 = _
    rw [← hvk (Fin.cast hm a)]
    rfl
  · intro c
    show coneE (scalAt scal i.val) = _
    rw [hsc]
    rfl

/-- [F] the number of `+` columns of the assembled matrix: `n +` one per sparse expansion -/
theorem assembled_plus_count (hin : KktInputs P A cones)
    (hasm : assembleKktMatrix P A cones .triu = .ok (K, map)) :
    (Finset.univ.filter (fun i : Fin K.n =>
        (kktEquiv A.n cones K.n (asm_order hin hasm) i).isLeft = true)).card
      = (Finset.univ.filter (fun idx : KktIdx A.n cones => idx.isLeft = true)).card := by
  apply Finset.card_equiv (kktEquiv A.n cones K.n (asm_order hin hasm))
  intro i
  simp

/-- the value array handed to the LDL engine has the assembled length -/
theorem assembled_sizes (hin : KktInputs P A cones)
    (hasm : assembleKktMatrix P A cones .triu = .ok (K, map))
    (scal : List (ConeScaling α)) (nz' : Array α)
    (hup : updateValues K.nzval map scal = .ok nz')
    (ds : Array Int) (cst prp : α) (rr : Regularized α) (nzF : Array α)
    (hreg : regularizeAndRestore nz' map.diag_full ds true cst prp = .ok (rr, nzF)) :
    nz'.size = K.nzval.size ∧ nzF.size = K.nzval.size := by
  have h1 := (assemble_update_PA hin hasm scal nz' hup).1
  obtain ⟨dk, _, _, _, _, hF, _⟩ := regularizeAndRestore_inv hreg
  exact ⟨h1, by rw [updateValuesKKT_size hF, h1]⟩

/-- [F] a diagonal Hs block with nonnegative entries has a nonnegative form -/
theorem qf_HOf_diag_nonneg (blocks : List (Array α)) (i : Fin cones.length)
    (hd : cones[i].hsIsDiagonal = true) (hb : ∀ a, 0 ≤ (blockAt blocks i.val).getD a 0)
    (y : Fin (cones[i].numel) → α) : 0 ≤ qf (HOf cones blocks i) y := by
  have hd' : (cones[i.val]'i.isLt).hsIsDiagonal = true := hd
  have e : HOf cones blocks i = diagM (fun a => (blockAt blocks i.val).getD a.val 0) := by
    funext a a'
    show coneH (cones[i.val]'i.isLt) (blockAt blocks i.val) a.val a'.val = _
    unfold coneH diagM
    rw [if_pos hd']
    by_cases h : a = a'
    · subst h; simp
    · have : a.val ≠ a'.val := fun h' => h (Fin.ext h')
      rw [if_neg this, if_neg h]
  rw [e, qf_diagM]
  exact Finset.sum_nonneg fun a _ => mul_nonneg (hb a.val) (sq_nonneg _)

end main

end Clarabel.Lemmas.KktSymOfMain
