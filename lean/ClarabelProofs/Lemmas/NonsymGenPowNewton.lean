/-
  Generalised power cone (C14): the scalar solve `_newton_raphson_genpowcone`.

  Setting: exponents `al` (all positive, `Σ αᵢ = 1`), `p` positive of the same length, `r = ‖r‖ > 0`,
  `φ = Π pᵢ^{2αᵢ}`, interior `r² < φ`, `ψ = 1/Σαᵢ²`.

  * `nrF0`/`nrF1` as list sums; `nrF1` is the derivative of `nrF0` on `x > 0`;
  * `nrF1 < 0`: the target is strictly decreasing; `nrF1` is monotone: the target is convex, hence lies
    above its tangents;
  * the start `nrX0 r φ ψ` is `Pow.nrStart ψ r φ`, it is positive and `nrF0 ≥ 0` there (tangent-line
    Jensen for `c ↦ log(y + 1 + 1/c)` at `c = Σαᵢ²`): the start is LEFT of the root, so — in contrast to
    the 3-d power cone — `newton_raphson_onesided` is a genuine one-sided Newton iteration here: all
    iterates stay in `[nrX0, root]`;
  * the root exists and is unique (upper bound by `ψ = n`, intermediate value theorem).
-/
import ClarabelProofs.Lemmas.NonsymGenPow
import ClarabelProofs.Lemmas.NonsymNewton
import ClarabelProofs.Lemmas.NonsymPowNewton
import Mathlib.Analysis.Convex.Deriv

namespace Clarabel.GenPow
open Clarabel Nonsym Set

/-! ### list helpers -/

/-- termwise bound `f a ≤ g a + a·c₁ + a²·c₂ + c₃` summed over a list -/
theorem sum_map_le_lin (l : List ℝ) (f g : ℝ → ℝ) (c1 c2 c3 : ℝ)
    (h : ∀ a ∈ l, f a ≤ g a + a * c1 + (a * a) * c2 + c3) :
    (l.map f).sum ≤ (l.map g).sum + l.sum * c1 + sumSq l * c2 + (l.length : ℝ) * c3 := by
  unfold sumSq
  induction l with
  | nil => simp
  | cons a t ih =>
    have h1 := h a (by simp)
    have h2 := ih (fun b hb => h b (by simp [hb]))
    simp only [List.map_cons, List.sum_cons, List.length_cons]
    push_cast
    nlinarith

theorem map_zip_fst {β : Type} (F : ℝ → β) (al p : List ℝ) (h : al.length = p.length) :
    (al.zip p).map (fun q => F q.1) = al.map F := by
  induction al generalizing p with
  | nil => simp
  | cons a t ih =>
    cases p with
    | nil => simp at h
    | cons b s =>
      simp only [List.zip_cons_cons, List.map_cons]
      rw [ih s (by simpa using h)]

theorem hasDerivAt_list_sum {β : Type} (l : List β) (g : β → ℝ → ℝ) (g' : β → ℝ) (x : ℝ)
    (h : ∀ q ∈ l, HasDerivAt (g q) (g' q) x) :
    HasDerivAt (fun t => (l.map (fun q => g q t)).sum) (l.map g').sum x := by
  induction l with
  | nil => simpa using hasDerivAt_const x (0 : ℝ)
  | cons q t ih =>
    simp only [List.map_cons, List.sum_cons]
    exact (h q (by simp)).add (ih (fun q' hq' => h q' (by simp [hq'])))

theorem le_one_of_sum {al : List ℝ} (hal : AllPos al) (hsum : al.sum = 1) : ∀ a ∈ al, a ≤ 1 := by
  intro a ha
  rw [← hsum]
  exact List.single_le_sum (fun b hb => (hal b hb).le) a ha

theorem ne_nil_of_sum {al : List ℝ} (hsum : al.sum = 1) : al ≠ [] := by
  intro h; rw [h] at hsum; simp at hsum

theorem sumSq_pos {al : List ℝ} (hal : AllPos al) (hsum : al.sum = 1) : 0 < sumSq al := by
  unfold sumSq
  apply List.sum_pos
  · intro x hx
    obtain ⟨a, ha, rfl⟩ := List.mem_map.mp hx
    exact mul_pos (hal a ha) (hal a ha)
  · simpa using ne_nil_of_sum hsum

theorem sumSq_le_one {al : List ℝ} (hal : AllPos al) (hsum : al.sum = 1) : sumSq al ≤ 1 := by
  have h := sum_map_le_lin al (fun a => a * a) (fun _ => 0) 1 0 0 (by
    intro a ha
    have h0 := hal a ha
    have h1 := le_one_of_sum hal hsum a ha
    nlinarith)
  unfold sumSq at h ⊢
  simp only [List.map_const', List.sum_replicate, smul_zero, mul_zero, add_zero, zero_add, mul_one] at h
  linarith

/-! ### `nrF0`, `nrF1` as list sums -/

theorem nrF0_eq_sum (r : ℝ) (p al : List ℝ) (x : ℝ) :
    nrF0 r p.toArray al.toArray x = -(logsafe (2 * x / r + x * x))
      + ((al.zip p).map (fun q => 2 * q.1 * (logsafe (x * r + (1 + q.1) / q.1) - logsafe q.2))).sum := by
  unfold nrF0
  simp only []
  rw [foldl_add_sum (fun q : ℝ × ℝ => 2 * q.1 * (logsafe (x * r + (1 + q.1) / q.1) - logsafe q.2))]

theorem nrF1_eq_sum (r : ℝ) (al : List ℝ) (x : ℝ) :
    nrF1 r al.toArray x = (-(2 * x + 2 / r)) / (x * x + 2 * x / r)
      + (al.map (fun a => 2 * a * r / (r * x + (1 + a) / a))).sum := by
  unfold nrF1
  simp only []
  rw [foldl_add_sum (fun a : ℝ => 2 * a * r / (r * x + (1 + a) / a))]

/-- **G1**: `nrF1` is the derivative of `nrF0` on `x > 0` -/
theorem nrF0_hasDerivAt {r x : ℝ} {p al : List ℝ} (hal : AllPos al) (hlen : al.length = p.length)
    (hr : 0 < r) (hx : 0 < x) :
    HasDerivAt (nrF0 r p.toArray al.toArray) (nrF1 r al.toArray x) x := by
  have hfun : nrF0 r p.toArray al.toArray = fun t => -(logsafe (2 * t / r + t * t))
      + ((al.zip p).map (fun q => 2 * q.1 * (logsafe (t * r + (1 + q.1) / q.1) - logsafe q.2))).sum := by
    funext t; exact nrF0_eq_sum r p al t
  rw [hfun, nrF1_eq_sum]
  have h0 : HasDerivAt (fun t : ℝ => 2 * t / r + t * t) (2 / r + 2 * x) x := by
    have := (((hasDerivAt_id x).const_mul (2 : ℝ)).div_const r).add ((hasDerivAt_id x).mul (hasDerivAt_id x))
    refine this.congr_deriv ?_
    simp only [id_eq]; ring
  have hpos : 0 < 2 * x / r + x * x := by positivity
  have d0 := (h0.logsafe hpos).neg
  have dS := hasDerivAt_list_sum (al.zip p)
    (fun q t => 2 * q.1 * (logsafe (t * r + (1 + q.1) / q.1) - logsafe q.2))
    (fun q => 2 * q.1 * r / (r * x + (1 + q.1) / q.1)) x (by
      intro q hq
      have ha : 0 < q.1 := hal q.1 (List.of_mem_zip hq).1
      have hP : 0 < x * r + (1 + q.1) / q.1 := by positivity
      have hin : HasDerivAt (fun t : ℝ => t * r + (1 + q.1) / q.1) r x := by
        have := ((hasDerivAt_id x).mul_const r).add_const ((1 + q.1) / q.1)
        refine this.congr_deriv ?_
        simp
      have := ((hin.logsafe hP).sub_const (logsafe q.2)).const_mul (2 * q.1)
      refine this.congr_deriv ?_
      rw [mul_comm r x]; ring)
  have hd := d0.add dS
  refine hd.congr_deriv ?_
  rw [map_zip_fst (fun a => 2 * a * r / (r * x + (1 + a) / a)) al p hlen]
  congr 1
  rw [neg_div]
  congr 2 <;> ring

/-- **G2**: `nrF1 < 0` on `x > 0` -/
theorem nrF1_neg {r x : ℝ} {al : List ℝ} (hal : AllPos al) (hsum : al.sum = 1) (hr : 0 < r) (hx : 0 < x) :
    nrF1 r al.toArray x < 0 := by
  rw [nrF1_eq_sum]
  have hS : (al.map (fun a => 2 * a * r / (r * x + (1 + a) / a))).sum ≤ 2 * r / (r * x + 2) := by
    have h := sum_map_le_lin al (fun a => 2 * a * r / (r * x + (1 + a) / a)) (fun _ => 0)
      (2 * r / (r * x + 2)) 0 0 (by
        intro a ha
        have h0 := hal a ha
        have h1 := le_one_of_sum hal hsum a ha
        have e : (1 + a) / a = 1 + 1 / a := by field_simp; ring
        have h1a : 1 ≤ 1 / a := by rw [le_div_iff₀ h0]; linarith
        have hrx : 0 < r * x := mul_pos hr hx
        rw [e]
        have : 2 * a * r / (r * x + (1 + 1 / a)) ≤ 2 * a * r / (r * x + 2) := by
          apply div_le_div_of_nonneg_left (by positivity) (by positivity) (by linarith)
        have e2 : a * (2 * r / (r * x + 2)) = 2 * a * r / (r * x + 2) := by ring
        simp only [zero_add, mul_zero, add_zero]
        rw [e2]; exact this)
    simp only [List.map_const', List.sum_replicate, smul_zero, mul_zero, add_zero, zero_add, hsum, one_mul] at h
    exact h
  have hC : 0 < x * x + 2 * x / r := by positivity
  have hy2 : 0 < r * x + 2 := by positivity
  have h1 : 2 * r / (r * x + 2) < (2 * x + 2 / r) / (x * x + 2 * x / r) := by
    rw [div_lt_div_iff₀ hy2 hC]
    have e1 : 2 * r * (x * x + 2 * x / r) = 2 * (x * (r * x) + 2 * x) := by field_simp
    have e2 : (2 * x + 2 / r) * (r * x + 2) = 2 * (x * (r * x) + 3 * x + 2 / r) := by
      field_simp; ring
    rw [e1, e2]
    have : 0 < 2 / r := by positivity
    nlinarith
  rw [neg_div]
  linarith

theorem nrF0_strictAnti {r : ℝ} {p al : List ℝ} (hal : AllPos al) (hlen : al.length = p.length)
    (hsum : al.sum = 1) (hr : 0 < r) :
    StrictAntiOn (nrF0 r p.toArray al.toArray) (Ioi 0) := by
  have hd : ∀ x ∈ Ioi (0 : ℝ), HasDerivAt (nrF0 r p.toArray al.toArray) (nrF1 r al.toArray x) x :=
    fun x hx => nrF0_hasDerivAt hal hlen hr hx
  apply strictAntiOn_of_deriv_neg (convex_Ioi 0)
  · exact fun x hx => (hd x hx).continuousAt.continuousWithinAt
  · rw [interior_Ioi]
    intro x hx
    rw [(hd x hx).deriv]
    exact nrF1_neg hal hsum hr hx

/-! ### convexity -/

/-- partial-fraction form of `nrF1` -/
theorem nrF1_pf {r x : ℝ} {al : List ℝ} (hal : AllPos al) (hr : 0 < r) (hx : 0 < x) :
    nrF1 r al.toArray x = (al.map (fun a => 2 * a * (1 / (x + (1 + a) / (a * r))))).sum
      - 1 / x - 1 / (x + 2 / r) := by
  rw [nrF1_eq_sum]
  have nx : x ≠ 0 := ne_of_gt hx
  have nr : r ≠ 0 := ne_of_gt hr
  have pk : 0 < x + 2 / r := by positivity
  have e3 : (-(2 * x + 2 / r)) / (x * x + 2 * x / r) = -(1 / x) - 1 / (x + 2 / r) := by
    have : x * x + 2 * x / r = x * (x + 2 / r) := by ring
    rw [this, neg_div, ← neg_add', div_add_div _ _ nx (ne_of_gt pk), neg_inj,
      div_eq_div_iff (mul_ne_zero nx (ne_of_gt pk)) (mul_ne_zero nx (ne_of_gt pk))]
    ring
  have eS : al.map (fun a => 2 * a * r / (r * x + (1 + a) / a))
      = al.map (fun a => 2 * a * (1 / (x + (1 + a) / (a * r)))) := by
    apply List.map_congr_left
    intro a ha
    have h0 := hal a ha
    have na : a ≠ 0 := ne_of_gt h0
    have p1 : 0 < r * x + (1 + a) / a := by positivity
    have p2 : 0 < x + (1 + a) / (a * r) := by positivity
    rw [mul_one_div, div_eq_div_iff (ne_of_gt p1) (ne_of_gt p2)]
    field_simp
  rw [e3, eS]
  ring

/-- **G3**: `nrF1` is monotone on `x > 0` -/
theorem nrF1_mono {r : ℝ} {al : List ℝ} (hal : AllPos al) (hsum : al.sum = 1) (hr : 0 < r) :
    MonotoneOn (nrF1 r al.toArray) (Ioi 0) := by
  intro x hx y hy hxy
  simp only [mem_Ioi] at hx hy
  rw [nrF1_pf hal hr hx, nrF1_pf hal hr hy]
  have hk : (0 : ℝ) ≤ 2 / r := by positivity
  have h := sum_map_le_lin al (fun a => 2 * a * (1 / (x + (1 + a) / (a * r))))
    (fun a => 2 * a * (1 / (y + (1 + a) / (a * r)))) (2 * (1 / (x + 2 / r) - 1 / (y + 2 / r))) 0 0 (by
      intro a ha
      have h0 := hal a ha
      have h1 := le_one_of_sum hal hsum a ha
      have hd : 2 / r ≤ (1 + a) / (a * r) := by
        rw [div_le_div_iff₀ hr (mul_pos h0 hr)]; nlinarith
      have i1 := Pow.recip_diff_anti hx hxy hk hd
      have m1 := mul_le_mul_of_nonneg_left i1 (by linarith : 0 ≤ 2 * a)
      simp only [mul_zero, add_zero]
      nlinarith)
  simp only [mul_zero, add_zero, hsum, one_mul] at h
  have i3 := Pow.recip_diff_anti hx hxy (le_refl (0 : ℝ)) hk
  simp only [add_zero] at i3
  linarith

theorem nrF0_convexOn {r : ℝ} {p al : List ℝ} (hal : AllPos al) (hlen : al.length = p.length)
    (hsum : al.sum = 1) (hr : 0 < r) :
    ConvexOn ℝ (Ioi 0) (nrF0 r p.toArray al.toArray) := by
  have hd : ∀ x ∈ Ioi (0 : ℝ), HasDerivAt (nrF0 r p.toArray al.toArray) (nrF1 r al.toArray x) x :=
    fun x hx => nrF0_hasDerivAt hal hlen hr hx
  apply MonotoneOn.convexOn_of_deriv (convex_Ioi 0)
  · exact fun x hx => (hd x hx).continuousAt.continuousWithinAt
  · rw [interior_Ioi]; exact fun x hx => (hd x hx).differentiableAt.differentiableWithinAt
  · rw [interior_Ioi]
    intro x hx y hy hxy
    rw [(hd x hx).deriv, (hd y hy).deriv]
    exact nrF1_mono hal hsum hr hx hy hxy

/-- tangent inequality at `x` towards a point `ρ ≥ x` -/
theorem nrF0_tangent {r x ρ : ℝ} {p al : List ℝ} (hal : AllPos al) (hlen : al.length = p.length)
    (hsum : al.sum = 1) (hr : 0 < r) (hx : 0 < x) (hxρ : x ≤ ρ) :
    nrF0 r p.toArray al.toArray x + nrF1 r al.toArray x * (ρ - x) ≤ nrF0 r p.toArray al.toArray ρ := by
  rcases eq_or_lt_of_le hxρ with rfl | hlt
  · simp
  have hρ : 0 < ρ := lt_trans hx hlt
  have h := (nrF0_convexOn (p := p) hal hlen hsum hr).le_slope_of_hasDerivAt (mem_Ioi.mpr hx) (mem_Ioi.mpr hρ) hlt
    (nrF0_hasDerivAt hal hlen hr hx)
  rw [slope_def_field, le_div_iff₀ (by linarith)] at h
  linarith

/-! ### the start point is left of the root -/

theorem nrX0_eq_start (r phi ψ : ℝ) : nrX0 r phi ψ = Pow.nrStart ψ r phi := by
  unfold nrX0 Pow.nrStart
  simp only [recip, real_sqrt_eq]

/-- `ψ = 1/Σαᵢ² ≥ 1` -/
theorem psi_ge_one {al : List ℝ} (hal : AllPos al) (hsum : al.sum = 1) : 1 ≤ 1 / sumSq al := by
  rw [le_div_iff₀ (sumSq_pos hal hsum)]
  linarith [sumSq_le_one hal hsum]

/-- tangent line of the convex `a ↦ log(c + 1/a)` at `a = q` -/
theorem log_tangent {a q c : ℝ} (ha : 0 < a) (hq : 0 < q) (hc : 0 ≤ c) :
    Real.log (c + 1 / q) + (q - a) / (q * (q * c + 1)) ≤ Real.log (c + 1 / a) := by
  have hP : 0 < c + 1 / a := by positivity
  have hPs : 0 < c + 1 / q := by positivity
  have h := Real.log_le_sub_one_of_pos (div_pos hPs hP)
  rw [Real.log_div (ne_of_gt hPs) (ne_of_gt hP)] at h
  have key : (q - a) / (q * (q * c + 1)) ≤ 1 - (c + 1 / q) / (c + 1 / a) := by
    have e : 1 - (c + 1 / q) / (c + 1 / a) = (q - a) / (q * (a * c + 1)) := by
      have : a * c + 1 ≠ 0 := by positivity
      have : c + 1 / a ≠ 0 := ne_of_gt hP
      field_simp
      ring
    rw [e, div_le_div_iff₀ (by positivity) (by positivity)]
    nlinarith [mul_nonneg (mul_nonneg hq.le hc) (sq_nonneg (q - a))]
  linarith

/-- n-ary Jensen (tangent-line form): `2 log(c + 1/Σαᵢ²) ≤ Σ 2αᵢ log(c + 1/αᵢ)` -/
theorem sum_log_ge {al : List ℝ} (hal : AllPos al) (hsum : al.sum = 1) {c : ℝ} (hc : 0 ≤ c) :
    2 * Real.log (c + 1 / sumSq al) ≤ (al.map (fun a => 2 * a * Real.log (c + 1 / a))).sum := by
  have hq := sumSq_pos hal hsum
  have h := sum_map_le_lin al (fun _ => 0) (fun a => 2 * a * Real.log (c + 1 / a))
    (-(2 * (Real.log (c + 1 / sumSq al) + sumSq al * (1 / (sumSq al * (sumSq al * c + 1))))))
    (2 * (1 / (sumSq al * (sumSq al * c + 1)))) 0 (by
      intro a ha
      have h0 := hal a ha
      have ht := log_tangent h0 hq hc
      rw [div_eq_mul_one_div (sumSq al - a)] at ht
      have := mul_le_mul_of_nonneg_left ht h0.le
      simp only [add_zero]
      nlinarith)
  simp only [List.map_const', List.sum_replicate, smul_zero, mul_zero, add_zero, hsum, one_mul] at h
  linarith

theorem sum_map_sub {β : Type} (l : List β) (f g : β → ℝ) :
    (l.map (fun q => f q - g q)).sum = (l.map f).sum - (l.map g).sum := by
  induction l with
  | nil => simp
  | cons q t ih => simp only [List.map_cons, List.sum_cons, ih]; ring

/-- `nrF0` on `x > 0` with `Real.log` and the sums separated -/
theorem nrF0_eq_log {r x : ℝ} {p al : List ℝ} (hal : AllPos al) (hp : AllPos p) (hlen : al.length = p.length)
    (hr : 0 < r) (hx : 0 < x) :
    nrF0 r p.toArray al.toArray x =
      (al.map (fun a => 2 * a * Real.log ((x * r + 1) + 1 / a))).sum
        - ((al.zip p).map (fun q => 2 * q.1 * Real.log q.2)).sum - Real.log (x * x + x * 2 / r) := by
  rw [nrF0_eq_sum]
  have hpos : 0 < 2 * x / r + x * x := by positivity
  have e0 : 2 * x / r + x * x = x * x + x * 2 / r := by ring
  have eS : (al.zip p).map (fun q => 2 * q.1 * (logsafe (x * r + (1 + q.1) / q.1) - logsafe q.2))
      = (al.zip p).map (fun q => (fun a => 2 * a * Real.log ((x * r + 1) + 1 / a)) q.1 - 2 * q.1 * Real.log q.2) := by
    apply List.map_congr_left
    intro q hq
    have h1 := hal q.1 (List.of_mem_zip hq).1
    have h2 := hp q.2 (List.of_mem_zip hq).2
    have hP : 0 < x * r + (1 + q.1) / q.1 := by positivity
    have e : x * r + (1 + q.1) / q.1 = (x * r + 1) + 1 / q.1 := by
      have : q.1 ≠ 0 := ne_of_gt h1
      field_simp
      ring
    rw [logsafe_of_pos hP, logsafe_of_pos h2, e]
    ring
  rw [eS, sum_map_sub, map_zip_fst (fun a => 2 * a * Real.log ((x * r + 1) + 1 / a)) al p hlen,
    logsafe_of_pos hpos, e0]
  ring

theorem log_prodPhiP (al p : List ℝ) (hp : AllPos p) :
    Real.log (prodPhiP al p) = ((al.zip p).map (fun q => 2 * q.1 * Real.log q.2)).sum := by
  rw [prodPhiP_eq_exp al p hp, Real.log_exp]

/-- lower bound: `f0(x) ≥ 2 log(x r + 1 + ψ) - log φ - log(x² + 2x/r)` with `ψ = 1/Σαᵢ²` -/
theorem nrF0_ge_psi {r x : ℝ} {p al : List ℝ} (hal : AllPos al) (hp : AllPos p) (hlen : al.length = p.length)
    (hsum : al.sum = 1) (hr : 0 < r) (hx : 0 < x) :
    2 * Real.log (x * r + 1 + 1 / sumSq al) - Real.log (prodPhiP al p) - Real.log (x * x + x * 2 / r)
      ≤ nrF0 r p.toArray al.toArray x := by
  rw [nrF0_eq_log hal hp hlen hr hx, log_prodPhiP al p hp]
  have hc : 0 ≤ x * r + 1 := by positivity
  have := sum_log_ge hal hsum hc
  linarith

/-- **G4**: the start `nrX0 r φ ψ` (`ψ = 1/Σαᵢ²`) is positive and the target is non-negative there: the
start is left of the root. -/
theorem nrF0_start_nonneg {r ψ : ℝ} {p al : List ℝ} (hal : AllPos al) (hp : AllPos p)
    (hlen : al.length = p.length) (hsum : al.sum = 1) (hr : 0 < r) (hψ : ψ = 1 / sumSq al)
    (hint : r * r < prodPhiP al p) :
    0 < nrX0 r (prodPhiP al p) ψ ∧ 0 ≤ nrF0 r p.toArray al.toArray (nrX0 r (prodPhiP al p) ψ) := by
  rw [nrX0_eq_start]
  have h1 : 1 ≤ ψ := hψ ▸ psi_ge_one hal hsum
  obtain ⟨hx, -⟩ := Pow.nrStart_spec h1 hr hint
  refine ⟨hx, ?_⟩
  have h := nrF0_ge_psi hal hp hlen hsum hr hx
  have hl := Pow.log_at_start h1 hr hint
  rw [← hψ] at h
  linarith

/-! ### one-sided Newton -/

/-- one-sided Newton from any positive start with `f0 ≥ 0` -/
theorem newton_from_left {r ρ x0 : ℝ} {p al : List ℝ} (hal : AllPos al) (hlen : al.length = p.length)
    (hsum : al.sum = 1) (hr : 0 < r) (hρ : 0 < ρ) (hroot : nrF0 r p.toArray al.toArray ρ = 0)
    (hx0 : 0 < x0) (hf0 : 0 ≤ nrF0 r p.toArray al.toArray x0) (fuel it : Nat) :
    x0 ≤ ρ ∧
      x0 ≤ (newtonRaphsonOnesided (nrF0 r p.toArray al.toArray) (nrF1 r al.toArray) fuel x0 it).1 ∧
      (newtonRaphsonOnesided (nrF0 r p.toArray al.toArray) (nrF1 r al.toArray) fuel x0 it).1 ≤ ρ := by
  have hanti := nrF0_strictAnti (p := p) hal hlen hsum hr
  have hx0r : x0 ≤ ρ := by
    by_contra hlt
    rw [not_le] at hlt
    have := hanti (mem_Ioi.mpr hρ) (mem_Ioi.mpr hx0) hlt
    linarith
  refine ⟨hx0r, ?_⟩
  apply newton_loop_onesided (lo := x0) _ fuel _ it (le_refl _) hx0r
  intro y hy hyr
  have hy0 : 0 < y := lt_of_lt_of_le hx0 hy
  refine ⟨nrF1_neg hal hsum hr hy0, ?_, ?_⟩
  · rcases eq_or_lt_of_le hyr with rfl | hlt
    · rw [hroot]
    · have := hanti (mem_Ioi.mpr hy0) (mem_Ioi.mpr hρ) hlt
      linarith
  · have := nrF0_tangent (p := p) hal hlen hsum hr hy0 hyr
    rw [hroot] at this
    exact this

/-- **G5**: `_newton_raphson_genpowcone` is a one-sided Newton iteration: for a root `ρ > 0` of the
target the start is left of `ρ` and the returned value lies in `[nrX0, ρ]`. -/
theorem newtonRaphson_onesided {r ψ ρ : ℝ} {p al : List ℝ} (hal : AllPos al) (hp : AllPos p)
    (hlen : al.length = p.length) (hsum : al.sum = 1) (hr : 0 < r) (hψ : ψ = 1 / sumSq al)
    (hint : r * r < prodPhiP al p) (hρ : 0 < ρ) (hroot : nrF0 r p.toArray al.toArray ρ = 0) :
    0 < nrX0 r (prodPhiP al p) ψ ∧ nrX0 r (prodPhiP al p) ψ ≤ ρ ∧
      nrX0 r (prodPhiP al p) ψ ≤ (newtonRaphson r p.toArray (prodPhiP al p) al.toArray ψ).1 ∧
      (newtonRaphson r p.toArray (prodPhiP al p) al.toArray ψ).1 ≤ ρ := by
  obtain ⟨hx0, hf0⟩ := nrF0_start_nonneg hal hp hlen hsum hr hψ hint
  obtain ⟨h1, h2, h3⟩ := newton_from_left hal hlen hsum hr hρ hroot hx0 hf0 100 0
  exact ⟨hx0, h1, h2, h3⟩

/-! ### existence and uniqueness of the root -/

theorem length_ge_one {al : List ℝ} (hsum : al.sum = 1) : (1 : ℝ) ≤ (al.length : ℝ) := by
  have := List.length_pos_iff.mpr (ne_nil_of_sum hsum)
  exact_mod_cast this

/-- weighted AM–GM (tangent-line form): `Σ 2αᵢ log(c + 1/αᵢ) ≤ 2 log(c + n)` -/
theorem sum_log_le {al : List ℝ} (hal : AllPos al) (hsum : al.sum = 1) {c : ℝ} (hc : 0 ≤ c) :
    (al.map (fun a => 2 * a * Real.log (c + 1 / a))).sum ≤ 2 * Real.log (c + (al.length : ℝ)) := by
  have hn := length_ge_one hsum
  have hT : 0 < c + (al.length : ℝ) := by linarith
  have h := sum_map_le_lin al (fun a => 2 * a * Real.log (c + 1 / a)) (fun _ => 0)
    (2 * Real.log (c + (al.length : ℝ)) + 2 * c / (c + (al.length : ℝ)) - 2) 0
    (2 / (c + (al.length : ℝ))) (by
      intro a ha
      have h0 := hal a ha
      have hP : 0 < c + 1 / a := by positivity
      have ht := Real.log_le_sub_one_of_pos (div_pos hP hT)
      rw [Real.log_div (ne_of_gt hP) (ne_of_gt hT)] at ht
      have e : a * ((c + 1 / a) / (c + (al.length : ℝ)))
          = a * c / (c + (al.length : ℝ)) + 1 / (c + (al.length : ℝ)) := by
        have : a ≠ 0 := ne_of_gt h0
        field_simp
      have := mul_le_mul_of_nonneg_left ht h0.le
      rw [mul_sub, mul_sub, e] at this
      simp only [mul_zero, add_zero, zero_add]
      have e2 : a * (2 * c / (c + (al.length : ℝ))) = 2 * (a * c / (c + (al.length : ℝ))) := by ring
      have e3 : 2 / (c + (al.length : ℝ)) = 2 * (1 / (c + (al.length : ℝ))) := by ring
      rw [mul_sub, mul_add, e2, e3]
      linarith)
  simp only [List.map_const', List.sum_replicate, smul_zero, mul_zero, add_zero, zero_add, hsum, one_mul] at h
  have e : 2 * c / (c + (al.length : ℝ)) + (al.length : ℝ) * (2 / (c + (al.length : ℝ))) = 2 := by
    field_simp
  linarith

/-- upper bound: `f0(x) ≤ 2 log(x r + 1 + n) - log φ - log(x² + 2x/r)`, `n` the number of exponents -/
theorem nrF0_le_n {r x : ℝ} {p al : List ℝ} (hal : AllPos al) (hp : AllPos p) (hlen : al.length = p.length)
    (hsum : al.sum = 1) (hr : 0 < r) (hx : 0 < x) :
    nrF0 r p.toArray al.toArray x
      ≤ 2 * Real.log (x * r + 1 + (al.length : ℝ)) - Real.log (prodPhiP al p) - Real.log (x * x + x * 2 / r) := by
  rw [nrF0_eq_log hal hp hlen hr hx, log_prodPhiP al p hp]
  have hc : 0 ≤ x * r + 1 := by positivity
  have := sum_log_le hal hsum hc
  linarith

/-- at `x_n = Pow.nrStart n r φ` (start parameter `ψ = n`) the target is non-positive: `x_n` is right
of the root -/
theorem nrF0_right_nonpos {r : ℝ} {p al : List ℝ} (hal : AllPos al) (hp : AllPos p)
    (hlen : al.length = p.length) (hsum : al.sum = 1) (hr : 0 < r) (hint : r * r < prodPhiP al p) :
    0 < Pow.nrStart (al.length : ℝ) r (prodPhiP al p) ∧
      nrF0 r p.toArray al.toArray (Pow.nrStart (al.length : ℝ) r (prodPhiP al p)) ≤ 0 := by
  have h1 := length_ge_one hsum
  obtain ⟨hx, -⟩ := Pow.nrStart_spec h1 hr hint
  refine ⟨hx, ?_⟩
  have h := nrF0_le_n hal hp hlen hsum hr hx
  have hl := Pow.log_at_start h1 hr hint
  linarith

/-- at most one positive root -/
theorem root_unique {r ρ ρ' : ℝ} {p al : List ℝ} (hal : AllPos al) (hlen : al.length = p.length)
    (hsum : al.sum = 1) (hr : 0 < r) (hρ : 0 < ρ) (hroot : nrF0 r p.toArray al.toArray ρ = 0)
    (hρ' : 0 < ρ') (hroot' : nrF0 r p.toArray al.toArray ρ' = 0) : ρ' = ρ :=
  (nrF0_strictAnti (p := p) hal hlen hsum hr).injOn (mem_Ioi.mpr hρ') (mem_Ioi.mpr hρ) (by rw [hroot, hroot'])

/-- the target has a positive root, bracketed by the start points with `ψ = 1/Σαᵢ²` and `ψ = n` -/
theorem exists_root {r : ℝ} {p al : List ℝ} (hal : AllPos al) (hp : AllPos p)
    (hlen : al.length = p.length) (hsum : al.sum = 1) (hr : 0 < r) (hint : r * r < prodPhiP al p) :
    ∃ ρ, 0 < ρ ∧ nrF0 r p.toArray al.toArray ρ = 0 ∧
      nrX0 r (prodPhiP al p) (1 / sumSq al) ≤ ρ ∧ ρ ≤ Pow.nrStart (al.length : ℝ) r (prodPhiP al p) := by
  obtain ⟨hx0, hf0⟩ := nrF0_start_nonneg hal hp hlen hsum hr rfl hint
  obtain ⟨hxn, hfn⟩ := nrF0_right_nonpos hal hp hlen hsum hr hint
  have hanti := nrF0_strictAnti (p := p) hal hlen hsum hr
  have hle : nrX0 r (prodPhiP al p) (1 / sumSq al) ≤ Pow.nrStart (al.length : ℝ) r (prodPhiP al p) := by
    by_contra hlt
    rw [not_le] at hlt
    have := hanti (mem_Ioi.mpr hxn) (mem_Ioi.mpr hx0) hlt
    linarith
  have hcont : ContinuousOn (nrF0 r p.toArray al.toArray)
      (Icc (nrX0 r (prodPhiP al p) (1 / sumSq al)) (Pow.nrStart (al.length : ℝ) r (prodPhiP al p))) := by
    intro y hy
    exact (nrF0_hasDerivAt hal hlen hr (lt_of_lt_of_le hx0 hy.1)).continuousAt.continuousWithinAt
  obtain ⟨ρ, hρ, hval⟩ := intermediate_value_Icc' hle hcont (show (0 : ℝ) ∈ Icc _ _ from ⟨hfn, hf0⟩)
  exact ⟨ρ, lt_of_lt_of_le hx0 hρ.1, hval, hρ.1, hρ.2⟩

/-- **G5, unconditional form**: for interior data the target has exactly one positive root `ρ`, the
start `nrX0` is in `(0, ρ]`, and `_newton_raphson_genpowcone` returns a value in `[nrX0, ρ]`. -/
theorem newtonRaphson_bracket {r ψ : ℝ} {p al : List ℝ} (hal : AllPos al) (hp : AllPos p)
    (hlen : al.length = p.length) (hsum : al.sum = 1) (hr : 0 < r) (hψ : ψ = 1 / sumSq al)
    (hint : r * r < prodPhiP al p) :
    ∃ ρ, 0 < ρ ∧ nrF0 r p.toArray al.toArray ρ = 0 ∧
      (∀ ρ', 0 < ρ' → nrF0 r p.toArray al.toArray ρ' = 0 → ρ' = ρ) ∧
      0 < nrX0 r (prodPhiP al p) ψ ∧
      nrX0 r (prodPhiP al p) ψ ≤ (newtonRaphson r p.toArray (prodPhiP al p) al.toArray ψ).1 ∧
      (newtonRaphson r p.toArray (prodPhiP al p) al.toArray ψ).1 ≤ ρ ∧
      ρ ≤ Pow.nrStart (al.length : ℝ) r (prodPhiP al p) := by
  obtain ⟨ρ, hρ, hroot, -, hup⟩ := exists_root hal hp hlen hsum hr hint
  obtain ⟨h0, -, h2, h3⟩ := newtonRaphson_onesided hal hp hlen hsum hr hψ hint hρ hroot
  exact ⟨ρ, hρ, hroot, fun ρ' hρ' hroot' => root_unique hal hlen hsum hr hρ hroot hρ' hroot', h0, h2, h3, hup⟩

/-! ### bridges to the model's `gradient_primal` -/

theorem zip_swap_map (f : ℝ × ℝ → ℝ) (al p : List ℝ) :
    (p.zip al).map (fun q => f (q.2, q.1)) = (al.zip p).map f := by
  induction al generalizing p with
  | nil => simp
  | cons a t ih =>
    cases p with
    | nil => simp
    | cons b s => simp only [List.zip_cons_cons, List.map_cons, ih s]

/-- the `phi` computed in `gradient_primal` (left fold from 1) is `Π pᵢ^{2αᵢ}` -/
theorem phiPrimal_fold_eq (al p : List ℝ) :
    (p.toArray.toList.zip al.toArray.toList).foldl (fun phi q => phi * powf q.1 (2 * q.2)) 1 = prodPhiP al p := by
  rw [foldl_mul_prod (fun q : ℝ × ℝ => powf q.1 (2 * q.2)), one_mul]
  unfold prodPhiP
  rw [← zip_swap_map (fun q => q.2 ^ (2 * q.1)) al p]
  simp only [real_powf_eq]

/-- `ψ` as computed by `GenPowerConeData::new` -/
theorem psi_model_eq (al : List ℝ) : (1 : ℝ) / Vec.sumsq al.toArray = 1 / sumSq al := by
  rw [sumsq_eq]

/-- the hypotheses are satisfiable: `α = (½, ½)`, `p = (2, 2)`, `r = 1`, `ψ = 2` -/
theorem hyps_nonvacuous :
    AllPos [(1 / 2 : ℝ), 1 / 2] ∧ AllPos [(2 : ℝ), 2] ∧ [(1 / 2 : ℝ), 1 / 2].length = [(2 : ℝ), 2].length ∧
      [(1 / 2 : ℝ), 1 / 2].sum = 1 ∧ (0 : ℝ) < 1 ∧ (2 : ℝ) = 1 / sumSq [(1 / 2 : ℝ), 1 / 2] ∧
      (1 : ℝ) * 1 < prodPhiP [(1 / 2 : ℝ), 1 / 2] [(2 : ℝ), 2] := by
  refine ⟨?_, ?_, rfl, by norm_num, one_pos, ?_, ?_⟩
  · intro x hx; simp at hx; rw [hx]; norm_num
  · intro x hx; simp at hx; rw [hx]; norm_num
  · unfold sumSq; norm_num
  · unfold prodPhiP
    have e : (2 : ℝ) * (1 / 2) = 1 := by norm_num
    simp only [List.zip_cons_cons, List.zip_nil_right, List.map_cons, List.map_nil, List.prod_cons,
      List.prod_nil, e, Real.rpow_one]
    norm_num

end Clarabel.GenPow
