/-
  Panic-freedom of the whole-solver model (C04), stage "construction of the internal problem
  data": `internalData` of `ClarabelModel/Solver/Solve.lean`
  (= `ProblemData.new` → `makeCones` + `assert_eq!(cones.numel, data.m)` → `Equil.equilibrate`)
  and `_check_dimensions`.

  * `InputOK P q A b cones` : well-formed user input.
  * `checkDimensions_ok`     : `_check_dimensions` passes.
  * `internalData_noPanic`   : no panic site of `internalData` is reachable.
  * `internalData_dataOK`    : whatever `internalData` returns is `DataOK`, has `n = A.n`, and its
                               cone list builds a composite cone of exactly `m` rows.

  All structural ([S]): no law of the scalar type is used.
-/
import ClarabelProofs.Lemmas.SolverModelNoPanicDefs
import ClarabelProofs.Lemmas.PresolveInfCapture
import ClarabelProofs.Lemmas.PresolveHandReduce
import ClarabelProofs.Props.C16

namespace Clarabel.Solver
open Clarabel Info Residuals

set_option linter.unusedSectionVars false
set_option linter.unusedVariables false

variable {α : Type}

/-- well-formed user input of `DefaultSolver::new`: `P` and `A` are canonical CSC encodings
(`check_format` passes), `P` is square, the dimensions of `q`, `A`, `b` fit, and the cone list
covers exactly the rows of `A` (`Σ nvars = m`, what `_check_dimensions` asserts).  Supported
cone types only are NOT assumed (an unsupported cone gives `.err`, which is not a panic), and
no lower bound on second-order cone dimensions is needed (`new_collapsed` removes
`SecondOrderConeT(0)` and turns `SecondOrderConeT(1)` into a nonnegative cone before any
`SecondOrderCone::new` runs). -/
structure InputOK (P : Csc α) (q : Array α) (A : Csc α) (b : Array α) (cones : List (ConeT α)) :
    Prop where
  P_canon : C16.Canonical0 P
  P_sq : P.m = P.n
  A_canon : C16.Canonical0 A
  A_n : A.n = P.n
  q : q.size = P.n
  b : b.size = A.m
  cones : Cones.numel cones = A.m

/-! ### `_check_dimensions` -/

theorem foldl_nvars_eq_numel (cones : List (ConeT α)) (a : Nat) :
    (cones.map ConeT.nvars).foldl (fun acc c => acc + c) a = a + Cones.numel cones := by
  induction cones generalizing a with
  | nil => rfl
  | cons c cs ih =>
    simp only [List.map_cons, List.foldl_cons, Cones.numel]
    rw [ih]; omega

/-- `Σ nvars` in the `List.sum` form -/
theorem numel_eq_sum (cones : List (ConeT α)) : Cones.numel cones = (cones.map ConeT.nvars).sum := by
  induction cones with
  | nil => rfl
  | cons c cs ih => simp only [Cones.numel, List.map_cons, List.sum_cons, ih]

section
variable [Add α] [Sub α] [Mul α] [Div α] [Neg α] [OfNat α 0] [OfNat α 1] [OfNat α 2]
  [OfNat α 100] [OfNat α 1000] [LT α] [DecidableLT α] [LE α] [DecidableLE α] [BEq α] [FloatLike α]

/-- [S] `_check_dimensions` passes on well-formed input -/
theorem checkDimensions_ok {P : Csc α} {q : Array α} {A : Csc α} {b : Array α} {cones : List (ConeT α)}
    (h : InputOK P q A b cones) :
    Loop.checkDimensions P.m P.n q.size A.m A.n b.size (cones.map ConeT.nvars) = .ok () := by
  unfold Loop.checkDimensions
  have hp : (cones.map ConeT.nvars).foldl (fun acc c => acc + c) 0 = b.size := by
    rw [foldl_nvars_eq_numel, h.cones, h.b]; omega
  simp only [hp]
  rw [if_neg (by simp [h.b]), if_neg (by simp), if_neg (by simp [h.q, h.A_n]),
    if_neg (by simp [h.q]), if_neg (by simp [h.P_sq])]
  rfl

end

/-! ### canonical encodings: helpers -/

theorem ofCols_colptr_zero (m n : Nat) (cols : List (List (Nat × α))) :
    (Csc.ofCols m n cols).colptr.getD 0 0 = 0 := by
  rw [Csc.ofCols_colptr_getD m n cols 0 (Nat.zero_le _)]
  rfl

/-- `Canonical0` does not look at the values -/
theorem canonical0_with_nzval {K : Csc α} (h : C16.Canonical0 K) (nz : Array α)
    (hsz : nz.size = K.nzval.size) : C16.Canonical0 { K with nzval := nz } :=
  ⟨⟨by show K.rowval.size = nz.size; rw [hsz]; exact h.canon.len_eq, h.canon.colptr_size,
    h.canon.colptr_last, h.canon.colptr_mono, h.canon.rows_sorted, h.canon.rows_bound⟩, h.colptr_zero⟩

/-- [S] `to_triu` of a canonical square matrix: canonical (`colptr[0] = 0` included), same
shape, upper triangular -/
theorem toTriu_canonical0 [Add α] [OfNat α 0] (M : Csc α) (hM : C16.Canonical0 M) (hsq : M.m = M.n) :
    ∃ R, M.toTriu = .ok R ∧ C16.Canonical0 R ∧ R.m = M.m ∧ R.n = M.n ∧ R.isTriu = true := by
  obtain ⟨R, h1, hc, hm, hn, ht, _⟩ := C16.toTriu_spec M hM.canon hsq
  refine ⟨R, h1, ⟨hc, ?_⟩, hm, hn, ht⟩
  unfold Csc.toTriu at h1
  rw [if_neg (by simp [hsq])] at h1
  have h2 := Except.ok.inj h1
  rw [← h2]
  exact ofCols_colptr_zero _ _ _

/-- [S] `select_rows` of a canonical matrix with a keep vector of length `m`: canonical
(`colptr[0] = 0` included), `count keep` rows, same number of columns -/
theorem selectRows_canonical0 [Add α] [OfNat α 0] (M : Csc α) (keep : Array Bool)
    (hM : C16.Canonical0 M) (hk : keep.size = M.m) :
    ∃ R, M.selectRows keep = .ok R ∧ C16.Canonical0 R ∧
      R.m = (keep.toList.filter id).length ∧ R.n = M.n := by
  obtain ⟨R, h1, hc, hm, hn, _⟩ := C16.selectRows_spec M keep hM.canon hk
  refine ⟨R, h1, ⟨hc, ?_⟩, hm, hn⟩
  unfold Csc.selectRows at h1
  have hrows : (M.rowval.toList.all (fun r => decide (r < M.m))) = true :=
    List.all_eq_true.mpr (fun r hr => decide_eq_true (hM.canon.rows_bound r hr))
  rw [if_neg (by simp [hk]), if_neg (by simp [hrows])] at h1
  have h2 := Except.ok.inj h1
  rw [← h2]
  exact ofCols_colptr_zero _ _ _

theorem zip_filter_snd_length {β : Type} : ∀ (xs : List β) (ks : List Bool), xs.length = ks.length →
    ((xs.zip ks).filter (·.2)).length = ks.count true
  | [], [], _ => rfl
  | [], _ :: _, h => by simp at h
  | _ :: _, [], h => by simp at h
  | x :: xs, k :: ks, h => by
    have ih := zip_filter_snd_length xs ks (by simpa using h)
    cases k <;> simp [ih]

/-- `b.select(keep)` has one entry per kept row -/
theorem size_select (b : Array α) (keep : Array Bool) (h : b.size = keep.size) :
    (Vec.select b keep).size = keep.toList.count true := by
  unfold Vec.select
  simp only [List.size_toArray, List.length_map]
  exact zip_filter_snd_length _ _ (by simpa using h)

/-! ### `DefaultProblemData::new` -/

section
variable [Add α] [Sub α] [Mul α] [Div α] [Neg α] [OfNat α 0] [OfNat α 1] [OfNat α 2]
  [OfNat α 100] [OfNat α 1000] [LT α] [DecidableLT α] [LE α] [DecidableLE α] [BEq α] [FloatLike α]

/-- what `DefaultProblemData::new` establishes: well-formed data, `n` of the user's `A`, a cone
list in the normal form of `new_collapsed` that covers exactly the `m` rows -/
structure PreOK (A : Csc α) (d : ProblemData α) : Prop where
  data : DataOK d
  n : d.n = A.n
  numel : Cones.numel d.cones = d.m
  normal : Cones.Normal d.cones
  /-- without a row map the internal problem has the rows of the user's `A` -/
  rows_none : presolveMap d = none → d.m = A.m
  /-- the row map has one flag per row of the user's `A` -/
  rows_some : ∀ p, presolveMap d = some p → p.keep.size = A.m

/-- [S] `triu_step`: total on a canonical square `P`; the result is canonical, of the same
shape, upper triangular -/
theorem triuStep_spec (P : Csc α) (hP : C16.Canonical0 P) (hsq : P.m = P.n) :
    ∃ Pn, ProblemData.triuStep P = .ok Pn ∧ C16.Canonical0 Pn ∧ Pn.m = P.m ∧ Pn.n = P.n ∧
      Pn.isTriu = true := by
  unfold ProblemData.triuStep
  by_cases ht : P.isTriu = true
  · exact ⟨P, by simp [ht]; rfl, hP, rfl, rfl, ht⟩
  · obtain ⟨R, h1, h2⟩ := toTriu_canonical0 P hP hsq
    exact ⟨R, by simp [ht, h1], h2⟩

/-- the record `assemble` builds is well formed when its parts are -/
theorem assemble_preOK {A : Csc α} (Pn : Csc α) (q : Array α) (A' : Csc α) (b' : Array α)
    (cs' : List (ConeT α)) (pres : Option (Presolve.Presolver α)) (inf : α)
    (hP : C16.Canonical0 Pn) (hPm : Pn.m = A'.n) (hPn : Pn.n = A'.n) (hPt : Pn.isTriu = true)
    (hA : C16.Canonical0 A') (hAn : A'.n = A.n) (hq : q.size = A'.n) (hb : b'.size = A'.m)
    (hnum : Cones.numel cs' = A'.m) (hnorm : Cones.Normal cs')
    (hkeep : ∀ p keep, pres = some p → p.keep = some keep →
      (keep.toList.filter id).length = A'.m ∧ keep.size = A.m)
    (hrows : (∀ p, pres = some p → p.keep = none) → A'.m = A.m) :
    PreOK A (ProblemData.assemble Pn q A' b' cs' pres inf) := by
  have hmap : ∀ p, presolveMap (ProblemData.assemble Pn q A' b' cs' pres inf) = some p →
      ∃ pr, pres = some pr ∧ pr.keep = some p.keep := by
    intro p hp
    cases pres with
    | none =>
      have hp' : (none : Option (Unscale.PresolveMap α)) = some p := hp
      cases hp'
    | some pr =>
      have hp' : pr.keep.map (fun keep => ({ keep, infbound := pr.infbound } : Unscale.PresolveMap α))
          = some p := hp
      cases hk : pr.keep with
      | none => rw [hk] at hp'; cases hp'
      | some keep =>
        rw [hk] at hp'
        cases hp'
        exact ⟨pr, rfl, hk⟩
  refine ⟨⟨hP, hPm, hPn, hPt, hA, rfl, rfl, hq, ?_, ?_, ?_, ?_, ?_, ?_⟩, hAn, hnum, hnorm, ?_, ?_⟩
  rotate_right 2
  · intro hnone
    refine hrows (fun pr hpr => ?_)
    subst hpr
    have hp' : pr.keep.map (fun keep => ({ keep, infbound := pr.infbound } : Unscale.PresolveMap α))
        = none := hnone
    cases hk : pr.keep with
    | none => rfl
    | some keep => rw [hk] at hp'; cases hp'
  · intro p hp
    obtain ⟨pr, hpr, hk⟩ := hmap p hp
    exact (hkeep pr p.keep hpr hk).2
  · show (ProblemData.capB b' inf).size = A'.m
    unfold ProblemData.capB; rw [Array.size_map]; exact hb
  · show (Array.replicate A'.n (1 : α)).size = A'.n; exact Array.size_replicate
  · show (Array.replicate A'.n (1 : α)).size = A'.n; exact Array.size_replicate
  · show (Array.replicate A'.m (1 : α)).size = A'.m; exact Array.size_replicate
  · show (Array.replicate A'.m (1 : α)).size = A'.m; exact Array.size_replicate
  · intro p hp
    obtain ⟨pr, hpr, hk⟩ := hmap p hp
    exact (hkeep pr p.keep hpr hk).1

/-- [S] **`DefaultProblemData::new` is total on well-formed input** (chordal decomposition off,
either value of `presolve_enable`), and its result is well formed -/
theorem problemDataNew_spec {P : Csc α} {q : Array α} {A : Csc α} {b : Array α} {cones : List (ConeT α)}
    (h : InputOK P q A b cones) (pe : Bool) (inf : α) :
    ∃ d, ProblemData.new P q A b cones pe false inf = .ok d ∧ PreOK A d := by
  obtain ⟨Pn, hT, hPc, hPm, hPn, hPt⟩ := triuStep_spec P h.P_canon h.P_sq
  have hnumC : Cones.numel (Cones.newCollapsed cones) = A.m := by
    unfold Cones.newCollapsed; rw [Cones.numel_collapseGo, h.cones]; omega
  have hnormC : Cones.Normal (Cones.newCollapsed cones : List (ConeT α)) := Cones.normal_collapseGo 0 cones
  have hnum' : Cones.numel (Cones.newCollapsed cones) = b.toList.length := by
    rw [hnumC, Array.length_toList, h.b]
  -- the record without a presolver
  have hnone : PreOK A (ProblemData.assemble Pn q A b (Cones.newCollapsed cones) none inf) :=
    assemble_preOK Pn q A b _ none inf hPc (by rw [hPm, h.P_sq, h.A_n]) (by rw [hPn, h.A_n]) hPt
      h.A_canon rfl (by rw [h.q, h.A_n]) h.b hnumC hnormC (fun p keep hp _ => by cases hp) (fun _ => rfl)
  cases pe with
  | false =>
    refine ⟨_, Presolve.new_eq_of_steps P q A b cones false inf Pn none (A, b, Cones.newCollapsed cones)
      hT (Presolve.tryPresolver_off b _ inf) rfl, hnone⟩
  | true =>
    obtain ⟨keep, hk, hkl, _⟩ := Presolve.keepFlags_spec (Presolve.threshold inf)
      (Cones.newCollapsed cones) b.toList hnum'
    have hpre := Presolve.tryPresolver_on b (Cones.newCollapsed cones) inf keep hk
    by_cases hc : keep.count true < b.size
    · rw [if_pos hc] at hpre
      have hkl' : keep.length = b.size := by rw [hkl, Array.length_toList]
      obtain ⟨A', hsel, hA'c, hA'm, hA'n⟩ := selectRows_canonical0 A keep.toArray h.A_canon
        (by show keep.length = A.m; rw [hkl', h.b])
      have hcnt : A'.m = keep.count true := by
        rw [hA'm, List.toList_toArray]; exact (Presolve.count_true_eq_filter_id keep).symm
      have hred : ProblemData.reduceStep (some (Presolve.recordOf keep b inf)) A b (Cones.newCollapsed cones)
          = .ok (A', Vec.select b keep.toArray, Presolve.reduceConesWith keep (Cones.newCollapsed cones)) :=
        Presolve.presolve_recordOf A A' b _ keep inf hkl' hsel
      refine ⟨_, Presolve.new_eq_of_steps P q A b cones true inf Pn _ _ hT hpre hred, ?_⟩
      refine assemble_preOK Pn q A' _ _ _ inf hPc (by rw [hPm, h.P_sq, hA'n, h.A_n])
        (by rw [hPn, hA'n, h.A_n]) hPt hA'c hA'n (by rw [h.q, hA'n, h.A_n]) ?_ ?_ ?_ ?_ ?_
      · rw [size_select b keep.toArray (show b.size = keep.length from hkl'.symm), List.toList_toArray, hcnt]
      · rw [Presolve.numel_reduceConesWith_keepFlags (Presolve.threshold inf) _ b.toList keep hnum' hk, hcnt]
      · exact Presolve.normal_reduceConesWith _ keep hnormC
      · intro p keep' hp hk'
        cases hp
        change some keep.toArray = some keep' at hk'
        cases hk'
        exact ⟨hA'm.symm, by show keep.length = A.m; rw [hkl', h.b]⟩
      · intro hno
        have := hno _ rfl
        cases this
    · rw [if_neg hc] at hpre
      exact ⟨_, Presolve.new_eq_of_steps P q A b cones true inf Pn none (A, b, Cones.newCollapsed cones)
        hT hpre rfl, hnone⟩

/-! ### `CompositeCone::new` on the internal cone list -/

theorem makeCone_numel {t : ConeT α} {c : ConeSt α} (h : makeCone t = .ok c) : c.numel = t.nvars := by
  cases t <;> try (cases h; done)
  · cases h; rfl
  · rename_i n
    cases h
    show ((List.replicate n (0 : α)).toArray).size = n
    simp
  · rename_i n
    unfold makeCone at h
    obtain ⟨K, hK, h⟩ := bind_ok_inv h
    cases h
    unfold Soc.new at hK
    split at hK
    · cases hK
    · cases hK; rfl

/-- `cones.numel` of the composite cone is `Σ nvars` of the cone list it was built from -/
theorem makeCones_numel : ∀ {ts : List (ConeT α)} {K : List (ConeSt α)}, makeCones ts = .ok K →
    numelAll K = Cones.numel ts := by
  intro ts
  induction ts with
  | nil => intro K h; cases h; rfl
  | cons t ts ih =>
    intro K h
    unfold makeCones at h
    simp only [List.mapM_cons] at h
    obtain ⟨c, hc, h⟩ := bind_ok_inv h
    obtain ⟨cs', hcs, h⟩ := bind_ok_inv h
    cases h
    rw [numelAll_cons, makeCone_numel hc, ih hcs]
    rfl

/-- `make_cone` does not panic unless it is a second-order cone of dimension `< 2` -/
theorem makeCone_noPanic (t : ConeT α) (h : ∀ d, t = .soc d → 2 ≤ d) : NoPanic (makeCone t) := by
  cases t with
  | zero n => exact NoPanic.ok _
  | nonneg n => exact NoPanic.ok _
  | soc n =>
    have hn := h n rfl
    have hs : ∃ K, Soc.new (α := α) n = .ok K := by
      unfold Soc.new
      rw [if_neg (by omega)]
      exact ⟨_, rfl⟩
    obtain ⟨K, hK⟩ := hs
    show NoPanic (Soc.new n >>= fun K => pure (ConeSt.soc K))
    rw [bind_ok_of hK]
    exact NoPanic.ok _
  | exp => exact NoPanic.err _
  | pow a => exact NoPanic.err _
  | genpow a d => exact NoPanic.err _
  | psd n => exact NoPanic.err _

theorem makeCones_noPanic (ts : List (ConeT α)) (h : ∀ d, ConeT.soc d ∈ ts → 2 ≤ d) :
    NoPanic (makeCones ts) := by
  induction ts with
  | nil => exact NoPanic.ok _
  | cons t ts ih =>
    unfold makeCones
    simp only [List.mapM_cons]
    refine NoPanic.bind (makeCone_noPanic t (fun d hd => h d (by rw [hd]; exact List.mem_cons_self ..))) ?_
    intro c _
    refine NoPanic.bind (ih (fun d hd => h d (List.mem_cons_of_mem _ hd))) ?_
    intro cs _
    exact NoPanic.ok _

/-- in the normal form of `new_collapsed` every second-order cone has dimension `≥ 2`
(`SecondOrderConeT(0)` is dropped, `SecondOrderConeT(1)` became a nonnegative cone) -/
theorem soc_ge_two_of_normal {ts : List (ConeT α)} (h : Cones.Normal ts) :
    ∀ d, ConeT.soc d ∈ ts → 2 ≤ d := by
  intro d hd
  obtain ⟨h0, h1⟩ := Cones.mem_good_of_normal h _ hd
  have h0' : d ≠ 0 := h0
  have h1' : d ≠ 1 := by
    rintro rfl
    rcases h1 with h1 | h1
    · cases h1
    · cases h1
  omega

/-! ### `equilibrate` keeps the data well formed -/

theorem canonical0_of_pattern {M N : Csc α} (h : C16.Canonical0 M) (hm : N.m = M.m) (hn : N.n = M.n)
    (hc : N.colptr = M.colptr) (hr : N.rowval = M.rowval) (hs : N.nzval.size = M.nzval.size) :
    C16.Canonical0 N := by
  obtain ⟨m, n, cp, rv, nz⟩ := N
  obtain ⟨m', n', cp', rv', nz'⟩ := M
  dsimp only at hm hn hc hr hs
  subst hm hn hc hr
  exact canonical0_with_nzval h nz hs

theorem mapEntries_canonical0 {M : Csc α} (h : C16.Canonical0 M) (f : Nat → Nat → α → α) :
    C16.Canonical0 (M.mapEntries f) :=
  canonical0_of_pattern h rfl rfl rfl rfl (by simp [Csc.mapEntries])

theorem scaleMat_canonical0 {M : Csc α} (h : C16.Canonical0 M) (c : α) :
    C16.Canonical0 (Equil.scaleMat M c) :=
  canonical0_of_pattern h rfl rfl rfl rfl (by simp [Equil.scaleMat])

theorem size_hadamard (x y : Array α) : (Equil.hadamardInPlace x y).size = x.size := by
  simp [Equil.hadamardInPlace]

theorem size_foldl_bump {β : Type} (L : List β) (g : β → Nat) (v : β → α) (ns : Array α) :
    (L.foldl (fun ns e => Equil.bump ns (g e) (v e)) ns).size = ns.size := by
  induction L generalizing ns with
  | nil => rfl
  | cons e r ih => rw [List.foldl_cons, ih]; simp [Equil.bump]

theorem size_foldl_bump2 {β : Type} (L : List β) (g g' : β → Nat) (v : β → α) (ns : Array α) :
    (L.foldl (fun ns e => Equil.bump (Equil.bump ns (g e) (v e)) (g' e) (v e)) ns).size = ns.size := by
  induction L generalizing ns with
  | nil => rfl
  | cons e r ih => rw [List.foldl_cons, ih]; simp [Equil.bump]

theorem size_rowNorms (M : Csc α) (w : Array α) : (Equil.rowNorms M w).size = w.size := by
  unfold Equil.rowNorms
  rw [size_foldl_bump M.storedEntries (fun e => e.1) (fun e => fabs e.2.2)]; simp

theorem size_colNormsNoReset (M : Csc α) (w : Array α) : (Equil.colNormsNoReset M w).size = w.size := by
  unfold Equil.colNormsNoReset
  rw [size_foldl_bump M.storedEntries (fun e => e.2.1) (fun e => fabs e.2.2)]

theorem size_colNorms (M : Csc α) (w : Array α) : (Equil.colNorms M w).size = w.size := by
  unfold Equil.colNorms; rw [size_colNormsNoReset]; simp

theorem size_colNormsSym (M : Csc α) (w : Array α) : (Equil.colNormsSym M w).size = w.size := by
  unfold Equil.colNormsSym
  rw [size_foldl_bump2 M.storedEntries (fun e => e.2.1) (fun e => e.1) (fun e => fabs e.2.2)]; simp

theorem size_stepScalings (s : Equil.Settings α) (dt : ProblemData α) :
    (Equil.stepScalings s dt).1.size = dt.equilibration.dinv.size ∧
    (Equil.stepScalings s dt).2.size = dt.equilibration.einv.size := by
  simp [Equil.stepScalings, Equil.kktColNorms, Equil.clipWork, Vec.rsqrt, Equil.unzero, size_rowNorms,
    size_colNormsNoReset, size_colNormsSym]

theorem length_rectifyGo (cones : List (ConeT α)) (es : List α) :
    (Equil.rectifyGo cones es).1.length = es.length := by
  induction cones generalizing es with
  | nil => simp [Equil.rectifyGo]
  | cons c cs ih =>
    have hc : (Equil.rectifyCone c (es.take c.nvars)).1.length = (es.take c.nvars).length := by
      unfold Equil.rectifyCone; split <;> simp
    simp only [Equil.rectifyGo, List.length_append, hc, ih, List.length_take, List.length_drop]
    omega

/-- `scale_data` + the update of `d`, `e`, `dinv`, `einv` -/
theorem DataOK.applyScaling {dt : ProblemData α} (h : DataOK dt) (dw : Option (Array α)) (ew : Array α)
    (hdw : ∀ w, dw = some w → w.size = dt.n) (hew : ew.size = dt.m) :
    DataOK (Equil.applyScaling dt dw ew) := by
  cases dw with
  | none =>
    exact ⟨h.P_canon, h.P_m, h.P_n, h.P_triu,
      (show C16.Canonical0 (Equil.lscale dt.A ew) from mapEntries_canonical0 h.A_canon _),
      h.A_m, h.A_n, h.q, (size_hadamard _ _).trans h.b, h.eq_d, h.eq_dinv, (size_hadamard _ _).trans h.eq_e, hew,
      fun p hp => h.keep p hp⟩
  | some w =>
    exact ⟨(show C16.Canonical0 (Equil.lrscale dt.P w w) from mapEntries_canonical0 h.P_canon _),
      h.P_m, h.P_n, h.P_triu,
      (show C16.Canonical0 (Equil.lrscale dt.A ew w) from mapEntries_canonical0 h.A_canon _), h.A_m, h.A_n, (size_hadamard _ _).trans h.q,
      (size_hadamard _ _).trans h.b, (size_hadamard _ _).trans h.eq_d, hdw w rfl,
      (size_hadamard _ _).trans h.eq_e, hew, fun p hp => h.keep p hp⟩

theorem DataOK.applyCost {dt : ProblemData α} (h : DataOK dt) (dw : Array α) (ct : Option α)
    (hdw : dw.size = dt.n) : DataOK (Equil.applyCost dt dw ct) := by
  cases ct with
  | none =>
    exact ⟨h.P_canon, h.P_m, h.P_n, h.P_triu, h.A_canon, h.A_m, h.A_n, h.q, h.b, h.eq_d, hdw, h.eq_e,
      h.eq_einv, fun p hp => h.keep p hp⟩
  | some c =>
    exact ⟨scaleMat_canonical0 h.P_canon c, h.P_m, h.P_n, h.P_triu, h.A_canon, h.A_m, h.A_n,
      (Array.size_map ..).trans h.q, h.b, h.eq_d, hdw, h.eq_e, h.eq_einv, fun p hp => h.keep p hp⟩

theorem costScaling_fst (s : Equil.Settings α) (dt : ProblemData α) :
    (Equil.costScaling s dt).1 = Equil.colNorms dt.P dt.equilibration.dinv := by
  unfold Equil.costScaling; simp only []; split <;> rfl

/-- one pass of the Ruiz loop keeps the data well formed -/
theorem DataOK.ruizStep {dt : ProblemData α} (h : DataOK dt) (s : Equil.Settings α) :
    DataOK (Equil.ruizStep s dt) := by
  unfold Equil.ruizStep
  have hw := size_stepScalings s dt
  have h1 : DataOK (Equil.applyScaling dt (some (Equil.stepScalings s dt).1) (Equil.stepScalings s dt).2) :=
    h.applyScaling _ _ (fun w hw' => by cases hw'; rw [hw.1, h.eq_dinv]) (by rw [hw.2, h.eq_einv])
  refine h1.applyCost _ _ ?_
  rw [costScaling_fst, size_colNorms]
  exact h1.eq_dinv

theorem DataOK.ruizLoop (s : Equil.Settings α) : ∀ (k : Nat) {dt : ProblemData α}, DataOK dt →
    DataOK (Equil.ruizLoop s k dt)
  | 0, _, h => h
  | k + 1, _, h => by
    unfold Equil.ruizLoop
    exact DataOK.ruizLoop s k (h.ruizStep s)

theorem DataOK.rectifyStep {dt : ProblemData α} (h : DataOK dt) (cones : List (ConeT α)) :
    DataOK (Equil.rectifyStep dt cones) := by
  have hr : (Equil.rectifyGo cones dt.equilibration.e.toList).1.toArray.size = dt.m := by
    rw [List.size_toArray, length_rectifyGo, Array.length_toList, h.eq_e]
  unfold Equil.rectifyStep
  dsimp only
  split
  · exact h.applyScaling none _ (fun w hw => by cases hw) hr
  · exact ⟨h.P_canon, h.P_m, h.P_n, h.P_triu, h.A_canon, h.A_m, h.A_n, h.q, h.b, h.eq_d, h.eq_dinv,
      h.eq_e, hr, fun p hp => h.keep p hp⟩

theorem DataOK.setInverses {dt : ProblemData α} (h : DataOK dt) : DataOK (Equil.setInverses dt) :=
  ⟨h.P_canon, h.P_m, h.P_n, h.P_triu, h.A_canon, h.A_m, h.A_n, h.q, h.b, h.eq_d,
    (Array.size_map ..).trans h.eq_d, h.eq_e, (Array.size_map ..).trans h.eq_e, fun p hp => h.keep p hp⟩

/-- [S] **`equilibrate` keeps the data well formed**: scaling only rewrites `nzval` of `P`, `A`
(the sparsity pattern, hence canonicity, triangularity and the dimensions, is untouched), `q`,
`b` and the four equilibration vectors keep their lengths, the presolver record is not touched -/
theorem equilibrate_dataOK {dt dt' : ProblemData α} {cones : List (ConeT α)} {s : Equil.Settings α}
    (h : DataOK dt) (he : Equil.equilibrate dt cones s = .ok dt') : DataOK dt' := by
  unfold Equil.equilibrate at he
  split at he
  · cases he; exact h
  · split at he
    · cases he
    · split at he
      · cases he
      · cases he
        exact ((DataOK.ruizLoop s s.maxIter h).rectifyStep cones).setInverses

/-- [S] the only panic site of `equilibrate` is its `assert_eq!(cones.numel, data.m)` -/
theorem equilibrate_noPanic (dt : ProblemData α) (cones : List (ConeT α)) (s : Equil.Settings α)
    (hn : Cones.numel cones = dt.m) : NoPanic (Equil.equilibrate dt cones s) := by
  unfold Equil.equilibrate
  split
  · exact NoPanic.ok _
  · split
    · exact NoPanic.err _
    · rw [if_neg (by simp [hn])]
      exact NoPanic.ok _

/-! ### `internalData` -/

/-- [S] **no panic site of `internalData` is reachable on well-formed input**: `to_triu`
(`assert is_square`), `make_reduction_map` (`b[idx]`), `select_rows` / `select` (length asserts),
`reduce_cones` / `reduce_A_b` (`reduce_map.is_some()`), `SecondOrderCone::new`
(`assert!(dim >= 2)`), `assert_eq!(cones.numel, data.m)` (twice: `DefaultSolver::new` and
`equilibrate`).  The result may still be `.err` (unsupported cone type, non-canonical matrix
guard): that is "outside the model", not a panic. -/
theorem internalData_noPanic {P : Csc α} {q : Array α} {A : Csc α} {b : Array α} {cones : List (ConeT α)}
    {st : Settings α} (h : InputOK P q A b cones) : NoPanic (internalData P q A b cones st) := by
  obtain ⟨d0, hd0, hpre⟩ := problemDataNew_spec h st.presolveEnable st.infbound
  unfold internalData
  rw [bind_ok_of hd0]
  refine NoPanic.bind (makeCones_noPanic _ (soc_ge_two_of_normal hpre.normal)) ?_
  intro K hK
  have hm : numelAll K = d0.m := by rw [makeCones_numel hK, hpre.numel]
  rw [if_neg (by simp [hm])]
  exact equilibrate_noPanic _ _ _ hpre.numel

/-- [S] **what `internalData` returns is well formed**: `DataOK`, the `n` of the user's `A`, and
its cone list builds a composite cone of exactly `m` rows -/
theorem internalData_dataOK {P : Csc α} {q : Array α} {A : Csc α} {b : Array α} {cones : List (ConeT α)}
    {st : Settings α} (h : InputOK P q A b cones) {d : ProblemData α}
    (hd : internalData P q A b cones st = .ok d) :
    DataOK d ∧ d.n = A.n ∧ ∃ K, makeCones d.cones = .ok K ∧ numelAll K = d.m := by
  obtain ⟨d0, hd0, hpre⟩ := problemDataNew_spec h st.presolveEnable st.infbound
  unfold internalData at hd
  rw [bind_ok_of hd0] at hd
  obtain ⟨K, hK, hd⟩ := bind_ok_inv hd
  have hm : numelAll K = d0.m := by rw [makeCones_numel hK, hpre.numel]
  rw [if_neg (by simp [hm])] at hd
  obtain ⟨e1, e2, e3⟩ := equilibrate_dim hd
  refine ⟨equilibrate_dataOK hpre.data hd, by rw [e3, hpre.n], K, by rw [e1]; exact hK, by rw [e2]; exact hm⟩

end

/-! ### the guard `shapesOk` of `equilibrate` holds on well-formed data, and `internalData` is
total on supported cone types -/

theorem flatMap_replicate_length (f : Nat → Nat) : ∀ n, (∀ j, j < n → f j ≤ f (j + 1)) →
    ((List.range n).flatMap (fun j => List.replicate (f (j + 1) - f j) j)).length = f n - f 0 ∧
      f 0 ≤ f n
  | 0, _ => ⟨by simp, Nat.le_refl _⟩
  | n + 1, h => by
    obtain ⟨ih1, ih2⟩ := flatMap_replicate_length f n (fun j hj => h j (by omega))
    have := h n (by omega)
    refine ⟨?_, by omega⟩
    rw [List.range_succ, List.flatMap_append, List.length_append, ih1]
    simp only [List.flatMap_cons, List.flatMap_nil, List.append_nil, List.length_replicate]
    omega

/-- a canonical encoding passes the `wellFormed` guard of the entry view -/
theorem wellFormed_of_canonical0 {M : Csc α} (h : C16.Canonical0 M) : M.wellFormed = true := by
  have hc := h.canon
  have hmono : ∀ j, j < M.n → M.colptr.getD j 0 ≤ M.colptr.getD (j + 1) 0 := by
    intro j hj
    have := (Csc.noBadAdjacent_iff_getElem _ _).mp hc.colptr_mono j
      (by rw [Array.length_toList, hc.colptr_size]; omega)
    rw [Csc.toList_getElem_eq_getD _ j (by rw [hc.colptr_size]; omega),
      Csc.toList_getElem_eq_getD _ (j + 1) (by rw [hc.colptr_size]; omega)] at this
    omega
  have hlen : ((List.range M.n).flatMap (fun j =>
      List.replicate (M.colptr.getD (j + 1) 0 - M.colptr.getD j 0) j)).length =
      M.colptr.getD M.n 0 - M.colptr.getD 0 0 :=
    (flatMap_replicate_length (fun j => M.colptr.getD j 0) M.n hmono).1
  have h3 : Csc.anyAdjacent (fun a b => decide (a > b)) M.colptr.toList = false := by
    rw [Csc.anyAdjacent_false_iff, Csc.noBadAdjacent_iff_getElem]
    intro k hk
    have := (Csc.noBadAdjacent_iff_getElem _ _).mp hc.colptr_mono k hk
    simpa using this
  have h6 : M.colIdx.size = M.nzval.size := by
    unfold Csc.colIdx
    rw [List.size_toArray, hlen]
    have h0 := h.colptr_zero
    have hl := hc.colptr_last
    have he := hc.len_eq
    omega
  have h7 : M.rowval.toList.all (fun r => decide (r < M.m)) = true :=
    List.all_eq_true.mpr (fun r hr => decide_eq_true (hc.rows_bound r hr))
  have h8 : M.colIdx.toList.all (fun c => decide (c < M.n)) = true := by
    rw [List.all_eq_true]
    intro c hc'
    unfold Csc.colIdx at hc'
    simp only [List.mem_flatMap, List.mem_range, List.mem_replicate] at hc'
    obtain ⟨j, hj, _, rfl⟩ := hc'
    exact decide_eq_true hj
  have h4 : M.colptr.getD M.n 0 = M.nzval.size := by rw [hc.colptr_last, hc.len_eq]
  unfold Csc.wellFormed
  rw [h3, h7, h8, hc.colptr_size, h.colptr_zero, h4, hc.len_eq, h6]
  simp

section
variable [Add α] [Sub α] [Mul α] [Div α] [Neg α] [OfNat α 0] [OfNat α 1] [OfNat α 2]
  [OfNat α 100] [OfNat α 1000] [LT α] [DecidableLT α] [LE α] [DecidableLE α] [BEq α] [FloatLike α]

/-- [S] on well-formed data the guard of `equilibrate` holds: its `err:noncanonical-matrix`
answer is unreachable from `internalData` -/
theorem shapesOk_of_dataOK {dt : ProblemData α} (h : DataOK dt) : Equil.shapesOk dt = true := by
  unfold Equil.shapesOk
  rw [wellFormed_of_canonical0 h.P_canon, wellFormed_of_canonical0 h.A_canon, h.P_m, h.P_n, h.A_m, h.A_n,
    h.q, h.b, h.eq_d, h.eq_dinv, h.eq_e, h.eq_einv]
  simp

/-- [S] `equilibrate` is total on well-formed data whose cone list covers the `m` rows -/
theorem equilibrate_ok {dt : ProblemData α} (h : DataOK dt) (cones : List (ConeT α)) (s : Equil.Settings α)
    (hn : Cones.numel cones = dt.m) : ∃ dt', Equil.equilibrate dt cones s = .ok dt' := by
  unfold Equil.equilibrate
  split
  · exact ⟨_, rfl⟩
  · rw [if_neg (by simp [shapesOk_of_dataOK h]), if_neg (by simp [hn])]
    exact ⟨_, rfl⟩

/-- the cone types of the whole-solver model (`make_cone` answers `err:cone-not-modelled` on the
others) -/
def ConeT.modelled : ConeT α → Prop
  | .zero _ => True
  | .nonneg _ => True
  | .soc _ => True
  | _ => False

theorem mem_collapseGo (acc : Nat) (cs : List (ConeT α)) :
    ∀ c ∈ Cones.collapseGo acc cs, c.isNonneg = true ∨ c ∈ cs := by
  induction cs generalizing acc with
  | nil =>
    intro c hc
    unfold Cones.collapseGo Cones.flush at hc
    split at hc
    · cases hc
    · rw [List.mem_singleton] at hc; subst hc; exact Or.inl rfl
  | cons t ts ih =>
    intro c hc
    unfold Cones.collapseGo at hc
    split at hc
    · exact (ih _ c hc).imp id (List.mem_cons_of_mem _)
    · split at hc
      · exact (ih _ c hc).imp id (List.mem_cons_of_mem _)
      · rw [List.mem_append, List.mem_cons] at hc
        rcases hc with hc | hc | hc
        · unfold Cones.flush at hc
          split at hc
          · cases hc
          · rw [List.mem_singleton] at hc; subst hc; exact Or.inl rfl
        · subst hc; exact Or.inr (List.mem_cons_self ..)
        · exact (ih _ c hc).imp id (List.mem_cons_of_mem _)

theorem mem_reduceConesWith (keep : List Bool) (cs : List (ConeT α)) :
    ∀ c ∈ Presolve.reduceConesWith keep cs, c.isNonneg = true ∨ c ∈ cs := by
  induction cs generalizing keep with
  | nil => intro c hc; cases hc
  | cons t ts ih =>
    intro c hc
    by_cases ht : t.isNonneg = false
    · rw [Presolve.reduceConesWith_cons_other _ t ts ht, List.mem_cons] at hc
      rcases hc with hc | hc
      · subst hc; exact Or.inr (List.mem_cons_self ..)
      · exact (ih _ c hc).imp id (List.mem_cons_of_mem _)
    · cases t with
      | nonneg n =>
        simp only [Presolve.reduceConesWith] at hc
        split at hc
        · rw [List.mem_cons] at hc
          rcases hc with hc | hc
          · subst hc; exact Or.inl rfl
          · exact (ih _ c hc).imp id (List.mem_cons_of_mem _)
        · exact (ih _ c hc).imp id (List.mem_cons_of_mem _)
      | _ => simp [ConeT.isNonneg] at ht

theorem modelled_of_isNonneg {c : ConeT α} (h : c.isNonneg = true) : ConeT.modelled c := by
  cases c <;> trivial

/-- `make_cone` is total on modelled cone types with second-order cones of dimension `≥ 2` -/
theorem makeCones_ok (ts : List (ConeT α)) (hm : ∀ c ∈ ts, ConeT.modelled c)
    (h : ∀ d, ConeT.soc d ∈ ts → 2 ≤ d) : ∃ K, makeCones ts = .ok K := by
  induction ts with
  | nil => exact ⟨[], rfl⟩
  | cons t ts ih =>
    obtain ⟨K, hK⟩ := ih (fun c hc => hm c (List.mem_cons_of_mem _ hc)) (fun d hd => h d (List.mem_cons_of_mem _ hd))
    have ht : ∃ c, makeCone t = .ok c := by
      have hmt := hm t (List.mem_cons_self ..)
      cases t with
      | zero n => exact ⟨_, rfl⟩
      | nonneg n => exact ⟨_, rfl⟩
      | soc n =>
        have hn := h n (List.mem_cons_self ..)
        have hs : ∃ K, Soc.new (α := α) n = .ok K := by
          unfold Soc.new
          rw [if_neg (by omega)]
          exact ⟨_, rfl⟩
        obtain ⟨K, hK⟩ := hs
        refine ⟨.soc K, ?_⟩
        show (Soc.new n >>= fun K => pure (ConeSt.soc K)) = _
        rw [bind_ok_of hK]
        rfl
      | exp => exact absurd hmt id
      | pow a => exact absurd hmt id
      | genpow a d => exact absurd hmt id
      | psd n => exact absurd hmt id
    obtain ⟨c, hc⟩ := ht
    refine ⟨c :: K, ?_⟩
    unfold makeCones at hK ⊢
    simp only [List.mapM_cons]
    rw [bind_ok_of hc, bind_ok_of hK]
    rfl

/-- the internal cone list of `DefaultProblemData::new` consists of cones of the user's list and
nonnegative cones -/
theorem problemDataNew_cones {P : Csc α} {q : Array α} {A : Csc α} {b : Array α} {cones : List (ConeT α)}
    {pe ch : Bool} {inf : α} {d : ProblemData α} (h : ProblemData.new P q A b cones pe ch inf = .ok d) :
    ∀ c ∈ d.cones, c.isNonneg = true ∨ c ∈ cones := by
  obtain ⟨Pn, pres, r, ⟨_, hpre, hred⟩, rfl, _⟩ := Presolve.new_ok_steps P q A b cones pe ch inf d h
  show ∀ c ∈ r.2.2, _
  have hcol : ∀ c ∈ Cones.newCollapsed cones, c.isNonneg = true ∨ c ∈ cones := mem_collapseGo 0 cones
  cases pres with
  | none => cases hred; exact hcol
  | some p =>
    have hred' : p.presolve A b (Cones.newCollapsed cones) = .ok r := hred
    unfold Presolve.Presolver.presolve at hred'
    obtain ⟨Ab, _, hred'⟩ := bind_ok_inv hred'
    obtain ⟨cs', hcs, hred'⟩ := bind_ok_inv hred'
    cases hred'
    unfold Presolve.Presolver.reduceCones at hcs
    split at hcs
    · cases hcs
    · cases hcs
      intro c hc
      rcases mem_reduceConesWith _ _ c hc with h1 | h1
      · exact Or.inl h1
      · exact hcol c h1

/-- [S] **`internalData` is total** on well-formed input whose cones are of the modelled types
(zero / nonnegative / second-order, any dimension) -/
theorem internalData_ok {P : Csc α} {q : Array α} {A : Csc α} {b : Array α} {cones : List (ConeT α)}
    {st : Settings α} (h : InputOK P q A b cones) (hm : ∀ c ∈ cones, ConeT.modelled c) :
    ∃ d, internalData P q A b cones st = .ok d := by
  obtain ⟨d0, hd0, hpre⟩ := problemDataNew_spec h st.presolveEnable st.infbound
  have hm0 : ∀ c ∈ d0.cones, ConeT.modelled c := fun c hc =>
    (problemDataNew_cones hd0 c hc).elim modelled_of_isNonneg (hm c)
  obtain ⟨K, hK⟩ := makeCones_ok d0.cones hm0 (soc_ge_two_of_normal hpre.normal)
  have hnum : numelAll K = d0.m := by rw [makeCones_numel hK, hpre.numel]
  obtain ⟨d, hd⟩ := equilibrate_ok hpre.data d0.cones st.equil hpre.numel
  refine ⟨d, ?_⟩
  unfold internalData
  rw [bind_ok_of hd0, bind_ok_of hK, if_neg (by simp [hnum])]
  exact hd

/-! ### the presolver record survives `equilibrate`: rows of the user's `A` -/

theorem applyScaling_presolver (dt : ProblemData α) (dw : Option (Array α)) (ew : Array α) :
    (Equil.applyScaling dt dw ew).presolver = dt.presolver := by
  cases dw <;> rfl

theorem applyCost_presolver (dt : ProblemData α) (dw : Array α) (ct : Option α) :
    (Equil.applyCost dt dw ct).presolver = dt.presolver := by
  cases ct <;> rfl

theorem ruizLoop_presolver (s : Equil.Settings α) : ∀ (k : Nat) (dt : ProblemData α),
    (Equil.ruizLoop s k dt).presolver = dt.presolver
  | 0, _ => rfl
  | k + 1, dt => by
    unfold Equil.ruizLoop
    rw [ruizLoop_presolver s k]
    unfold Equil.ruizStep
    rw [applyCost_presolver, applyScaling_presolver]

theorem finish_presolver (dt : ProblemData α) (cones : List (ConeT α)) :
    (Equil.finish dt cones).presolver = dt.presolver := by
  show (Equil.rectifyStep dt cones).presolver = dt.presolver
  unfold Equil.rectifyStep
  dsimp only
  split
  · exact applyScaling_presolver _ _ _
  · rfl

/-- `equilibrate` does not touch the presolver record -/
theorem equilibrate_presolver {dt dt' : ProblemData α} {cones : List (ConeT α)} {s : Equil.Settings α}
    (he : Equil.equilibrate dt cones s = .ok dt') : dt'.presolver = dt.presolver := by
  unfold Equil.equilibrate at he
  split at he
  · cases he; rfl
  · split at he
    · cases he
    · split at he
      · cases he
      · cases he
        rw [finish_presolver, ruizLoop_presolver]

/-- [S] **rows of the user's `A`** (what sizes `DefaultSolution::new(A.n, A.m)` for
`solution.post_process`): without a row map the internal problem has the `m` of the user's `A`;
with one, the map has one flag per row of the user's `A` -/
theorem internalData_rows {P : Csc α} {q : Array α} {A : Csc α} {b : Array α} {cones : List (ConeT α)}
    {st : Settings α} (h : InputOK P q A b cones) {d : ProblemData α}
    (hd : internalData P q A b cones st = .ok d) :
    (presolveMap d = none → d.m = A.m) ∧ (∀ p, presolveMap d = some p → p.keep.size = A.m) := by
  obtain ⟨d0, hd0, hpre⟩ := problemDataNew_spec h st.presolveEnable st.infbound
  unfold internalData at hd
  rw [bind_ok_of hd0] at hd
  obtain ⟨K, hK, hd⟩ := bind_ok_inv hd
  have hm : numelAll K = d0.m := by rw [makeCones_numel hK, hpre.numel]
  rw [if_neg (by simp [hm])] at hd
  obtain ⟨_, e2, _⟩ := equilibrate_dim hd
  have hp : presolveMap d = presolveMap d0 := by
    unfold presolveMap; rw [equilibrate_presolver hd]
  rw [hp, e2]
  exact ⟨hpre.rows_none, hpre.rows_some⟩

end

/-! ### non-vacuity -/

/-- `InputOK` is inhabited: a 3×3 canonical `P = A`, and a cone list with a
`SecondOrderConeT(1)` and an empty second-order cone (both are removed by `new_collapsed`) -/
example : InputOK (α := Int) C16.exM #[1, 2, 3] C16.exM #[4, 5, 6]
    [ConeT.soc 1, ConeT.soc 0, ConeT.nonneg 2] :=
  ⟨C16.exM_canonical0, rfl, C16.exM_canonical0, rfl, rfl, rfl, rfl⟩

end Clarabel.Solver
