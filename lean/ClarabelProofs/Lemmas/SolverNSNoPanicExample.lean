/-
  Panic-freedom of the whole-solver model WITH NONSYMMETRIC CONES (C04) — non-vacuity: the
  hypotheses of the end-to-end theorem are satisfiable (scalar type `Int`, the kernel-evaluable run
  of `SolverNSExample.lean`: one variable, a nonnegative cone of dimension 1 and an exponential
  cone), and its conclusion is witnessed by the run.
-/
import ClarabelProofs.Lemmas.SolverNSNoPanicFinal
import ClarabelProofs.Lemmas.SolverNSExample
import ClarabelProofs.Lemmas.CscFormat

namespace Clarabel.SolverNS.Example
open Clarabel Clarabel.SolverNS
open Clarabel.Solver (FmaxOK PivotOK bind_ok_of)

attribute [local instance] intFloatLike intSci

/-- the scalar law of the cone stage holds for the example scalar type -/
theorem exFmaxOK : FmaxOK Int := fun r h => by
  change max (0 : Int) r < 0 at h
  omega

/-- the example input is well formed (no generalised power cone: the guard clause is void) -/
theorem exInputOKN : InputOKN P #[1] A #[1, 1, 1, 1] ([.nonneg 1, .exp] : List (ConeT Int)) where
  base :=
    { P_canon := (Csc.checkFormat_iff0 P).mp (by decide)
      P_sq := rfl
      A_canon := (Csc.checkFormat_iff0 A).mp (by decide)
      A_n := rfl
      q := rfl
      b := rfl
      cones := by decide }
  genpow := fun al d2 h => by simp at h

/-- `DefaultSolver::new` returns a solver object on it -/
theorem exNew_ok : ∃ S, newSolver 3 = .ok S := by
  have h : (newSolver 3).toOption.isSome = true := by decide +kernel
  cases hn : newSolver 3 with
  | error e => rw [hn] at h; cases h
  | ok S => exact ⟨S, rfl⟩

/-- the dynamic regularisation of the example settings never leaves a zero pivot -/
theorem exPivotOK (k : Nat) : PivotOK (st k).lin := by
  intro sg d h
  show ((Qdldl.regularizePivot true (1 : Int) 1 sg d).1 == 0) = false
  have hs : (Qdldl.signT sg : Int) = 1 ∨ (Qdldl.signT sg : Int) = -1 := by
    rcases h with rfl | rfl
    · left; decide
    · right; decide
  unfold Qdldl.regularizePivot
  simp only [↓reduceIte]
  generalize (Qdldl.signT sg : Int) = s at hs
  split
  · rcases hs with rfl | rfl <;> decide
  · rename_i hlt
    show (d == 0) = false
    rw [beq_eq_false_iff_ne]
    rcases hs with rfl | rfl <;> omega

/-- the dimensions and the cone layout `DefaultSolver::new` arrives at on the example -/
theorem exInternal : (do
    let d ← internalData P #[1] A #[1, 1, 1, 1] ([.nonneg 1, .exp] : List (ConeT Int)) (st 3)
    let K ← makeCones d.cones
    pure (d.n, d.m, K.map ConeSt.kktSpec) : MErr (Nat × Nat × List Kkt.ConeSpec)).toOption
      = some (1, 4, [.nonneg 1, .exp]) := by decide +kernel

theorem exPermForN :
    PermForN P #[1] A #[1, 1, 1, 1] ([.nonneg 1, .exp] : List (ConeT Int)) (st 3) #[0, 1, 2, 3, 4] := by
  intro d K hd hK
  have h := exInternal
  rw [bind_ok_of hd, bind_ok_of hK] at h
  have h' : (d.n, d.m, K.map ConeSt.kktSpec) = (1, 4, [Kkt.ConeSpec.nonneg 1, Kkt.ConeSpec.exp]) :=
    Option.some.inj h
  simp only [Prod.mk.injEq] at h'
  obtain ⟨h1, h2, h3⟩ := h'
  refine ⟨⟨by decide, by decide⟩, ?_⟩
  rw [h1, h2, h3]
  rfl

/-- the run of the example returns `.ok` (kernel evaluation) -/
theorem exRun_ok : (run 3).toOption.isSome = true := by decide +kernel

/-- every hypothesis of `solver_noPanicN` holds on the example; `new` returns a solver object that
satisfies the invariant; and on this run `solve()` returns `.ok` (neither numerical-domain site is
hit), so the invariant holds again on the object it leaves -/
theorem exSolve_inv : ∃ S r, newSolver 3 = .ok S ∧ SolverInvN S ∧ S.solve (st 3) = .ok r ∧ SolverInvN r.S := by
  obtain ⟨S, hS⟩ := exNew_ok
  obtain ⟨hI, hsol⟩ := (solver_noPanicN (E := NumSite) exInputOKN (by decide) exPermForN (exPivotOK 3)
    exFmaxOK (Or.inl rfl) (Or.inr rfl)).2 S hS
  have hr : (run 3).toOption.isSome = true := exRun_ok
  unfold run at hr
  rw [bind_ok_of hS] at hr
  cases hs : S.solve (st 3) with
  | error e => rw [hs] at hr; cases hr
  | ok r => exact ⟨S, r, hS, hI, hs, hsol.of_ok hs⟩

end Clarabel.SolverNS.Example
