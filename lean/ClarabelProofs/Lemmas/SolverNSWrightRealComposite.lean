/-
  C04 over ℝ, call site (b) on the COMPOSITE cone: `CompositeCone::compute_barrier(z, s, dz, ds, α)`
  (`SolverNS.computeBarrier`, called by `variables.barrier` inside `backtrack_step_to_barrier`) returns —
  no panic at all — as soon as the candidate `s + α·ds` of every exponential constituent passes
  `is_primal_feasible`.  The other cone kinds never panic there (`ConesB.computeBarrier1_okOrC` with the
  empty set of allowed sites).
-/
import ClarabelProofs.Lemmas.SolverNSWrightReal

namespace Clarabel.SolverNS
open Clarabel Nonsym
open Clarabel.Solver (bind_ok_of)
open Clarabel.Residuals (Vars)

theorem v3ofArray_of_size {a : Array ℝ} (h : a.size = 3) : ∃ v, v3ofArray? a = some v := by
  obtain ⟨l⟩ := a
  rcases l with _ | ⟨a0, _ | ⟨a1, _ | ⟨a2, _ | ⟨a3, t⟩⟩⟩⟩
  · exfalso; change 0 = 3 at h; omega
  · exfalso; change 1 = 3 at h; omega
  · exfalso; change 2 = 3 at h; omega
  · exact ⟨(a0, a1, a2), rfl⟩
  · exfalso
    change t.length + 4 = 3 at h
    omega

theorem exp_of_kktSpec {c : ConeSt ℝ} (h : c.kktSpec = Kkt.ConeSpec.exp) : ∃ K, c = ConeSt.exp K := by
  cases c with
  | sym c => cases c <;> cases h
  | exp K => exact ⟨K, rfl⟩
  | pow a K => cases h
  | genpow al d2 ψ K => cases h

/-- the candidate `s + α·ds` of every exponential constituent of the composite passes
`is_primal_feasible` (slices as `compute_barrier` cuts them) -/
def ExpCandidatesOK (cones : List (ConeSt ℝ)) (z s dz ds : Array ℝ) (a : ℝ) : Prop :=
  ∀ zs ss dzs dss, cutE cones z "compute_barrier z" = .ok zs →
    cutE cones s "compute_barrier s" = .ok ss → cutE cones dz "compute_barrier dz" = .ok dzs →
    cutE cones ds "compute_barrier ds" = .ok dss →
    ∀ p ∈ cones.zip (zs.zip (ss.zip (dzs.zip dss))), ∀ K, p.1 = ConeSt.exp K →
      ∀ sv dsv, v3ofArray? p.2.2.1 = some sv → v3ofArray? p.2.2.2.2 = some dsv →
        Exp.isPrimalFeasible (segPt sv dsv a).1 (segPt sv dsv a).2.1 (segPt sv dsv a).2.2 = true

/-- [R] `CompositeCone::compute_barrier` over ℝ returns (no panic, no error) on full cones and
vectors of the composite's dimension when every exponential constituent's candidate is accepted -/
theorem computeBarrier_ok_real (cones : List (ConeSt ℝ)) (z s dz ds : Array ℝ) (a : ℝ)
    (h : ConesFull cones)
    (h1 : z.size = numelAll cones) (h2 : s.size = numelAll cones) (h3 : dz.size = numelAll cones)
    (h4 : ds.size = numelAll cones) (hf : ExpCandidatesOK cones z s dz ds a) :
    ∃ b, computeBarrier cones z s dz ds a = .ok b := by
  obtain ⟨zs, hzs, F1⟩ := cutE_ok (cones := cones) (v := z) "compute_barrier z" (by omega)
  obtain ⟨ss, hss, F2⟩ := cutE_ok (cones := cones) (v := s) "compute_barrier s" (by omega)
  obtain ⟨dzs, hdzs, F3⟩ := cutE_ok (cones := cones) (v := dz) "compute_barrier dz" (by omega)
  obtain ⟨dss, hdss, F4⟩ := cutE_ok (cones := cones) (v := ds) "compute_barrier ds" (by omega)
  have hrel := ConesB.forall₂_zip F1 (ConesB.forall₂_zip F2 (ConesB.forall₂_zip F3 F4))
  have key : OkOr (fun _ => False) (computeBarrier cones z s dz ds a) (fun _ => True) := by
    unfold computeBarrier
    rw [bind_ok_of hzs, bind_ok_of hss, bind_ok_of hdzs, bind_ok_of hdss]
    refine ConesB.foldlM_okOr _ _ ?_ 0
    intro p hp acc
    obtain ⟨hmem, q1, q2, q3, q4⟩ := ConesB.forall₂_mem_zip hrel p hp
    by_cases hexp : ∃ K, p.1 = ConeSt.exp K
    · obtain ⟨K, hK⟩ := hexp
      have e3 : p.1.numel = 3 := by rw [hK]; rfl
      obtain ⟨zv, hzv⟩ := v3ofArray_of_size (q1.trans e3)
      obtain ⟨sv, hsv⟩ := v3ofArray_of_size (q2.trans e3)
      obtain ⟨dzv, hdzv⟩ := v3ofArray_of_size (q3.trans e3)
      obtain ⟨dsv, hdsv⟩ := v3ofArray_of_size (q4.trans e3)
      obtain ⟨b, hb⟩ := computeBarrier1_exp_ok_real K hzv hsv hdzv hdsv a
        (hf zs ss dzs dss hzs hss hdzs hdss p hp K hK sv dsv hsv hdsv)
      have hb' : computeBarrier1 p.1 p.2.1 p.2.2.1 p.2.2.2.1 p.2.2.2.2 a = .ok b := by
        rw [hK]; exact hb
      exact (OkOr.of_exists ⟨b, hb'⟩).bind fun _ _ => trivial
    · refine (ConesB.computeBarrier1_okOrC (fun he => ?_) a (h _ hmem) q1 q2 q3 q4).bind
        fun _ _ => trivial
      exact hexp (exp_of_kktSpec he)
  cases hres : computeBarrier cones z s dz ds a with
  | ok b => exact ⟨b, rfl⟩
  | error e =>
    rw [hres] at key
    cases e with
    | panic s => exact key.elim
    | err k => exact key.elim

/-! ### call site (a) on the composite: `CompositeCone::update_scaling` -/

/-- the `s` slice of every exponential constituent passes `is_primal_feasible` -/
def ExpSlicesOK (cs : List (ConeSt ℝ)) (ss : List (Array ℝ)) : Prop :=
  ∀ p ∈ cs.zip ss, ∀ K, p.1 = ConeSt.exp K → ∀ sv, v3ofArray? p.2 = some sv →
    Exp.isPrimalFeasible sv.1 sv.2.1 sv.2.2 = true

/-- [R] the cone-by-cone recursion of `update_scaling` over ℝ returns when the strategy is `Dual` or
every exponential constituent's `s` slice is accepted -/
theorem updateScaling_go_ok_real (mu : ℝ) (dual : Bool) :
    ∀ (cs : List (ConeSt ℝ)) (ss zs : List (Array ℝ)),
    ConesFull cs → List.Forall₂ (fun c (p : Array ℝ) => p.size = c.numel) cs ss →
    List.Forall₂ (fun c (p : Array ℝ) => p.size = c.numel) cs zs →
    (dual = true ∨ ExpSlicesOK cs ss) →
    OkOr (fun _ => False) (updateScaling.go mu dual cs ss zs) (fun _ => True) := by
  intro cs
  induction cs with
  | nil =>
    intro ss zs _ _ _ _
    unfold updateScaling.go
    exact OkOr.ok (E := fun _ => False) (a := (true, [])) trivial
  | cons c cs ih =>
    intro ss zs h hs hz hf
    cases hs with
    | @cons _ si _ ss' hsi hss =>
    cases hz with
    | @cons _ zi _ zs' hzi hzs =>
    have hf' : dual = true ∨ ExpSlicesOK cs ss' := by
      rcases hf with hd | hf
      · exact Or.inl hd
      · exact Or.inr fun p hp => hf p (by rw [List.zip_cons_cons]; exact List.mem_cons_of_mem _ hp)
    have h1 : OkOr (fun _ => False) (updateScaling1 c si zi mu dual) (fun _ => True) := by
      by_cases hexp : ∃ K, c = ConeSt.exp K
      · obtain ⟨K, hK⟩ := hexp
        have e3 : c.numel = 3 := by rw [hK]; rfl
        obtain ⟨sv, hsv⟩ := v3ofArray_of_size (hsi.trans e3)
        obtain ⟨zv, hzv⟩ := v3ofArray_of_size (hzi.trans e3)
        have hfe : dual = true ∨ Exp.isPrimalFeasible sv.1 sv.2.1 sv.2.2 = true := by
          rcases hf with hd | hf
          · exact Or.inl hd
          · exact Or.inr (hf (c, si) (by rw [List.zip_cons_cons]; exact List.mem_cons_self ..)
              K hK sv hsv)
        obtain ⟨K', hK'⟩ := updateScaling1_exp_ok_real K hsv hzv mu dual hfe
        rw [hK]
        exact OkOr.of_exists ⟨_, hK'⟩
      · exact (updateScaling1_okG (E := fun _ => False) mu dual
          (fun _ he => hexp (exp_of_kktSpec he)) h.head hsi hzi).mono fun _ _ => trivial
    unfold updateScaling.go
    refine h1.bind fun r1 _ => ?_
    obtain ⟨ok, c1⟩ := r1
    cases ok with
    | false => exact OkOr.ok (E := fun _ => False) (a := (false, c1 :: cs)) trivial
    | true =>
      dsimp only [Bool.not_true, Bool.false_eq_true, ↓reduceIte]
      refine (ih ss' zs' h.tail hss hzs hf').bind fun r2 _ => ?_
      obtain ⟨ok2, cs2⟩ := r2
      exact OkOr.ok (E := fun _ => False) (a := (ok2, c1 :: cs2)) trivial

/-- [R] `CompositeCone::update_scaling(s, z, μ, strategy)` over ℝ returns (no panic, no error) on full
cones and vectors of the composite's dimension when the strategy is `Dual` or the `s` slice of every
exponential constituent passes `is_primal_feasible` -/
theorem updateScaling_ok_real (cones : List (ConeSt ℝ)) (s z : Array ℝ) (mu : ℝ) (dual : Bool)
    (h : ConesFull cones) (hs : s.size = numelAll cones) (hz : z.size = numelAll cones)
    (hf : dual = true ∨ ∀ ss, cutE cones s "update_scaling s" = .ok ss → ExpSlicesOK cones ss) :
    ∃ r, updateScaling cones s z mu dual = .ok r := by
  obtain ⟨ss, hss, hrel1⟩ := cutE_ok (cones := cones) (v := s) "update_scaling s" (by omega)
  obtain ⟨zs, hzs, hrel2⟩ := cutE_ok (cones := cones) (v := z) "update_scaling z" (by omega)
  have key : OkOr (fun _ => False) (updateScaling cones s z mu dual) (fun _ => True) := by
    unfold updateScaling
    rw [bind_ok_of hss, bind_ok_of hzs]
    exact updateScaling_go_ok_real mu dual cones ss zs h hrel1 hrel2
      (hf.elim Or.inl fun hf => Or.inr (hf ss hss))
  cases hres : updateScaling cones s z mu dual with
  | ok r => exact ⟨r, rfl⟩
  | error e =>
    rw [hres] at key
    cases e with
    | panic s => exact key.elim
    | err k => exact key.elim

/-! ### call site (b) up to `backtrack_step_to_barrier` -/

open Clarabel.Solver (OkAnd VarsSized) in
/-- [R] `variables.barrier(step, α, cones)` over ℝ returns when every exponential constituent's
candidate `s + α·ds` is accepted -/
theorem barrier_ok_real {n m : Nat} {v step : Vars ℝ} (a : ℝ) {cones : List (ConeSt ℝ)}
    (hc : ConesFull cones) (hm : numelAll cones = m) (hv : VarsSized n m v) (hs : VarsSized n m step)
    (hf : ExpCandidatesOK cones v.z v.s step.z step.s a) :
    OkOr (fun _ => False) (barrier v step a cones) (fun _ => True) := by
  unfold barrier
  dsimp only
  have hdot : OkAnd (Vec.dotShiftedE v.z v.s step.z step.s a) (fun _ => True) := by
    unfold Vec.dotShiftedE
    rw [if_neg (by simp [hv.z, hv.s]), if_neg (by simp [hv.z, hs.z]), if_neg (by simp [hv.s, hs.s])]
    exact .pure trivial
  refine (OkOr.of_okAnd hdot).bind fun sz _ => ?_
  refine (OkOr.of_exists (computeBarrier_ok_real cones v.z v.s step.z step.s a hc
    (by rw [hm]; exact hv.z) (by rw [hm]; exact hv.s) (by rw [hm]; exact hs.z)
    (by rw [hm]; exact hs.s) hf)).bind fun cb _ => ?_
  exact .pure trivial

/-- [R] convexity, composite form: candidates accepted at `0` (the iterate itself) and at `a` are
accepted at every `t ∈ [0, a]` -/
theorem expCandidatesOK_segment {cones : List (ConeSt ℝ)} {z s dz ds : Array ℝ} {a t : ℝ}
    (h0 : ExpCandidatesOK cones z s dz ds 0) (ha : ExpCandidatesOK cones z s dz ds a)
    (ht0 : 0 ≤ t) (ht : t ≤ a) : ExpCandidatesOK cones z s dz ds t := by
  intro zs ss dzs dss e1 e2 e3 e4 p hp K hK sv dsv hsv hdsv
  have k0 := h0 zs ss dzs dss e1 e2 e3 e4 p hp K hK sv dsv hsv hdsv
  have ka := ha zs ss dzs dss e1 e2 e3 e4 p hp K hK sv dsv hsv hdsv
  refine exp_feasible_segment ?_ ka ht0 ht
  simpa [segPt] using k0

open Clarabel.Solver (VarsSized) in
/-- [R] **`backtrack_step_to_barrier(α)` over ℝ returns** — none of its up to 50 evaluations of
`barrier_primal` hits the range check — when `0 ≤ step ≤ 1`, `0 ≤ α`, the exponential slices of the
current iterate `s` are accepted and so are those of `s + α·ds` (every point it evaluates,
`s + stepᵏ·α·ds`, lies between) -/
theorem backtrackStepToBarrier_ok_real {n m : Nat} {step : ℝ} {v lhs : Vars ℝ}
    {cones : List (ConeSt ℝ)} (hc : ConesFull cones) (hn : numelAll cones = m)
    (hv : VarsSized n m v) (hl : VarsSized n m lhs) (hs0 : 0 ≤ step) (hs1 : step ≤ 1)
    (h0 : ExpCandidatesOK cones v.z v.s lhs.z lhs.s 0) :
    ∀ (fuel : Nat) (a : ℝ) (k : Nat), 0 ≤ a → ExpCandidatesOK cones v.z v.s lhs.z lhs.s a →
      OkOr (fun _ => False) (backtrackStepToBarrier step v lhs cones fuel a k) (fun _ => True)
  | 0, a, k, _, _ => by
    unfold backtrackStepToBarrier
    exact .pure trivial
  | fuel + 1, a, k, ha0, ha => by
    unfold backtrackStepToBarrier
    refine (barrier_ok_real a hc hn hv hl ha).bind fun b _ => ?_
    split
    · exact .pure trivial
    · have h1 : 0 ≤ step * a := mul_nonneg hs0 ha0
      have h2 : step * a ≤ a := by nlinarith
      exact backtrackStepToBarrier_ok_real hc hn hv hl hs0 hs1 h0 fuel (step * a) (k + 1) h1
        (expCandidatesOK_segment h0 ha h1 h2)

/-! ### the hypotheses on a composite with one exponential cone (non-vacuity) -/

theorem cutE_single_exp (K : Exp.State ℝ) (v : Array ℝ) (h : v.size = 3) (site : String) :
    cutE [ConeSt.exp K] v site = .ok [v] := by
  unfold cutE cutE.go
  have e : (ConeSt.exp K).numel = 3 := rfl
  rw [e, if_neg (by omega)]
  unfold cutE.go
  have : v.extract 0 (0 + 3) = v := by
    have := Array.extract_size (xs := v)
    rw [h] at this
    simpa using this
  rw [this]
  rfl

/-- on the composite `[exp]`, `ExpCandidatesOK` is the feasibility of the one candidate -/
theorem expCandidatesOK_single (K : Exp.State ℝ) {z s dz ds : Array ℝ} {sv dsv : V3 ℝ}
    (hz : z.size = 3) (hdz : dz.size = 3) (hs : v3ofArray? s = some sv)
    (hds : v3ofArray? ds = some dsv) (hs3 : s.size = 3) (hds3 : ds.size = 3) (a : ℝ)
    (hf : Exp.isPrimalFeasible (segPt sv dsv a).1 (segPt sv dsv a).2.1 (segPt sv dsv a).2.2 = true) :
    ExpCandidatesOK [ConeSt.exp K] z s dz ds a := by
  intro zs ss dzs dss e1 e2 e3 e4 p hp K' _ sv' dsv' hsv' hdsv'
  rw [cutE_single_exp K z hz] at e1
  rw [cutE_single_exp K s hs3] at e2
  rw [cutE_single_exp K dz hdz] at e3
  rw [cutE_single_exp K ds hds3] at e4
  cases e1; cases e2; cases e3; cases e4
  simp only [List.zip_cons_cons, List.zip_nil_right, List.mem_singleton] at hp
  subst hp
  simp only at hsv' hdsv'
  rw [hs] at hsv'
  rw [hds] at hdsv'
  cases hsv'; cases hdsv'
  exact hf

/-- on the composite `[exp]`, `ExpSlicesOK` is the feasibility of the one slice -/
theorem expSlicesOK_single (K : Exp.State ℝ) {s : Array ℝ} {sv : V3 ℝ} (hs : v3ofArray? s = some sv)
    (hs3 : s.size = 3) (hf : Exp.isPrimalFeasible sv.1 sv.2.1 sv.2.2 = true) :
    ∀ ss, cutE [ConeSt.exp K] s "update_scaling s" = .ok ss → ExpSlicesOK [ConeSt.exp K] ss := by
  intro ss e p hp K' _ sv' hsv'
  rw [cutE_single_exp K s hs3] at e
  cases e
  simp only [List.zip_cons_cons, List.zip_nil_right, List.mem_singleton] at hp
  subst hp
  simp only at hsv'
  rw [hs] at hsv'
  cases hsv'
  exact hf

/-- `(−1, 1, 1)` passes `is_primal_feasible` -/
theorem exp_feasible_example : Exp.isPrimalFeasible (-1 : ℝ) 1 1 = true :=
  (C14.exp_isPrimalFeasible_iff (-1) 1 1).mpr ⟨by norm_num, by norm_num, by
    rw [one_mul]
    calc Real.exp (-1 / 1) < Real.exp 0 := Real.exp_lt_exp.mpr (by norm_num)
      _ = 1 := Real.exp_zero⟩

theorem exp_feasible_example_seg (a : ℝ) :
    Exp.isPrimalFeasible (segPt ((-1 : ℝ), (1 : ℝ), (1 : ℝ)) (0, 0, 0) a).1
      (segPt ((-1 : ℝ), (1 : ℝ), (1 : ℝ)) (0, 0, 0) a).2.1
      (segPt ((-1 : ℝ), (1 : ℝ), (1 : ℝ)) (0, 0, 0) a).2.2 = true := by
  have := exp_feasible_example
  simpa [segPt] using this

theorem okOr_false_exists {β : Type} {x : MErr β} {Q : β → Prop} (h : OkOr (fun _ => False) x Q) :
    ∃ r, x = .ok r := by
  cases x with
  | ok r => exact ⟨r, rfl⟩
  | error e =>
    cases e with
    | panic s => exact h.elim
    | err k => exact h.elim

end Clarabel.SolverNS
