/-
  Solving twice (C05), the relational part — vectors and cones: the stale content of an output
  vector is never read by the composite-cone operations (`affine_ds`, `mul_Hs`,
  `Δs_from_Δz_offset`), `set_identity_scaling` resets everything but `λ`, and `λ` is rewritten by
  the first successful `update_scaling` before anything reads it.
-/
import ClarabelProofs.Lemmas.SolverStaleRel

namespace Clarabel.Solver
open Clarabel Info Residuals

set_option linter.unusedSectionVars false
set_option linter.unusedVariables false

variable {α : Type}

/-! ### arrays -/

theorem map_const_congr {β : Type} {a a' : Array α} (c : β) (h : a.size = a'.size) :
    a.map (fun _ => c) = a'.map (fun _ => c) := by
  apply Array.ext
  · simpa using h
  · intro i h1 h2
    simp

theorem copyInto_congr {dst dst' : Array α} (src : Array α) (site : String) (h : dst.size = dst'.size) :
    copyInto dst src site = copyInto dst' src site := by
  unfold copyInto
  rw [h]

section
variable [Add α] [Mul α] [OfNat α 0]

theorem axpby_zero_eq (a : α) (x y : Array α) :
    Vec.axpby a x 0 y = (((zmulL y).toList.zip x.toList).map (fun p => a * p.2 + p.1)).toArray := by
  unfold Vec.axpby zmulL
  rw [Array.toList_map, List.zip_map_left, List.map_map]
  rfl

theorem axpbyE_zero_congr (a : α) (x : Array α) {y y' : Array α} (site : String) (h : zmulL y = zmulL y') :
    axpbyE a x 0 y site = axpbyE a x 0 y' site := by
  unfold axpbyE
  rw [zmulL_size h, axpby_zero_eq, axpby_zero_eq, h]

end

theorem drop_of_sameFrom {n : Nat} {w w' : Array α} (h : SameFrom n w w') : w.toList.drop n = w'.toList.drop n := by
  have := congrArg Array.toList h.2
  simpa [Array.toList_extract, List.take_of_length_le] using this

/-- `self.scalarop_from(op, v)` overwrites `self[.. v.len()]` without reading it -/
theorem scalaropFrom_congr (op : α → α) (q : Array α) {w w' : Array α} (h : SameFrom q.size w w') :
    Vec.scalaropFrom w op q = Vec.scalaropFrom w' op q := by
  unfold Vec.scalaropFrom
  rw [h.1, drop_of_sameFrom h]

/-! ### `rng_cones` -/

theorem cutE_go_sizes {a a' : Array α} (site : String) (h : a.size = a'.size) :
    ∀ (cones : List (ConeSt α)) (start : Nat),
      RelM (ListRel (fun p p' : Array α => p.size = p'.size)) (cutE.go a site cones start)
        (cutE.go a' site cones start) := by
  intro cones
  induction cones with
  | nil => intro start; exact ListRel.nil
  | cons c rest ih =>
    intro start
    unfold cutE.go
    rw [h]
    split
    · rfl
    · refine RelM.bind (ih _) ?_
      intro tl tl' htl
      refine ListRel.cons ?_ htl
      simp only [Array.size_extract, h]

theorem cutE_sizes {a a' : Array α} (cones : List (ConeSt α)) (site : String) (h : a.size = a'.size) :
    RelM (ListRel (fun p p' : Array α => p.size = p'.size)) (cutE cones a site) (cutE cones a' site) :=
  cutE_go_sizes site h cones 0

theorem cutE_go_congr_numel (a : Array α) (site : String) :
    ∀ (cones cones' : List (ConeSt α)) (start : Nat), cones.map ConeSt.numel = cones'.map ConeSt.numel →
      cutE.go a site cones start = cutE.go a site cones' start := by
  intro cones
  induction cones with
  | nil =>
    intro cones' start h
    cases cones' with
    | nil => rfl
    | cons _ _ => cases h
  | cons c rest ih =>
    intro cones' start h
    cases cones' with
    | nil => cases h
    | cons c' rest' =>
      simp only [List.map_cons, List.cons.injEq] at h
      unfold cutE.go
      rw [h.1, ih rest' _ h.2]

theorem cutE_congr_numel (a : Array α) (site : String) {cones cones' : List (ConeSt α)}
    (h : cones.map ConeSt.numel = cones'.map ConeSt.numel) : cutE cones a site = cutE cones' a site :=
  cutE_go_congr_numel a site cones cones' 0 h

theorem numelAll_congr {cones cones' : List (ConeSt α)} (h : cones.map ConeSt.numel = cones'.map ConeSt.numel) :
    numelAll cones = numelAll cones' := by
  unfold numelAll
  rw [h]

theorem pasteBack_congr (cones : List (ConeSt α)) {v v' : Array α} (parts : List (Array α))
    (h : SameFrom (numelAll cones) v v') : pasteBack cones v parts = pasteBack cones v' parts := by
  unfold pasteBack
  rw [h.2]

/-- a per-cone map over `(cone, slice)` pairs whose function reads only the length of the slice -/
theorem mapM_zip_sizes {β γ : Type} (f : ConeSt α × Array α × γ → MErr β)
    (hf : ∀ c p p' r, p.size = p'.size → f (c, p, r) = f (c, p', r)) :
    ∀ {ps ps' : List (Array α)}, ListRel (fun p p' : Array α => p.size = p'.size) ps ps' →
      ∀ (cones : List (ConeSt α)) (rs : List γ),
        (cones.zip (ps.zip rs)).mapM f = (cones.zip (ps'.zip rs)).mapM f := by
  intro ps ps' h
  induction h with
  | nil => intro cones rs; rfl
  | cons hp _ ih =>
    intro cones rs
    cases cones with
    | nil => rfl
    | cons c cs =>
      cases rs with
      | nil => rfl
      | cons r rs =>
        simp only [List.zip_cons_cons, List.mapM_cons]
        rw [hf c _ _ r hp, ih cs rs]

theorem mapM_zip_sizes' {β : Type} (f : ConeSt α × Array α → MErr β)
    (hf : ∀ c p p', p.size = p'.size → f (c, p) = f (c, p')) :
    ∀ {ps ps' : List (Array α)}, ListRel (fun p p' : Array α => p.size = p'.size) ps ps' →
      ∀ (cones : List (ConeSt α)), (cones.zip ps).mapM f = (cones.zip ps').mapM f := by
  intro ps ps' h
  induction h with
  | nil => intro cones; rfl
  | cons hp _ ih =>
    intro cones
    cases cones with
    | nil => rfl
    | cons c cs =>
      simp only [List.zip_cons_cons, List.mapM_cons]
      rw [hf c _ _ hp, ih cs]

section
variable [Add α] [Mul α] [Sub α] [Div α] [Neg α] [OfNat α 0] [OfNat α 1] [LT α] [DecidableLT α]
  [FloatLike α]

/-- `affine_ds` overwrites `ds[rng_cones]` without reading it -/
theorem affineDs_congr (cones : List (ConeSt α)) {ds ds' : Array α} (h : SameFrom (numelAll cones) ds ds') :
    affineDs cones ds = affineDs cones ds' := by
  apply RelM.eq
  unfold affineDs mapCones
  refine RelM.bind (cutE_sizes cones _ h.1) ?_
  intro ps ps' hps
  have hpb : ∀ parts, pasteBack cones ds parts = pasteBack cones ds' parts := fun p => pasteBack_congr cones p h
  simp only [hpb]
  rw [mapM_zip_sizes' _ ?_ hps cones]
  · exact RelM.refl_eq _
  · intro c p p' hp
    cases c with
    | zero d => simp only [Zero.affineDs, map_const_congr (0 : α) hp]
    | nonneg K => simp only [hp]
    | soc K => simp only [hp]

/-- `mul_Hs(y, x, work)` overwrites `y[rng_cones]` without reading it -/
theorem mulHs_congr (cones : List (ConeSt α)) {y y' : Array α} (x : Array α)
    (h : SameFrom (numelAll cones) y y') : mulHs cones y x = mulHs cones y' x := by
  apply RelM.eq
  unfold mulHs
  refine RelM.bind (RelM.refl_eq _) ?_
  intro xs _ hxs
  subst hxs
  refine RelM.bind (cutE_sizes cones _ h.1) ?_
  intro _ _ _
  have hpb : ∀ parts, pasteBack cones y parts = pasteBack cones y' parts := fun p => pasteBack_congr cones p h
  simp only [hpb]
  exact RelM.refl_eq _

/-- `Δs_from_Δz_offset(out, ds, work, z)` overwrites `out[rng_cones]` without reading it -/
theorem dsFromDzOffset_congr (cones : List (ConeSt α)) {out out' : Array α} (ds z : Array α)
    (h : SameFrom (numelAll cones) out out') : dsFromDzOffset cones out ds z = dsFromDzOffset cones out' ds z := by
  apply RelM.eq
  unfold dsFromDzOffset
  refine RelM.bind (cutE_sizes cones _ h.1) ?_
  intro os os' hos
  refine RelM.bind (RelM.refl_eq _) ?_
  intro dss _ hd
  subst hd
  refine RelM.bind (RelM.refl_eq _) ?_
  intro zs _ hz
  subst hz
  have hpb : ∀ parts, pasteBack cones out parts = pasteBack cones out' parts := fun p => pasteBack_congr cones p h
  simp only [hpb]
  rw [mapM_zip_sizes _ ?_ hos cones]
  · exact RelM.refl_eq _
  · intro c p p' r hp
    cases c with
    | zero d => simp only [Zero.dsFromDzOffset, map_const_congr (0 : α) hp]
    | nonneg K => rfl
    | soc K => rfl

/-! ### `set_identity_scaling`, `update_scaling` -/

theorem setIdentityScaling1_eqv {c c' : ConeSt α} (h : ConeShape c c') :
    ConeEqvLam (setIdentityScaling1 c) (setIdentityScaling1 c') := by
  cases c with
  | zero d =>
    cases c' with
    | zero d' => exact h
    | nonneg _ => exact h.elim
    | soc _ => exact h.elim
  | nonneg K =>
    cases c' with
    | zero _ => exact h.elim
    | nonneg K' => exact ⟨map_const_congr (1 : α) h.1, h.2⟩
    | soc _ => exact h.elim
  | soc K =>
    cases c' with
    | zero _ => exact h.elim
    | nonneg _ => exact h.elim
    | soc K' =>
      obtain ⟨hd, hw, hs⟩ := h
      refine ⟨hd, ?_, rfl, ?_⟩
      · show (K.w.map fun _ => (0 : α)).setIfInBounds 0 1 = (K'.w.map fun _ => (0 : α)).setIfInBounds 0 1
        rw [map_const_congr (0 : α) hw]
      · show K.sparse.map _ = K'.sparse.map _
        cases hk : K.sparse with
        | none =>
          cases hk' : K'.sparse with
          | none => rfl
          | some _ => rw [hk, hk'] at hs; exact hs.elim
        | some sp =>
          cases hk' : K'.sparse with
          | none => rw [hk, hk'] at hs; exact hs.elim
          | some sp' =>
            rw [hk, hk'] at hs
            simp only [Option.map_some, map_const_congr (0 : α) hs.1, map_const_congr (0 : α) hs.2]

theorem setIdentityScaling_eqv {cs cs' : List (ConeSt α)} (h : ConesShape cs cs') :
    ConesEqvLam (setIdentityScaling cs) (setIdentityScaling cs') := by
  induction h with
  | nil => exact .nil
  | cons h _ ih => exact .cons (setIdentityScaling1_eqv h) ih

theorem soc_core_lam (K : Soc.Cone α) (l' : Array α) (s0 : α) (s1 : List α) (z0 : α) (z1 : List α) :
    Soc.updateScalingCore { K with lam := l' } s0 s1 z0 z1 =
      ((Soc.updateScalingCore K s0 s1 z0 z1).1,
        if (Soc.updateScalingCore K s0 s1 z0 z1).1 then (Soc.updateScalingCore K s0 s1 z0 z1).2
        else { (Soc.updateScalingCore K s0 s1 z0 z1).2 with lam := l' }) := by
  unfold Soc.updateScalingCore
  dsimp only
  split
  · rfl
  · split <;> rfl

theorem soc_updateScaling_lam (K : Soc.Cone α) (l' : Array α) (s z : Array α) :
    Soc.updateScaling { K with lam := l' } s z =
      (Soc.updateScaling K s z).map (fun r => (r.1, if r.1 then r.2 else { r.2 with lam := l' })) := by
  unfold Soc.updateScaling
  cases Soc.split z with
  | error e => rfl
  | ok zz =>
    cases Soc.split s with
    | error e => rfl
    | ok ss =>
      dsimp only [bind, Except.bind]
      by_cases h1 : s.size = K.dim
      · by_cases h2 : z.size = K.dim
        · simp only [h1, h2, ne_eq, not_true_eq_false, if_false, Except.map, pure, Except.pure]
          rw [soc_core_lam]
        · simp only [h1, h2, ne_eq, not_true_eq_false, not_false_eq_true, if_false, if_true, Except.map, throw, throwThe, MonadExceptOf.throw]
      · simp only [h1, ne_eq, not_false_eq_true, if_true, Except.map, throw, throwThe, MonadExceptOf.throw]

/-- `update_scaling` of one cone never reads `λ`; it rewrites it whenever it succeeds -/
theorem updateScaling1_eqv {c c' : ConeSt α} (s z : Array α) (h : ConeEqvLam c c') :
    RelM (fun r r' => r.1 = r'.1 ∧ (r.1 = true → r.2 = r'.2) ∧ ConeEqvLam r.2 r'.2)
      (updateScaling1 c s z) (updateScaling1 c' s z) := by
  cases c with
  | zero d =>
    cases c' with
    | zero d' => cases h; exact ⟨rfl, fun _ => rfl, rfl⟩
    | nonneg _ => exact h.elim
    | soc _ => exact h.elim
  | nonneg K =>
    cases c' with
    | zero _ => exact h.elim
    | nonneg K' =>
      obtain ⟨hw, hl⟩ := h
      have e : Nonneg.updateScaling K' s z = Nonneg.updateScaling K s z := by
        unfold Nonneg.updateScaling
        rw [hw, hl]
      simp only [updateScaling1]
      rw [e]
      cases Nonneg.updateScaling K s z with
      | error e => rfl
      | ok K1 => exact ⟨rfl, fun _ => rfl, ConeEqvLam.rfl' _⟩
    | soc _ => exact h.elim
  | soc K =>
    cases c' with
    | zero _ => exact h.elim
    | nonneg _ => exact h.elim
    | soc K' =>
      obtain ⟨hd, hw, he, hsp⟩ := h
      obtain ⟨d, w, l, e, sp⟩ := K
      obtain ⟨d', w', l', e', sp'⟩ := K'
      dsimp only at hd hw he hsp
      subst hd hw he hsp
      have e1 := soc_updateScaling_lam ⟨d, w, l, e, sp⟩ l' s z
      simp only [updateScaling1]
      rw [e1]
      cases Soc.updateScaling ⟨d, w, l, e, sp⟩ s z with
      | error e => rfl
      | ok r =>
        obtain ⟨ok, K1⟩ := r
        cases ok with
        | false => exact ⟨rfl, fun h => (Bool.false_ne_true h).elim, rfl, rfl, rfl, rfl⟩
        | true => exact ⟨rfl, fun _ => rfl, ConeEqvLam.rfl' _⟩

theorem cutE_go_length (a : Array α) (site : String) :
    ∀ (cones : List (ConeSt α)) (start : Nat) (l : List (Array α)), cutE.go a site cones start = .ok l →
      l.length = cones.length := by
  intro cones
  induction cones with
  | nil => intro start l h; unfold cutE.go at h; cases h; rfl
  | cons c rest ih =>
    intro start l h
    unfold cutE.go at h
    split at h
    · cases h
    · obtain ⟨tl, htl, h⟩ := bind_ok_inv h
      cases h
      simp only [List.length_cons, ih _ _ htl]

theorem updateScaling_go_eqv {cs cs' : List (ConeSt α)} (h : ConesEqvLam cs cs') :
    ∀ (ss zs : List (Array α)), ss.length = cs.length → zs.length = cs.length →
      RelM (fun r r' => r.1 = r'.1 ∧ (r.1 = true → r.2 = r'.2) ∧ ConesEqvLam r.2 r'.2)
        (updateScaling.go cs ss zs) (updateScaling.go cs' ss zs) := by
  induction h with
  | nil =>
    intro ss zs _ _
    unfold updateScaling.go
    exact ⟨rfl, fun _ => rfl, .nil⟩
  | @cons c c' l l' hc hl ih =>
    intro ss zs hss hzs
    cases ss with
    | nil => cases hss
    | cons si ss =>
      cases zs with
      | nil => cases hzs
      | cons zi zs =>
        simp only [List.length_cons, Nat.add_right_cancel_iff] at hss hzs
        unfold updateScaling.go
        refine RelM.bind (updateScaling1_eqv si zi hc) ?_
        rintro ⟨ok, c1⟩ ⟨ok', c1'⟩ ⟨h1, h2, h3⟩
        dsimp only at h1 h2 h3
        subst h1
        cases ok with
        | false => exact ⟨rfl, fun h => (Bool.false_ne_true h).elim, ListRel.cons h3 hl⟩
        | true =>
          dsimp only [Bool.not_true, Bool.false_eq_true, ↓reduceIte]
          refine RelM.bind (ih ss zs hss hzs) ?_
          rintro ⟨ok2, cs2⟩ ⟨ok2', cs2'⟩ ⟨g1, g2, g3⟩
          dsimp only at g1 g2 g3
          subst g1
          refine ⟨rfl, fun h => ?_, ListRel.cons h3 g3⟩
          dsimp only at h ⊢
          rw [h2 rfl, g2 h]

/-- `CompositeCone::update_scaling` on two cone lists that agree up to `λ`: same flag, and the
same cones afterwards if it succeeded (otherwise again the same up to `λ`) -/
theorem updateScaling_eqv {cs cs' : List (ConeSt α)} (s z : Array α) (h : ConesEqvLam cs cs') :
    RelM (fun r r' => r.1 = r'.1 ∧ (r.1 = true → r.2 = r'.2) ∧ ConesEqvLam r.2 r'.2)
      (updateScaling cs s z) (updateScaling cs' s z) := by
  unfold updateScaling
  rw [cutE_congr_numel s _ h.numelAll, cutE_congr_numel z _ h.numelAll]
  cases hs : cutE cs' s "update_scaling s" with
  | error e => rfl
  | ok ss =>
    cases hz : cutE cs' z "update_scaling z" with
    | error e => rfl
    | ok zs =>
      have l1 := cutE_go_length s _ cs' 0 ss hs
      have l2 := cutE_go_length z _ cs' 0 zs hz
      have hl : cs.length = cs'.length := by
        have := congrArg List.length h.numelAll
        simpa using this
      exact updateScaling_go_eqv h ss zs (by rw [l1, hl]) (by rw [l2, hl])

/-! `update_scaling` keeps the dimensions -/

theorem updateScaling1_numel {c : ConeSt α} {s z : Array α} {r : Bool × ConeSt α}
    (h : updateScaling1 c s z = .ok r) : r.2.numel = c.numel := by
  cases c with
  | zero d =>
    unfold updateScaling1 at h
    cases h
    rfl
  | nonneg K =>
    unfold updateScaling1 at h
    obtain ⟨K1, hK, h⟩ := bind_ok_inv h
    cases h
    unfold Nonneg.updateScaling at hK
    obtain ⟨_, hg, hK⟩ := bind_ok_inv hK
    cases hK
    unfold Nonneg.sizeGuard at hg
    split at hg
    · rename_i hc
      simp only [Bool.and_eq_true, beq_iff_eq] at hc
      show (Array.zipWith _ s z).size = K.w.size
      rw [Array.size_zipWith, hc.1.1, hc.1.2, Nat.min_self]
    · cases hg
  | soc K =>
    unfold updateScaling1 at h
    obtain ⟨p, hK, h⟩ := bind_ok_inv h
    cases h
    unfold Soc.updateScaling at hK
    obtain ⟨_, _, hK⟩ := bind_ok_inv hK
    obtain ⟨_, _, hK⟩ := bind_ok_inv hK
    dsimp only at hK
    split at hK
    · cases hK
    · split at hK
      · cases hK
      · cases hK
        show (Soc.updateScalingCore K _ _ _ _).2.dim = K.dim
        unfold Soc.updateScalingCore
        dsimp only
        split
        · rfl
        · split <;> rfl

theorem updateScaling_go_numel : ∀ (cs : List (ConeSt α)) (ss zs : List (Array α)) (r : Bool × List (ConeSt α)),
    updateScaling.go cs ss zs = .ok r → r.2.map ConeSt.numel = cs.map ConeSt.numel := by
  intro cs
  induction cs with
  | nil =>
    intro ss zs r h
    unfold updateScaling.go at h
    cases h
    rfl
  | cons c cs ih =>
    intro ss zs r h
    cases ss with
    | nil => unfold updateScaling.go at h; cases h; rfl
    | cons si ss =>
      cases zs with
      | nil => unfold updateScaling.go at h; cases h; rfl
      | cons zi zs =>
        unfold updateScaling.go at h
        obtain ⟨⟨ok, c1⟩, h1, h⟩ := bind_ok_inv h
        have hn := updateScaling1_numel h1
        cases ok with
        | false =>
          cases h
          simp only [List.map_cons, hn]
        | true =>
          dsimp only [Bool.not_true, Bool.false_eq_true, ↓reduceIte] at h
          obtain ⟨⟨ok2, cs2⟩, h2, h⟩ := bind_ok_inv h
          cases h
          simp only [List.map_cons, hn, ih ss zs _ h2]

theorem updateScaling_numel {cs : List (ConeSt α)} {s z : Array α} {r : Bool × List (ConeSt α)}
    (h : updateScaling cs s z = .ok r) : numelAll r.2 = numelAll cs := by
  unfold updateScaling at h
  obtain ⟨_, _, h⟩ := bind_ok_inv h
  obtain ⟨_, _, h⟩ := bind_ok_inv h
  exact numelAll_congr (updateScaling_go_numel _ _ _ _ h)

theorem setIdentityScaling_numel (cs : List (ConeSt α)) :
    (setIdentityScaling cs).map ConeSt.numel = cs.map ConeSt.numel := by
  unfold setIdentityScaling
  rw [List.map_map]
  apply List.map_congr_left
  intro c _
  cases c with
  | zero d => rfl
  | nonneg K => show (K.w.map _).size = K.w.size; simp
  | soc K => rfl

/-! what else reads the cones between `set_identity_scaling` and the first `update_scaling` -/

theorem degreeAll_eqv {cs cs' : List (ConeSt α)} (h : ConesEqvLam cs cs') : degreeAll cs = degreeAll cs' := by
  unfold degreeAll
  congr 1
  induction h with
  | nil => rfl
  | @cons c c' _ _ hc _ ih =>
    simp only [List.map_cons, ih]
    congr 1
    cases c <;> cases c' <;> try exact hc.elim
    · rfl
    · exact congrArg Array.size hc.1
    · rfl

theorem compSpec_eqv {cs cs' : List (ConeSt α)} (h : ConesEqvLam cs cs') :
    cs.map ConeSt.compSpec = cs'.map ConeSt.compSpec := by
  induction h with
  | nil => rfl
  | @cons c c' _ _ hc _ ih =>
    simp only [List.map_cons, ih]
    congr 1
    cases c <;> cases c' <;> try exact hc.elim
    · cases hc; rfl
    · show Composite.Spec.nonneg _ = Composite.Spec.nonneg _
      rw [hc.1]
    · show Composite.Spec.soc _ = Composite.Spec.soc _
      rw [hc.1]

theorem getHs1_eqv {c c' : ConeSt α} (h : ConeEqvLam c c') : getHs1 c = getHs1 c' := by
  cases c <;> cases c' <;> try exact h.elim
  · cases h; rfl
  · rename_i K K'
    simp only [getHs1, Nonneg.getHs]
    rw [h.1]
  · rename_i K K'
    obtain ⟨hd, hw, he, hsp⟩ := h
    obtain ⟨d, w, l, e, sp⟩ := K
    obtain ⟨d', w', l', e', sp'⟩ := K'
    dsimp only at hd hw he hsp
    subst hd hw he hsp
    rfl

theorem getHs_eqv {cs cs' : List (ConeSt α)} (h : ConesEqvLam cs cs') : getHs cs = getHs cs' := by
  unfold getHs
  have : cs.mapM getHs1 = cs'.mapM getHs1 := by
    induction h with
    | nil => rfl
    | cons hc _ ih => simp only [List.mapM_cons, getHs1_eqv hc, ih]
  rw [this]

end

end Clarabel.Solver
