/-
  C08 on the whole-solver model: the structural bookkeeping.

  * `Sh` (same vector lengths / cone shapes) is an equivalence, is kept by replacing the data or the
    linear-solver object, and by `solve()`;
  * `DFrame` (only values of `P, q, A, b` and the norm caches differ) is kept by `update_matrix` /
    `update_vector` in every argument form, accepted or not;
  * `dataWf` (the index guard of the update operations) holds for well-formed data (`DataOK`) and
    along `DFrame`; `DataOK` itself is kept along `DFrame`.
-/
import ClarabelProofs.Lemmas.UpdateSolverInputs
import ClarabelProofs.Lemmas.SolverStaleFrame
import ClarabelProofs.Lemmas.SolverModelIdem

namespace Clarabel.Solver
open Clarabel Clarabel.Update

set_option linter.unusedSectionVars false
set_option linter.unusedVariables false

variable {α : Type}

section
variable [Add α] [Sub α] [Mul α] [Div α] [Neg α] [OfNat α 0] [OfNat α 1] [OfNat α 2]
  [OfNat α 100] [OfNat α 1000] [LT α] [DecidableLT α] [LE α] [DecidableLE α] [BEq α] [FloatLike α]

/-! ### `Sh` is an equivalence -/

theorem ConeShape.symm' {c c' : ConeSt α} (h : ConeShape c c') : ConeShape c' c := by
  cases c with
  | zero d =>
    cases c' with
    | zero d' => exact Eq.symm h
    | nonneg _ => exact h.elim
    | soc _ => exact h.elim
  | nonneg K =>
    cases c' with
    | zero _ => exact h.elim
    | nonneg K' => exact ⟨h.1.symm, h.2.symm⟩
    | soc _ => exact h.elim
  | soc K =>
    cases c' with
    | zero _ => exact h.elim
    | nonneg _ => exact h.elim
    | soc K' =>
      obtain ⟨h1, h2, h3⟩ := h
      refine ⟨h1.symm, h2.symm, ?_⟩
      cases hs : K.sparse <;> cases hs' : K'.sparse <;> rw [hs, hs'] at h3
      · trivial
      · exact h3.elim
      · exact h3.elim
      · exact ⟨h3.1.symm, h3.2.symm⟩

theorem ConesShape.symm' {cs cs' : List (ConeSt α)} (h : ConesShape cs cs') : ConesShape cs' cs := by
  induction h with
  | nil => exact .nil
  | cons hc _ ih => exact .cons (ConeShape.symm' hc) ih

theorem SameShape.symm' {S T : SolverSt α} (h : SameShape S T) : SameShape T S :=
  ⟨h.data.symm, h.variables.symm, h.rx.symm, h.rz.symm, h.rx_inf.symm, h.rz_inf.symm, h.Px.symm,
    h.x1.symm, h.z1.symm, h.x2.symm, h.z2.symm, h.workx.symm, h.workz.symm, h.workConic.symm,
    ConesShape.symm' h.cones, h.stepLhs.symm, h.stepRhs.symm, h.prevVars.symm⟩

theorem Sh.symm {S T : SolverSt α} (h : Sh S T) : Sh T S :=
  ⟨rfl, h.variables.symm, h.rx.symm, h.rz.symm, h.rx_inf.symm, h.rz_inf.symm, h.Px.symm,
    h.x1.symm, h.z1.symm, h.x2.symm, h.z2.symm, h.workx.symm, h.workz.symm, h.workConic.symm,
    ConesShape.symm' h.cones, h.stepLhs.symm, h.stepRhs.symm, h.prevVars.symm⟩

theorem Sh.trans {S T U : SolverSt α} (h1 : Sh S T) (h2 : Sh T U) : Sh S U :=
  ⟨rfl, h1.variables.trans h2.variables, h1.rx.trans h2.rx, h1.rz.trans h2.rz,
    h1.rx_inf.trans h2.rx_inf, h1.rz_inf.trans h2.rz_inf, h1.Px.trans h2.Px, h1.x1.trans h2.x1,
    h1.z1.trans h2.z1, h1.x2.trans h2.x2, h1.z2.trans h2.z2, h1.workx.trans h2.workx,
    h1.workz.trans h2.workz, h1.workConic.trans h2.workConic, h1.cones.trans h2.cones,
    h1.stepLhs.trans h2.stepLhs, h1.stepRhs.trans h2.stepRhs, h1.prevVars.trans h2.prevVars⟩

/-- with equal data `Sh` is `SameShape` -/
theorem Sh.toSameShape {S T : SolverSt α} (h : Sh S T) (hd : S.data = T.data) : SameShape S T :=
  ⟨hd, h.variables, h.rx, h.rz, h.rx_inf, h.rz_inf, h.Px, h.x1, h.z1, h.x2, h.z2, h.workx, h.workz,
    h.workConic, h.cones, h.stepLhs, h.stepRhs, h.prevVars⟩

/-- replacing the data of the right-hand state -/
theorem Sh.setData {S T : SolverSt α} (h : Sh S T) (d : ProblemData α) : Sh S { T with data := d } :=
  ⟨rfl, h.variables, h.rx, h.rz, h.rx_inf, h.rz_inf, h.Px, h.x1, h.z1, h.x2, h.z2, h.workx, h.workz,
    h.workConic, h.cones, h.stepLhs, h.stepRhs, h.prevVars⟩

/-- replacing the linear-solver object of the right-hand state -/
theorem Sh.setKkt {S T : SolverSt α} (h : Sh S T) (K : KktSolver α) :
    Sh S { T with kktsystem := { T.kktsystem with kktsolver := K } } :=
  ⟨rfl, h.variables, h.rx, h.rz, h.rx_inf, h.rz_inf, h.Px, h.x1, h.z1, h.x2, h.z2, h.workx, h.workz,
    h.workConic, h.cones, h.stepLhs, h.stepRhs, h.prevVars⟩

/-- `solve()` keeps the shape -/
theorem Sh.solve {S0 : SolverSt α} {S : Solver α} {st : Settings α} {r : SolveResult α}
    (h : Sh S0 S.st) (hc : ConesOk S.st.cones) (hs : S.solve st = .ok r) : Sh S0 r.S.st :=
  let h2 := h.trans (Sh.of_sameShape (solve_sameShape hs hc))
  ⟨rfl, h2.variables, h2.rx, h2.rz, h2.rx_inf, h2.rz_inf, h2.Px, h2.x1, h2.z1, h2.x2, h2.z2, h2.workx,
    h2.workz, h2.workConic, h2.cones, h2.stepLhs, h2.stepRhs, h2.prevVars⟩

/-- `WellSized` only looks at lengths and cone shapes -/
theorem Sh.wellSized {S T : SolverSt α} (h : Sh S T) (hw : WellSized S) : WellSized T :=
  SameShape.wellSized (S := { S with data := T.data }) h ⟨hw.stepLhs, hw.stepRhs, hw.workConic⟩

end

/-! ### `DFrame` along the update operations -/

section
variable [Mul α] [OfNat α 0]

theorem samePat_updateMatrix (arg : MatArg α) (M : Csc α) (l r : Array α) (cs : Option α) :
    SamePat M (updateMatrix arg M l r cs).1 := by
  obtain ⟨h1, h2, h3, h4, h5⟩ := updateMatrix_shape arg M l r cs
  exact ⟨h1, h2, h3, h4, h5⟩

theorem DFrame.setP {d0 d : ProblemData α} (h : DFrame d0 d) {P' : Csc α} (hP : SamePat d.P P') :
    DFrame d0 { d with P := P' } :=
  ⟨h.P.trans hP, h.A, h.q, h.b, h.cones, h.n, h.m, h.equilibration, h.presolver⟩

theorem DFrame.setA {d0 d : ProblemData α} (h : DFrame d0 d) {A' : Csc α} (hA : SamePat d.A A') :
    DFrame d0 { d with A := A' } :=
  ⟨h.P, h.A.trans hA, h.q, h.b, h.cones, h.n, h.m, h.equilibration, h.presolver⟩

theorem DFrame.setQ {d0 d : ProblemData α} (h : DFrame d0 d) {q' : Array α} (hq : q'.size = d.q.size)
    (nq : Option α) : DFrame d0 { d with q := q', normq := nq } :=
  ⟨h.P, h.A, hq.trans h.q, h.b, h.cones, h.n, h.m, h.equilibration, h.presolver⟩

theorem DFrame.setB {d0 d : ProblemData α} (h : DFrame d0 d) {b' : Array α} (hb : b'.size = d.b.size)
    (nb : Option α) : DFrame d0 { d with b := b', normb := nb } :=
  ⟨h.P, h.A, h.q, hb.trans h.b, h.cones, h.n, h.m, h.equilibration, h.presolver⟩

end

/-- the index guard only looks at patterns and lengths -/
theorem dataWf_of_frame {d0 d : ProblemData α} (h : DFrame d0 d) (h0 : dataWf d0 = true) : dataWf d = true := by
  unfold dataWf at h0 ⊢
  rw [h.P.rowval, h.P.size, h.A.rowval, h.A.size, h.equilibration, h.q, h.b, h.P.n, h.A.n, h.A.m,
    h.P.colptr, h.A.colptr]
  exact h0

section
variable [Add α] [Sub α] [Mul α] [Div α] [Neg α] [OfNat α 0] [OfNat α 1] [OfNat α 2]
  [OfNat α 100] [OfNat α 1000] [LT α] [DecidableLT α] [LE α] [DecidableLE α] [BEq α] [FloatLike α]

/-- well-formed internal data passes the index guard of the update operations -/
theorem dataWf_of_dataOK {d : ProblemData α} (h : DataOK d) : dataWf d = true := by
  have hP := h.P_canon
  have hA := h.A_canon
  unfold dataWf
  simp only [Bool.and_eq_true, beq_iff_eq, Array.all_eq_true, decide_eq_true_eq]
  refine ⟨⟨⟨⟨⟨⟨⟨⟨⟨⟨⟨⟨⟨⟨?_, ?_⟩, ?_⟩, ?_⟩, ?_⟩, ?_⟩, ?_⟩, ?_⟩, ?_⟩, ?_⟩, ?_⟩, ?_⟩, ?_⟩, ?_⟩, ?_⟩
  · exact hP.canon.len_eq
  · exact hA.canon.len_eq
  · rw [h.eq_d, h.q]
  · rw [h.eq_e, h.b]
  · rw [h.P_n, h.q]
  · rw [h.A_n, h.q]
  · rw [h.A_m, h.b]
  · exact hP.canon.colptr_size
  · exact hA.canon.colptr_size
  · have h0 : 0 < d.P.colptr.size := by rw [hP.canon.colptr_size]; omega
    have := hP.colptr_zero
    simp only [Array.getD_eq_getD_getElem?, Array.getElem?_eq_getElem h0, Option.getD_some] at this ⊢
    exact this
  · have h0 : 0 < d.A.colptr.size := by rw [hA.canon.colptr_size]; omega
    have := hA.colptr_zero
    simp only [Array.getD_eq_getD_getElem?, Array.getElem?_eq_getElem h0, Option.getD_some] at this ⊢
    exact this
  · rw [hP.canon.colptr_last, hP.canon.len_eq]
  · rw [hA.canon.colptr_last, hA.canon.len_eq]
  · intro i hi
    have := hP.canon.rows_bound (d.P.rowval[i]) (Array.getElem_mem_toList hi)
    rw [h.P_m, ← h.q] at this
    exact this
  · intro i hi
    have := hA.canon.rows_bound (d.A.rowval[i]) (Array.getElem_mem_toList hi)
    rw [h.A_m, ← h.b] at this
    exact this

end

end Clarabel.Solver

/-! ### the update operations with the guard evaluated -/

namespace Clarabel.Solver
open Clarabel Clarabel.Update

variable {α : Type}

section
variable [Add α] [Sub α] [Mul α] [Div α] [Neg α] [OfNat α 0] [OfNat α 1] [LT α] [DecidableLT α]
  [BEq α] [FloatLike α]

theorem updGuard_ok {S : Solver α} (h : dataWf S.st.data = true) :
    updGuard S = .ok (checkDataUpdateAllowed S.st.data) := by
  unfold updGuard
  rw [h]
  rfl

theorem updGuard_panic {S : Solver α} (h : dataWf S.st.data = false) :
    updGuard S = .error (.panic "update: ill-formed problem data") := by
  unfold updGuard
  rw [h]
  rfl

theorem updateP_eq (S : Solver α) (arg : MatArg α) (hwf : dataWf S.st.data = true) :
    S.updateP arg =
      match checkDataUpdateAllowed S.st.data with
      | .error e => .ok (S, .error e)
      | .ok () =>
        match updateMatrix arg S.st.data.P S.st.data.equilibration.d S.st.data.equilibration.d
            (some S.st.data.equilibration.c) with
        | (P', .error e) => .ok (S.setData { S.st.data with P := P' }, .error (.badFormat e))
        | (P', .ok ()) =>
          (S.st.kktsystem.kktsolver.updateValues S.st.kktsystem.kktsolver.map.P P'.nzval).map
            (fun K => ((S.setData { S.st.data with P := P' }).setKktSolver K, .ok ())) := by
  unfold Solver.updateP
  rw [updGuard_ok hwf]
  cases checkDataUpdateAllowed S.st.data with
  | error e => rfl
  | ok u =>
    cases u
    show (match updateMatrix arg S.st.data.P S.st.data.equilibration.d S.st.data.equilibration.d
        (some S.st.data.equilibration.c) with
      | (P', .error e) => _
      | (P', .ok ()) => _) = _
    generalize updateMatrix arg S.st.data.P S.st.data.equilibration.d S.st.data.equilibration.d
        (some S.st.data.equilibration.c) = res
    obtain ⟨P', r⟩ := res
    cases r with
    | error e => rfl
    | ok u =>
      cases u
      dsimp only
      show (S.st.kktsystem.kktsolver.updateValues S.st.kktsystem.kktsolver.map.P P'.nzval >>= _) = _
      generalize S.st.kktsystem.kktsolver.updateValues S.st.kktsystem.kktsolver.map.P P'.nzval = X
      cases X <;> rfl

theorem updateA_eq (S : Solver α) (arg : MatArg α) (hwf : dataWf S.st.data = true) :
    S.updateA arg =
      match checkDataUpdateAllowed S.st.data with
      | .error e => .ok (S, .error e)
      | .ok () =>
        match updateMatrix arg S.st.data.A S.st.data.equilibration.e S.st.data.equilibration.d none with
        | (A', .error e) => .ok (S.setData { S.st.data with A := A' }, .error (.badFormat e))
        | (A', .ok ()) =>
          (S.st.kktsystem.kktsolver.updateValues S.st.kktsystem.kktsolver.map.A A'.nzval).map
            (fun K => ((S.setData { S.st.data with A := A' }).setKktSolver K, .ok ())) := by
  unfold Solver.updateA
  rw [updGuard_ok hwf]
  cases checkDataUpdateAllowed S.st.data with
  | error e => rfl
  | ok u =>
    cases u
    show (match updateMatrix arg S.st.data.A S.st.data.equilibration.e S.st.data.equilibration.d
        none with
      | (A', .error e) => _
      | (A', .ok ()) => _) = _
    generalize updateMatrix arg S.st.data.A S.st.data.equilibration.e S.st.data.equilibration.d
        none = res
    obtain ⟨A', r⟩ := res
    cases r with
    | error e => rfl
    | ok u =>
      cases u
      dsimp only
      show (S.st.kktsystem.kktsolver.updateValues S.st.kktsystem.kktsolver.map.A A'.nzval >>= _) = _
      generalize S.st.kktsystem.kktsolver.updateValues S.st.kktsystem.kktsolver.map.A A'.nzval = X
      cases X <;> rfl

theorem updateQ_eq (S : Solver α) (arg : VecArg α) (hwf : dataWf S.st.data = true) :
    S.updateQ arg = .ok
      (match checkDataUpdateAllowed S.st.data with
      | .error e => (S, .error e)
      | .ok () =>
        match updateVector arg S.st.data.q S.st.data.equilibration.d (some S.st.data.equilibration.c) with
        | (q', .error e) => (S.setData { S.st.data with q := q' }, .error (.badFormat e))
        | (q', .ok ()) => (S.setData { S.st.data with q := q', normq := none }, .ok ())) := by
  unfold Solver.updateQ
  rw [updGuard_ok hwf]
  cases checkDataUpdateAllowed S.st.data with
  | error e => rfl
  | ok u =>
    cases u
    show (match updateVector arg S.st.data.q S.st.data.equilibration.d (some S.st.data.equilibration.c) with
      | (q', .error e) => _
      | (q', .ok ()) => _) = _
    split <;> rfl

theorem updateB_eq (S : Solver α) (arg : VecArg α) (hwf : dataWf S.st.data = true) :
    S.updateB arg = .ok
      (match checkDataUpdateAllowed S.st.data with
      | .error e => (S, .error e)
      | .ok () =>
        match updateVector arg S.st.data.b S.st.data.equilibration.e none with
        | (b', .error e) => (S.setData { S.st.data with b := b' }, .error (.badFormat e))
        | (b', .ok ()) => (S.setData { S.st.data with b := b', normb := none }, .ok ())) := by
  unfold Solver.updateB
  rw [updGuard_ok hwf]
  cases checkDataUpdateAllowed S.st.data with
  | error e => rfl
  | ok u =>
    cases u
    show (match updateVector arg S.st.data.b S.st.data.equilibration.e none with
      | (b', .error e) => _
      | (b', .ok ()) => _) = _
    split <;> rfl

end

end Clarabel.Solver
