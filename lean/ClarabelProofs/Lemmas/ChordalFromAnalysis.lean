/-
  C18 ← C17: the clique tree returned by the chordal analysis satisfies the hypotheses of C18's
  theorems.

  C17 proves (`Lemmas/ChordalBridge.lean`: `analysis_none_valid`, `analysis_pc_valid`) that
  `SparsityPattern::new` returns a tree satisfying `ValidCliqueTree` (the oracle's clauses in C17's
  vocabulary: `sn`/`sp`/`par`/`postAt`/`cliqueL`, cliques addressed by their tree index).  C18's
  theorems take `ValidPattern` (`Lemmas/ChordalValidTree.lean`: cliques addressed by their
  post-order index, `snodeAt`/`sepAt`/`cliqueAt`/`IsParent`) and `StdPatternOK`
  (`Lemmas/ChordalStdBlocks.lean`).  This file proves

  * `ValidTree.of_multi`, `ValidPattern.of_valid`: `ValidCliqueTree` with more than one clique
    implies `ValidPattern` (single-clique patterns are never stored: `chordal_info.rs`,
    `if spattern.sntree.n_cliques == 1 { continue }`);
  * `cliqueO_cover_of_valid`: C17's coverage clause in C18's terms (every pattern entry lies in the
    block of some clique, sorted original coordinates);
  * `decomposition_of_analysis_none/_pc/_cg/_all`: end to end for the three merge strategies
    (`none`, `parent_child`, `clique_graph` — C17's `analysis_{none,pc,cg}_valid`);
  * `FromAnalysis`, `info_of_analysis`, `compactHyp_of_analysis`: a `ChordalInfo` all of whose
    stored patterns are analysis results satisfies `StdOK` (hypothesis of `H_no_panic`) and
    `ValidInfo` + coverage (the pattern part of `CompactHyp`).
-/
import ClarabelProofs.Lemmas.ChordalStdBridge
import ClarabelProofs.Lemmas.ChordalBridge
import ClarabelProofs.Lemmas.ChordalCompactInfo
import ClarabelProofs.Lemmas.ChordalCGExactFinal

namespace Clarabel.Chordal
open SuperNodeTree

/-! ## the two vocabularies -/

theorem postIdx_eq_postAt (t : SuperNodeTree) (i : Nat) : t.postIdx i = t.postAt i := rfl
theorem snodeAt_eq_sn (t : SuperNodeTree) (i : Nat) : t.snodeAt i = (t.sn (t.postAt i)).toList := rfl
theorem sepAt_eq_sp (t : SuperNodeTree) (i : Nat) : t.sepAt i = (t.sp (t.postAt i)).toList := rfl
theorem cliqueAt_eq_cliqueL (t : SuperNodeTree) (i : Nat) : t.cliqueAt i = t.cliqueL (t.postAt i) := rfl

/-- C17's `offset` (sum over the first `i` entries of `snode_post`) is C18's `snodeOffset` -/
theorem offset_eq_snodeOffset (t : SuperNodeTree) (i : Nat) (hi : i ≤ t.snodePost.size) :
    t.offset i = t.snodeOffset i := by
  induction i with
  | zero => simp [offset, snodeOffset]
  | succ i ih =>
    rw [offset_succ t i (by omega), ih (by omega)]
    unfold snodeOffset
    rw [List.range_succ, List.map_append, List.sum_append]
    simp [snodeAt_eq_sn]

/-! ## `ValidCliqueTree` ⇒ `ValidTree` -/

section Multi
variable {n : Nat} {edges : List (Nat × Nat)} {t : SuperNodeTree} {ordering : Array Nat}

private theorem post_at (hc : ValidCommon n t ordering) (i : Nat) (hi : i < t.nCliques) :
    t.snodePost.toList[i]? = some (t.postAt i) := by
  have : i < t.snodePost.size := by rw [hc.post_size]; exact hi
  simp [postAt, Array.getD, this]

private theorem post_mem (hc : ValidCommon n t ordering) (i : Nat) (hi : i < t.nCliques) :
    t.postAt i ∈ t.snodePost.toList :=
  List.mem_of_getElem? (post_at hc i hi)

private theorem post_len (hc : ValidCommon n t ordering) : t.snodePost.toList.length = t.nCliques := by
  rw [Array.length_toList]; exact hc.post_size

private theorem post_idx (hc : ValidCommon n t ordering) (hm : ValidMulti n edges t ordering)
    (i : Nat) (hi : i < t.nCliques) : t.snodePost.toList.idxOf (t.postAt i) = i := by
  have hl : i < t.snodePost.toList.length := by rw [post_len hc]; exact hi
  have h1 := post_at hc i hi
  rw [List.getElem?_eq_getElem hl] at h1
  rw [← Option.some.inj h1]
  exact hm.post_nodup.idxOf_getElem i hl

private theorem post_of_getElem? (hc : ValidCommon n t ordering) (j c : Nat)
    (h : t.snodePost.toList[j]? = some c) : j < t.nCliques ∧ t.postAt j = c := by
  obtain ⟨hj, hjc⟩ := List.getElem?_eq_some_iff.1 h
  have hj' : j < t.nCliques := by rw [← post_len hc]; exact hj
  refine ⟨hj', ?_⟩
  have := post_at hc j hj'
  rw [h] at this
  exact (Option.some.inj this).symm

/-- [S] a proper clique tree in C17's terms is a valid tree in C18's terms -/
theorem ValidTree.of_multi (hc : ValidCommon n t ordering) (hm : ValidMulti n edges t ordering) :
    ValidTree t n := by
  have hinj : ∀ i j, i < t.nCliques → j < t.nCliques → t.postAt i = t.postAt j → i = j := by
    intro i j hi hj e
    rw [← post_idx hc hm i hi, ← post_idx hc hm j hj, e]
  have hoff : ∀ i, i ≤ t.nCliques → t.offset i = t.snodeOffset i := fun i hi =>
    offset_eq_snodeOffset t i (by rw [hc.post_size]; exact hi)
  have hcons : ∀ i, i < t.nCliques → ∀ v,
      v ∈ t.snodeAt i ↔ (t.snodeOffset i ≤ v ∧ v < t.snodeOffset (i + 1)) := by
    intro i hi v
    rw [snodeAt_eq_sn, hm.mem_snode_iff hc hi v, hoff i (by omega), hoff (i + 1) (by omega)]
  have hmono : ∀ i j, i ≤ j → j ≤ t.nCliques → t.snodeOffset i ≤ t.snodeOffset j := by
    intro i j hij hj
    rw [← hoff i (by omega), ← hoff j hj]
    exact offset_mono t hij
  refine
    { ncl_pos := Nat.pos_of_ne_zero hc.ncliques_ne_zero
      post_size := hc.post_size
      sep_size := hc.separators_size
      par_size := hc.parent_size
      post_lt := fun i hi => hm.post_lt _ (post_mem hc i hi)
      post_inj := hinj
      clique_nodup := fun i hi => hm.clique_nodup _ (hm.post_lt _ (post_mem hc i hi))
      clique_lt := fun i hi => hm.clique_lt _ (hm.post_lt _ (post_mem hc i hi))
      snode_ne := fun i hi => hm.live_nonempty _ (hm.post_lt _ (post_mem hc i hi)) (post_mem hc i hi)
      snode_disj := ?_
      snode_cover := ?_
      snode_consec := hcons
      root_parent := hm.root_last.2.2
      root_sep := hm.root_separator
      parent := ?_
      nblk := hm.nblk }
  · intro i j v hi hj h1 h2
    obtain ⟨a1, a2⟩ := (hcons i hi v).1 h1
    obtain ⟨b1, b2⟩ := (hcons j hj v).1 h2
    rcases Nat.lt_trichotomy i j with hij | hij | hij
    · have := hmono (i + 1) j (by omega) (by omega); omega
    · exact hij
    · have := hmono (j + 1) i (by omega) (by omega); omega
  · intro v hv
    obtain ⟨i, hi, hlo, hhi⟩ := offset_exists_block t v t.nCliques (by rw [hm.cover]; exact hv)
    refine ⟨i, hi, (hcons i hi v).2 ⟨?_, ?_⟩⟩
    · rw [← hoff i (by omega)]; exact hlo
    · rw [← hoff (i + 1) (by omega)]; exact hhi
  · intro i hi
    have hi' : i < t.nCliques := by omega
    have hck := hm.post_lt _ (post_mem hc i hi')
    have hne : t.postAt i ≠ t.root := by
      intro e
      have := hinj i (t.nCliques - 1) hi' (by omega) e
      omega
    obtain ⟨_, i', j', hij, h1, h2⟩ := hm.parent_live_later _ hck (post_mem hc i hi') hne
    obtain ⟨hi1, e1⟩ := post_of_getElem? hc i' _ h1
    obtain ⟨hj1, e2⟩ := post_of_getElem? hc j' _ h2
    have : i' = i := hinj i' i hi1 hi' e1
    subst this
    refine ⟨j', hij, ⟨hj1, e2.symm⟩, fun v => ?_⟩
    have := hm.separator_inter _ hck (post_mem hc i' hi') hne v
    rw [sepAt_eq_sp, cliqueAt_eq_cliqueL, cliqueAt_eq_cliqueL, e2]
    exact this

end Multi

/-- [S] **`ValidCliqueTree` ⇒ `ValidPattern`**: a clique tree that passes C17's validity predicate
and has more than one clique satisfies the hypothesis of C18's theorems about the compact
transformation, its reversal and the PSD completion -/
theorem ValidPattern.of_valid (n : Nat) (edges : List (Nat × Nat)) (p : SPattern)
    (h : ValidCliqueTree n edges p.sntree p.ordering) (hne : p.sntree.nCliques ≠ 1) :
    ValidPattern p ∧ p.ordering.size = n := by
  have hs := StdPatternOK.of_valid n edges p h hne
  obtain ⟨hc, hsp⟩ := h
  have hm : ValidMulti n edges p.sntree p.ordering := by
    rcases hsp with ⟨h1, _⟩ | ⟨_, h2⟩
    · exact absurd h1 hne
    · exact h2
  have hlen := hs.ord_size
  refine ⟨⟨?_, ?_, ?_⟩, hlen⟩
  · rw [hlen]; exact ValidTree.of_multi hc hm
  · rw [hlen]; exact hs.ord_lt
  · rw [hlen]; exact hs.ord_inj

/-- [S] C17's coverage clause in C18's terms: every pattern entry `(e.1, e.2)` (original
coordinates) lies in the block of some clique — both coordinates belong to the sorted clique
`cliqueO i` that `compact_rows` / `reverse_compact` use -/
theorem cliqueO_cover_of_valid (n : Nat) (edges : List (Nat × Nat)) (p : SPattern)
    (h : ValidCliqueTree n edges p.sntree p.ordering) (hne : p.sntree.nCliques ≠ 1) :
    ∀ e ∈ edges, ∃ i, i < p.sntree.nCliques ∧ e.1 ∈ p.cliqueO i ∧ e.2 ∈ p.cliqueO i := by
  obtain ⟨hc, hsp⟩ := h
  have hm : ValidMulti n edges p.sntree p.ordering := by
    rcases hsp with ⟨h1, _⟩ | ⟨_, h2⟩
    · exact absurd h1 hne
    · exact h2
  intro e he
  obtain ⟨c, _, hcl, ⟨a, ha, hae⟩, ⟨b, hb, hbe⟩⟩ := hm.coverage e he
  obtain ⟨i, hi, hic⟩ := List.getElem_of_mem hcl
  have hi' : i < p.sntree.nCliques := by rw [← post_len hc]; exact hi
  obtain ⟨_, e1⟩ := post_of_getElem? hc i c (by rw [List.getElem?_eq_getElem hi, hic])
  have hget : ∀ (a x : Nat), p.ordering[a]? = some x → p.ordv a = x := by
    intro a x hx
    unfold SPattern.ordv
    rw [Array.getD_eq_getD_getElem?, hx, Option.getD_some]
  refine ⟨i, hi', ?_, ?_⟩
  · unfold SPattern.cliqueO
    rw [p.mem_sortO, cliqueAt_eq_cliqueL, e1]
    exact ⟨a, ha, hget a _ hae⟩
  · unfold SPattern.cliqueO
    rw [p.mem_sortO, cliqueAt_eq_cliqueL, e1]
    exact ⟨b, hb, hget b _ hbe⟩

/-- non-vacuity: the model's tree of the path graph `0 – 1 – 2` (`exValidTree`, C17) -/
example : ValidPattern ⟨exValidTree, #[0, 2, 1], 0⟩ :=
  (ValidPattern.of_valid 3 [(0, 1), (1, 2)] ⟨exValidTree, #[0, 2, 1], 0⟩
    ((validCliqueTreeB_iff _ _ _ _).1 exValidTree_ok) (by decide)).1

/-! ## end to end: the output of `SparsityPattern::new` -/

/-- what C18 needs of one analysed cone: when the pattern is stored (more than one clique) it is
valid, well formed for the standard decomposition of a PSD cone of dimension `d`, and its cliques
cover the pattern entries `edges` -/
def DecompReady (p : SPattern) (d : Nat) (edges : List (Nat × Nat)) : Prop :=
  ValidPattern p ∧ StdPatternOK p d ∧ p.ordering.size = d ∧
    ∀ e ∈ edges, ∃ i, i < p.sntree.nCliques ∧ e.1 ∈ p.cliqueO i ∧ e.2 ∈ p.cliqueO i

theorem DecompReady.of_valid (n : Nat) (edges : List (Nat × Nat)) (p : SPattern)
    (h : ValidCliqueTree n edges p.sntree p.ordering) (hne : p.sntree.nCliques ≠ 1) :
    DecompReady p n edges :=
  ⟨(ValidPattern.of_valid n edges p h hne).1, StdPatternOK.of_valid n edges p h hne,
    (ValidPattern.of_valid n edges p h hne).2, cliqueO_cover_of_valid n edges p h hne⟩

/-- [S] **`decomposition_of_analysis`, strategy `none`**: for a filled pattern `L`, a permutation
`ordering` and pattern entries `edges` that are entries of `L` (C17's hypotheses, evaluated by its
driver on every run), `SparsityPattern::new(L, ordering, "none")` returns a tree which — whenever
it is stored, i.e. has more than one clique — satisfies every pattern hypothesis of C18's
theorems. -/
theorem decomposition_of_analysis_none {L : LPat} (h : L.Filled) (ordering : Array Nat)
    (ho : ordering.toList.Perm (List.range L.n)) (edges : List (Nat × Nat))
    (hedges : ∀ e ∈ edges, ∃ a b, a < L.n ∧ b < L.n ∧ ordering[a]? = some e.1 ∧
        ordering[b]? = some e.2 ∧ (b ∈ L.col a ∨ a ∈ L.col b)) (oi : Nat) :
    ∃ tf ord', sparsityPatternNew L ordering "none" = .ok (tf, ord') ∧
      (tf.nCliques ≠ 1 → DecompReady ⟨tf, ord', oi⟩ L.n edges) := by
  obtain ⟨tf, ord', h1, h2, _⟩ := analysis_none_valid h ordering ho edges hedges
  exact ⟨tf, ord', h1, fun hne => DecompReady.of_valid L.n edges ⟨tf, ord', oi⟩ h2 hne⟩

/-- [S] **`decomposition_of_analysis`, strategy `parent_child`** -/
theorem decomposition_of_analysis_pc {L : LPat} (h : L.Filled) (ordering : Array Nat)
    (ho : ordering.toList.Perm (List.range L.n)) (edges : List (Nat × Nat))
    (hedges : ∀ e ∈ edges, ∃ a b, a < L.n ∧ b < L.n ∧ ordering[a]? = some e.1 ∧
        ordering[b]? = some e.2 ∧ (b ∈ L.col a ∨ a ∈ L.col b)) (oi : Nat) :
    ∃ tf ord', sparsityPatternNew L ordering "parent_child" = .ok (tf, ord') ∧
      (tf.nCliques ≠ 1 → DecompReady ⟨tf, ord', oi⟩ L.n edges) := by
  obtain ⟨tf, ord', h1, h2, _⟩ := analysis_pc_valid h ordering ho edges hedges
  exact ⟨tf, ord', h1, fun hne => DecompReady.of_valid L.n edges ⟨tf, ord', oi⟩ h2 hne⟩

/-- [S] **`decomposition_of_analysis`, strategy `clique_graph`** (C17's `analysis_cg_valid`: the
whole clique-graph pipeline — reduced clique graph, merge loop, Kruskal's maximum-weight spanning
tree, `post_process_merge` — with no hypothesis on the run) -/
theorem decomposition_of_analysis_cg {L : LPat} (h : L.Filled) (ordering : Array Nat)
    (ho : ordering.toList.Perm (List.range L.n)) (edges : List (Nat × Nat))
    (hedges : ∀ e ∈ edges, ∃ a b, a < L.n ∧ b < L.n ∧ ordering[a]? = some e.1 ∧
        ordering[b]? = some e.2 ∧ (b ∈ L.col a ∨ a ∈ L.col b)) (oi : Nat) :
    ∃ tf ord', sparsityPatternNewCG L ordering = .ok (tf, ord') ∧
      (tf.nCliques ≠ 1 → DecompReady ⟨tf, ord', oi⟩ L.n edges) := by
  obtain ⟨tf, ord', h1, h2, _⟩ := analysis_cg_valid h ordering ho edges hedges
  exact ⟨tf, ord', h1, fun hne => DecompReady.of_valid L.n edges ⟨tf, ord', oi⟩ h2 hne⟩

/-- the three values of `chordal_decomposition_merge_method` that `SparsityPattern::new` accepts -/
def MergeMethodOK (mm : String) : Prop := mm = "none" ∨ mm = "parent_child" ∨ mm = "clique_graph"

theorem sparsityPatternNewAll_none (L : LPat) (ordering : Array Nat) :
    sparsityPatternNewAll L ordering "none" = sparsityPatternNew L ordering "none" := by
  unfold sparsityPatternNewAll
  rw [if_neg (by decide)]

theorem sparsityPatternNewAll_pc (L : LPat) (ordering : Array Nat) :
    sparsityPatternNewAll L ordering "parent_child" = sparsityPatternNew L ordering "parent_child" := by
  unfold sparsityPatternNewAll
  rw [if_neg (by decide)]

theorem sparsityPatternNewAll_cg (L : LPat) (ordering : Array Nat) :
    sparsityPatternNewAll L ordering "clique_graph" = sparsityPatternNewCG L ordering := by
  unfold sparsityPatternNewAll
  rw [if_pos (by decide)]

/-- [S] C17 for all three strategies in one statement: `SparsityPattern::new(L, ordering, mm)`
returns without panic a tree satisfying `ValidCliqueTree` -/
theorem analysis_all_valid {L : LPat} (h : L.Filled) (ordering : Array Nat)
    (ho : ordering.toList.Perm (List.range L.n)) (edges : List (Nat × Nat))
    (hedges : ∀ e ∈ edges, ∃ a b, a < L.n ∧ b < L.n ∧ ordering[a]? = some e.1 ∧
        ordering[b]? = some e.2 ∧ (b ∈ L.col a ∨ a ∈ L.col b)) (mm : String) (hmm : MergeMethodOK mm) :
    ∃ tf ord', sparsityPatternNewAll L ordering mm = .ok (tf, ord') ∧
      ValidCliqueTree L.n edges tf ord' := by
  rcases hmm with rfl | rfl | rfl
  · obtain ⟨tf, ord', h1, h2, _⟩ := analysis_none_valid h ordering ho edges hedges
    exact ⟨tf, ord', by rw [sparsityPatternNewAll_none]; exact h1, h2⟩
  · obtain ⟨tf, ord', h1, h2, _⟩ := analysis_pc_valid h ordering ho edges hedges
    exact ⟨tf, ord', by rw [sparsityPatternNewAll_pc]; exact h1, h2⟩
  · obtain ⟨tf, ord', h1, h2, _⟩ := analysis_cg_valid h ordering ho edges hedges
    exact ⟨tf, ord', by rw [sparsityPatternNewAll_cg]; exact h1, h2⟩

/-- [S] **`decomposition_of_analysis`, every strategy**: `SparsityPattern::new(L, ordering, mm)`
for `mm ∈ {none, parent_child, clique_graph}` -/
theorem decomposition_of_analysis_all {L : LPat} (h : L.Filled) (ordering : Array Nat)
    (ho : ordering.toList.Perm (List.range L.n)) (edges : List (Nat × Nat))
    (hedges : ∀ e ∈ edges, ∃ a b, a < L.n ∧ b < L.n ∧ ordering[a]? = some e.1 ∧
        ordering[b]? = some e.2 ∧ (b ∈ L.col a ∨ a ∈ L.col b)) (oi : Nat)
    (mm : String) (hmm : MergeMethodOK mm) :
    ∃ tf ord', sparsityPatternNewAll L ordering mm = .ok (tf, ord') ∧
      (tf.nCliques ≠ 1 → DecompReady ⟨tf, ord', oi⟩ L.n edges) := by
  obtain ⟨tf, ord', h1, h2⟩ := analysis_all_valid h ordering ho edges hedges mm hmm
  exact ⟨tf, ord', h1, fun hne => DecompReady.of_valid L.n edges ⟨tf, ord', oi⟩ h2 hne⟩

/-! ## the whole `ChordalInfo` -/

/-- every stored pattern of `ci` is the output of the analysis (`SparsityPattern::new` with ANY of
the three merge strategies `none`, `parent_child`, `clique_graph`) of a filled pattern `L` with a
permutation `ordering`, for the PSD cone `p.origIndex` of dimension `L.n`, has more than one clique,
and the pattern entries `E c` of that cone are entries of `L` -/
def FromAnalysis (ci : ChordalInfo) (E : Nat → List (Nat × Nat)) : Prop :=
  ∀ (k : Nat) (p : SPattern), ci.spatterns[k]? = some p →
    p.sntree.nCliques ≠ 1 ∧
    ∃ (L : LPat) (ordering : Array Nat) (mm : String), MergeMethodOK mm ∧
      L.Filled ∧ ordering.toList.Perm (List.range L.n) ∧
      (∀ e ∈ E p.origIndex, ∃ a b, a < L.n ∧ b < L.n ∧ ordering[a]? = some e.1 ∧
        ordering[b]? = some e.2 ∧ (b ∈ L.col a ∨ a ∈ L.col b)) ∧
      sparsityPatternNewAll L ordering mm = .ok (p.sntree, p.ordering) ∧
      ci.initCones[p.origIndex]? = some (.psd L.n)

theorem FromAnalysis.ready {ci : ChordalInfo} {E : Nat → List (Nat × Nat)} (h : FromAnalysis ci E)
    (k : Nat) (p : SPattern) (hk : ci.spatterns[k]? = some p) :
    ∃ d, ci.initCones[p.origIndex]? = some (.psd d) ∧ DecompReady p d (E p.origIndex) := by
  obtain ⟨hne, L, ordering, mm, hmm, hf, ho, he, hnew, hcone⟩ := h k p hk
  refine ⟨L.n, hcone, ?_⟩
  obtain ⟨tf, ord', h1, h2⟩ := decomposition_of_analysis_all hf ordering ho _ he p.origIndex mm hmm
  rw [hnew] at h1
  obtain ⟨rfl, rfl⟩ := Prod.mk.inj (Except.ok.inj h1)
  exact h2 hne

/-- [S] **the hypotheses of C18 from the conclusions of C17**: if every stored pattern is an
analysis result then `ci.StdOK` (the hypothesis of `H_no_panic`, `standard_blocks`, …),
`ValidInfo ci` (the pattern part of `CompactHyp`; hypothesis of `reverse_compact`, …), and the
cliques of the pattern used for cone `c` cover the entries `E c` -/
theorem info_of_analysis {ci : ChordalInfo} {E : Nat → List (Nat × Nat)} (h : FromAnalysis ci E) :
    ci.StdOK ∧ ValidInfo ci ∧
    (∀ c, c < ci.initCones.size → ∀ p, ci.patAt c = some p →
      ∀ e ∈ E c, ∃ i, i < p.sntree.nCliques ∧ e.1 ∈ p.cliqueO i ∧ e.2 ∈ p.cliqueO i) := by
  refine ⟨?_, ⟨?_⟩, ?_⟩
  · intro k p hk
    obtain ⟨d, h1, h2⟩ := h.ready k p hk
    exact ⟨d, h1, h2.2.1⟩
  · intro c hc p hp
    obtain ⟨hk, hoi⟩ := nextPattern?_some ci _ c p hp
    obtain ⟨d, h1, h2⟩ := h.ready _ p hk
    refine ⟨h2.1, ?_⟩
    rw [hoi] at h1
    rw [Array.getD_eq_getD_getElem?, h1, Option.getD_some, h2.2.2.1]
  · intro c hc p hp
    obtain ⟨hk, hoi⟩ := nextPattern?_some ci _ c p hp
    obtain ⟨d, _, h2⟩ := h.ready _ p hk
    rw [← hoi]
    exact h2.2.2.2

/-- [S] coverage of the stored rows by the cliques (`Covered`, the clause of `CompactHyp`) from
coverage of the pattern entries: it suffices that every stored row inside a decomposed cone `c`
is one of the pattern entries `E c` handed to the analysis -/
theorem covered_of_entries (ci : ChordalInfo) (E : Nat → List (Nat × Nat)) (xs : Array Nat) (n : Nat)
    (hcov : ∀ c, c < ci.initCones.size → ∀ p, ci.patAt c = some p →
      ∀ e ∈ E c, ∃ i, i < p.sntree.nCliques ∧ e.1 ∈ p.cliqueO i ∧ e.2 ∈ p.cliqueO i)
    (hrows : ∀ slot, slot < n → ∀ c, c < ci.initCones.size → (ci.patAt c).isSome →
      ci.rs c ≤ xs.getD slot 0 → xs.getD slot 0 < ci.rs c + ci.nv c →
      upperTriangularIndexToCoord (xs.getD slot 0 - ci.rs c) ∈ E c) :
    Covered ci xs n := by
  intro slot hs c hc p hp h1 h2
  exact hcov c hc p hp _ (hrows slot hs c hc (by rw [hp]; rfl) h1 h2)

/-- [S] **`CompactHyp` from C17's conclusions**: for a `ChordalInfo` whose patterns are analysis
results, the hypothesis bundle of `compact_rows` / `compact_assembled` / `compact_equiv` reduces to
facts about the data alone — `A` is well formed, its stored rows (and the non-zeros of `b`) lie in
the cones, and those inside a decomposed cone are pattern entries handed to the analysis. -/
theorem compactHyp_of_analysis {α : Type} {ci : ChordalInfo} {E : Nat → List (Nat × Nat)}
    (h : FromAnalysis ci E) (A : Csc α) (bInd : Array Nat) (wf : CscWF A) (ncols : 0 < A.n)
    (bsorted : StrictOn bInd 0 bInd.size)
    (rowsA : ∀ slot, slot < A.colptr.getD A.n 0 →
      ∃ c, c < ci.initCones.size ∧ ci.rs c ≤ A.rowval.getD slot 0 ∧ A.rowval.getD slot 0 < ci.rs c + ci.nv c)
    (rowsB : ∀ slot, slot < bInd.size →
      ∃ c, c < ci.initCones.size ∧ ci.rs c ≤ bInd.getD slot 0 ∧ bInd.getD slot 0 < ci.rs c + ci.nv c)
    (entA : ∀ slot, slot < A.colptr.getD A.n 0 → ∀ c, c < ci.initCones.size → (ci.patAt c).isSome →
      ci.rs c ≤ A.rowval.getD slot 0 → A.rowval.getD slot 0 < ci.rs c + ci.nv c →
      upperTriangularIndexToCoord (A.rowval.getD slot 0 - ci.rs c) ∈ E c)
    (entB : ∀ slot, slot < bInd.size → ∀ c, c < ci.initCones.size → (ci.patAt c).isSome →
      ci.rs c ≤ bInd.getD slot 0 → bInd.getD slot 0 < ci.rs c + ci.nv c →
      upperTriangularIndexToCoord (bInd.getD slot 0 - ci.rs c) ∈ E c) :
    CompactHyp ci A bInd := by
  obtain ⟨_, hv, hcov⟩ := info_of_analysis h
  exact ⟨hv, wf, ncols, bsorted, rowsA, rowsB, covered_of_entries ci E _ _ hcov entA,
    covered_of_entries ci E _ _ hcov entB⟩

end Clarabel.Chordal
