/-
  Helper lemmas for C12: the permutation-validation loop `_invperm`.
-/
import ClarabelModel.Perm
import Batteries.Data.List.Perm

namespace Clarabel.Perm

/-- the writes of `_invperm` without the validation: `b[j] := i, i+1, …` -/
def writeAll : List Nat → Nat → Array Nat → Array Nat
  | [], _, b => b
  | j :: rest, i, b => writeAll rest (i + 1) (b.setIfInBounds j i)

theorem writeAll_size (rest : List Nat) (i : Nat) (b : Array Nat) :
    (writeAll rest i b).size = b.size := by
  induction rest generalizing i b with
  | nil => rfl
  | cons j r ih => simp [writeAll, ih]

theorem writeAll_not_mem (rest : List Nat) (i : Nat) (b : Array Nat) (j : Nat) (h : j ∉ rest) :
    (writeAll rest i b)[j]? = b[j]? := by
  induction rest generalizing i b with
  | nil => rfl
  | cons x r ih =>
    simp only [List.mem_cons, not_or] at h
    rw [writeAll, ih _ _ h.2]
    rw [Array.getElem?_setIfInBounds_ne (Ne.symm h.1)]

theorem writeAll_get (rest : List Nat) (i : Nat) (b : Array Nat) (hnd : rest.Nodup)
    (hlt : ∀ j ∈ rest, j < b.size) (k : Nat) (hk : k < rest.length) :
    (writeAll rest i b)[rest[k]]? = some (i + k) := by
  induction rest generalizing i b k with
  | nil => simp at hk
  | cons x r ih =>
    have hx : x ∉ r := (List.nodup_cons.mp hnd).1
    have hr : r.Nodup := (List.nodup_cons.mp hnd).2
    cases k with
    | zero =>
      simp only [List.getElem_cons_zero, Nat.add_zero]
      rw [writeAll, writeAll_not_mem _ _ _ _ hx]
      have : x < b.size := hlt x (by simp)
      simp [this]
    | succ k =>
      simp only [List.getElem_cons_succ]
      rw [writeAll, ih (i + 1) (b.setIfInBounds x i) hr
        (by intro j hj; simpa using hlt j (by simp [hj])) k (by simpa using hk)]
      congr 1; omega

/-- characterisation of the validating loop -/
theorem invpermLoop_ok_iff (n : Nat) (rest : List Nat) (i : Nat) (b : Array Nat) (seen : Array Bool)
    (hs : seen.size = n) (b' : Array Nat) :
    invpermLoop n rest i b seen = .ok b' ↔
      (∀ j ∈ rest, j < n ∧ seen.getD j true = false) ∧ rest.Nodup ∧ b' = writeAll rest i b := by
  induction rest generalizing i b seen with
  | nil =>
    simp only [invpermLoop, List.not_mem_nil, false_imp_iff, implies_true, List.nodup_nil, true_and, writeAll]
    constructor
    · intro h; cases h; rfl
    · intro h; rw [h]; rfl
  | cons j r ih =>
    unfold invpermLoop
    by_cases hc : (j < n && !(seen.getD j true)) = true
    · rw [if_pos hc]
      have hj : j < n := by
        have := hc; simp only [Bool.and_eq_true, decide_eq_true_eq] at this; exact this.1
      have hsj : seen.getD j true = false := by
        have := hc; simp only [Bool.and_eq_true, Bool.not_eq_true'] at this; exact this.2
      rw [ih (i + 1) (b.setIfInBounds j i) (seen.setIfInBounds j true) (by simpa using hs)]
      have key : ∀ x, (seen.setIfInBounds j true).getD x true = false ↔ (x ≠ j ∧ seen.getD x true = false) := by
        intro x
        by_cases hxj : x = j
        · subst hxj
          have : x < seen.size := by omega
          simp [Array.getD, this]
        · simp only [Array.getD_eq_getD_getElem?, ne_eq, hxj, not_false_eq_true, true_and]
          rw [Array.getElem?_setIfInBounds_ne (Ne.symm hxj)]
      constructor
      · rintro ⟨h1, h2, h3⟩
        refine ⟨?_, ?_, ?_⟩
        · intro x hx
          rcases List.mem_cons.mp hx with rfl | hx
          · exact ⟨hj, hsj⟩
          · exact ⟨(h1 x hx).1, ((key x).mp (h1 x hx).2).2⟩
        · refine List.nodup_cons.mpr ⟨?_, h2⟩
          intro hmem
          exact ((key j).mp (h1 j hmem).2).1 rfl
        · rw [h3]; rfl
      · rintro ⟨h1, h2, h3⟩
        have hnd := List.nodup_cons.mp h2
        refine ⟨?_, hnd.2, ?_⟩
        · intro x hx
          refine ⟨(h1 x (by simp [hx])).1, (key x).mpr ⟨?_, (h1 x (by simp [hx])).2⟩⟩
          intro hxj; subst hxj; exact hnd.1 hx
        · rw [h3]; rfl
    · rw [if_neg hc]
      constructor
      · intro h; cases h
      · rintro ⟨h1, _, _⟩
        exfalso
        apply hc
        have := h1 j (by simp)
        simp [this.1, this.2]

/-- the loop either succeeds or reports `InvalidPermutation` (no other outcome) -/
theorem invpermLoop_error (n : Nat) (rest : List Nat) (i : Nat) (b : Array Nat) (seen : Array Bool) :
    (∃ b', invpermLoop n rest i b seen = .ok b') ∨
      invpermLoop n rest i b seen = .error invalidPermutation := by
  induction rest generalizing i b seen with
  | nil => exact Or.inl ⟨b, rfl⟩
  | cons j r ih =>
    unfold invpermLoop
    by_cases hc : (j < n && !(seen.getD j true)) = true
    · rw [if_pos hc]; exact ih _ _ _
    · rw [if_neg hc]; exact Or.inr rfl

/-- pigeonhole: a duplicate-free list of `n` numbers below `n` contains every number below `n` -/
theorem mem_of_nodup_of_lt (l : List Nat) (n : Nat) (hnd : l.Nodup) (hlt : ∀ x ∈ l, x < n)
    (hlen : l.length = n) (j : Nat) (hj : j < n) : j ∈ l := by
  have hsub : l ⊆ List.range n := fun x hx => List.mem_range.mpr (hlt x hx)
  have hperm : l.Perm (List.range n) :=
    (List.subperm_of_subset hnd hsub).perm_of_length_le (by simp [hlen])
  exact hperm.mem_iff.mpr (List.mem_range.mpr hj)

end Clarabel.Perm
