/-
  Helper lemmas for C08 (structural part): sequential index writes.
-/
import ClarabelModel.Update

namespace Clarabel.Update
variable {α : Type}

/-! ### `foldl` of `setIfInBounds` over `(index, value)` pairs -/

theorem foldl_set_size (ps : List (Nat × α)) (a : Array α) :
    (ps.foldl (fun a p => a.setIfInBounds p.1 p.2) a).size = a.size := by
  induction ps generalizing a with
  | nil => rfl
  | cons p rest ih => simp [List.foldl_cons, ih]

theorem foldl_set_get_of_not_mem (ps : List (Nat × α)) (a : Array α) (j : Nat)
    (hj : j ∉ ps.map (·.1)) :
    (ps.foldl (fun a p => a.setIfInBounds p.1 p.2) a)[j]? = a[j]? := by
  induction ps generalizing a with
  | nil => rfl
  | cons p rest ih =>
    simp only [List.map_cons, List.mem_cons, not_or] at hj
    simp only [List.foldl_cons]
    rw [ih _ hj.2, Array.getElem?_setIfInBounds_ne (Ne.symm hj.1)]

theorem foldl_set_get_of_mem (ps : List (Nat × α)) (a : Array α)
    (hnd : (ps.map (·.1)).Nodup) (hb : ∀ p ∈ ps, p.1 < a.size) :
    ∀ p ∈ ps, (ps.foldl (fun a p => a.setIfInBounds p.1 p.2) a)[p.1]? = some p.2 := by
  induction ps generalizing a with
  | nil => intro p hp; cases hp
  | cons p0 rest ih =>
    intro p hp
    simp only [List.map_cons, List.nodup_cons] at hnd
    simp only [List.foldl_cons]
    rcases List.mem_cons.mp hp with h | h
    · subst h
      rw [foldl_set_get_of_not_mem _ _ _ hnd.1]
      have : p.1 < a.size := hb p (List.mem_cons_self ..)
      simp [this]
    · apply ih _ hnd.2 _ p h
      intro q hq
      simpa using hb q (List.mem_cons_of_mem _ hq)

/-- writing, at distinct in-range positions, the values that are already there changes nothing -/
theorem foldl_set_id (ps : List (Nat × α)) (a : Array α)
    (h : ∀ p ∈ ps, a[p.1]? = some p.2) :
    ps.foldl (fun a p => a.setIfInBounds p.1 p.2) a = a := by
  induction ps generalizing a with
  | nil => rfl
  | cons p rest ih =>
    simp only [List.foldl_cons]
    have hp := h p (List.mem_cons_self ..)
    have hset : a.setIfInBounds p.1 p.2 = a := by
      apply Array.ext_getElem?
      intro i
      by_cases hi : p.1 = i
      · subst hi
        have hlt : p.1 < a.size := by
          rcases Nat.lt_or_ge p.1 a.size with h' | h'
          · exact h'
          · rw [Array.getElem?_eq_none h'] at hp; cases hp
        rw [Array.getElem?_eq_getElem hlt] at hp
        simp [hlt]
        exact (Option.some.inj hp).symm
      · rw [Array.getElem?_setIfInBounds_ne hi]
    rw [hset]
    exact ih a (fun q hq => h q (List.mem_cons_of_mem _ hq))

end Clarabel.Update

namespace Clarabel.Update
variable {α : Type}

/-! ### the two value copies -/

theorem updateValuesKKT_size (kkt : Array α) (idx : Array Nat) (vals : Array α) :
    (updateValuesKKT kkt idx vals).size = kkt.size := foldl_set_size _ _

theorem updateValuesKKT_get (kkt : Array α) (idx : Array Nat) (vals : Array α)
    (hsz : idx.size = vals.size) (hnd : idx.toList.Nodup) (hb : ∀ i ∈ idx.toList, i < kkt.size)
    (k : Nat) (hk : k < vals.size) :
    (updateValuesKKT kkt idx vals)[idx.getD k 0]? = vals[k]? := by
  unfold updateValuesKKT
  have hki : k < idx.size := hsz ▸ hk
  have hlen : k < (idx.toList.zip vals.toList).length := by simp [List.length_zip]; omega
  have hmem : (idx[k], vals[k]) ∈ idx.toList.zip vals.toList := by
    have := List.getElem_mem hlen
    simpa [List.getElem_zip] using this
  have hfst : (idx.toList.zip vals.toList).map (·.1) = idx.toList := by
    apply List.map_fst_zip; simp [hsz]
  have := foldl_set_get_of_mem (idx.toList.zip vals.toList) kkt (by rw [hfst]; exact hnd)
    (by
      intro p hp
      have : p.1 ∈ idx.toList := by
        rw [← hfst]; exact List.mem_map_of_mem (f := (·.1)) hp
      exact hb _ this) _ hmem
  simp only at this
  rw [show idx.getD k 0 = idx[k] by simp [Array.getD, hki], this]
  simp [hk]

theorem updateValuesKKT_get_other (kkt : Array α) (idx : Array Nat) (vals : Array α)
    (j : Nat) (hj : j ∉ idx.toList) :
    (updateValuesKKT kkt idx vals)[j]? = kkt[j]? := by
  unfold updateValuesKKT
  apply foldl_set_get_of_not_mem
  intro h
  apply hj
  obtain ⟨p, hp, rfl⟩ := List.mem_map.mp h
  exact (List.of_mem_zip hp).1

theorem ldlUpdateValues_eq (ldl : Array α) (atop idx : Array Nat) (vals : Array α) :
    ldlUpdateValues ldl atop idx vals = updateValuesKKT ldl (idx.map (atop.getD · 0)) vals := by
  unfold ldlUpdateValues updateValuesKKT
  rw [Array.toList_map, List.zip_map_left, List.foldl_map]
  rfl

/-- copying values that are already in place changes nothing -/
theorem updateValuesKKT_id (kkt : Array α) (idx : Array Nat) (vals : Array α)
    (h : ∀ k, k < idx.size → k < vals.size → kkt[idx.getD k 0]? = vals[k]?) :
    updateValuesKKT kkt idx vals = kkt := by
  unfold updateValuesKKT
  apply foldl_set_id
  intro p hp
  obtain ⟨k, hk, hpk⟩ := List.getElem_of_mem hp
  have hk' : k < idx.size ∧ k < vals.size := by
    have : k < min idx.size vals.size := by simpa [List.length_zip] using hk
    omega
  have := h k hk'.1 hk'.2
  rw [List.getElem_zip] at hpk
  subst hpk
  simp only [Array.getElem_toList]
  rw [show idx.getD k 0 = idx[k] by simp [Array.getD, hk'.1]] at this
  rw [this]; simp [hk'.2]

end Clarabel.Update

namespace Clarabel.Update
variable {α : Type}

/-! ### shapes never change -/

theorem applyPairs_size (f : Nat → α → α) (ps : List (Nat × α)) (v : Array α) :
    (applyPairs f ps v).1.size = v.size := by
  induction ps generalizing v with
  | nil => rfl
  | cons p rest ih =>
    obtain ⟨i, x⟩ := p
    unfold applyPairs
    split
    · rfl
    · rw [ih]; simp

section
variable [Mul α] [OfNat α 0]

theorem updateMatrixSlice_shape (data : Array α) (M : Csc α) (l r : Array α) (cs : Option α) :
    let M' := (updateMatrixSlice data M l r cs).1
    M'.m = M.m ∧ M'.n = M.n ∧ M'.colptr = M.colptr ∧ M'.rowval = M.rowval ∧ M'.nzval.size = M.nzval.size := by
  unfold updateMatrixSlice
  split
  · simp
  · split
    · simp
    · rename_i h1 h2
      simp only [Array.size_mapIdx, true_and]
      exact Decidable.of_not_not h2

theorem updateMatrix_shape (arg : MatArg α) (M : Csc α) (l r : Array α) (cs : Option α) :
    let M' := (updateMatrix arg M l r cs).1
    M'.m = M.m ∧ M'.n = M.n ∧ M'.colptr = M.colptr ∧ M'.rowval = M.rowval ∧ M'.nzval.size = M.nzval.size := by
  cases arg with
  | empty0 => simp [updateMatrix]
  | slice v => exact updateMatrixSlice_shape v M l r cs
  | matrix U =>
    simp only [updateMatrix]
    split
    · simp
    · exact updateMatrixSlice_shape U.nzval M l r cs
  | pairs idx vals =>
    simp only [updateMatrix]
    simp [applyPairs_size]

/-- a rejected whole-matrix form leaves the matrix untouched -/
theorem updateMatrix_whole_err (arg : MatArg α) (hw : arg.isWhole = true) (M : Csc α) (l r : Array α)
    (cs : Option α) (e : Csc.FormatError) (h : (updateMatrix arg M l r cs).2 = .error e) :
    (updateMatrix arg M l r cs).1 = M := by
  have hs : ∀ data, (updateMatrixSlice data M l r cs).2 = .error e → (updateMatrixSlice data M l r cs).1 = M := by
    intro data
    unfold updateMatrixSlice
    split
    · intro; rfl
    · split
      · intro; rfl
      · intro h; cases h
  cases arg with
  | empty0 => rfl
  | slice v => exact hs v h
  | matrix U =>
    simp only [updateMatrix] at h ⊢
    split
    · rfl
    · rename_i heq
      rw [heq] at h
      exact hs _ h
  | pairs idx vals => cases hw

/-- a rejected whole-vector form leaves the vector untouched -/
theorem updateVector_whole_err (arg : VecArg α) (hw : arg.isWhole = true) (v vscale : Array α)
    (cs : Option α) (e : Csc.FormatError) (h : (updateVector arg v vscale cs).2 = .error e) :
    (updateVector arg v vscale cs).1 = v := by
  cases arg with
  | empty0 => rfl
  | slice data =>
    simp only [updateVector] at h ⊢
    split
    · rfl
    · split
      · rfl
      · rename_i h1 h2
        simp [h1, h2] at h
  | pairs idx vals => cases hw

theorem updateVector_size (arg : VecArg α) (v vscale : Array α) (cs : Option α) :
    (updateVector arg v vscale cs).1.size = v.size := by
  cases arg with
  | empty0 => rfl
  | slice data =>
    simp only [updateVector]
    split
    · rfl
    · split
      · rfl
      · rename_i h1 h2
        simp only [Array.size_mapIdx]
        exact Decidable.of_not_not h2
  | pairs idx vals => simp [updateVector, applyPairs_size]

/-- empty arguments are accepted and change nothing -/
theorem updateMatrix_empty (M : Csc α) (l r : Array α) (cs : Option α) :
    updateMatrix .empty0 M l r cs = (M, .ok ()) ∧ updateMatrix (.slice #[]) M l r cs = (M, .ok ()) ∧
    updateMatrix (.pairs #[] #[]) M l r cs = (M, .ok ()) := by
  refine ⟨rfl, ?_, ?_⟩
  · simp [updateMatrix, updateMatrixSlice]
  · simp [updateMatrix, applyPairs]

theorem updateVector_empty (v vscale : Array α) (cs : Option α) :
    updateVector .empty0 v vscale cs = (v, .ok ()) ∧ updateVector (.slice #[]) v vscale cs = (v, .ok ()) ∧
    updateVector (.pairs #[] #[]) v vscale cs = (v, .ok ()) := by
  refine ⟨rfl, ?_, ?_⟩
  · simp [updateVector]
  · simp [updateVector, applyPairs]
end

end Clarabel.Update

namespace Clarabel.Update
variable {α : Type}

theorem nodup_map_of_inj_on (l : List Nat) (f : Nat → Nat)
    (hinj : ∀ x ∈ l, ∀ y ∈ l, f x = f y → x = y) (hnd : l.Nodup) : (l.map f).Nodup := by
  induction l with
  | nil => simp
  | cons a t ih =>
    rw [List.nodup_cons] at hnd
    rw [List.map_cons, List.nodup_cons]
    constructor
    · intro hmem
      obtain ⟨y, hy, hfy⟩ := List.mem_map.mp hmem
      have : y = a := hinj y (List.mem_cons_of_mem _ hy) a (List.mem_cons_self ..) hfy
      exact hnd.1 (this ▸ hy)
    · exact ih (fun x hx y hy => hinj x (List.mem_cons_of_mem _ hx) y (List.mem_cons_of_mem _ hy)) hnd.2

theorem getD_eq_getElem (xs : Array Nat) (k : Nat) (h : k < xs.size) : xs.getD k 0 = xs[k] := by
  simp [Array.getD, h]

/-- one block (`idx`) of the KKT matrix is overwritten through its map; the block itself and
its LDL copy then hold the new values, the other block (`other`) and its LDL copy are untouched -/
theorem copy_block (kkt ldl : Array α) (atop idx other : Array Nat) (vals : Array α)
    (hsz : idx.size = vals.size)
    (hndI : idx.toList.Nodup)
    (hdisj : ∀ a ∈ idx.toList, ∀ b ∈ other.toList, a ≠ b)
    (hbI : ∀ i ∈ idx.toList, i < kkt.size) (hbO : ∀ i ∈ other.toList, i < kkt.size)
    (hat : atop.size = kkt.size) (hab : ∀ i ∈ atop.toList, i < ldl.size)
    (hinj : ∀ i j, i < atop.size → j < atop.size → atop.getD i 0 = atop.getD j 0 → i = j) :
    (∀ k, k < vals.size → (updateValuesKKT kkt idx vals)[idx.getD k 0]? = vals[k]?) ∧
    (∀ k, k < other.size → (updateValuesKKT kkt idx vals)[other.getD k 0]? = kkt[other.getD k 0]?) ∧
    (∀ k, k < vals.size → (ldlUpdateValues ldl atop idx vals)[atop.getD (idx.getD k 0) 0]? = vals[k]?) ∧
    (∀ k, k < other.size →
      (ldlUpdateValues ldl atop idx vals)[atop.getD (other.getD k 0) 0]? = ldl[atop.getD (other.getD k 0) 0]?) ∧
    (updateValuesKKT kkt idx vals).size = kkt.size ∧ (ldlUpdateValues ldl atop idx vals).size = ldl.size := by
  refine ⟨?_, ?_, ?_, ?_, updateValuesKKT_size .., ?_⟩
  · exact fun k hk => updateValuesKKT_get kkt idx vals hsz hndI hbI k hk
  · intro k hk
    apply updateValuesKKT_get_other
    intro hmem
    have : other.getD k 0 ∈ other.toList := by
      rw [getD_eq_getElem _ _ hk]; exact Array.getElem_mem_toList hk
    exact hdisj _ hmem _ this rfl
  · intro k hk
    rw [ldlUpdateValues_eq]
    have hki : k < idx.size := hsz ▸ hk
    have h := updateValuesKKT_get ldl (idx.map (atop.getD · 0)) vals (by simpa using hsz)
      (by
        rw [Array.toList_map]
        apply nodup_map_of_inj_on _ _ _ hndI
        intro x hx y hy hxy
        exact hinj x y (hat ▸ hbI x hx) (hat ▸ hbI y hy) hxy)
      (by
        intro i hi
        rw [Array.toList_map] at hi
        obtain ⟨x, hx, rfl⟩ := List.mem_map.mp hi
        have hxa : x < atop.size := hat ▸ hbI x hx
        rw [getD_eq_getElem _ _ hxa]
        exact hab _ (Array.getElem_mem_toList hxa)) k hk
    have e : (idx.map (atop.getD · 0)).getD k 0 = atop.getD (idx.getD k 0) 0 := by
      simp [Array.getD, hki]
    rw [e] at h
    exact h
  · intro k hk
    rw [ldlUpdateValues_eq]
    apply updateValuesKKT_get_other
    intro hmem
    rw [Array.toList_map] at hmem
    obtain ⟨x, hx, hfx⟩ := List.mem_map.mp hmem
    have hmemO : other.getD k 0 ∈ other.toList := by
      rw [getD_eq_getElem _ _ hk]; exact Array.getElem_mem_toList hk
    have : x = other.getD k 0 :=
      hinj x _ (hat ▸ hbI x hx) (hat ▸ hbO _ hmemO) hfx
    exact hdisj x hx _ hmemO this
  · rw [ldlUpdateValues_eq]; exact updateValuesKKT_size ..

end Clarabel.Update

namespace Clarabel.Update
variable {α : Type}

section
variable [Mul α] [Div α] [OfNat α 0] [OfNat α 1] [LT α] [DecidableLT α] [Add α] [Sub α] [FloatLike α]

/-- the invariant pair carried through a history -/
def State.Inv (st : State α) : Prop := st.KktSync ∧ st.MapsOK

theorem mapsOK_parts (st : State α) (hm : st.MapsOK) :
    st.mapP.toList.Nodup ∧ st.mapA.toList.Nodup ∧
    (∀ a ∈ st.mapP.toList, ∀ b ∈ st.mapA.toList, a ≠ b) ∧
    (∀ i ∈ st.mapP.toList, i < st.kkt.size) ∧ (∀ i ∈ st.mapA.toList, i < st.kkt.size) := by
  have := List.nodup_append.mp hm.nodup
  exact ⟨this.1, this.2.1, this.2.2,
    fun i hi => hm.bound i (List.mem_append_left _ hi),
    fun i hi => hm.bound i (List.mem_append_right _ hi)⟩

theorem updateP_inv (st : State α) (hi : st.Inv) (a : MatArg α)
    (h : (updateP st a).2 = .ok () ∨ a.isWhole = true) : (updateP st a).1.Inv := by
  obtain ⟨hs, hm⟩ := hi
  unfold updateP at h ⊢
  cases hg : checkDataUpdateAllowed st with
  | error e => simp only []; exact ⟨hs, hm⟩
  | ok u =>
    simp only [hg] at h ⊢
    have hshape := updateMatrix_shape a st.P st.d st.d (some st.c)
    generalize hres : updateMatrix a st.P st.d st.d (some st.c) = res at h hshape ⊢
    obtain ⟨P', r⟩ := res
    cases r with
    | error e =>
      simp only [] at h ⊢
      rcases h with h | h
      · cases h
      · have := updateMatrix_whole_err a h st.P st.d st.d (some st.c) e (by rw [hres])
        rw [hres] at this
        simp only at this
        subst this
        exact ⟨hs, hm⟩
    | ok u =>
      simp only [] at hshape ⊢
      obtain ⟨hP, hA, hdisj, hbP, hbA⟩ := mapsOK_parts st hm
      have hsz : st.mapP.size = P'.nzval.size := by rw [hm.sizeP, hshape.2.2.2.2]
      obtain ⟨c1, c2, c3, c4, c5, c6⟩ := copy_block st.kkt st.ldl st.atoPAPt st.mapP st.mapA P'.nzval hsz hP hdisj
        hbP hbA hm.atopSize hm.atopBound hm.atopInj
      refine ⟨⟨?_, ?_, ?_, ?_⟩, ⟨?_, ?_, ?_, ?_, ?_, ?_, ?_⟩⟩
      · exact fun k hk => c1 k hk
      · intro k hk
        show (updateValuesKKT st.kkt st.mapP P'.nzval)[st.mapA.getD k 0]? = st.A.nzval[k]?
        rw [c2 k (hm.sizeA ▸ hk)]; exact hs.kktA k hk
      · exact fun k hk _ => c3 k hk
      · intro k hk
        show (ldlUpdateValues st.ldl st.atoPAPt st.mapP P'.nzval)[st.atoPAPt.getD (st.mapA.getD k 0) 0]? = st.A.nzval[k]?
        rw [c4 k (hm.sizeA ▸ hk)]; exact hs.ldlA k hk
      · exact hsz
      · exact hm.sizeA
      · exact hm.nodup
      · intro i hi; show i < (updateValuesKKT st.kkt st.mapP P'.nzval).size; rw [c5]; exact hm.bound i hi
      · show st.atoPAPt.size = (updateValuesKKT st.kkt st.mapP P'.nzval).size; rw [c5]; exact hm.atopSize
      · intro i hi; show i < (ldlUpdateValues st.ldl st.atoPAPt st.mapP P'.nzval).size; rw [c6]; exact hm.atopBound i hi
      · exact hm.atopInj

theorem updateA_inv (st : State α) (hi : st.Inv) (a : MatArg α)
    (h : (updateA st a).2 = .ok () ∨ a.isWhole = true) : (updateA st a).1.Inv := by
  obtain ⟨hs, hm⟩ := hi
  unfold updateA at h ⊢
  cases hg : checkDataUpdateAllowed st with
  | error e => simp only []; exact ⟨hs, hm⟩
  | ok u =>
    simp only [hg] at h ⊢
    have hshape := updateMatrix_shape a st.A st.e st.d none
    generalize hres : updateMatrix a st.A st.e st.d none = res at h hshape ⊢
    obtain ⟨A', r⟩ := res
    cases r with
    | error e =>
      simp only [] at h ⊢
      rcases h with h | h
      · cases h
      · have := updateMatrix_whole_err a h st.A st.e st.d none e (by rw [hres])
        rw [hres] at this
        simp only at this
        subst this
        exact ⟨hs, hm⟩
    | ok u =>
      simp only [] at hshape ⊢
      obtain ⟨hP, hA, hdisj, hbP, hbA⟩ := mapsOK_parts st hm
      have hsz : st.mapA.size = A'.nzval.size := by rw [hm.sizeA, hshape.2.2.2.2]
      obtain ⟨c1, c2, c3, c4, c5, c6⟩ := copy_block st.kkt st.ldl st.atoPAPt st.mapA st.mapP A'.nzval hsz hA
        (fun a ha b hb => (hdisj b hb a ha).symm) hbA hbP hm.atopSize hm.atopBound hm.atopInj
      refine ⟨⟨?_, ?_, ?_, ?_⟩, ⟨?_, ?_, ?_, ?_, ?_, ?_, ?_⟩⟩
      · intro k hk
        show (updateValuesKKT st.kkt st.mapA A'.nzval)[st.mapP.getD k 0]? = st.P.nzval[k]?
        rw [c2 k (hm.sizeP ▸ hk)]; exact hs.kktP k hk
      · exact fun k hk => c1 k hk
      · intro k hk hd
        show (ldlUpdateValues st.ldl st.atoPAPt st.mapA A'.nzval)[st.atoPAPt.getD (st.mapP.getD k 0) 0]? = st.P.nzval[k]?
        rw [c4 k (hm.sizeP ▸ hk)]; exact hs.ldlP k hk hd
      · exact fun k hk => c3 k hk
      · exact hm.sizeP
      · exact hsz
      · exact hm.nodup
      · intro i hi; show i < (updateValuesKKT st.kkt st.mapA A'.nzval).size; rw [c5]; exact hm.bound i hi
      · show st.atoPAPt.size = (updateValuesKKT st.kkt st.mapA A'.nzval).size; rw [c5]; exact hm.atopSize
      · intro i hi; show i < (ldlUpdateValues st.ldl st.atoPAPt st.mapA A'.nzval).size; rw [c6]; exact hm.atopBound i hi
      · exact hm.atopInj

/-- `update_q` / `update_b` do not touch matrices, maps or the KKT copies -/
theorem updateQ_inv (st : State α) (hi : st.Inv) (a : VecArg α) : (updateQ st a).1.Inv := by
  obtain ⟨hs, hm⟩ := hi
  unfold updateQ
  cases hg : checkDataUpdateAllowed st with
  | error e => exact ⟨hs, hm⟩
  | ok u =>
    simp only []
    generalize updateVector a st.q st.d (some st.c) = res
    obtain ⟨q', r⟩ := res
    cases r <;> exact ⟨⟨hs.kktP, hs.kktA, hs.ldlP, hs.ldlA⟩, ⟨hm.sizeP, hm.sizeA, hm.nodup, hm.bound, hm.atopSize, hm.atopBound, hm.atopInj⟩⟩

theorem updateB_inv (st : State α) (hi : st.Inv) (a : VecArg α) : (updateB st a).1.Inv := by
  obtain ⟨hs, hm⟩ := hi
  unfold updateB
  cases hg : checkDataUpdateAllowed st with
  | error e => exact ⟨hs, hm⟩
  | ok u =>
    simp only []
    generalize updateVector a st.b st.e none = res
    obtain ⟨b', r⟩ := res
    cases r <;> exact ⟨⟨hs.kktP, hs.kktA, hs.ldlP, hs.ldlA⟩, ⟨hm.sizeP, hm.sizeA, hm.nodup, hm.bound, hm.atopSize, hm.atopBound, hm.atopInj⟩⟩

end
end Clarabel.Update

namespace Clarabel.Update
variable {α : Type}
section
variable [Mul α] [Div α] [OfNat α 0] [OfNat α 1] [LT α] [DecidableLT α] [Add α] [Sub α] [FloatLike α]

theorem updateData_inv (st : State α) (hi : st.Inv) (p : MatArg α) (q : VecArg α) (a : MatArg α) (b : VecArg α)
    (h : (updateData st p q a b).2 = .ok () ∨ (p.isWhole = true ∧ a.isWhole = true)) :
    (updateData st p q a b).1.Inv := by
  unfold updateData at h ⊢
  have i1 := updateP_inv st hi p
  rcases hr1 : updateP st p with ⟨s1, r1⟩
  rw [hr1] at i1 h
  cases r1 with
  | error e =>
    simp only [] at h ⊢
    apply i1
    rcases h with h | h
    · cases h
    · exact Or.inr h.1
  | ok u =>
    simp only [] at h ⊢ i1
    have hi1 : s1.Inv := i1 (Or.inl trivial)
    have hi2 := updateQ_inv s1 hi1 q
    rcases hr2 : updateQ s1 q with ⟨s2, r2⟩
    rw [hr2] at hi2 h
    cases r2 with
    | error e => exact hi2
    | ok u =>
      simp only [] at h ⊢ hi2
      have i3 := updateA_inv s2 hi2 a
      rcases hr3 : updateA s2 a with ⟨s3, r3⟩
      rw [hr3] at i3 h
      cases r3 with
      | error e =>
        simp only [] at h ⊢
        apply i3
        rcases h with h | h
        · cases h
        · exact Or.inr h.2
      | ok u =>
        simp only [] at h ⊢ i3
        exact updateB_inv s3 (i3 (Or.inl trivial)) b

end
end Clarabel.Update

namespace Clarabel.Update
variable {α : Type}

/-- "exactly the earlier pairs": the pair loop applies the pairs before the first
out-of-range index and reports whether there was none -/
theorem applyPairs_eq_takeWhile (f : Nat → α → α) (ps : List (Nat × α)) (v : Array α) :
    applyPairs f ps v =
      ((ps.takeWhile (fun p => decide (p.1 < v.size))).foldl (fun a p => a.setIfInBounds p.1 (f p.1 p.2)) v,
       ps.all (fun p => decide (p.1 < v.size))) := by
  induction ps generalizing v with
  | nil => rfl
  | cons p rest ih =>
    obtain ⟨i, x⟩ := p
    unfold applyPairs
    by_cases h : v.size ≤ i
    · have : ¬ i < v.size := by omega
      simp [h, this]
    · have h' : i < v.size := by omega
      simp only [h, if_false, List.takeWhile_cons, h', decide_true, if_true, List.foldl_cons, List.all_cons,
        Bool.true_and]
      rw [ih]
      simp

section
variable [Mul α] [Div α] [OfNat α 0] [OfNat α 1] [LT α] [DecidableLT α] [Add α] [Sub α] [FloatLike α]

/-- a predicate preserved by the four single updates (under the side condition
"accepted or whole-form") is preserved by `update_data` -/
theorem updateData_preserves (I : State α → Prop)
    (hP : ∀ st a, I st → ((updateP st a).2 = .ok () ∨ a.isWhole = true) → I (updateP st a).1)
    (hQ : ∀ st a, I st → ((updateQ st a).2 = .ok () ∨ a.isWhole = true) → I (updateQ st a).1)
    (hA : ∀ st a, I st → ((updateA st a).2 = .ok () ∨ a.isWhole = true) → I (updateA st a).1)
    (hB : ∀ st a, I st → ((updateB st a).2 = .ok () ∨ a.isWhole = true) → I (updateB st a).1)
    (st : State α) (hi : I st) (p : MatArg α) (q : VecArg α) (a : MatArg α) (b : VecArg α)
    (h : (updateData st p q a b).2 = .ok () ∨
      (p.isWhole = true ∧ q.isWhole = true ∧ a.isWhole = true ∧ b.isWhole = true)) :
    I (updateData st p q a b).1 := by
  unfold updateData at h ⊢
  have i1 := hP st p hi
  rcases hr1 : updateP st p with ⟨s1, r1⟩
  rw [hr1] at i1 h
  cases r1 with
  | error e =>
    simp only [] at h ⊢
    apply i1
    rcases h with h | h
    · cases h
    · exact Or.inr h.1
  | ok u =>
    simp only [] at h ⊢ i1
    have hi1 : I s1 := i1 (Or.inl trivial)
    have i2 := hQ s1 q hi1
    rcases hr2 : updateQ s1 q with ⟨s2, r2⟩
    rw [hr2] at i2 h
    cases r2 with
    | error e =>
      simp only [] at h ⊢
      apply i2
      rcases h with h | h
      · cases h
      · exact Or.inr h.2.1
    | ok u =>
      simp only [] at h ⊢ i2
      have hi2 : I s2 := i2 (Or.inl trivial)
      have i3 := hA s2 a hi2
      rcases hr3 : updateA s2 a with ⟨s3, r3⟩
      rw [hr3] at i3 h
      cases r3 with
      | error e =>
        simp only [] at h ⊢
        apply i3
        rcases h with h | h
        · cases h
        · exact Or.inr h.2.2.1
      | ok u =>
        simp only [] at h ⊢ i3
        apply hB s3 b (i3 (Or.inl trivial))
        rcases h with h | h
        · exact Or.inl h
        · exact Or.inr h.2.2.2

/-! ### norm caches -/

theorem updateP_norm (st : State α) (a : MatArg α) (h : st.NormCacheOK) : (updateP st a).1.NormCacheOK := by
  unfold updateP
  cases checkDataUpdateAllowed st with
  | error e => exact h
  | ok u =>
    simp only []
    generalize updateMatrix a st.P st.d st.d (some st.c) = res
    obtain ⟨P', r⟩ := res
    cases r <;> exact h

theorem updateA_norm (st : State α) (a : MatArg α) (h : st.NormCacheOK) : (updateA st a).1.NormCacheOK := by
  unfold updateA
  cases checkDataUpdateAllowed st with
  | error e => exact h
  | ok u =>
    simp only []
    generalize updateMatrix a st.A st.e st.d none = res
    obtain ⟨A', r⟩ := res
    cases r <;> exact h

theorem updateQ_norm (st : State α) (a : VecArg α) (h : st.NormCacheOK)
    (hc : (updateQ st a).2 = .ok () ∨ a.isWhole = true) : (updateQ st a).1.NormCacheOK := by
  unfold updateQ at hc ⊢
  cases hg : checkDataUpdateAllowed st with
  | error e => exact h
  | ok u =>
    simp only [hg] at hc ⊢
    generalize hres : updateVector a st.q st.d (some st.c) = res at hc
    obtain ⟨q', r⟩ := res
    cases r with
    | error e =>
      simp only [] at hc ⊢
      rcases hc with hc | hc
      · cases hc
      · have := updateVector_whole_err a hc st.q st.d (some st.c) e (by rw [hres])
        rw [hres] at this
        simp only at this
        subst this
        exact h
    | ok u => exact ⟨Or.inl rfl, h.2⟩

theorem updateB_norm (st : State α) (a : VecArg α) (h : st.NormCacheOK)
    (hc : (updateB st a).2 = .ok () ∨ a.isWhole = true) : (updateB st a).1.NormCacheOK := by
  unfold updateB at hc ⊢
  cases hg : checkDataUpdateAllowed st with
  | error e => exact h
  | ok u =>
    simp only [hg] at hc ⊢
    generalize hres : updateVector a st.b st.e none = res at hc
    obtain ⟨b', r⟩ := res
    cases r with
    | error e =>
      simp only [] at hc ⊢
      rcases hc with hc | hc
      · cases hc
      · have := updateVector_whole_err a hc st.b st.e none e (by rw [hres])
        rw [hres] at this
        simp only at this
        subst this
        exact h
    | ok u => exact ⟨h.1, Or.inl rfl⟩

theorem fillNorms_norm (st : State α) (h : st.NormCacheOK) :
    (fillNorms st).normq = some (freshNormq st) ∧ (fillNorms st).normb = some (freshNormb st) := by
  unfold fillNorms getNormq getNormb
  constructor
  · rcases h.1 with h1 | h1 <;> simp [h1, freshNormq]
  · rcases h.2 with h2 | h2 <;> simp [h2, freshNormb]

end
end Clarabel.Update
