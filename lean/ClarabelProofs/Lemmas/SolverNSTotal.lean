/-
  C04 ∘ (C01, C02, C03) on the whole-solver model WITH NONSYMMETRIC CONES: TOTALITY of a run, in the
  form the `ns_full_*` certificate theorems consume.

  * `ConeT.modelledN`  : the cone kinds of the NS model (everything but the PSD cone).
  * `makeCones_okN`, `internalData_okN`, `solverNew_okN` : `DefaultSolver::new` is TOTAL (returns a
                         solver object satisfying `SolverInvN`) on well-formed input without PSD cone
                         (C04 only states `NoPanic`: it may answer `.err` for a PSD cone).
  * `UserSite cones`   : the two numerical-domain sites, each with the cone kind the USER's list must
                         contain for it to be reachable.
  * `run_totalN`       : `new` returns `S`, and `S.solve st` returns `.ok` or stops at a `UserSite`.
  * `run_totalN_symmetric` : no nonsymmetric cone ⇒ `solve()` returns.
  [S] (any scalar type); `run_totalN_real*` over `ℝ` with `FmaxOK` discharged.
-/
import ClarabelProofs.Lemmas.SolverNSNoPanicFinal
import ClarabelProofs.Lemmas.SolverTotal
import ClarabelProofs.Lemmas.SolverNSFullExample

namespace Clarabel.SolverNS
open Clarabel Info Residuals
open Clarabel.Solver (NoPanic OkAnd FmaxOK DataOK PivotOK bind_ok_of bind_ok_inv)

set_option linter.unusedSectionVars false
set_option linter.unusedVariables false

section
variable {α : Type} [Add α] [Sub α] [Mul α] [Div α] [Neg α] [LT α] [LE α] [DecidableLT α] [DecidableLE α]
  [BEq α] [OfNat α 0] [OfNat α 1] [OfNat α 2] [OfNat α 3] [OfNat α 4] [OfNat α 100] [OfNat α 1000]
  [OfScientific α] [FloatLike α]

/-- the cone kinds of the model with nonsymmetric cones: everything but the PSD cone -/
def ConeT.modelledN : ConeT α → Prop
  | .psd _ => False
  | _ => True

theorem modelledN_of_isNonneg {c : ConeT α} (h : c.isNonneg = true) : ConeT.modelledN c := by
  cases c <;> trivial

theorem OkOr.mono_ok {β : Type} {E : String → Prop} {x : MErr β} {P Q : β → Prop} (hx : OkOr E x P)
    (h : ∀ b, x = .ok b → P b → Q b) : OkOr E x Q := by
  cases x with
  | error e =>
    cases e with
    | panic s => exact hx
    | err k => exact hx.elim
  | ok a => exact h a rfl hx

/-- `make_cone` is total on the cone kinds of the NS model, with second-order cones of dimension
`≥ 2` and generalised power cones passing their construction guard -/
theorem makeCones_okN (ts : List (ConeT α)) (hm : ∀ c ∈ ts, ConeT.modelledN c)
    (h : ∀ d, ConeT.soc d ∈ ts → 2 ≤ d)
    (hg : ∀ al d2, ConeT.genpow al d2 ∈ ts → ∃ ψ, GenPow.new al = .ok ψ) :
    ∃ K, makeCones ts = .ok K := by
  induction ts with
  | nil => exact ⟨[], rfl⟩
  | cons t ts ih =>
    obtain ⟨K, hK⟩ := ih (fun c hc => hm c (List.mem_cons_of_mem _ hc))
      (fun d hd => h d (List.mem_cons_of_mem _ hd)) (fun al d2 hd => hg al d2 (List.mem_cons_of_mem _ hd))
    have ht : ∃ c, makeCone t = .ok c := by
      have hmt := hm t (List.mem_cons_self ..)
      cases t with
      | zero n => exact ⟨_, rfl⟩
      | nonneg n => exact ⟨_, rfl⟩
      | soc n =>
        have hn := h n (List.mem_cons_self ..)
        have hs : ∃ K, Soc.new (α := α) n = .ok K := by
          unfold Soc.new
          rw [if_neg (by omega)]
          exact ⟨_, rfl⟩
        obtain ⟨K, hK⟩ := hs
        refine ⟨.sym (.soc K), ?_⟩
        show ((Soc.new n >>= fun K => pure (Solver.ConeSt.soc K)) >>= fun c => pure (ConeSt.sym c)) = _
        rw [bind_ok_of hK]
        rfl
      | exp => exact ⟨_, rfl⟩
      | pow a => exact ⟨_, rfl⟩
      | genpow al d2 =>
        obtain ⟨ψ, hψ⟩ := hg al d2 (List.mem_cons_self ..)
        refine ⟨.genpow al d2 ψ (GenPow.State.init al.size d2), ?_⟩
        show (GenPow.new al >>= fun ψ =>
          (pure (ConeSt.genpow al d2 ψ (GenPow.State.init al.size d2)) : MErr (ConeSt α))) = _
        rw [bind_ok_of hψ]
        rfl
      | psd n => exact absurd hmt id
    obtain ⟨c, hc⟩ := ht
    refine ⟨c :: K, ?_⟩
    unfold makeCones at hK ⊢
    simp only [List.mapM_cons]
    rw [bind_ok_of hc, bind_ok_of hK]
    rfl

/-- [S] **`internalData` is total** on well-formed input without PSD cone -/
theorem internalData_okN {P : Csc α} {q : Array α} {A : Csc α} {b : Array α} {cones : List (ConeT α)}
    {st : Settings α} (h : InputOKN P q A b cones) (hm : ∀ c ∈ cones, ConeT.modelledN c) :
    ∃ d, internalData P q A b cones st = .ok d := by
  obtain ⟨d0, hd0, hpre⟩ := Solver.problemDataNew_spec h.base st.presolveEnable st.infbound
  have hm0 : ∀ c ∈ d0.cones, ConeT.modelledN c := fun c hc =>
    (Solver.problemDataNew_cones hd0 c hc).elim modelledN_of_isNonneg (hm c)
  obtain ⟨K, hK⟩ := makeCones_okN d0.cones hm0 (Solver.soc_ge_two_of_normal hpre.normal)
    (genpow_guard_internal h.genpow hd0)
  have hnum : numelAll K = d0.m := by rw [makeCones_numelN hK, hpre.numel]
  obtain ⟨d, hd⟩ := Solver.equilibrate_ok hpre.data d0.cones st.equil hpre.numel
  refine ⟨d, ?_⟩
  unfold internalData
  rw [bind_ok_of hd0, bind_ok_of hK, if_neg (by simp [hnum])]
  exact hd

/-- [S] **`DefaultSolver::new` is total** (model with nonsymmetric cones, QDLDL backend) on
well-formed input without PSD cone: it returns a solver object, which satisfies the invariant of
`solve()`. -/
theorem solverNew_okN {P : Csc α} {q : Array α} {A : Csc α} {b : Array α}
    {cones : List (ConeT α)} {st : Settings α} {perm : Array Nat} (hin : InputOKN P q A b cones)
    (hm : ∀ c ∈ cones, ConeT.modelledN c)
    (hn : 0 < P.n) (hperm : PermForN P q A b cones st perm) (hpiv : PivotOK st.lin) :
    ∃ S, Solver.new P q A b cones st perm = .ok S ∧ SolverInvN S := by
  obtain ⟨d, hd⟩ := internalData_okN (st := st) hin hm
  obtain ⟨hdok, hdn, K, hK, hnum⟩ := internalData_dataOKN hin hd
  have hdn' : d.n = P.n := hdn.trans hin.base.A_n
  obtain ⟨Ks, hKs, _⟩ := kktSolverNew_okN (st := st.lin) hdok (makeCones_fullN hK) hnum
    (hperm d K hd hK) (by omega) hpiv
  have hnew : ∃ S, Solver.new P q A b cones st perm = .ok S := by
    unfold Solver.new
    rw [bind_ok_of (Solver.checkDimensions_ok hin.base)]
    unfold SolverSt.new
    rw [bind_ok_of hd, bind_ok_of hK]
    unfold kktSysNew
    dsimp only
    rw [bind_ok_of hKs]
    exact ⟨_, rfl⟩
  obtain ⟨S, hS⟩ := hnew
  exact ⟨S, hS, solverNew_invQ hin hn hperm hpiv hS⟩

/-- the two numerical-domain sites of the NS model, each with the cone kind the USER's cone list must
contain for the site to be reachable: `_wright_omega`'s range check needs an exponential cone,
`backtrack_search`'s fuel a nonsymmetric cone -/
def UserSite (cones : List (ConeT α)) (site : String) : Prop :=
  (site = "argument not in supported range" ∧ userHasExp cones)
    ∨ (site = "backtrack_search: fuel" ∧ userHasNonsym cones)

theorem UserSite.numSite {cones : List (ConeT α)} {s : String} (h : UserSite cones s) : NumSite s :=
  h.elim (fun h => Or.inl h.1) (fun h => Or.inr h.1)

/-- [S] **a run of the model with nonsymmetric cones**: `new` returns a solver object, and its
`solve()` returns `.ok`, or stops at one of the two numerical-domain sites (and then the user's cone
list contains the cone kind that site needs).  Nothing else: no `.err`, no other `.panic`. -/
theorem run_totalN {P : Csc α} {q : Array α} {A : Csc α} {b : Array α}
    {cones : List (ConeT α)} {st : Settings α} {perm : Array Nat} (hin : InputOKN P q A b cones)
    (hm : ∀ c ∈ cones, ConeT.modelledN c)
    (hn : 0 < P.n) (hperm : PermForN P q A b cones st perm) (hpiv : PivotOK st.lin) (hf : FmaxOK α) :
    ∃ S, Solver.new P q A b cones st perm = .ok S ∧ SolverInvN S
      ∧ OkOr (UserSite cones) (S.solve st) (fun r => SolverInvN r.S) := by
  obtain ⟨S, hS, hI⟩ := solverNew_okN hin hm hn hperm hpiv
  have hk := new_cone_kinds hS
  refine ⟨S, hS, hI, (solve_okOrFor hf st hI).mono_site fun s hs => ?_⟩
  rcases hs with h1 | h2
  · exact Or.inl ⟨h1.1, hk.1 h1.2⟩
  · exact Or.inr ⟨h2.1, hk.2 h2.2⟩

/-- [S] with symmetric cones only, the run through the NS model is total -/
theorem run_totalN_symmetric {P : Csc α} {q : Array α} {A : Csc α} {b : Array α}
    {cones : List (ConeT α)} {st : Settings α} {perm : Array Nat} (hin : InputOKN P q A b cones)
    (hm : ∀ c ∈ cones, ConeT.modelledN c)
    (hn : 0 < P.n) (hperm : PermForN P q A b cones st perm) (hpiv : PivotOK st.lin) (hf : FmaxOK α)
    (hsym : ¬ userHasNonsym cones) :
    ∃ S r, Solver.new P q A b cones st perm = .ok S ∧ S.solve st = .ok r
      ∧ SolverInvN S ∧ SolverInvN r.S := by
  obtain ⟨S, hS, hI⟩ := solverNew_okN hin hm hn hperm hpiv
  obtain ⟨r, hr, hI'⟩ := solve_ok_symmetric hf st hI (fun hns => hsym ((new_cone_kinds hS).2 hns))
  exact ⟨S, r, hS, hr, hI, hI'⟩

end

/-- [R] `run_totalN` over `ℝ` (`FmaxOK ℝ` is a theorem) -/
theorem run_totalN_real {P : Csc ℝ} {q : Array ℝ} {A : Csc ℝ} {b : Array ℝ}
    {cones : List (ConeT ℝ)} {st : Settings ℝ} {perm : Array Nat} (hin : InputOKN P q A b cones)
    (hm : ∀ c ∈ cones, ConeT.modelledN c)
    (hn : 0 < P.n) (hperm : PermForN P q A b cones st perm) (hpiv : PivotOK st.lin) :
    ∃ S, Solver.new P q A b cones st perm = .ok S
      ∧ OkOr (UserSite cones) (S.solve st) (fun _ => True) := by
  obtain ⟨S, hS, _, h⟩ := run_totalN hin hm hn hperm hpiv Solver.fmaxOK_real
  exact ⟨S, hS, h.mono fun _ _ => trivial⟩

/-- [R] `run_totalN_symmetric` over `ℝ` -/
theorem run_totalN_symmetric_real {P : Csc ℝ} {q : Array ℝ} {A : Csc ℝ} {b : Array ℝ}
    {cones : List (ConeT ℝ)} {st : Settings ℝ} {perm : Array Nat} (hin : InputOKN P q A b cones)
    (hm : ∀ c ∈ cones, ConeT.modelledN c)
    (hn : 0 < P.n) (hperm : PermForN P q A b cones st perm) (hpiv : PivotOK st.lin)
    (hsym : ¬ userHasNonsym cones) :
    ∃ S r, Solver.new P q A b cones st perm = .ok S ∧ S.solve st = .ok r :=
  let ⟨S, r, h1, h2, _⟩ := run_totalN_symmetric hin hm hn hperm hpiv Solver.fmaxOK_real hsym
  ⟨S, r, h1, h2⟩

/-! ### non-vacuity over `ℝ`: the instance with an exponential and a power cone of
`Lemmas/SolverNSFullExample.lean` -/
namespace FullExample

theorem modelledN : ∀ c ∈ cones, ConeT.modelledN c := by
  intro c hc
  simp only [cones, List.mem_cons, List.not_mem_nil, or_false] at hc
  rcases hc with rfl | rfl | rfl <;> trivial

/-- `PermForN` holds over `ℝ` on the instance with the identity ordering of its 8×8 KKT matrix, for
every settings record with presolve off -/
theorem permForN (st : Settings ℝ) (hpe : st.presolveEnable = false) :
    PermForN P q A b cones st #[0, 1, 2, 3, 4, 5, 6, 7] := by
  intro d K hd hK
  unfold internalData at hd
  obtain ⟨d0, hd0, hd⟩ := bind_ok_inv hd
  obtain ⟨K0, hK0, hd⟩ := bind_ok_inv hd
  split at hd
  · cases hd
  rw [hpe] at hd0
  obtain ⟨_, _, _, hc, hn, hm, _, _⟩ := Solver.problemDataNew_off hd0
  obtain ⟨e1, e2, e3⟩ := Solver.equilibrate_dim hd
  rw [e1, hc] at hK
  have hcol : Cones.newCollapsed cones = cones := rfl
  rw [hcol] at hK
  cases hK
  refine ⟨⟨by decide, by decide⟩, ?_⟩
  rw [e3, e2, hn, hm]
  rfl

/-- the default regularisation parameters never leave a zero pivot over `ℝ` -/
theorem stR_pivotOK : PivotOK stR.lin :=
  Solver.pivotOK_real (by show (0 : ℝ) < 1 / 10000000000000; norm_num)
    (by show (2 / 10000000 : ℝ) ≠ 0; norm_num)

/-- **every hypothesis of `run_totalN` is satisfiable over `ℝ`** (a problem WITH an exponential and a
power cone, default settings): `new` returns a solver object, and `solve()` returns or stops at a
numerical-domain site -/
theorem run_ok : ∃ S, Solver.new P q A b cones stR #[0, 1, 2, 3, 4, 5, 6, 7] = .ok S
    ∧ OkOr (UserSite cones) (S.solve stR) (fun _ => True) :=
  run_totalN_real inputOKN modelledN (by decide) (permForN stR rfl) stR_pivotOK

/-! the symmetric instance `min x s.t. x + s = 1, s ≥ 0` run through the NS model -/

theorem symInputOKN : InputOKN Solver.FullExample.P #[1] Solver.FullExample.A #[1]
    ([.nonneg 1] : List (ConeT ℝ)) := by
  refine ⟨Solver.FullExample.inputOK, ?_⟩
  intro al d2 hm
  simp at hm

theorem symModelledN : ∀ c ∈ ([.nonneg 1] : List (ConeT ℝ)), ConeT.modelledN c := by
  intro c hc
  simp only [List.mem_cons, List.not_mem_nil, or_false] at hc
  subst hc
  trivial

theorem symNotNonsym : ¬ userHasNonsym ([.nonneg 1] : List (ConeT ℝ)) := by
  rintro ⟨c, hc, h⟩
  simp only [List.mem_cons, List.not_mem_nil, or_false] at hc
  subst hc
  rcases h with h | ⟨a, h⟩ | ⟨al, d2, h⟩ <;> cases h

theorem symPermForN (st : Settings ℝ) (hpe : st.presolveEnable = false) :
    PermForN Solver.FullExample.P #[1] Solver.FullExample.A #[1] ([.nonneg 1] : List (ConeT ℝ)) st
      #[0, 1] := by
  intro d K hd hK
  unfold internalData at hd
  obtain ⟨d0, hd0, hd⟩ := bind_ok_inv hd
  obtain ⟨K0, hK0, hd⟩ := bind_ok_inv hd
  split at hd
  · cases hd
  rw [hpe] at hd0
  obtain ⟨_, _, _, hc, hn, hm, _, _⟩ := Solver.problemDataNew_off hd0
  obtain ⟨e1, e2, e3⟩ := Solver.equilibrate_dim hd
  rw [e1, hc] at hK
  have hcol : Cones.newCollapsed ([.nonneg 1] : List (ConeT ℝ)) = [.nonneg 1] := rfl
  rw [hcol] at hK
  cases hK
  refine ⟨⟨by decide, by decide⟩, ?_⟩
  rw [e3, e2, hn, hm]
  rfl

/-- every hypothesis of `run_totalN_symmetric` is satisfiable over `ℝ` -/
theorem sym_run_ok : ∃ S r, Solver.new Solver.FullExample.P #[1] Solver.FullExample.A #[1]
      ([.nonneg 1] : List (ConeT ℝ)) stR #[0, 1] = .ok S ∧ S.solve stR = .ok r :=
  run_totalN_symmetric_real symInputOKN symModelledN (by decide) (symPermForN stR rfl) stR_pivotOK
    symNotNonsym

end FullExample

end Clarabel.SolverNS
