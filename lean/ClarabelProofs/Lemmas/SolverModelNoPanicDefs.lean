/-
  Panic-freedom of the whole-solver model (C04) — definitions shared by the stage files
  `SolverModelNoPanic*.lean`.

  * `NoPanic r`           : `r` is not `.error (.panic _)`.
  * `FmaxOK α`            : the one law of the scalar type the vector stages need
                            (`max(0, r) < 0` never holds; true for `f64::max`, also with NaN).
  * `ConeFull / ConesFull`: every constituent cone object is sized as `make_cone` builds it.
  * `DataOK d`            : the internal problem data is well formed.
  * `Shapes KI S`         : the loop invariant of `solve()`; `KI` is the invariant of the linear
                            solver object (instantiated by `SolverModelNoPanicKkt.lean`).
  * `KktTotal KI …`       : what the loop needs from the linear solver object (same interface
                            style as `KktSim` of C05): `update` and `setrhs; solve` are total on
                            `KI` and keep it.

  All structural ([S]).
-/
import ClarabelModel.Solver.Solve
import ClarabelProofs.Lemmas.SolverModelLoop
import ClarabelProofs.Lemmas.SolverStaleFrame
import ClarabelProofs.Lemmas.CscBasic

namespace Clarabel.Solver
open Clarabel Info Residuals

set_option linter.unusedSectionVars false
set_option linter.unusedVariables false

variable {α : Type}

/-- `r` is not a (model of a) Rust panic -/
def NoPanic {β : Type} (r : MErr β) : Prop := ∀ s, r ≠ .error (.panic s)

theorem NoPanic.ok {β : Type} (v : β) : NoPanic (Except.ok v : MErr β) := fun _ h => by cases h

theorem NoPanic.of_ok {β : Type} {r : MErr β} {v : β} (h : r = .ok v) : NoPanic r := h ▸ NoPanic.ok v

theorem NoPanic.err {β : Type} (k : String) : NoPanic (Except.error (.err k) : MErr β) :=
  fun _ h => by cases h

theorem NoPanic.of_exists {β : Type} {r : MErr β} (h : ∃ v, r = .ok v) : NoPanic r :=
  let ⟨_, hv⟩ := h; NoPanic.of_ok hv

/-- `x >>= f` does not panic when `x` does not and `f` does not on the value of `x` -/
theorem NoPanic.bind {β γ : Type} {x : MErr β} {f : β → MErr γ} (hx : NoPanic x)
    (hf : ∀ a, x = .ok a → NoPanic (f a)) : NoPanic (x >>= f) := by
  cases x with
  | error e =>
    intro s h
    change Except.error e = _ at h
    cases h
    exact hx s rfl
  | ok a => exact hf a rfl

theorem bind_ok_of {β γ : Type} {x : MErr β} {f : β → MErr γ} {a : β} (h : x = .ok a) :
    (x >>= f) = f a := by subst h; rfl

/-- the only law of the scalar type the cone stage needs: `_step_length_soc_component` panics
("starting point of line search not in SOC") when `max(0, res) < 0` -/
def FmaxOK (α : Type) [OfNat α 0] [LT α] [FloatLike α] : Prop := ∀ r : α, ¬ (fmax (0 : α) r < 0)

/-- `DefaultVariables` of the problem's dimensions -/
structure VarsSized (n m : Nat) (v : Vars α) : Prop where
  x : v.x.size = n
  s : v.s.size = m
  z : v.z.size = m

theorem VarsSized.of_shape {n m : Nat} {v v' : Vars α} (h : VarsSized n m v) (hs : VarsShape v v') :
    VarsSized n m v' := ⟨hs.x ▸ h.x, hs.s ▸ h.s, hs.z ▸ h.z⟩

/-- `DefaultResiduals` of the problem's dimensions -/
structure ResidSized (n m : Nat) (r : Resid α) : Prop where
  rx : r.rx.size = n
  rz : r.rz.size = m
  rx_inf : r.rx_inf.size = n
  rz_inf : r.rz_inf.size = m
  Px : r.Px.size = n

/-- a constituent cone object sized as `make_cone` builds it (and as `update_scaling` /
`set_identity_scaling` leave it) -/
def ConeFull : ConeSt α → Prop
  | .zero _ => True
  | .nonneg K => K.lam.size = K.w.size
  | .soc K => 2 ≤ K.dim ∧ K.w.size = K.dim ∧ K.lam.size = K.dim ∧
      (K.sparse.isSome = decide (K.dim > Soc.noExpansionMaxSize)) ∧
      ∀ sp, K.sparse = some sp → sp.u.size = K.dim ∧ sp.v.size = K.dim

def ConesFull (cs : List (ConeSt α)) : Prop := ∀ c ∈ cs, ConeFull c

theorem ConeFull.ok {c : ConeSt α} (h : ConeFull c) : ConeOk c := by
  cases c with
  | zero d => trivial
  | nonneg K => trivial
  | soc K => exact ⟨h.2.1, h.2.2.2.2⟩

theorem ConesFull.ok {cs : List (ConeSt α)} (h : ConesFull cs) : ConesOk cs := fun c hc => (h c hc).ok

theorem ConesFull.tail {c : ConeSt α} {cs : List (ConeSt α)} (h : ConesFull (c :: cs)) : ConesFull cs :=
  fun c' hc' => h c' (List.mem_cons_of_mem _ hc')

theorem ConesFull.head {c : ConeSt α} {cs : List (ConeSt α)} (h : ConesFull (c :: cs)) : ConeFull c :=
  h c (List.mem_cons_self ..)

theorem numelAll_cons (c : ConeSt α) (cs : List (ConeSt α)) :
    numelAll (c :: cs) = c.numel + numelAll cs := by
  unfold numelAll
  simp only [List.map_cons, List.foldl_cons, Nat.zero_add]
  generalize cs.map ConeSt.numel = l
  have : ∀ (l : List Nat) (a : Nat), l.foldl (· + ·) a = a + l.foldl (· + ·) 0 := by
    intro l
    induction l with
    | nil => intro a; rfl
    | cons b t ih => intro a; simp only [List.foldl_cons, Nat.zero_add]; rw [ih (a + b), ih b]; omega
  exact this l _

section
variable [Add α] [Sub α] [Mul α] [Div α] [Neg α] [OfNat α 0] [OfNat α 1] [OfNat α 2]
  [OfNat α 100] [OfNat α 1000] [LT α] [DecidableLT α] [LE α] [DecidableLE α] [BEq α] [FloatLike α]

/-- `&v[rng_cones[i]]` is in range for every cone when the vector is at least as long as the
composite cone -/
theorem cutE_go_ok (v : Array α) (site : String) :
    ∀ (cones : List (ConeSt α)) (start : Nat), start + numelAll cones ≤ v.size →
      ∃ ps, cutE.go v site cones start = .ok ps := by
  intro cones
  induction cones with
  | nil => intro start _; exact ⟨[], rfl⟩
  | cons c rest ih =>
    intro start h
    rw [numelAll_cons] at h
    obtain ⟨tl, htl⟩ := ih (start + c.numel) (by omega)
    refine ⟨v.extract start (start + c.numel) :: tl, ?_⟩
    unfold cutE.go
    rw [if_neg (by omega), htl]
    rfl

theorem cutE_ok {cones : List (ConeSt α)} {v : Array α} (site : String) (h : numelAll cones ≤ v.size) :
    ∃ ps, cutE cones v site = .ok ps := cutE_go_ok v site cones 0 (by omega)

/-- the internal problem data is well formed: `P` (upper triangle, `n×n`) and `A` (`m×n`) are
canonical CSC encodings, `q`, `b` and the equilibration vectors have the problem's dimensions,
and the presolver's row map keeps exactly `m` rows -/
structure DataOK (d : ProblemData α) : Prop where
  P_canon : C16.Canonical0 d.P
  P_m : d.P.m = d.n
  P_n : d.P.n = d.n
  P_triu : d.P.isTriu = true
  A_canon : C16.Canonical0 d.A
  A_m : d.A.m = d.m
  A_n : d.A.n = d.n
  q : d.q.size = d.n
  b : d.b.size = d.m
  eq_d : d.equilibration.d.size = d.n
  eq_dinv : d.equilibration.dinv.size = d.n
  eq_e : d.equilibration.e.size = d.m
  eq_einv : d.equilibration.einv.size = d.m
  keep : ∀ p, presolveMap d = some p → (p.keep.toList.filter id).length = d.m

/-- what the loop of `solve()` needs from the linear solver object: `update` and
`setrhs; solve` are total on the invariant `KI` and keep it (`specs` = the KKT view of the
cones, `n`, `m` the problem's dimensions). -/
structure KktTotal (KI : KktSolver α → Prop) (specs : List Kkt.ConeSpec) (n m : Nat)
    (st : LinSettings α) : Prop where
  update : ∀ (K : KktSolver α) (cones : List (ConeSt α)), KI K → ConesFull cones →
    cones.map ConeSt.kktSpec = specs → ∃ r, K.update cones st = .ok r ∧ KI r.2
  solve : ∀ (K : KktSolver α) (rx rz : Array α), KI K → rx.size = n → rz.size = m →
    ∃ r, (K.setrhs rx rz >>= fun K1 => K1.solve st) = .ok r ∧ r.2.1.size = n ∧ r.2.2.1.size = m
      ∧ KI r.2.2.2

/-- **The loop invariant of `solve()`**: every vector of the solver object has the problem's
dimension, the cone objects are sized consistently and cover `m` entries, the data is well
formed, and the linear solver object satisfies its own invariant `KI`. -/
structure Shapes (KI : KktSolver α → Prop) (S : SolverSt α) : Prop where
  data : DataOK S.data
  vars : VarsSized S.data.n S.data.m S.variables
  resid : ResidSized S.data.n S.data.m S.residuals
  stepLhs : VarsSized S.data.n S.data.m S.stepLhs
  stepRhs : VarsSized S.data.n S.data.m S.stepRhs
  prevVars : VarsSized S.data.n S.data.m S.prevVars
  cones : ConesFull S.cones
  numel : numelAll S.cones = S.data.m
  x1 : S.kktsystem.x1.size = S.data.n
  z1 : S.kktsystem.z1.size = S.data.m
  x2 : S.kktsystem.x2.size = S.data.n
  z2 : S.kktsystem.z2.size = S.data.m
  workx : S.kktsystem.workx.size = S.data.n
  workz : S.kktsystem.workz.size = S.data.m
  workConic : S.kktsystem.workConic.size = S.data.m
  kkt : KI S.kktsystem.kktsolver

/-- the solution object is sized for `solution.post_process`: `x` has `n` entries; `s`, `z` have
one entry per row of the *user's* `A` (`keep.len()` with a presolver, `m` without) -/
structure SolutionSized (d : ProblemData α) (sol : Unscale.Solution α) : Prop where
  x : sol.x.size = d.n
  none_s : presolveMap d = none → sol.s.size = d.m
  none_z : presolveMap d = none → sol.z.size = d.m
  some_s : ∀ p, presolveMap d = some p → sol.s.size = p.keep.size
  some_z : ∀ p, presolveMap d = some p → sol.z.size = p.keep.size

/-! ### the norm caches: neither `DataOK` nor `SolutionSized` looks at them; `fillNorms` is total -/

theorem DataOK.withNorms {d : ProblemData α} (h : DataOK d) (a b : Option α) :
    DataOK { d with normq := a, normb := b } :=
  ⟨h.P_canon, h.P_m, h.P_n, h.P_triu, h.A_canon, h.A_m, h.A_n, h.q, h.b, h.eq_d, h.eq_dinv, h.eq_e,
    h.eq_einv, h.keep⟩

theorem SolutionSized.withNorms {d : ProblemData α} {sol : Unscale.Solution α} (h : SolutionSized d sol)
    (a b : Option α) : SolutionSized { d with normq := a, normb := b } sol :=
  ⟨h.x, h.none_s, h.none_z, h.some_s, h.some_z⟩

/-- `get_normq(); get_normb()` never panics on well-formed data -/
theorem fillNorms_ok {d : ProblemData α} (h : DataOK d) :
    ∃ nq nb, fillNorms d = .ok { d with normq := some nq, normb := some nb } := by
  have hE : ∀ {x v : Array α}, x.size = v.size →
      Info.normInfScaledE x v = .ok (Vec.normInfScaled x v) := by
    intro x v hxv
    unfold Info.normInfScaledE
    rw [hxv]
    simp only [bne_self_eq_false, Bool.false_eq_true, if_false]
    rfl
  have hq : ∃ nq, Info.getNormq d.normq d.q d.equilibration.dinv d.equilibration.c = .ok nq := by
    unfold Info.getNormq
    cases d.normq with
    | some v => exact ⟨v, rfl⟩
    | none =>
      dsimp only
      rw [hE (by rw [h.q, h.eq_dinv])]
      exact ⟨_, rfl⟩
  have hb : ∃ nb, Info.getNormb d.normb d.b d.equilibration.einv = .ok nb := by
    unfold Info.getNormb
    cases d.normb with
    | some v => exact ⟨v, rfl⟩
    | none =>
      dsimp only
      rw [hE (by rw [h.b, h.eq_einv])]
      exact ⟨_, rfl⟩
  obtain ⟨nq, hq⟩ := hq
  obtain ⟨nb, hb⟩ := hb
  refine ⟨nq, nb, ?_⟩
  unfold fillNorms
  rw [bind_ok_of hq, bind_ok_of hb]
  rfl

end

end Clarabel.Solver
