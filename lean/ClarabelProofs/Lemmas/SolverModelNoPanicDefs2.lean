/-
  Panic-freedom of the whole-solver model (C04) — the two-invariant interface of the linear
  solver object.  `KIw` holds before an `update` (in particular for the object `KktSolver.new`
  returns, whose QDLDL factorisation is still symbolic), `KIs` after it (numeric factorisation
  present, `solve` allowed).  Same style as `KktSim` of C05.  [S]
-/
import ClarabelProofs.Lemmas.SolverModelNoPanicDefs

namespace Clarabel.Solver
open Clarabel Info Residuals

set_option linter.unusedSectionVars false
set_option linter.unusedVariables false

variable {α : Type}

section
variable [Add α] [Sub α] [Mul α] [Div α] [Neg α] [OfNat α 0] [OfNat α 1] [OfNat α 2]
  [OfNat α 100] [OfNat α 1000] [LT α] [DecidableLT α] [LE α] [DecidableLE α] [BEq α] [FloatLike α]

/-- what `solve()` needs from the linear solver object: `update` is total on `KIw` and
establishes `KIs` (whatever flag it returns); `setrhs; solve` is total on `KIs`, returns parts of
the right lengths and keeps `KIs`; `KIs` implies `KIw`. -/
structure KktTotal2 (KIw KIs : KktSolver α → Prop) (specs : List Kkt.ConeSpec) (n m : Nat)
    (st : LinSettings α) : Prop where
  update : ∀ (K : KktSolver α) (cones : List (ConeSt α)), KIw K → ConesFull cones →
    cones.map ConeSt.kktSpec = specs → ∃ r, K.update cones st = .ok r ∧ KIs r.2
  weaken : ∀ (K : KktSolver α), KIs K → KIw K
  solve : ∀ (K : KktSolver α) (rx rz : Array α), KIs K → rx.size = n → rz.size = m →
    ∃ r, (K.setrhs rx rz >>= fun K1 => K1.solve st) = .ok r ∧ r.2.1.size = n ∧ r.2.2.1.size = m
      ∧ KIs r.2.2.2

/-- a one-invariant instance is a two-invariant instance -/
theorem KktTotal.to2 {KI : KktSolver α → Prop} {specs : List Kkt.ConeSpec} {n m : Nat}
    {st : LinSettings α} (h : KktTotal KI specs n m st) : KktTotal2 KI KI specs n m st :=
  ⟨h.update, fun _ hK => hK, h.solve⟩

end

end Clarabel.Solver
