/-
  C05 (weak duality): pairing nonnegativity for the positive semidefinite cone.

  * [F] over any linearly ordered field: for symmetric `S`, `Z` with nonnegative quadratic
    forms, `tr(S Z) = Σᵢⱼ SᵢⱼZᵢⱼ ≥ 0` (`trN_nonneg`, `psd_trace_mul_nonneg`).  The proof is
    elementary (no spectral theorem, no square roots): induction on the dimension, eliminating
    the last row/column of `Z` by a Schur complement —
    `tr(S Z) = tr(S' Z″) + cᵀ S c / z` with `z = Z_nn > 0`, `c = Z_{·n}`, `Z″ = Z' − b bᵀ/z` —
    and `Z_nn = 0 ⟹ Z_{·n} = 0`.
  * [R] on the vectors the solver stores (`psd_svec_pair_nonneg`): for two svecs `x`, `y`
    (scaled packed upper triangles, off-diagonals times `√2`) whose matrices
    `svec_to_mat x`, `svec_to_mat y` have nonnegative quadratic forms, `Vec.dot x y ≥ 0` —
    via C13's `dot_matToSvec` (`⟨svec A, svec B⟩ = tr(AB)`).
-/
import ClarabelProofs.Lemmas.ConesPsdSvec
import Mathlib.LinearAlgebra.Matrix.Trace
import Mathlib.Algebra.Order.Field.Basic
import Mathlib.Algebra.Order.BigOperators.Group.Finset
import Mathlib.Algebra.BigOperators.Fin
import Mathlib.Algebra.BigOperators.Field
import Mathlib.Tactic.FieldSimp
import Mathlib.Tactic.Positivity

namespace Clarabel.Lemmas
open Finset

set_option linter.unusedSectionVars false

section field
variable {α : Type} [Field α] [LinearOrder α] [IsStrictOrderedRing α]

/-- quadratic form `xᵀMx` of the leading `n × n` part of `M` -/
def qfN (n : ℕ) (M : ℕ → ℕ → α) (x : ℕ → α) : α :=
  ∑ i ∈ range n, ∑ j ∈ range n, x i * M i j * x j

/-- `Σᵢⱼ AᵢⱼBᵢⱼ` over the leading `n × n` part (`= tr(AB)` for symmetric `B`) -/
def trN (n : ℕ) (A B : ℕ → ℕ → α) : α := ∑ j ∈ range n, ∑ i ∈ range n, A i j * B i j

/-- symmetric on the leading `n × n` part (the same predicate as `PsdTri.IsSymm` at `ℝ`) -/
def SymN (n : ℕ) (M : ℕ → ℕ → α) : Prop := ∀ i j, i < n → j < n → M i j = M j i

/-- symmetric with nonnegative quadratic form (leading `n × n` part) -/
def PsdN (n : ℕ) (M : ℕ → ℕ → α) : Prop := SymN n M ∧ ∀ x : ℕ → α, 0 ≤ qfN n M x

/-- `Σ_{i<n} M_{in} xᵢ` -/
def colDot (n : ℕ) (M : ℕ → ℕ → α) (x : ℕ → α) : α := ∑ i ∈ range n, M i n * x i

/-- Schur complement of the entry `(n,n)` -/
def schurN (n : ℕ) (Z : ℕ → ℕ → α) : ℕ → ℕ → α := fun i j => Z i j - Z i n * Z j n / Z n n

omit [LinearOrder α] [IsStrictOrderedRing α] in
theorem sum2_succ (n : ℕ) (F : ℕ → ℕ → α) :
    ∑ i ∈ range (n + 1), ∑ j ∈ range (n + 1), F i j
      = ∑ i ∈ range n, ∑ j ∈ range n, F i j + ∑ i ∈ range n, F i n + ∑ j ∈ range n, F n j
        + F n n := by
  rw [sum_range_succ]
  simp only [sum_range_succ]
  rw [sum_add_distrib]
  ring

omit [LinearOrder α] [IsStrictOrderedRing α] in
theorem qfN_succ (n : ℕ) (M : ℕ → ℕ → α) (hM : SymN (n + 1) M) (x : ℕ → α) :
    qfN (n + 1) M x = qfN n M x + 2 * x n * colDot n M x + M n n * x n ^ 2 := by
  unfold qfN colDot
  rw [sum2_succ]
  have h1 : ∑ i ∈ range n, x i * M i n * x n = x n * ∑ i ∈ range n, M i n * x i := by
    rw [mul_sum]; apply sum_congr rfl; intro i _; ring
  have h2 : ∑ j ∈ range n, x n * M n j * x j = x n * ∑ i ∈ range n, M i n * x i := by
    rw [mul_sum]; apply sum_congr rfl; intro j hj
    have hj' : j < n := mem_range.mp hj
    rw [hM n j (by omega) (by omega)]; ring
  rw [h1, h2]; ring

omit [LinearOrder α] [IsStrictOrderedRing α] in
theorem trN_succ (n : ℕ) (A B : ℕ → ℕ → α) (hA : SymN (n + 1) A) (hB : SymN (n + 1) B) :
    trN (n + 1) A B = trN n A B + 2 * ∑ i ∈ range n, A i n * B i n + A n n * B n n := by
  unfold trN
  rw [sum2_succ n (fun j i => A i j * B i j)]
  have h : ∑ j ∈ range n, A n j * B n j = ∑ i ∈ range n, A i n * B i n := by
    apply sum_congr rfl; intro j hj
    have hj' : j < n := mem_range.mp hj
    rw [hA n j (by omega) (by omega), hB n j (by omega) (by omega)]
  rw [h]; ring

omit [LinearOrder α] [IsStrictOrderedRing α] in
theorem qfN_congr (n : ℕ) (M : ℕ → ℕ → α) (x y : ℕ → α) (h : ∀ i, i < n → x i = y i) :
    qfN n M x = qfN n M y := by
  unfold qfN
  apply sum_congr rfl; intro i hi
  apply sum_congr rfl; intro j hj
  rw [h i (mem_range.mp hi), h j (mem_range.mp hj)]

omit [LinearOrder α] [IsStrictOrderedRing α] in
theorem colDot_congr (n : ℕ) (M : ℕ → ℕ → α) (x y : ℕ → α) (h : ∀ i, i < n → x i = y i) :
    colDot n M x = colDot n M y := by
  unfold colDot
  apply sum_congr rfl; intro i hi
  rw [h i (mem_range.mp hi)]

omit [LinearOrder α] [IsStrictOrderedRing α] in
/-- the quadratic form at a vector whose entry `n` is set to `t` -/
theorem qfN_succ_update (n : ℕ) (M : ℕ → ℕ → α) (hM : SymN (n + 1) M) (x : ℕ → α) (t : α) :
    qfN (n + 1) M (Function.update x n t)
      = qfN n M x + 2 * t * colDot n M x + M n n * t ^ 2 := by
  have hc : ∀ i, i < n → Function.update x n t i = x i := fun i hi =>
    Function.update_of_ne (by omega) _ _
  rw [qfN_succ n M hM, qfN_congr n M _ x hc, colDot_congr n M _ x hc, Function.update_self]

/-- a principal leading block of a PSD matrix is PSD -/
theorem PsdN.restrict {n : ℕ} {M : ℕ → ℕ → α} (h : PsdN (n + 1) M) : PsdN n M := by
  refine ⟨fun i j hi hj => h.1 i j (by omega) (by omega), fun x => ?_⟩
  have := h.2 (Function.update x n 0)
  rw [qfN_succ_update n M h.1] at this
  simpa using this

/-- diagonal entries of a PSD matrix are nonnegative -/
theorem PsdN.diag_nonneg {n : ℕ} {M : ℕ → ℕ → α} (h : PsdN (n + 1) M) : 0 ≤ M n n := by
  have := h.2 (Function.update (fun _ => 0) n 1)
  rw [qfN_succ_update n M h.1] at this
  simpa [qfN, colDot] using this

/-- a zero pivot of a PSD matrix has a zero column -/
theorem PsdN.colDot_eq_zero {n : ℕ} {Z : ℕ → ℕ → α} (h : PsdN (n + 1) Z) (h0 : Z n n = 0)
    (x : ℕ → α) : colDot n Z x = 0 := by
  by_contra hne
  have := h.2 (Function.update x n (-(qfN n Z x + 1) / (2 * colDot n Z x)))
  rw [qfN_succ_update n Z h.1, h0, zero_mul, add_zero] at this
  have e : 2 * (-(qfN n Z x + 1) / (2 * colDot n Z x)) * colDot n Z x = -(qfN n Z x + 1) := by
    field_simp
  rw [e] at this
  linarith

omit [LinearOrder α] [IsStrictOrderedRing α] in
theorem qfN_schurN (n : ℕ) (Z : ℕ → ℕ → α) (y : ℕ → α) :
    qfN n (schurN n Z) y = qfN n Z y - colDot n Z y ^ 2 / Z n n := by
  have hsq : colDot n Z y ^ 2 / Z n n
      = ∑ i ∈ range n, ∑ j ∈ range n, (Z i n * y i) * (Z j n * y j) / Z n n := by
    unfold colDot
    rw [sq, sum_mul_sum, sum_div]
    apply sum_congr rfl; intro i _
    rw [sum_div]
  rw [hsq]
  unfold qfN schurN
  rw [← sum_sub_distrib]
  apply sum_congr rfl; intro i _
  rw [← sum_sub_distrib]
  apply sum_congr rfl; intro j _
  ring

/-- the Schur complement of a positive pivot of a PSD matrix is PSD -/
theorem PsdN.schur {n : ℕ} {Z : ℕ → ℕ → α} (h : PsdN (n + 1) Z) (hpos : 0 < Z n n) :
    PsdN n (schurN n Z) := by
  refine ⟨fun i j hi hj => ?_, fun y => ?_⟩
  · unfold schurN
    rw [h.1 i j (by omega) (by omega)]; ring
  · have := h.2 (Function.update y n (-(colDot n Z y) / Z n n))
    rw [qfN_succ_update n Z h.1] at this
    rw [qfN_schurN]
    have e : qfN n Z y + 2 * (-(colDot n Z y) / Z n n) * colDot n Z y
        + Z n n * (-(colDot n Z y) / Z n n) ^ 2 = qfN n Z y - colDot n Z y ^ 2 / Z n n := by
      have hne : Z n n ≠ 0 := hpos.ne'
      field_simp
      ring
    rw [e] at this
    exact this

omit [LinearOrder α] [IsStrictOrderedRing α] in
/-- `tr(S Z) = tr(S' Z″) + cᵀSc / z` (`z = Z_nn ≠ 0`, `c = Z_{·n}`) -/
theorem trN_succ_schur (n : ℕ) (S Z : ℕ → ℕ → α) (hS : SymN (n + 1) S) (hZ : SymN (n + 1) Z)
    (hne : Z n n ≠ 0) :
    trN (n + 1) S Z = trN n S (schurN n Z) + qfN (n + 1) S (fun i => Z i n) / Z n n := by
  rw [trN_succ n S Z hS hZ, qfN_succ n S hS]
  have h1 : trN n S (schurN n Z) = trN n S Z - qfN n S (fun i => Z i n) / Z n n := by
    unfold trN schurN qfN
    rw [sum_comm (s := range n) (t := range n) (f := fun i j => Z i n * S i j * Z j n),
      sum_div, ← sum_sub_distrib]
    apply sum_congr rfl; intro j _
    rw [sum_div, ← sum_sub_distrib]
    apply sum_congr rfl; intro i _
    ring
  rw [h1]
  unfold colDot
  field_simp
  ring

/-- [F] **`tr(S Z) ≥ 0` for PSD `S`, `Z`** over a linearly ordered field -/
theorem trN_nonneg : ∀ (n : ℕ) (S Z : ℕ → ℕ → α), PsdN n S → PsdN n Z → 0 ≤ trN n S Z := by
  intro n
  induction n with
  | zero => intro S Z _ _; simp [trN]
  | succ n ih =>
    intro S Z hS hZ
    rcases (PsdN.diag_nonneg hZ).eq_or_lt with h0 | hpos
    · rw [trN_succ n S Z hS.1 hZ.1, ← h0, mul_zero, add_zero]
      have hcol : ∑ i ∈ range n, S i n * Z i n = colDot n Z (fun i => S i n) := by
        unfold colDot; apply sum_congr rfl; intro i _; ring
      rw [hcol, hZ.colDot_eq_zero h0.symm, mul_zero, add_zero]
      exact ih S Z hS.restrict hZ.restrict
    · rw [trN_succ_schur n S Z hS.1 hZ.1 hpos.ne']
      exact add_nonneg (ih S _ hS.restrict (hZ.schur hpos)) (div_nonneg (hS.2 _) hpos.le)

/-! ### `Matrix (Fin n) (Fin n) α` form -/

/-- entry function of a `Fin n × Fin n` matrix (zero outside) -/
def matExt {n : ℕ} (M : Matrix (Fin n) (Fin n) α) : ℕ → ℕ → α := fun i j =>
  if h : i < n ∧ j < n then M ⟨i, h.1⟩ ⟨j, h.2⟩ else 0

omit [LinearOrder α] [IsStrictOrderedRing α] in
theorem matExt_fin {n : ℕ} (M : Matrix (Fin n) (Fin n) α) (i j : Fin n) :
    matExt M i j = M i j := by
  unfold matExt
  rw [dif_pos ⟨i.2, j.2⟩]

omit [LinearOrder α] [IsStrictOrderedRing α] in
theorem qfN_matExt {n : ℕ} (M : Matrix (Fin n) (Fin n) α) (x : ℕ → α) :
    qfN n (matExt M) x = (fun i : Fin n => x i) ⬝ᵥ (M.mulVec fun i : Fin n => x i) := by
  unfold qfN dotProduct Matrix.mulVec dotProduct
  rw [Finset.sum_range]
  apply sum_congr rfl; intro i _
  rw [Finset.sum_range, mul_sum]
  apply sum_congr rfl; intro j _
  rw [matExt_fin]; ring

omit [LinearOrder α] [IsStrictOrderedRing α] in
theorem trN_matExt {n : ℕ} (S Z : Matrix (Fin n) (Fin n) α) (hZ : Z.transpose = Z) :
    trN n (matExt S) (matExt Z) = (S * Z).trace := by
  unfold trN Matrix.trace
  have e : ∑ j ∈ range n, ∑ i ∈ range n, matExt S i j * matExt Z i j
      = ∑ j : Fin n, ∑ i : Fin n, matExt S i j * matExt Z i j := by
    rw [Finset.sum_range]
    apply sum_congr rfl; intro j _
    rw [Finset.sum_range]
  rw [e, sum_comm]
  apply sum_congr rfl; intro i _
  rw [Matrix.diag_apply, Matrix.mul_apply]
  apply sum_congr rfl; intro j _
  rw [matExt_fin, matExt_fin]
  have : Z j i = Z i j := by
    conv_lhs => rw [← hZ]
    rfl
  rw [this]

theorem psdN_matExt {n : ℕ} (M : Matrix (Fin n) (Fin n) α) (hM : M.transpose = M)
    (hq : ∀ x : Fin n → α, 0 ≤ x ⬝ᵥ M.mulVec x) : PsdN n (matExt M) := by
  refine ⟨fun i j hi hj => ?_, fun x => ?_⟩
  · have h1 := matExt_fin M ⟨i, hi⟩ ⟨j, hj⟩
    have h2 := matExt_fin M ⟨j, hj⟩ ⟨i, hi⟩
    simp only at h1 h2
    rw [h1, h2]
    conv_lhs => rw [← hM]
    rfl
  · rw [qfN_matExt]; exact hq _

/-- [F] for symmetric `S`, `Z` with nonnegative quadratic forms, `tr(S Z) ≥ 0` -/
theorem psd_trace_mul_nonneg {n : ℕ} (S Z : Matrix (Fin n) (Fin n) α) (hS : S.transpose = S)
    (hZ : Z.transpose = Z) (hSq : ∀ x : Fin n → α, 0 ≤ x ⬝ᵥ S.mulVec x)
    (hZq : ∀ x : Fin n → α, 0 ≤ x ⬝ᵥ Z.mulVec x) : 0 ≤ (S * Z).trace := by
  rw [← trN_matExt S Z hZ]
  exact trN_nonneg n _ _ (psdN_matExt S hS hSq) (psdN_matExt Z hZ hZq)

end field

/-! ### the stored (svec) form -/

open PsdTri PsdIndex in
/-- [R] on the solver's stored vectors: two svecs of order `n` whose matrices have nonnegative
quadratic forms pair nonnegatively -/
theorem psd_svec_pair_nonneg (n : ℕ) (x y : Array ℝ) (hx : x.size = triangularNumber n)
    (hy : y.size = triangularNumber n) (hX : ∀ v : ℕ → ℝ, 0 ≤ qfN n (svecToMat x) v)
    (hY : ∀ v : ℕ → ℝ, 0 ≤ qfN n (svecToMat y) v) : 0 ≤ Vec.dot x y := by
  have h := dot_matToSvec n (svecToMat x) (svecToMat y) (svecToMat_isSymm n x)
    (svecToMat_isSymm n y)
  rw [matToSvec_svecToMat n x hx, matToSvec_svecToMat n y hy] at h
  rw [h]
  exact trN_nonneg n _ _ ⟨svecToMat_isSymm n x, hX⟩ ⟨svecToMat_isSymm n y, hY⟩

end Clarabel.Lemmas
