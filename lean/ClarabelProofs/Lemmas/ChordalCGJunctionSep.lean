/-
  Clique-graph merge strategy, JUNCTION-TREE LINK: the remaining hypothesis in terms of the CLIQUES
  ONLY.  By the exchange lemma (`JT.swap_spec`, `ChordalJTSwap.lean`) a SEPARATING PAIR `(a, b)` of the
  current cliques — no chain of cliques containing `S = C_a ∩ C_b`, consecutive ones meeting in more
  than `S`, joins `a` to `b`; this is the adjacency of the reduced clique graph of the CURRENT
  cliques — that is a stored entry lies on a junction tree inside the graph as soon as the graph
  contains any junction tree.  Hence:

  * `cgOnJT_of_sep`       : junction tree inside the graph + stored separating pair ⇒ `CGOnJT`;
  * `CGStrategy.loopSep`  : the loop with the condition "the accepted candidate is a separating pair
                            of the current cliques" collected at every merge;
  * `cg_loopOnJT_of_sep`  : `loopSep ⇒ loopOnJT` along any run from a state with a junction tree
                            inside the graph;
  * `CGMergesSep L`, `cg_mergesOnJT_of_sep`, and the pipeline theorem
    `analysis_cg_valid_sep_partial`.
-/
import ClarabelProofs.Lemmas.ChordalJTSwap
import ClarabelProofs.Lemmas.ChordalCGJunctionFinal

namespace Clarabel.Chordal
open Clarabel

namespace JT

/-- [S] **AN EDGE OF A JUNCTION TREE IS A SEPARATING PAIR** (the converse of the exchange lemma): a
chain of cliques containing `S = C_a ∩ C_b`, consecutive ones meeting in a vertex outside `S`, cannot
lead from `a` to `b` — running intersection would connect the two sides of the tree minus the edge
`a — b` without using that edge -/
theorem sep_of_edge {cl : Nat → Nat → Bool} {L : List Nat} (hL : L.Nodup) {J : List (Nat × Nat)}
    (hJ : ForestFrom [] J) (hJL : ∀ e ∈ J, e.1 ∈ L ∧ e.2 ∈ L) (hrip : RIP cl L J) {a b : Nat}
    (hE : (a, b) ∈ J ∨ (b, a) ∈ J) : SepPair cl L a b := by
  intro hchain
  have hnot := not_conn_removed hL hJ hJL hE
  have key : ∀ x, Relation.ReflTransGen (HLink cl L a b) a x →
      Conn (J.filter (fun e => !isEdge a b e)) a x := by
    intro x hx
    induction hx with
    | refl => exact Conn.refl _ _
    | @tail p q _ hpq ih =>
      obtain ⟨hp, hq, _, _, v, hvp, hvq, hvn⟩ := hpq
      have hc : Conn (JT.atV cl v J) p q := hrip v p hp q hq hvp hvq
      refine ih.trans (hc.mono ?_)
      intro e he
      obtain ⟨h1, h2, h3⟩ := mem_at.1 he
      refine List.mem_filter.2 ⟨h1, ?_⟩
      by_contra hedge
      have hedge' : isEdge a b e = true := by simpa using hedge
      rcases (isEdge_iff a b e).1 hedge' with rfl | rfl
      · exact hvn ⟨h2, h3⟩
      · exact hvn ⟨h3, h2⟩
  exact hnot (key b hchain)

end JT

/-- the candidate is a separating pair of the current live cliques -/
def CGSep (t : SuperNodeTree) (cand : Nat × Nat) : Prop :=
  JT.SepPair (cgCl t) (cgLiveList t) cand.1 cand.2

/-- [S] **A STORED SEPARATING PAIR LIES ON A JUNCTION TREE INSIDE THE GRAPH** as soon as the graph
contains a junction tree (exchange lemma) -/
theorem cgOnJT_of_sep {N nv : Nat} {s : CGStrategy} {t : SuperNodeTree} (hinv : CGInv N nv s t)
    {J : List (Nat × Nat)} (hJ : CGHasJT s t J) {r c : Nat}
    (he : (s.edges.entry r c).isSome = true) (hsep : CGSep t (r, c)) : CGOnJT s t (r, c) := by
  have hlive := hinv.edge_live r c he
  have hlt := cgi_entry_lt hinv.good he
  have hJL : ∀ e ∈ J, e.1 ∈ cgLiveList t ∧ e.2 ∈ cgLiveList t := by
    intro e hm
    have := hinv.edge_live e.1 e.2 ((hinv.good.mem_edges e.1 e.2).1 (hJ.sub e hm))
    exact ⟨(mem_cgLiveList t _).2 this.1, (mem_cgLiveList t _).2 this.2⟩
  obtain ⟨J', hf, hsub, hrip, hmem⟩ := JT.swap_spec (cl := cgCl t) (cgLiveList_nodup t) nv
    (fun c _ v hv => hinv.sn_lt c v ((cgCl_iff t c v).1 hv)) hJ.forest hJL hJ.rip
    ((mem_cgLiveList t r).2 hlive.1) ((mem_cgLiveList t c).2 hlive.2) (by omega) hsep
  refine ⟨J', ⟨hf, ?_, hrip⟩, hmem⟩
  intro e hm
  rcases hsub e hm with h | h
  · exact hJ.sub e h
  · rw [h]; exact (hinv.good.mem_edges r c).2 he

/-- "EVERY MERGE THE LOOP PERFORMS MERGES A SEPARATING PAIR OF THE CURRENT CLIQUES": the loop of
`merge_cliques` (same passes, same fuel as `CGStrategy.loop`) with the condition `CGSep` collected at
every accepted candidate -/
def CGStrategy.loopSep : Nat → CGStrategy → SuperNodeTree → Prop
  | 0, _, _ => True
  | fuel + 1, s, t =>
    if s.stop then True else
      match s.traverse t with
      | .error _ => True
      | .ok (_, none) => True
      | .ok (s, some cand) =>
        match s.evaluate t cand with
        | .error _ => True
        | .ok (s, false) =>
          (match s.updateStrategy t cand false with
           | .error _ => True
           | .ok s => if t.nCliques == 1 then True else CGStrategy.loopSep fuel s t)
        | .ok (s, true) =>
          CGSep t cand ∧
          (match s.mergeTwoCliques t cand with
           | .error _ => True
           | .ok t' =>
             match s.updateStrategy t' cand true with
             | .error _ => True
             | .ok s' => if t'.nCliques == 1 then True else CGStrategy.loopSep fuel s' t')

/-- [S] a stopped strategy satisfies `loopSep` with any fuel -/
theorem CGStrategy.loopSep_of_stop (fuel : Nat) (s : CGStrategy) (t : SuperNodeTree)
    (h : s.stop = true) : s.loopSep fuel t := by
  cases fuel with
  | zero => unfold CGStrategy.loopSep; trivial
  | succ fuel => unfold CGStrategy.loopSep; simp only [h, if_true]

/-- [S] **IF EVERY MERGE MERGES A SEPARATING PAIR, EVERY MERGE CONTRACTS A JUNCTION-TREE EDGE**: along
the loop started in a state whose graph contains a junction tree -/
theorem cg_loopOnJT_of_sep (N nv : Nat) :
    ∀ (fuel : Nat) (s : CGStrategy) (t : SuperNodeTree), CGInv N nv s t → 2 ≤ t.nCliques →
    (∃ J, CGHasJT s t J) → s.loopSep fuel t → s.loopOnJT fuel t := by
  intro fuel
  induction fuel with
  | zero => intro s t _ _ _ _; unfold CGStrategy.loopOnJT; trivial
  | succ fuel ih =>
    intro s t hinv h2 hJT hsep
    by_cases hstop : s.stop = true
    · exact CGStrategy.loopOnJT_of_stop _ s t hstop
    · unfold CGStrategy.loopSep at hsep
      unfold CGStrategy.loopOnJT
      simp only [hstop, Bool.false_eq_true, if_false] at hsep ⊢
      obtain ⟨p', cand?, htr, hpsz, hcand⟩ := traverse_spec N nv s t hinv h2
      have hinv1 : CGInv N nv { s with p := p' } t := hinv.of_eq rfl rfl hpsz
      obtain ⟨J, hJ⟩ := hJT
      have hJ1 : CGHasJT { s with p := p' } t J := CGHasJT.of_edges_eq (s := s) rfl hJ
      simp only [htr] at hsep ⊢
      cases hc : cand? with
      | none => trivial
      | some cand =>
        obtain ⟨r, c⟩ := cand
        have hsome := hcand r c hc
        obtain ⟨v, hv⟩ := Option.isSome_iff_exists.1 hsome
        have hev := evaluate_spec N nv { s with p := p' } t hinv1 r c v hv
        simp only [hc, hev] at hsep ⊢
        by_cases hvn : v ≥ 0
        · simp only [hvn, if_true, decide_true] at hsep ⊢
          obtain ⟨hs, hrest⟩ := hsep
          obtain ⟨J0, hJ0, hmem⟩ := cgOnJT_of_sep hinv1 hJ1 hsome hs
          refine ⟨⟨J0, hJ0, hmem⟩, ?_⟩
          obtain ⟨t1, s1, hm, hu, hinv', _, _, hncl, _⟩ :=
            merge_update_ok N nv { s with p := p' } t hinv1 r c hsome
          have hJ' : CGHasJT s1 t1 (JT.contract r c J0) :=
            cg_merge_hasJT hinv1 hsome hJ0 hmem hm hu
          simp only [hm, hu] at hrest ⊢
          by_cases h1 : t1.nCliques = 1
          · simp only [h1, beq_self_eq_true, if_true]
          · have hne : (t1.nCliques == 1) = false := by simpa using h1
            simp only [hne, Bool.false_eq_true, if_false] at hrest ⊢
            exact ih s1 t1 hinv' (by omega) ⟨_, hJ'⟩ hrest
        · simp only [hvn, if_false, decide_false, updateStrategy_false] at hsep ⊢
          have hne : (t.nCliques == 1) = false := by
            have : t.nCliques ≠ 1 := by omega
            simpa using this
          simp only [hne, Bool.false_eq_true, if_false]
          exact CGStrategy.loopOnJT_of_stop _ _ t rfl

/-- the per-pattern hypothesis in terms of the cliques only -/
def CGMergesSep (L : LPat) : Prop :=
  ∀ t0 s1 t1, SuperNodeTree.new L = .ok t0 → 2 ≤ t0.snode.size →
    CGStrategy.new.initialise t0 = .ok (s1, t1) → s1.loopSep (t1.snode.size + 2) t1

/-- [S] if every merge merges a separating pair of the current cliques, every merge contracts an
edge of a junction tree inside the current graph -/
theorem cg_mergesOnJT_of_sep {L : LPat} (hf : L.Filled) (hm : CGMergesSep L) : CGMergesOnJT L := by
  intro t0 s1 t1 hnew h2 hi
  obtain ⟨t0', hnew', hok⟩ := sntree_new_ok hf
  rw [hnew] at hnew'
  obtain rfl := Except.ok.inj hnew'
  obtain ⟨sa, ta, hia, _, hinv, hrel⟩ := initialise_ok L t0 hf hok h2
  rw [hi] at hia
  obtain ⟨rfl, rfl⟩ := Prod.mk.inj (Except.ok.inj hia)
  obtain ⟨sb, tb, J, hib, hJ⟩ := init_hasJT_ok L t0 hf hok h2
  rw [hi] at hib
  obtain ⟨rfl, rfl⟩ := Prod.mk.inj (Except.ok.inj hib)
  have hn1 : t1.nCliques = t1.snode.size := by rw [hrel.ncl, hok.ncl, hrel.size]
  exact cg_loopOnJT_of_sep t0.snode.size L.n (t1.snode.size + 2) s1 t1 hinv
    (by rw [hn1, hrel.size]; exact h2) ⟨J, hJ⟩ (hm t0 s1 t1 hnew h2 hi)

/-- [S] conversely a candidate on a junction tree inside the graph is a separating pair: the two
formulations of the remaining hypothesis agree -/
theorem cgSep_of_onJT {N nv : Nat} {s : CGStrategy} {t : SuperNodeTree} (hinv : CGInv N nv s t)
    {cand : Nat × Nat} (h : CGOnJT s t cand) : CGSep t cand := by
  obtain ⟨J, hJ, hmem⟩ := h
  have hJL : ∀ e ∈ J, e.1 ∈ cgLiveList t ∧ e.2 ∈ cgLiveList t := by
    intro e hm
    have := hinv.edge_live e.1 e.2 ((hinv.good.mem_edges e.1 e.2).1 (hJ.sub e hm))
    exact ⟨(mem_cgLiveList t _).2 this.1, (mem_cgLiveList t _).2 this.2⟩
  exact JT.sep_of_edge (cgLiveList_nodup t) hJ.forest hJL hJ.rip (.inl hmem)

/-- [S] `loopOnJT ⇒ loopSep` (under the loop invariant along the run): the converse of
`cg_loopOnJT_of_sep` -/
theorem cg_loopSep_of_onJT (N nv : Nat) :
    ∀ (fuel : Nat) (s : CGStrategy) (t : SuperNodeTree), CGInv N nv s t → 2 ≤ t.nCliques →
    s.loopOnJT fuel t → s.loopSep fuel t := by
  intro fuel
  induction fuel with
  | zero => intro s t _ _ _; unfold CGStrategy.loopSep; trivial
  | succ fuel ih =>
    intro s t hinv h2 hon
    by_cases hstop : s.stop = true
    · exact CGStrategy.loopSep_of_stop _ s t hstop
    · unfold CGStrategy.loopOnJT at hon
      unfold CGStrategy.loopSep
      simp only [hstop, Bool.false_eq_true, if_false] at hon ⊢
      obtain ⟨p', cand?, htr, hpsz, hcand⟩ := traverse_spec N nv s t hinv h2
      have hinv1 : CGInv N nv { s with p := p' } t := hinv.of_eq rfl rfl hpsz
      simp only [htr] at hon ⊢
      cases hc : cand? with
      | none => trivial
      | some cand =>
        obtain ⟨r, c⟩ := cand
        have hsome := hcand r c hc
        obtain ⟨v, hv⟩ := Option.isSome_iff_exists.1 hsome
        have hev := evaluate_spec N nv { s with p := p' } t hinv1 r c v hv
        simp only [hc, hev] at hon ⊢
        by_cases hvn : v ≥ 0
        · simp only [hvn, if_true, decide_true] at hon ⊢
          obtain ⟨ho, hrest⟩ := hon
          refine ⟨cgSep_of_onJT hinv1 ho, ?_⟩
          obtain ⟨t1, s1, hm, hu, hinv', _, _, hncl, _⟩ :=
            merge_update_ok N nv { s with p := p' } t hinv1 r c hsome
          simp only [hm, hu] at hrest ⊢
          by_cases h1 : t1.nCliques = 1
          · simp only [h1, beq_self_eq_true, if_true]
          · have hne : (t1.nCliques == 1) = false := by simpa using h1
            simp only [hne, Bool.false_eq_true, if_false] at hrest ⊢
            exact ih s1 t1 hinv' (by omega) hrest
        · simp only [hvn, if_false, decide_false, updateStrategy_false] at hon ⊢
          have hne : (t.nCliques == 1) = false := by
            have : t.nCliques ≠ 1 := by omega
            simpa using this
          simp only [hne, Bool.false_eq_true, if_false]
          exact CGStrategy.loopSep_of_stop _ _ t rfl

/-- [S] the two per-pattern hypotheses are equivalent on filled patterns -/
theorem cg_mergesSep_iff_onJT {L : LPat} (hf : L.Filled) : CGMergesSep L ↔ CGMergesOnJT L := by
  refine ⟨cg_mergesOnJT_of_sep hf, fun hm => ?_⟩
  intro t0 s1 t1 hnew h2 hi
  obtain ⟨t0', hnew', hok⟩ := sntree_new_ok hf
  rw [hnew] at hnew'
  obtain rfl := Except.ok.inj hnew'
  obtain ⟨sa, ta, hia, _, hinv, hrel⟩ := initialise_ok L t0 hf hok h2
  rw [hi] at hia
  obtain ⟨rfl, rfl⟩ := Prod.mk.inj (Except.ok.inj hia)
  have hn1 : t1.nCliques = t1.snode.size := by rw [hrel.ncl, hok.ncl, hrel.size]
  exact cg_loopSep_of_onJT t0.snode.size L.n (t1.snode.size + 2) s1 t1 hinv
    (by rw [hn1, hrel.size]; exact h2) (hm t0 s1 t1 hnew h2 hi)

/-- [S] **C17 FOR THE STRATEGY `clique_graph` FROM "EVERY MERGE MERGES A SEPARATING PAIR"**
(`…_partial`): for a filled pattern `L`, a permutation `ordering` and pattern entries inside `L`, if
every pair of cliques the loop merges is a separating pair of the current cliques (an edge of their
reduced clique graph; `CGMergesSep L`), `SparsityPattern::new(L, ordering, "clique_graph")` returns
without panic a tree and an ordering satisfying `ValidCliqueTree`. -/
theorem analysis_cg_valid_sep_partial {L : LPat} (h : L.Filled) (ordering : Array Nat)
    (ho : ordering.toList.Perm (List.range L.n)) (edges : List (Nat × Nat))
    (hedges : EdgesIn L ordering edges) (hm : CGMergesSep L) :
    ∃ tf ord', sparsityPatternNewCG L ordering = .ok (tf, ord') ∧
      ValidCliqueTree L.n edges tf ord' ∧ validCliqueTreeB L.n edges tf ord' = true :=
  analysis_cg_valid_merges_partial h ordering ho edges hedges (cg_mergesOnJT_of_sep h hm)

/-- [S] non-vacuity: `CGMergesSep` holds for every filled pattern whose supernode tree has at most two
cliques (e.g. the path `exP3`) -/
theorem cg_mergesSep_of_two {L : LPat} (hf : L.Filled)
    (hsz : ∀ t0, SuperNodeTree.new L = .ok t0 → t0.snode.size ≤ 2) : CGMergesSep L :=
  (cg_mergesSep_iff_onJT hf).2 (cg_mergesOnJT_of_two hf hsz)

end Clarabel.Chordal
