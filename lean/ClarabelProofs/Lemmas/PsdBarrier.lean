/-
  C15, PSD cone: `logdet_barrier` / `compute_barrier` with the LAPACK Cholesky factor as an
  explicit input (`ClarabelModel/Cones/PsdBarrier.lean`).

  The *Cholesky contract* is: `L` (column-major `n × n`) is lower triangular with a positive
  diagonal and `L·Lᵀ` is the matrix handed to the engine (`barrierMat`).  Under it the value
  of `logdet_barrier` is `ln det mat(x + α·dx)`.
-/
import ClarabelModel.Cones.PsdBarrier
import ClarabelProofs.Lemmas.ConesPsdSvec
import ClarabelProofs.Lemmas.ConesPsdOps
import Mathlib.Analysis.SpecialFunctions.Log.Basic
import Mathlib.LinearAlgebra.Matrix.Block

namespace Clarabel.PsdBarrier
open PsdTri Finset
open PsdIndex (triangularNumber)

section poly
variable {β : Type} [Add β] [Sub β] [Div β] [OfNat β 0] [OfNat β 1] [FloatLike β]

omit [Sub β] in
/-- the failed-factorization branch returns `T::infinity()` -/
theorem logdetBarrier_none (n : Nat) (x dx : Array β) (a : β)
    (hx : x.size = triangularNumber n) (hdx : dx.size = triangularNumber n) :
    logdetBarrier n x dx a none = .ok inf := by
  simp [logdetBarrier, hx, hdx, pure, Except.pure]

omit [Sub β] in
/-- the successful branch is `CholeskyEngine::logdet` of the returned factor -/
theorem logdetBarrier_some (n : Nat) (x dx : Array β) (a : β) (L : Array β)
    (hx : x.size = triangularNumber n) (hdx : dx.size = triangularNumber n)
    (hL : L.size = n * n) :
    logdetBarrier n x dx a (some L)
      = .ok (sumN n (fun i => log (matOf n L i i)) + sumN n (fun i => log (matOf n L i i))) := by
  simp [logdetBarrier, hx, hdx, hL, pure, Except.pure, cholLogdet, sumN]

omit [Sub β] in
/-- a wrong length is the `assert_eq!` of `waxpby` -/
theorem logdetBarrier_panic (n : Nat) (x dx : Array β) (a : β) (fac : Option (Array β))
    (h : x.size ≠ triangularNumber n ∨ dx.size ≠ triangularNumber n) :
    ∃ m, logdetBarrier n x dx a fac = .error (.panic m) := by
  unfold logdetBarrier
  by_cases hx : x.size = triangularNumber n
  · have hdx : dx.size ≠ triangularNumber n := by
      rcases h with h | h
      · exact absurd hx h
      · exact h
    exact ⟨"waxpby: assert_eq len y", by simp [hx, hdx, bind, Except.bind, throw, throwThe, MonadExceptOf.throw]⟩
  · exact ⟨"waxpby: assert_eq len x", by simp [hx, bind, Except.bind, throw, throwThe, MonadExceptOf.throw]⟩

/-- `compute_barrier` is `(0 − logdet_barrier(z,dz,α)) − logdet_barrier(s,ds,α)` -/
theorem computeBarrier_eq (n : Nat) (z s dz ds : Array β) (a : β) (facz facs : Option (Array β))
    (lz ls : β) (hz : logdetBarrier n z dz a facz = .ok lz)
    (hs : logdetBarrier n s ds a facs = .ok ls) :
    computeBarrier n z s dz ds a facz facs = .ok ((0 - lz) - ls) := by
  simp [computeBarrier, hz, hs, bind, Except.bind, pure, Except.pure]

/-- conversely, a returned barrier value comes from two returned `logdet_barrier` values -/
theorem computeBarrier_ok (n : Nat) (z s dz ds : Array β) (a : β) (facz facs : Option (Array β))
    (v : β) (h : computeBarrier n z s dz ds a facz facs = .ok v) :
    ∃ lz ls, logdetBarrier n z dz a facz = .ok lz ∧ logdetBarrier n s ds a facs = .ok ls ∧
      v = (0 - lz) - ls := by
  unfold computeBarrier at h
  cases h1 : logdetBarrier n z dz a facz with
  | error e => rw [h1] at h; cases h
  | ok lz =>
    cases h2 : logdetBarrier n s ds a facs with
    | error e => rw [h1, h2] at h; cases h
    | ok ls =>
      rw [h1, h2] at h
      simp only [bind, Except.bind, pure, Except.pure, Except.ok.injEq] at h
      exact ⟨lz, ls, rfl, rfl, h.symm⟩

end poly

noncomputable section real

/-- the Cholesky contract for the factor `L` of the matrix `Q` (leading `n × n` parts) -/
structure CholContract (n : Nat) (Q : MatFn ℝ) (L : Array ℝ) : Prop where
  size : L.size = n * n
  lower : ∀ i j, i < j → j < n → matOf n L i j = 0
  diag_pos : ∀ i, i < n → 0 < matOf n L i i
  prod : toM n Q = toM n (matOf n L) * (toM n (matOf n L)).transpose

/-- `2·Σ ln L_ii = ln ∏ L_ii²` for a positive diagonal -/
theorem cholLogdet_eq_log_prod (n : Nat) (L : Array ℝ) (hd : ∀ i, i < n → 0 < matOf n L i i) :
    cholLogdet n L = Real.log (∏ i ∈ range n, matOf n L i i ^ 2) := by
  have h1 : cholLogdet n L = sumN n (fun i => Real.log (matOf n L i i))
      + sumN n (fun i => Real.log (matOf n L i i)) := rfl
  rw [h1, sumN_eq, Real.log_prod (fun i hi => by
    have := hd i (mem_range.mp hi); positivity), ← sum_add_distrib]
  refine sum_congr rfl fun i _ => ?_
  rw [Real.log_pow]; push_cast; ring

/-- determinant of `L·Lᵀ` for a lower-triangular `L` -/
theorem det_of_contract (n : Nat) (Q : MatFn ℝ) (L : Array ℝ) (h : CholContract n Q L) :
    (toM n Q).det = ∏ i ∈ range n, matOf n L i i ^ 2 := by
  have hl : (toM n (matOf n L)).IsLowerTriangular := by
    intro i j hij
    have hij' : (i : Nat) < j := hij
    exact h.lower i j hij' j.2
  rw [h.prod, Matrix.det_mul, Matrix.det_transpose, Matrix.det_of_isLowerTriangular _ hl,
    ← Finset.prod_mul_distrib, ← Fin.prod_univ_eq_prod_range (fun i => matOf n L i i ^ 2) n]
  refine Finset.prod_congr rfl fun i _ => ?_
  simp only [toM, Matrix.of_apply]; ring

/-- under the Cholesky contract `logdet_barrier` is `ln det mat(x + α·dx)` -/
theorem logdetBarrier_eq_log_det (n : Nat) (x dx : Array ℝ) (a : ℝ) (L : Array ℝ)
    (hx : x.size = triangularNumber n) (hdx : dx.size = triangularNumber n)
    (h : CholContract n (barrierMat x dx a) L) :
    logdetBarrier n x dx a (some L) = .ok (Real.log (toM n (barrierMat x dx a)).det) := by
  rw [logdetBarrier_some n x dx a L hx hdx h.size, det_of_contract n _ L h,
    ← cholLogdet_eq_log_prod n L h.diag_pos]
  rfl

/-- the determinant under the contract is positive -/
theorem det_pos_of_contract (n : Nat) (Q : MatFn ℝ) (L : Array ℝ) (h : CholContract n Q L) :
    0 < (toM n Q).det := by
  rw [det_of_contract n Q L h]
  exact prod_pos fun i hi => by have := h.diag_pos i (mem_range.mp hi); positivity

end real

end Clarabel.PsdBarrier
