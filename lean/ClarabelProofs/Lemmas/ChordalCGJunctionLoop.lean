/-
  Clique-graph merge strategy, JUNCTION-TREE LINK: the invariants "the edge matrix contains a
  junction tree of the live cliques" (`CGHasJT`) and "the live cliques form an antichain"
  (`CGAntichain`) threaded through THE LOOP of `merge_cliques` (`CGStrategy.loop`), under the
  hypothesis that every merge the loop performs contracts an edge lying on a junction tree inside
  the current graph (`CGStrategy.loopOnJT`).  Same induction on the fuel and same case analysis as
  `cg_loop_spec` (`ChordalCGLoop.lean`), composed from the pass specifications of
  `ChordalCGSpecs.lean` and the two one-merge specifications `MergeHasJTSpec`, `MergeAntichainSpec`.
-/
import ClarabelProofs.Lemmas.ChordalCGJunctionDefs
import ClarabelProofs.Lemmas.ChordalCGMain

namespace Clarabel.Chordal
open Clarabel

/-- the candidate `cand = (c1, cr)` lies on a junction tree of the live cliques inside the edge
matrix -/
def CGOnJT (s : CGStrategy) (t : SuperNodeTree) (cand : Nat × Nat) : Prop :=
  ∃ J, CGHasJT s t J ∧ cand ∈ J

/-- "EVERY MERGE THE LOOP PERFORMS CONTRACTS AN EDGE OF A JUNCTION TREE INSIDE THE CURRENT GRAPH": the
loop of `merge_cliques` (`CGStrategy.loop`, same passes, same fuel) with the condition `CGOnJT`
collected at every accepted candidate; a pass that panics or stops contributes nothing -/
def CGStrategy.loopOnJT : Nat → CGStrategy → SuperNodeTree → Prop
  | 0, _, _ => True
  | fuel + 1, s, t =>
    if s.stop then True else
      match s.traverse t with
      | .error _ => True
      | .ok (_, none) => True
      | .ok (s, some cand) =>
        match s.evaluate t cand with
        | .error _ => True
        | .ok (s, false) =>
          (match s.updateStrategy t cand false with
           | .error _ => True
           | .ok s => if t.nCliques == 1 then True else CGStrategy.loopOnJT fuel s t)
        | .ok (s, true) =>
          CGOnJT s t cand ∧
          (match s.mergeTwoCliques t cand with
           | .error _ => True
           | .ok t' =>
             match s.updateStrategy t' cand true with
             | .error _ => True
             | .ok s' => if t'.nCliques == 1 then True else CGStrategy.loopOnJT fuel s' t')

/-- one merge along a junction-tree edge keeps a junction tree inside the graph
(`ChordalCGJunctionMerge.lean`) -/
def MergeHasJTSpec : Prop :=
  ∀ (N nv : Nat) (s : CGStrategy) (t : SuperNodeTree), CGInv N nv s t →
    ∀ c1 cr, (s.edges.entry c1 cr).isSome = true → ∀ J, CGHasJT s t J → (c1, cr) ∈ J →
    ∀ t' s', s.mergeTwoCliques t (c1, cr) = .ok t' → s.updateStrategy t' (c1, cr) true = .ok s' →
      CGHasJT s' t' (JT.contract c1 cr J)

/-- … and keeps the live cliques an antichain (`ChordalCGJunctionMerge.lean`) -/
def MergeAntichainSpec : Prop :=
  ∀ (N nv : Nat) (s : CGStrategy) (t : SuperNodeTree), CGInv N nv s t →
    ∀ c1 cr, (s.edges.entry c1 cr).isSome = true → ∀ J, CGHasJT s t J → (c1, cr) ∈ J →
    CGAntichain t → ∀ t', s.mergeTwoCliques t (c1, cr) = .ok t' → CGAntichain t'

/-- after `initialise` the edge matrix contains a junction tree (`ChordalCGJunctionInit.lean`) -/
def InitHasJTSpec : Prop :=
  ∀ (L : LPat) (t0 : SuperNodeTree), L.Filled → SnTreeOk L t0 → 2 ≤ t0.snode.size →
    ∃ s1 t1 J, CGStrategy.new.initialise t0 = .ok (s1, t1) ∧ CGHasJT s1 t1 J

/-- [S] `CGHasJT` mentions the strategy only through its edge matrix -/
theorem CGHasJT.of_edges_eq {s s' : CGStrategy} {t : SuperNodeTree} {J : List (Nat × Nat)}
    (he : s'.edges = s.edges) (h : CGHasJT s t J) : CGHasJT s' t J where
  forest := h.forest
  sub := he ▸ h.sub
  rip := h.rip

/-- [S] a stopped strategy satisfies `loopOnJT` with any fuel (nothing is merged any more) -/
theorem CGStrategy.loopOnJT_of_stop (fuel : Nat) (s : CGStrategy) (t : SuperNodeTree)
    (h : s.stop = true) : s.loopOnJT fuel t := by
  cases fuel with
  | zero => unfold CGStrategy.loopOnJT; trivial
  | succ fuel => unfold CGStrategy.loopOnJT; simp only [h, if_true]

/-- [S] the loop never returns with fuel `0` -/
theorem CGStrategy.loop_zero_ne_ok (s : CGStrategy) (t : SuperNodeTree)
    (r : CGStrategy × SuperNodeTree) : CGStrategy.loop 0 s t ≠ .ok r := by
  unfold CGStrategy.loop
  intro h
  cases h

/-- [S] a stopped strategy leaves the loop at once (fuel ≥ 1) -/
theorem CGStrategy.loop_of_stop (fuel : Nat) (s : CGStrategy) (t : SuperNodeTree)
    (h : s.stop = true) : CGStrategy.loop (fuel + 1) s t = .ok (s, t) := by
  unfold CGStrategy.loop
  simp only [h, if_true, pure, Except.pure]

/-- [S] **THE LOOP KEEPS A JUNCTION TREE INSIDE THE GRAPH** (and the antichain property) provided
every merge contracts a junction-tree edge -/
theorem cg_loop_hasJT (hTr : TraverseSpec) (hEv : EvaluateSpec) (hMU : MergeUpdateSpec)
    (hMJ : MergeHasJTSpec) (hMA : MergeAntichainSpec) (N nv : Nat) :
    ∀ (fuel : Nat) (s : CGStrategy) (t : SuperNodeTree), CGInv N nv s t → 2 ≤ t.nCliques →
    (∃ J, CGHasJT s t J) → s.loopOnJT fuel t →
    ∀ s' t', CGStrategy.loop fuel s t = .ok (s', t') →
      (∃ J', CGHasJT s' t' J') ∧ (CGAntichain t → CGAntichain t') := by
  intro fuel
  induction fuel with
  | zero =>
    intro s t _ _ _ _ s' t' hl
    exact absurd hl (CGStrategy.loop_zero_ne_ok s t _)
  | succ fuel ih =>
    intro s t hinv h2 hJT hon s' t' hl
    by_cases hstop : s.stop = true
    · rw [CGStrategy.loop_of_stop fuel s t hstop] at hl
      obtain ⟨rfl, rfl⟩ := Prod.mk.inj (Except.ok.inj hl)
      exact ⟨hJT, id⟩
    · unfold CGStrategy.loop at hl
      unfold CGStrategy.loopOnJT at hon
      simp only [hstop, Bool.false_eq_true, if_false] at hl hon
      obtain ⟨p', cand?, htr, hpsz, hcand⟩ := hTr N nv s t hinv h2
      have hinv1 : CGInv N nv { s with p := p' } t := hinv.of_eq rfl rfl hpsz
      obtain ⟨J, hJ⟩ := hJT
      have hJ1 : CGHasJT { s with p := p' } t J := CGHasJT.of_edges_eq (s := s) rfl hJ
      simp only [htr, bind, Except.bind] at hl hon
      cases hc : cand? with
      | none =>
        simp only [hc, pure, Except.pure] at hl
        obtain ⟨rfl, rfl⟩ := Prod.mk.inj (Except.ok.inj hl)
        exact ⟨⟨J, hJ1⟩, id⟩
      | some cand =>
        obtain ⟨r, c⟩ := cand
        have hsome := hcand r c hc
        obtain ⟨v, hv⟩ := Option.isSome_iff_exists.1 hsome
        have hev := hEv N nv { s with p := p' } t hinv1 r c v hv
        simp only [hc, hev] at hl hon
        by_cases hvn : v ≥ 0
        · -- merge
          simp only [hvn, if_true, decide_true] at hl hon
          obtain ⟨⟨J0, hJ0, hmem⟩, hon'⟩ := hon
          obtain ⟨t1, s1, hm, hu, hinv', _, _, hncl, _⟩ :=
            hMU N nv { s with p := p' } t hinv1 r c hsome
          have hJ' : CGHasJT s1 t1 (JT.contract r c J0) :=
            hMJ N nv { s with p := p' } t hinv1 r c hsome J0 hJ0 hmem t1 s1 hm hu
          have hA' : CGAntichain t → CGAntichain t1 := fun hA =>
            hMA N nv { s with p := p' } t hinv1 r c hsome J0 hJ0 hmem hA t1 hm
          simp only [hm, hu] at hl hon'
          by_cases h1 : t1.nCliques = 1
          · simp only [h1, beq_self_eq_true, if_true, pure, Except.pure] at hl
            obtain ⟨rfl, rfl⟩ := Prod.mk.inj (Except.ok.inj hl)
            exact ⟨⟨_, hJ'⟩, hA'⟩
          · have hne : (t1.nCliques == 1) = false := by simpa using h1
            simp only [hne, Bool.false_eq_true, if_false] at hl hon'
            obtain ⟨hJ'', hA''⟩ := ih s1 t1 hinv' (by omega) ⟨_, hJ'⟩ hon' s' t' hl
            exact ⟨hJ'', fun hA => hA'' (hA' hA)⟩
        · -- no merge: `stop`
          simp only [hvn, if_false, decide_false, Bool.false_eq_true, pure, Except.pure,
            updateStrategy_false] at hl
          have hne : (t.nCliques == 1) = false := by
            have : t.nCliques ≠ 1 := by omega
            simpa using this
          simp only [hne, Bool.false_eq_true, if_false] at hl
          exact ih { s with p := p', stop := true } t (hinv1.with_stop true) h2
            ⟨J, CGHasJT.of_edges_eq (s := s) rfl hJ⟩ (CGStrategy.loopOnJT_of_stop fuel _ t rfl) s' t' hl

/-- the per-pattern hypotheses -/
def CGMergesOnJT (L : LPat) : Prop :=
  ∀ t0 s1 t1, SuperNodeTree.new L = .ok t0 → 2 ≤ t0.snode.size →
    CGStrategy.new.initialise t0 = .ok (s1, t1) → s1.loopOnJT (t1.snode.size + 2) t1

def CGExitJT (L : LPat) : Prop :=
  ∀ t0 s1 t1 s t, SuperNodeTree.new L = .ok t0 → 2 ≤ t0.snode.size →
    CGStrategy.new.initialise t0 = .ok (s1, t1) →
    CGStrategy.loop (t1.snode.size + 2) s1 t1 = .ok (s, t) → ∃ J, CGHasJT s t J

/-- [S] the two facts at loop exit together (the common part of `cg_exitJT_of_merges` and
`cg_exit_antichain_of_merges`) -/
theorem cg_exit_of_merges (hInit : InitialiseSpec) (hIJ : InitHasJTSpec) (hTr : TraverseSpec)
    (hEv : EvaluateSpec) (hMU : MergeUpdateSpec) (hMJ : MergeHasJTSpec) (hMA : MergeAntichainSpec)
    {L : LPat} (hf : L.Filled) (hm : CGMergesOnJT L) :
    ∀ t0 s1 t1 s t, SuperNodeTree.new L = .ok t0 → 2 ≤ t0.snode.size →
      CGStrategy.new.initialise t0 = .ok (s1, t1) →
      CGStrategy.loop (t1.snode.size + 2) s1 t1 = .ok (s, t) →
      (∃ J, CGHasJT s t J) ∧ (CGAntichain t1 → CGAntichain t) := by
  intro t0 s1 t1 s t hnew h2 hi hl
  obtain ⟨t0', hnew', hok'⟩ := sntree_new_ok hf
  rw [hnew] at hnew'
  obtain rfl := Except.ok.inj hnew'
  obtain ⟨sa, ta, hia, _, hinv1, hrel⟩ := hInit L t0 hf hok' h2
  rw [hi] at hia
  obtain ⟨rfl, rfl⟩ := Prod.mk.inj (Except.ok.inj hia)
  obtain ⟨sb, tb, J, hib, hJ⟩ := hIJ L t0 hf hok' h2
  rw [hi] at hib
  obtain ⟨rfl, rfl⟩ := Prod.mk.inj (Except.ok.inj hib)
  have hn1 : t1.nCliques = t1.snode.size := by rw [hrel.ncl, hok'.ncl, hrel.size]
  exact cg_loop_hasJT hTr hEv hMU hMJ hMA t0.snode.size L.n (t1.snode.size + 2) s1 t1 hinv1
    (by rw [hn1, hrel.size]; exact h2) ⟨J, hJ⟩ (hm t0 s1 t1 hnew h2 hi) s t hl

/-- [S] if every merge contracts a junction-tree edge, the graph at loop exit contains a junction
tree -/
theorem cg_exitJT_of_merges (hInit : InitialiseSpec) (hIJ : InitHasJTSpec) (hTr : TraverseSpec)
    (hEv : EvaluateSpec) (hMU : MergeUpdateSpec) (hMJ : MergeHasJTSpec) (hMA : MergeAntichainSpec)
    {L : LPat} (hf : L.Filled) (hm : CGMergesOnJT L) : CGExitJT L :=
  fun t0 s1 t1 s t hnew h2 hi hl =>
    (cg_exit_of_merges hInit hIJ hTr hEv hMU hMJ hMA hf hm t0 s1 t1 s t hnew h2 hi hl).1

/-- [S] … and the antichain property survives to loop exit -/
theorem cg_exit_antichain_of_merges (hInit : InitialiseSpec) (hIJ : InitHasJTSpec)
    (hTr : TraverseSpec) (hEv : EvaluateSpec) (hMU : MergeUpdateSpec) (hMJ : MergeHasJTSpec)
    (hMA : MergeAntichainSpec) {L : LPat} (hf : L.Filled) (hm : CGMergesOnJT L) :
    ∀ t0 s1 t1 s t, SuperNodeTree.new L = .ok t0 → 2 ≤ t0.snode.size →
      CGStrategy.new.initialise t0 = .ok (s1, t1) →
      CGStrategy.loop (t1.snode.size + 2) s1 t1 = .ok (s, t) → CGAntichain t1 → CGAntichain t :=
  fun t0 s1 t1 s t hnew h2 hi hl =>
    (cg_exit_of_merges hInit hIJ hTr hEv hMU hMJ hMA hf hm t0 s1 t1 s t hnew h2 hi hl).2

/-! ### non-vacuity -/

/-- the hypothesis `loopOnJT` of `cg_loop_hasJT` is satisfiable with positive fuel: a stopped loop -/
example : ∀ (s : CGStrategy) (t : SuperNodeTree), s.stop = true → s.loopOnJT 5 t :=
  fun s t h => CGStrategy.loopOnJT_of_stop 5 s t h

/-- the run hypothesis of `cg_loop_hasJT` is satisfiable (a stopped strategy returns at once), and
then the conclusion is what went in -/
example (hTr : TraverseSpec) (hEv : EvaluateSpec) (hMU : MergeUpdateSpec) (hMJ : MergeHasJTSpec)
    (hMA : MergeAntichainSpec) (N nv fuel : Nat) (s : CGStrategy) (t : SuperNodeTree)
    (hinv : CGInv N nv s t) (h2 : 2 ≤ t.nCliques) (J : List (Nat × Nat)) (hJ : CGHasJT s t J)
    (hstop : s.stop = true) : ∃ J', CGHasJT s t J' :=
  (cg_loop_hasJT hTr hEv hMU hMJ hMA N nv (fuel + 1) s t hinv h2 ⟨J, hJ⟩
    (CGStrategy.loopOnJT_of_stop _ s t hstop) s t (CGStrategy.loop_of_stop fuel s t hstop)).1

end Clarabel.Chordal
