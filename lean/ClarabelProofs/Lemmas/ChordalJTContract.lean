/-
  Clique-graph merge strategy, JUNCTION-TREE LINK: CONTRACTING AN EDGE OF A JUNCTION TREE.
  Abstract graph theory on lists (vocabulary of `ChordalJunctionTree.lean`, `ChordalKruskal.lean`,
  `ChordalCGJunctionDefs.lean`); no model code is involved.

  `J` is a junction tree (acyclic, running-intersection property) of the clique family `cl` on the
  duplicate-free index list `L`, `{a, b}` is an edge of `J`.  Write `φ = JT.ren a b`
  (`φ b = a`, identity elsewhere), `J' = JT.contract a b J`, `L' = L.erase b`.

  * `JT.mem_contract`, `JT.contract_sub`     : the edges of `J'` and where their ends live;
  * `JT.conn_fwd_at`, `JT.conn_fwd`          : `φ` maps paths of `J` (inside `C ∋ v`) to paths of `J'`;
  * `JT.conn_bwd`                            : paths of `J'` are paths of `J`;
  * `JT.rip_contract`                        : running-intersection property of `J'` for the merged family;
  * `JT.forest_contract`                     : `J'` is acyclic (by counting classes: `forest_iff_count`);
  * `JT.not_conn_removed`                    : in a forest, the ends of an edge are not connected by
                                               the other edges;
  * `JT.contract_spec`                       : `JT.ContractSpec`;
  * `JT.antichain_contract`                  : `JT.AntichainContractSpec`.
-/
import ClarabelProofs.Lemmas.ChordalCGJunctionDefs

namespace Clarabel.Chordal
open Clarabel

namespace JT

/-! ## elementary facts on `isEdge`, `norm`, `ren`, `mergeCl`, `contract` -/

/-- [S] `isEdge a b e` says `e` is `(a, b)` or `(b, a)` -/
theorem isEdge_iff (a b : Nat) (e : Nat × Nat) :
    isEdge a b e = true ↔ e = (a, b) ∨ e = (b, a) := by
  obtain ⟨p, q⟩ := e
  simp [isEdge, Prod.ext_iff]

/-- [S] `norm` keeps or flips a pair -/
theorem norm_cases (p q : Nat) : norm (p, q) = (p, q) ∨ norm (p, q) = (q, p) := by
  rcases Nat.le_total p q with h | h
  · right; simp [norm, Nat.max_eq_right h, Nat.min_eq_left h]
  · left; simp [norm, Nat.max_eq_left h, Nat.min_eq_right h]

/-- [S] the renaming never returns the retired index -/
theorem ren_ne {a b : Nat} (hab : a ≠ b) (x : Nat) : ren a b x ≠ b := by
  unfold ren
  split
  · exact hab
  · assumption

/-- [S] the renaming is the identity away from `b` -/
theorem ren_of_ne {a b x : Nat} (h : x ≠ b) : ren a b x = x := by simp [ren, h]

/-- [S] the renaming sends `b` to `a` -/
theorem ren_b (a b : Nat) : ren a b b = a := by simp [ren]

/-- [S] the renaming stays inside a list that contains `a` -/
theorem ren_mem {a b : Nat} {L : List Nat} (ha : a ∈ L) {x : Nat} (hx : x ∈ L) :
    ren a b x ∈ L := by
  unfold ren
  split <;> assumption

/-- [S] the merged family away from `a`, `b` -/
theorem mergeCl_other {cl : Nat → Nat → Bool} {a b c : Nat} (hca : c ≠ a) (hcb : c ≠ b) (v : Nat) :
    mergeCl cl a b c v = cl c v := by
  simp [mergeCl, hca, hcb]

/-- [S] the merged family at `a` -/
theorem mergeCl_a (cl : Nat → Nat → Bool) (a b v : Nat) :
    mergeCl cl a b a v = (cl a v || cl b v) := by
  simp [mergeCl]

/-- [S] if `v ∈ C_p` then `v` lies in the merged clique at `φ p` -/
theorem mergeCl_ren {cl : Nat → Nat → Bool} {a b : Nat} {p v : Nat}
    (h : cl p v = true) : mergeCl cl a b (ren a b p) v = true := by
  by_cases hp : p = b
  · subst hp
    rw [ren_b, mergeCl_a, h, Bool.or_true]
  · rw [ren_of_ne hp]
    by_cases hpa : p = a
    · subst hpa
      rw [mergeCl_a, h, Bool.true_or]
    · rw [mergeCl_other hpa hp, h]

/-- [S] the edges of the contracted list -/
theorem mem_contract {a b : Nat} {J : List (Nat × Nat)} {e' : Nat × Nat} :
    e' ∈ contract a b J ↔
      ∃ e ∈ J, isEdge a b e = false ∧ norm (ren a b e.1, ren a b e.2) = e' := by
  simp only [contract, List.mem_map, List.mem_filter, Bool.not_eq_eq_eq_not, Bool.not_true]
  constructor
  · rintro ⟨e, ⟨h1, h2⟩, h3⟩; exact ⟨e, h1, h2, h3⟩
  · rintro ⟨e, h1, h2, h3⟩; exact ⟨e, ⟨h1, h2⟩, h3⟩

/-- [S] a filter that rejects some element is strictly shorter -/
theorem length_filter_lt {β : Type} (p : β → Bool) : ∀ l : List β, (∃ x ∈ l, p x = false) →
    (l.filter p).length < l.length := by
  intro l
  induction l with
  | nil => rintro ⟨x, hx, _⟩; simp at hx
  | cons y l ih =>
    rintro ⟨x, hx, hpx⟩
    by_cases hy : p y = true
    · rw [List.filter_cons_of_pos hy]
      rcases List.mem_cons.1 hx with rfl | hx
      · rw [hy] at hpx; cases hpx
      · have := ih ⟨x, hx, hpx⟩
        simp only [List.length_cons]; omega
    · rw [List.filter_cons_of_neg hy]
      have := List.length_filter_le p l
      simp only [List.length_cons]; omega

/-- [S] the contraction removes at least the contracted edge -/
theorem contract_length_lt {a b : Nat} {J : List (Nat × Nat)} (hE : (a, b) ∈ J ∨ (b, a) ∈ J) :
    (contract a b J).length + 1 ≤ J.length := by
  have : (J.filter (fun e => !isEdge a b e)).length < J.length := by
    apply length_filter_lt
    rcases hE with h | h
    · exact ⟨(a, b), h, by simp [isEdge]⟩
    · exact ⟨(b, a), h, by simp [isEdge]⟩
  simp only [contract, List.length_map]
  omega

/-- [S] the ends of the contracted edges are cliques of `L` other than `b` -/
theorem contract_sub {a b : Nat} {L : List Nat} {J : List (Nat × Nat)} (hL : L.Nodup) (hab : a ≠ b)
    (ha : a ∈ L) (hJL : ∀ e ∈ J, e.1 ∈ L ∧ e.2 ∈ L) :
    ∀ e ∈ contract a b J, e.1 ∈ L.erase b ∧ e.2 ∈ L.erase b := by
  intro e' he'
  obtain ⟨e, heJ, _, rfl⟩ := mem_contract.1 he'
  have h1 : ren a b e.1 ∈ L.erase b :=
    hL.mem_erase_iff.2 ⟨ren_ne hab _, ren_mem ha (hJL e heJ).1⟩
  have h2 : ren a b e.2 ∈ L.erase b :=
    hL.mem_erase_iff.2 ⟨ren_ne hab _, ren_mem ha (hJL e heJ).2⟩
  rcases norm_cases (ren a b e.1) (ren a b e.2) with hn | hn <;> rw [hn]
  · exact ⟨h1, h2⟩
  · exact ⟨h2, h1⟩

/-! ## transporting connectivity -/

/-- [S] a vertex map that sends every edge to a connected pair sends connected pairs to connected
pairs -/
theorem conn_map {l l' : List (Nat × Nat)} (f : Nat → Nat)
    (h : ∀ e ∈ l, Conn l' (f e.1) (f e.2)) {x y : Nat} (hc : Conn l x y) :
    Conn l' (f x) (f y) := by
  induction hc with
  | rel a b hab => exact h (a, b) hab
  | refl a => exact Conn.refl _ _
  | symm a b _ ih => exact ih.symm
  | trans a b c _ _ ih1 ih2 => exact ih1.trans ih2

/-- [S] FORWARD, inside the cliques containing `v`: a path of `J` along cliques containing `v` is
sent by the renaming to a path of the contracted list along merged cliques containing `v` -/
theorem conn_fwd_at {cl : Nat → Nat → Bool} {a b : Nat} (hab : a ≠ b) (J : List (Nat × Nat))
    (v : Nat) {x y : Nat} (hc : Conn (JT.atV cl v J) x y) :
    Conn (JT.atV (mergeCl cl a b) v (contract a b J)) (ren a b x) (ren a b y) := by
  refine conn_map (ren a b) ?_ hc
  intro e he
  obtain ⟨heJ, h1, h2⟩ := mem_at.1 he
  by_cases hE : isEdge a b e = true
  · rcases (isEdge_iff a b e).1 hE with rfl | rfl
    · show Conn _ (ren a b a) (ren a b b)
      rw [ren_b, ren_of_ne hab]
      exact Conn.refl _ _
    · show Conn _ (ren a b b) (ren a b a)
      rw [ren_b, ren_of_ne hab]
      exact Conn.refl _ _
  · have hE' : isEdge a b e = false := by simpa using hE
    have hm : norm (ren a b e.1, ren a b e.2) ∈ contract a b J :=
      mem_contract.2 ⟨e, heJ, hE', rfl⟩
    have m1 : mergeCl cl a b (ren a b e.1) v = true := mergeCl_ren h1
    have m2 : mergeCl cl a b (ren a b e.2) v = true := mergeCl_ren h2
    rcases norm_cases (ren a b e.1) (ren a b e.2) with hn | hn <;> rw [hn] at hm
    · exact Conn.edge (mem_at.2 ⟨hm, m1, m2⟩)
    · exact (Conn.edge (mem_at.2 ⟨hm, m2, m1⟩)).symm

/-- [S] FORWARD: the renaming sends paths of `J` to paths of the contracted list -/
theorem conn_fwd {a b : Nat} (hab : a ≠ b) (J : List (Nat × Nat)) {x y : Nat} (hc : Conn J x y) :
    Conn (contract a b J) (ren a b x) (ren a b y) := by
  have h1 : Conn (JT.atV (fun _ _ => true) 0 J) x y :=
    hc.mono (fun e he => mem_at.2 ⟨he, rfl, rfl⟩)
  exact (conn_fwd_at (cl := fun _ _ => true) hab J 0 h1).mono (fun e he => (mem_at.1 he).1)

/-- [S] BACKWARD: a path of the contracted list is a path of `J` -/
theorem conn_bwd {a b : Nat} {J : List (Nat × Nat)} (hE : (a, b) ∈ J ∨ (b, a) ∈ J) {x y : Nat}
    (hc : Conn (contract a b J) x y) : Conn J x y := by
  have hab : Conn J a b := by
    rcases hE with h | h
    · exact Conn.edge h
    · exact (Conn.edge h).symm
  have hφ : ∀ p, Conn J (ren a b p) p := by
    intro p
    by_cases hp : p = b
    · subst hp; rw [ren_b]; exact hab
    · rw [ren_of_ne hp]; exact Conn.refl _ _
  refine Conn.of_redundant (fun e' he' => .inr ?_) hc
  obtain ⟨e, heJ, _, rfl⟩ := mem_contract.1 he'
  have h : Conn J (ren a b e.1) (ren a b e.2) :=
    (hφ e.1).trans ((Conn.edge (a := e.1) (b := e.2) heJ).trans (hφ e.2).symm)
  rcases norm_cases (ren a b e.1) (ren a b e.2) with hn | hn <;> rw [hn]
  · exact h
  · exact h.symm

/-! ## the running-intersection property of the contracted tree -/

/-- [S] a merged clique containing `v` comes from a clique of `L` containing `v` -/
theorem merge_preimage {cl : Nat → Nat → Bool} {a b : Nat} {L : List Nat} (hL : L.Nodup)
    (ha : a ∈ L) (hb : b ∈ L) {x' v : Nat} (hx' : x' ∈ L.erase b)
    (h : mergeCl cl a b x' v = true) : ∃ x ∈ L, cl x v = true ∧ ren a b x = x' := by
  obtain ⟨hne, hxL⟩ := hL.mem_erase_iff.1 hx'
  by_cases hxa : x' = a
  · subst hxa
    rw [mergeCl_a, Bool.or_eq_true] at h
    rcases h with h | h
    · exact ⟨x', ha, h, ren_of_ne hne⟩
    · exact ⟨b, hb, h, ren_b _ _⟩
  · rw [mergeCl_other hxa hne] at h
    exact ⟨x', hxL, h, ren_of_ne hne⟩

/-- [S] **the contracted list has the running-intersection property for the merged family** -/
theorem rip_contract {cl : Nat → Nat → Bool} {L : List Nat} {J : List (Nat × Nat)} {a b : Nat}
    (hL : L.Nodup) (hab : a ≠ b) (ha : a ∈ L) (hb : b ∈ L) (hrip : RIP cl L J) :
    RIP (mergeCl cl a b) (L.erase b) (contract a b J) := by
  intro v x' hx' y' hy' hxv hyv
  obtain ⟨x, hxL, hxc, rfl⟩ := merge_preimage hL ha hb hx' hxv
  obtain ⟨y, hyL, hyc, rfl⟩ := merge_preimage hL ha hb hy' hyv
  exact conn_fwd_at hab J v (hrip v x hxL y hyL hxc hyc)

/-! ## acyclicity of the contracted tree, by counting classes -/

/-- [S] a duplicate-free list of pairwise separated vertices is at most as long as a system of
representatives -/
theorem indep_length_le {l : List (Nat × Nat)} {L r r' : List Nat} (hr : Reps l L r)
    (hnd : r'.Nodup) (hsub : ∀ x ∈ r', x ∈ L)
    (hsep : ∀ x ∈ r', ∀ y ∈ r', Conn l x y → x = y) : r'.length ≤ r.length := by
  classical
  let f : Nat → Nat := fun x => if h : x ∈ L then Classical.choose (hr.cover x h) else x
  have hf : ∀ x (h : x ∈ L), f x ∈ r ∧ Conn l x (f x) := by
    intro x h
    have := Classical.choose_spec (hr.cover x h)
    simp only [f, dif_pos h]
    exact this
  have hnd' : (r'.map f).Nodup := by
    refine List.Nodup.map_on ?_ hnd
    intro x hx y hy hxy
    have h1 := (hf x (hsub x hx)).2
    have h2 := (hf y (hsub y hy)).2
    rw [← hxy] at h2
    exact hsep x hx y hy (h1.trans h2.symm)
  have hss : r'.map f ⊆ r := by
    intro z hz
    obtain ⟨x, hx, rfl⟩ := List.mem_map.1 hz
    exact (hf x (hsub x hx)).1
  have := (hnd'.subperm hss).length_le
  simpa using this

/-- [S] **the contracted list is acyclic** -/
theorem forest_contract {L : List Nat} {J : List (Nat × Nat)} {a b : Nat}
    (hL : L.Nodup) (hab : a ≠ b) (ha : a ∈ L) (hF : ForestFrom [] J)
    (hJL : ∀ e ∈ J, e.1 ∈ L ∧ e.2 ∈ L) (hE : (a, b) ∈ J ∨ (b, a) ∈ J) :
    ForestFrom [] (contract a b J) := by
  have hJ'L' := contract_sub hL hab ha hJL
  have hJ'L : ∀ e ∈ contract a b J, e.1 ∈ L ∧ e.2 ∈ L := fun e he =>
    ⟨List.mem_of_mem_erase (hJ'L' e he).1, List.mem_of_mem_erase (hJ'L' e he).2⟩
  obtain ⟨R, hR⟩ := reps_exists hL J hJL
  obtain ⟨R1, hR1⟩ := reps_exists hL (contract a b J) hJ'L
  have hcount := (forest_iff_count hL hJL hR).1 hF
  have hge := count_ge hL hJ'L hR1
  have hlen := contract_length_lt hE
  have hle : (R1.erase b).length ≤ R.length := by
    refine indep_length_le hR (hR1.nodup.erase _)
      (fun x hx => hR1.sub x (List.mem_of_mem_erase hx)) ?_
    intro x hx y hy hc
    obtain ⟨hxb, hxR⟩ := hR1.nodup.mem_erase_iff.1 hx
    obtain ⟨hyb, hyR⟩ := hR1.nodup.mem_erase_iff.1 hy
    have := conn_fwd hab J hc
    rw [ren_of_ne hxb, ren_of_ne hyb] at this
    exact hR1.sep x hxR y hyR this
  have her : R1.length ≤ (R1.erase b).length + 1 := by
    rw [List.length_erase]
    split <;> omega
  exact (forest_iff_count hL hJ'L hR1).2 (by omega)

/-- [S] **contracting an edge of a junction tree gives a junction tree of the merged family** -/
theorem contract_spec : ContractSpec := by
  intro cl L J a b hL hab ha hb hF hJL hrip hE
  exact ⟨forest_contract hL hab ha hF hJL hE, contract_sub hL hab ha hJL,
    rip_contract hL hab ha hb hrip⟩

/-! ## the antichain property -/

/-- [S] IN A FOREST THE ENDS OF AN EDGE ARE NOT CONNECTED BY THE OTHER EDGES -/
theorem not_conn_removed {L : List Nat} {J : List (Nat × Nat)} {a b : Nat} (hL : L.Nodup)
    (hF : ForestFrom [] J) (hJL : ∀ e ∈ J, e.1 ∈ L ∧ e.2 ∈ L) (hE : (a, b) ∈ J ∨ (b, a) ∈ J) :
    ¬ Conn (J.filter (fun e => !isEdge a b e)) a b := by
  intro hc
  have hsub : ∀ e ∈ J.filter (fun e => !isEdge a b e), e ∈ J := fun e he => (List.mem_filter.1 he).1
  have hJ0L : ∀ e ∈ J.filter (fun e => !isEdge a b e), e.1 ∈ L ∧ e.2 ∈ L :=
    fun e he => hJL e (hsub e he)
  obtain ⟨R, hR⟩ := reps_exists hL J hJL
  have hcount := (forest_iff_count hL hJL hR).1 hF
  have hback : ∀ {p q : Nat}, Conn J p q → Conn (J.filter (fun e => !isEdge a b e)) p q := by
    intro p q h
    refine Conn.of_redundant (fun e he => ?_) h
    by_cases hE' : isEdge a b e = true
    · right
      rcases (isEdge_iff a b e).1 hE' with rfl | rfl
      · exact hc
      · exact hc.symm
    · left
      exact List.mem_filter.2 ⟨he, by simpa using hE'⟩
  have hR0 : Reps (J.filter (fun e => !isEdge a b e)) L R :=
    ⟨hR.nodup, hR.sub, fun v hv => by
        obtain ⟨r, hr, hcr⟩ := hR.cover v hv
        exact ⟨r, hr, hback hcr⟩,
      fun r hr r' hr' hcc => hR.sep r hr r' hr' (hcc.mono hsub)⟩
  have h1 := count_ge hL hJ0L hR0
  have h2 : (J.filter (fun e => !isEdge a b e)).length < J.length := by
    apply length_filter_lt
    rcases hE with h | h
    · exact ⟨(a, b), h, by simp [isEdge]⟩
    · exact ⟨(b, a), h, by simp [isEdge]⟩
  omega

/-- [S] **merging along an edge of a junction tree keeps the cliques an antichain** -/
theorem antichain_contract : AntichainContractSpec := by
  intro cl L J a b hL hab ha hb hF hJL hrip hE hA x hx y hy hxy
  obtain ⟨hxb, hxL⟩ := hL.mem_erase_iff.1 hx
  obtain ⟨hyb, hyL⟩ := hL.mem_erase_iff.1 hy
  by_cases hxa : x = a
  · -- `x = a`: a vertex of `C_a` outside `C_y`
    subst hxa
    have hya : y ≠ x := fun h => hxy h.symm
    obtain ⟨v, h1, h2⟩ := hA x hxL y hyL hxy
    refine ⟨v, ?_, ?_⟩
    · rw [mergeCl_a, h1, Bool.true_or]
    · rw [mergeCl_other hya hyb, h2]
  · by_cases hya : y = a
    · -- `y = a`: a vertex of `C_x` outside `C_a ∪ C_b`
      subst hya
      by_contra hno
      have hall : ∀ v, cl x v = true → cl y v = true ∨ cl b v = true := by
        intro v hv
        by_contra h
        apply hno
        refine ⟨v, ?_, ?_⟩
        · rw [mergeCl_other hxa hxb, hv]
        · rw [mergeCl_a]
          cases h1 : cl y v <;> cases h2 : cl b v <;> simp_all
      obtain ⟨u, hxu, hau⟩ := hA x hxL y hyL hxa
      have hbu : cl b u = true := (hall u hxu).resolve_left (by simp [hau])
      obtain ⟨u', hxu', hbu'⟩ := hA x hxL b hb hxb
      have hau' : cl y u' = true := (hall u' hxu').resolve_right (by simp [hbu'])
      have c1 : Conn (J.filter (fun e => !isEdge y b e)) x b := by
        refine (hrip u x hxL b hb hxu hbu).mono (fun e he => ?_)
        obtain ⟨heJ, e1, e2⟩ := mem_at.1 he
        refine List.mem_filter.2 ⟨heJ, ?_⟩
        by_cases hEe : isEdge y b e = true
        · rcases (isEdge_iff y b e).1 hEe with rfl | rfl
          · rw [hau] at e1; cases e1
          · rw [hau] at e2; cases e2
        · simpa using hEe
      have c2 : Conn (J.filter (fun e => !isEdge y b e)) x y := by
        refine (hrip u' x hxL y hyL hxu' hau').mono (fun e he => ?_)
        obtain ⟨heJ, e1, e2⟩ := mem_at.1 he
        refine List.mem_filter.2 ⟨heJ, ?_⟩
        by_cases hEe : isEdge y b e = true
        · rcases (isEdge_iff y b e).1 hEe with rfl | rfl
          · rw [hbu'] at e2; cases e2
          · rw [hbu'] at e1; cases e1
        · simpa using hEe
      exact not_conn_removed hL hF hJL hE (c2.symm.trans c1)
    · -- neither is `a`: unchanged
      obtain ⟨v, h1, h2⟩ := hA x hxL y hyL hxy
      exact ⟨v, by rw [mergeCl_other hxa hxb, h1], by rw [mergeCl_other hya hyb, h2]⟩

/-! ## non-vacuity: the three-clique path `C₀ = {0,1}`, `C₁ = {1,2}`, `C₂ = {2,3}` -/

namespace Ex

/-- [S] the three cliques of the path are an antichain -/
theorem cl3_antichain : Antichain cl3 [0, 1, 2] := by
  intro a ha b hb hab
  have ha' : a = 0 ∨ a = 1 ∨ a = 2 := by simpa using ha
  have hb' : b = 0 ∨ b = 1 ∨ b = 2 := by simpa using hb
  rcases ha' with rfl | rfl | rfl <;> rcases hb' with rfl | rfl | rfl <;>
    first
      | exact absurd rfl hab
      | exact ⟨0, by decide, by decide⟩
      | exact ⟨1, by decide, by decide⟩
      | exact ⟨2, by decide, by decide⟩
      | exact ⟨3, by decide, by decide⟩

/-- non-vacuity of `contract_spec`: contracting `1 — 0` in `1 — 0, 2 — 1` leaves the junction tree
`2 — 1` of `C₀ ∪ C₁ = {0,1,2}` (at `1`), `C₂ = {2,3}` -/
example : contract 1 0 J3 = [(2, 1)] ∧ ForestFrom [] (contract 1 0 J3) ∧
    (∀ e ∈ contract 1 0 J3, e.1 ∈ [1, 2] ∧ e.2 ∈ [1, 2]) ∧
    RIP (mergeCl cl3 1 0) [1, 2] (contract 1 0 J3) := by
  have h := contract_spec cl3 [0, 1, 2] J3 1 0 (by decide) (by decide) (by decide) (by decide)
    J3_forest (by decide) J3_rip (.inl (by decide))
  exact ⟨by decide, h⟩

/-- non-vacuity of `contract_spec`, the other edge: contracting `2 — 1` (`2` retired into `1`)
leaves `1 — 0` -/
example : contract 1 2 J3 = [(1, 0)] ∧ RIP (mergeCl cl3 1 2) [0, 1] (contract 1 2 J3) := by
  have h := contract_spec cl3 [0, 1, 2] J3 1 2 (by decide) (by decide) (by decide) (by decide)
    J3_forest (by decide) J3_rip (.inr (by decide))
  exact ⟨by decide, h.2.2⟩

/-- non-vacuity of `antichain_contract`: `{0,1,2}`, `{2,3}` is an antichain -/
example : Antichain (mergeCl cl3 1 0) [1, 2] :=
  antichain_contract cl3 [0, 1, 2] J3 1 0 (by decide) (by decide) (by decide) (by decide)
    J3_forest (by decide) J3_rip (.inl (by decide)) cl3_antichain

/-- non-vacuity of `antichain_contract`, the other edge: `{0,1}`, `{1,2,3}` is an antichain -/
example : Antichain (mergeCl cl3 1 2) [0, 1] :=
  antichain_contract cl3 [0, 1, 2] J3 1 2 (by decide) (by decide) (by decide) (by decide)
    J3_forest (by decide) J3_rip (.inr (by decide)) cl3_antichain

end Ex

end JT

end Clarabel.Chordal
