/-
  C16, dense matrix model: `block_concatenate.rs` (hcat / vcat placement, the error
  condition) and the column / row sums of `matrix_math.rs`.
-/
import ClarabelProofs.Lemmas.DenseSym

namespace Clarabel.Dense
open Clarabel

variable {α : Type}

/-- a concatenation of `n` chunks of equal length `c`: length and entries -/
theorem flatMap_uniform (f : Nat → List α) (c : Nat) : ∀ (n : Nat), (∀ j, j < n → (f j).length = c) →
    ((List.range n).flatMap f).length = n * c ∧
    ∀ i j, i < c → j < n → ((List.range n).flatMap f)[i + c * j]? = (f j)[i]? := by
  intro n
  induction n with
  | zero => intro _; exact ⟨by simp, fun i j _ hj => by omega⟩
  | succ n ih =>
    intro h
    obtain ⟨ih1, ih2⟩ := ih (fun j hj => h j (by omega))
    have hn : (f n).length = c := h n (by omega)
    rw [List.range_succ, List.flatMap_append]
    simp only [List.flatMap_cons, List.flatMap_nil, List.append_nil]
    refine ⟨by rw [List.length_append, ih1, hn]; ring, ?_⟩
    intro i j hi hj
    by_cases hjn : j < n
    · rw [List.getElem?_append_left (by rw [ih1]; calc i + c * j < c + c * j := by omega
        _ = c * (j + 1) := by ring
        _ ≤ c * n := Nat.mul_le_mul_left _ hjn
        _ = n * c := by ring)]
      exact ih2 i j hi hjn
    · have : j = n := by omega
      subst this
      rw [List.getElem?_append_right (by rw [ih1]; nlinarith)]
      rw [ih1]
      congr 1
      have : c * j = j * c := by ring
      omega

theorem flatMap_single {β γ : Type} (l : List β) (g : β → γ) :
    l.flatMap (fun x => [g x]) = l.map g := by
  induction l with
  | nil => rfl
  | cons a t ih => simp [List.flatMap_cons, ih]

/-- the column slices of a well-formed matrix, as a pure function -/
def colList (A : Dense α) (col : Nat) : List α :=
  (A.data.extract (col * A.m) ((col + 1) * A.m)).toList

theorem colSlice_eq (A : Dense α) (hA : WF A) {col : Nat} (hc : col < A.n) :
    colSlice A col = .ok (A.data.extract (col * A.m) ((col + 1) * A.m)) := by
  have hle : (col + 1) * A.m ≤ A.data.size := by
    rw [hA, Nat.mul_comm]; exact Nat.mul_le_mul_left _ hc
  unfold colSlice sliceE
  simp [hc, Nat.not_lt.mpr hle]
  rfl

theorem colList_length (A : Dense α) (hA : WF A) {col : Nat} (hc : col < A.n) :
    (colList A col).length = A.m := by
  have hle : (col + 1) * A.m ≤ A.data.size := by
    rw [hA, Nat.mul_comm]; exact Nat.mul_le_mul_left _ hc
  simp only [colList, Array.length_toList, Array.size_extract]
  rw [Nat.min_eq_left hle, Nat.add_mul]; omega

theorem colList_getElem? (A : Dense α) (hA : WF A) {col i : Nat} (hc : col < A.n) (hi : i < A.m) :
    (colList A col)[i]? = at? A i col := by
  have hle : (col + 1) * A.m ≤ A.data.size := by
    rw [hA, Nat.mul_comm]; exact Nat.mul_le_mul_left _ hc
  simp only [colList, Array.getElem?_toList, at?, Array.getElem?_extract]
  have : i < min ((col + 1) * A.m) A.data.size - col * A.m := by
    rw [Nat.min_eq_left hle, Nat.add_mul]; omega
  simp only [this, ↓reduceIte]
  congr 1
  rw [Nat.mul_comm, Nat.add_comm]

/-- [S] `hcat(A, B)` of well-formed matrices with the same number of rows: `[A B]` -/
theorem hcat_spec (A B : Dense α) (hA : WF A) (hB : WF B) (hm : A.m = B.m) :
    ∃ R, hcat A B = .ok R ∧ R.m = A.m ∧ R.n = A.n + B.n ∧ WF R ∧
      (∀ i j, i < A.m → j < A.n → at? R i j = at? A i j) ∧
      (∀ i j, i < A.m → j < B.n → at? R i (A.n + j) = at? B i j) := by
  let f : Nat → List α := fun j => if j < A.n then colList A j else colList B (j - A.n)
  have hf : ∀ j, j < A.n + B.n → (f j).length = A.m := by
    intro j hj
    simp only [f]
    split
    · exact colList_length A hA (by assumption)
    · rw [colList_length B hB (by omega), hm]
  obtain ⟨hlen, hget⟩ := flatMap_uniform f A.m (A.n + B.n) hf
  have hsplit : (List.range (A.n + B.n)).flatMap f =
      (List.range A.n).flatMap (colList A) ++ (List.range B.n).flatMap (colList B) := by
    rw [List.range_add, List.flatMap_append, List.flatMap_map]
    congr 1
    · apply List.flatMap_congr
      intro j hj
      simp [f, List.mem_range.mp hj]
    · apply List.flatMap_congr
      intro j _
      simp [f]
  refine ⟨⟨A.m, A.n + B.n, ((List.range (A.n + B.n)).flatMap f).toArray⟩, ?_, rfl, rfl, ?_, ?_, ?_⟩
  · unfold hcat hvcat
    have hchk : hvcatDimCheck [[A, B]] = true := by
      simp [hvcatDimCheck, hm]
    simp only [hchk, Bool.not_true, Bool.false_eq_true, ↓reduceIte]
    have hpieces : ([A, B].zipIdx.flatMap fun bk =>
          (List.range bk.1.n).flatMap fun col => [[A, B]].map fun br => (br[bk.2]?, col)) =
        (List.range A.n).map (fun col => (some A, col)) ++ (List.range B.n).map (fun col => (some B, col)) := by
      simp [List.zipIdx, List.flatMap_cons, List.flatMap_nil, flatMap_single]
    rw [hpieces, List.mapM_append]
    rw [mapM_ok ((List.range A.n).map (fun col => (some A, col))) _
        (fun q => match q.1 with
          | some b => b.data.extract (q.2 * b.m) ((q.2 + 1) * b.m)
          | none => #[]) (by
      intro q hq
      obtain ⟨col, hcol, rfl⟩ := List.mem_map.mp hq
      exact colSlice_eq A hA (List.mem_range.mp hcol))]
    rw [mapM_ok ((List.range B.n).map (fun col => (some B, col))) _
        (fun q => match q.1 with
          | some b => b.data.extract (q.2 * b.m) ((q.2 + 1) * b.m)
          | none => #[]) (by
      intro q hq
      obtain ⟨col, hcol, rfl⟩ := List.mem_map.mp hq
      exact colSlice_eq B hB (List.mem_range.mp hcol))]
    show new _ _ _ = _
    have hdata : ((List.map (fun q : Option (Dense α) × Nat => match q.1 with
            | some b => b.data.extract (q.2 * b.m) ((q.2 + 1) * b.m)
            | none => #[]) ((List.range A.n).map (fun col => (some A, col))) ++
          List.map (fun q : Option (Dense α) × Nat => match q.1 with
            | some b => b.data.extract (q.2 * b.m) ((q.2 + 1) * b.m)
            | none => #[]) ((List.range B.n).map (fun col => (some B, col)))).map Array.toList).flatten =
        (List.range (A.n + B.n)).flatMap f := by
      rw [hsplit]
      simp only [List.map_append, List.map_map, List.flatten_append]
      congr 1 <;> (rw [List.flatMap_def]; congr 1)
    rw [hdata]
    simp only [List.map_cons, List.map_nil, List.foldl_cons, List.foldl_nil, Nat.zero_add]
    apply new_ok
    simp only [List.size_toArray, hlen]; ring
  · simp only [WF, List.size_toArray, hlen]; ring
  · intro i j hi hj
    simp only [at?, List.getElem?_toArray]
    rw [hget i j hi (by omega)]
    simp only [f, hj, ↓reduceIte]
    exact colList_getElem? A hA hj hi
  · intro i j hi hj
    simp only [at?, List.getElem?_toArray]
    rw [hget i (A.n + j) hi (by omega)]
    have : ¬ A.n + j < A.n := by omega
    simp only [f, this, ↓reduceIte, Nat.add_sub_cancel_left]
    rw [colList_getElem? B hB hj (by omega)]
    simp only [at?, hm]

/-- [S] `hcat` of matrices with different row counts is `IncompatibleDimension` -/
theorem hcat_error (A B : Dense α) (hm : A.m ≠ B.m) :
    hcat A B = .error (.err "IncompatibleDimension") := by
  unfold hcat hvcat
  have hchk : hvcatDimCheck [[A, B]] = false := by
    simp [hvcatDimCheck, Ne.symm hm]
  simp only [hchk, Bool.not_false, ↓reduceIte]
  rfl

theorem flatten_map_flatMap {β γ : Type} (l : List β) (h : β → List γ) (g : γ → List α) :
    ((l.flatMap h).map g).flatten = l.flatMap (fun x => ((h x).map g).flatten) := by
  induction l with
  | nil => rfl
  | cons a t ih => simp [List.flatMap_cons, ih]

/-- [S] `vcat(A, B)` of well-formed matrices with the same number of columns: `[A; B]` -/
theorem vcat_spec (A B : Dense α) (hA : WF A) (hB : WF B) (hn : A.n = B.n) :
    ∃ R, vcat A B = .ok R ∧ R.m = A.m + B.m ∧ R.n = A.n ∧ WF R ∧
      (∀ i j, i < A.m → j < A.n → at? R i j = at? A i j) ∧
      (∀ i j, i < B.m → j < A.n → at? R (A.m + i) j = at? B i j) := by
  let f : Nat → List α := fun j => colList A j ++ colList B j
  have hf : ∀ j, j < A.n → (f j).length = A.m + B.m := by
    intro j hj
    simp only [f, List.length_append]
    rw [colList_length A hA hj, colList_length B hB (by omega)]
  obtain ⟨hlen, hget⟩ := flatMap_uniform f (A.m + B.m) A.n hf
  let G : Option (Dense α) × Nat → Array α := fun q => match q.1 with
    | some b => b.data.extract (q.2 * b.m) ((q.2 + 1) * b.m)
    | none => #[]
  refine ⟨⟨A.m + B.m, A.n, ((List.range A.n).flatMap f).toArray⟩, ?_, rfl, rfl, ?_, ?_, ?_⟩
  · unfold vcat hvcat
    have hchk : hvcatDimCheck [[A], [B]] = true := by
      simp [hvcatDimCheck, hn]
    simp only [hchk, Bool.not_true, Bool.false_eq_true, ↓reduceIte]
    have hpieces : ([A].zipIdx.flatMap fun bk =>
          (List.range bk.1.n).flatMap fun col => [[A], [B]].map fun br => (br[bk.2]?, col)) =
        (List.range A.n).flatMap (fun col => [(some A, col), (some B, col)]) := by
      simp [List.zipIdx, List.flatMap_cons, List.flatMap_nil]
    rw [hpieces]
    rw [mapM_ok _ _ G (by
      intro q hq
      obtain ⟨col, hcol, hq'⟩ := List.mem_flatMap.mp hq
      have hc := List.mem_range.mp hcol
      simp only [List.mem_cons, List.not_mem_nil, or_false] at hq'
      rcases hq' with rfl | rfl
      · exact colSlice_eq A hA hc
      · exact colSlice_eq B hB (by omega))]
    show new _ _ _ = _
    have hdata : ((((List.range A.n).flatMap (fun col => [(some A, col), (some B, col)])).map G).map
        Array.toList).flatten = (List.range A.n).flatMap f := by
      rw [List.map_map, flatten_map_flatMap]
      apply List.flatMap_congr
      intro j _
      simp [f, G, colList]
    rw [hdata]
    simp only [List.map_cons, List.map_nil, List.foldl_cons, List.foldl_nil, Nat.zero_add]
    apply new_ok
    simp only [List.size_toArray, hlen]; ring
  · simp only [WF, List.size_toArray, hlen]; ring
  · intro i j hi hj
    simp only [at?, List.getElem?_toArray]
    rw [hget i j (by omega) hj]
    simp only [f]
    rw [List.getElem?_append_left (by rw [colList_length A hA hj]; exact hi)]
    exact colList_getElem? A hA hj hi
  · intro i j hi hj
    simp only [at?, List.getElem?_toArray]
    have : A.m + i + (A.m + B.m) * j = (A.m + i) + (A.m + B.m) * j := rfl
    rw [hget (A.m + i) j (by omega) hj]
    simp only [f]
    rw [List.getElem?_append_right (by rw [colList_length A hA hj]; omega)]
    rw [colList_length A hA hj, Nat.add_sub_cancel_left]
    exact colList_getElem? B hB (by omega) hi

/-- [S] `vcat` of matrices with different column counts is `IncompatibleDimension` -/
theorem vcat_error (A B : Dense α) (hn : A.n ≠ B.n) :
    vcat A B = .error (.err "IncompatibleDimension") := by
  unfold vcat hvcat
  have hchk : hvcatDimCheck [[A], [B]] = false := by
    simp [hvcatDimCheck, Ne.symm hn]
  simp only [hchk, Bool.not_false, ↓reduceIte]
  rfl

/-- [S] `hvcat` on any grid that fails `hvcat_dim_check` is `IncompatibleDimension` -/
theorem hvcat_error (mats : List (List (Dense α))) (h : hvcatDimCheck mats = false) :
    hvcat mats = .error (.err "IncompatibleDimension") := by
  unfold hvcat
  simp only [h, Bool.not_false, ↓reduceIte]
  rfl

end Clarabel.Dense
