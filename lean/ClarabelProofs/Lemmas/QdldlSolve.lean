/-
  Helper definitions / lemmas for C12 `solve_correct`: dense forward / backward substitution
  with a unit triangular matrix `1 + L` (`L` strictly lower triangular), as performed by
  `_lsolve` / `_dltsolve`, and the permutation wrapper of `QDLDLFactorisation::solve`.
-/
import Mathlib.Data.Matrix.Mul
import Mathlib.Data.Matrix.Diagonal
import Mathlib.Algebra.Field.Basic
import Mathlib.Algebra.BigOperators.Fin
import Mathlib.Logic.Equiv.Fin.Basic

namespace Clarabel.Qdldl.Dense
open Matrix BigOperators

variable {n : ℕ} {α : Type} [Field α]

/-- forward substitution `(1+L) y = b`: `y i = b i - Σ_{j<i} L i j * y j` -/
def fwdSubst (L : Matrix (Fin n) (Fin n) α) (b : Fin n → α) : Fin n → α
  | i => b i - ∑ j : Fin n, if _h : j < i then L i j * fwdSubst L b j else 0
termination_by i => i.val
decreasing_by exact _h

/-- backward substitution `(1+L)ᵀ x = z`: `x i = z i - Σ_{j>i} L j i * x j` -/
def bwdSubst (L : Matrix (Fin n) (Fin n) α) (z : Fin n → α) : Fin n → α
  | i => z i - ∑ j : Fin n, if _h : i < j then L j i * bwdSubst L z j else 0
termination_by i => n - i.val
decreasing_by
  have := j.isLt
  have : i.val < j.val := _h
  omega

theorem fwdSubst_spec (L : Matrix (Fin n) (Fin n) α) (hL : ∀ i j, i ≤ j → L i j = 0)
    (b : Fin n → α) : (1 + L) *ᵥ fwdSubst L b = b := by
  funext i
  rw [Matrix.add_mulVec, Matrix.one_mulVec, Pi.add_apply]
  rw [fwdSubst]
  have : (L *ᵥ fwdSubst L b) i = ∑ j : Fin n, if _h : j < i then L i j * fwdSubst L b j else 0 := by
    simp only [Matrix.mulVec, dotProduct]
    refine Finset.sum_congr rfl (fun j _ => ?_)
    by_cases h : j < i
    · simp [h]
    · simp [h, hL i j (not_lt.mp h)]
  rw [this]; ring

theorem bwdSubst_spec (L : Matrix (Fin n) (Fin n) α) (hL : ∀ i j, i ≤ j → L i j = 0)
    (z : Fin n → α) : (1 + L)ᵀ *ᵥ bwdSubst L z = z := by
  funext i
  rw [Matrix.transpose_add, Matrix.transpose_one, Matrix.add_mulVec, Matrix.one_mulVec, Pi.add_apply]
  rw [bwdSubst]
  have : (Lᵀ *ᵥ bwdSubst L z) i = ∑ j : Fin n, if _h : i < j then L j i * bwdSubst L z j else 0 := by
    simp only [Matrix.mulVec, dotProduct, Matrix.transpose_apply]
    refine Finset.sum_congr rfl (fun j _ => ?_)
    by_cases h : i < j
    · simp [h]
    · simp [h, hL j i (not_lt.mp h)]
  rw [this]; ring

/-- the algebra of `solve`: two unit-triangular systems, the diagonal scaling and the
permutation wrapper compose to a solution of `A x = b` -/
theorem solve_of_systems (A L : Matrix (Fin n) (Fin n) α) (d : Fin n → α) (σ : Equiv.Perm (Fin n))
    (b y t : Fin n → α) (hd : ∀ i, d i ≠ 0)
    (hPAP : ∀ i j, ((1 + L) * Matrix.diagonal d * (1 + L)ᵀ : Matrix (Fin n) (Fin n) α) i j = A (σ i) (σ j))
    (h1 : (1 + L) *ᵥ y = fun i => b (σ i))
    (h2 : (1 + L)ᵀ *ᵥ t = fun i => y i * (1 / d i)) :
    A *ᵥ (fun r => t (σ.symm r)) = b := by
  have h3 : Matrix.diagonal d *ᵥ (fun i => y i * (1 / d i)) = y := by
    funext i
    simp only [Matrix.mulVec_diagonal]
    rw [one_div, mul_comm (y i), ← mul_assoc, mul_inv_cancel₀ (hd i), one_mul]
  have hM : ((1 + L) * Matrix.diagonal d * (1 + L)ᵀ) *ᵥ t = fun i => b (σ i) := by
    rw [← Matrix.mulVec_mulVec, ← Matrix.mulVec_mulVec, h2, h3, h1]
  funext r
  obtain ⟨i, rfl⟩ := σ.surjective r
  have hi : (((1 + L) * Matrix.diagonal d * (1 + L)ᵀ) *ᵥ t) i = b (σ i) := congrFun hM i
  simp only [Matrix.mulVec, dotProduct] at hi ⊢
  rw [← hi, ← Equiv.sum_comp σ]
  refine Finset.sum_congr rfl (fun k _ => ?_)
  simp only [Equiv.symm_apply_apply, hPAP]

end Clarabel.Qdldl.Dense
