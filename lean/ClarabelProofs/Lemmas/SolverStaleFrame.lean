/-
  Solving twice (C05), the relational part — the frame: `solve()` preserves the *shape* of the solver
  state (`SameShape`: same data, every work vector keeps its length, every cone object keeps its
  shape) and the sizing of the three vectors that are cut along `rng_cones` (`WellSized`).

  One hypothesis is needed (and is an invariant, `solve_conesOk`): the second-order cone objects are
  sized consistently with their `dim` (`ConesOk`: `w.len() = dim`, and `u.len() = v.len() = dim` for
  a sparse-expanded cone).  Without it the statement is false: `update_scaling` rewrites `w`, `u`, `v`
  with vectors of length `dim` whatever their length was.  Every cone object built by `make_cone`
  satisfies it (`makeCones_conesOk`, `new_conesOk`).

  All structural ([S]): no arithmetic law of the scalar type is used.
-/
import ClarabelProofs.Lemmas.SolverStaleCones
import ClarabelProofs.Lemmas.InfoLengths
import ClarabelProofs.Lemmas.SolveInitPointCore

namespace Clarabel.Solver
open Clarabel Info Residuals

set_option linter.unusedSectionVars false
set_option linter.unusedVariables false

variable {α : Type}

/-! ### the relations are equivalences -/

theorem VarsShape.rfl' (v : Vars α) : VarsShape v v := ⟨rfl, rfl, rfl⟩

theorem VarsShape.trans {u v w : Vars α} (h1 : VarsShape u v) (h2 : VarsShape v w) : VarsShape u w :=
  ⟨h1.x.trans h2.x, h1.s.trans h2.s, h1.z.trans h2.z⟩

theorem VarsShape.symm {u v : Vars α} (h : VarsShape u v) : VarsShape v u := ⟨h.x.symm, h.s.symm, h.z.symm⟩

theorem ConeShape.rfl' (c : ConeSt α) : ConeShape c c := by
  cases c with
  | zero d => exact rfl
  | nonneg K => exact ⟨rfl, rfl⟩
  | soc K =>
    refine ⟨rfl, rfl, ?_⟩
    cases K.sparse with
    | none => trivial
    | some sp => exact ⟨rfl, rfl⟩

theorem ConeShape.trans {a b c : ConeSt α} (h1 : ConeShape a b) (h2 : ConeShape b c) : ConeShape a c := by
  cases a with
  | zero d =>
    cases b with
    | zero d' =>
      cases c with
      | zero d'' => exact Eq.trans h1 h2
      | nonneg _ => exact h2.elim
      | soc _ => exact h2.elim
    | nonneg _ => exact h1.elim
    | soc _ => exact h1.elim
  | nonneg K =>
    cases b with
    | zero _ => exact h1.elim
    | nonneg K' =>
      cases c with
      | zero _ => exact h2.elim
      | nonneg K'' => exact ⟨h1.1.trans h2.1, h1.2.trans h2.2⟩
      | soc _ => exact h2.elim
    | soc _ => exact h1.elim
  | soc K =>
    cases b with
    | zero _ => exact h1.elim
    | nonneg _ => exact h1.elim
    | soc K' =>
      cases c with
      | zero _ => exact h2.elim
      | nonneg _ => exact h2.elim
      | soc K'' =>
        obtain ⟨a1, a2, a3⟩ := h1
        obtain ⟨b1, b2, b3⟩ := h2
        refine ⟨a1.trans b1, a2.trans b2, ?_⟩
        cases hk : K.sparse with
        | none =>
          cases hk' : K'.sparse with
          | none =>
            cases hk'' : K''.sparse with
            | none => trivial
            | some _ => rw [hk', hk''] at b3; exact b3.elim
          | some _ => rw [hk, hk'] at a3; exact a3.elim
        | some sp =>
          cases hk' : K'.sparse with
          | none => rw [hk, hk'] at a3; exact a3.elim
          | some sp' =>
            cases hk'' : K''.sparse with
            | none => rw [hk', hk''] at b3; exact b3.elim
            | some sp'' =>
              rw [hk, hk'] at a3
              rw [hk', hk''] at b3
              exact ⟨a3.1.trans b3.1, a3.2.trans b3.2⟩

theorem ListRel.refl_of {β : Type} {R : β → β → Prop} (h : ∀ a, R a a) : ∀ l : List β, ListRel R l l
  | [] => .nil
  | a :: l => .cons (h a) (ListRel.refl_of h l)

theorem ListRel.trans_of {β : Type} {R : β → β → Prop} (h : ∀ a b c, R a b → R b c → R a c) :
    ∀ {l1 l2 l3 : List β}, ListRel R l1 l2 → ListRel R l2 l3 → ListRel R l1 l3 := by
  intro l1 l2 l3 h1
  induction h1 generalizing l3 with
  | nil => intro h2; cases h2; exact .nil
  | cons hab _ ih =>
    intro h2
    cases h2 with
    | cons hbc h2' => exact .cons (h _ _ _ hab hbc) (ih h2')

theorem ConesShape.rfl' (cs : List (ConeSt α)) : ConesShape cs cs := ListRel.refl_of ConeShape.rfl' cs

theorem ConesShape.trans {a b c : List (ConeSt α)} (h1 : ConesShape a b) (h2 : ConesShape b c) :
    ConesShape a c := ListRel.trans_of (R := ConeShape) (fun _ _ _ g1 g2 => ConeShape.trans g1 g2) h1 h2

section
variable [Add α] [Sub α] [Mul α] [Div α] [Neg α] [OfNat α 0] [OfNat α 1] [LT α] [DecidableLT α]
  [LE α] [DecidableLE α] [BEq α] [FloatLike α]

theorem SameShape.rfl' (S : SolverSt α) : SameShape S S :=
  ⟨rfl, VarsShape.rfl' _, rfl, rfl, rfl, rfl, rfl, rfl, rfl, rfl, rfl, rfl, rfl, rfl, ConesShape.rfl' _,
    VarsShape.rfl' _, VarsShape.rfl' _, VarsShape.rfl' _⟩

theorem SameShape.trans {A B C : SolverSt α} (h1 : SameShape A B) (h2 : SameShape B C) : SameShape A C :=
  ⟨h1.data.trans h2.data, h1.variables.trans h2.variables, h1.rx.trans h2.rx, h1.rz.trans h2.rz,
    h1.rx_inf.trans h2.rx_inf, h1.rz_inf.trans h2.rz_inf, h1.Px.trans h2.Px, h1.x1.trans h2.x1,
    h1.z1.trans h2.z1, h1.x2.trans h2.x2, h1.z2.trans h2.z2, h1.workx.trans h2.workx,
    h1.workz.trans h2.workz, h1.workConic.trans h2.workConic, h1.cones.trans h2.cones,
    h1.stepLhs.trans h2.stepLhs, h1.stepRhs.trans h2.stepRhs, h1.prevVars.trans h2.prevVars⟩

end

/-! ### vectors -/

section
variable [Add α] [Mul α] [OfNat α 0]

theorem axpby_size (a : α) (x : Array α) (b : α) (y : Array α) (h : y.size = x.size) :
    (Vec.axpby a x b y).size = y.size := by
  unfold Vec.axpby
  simp only [List.size_toArray, List.length_map, List.length_zip, Array.length_toList, h, Nat.min_self]

theorem waxpby_size (a : α) (x : Array α) (b : α) (y : Array α) (h : x.size = y.size) :
    (Vec.waxpby a x b y).size = x.size := by
  unfold Vec.waxpby
  simp only [List.size_toArray, List.length_map, List.length_zip, Array.length_toList, h, Nat.min_self]

theorem axpbyE_size {a b : α} {x y r : Array α} {site : String} (h : axpbyE a x b y site = .ok r) :
    r.size = y.size := by
  unfold axpbyE at h
  split at h
  · cases h
  · rename_i hne
    cases h
    exact axpby_size _ _ _ _ (by simpa using hne)

theorem waxpbyE_size {len : Nat} {a b : α} {x y r : Array α} {site : String}
    (h : waxpbyE len a x b y site = .ok r) : r.size = len := by
  unfold waxpbyE at h
  split at h
  · cases h
  · rename_i hne
    cases h
    simp only [Bool.or_eq_true, bne_iff_ne, ne_eq, not_or, Decidable.not_not] at hne
    rw [waxpby_size _ _ _ _ (hne.1.symm.trans hne.2), ← hne.1]

end

section
variable [Add α] [Sub α] [Mul α] [Div α] [Neg α] [OfNat α 0] [OfNat α 1] [OfNat α 2]
  [OfNat α 100] [OfNat α 1000] [LT α] [DecidableLT α] [LE α] [DecidableLE α] [BEq α] [FloatLike α]

theorem copyInto_size {dst src v : Array α} {site : String} (h : copyInto dst src site = .ok v) :
    v.size = dst.size := by
  obtain ⟨h1, h2⟩ := copyInto_eq h
  rw [h1, h2]

end

/-! ### `for` loops -/

/-- the state a loop body hands on -/
def stepVal {σ : Type} : ForInStep σ → σ
  | .yield v => v
  | .done v => v

theorem forIn_list_inv {σ β : Type} (P : σ → Prop) (body : β → σ → MErr (ForInStep σ))
    (hstep : ∀ k s w, P s → body k s = .ok w → P (stepVal w)) :
    ∀ (l : List β) (init out : σ), P init → forIn (m := MErr) l init body = .ok out → P out := by
  intro l
  induction l with
  | nil =>
    intro init out h0 h
    cases h
    exact h0
  | cons k t ih =>
    intro init out h0 h
    rw [List.forIn_cons] at h
    obtain ⟨r, hr, h⟩ := bind_ok_inv h
    have hv := hstep k init r h0 hr
    cases r with
    | done v =>
      cases h
      exact hv
    | yield v => exact ih v out hv h

theorem forIn_range_inv {σ : Type} (P : σ → Prop) (r : Std.Legacy.Range) (body : Nat → σ → MErr (ForInStep σ))
    (hstep : ∀ k s w, P s → body k s = .ok w → P (stepVal w))
    {init out : σ} (h0 : P init) (h : forIn (m := MErr) r init body = .ok out) : P out := by
  rw [Std.Legacy.Range.forIn_eq_forIn_range'] at h
  exact forIn_list_inv P body hstep _ init out h0 h

theorem forIn_range_size {β : Type} {r : Std.Legacy.Range} {body : Nat → Array β → MErr (ForInStep (Array β))}
    {init out : Array β}
    (hstep : ∀ k s w, body k s = .ok w → (stepVal w).size = s.size)
    (h : forIn (m := MErr) r init body = .ok out) : out.size = init.size :=
  forIn_range_inv (fun s => s.size = init.size) r body
    (fun k s w hs hb => (hstep k s w hb).trans hs) rfl h

theorem ite_throw_jp {β : Type} {c : Prop} [Decidable c] {e : ModelErr} {jp : Unit → MErr β} {r : β}
    (h : (if c then (throw e : MErr Unit) >>= jp else jp ()) = .ok r) : ¬ c ∧ jp () = .ok r := by
  split at h
  · cases h
  · exact ⟨‹_›, h⟩

set_option hygiene false in
/-- one `if c then throw … else jp ()` level of a `do` block -/
local macro "jp_step" jp:ident : tactic =>
  `(tactic| (have h2 := ite_throw_jp h; clear h; obtain ⟨_, h⟩ := h2; unfold $jp at h))

set_option hygiene false in
/-- peel a hypothesis `h : (do …) = .ok r` of a length-preserving array computation -/
local macro "ok_peel" : tactic => `(tactic| repeat' (first
  | (obtain ⟨_, hq, h⟩ := bind_ok_inv h;
     first
     | (have hsz := Unscale.setE_size _ _ _ _ _ hq; clear hq)
     | skip)
  | (cases h <;> simp only [stepVal] <;> omega)
  | split at h
  | (dsimp only at h)))

section
variable [Add α] [Sub α] [Mul α] [Div α] [Neg α] [OfNat α 0] [OfNat α 1] [OfNat α 2]
  [OfNat α 100] [OfNat α 1000] [LT α] [DecidableLT α] [LE α] [DecidableLE α] [BEq α] [FloatLike α]

theorem symv_size {A : Csc α} {y x r : Array α} {a b : α} (h : symv A y x a b = .ok r) : r.size = y.size := by
  unfold symv at h
  extract_lets y0 jp1 jp2 jp3 at h
  have hy0 : y0.size = y.size := by
    show (if b == 0 then y.map (fun _ => (0 : α)) else y.map (fun v => v * b)).size = y.size
    split <;> exact Array.size_map ..
  clear_value y0
  jp_step jp3
  jp_step jp2
  jp_step jp1
  clear jp1 jp2 jp3
  obtain ⟨out, hq, h⟩ := bind_ok_inv h
  cases h
  rw [← hy0]
  refine forIn_range_size ?_ hq
  intro col s w h
  obtain ⟨_, _, h⟩ := bind_ok_inv h
  obtain ⟨_, _, h⟩ := bind_ok_inv h
  obtain ⟨_, _, h⟩ := bind_ok_inv h
  extract_lets ja jb at h
  jp_step jb
  jp_step ja
  obtain ⟨out2, hq2, h⟩ := bind_ok_inv h
  cases h
  refine forIn_range_size ?_ hq2
  intro k s2 w2 h
  ok_peel

theorem scaleY_size (y : Array α) (b : α) : (scaleY y b).size = y.size := by
  unfold scaleY
  repeat' split
  all_goals simp only [Array.size_map]

theorem gemvN_size {A : Csc α} {y x r : Array α} {a b : α} (h : gemvN A y x a b = .ok r) : r.size = y.size := by
  unfold gemvN at h
  extract_lets y0 jp1 jp2 jp3 at h
  have hy0 : y0.size = y.size := scaleY_size ..
  clear_value y0
  split at h
  · cases h; exact hy0
  jp_step jp3
  jp_step jp2
  jp_step jp1
  clear jp1 jp2 jp3
  obtain ⟨out, hq, h⟩ := bind_ok_inv h
  cases h
  rw [← hy0]
  refine forIn_range_size ?_ hq
  intro col s w h
  obtain ⟨_, _, h⟩ := bind_ok_inv h
  obtain ⟨_, _, h⟩ := bind_ok_inv h
  obtain ⟨_, _, h⟩ := bind_ok_inv h
  obtain ⟨out2, hq2, h⟩ := bind_ok_inv h
  cases h
  refine forIn_range_size ?_ hq2
  intro k s2 w2 h
  ok_peel

theorem gemvT_size {A : Csc α} {y x r : Array α} {a b : α} (h : gemvT A y x a b = .ok r) : r.size = y.size := by
  unfold gemvT at h
  extract_lets y0 jp1 jp2 jp3 at h
  have hy0 : y0.size = y.size := scaleY_size ..
  clear_value y0
  split at h
  · cases h; exact hy0
  jp_step jp3
  jp_step jp2
  jp_step jp1
  clear jp1 jp2 jp3
  obtain ⟨out, hq, h⟩ := bind_ok_inv h
  cases h
  rw [← hy0]
  refine forIn_range_size ?_ hq
  intro col s w h
  ok_peel

theorem waxpbyInto_size {len : Nat} {a b : α} {x y r : Array α}
    (h : waxpbyInto len a x b y = .ok r) : r.size = len := by
  unfold waxpbyInto at h
  split at h
  · cases h
  · rename_i hne
    cases h
    simp only [Bool.or_eq_true, bne_iff_ne, ne_eq, not_or, Decidable.not_not] at hne
    rw [waxpby_size _ _ _ _ (hne.1.symm.trans hne.2), ← hne.1]

theorem axpbyInto_size {a b : α} {x y r : Array α} (h : axpbyInto a x b y = .ok r) : r.size = y.size := by
  unfold axpbyInto at h
  split at h
  · cases h
  · rename_i hne
    cases h
    exact axpby_size _ _ _ _ (by simpa using hne)

/-- `DefaultResiduals::update` keeps the lengths of its five vectors -/
theorem residUpdate_shape {r r' : Resid α} {v : Vars α} {d : Data α} (h : Residuals.update r v d = .ok r') :
    r'.rx.size = r.rx.size ∧ r'.rz.size = r.rz.size ∧ r'.rx_inf.size = r.rx_inf.size
      ∧ r'.rz_inf.size = r.rz_inf.size ∧ r'.Px.size = r.Px.size := by
  unfold Residuals.update at h
  dsimp only at h
  obtain ⟨Px, hPx, h⟩ := bind_ok_inv h
  obtain ⟨rxi, hrxi, h⟩ := bind_ok_inv h
  split at h
  · cases h
  rename_i hg
  obtain ⟨rzi, hrzi, h⟩ := bind_ok_inv h
  obtain ⟨rx0, hrx0, h⟩ := bind_ok_inv h
  obtain ⟨rx, hrx, h⟩ := bind_ok_inv h
  obtain ⟨rz, hrz, h⟩ := bind_ok_inv h
  cases h
  refine ⟨?_, waxpbyInto_size hrz, gemvT_size hrxi, ?_, symv_size hPx⟩
  · show rx.size = _
    rw [axpbyInto_size hrx, waxpbyInto_size hrx0]
  · show rzi.size = _
    rw [gemvN_size hrzi]
    exact (by simpa using hg : r.rz_inf.size = v.s.size).symm
end

/-! ### `rng_cones`: cutting and pasting back -/

/-- a second-order cone object sized consistently with its `dim` (as `SecondOrderCone::new` builds
it, and as `update_scaling` leaves it) -/
def ConeOk : ConeSt α → Prop
  | .soc K => K.w.size = K.dim ∧ ∀ sp, K.sparse = some sp → sp.u.size = K.dim ∧ sp.v.size = K.dim
  | _ => True

/-- every cone object of the composite cone is sized consistently -/
def ConesOk (cs : List (ConeSt α)) : Prop := ∀ c ∈ cs, ConeOk c

theorem foldl_append_size {β : Type} (parts : List (Array β)) (acc : Array β) :
    (parts.foldl (· ++ ·) acc).size = (parts.map Array.size).foldl (· + ·) acc.size := by
  induction parts generalizing acc with
  | nil => rfl
  | cons p ps ih => simp only [List.foldl_cons, List.map_cons, ih, Array.size_append]

theorem ListRel.zip {β γ δ : Type} {R1 : β → γ → Prop} {R2 : β → δ → Prop} {cs : List β} {as : List γ}
    (h1 : ListRel R1 cs as) : ∀ {bs : List δ}, ListRel R2 cs bs →
      ListRel (fun c (p : γ × δ) => R1 c p.1 ∧ R2 c p.2) cs (as.zip bs) := by
  induction h1 with
  | nil => intro bs h2; cases h2; exact .nil
  | cons hab _ ih =>
    intro bs h2
    cases h2 with
    | cons hcd h2' => exact .cons ⟨hab, hcd⟩ (ih h2')

section
variable [Add α] [Sub α] [Mul α] [Div α] [Neg α] [OfNat α 0] [OfNat α 1] [OfNat α 2]
  [OfNat α 100] [OfNat α 1000] [LT α] [DecidableLT α] [LE α] [DecidableLE α] [BEq α] [FloatLike α]

/-- the slices of `rng_cones` have the cones' dimensions, and the last range ends inside the vector -/
theorem cutE_go_spec (a : Array α) (site : String) :
    ∀ (cones : List (ConeSt α)) (start : Nat) (l : List (Array α)), start ≤ a.size →
      cutE.go a site cones start = .ok l →
      ListRel (fun c (p : Array α) => p.size = c.numel) cones l
        ∧ (cones.map ConeSt.numel).foldl (· + ·) start ≤ a.size := by
  intro cones
  induction cones with
  | nil =>
    intro start l hs h
    unfold cutE.go at h
    cases h
    exact ⟨.nil, hs⟩
  | cons c rest ih =>
    intro start l hs h
    unfold cutE.go at h
    split at h
    · cases h
    · rename_i hg
      obtain ⟨tl, htl, h⟩ := bind_ok_inv h
      cases h
      obtain ⟨h1, h2⟩ := ih _ _ (by omega) htl
      refine ⟨.cons ?_ h1, h2⟩
      simp only [Array.size_extract]
      omega

theorem cutE_spec {cones : List (ConeSt α)} {v : Array α} {site : String} {ps : List (Array α)}
    (h : cutE cones v site = .ok ps) :
    ListRel (fun c (p : Array α) => p.size = c.numel) cones ps ∧ numelAll cones ≤ v.size :=
  cutE_go_spec v site cones 0 ps (Nat.zero_le _) h

/-- pasting per-cone results of the right dimensions back keeps the length of the vector -/
theorem pasteBack_size {cones : List (ConeSt α)} {v : Array α} {site : String} {ps : List (Array α)}
    (hcut : cutE cones v site = .ok ps) {outs : List (Array α)}
    (houts : outs.map Array.size = cones.map ConeSt.numel) : (pasteBack cones v outs).size = v.size := by
  have hle := (cutE_spec hcut).2
  unfold pasteBack
  rw [Array.size_append, foldl_append_size, houts, Array.size_extract]
  show numelAll cones + _ = _
  omega

/-- a per-cone map over `(cone, slices)` whose results have the cone's dimension -/
theorem mapM_zip_out {γ β : Type} (R : ConeSt α → γ → Prop) (P : ConeSt α → Prop)
    (f : ConeSt α × γ → MErr β) (sz : β → Nat)
    (hf : ∀ c p o, P c → R c p → f (c, p) = .ok o → sz o = c.numel) :
    ∀ {cones : List (ConeSt α)} {ps : List γ}, ListRel R cones ps → (∀ c ∈ cones, P c) →
      ∀ outs, (cones.zip ps).mapM f = .ok outs → outs.map sz = cones.map ConeSt.numel := by
  intro cones ps h
  induction h with
  | nil =>
    intro _ outs ho
    cases ho
    rfl
  | @cons c p cs ps' hcp _ ih =>
    intro hP outs ho
    simp only [List.zip_cons_cons, List.mapM_cons] at ho
    obtain ⟨o, ho1, ho⟩ := bind_ok_inv ho
    obtain ⟨os, ho2, ho⟩ := bind_ok_inv ho
    cases ho
    simp only [List.map_cons]
    rw [hf c p o (hP c (List.mem_cons_self ..)) hcp ho1,
      ih (fun c' hc' => hP c' (List.mem_cons_of_mem _ hc')) os ho2]


/-! ### the second-order cone kernels keep the dimension -/

theorem soc_split_ok {x : Array α} {x0 : α} {x1 : List α} (h : Soc.split x = .ok (x0, x1)) :
    x.size = x1.length + 1 := by
  unfold Soc.split at h
  split at h
  · cases h
  · rename_i a b hx
    cases h
    rw [← Array.length_toList, hx]
    rfl

theorem soc_join_size (a : α) (l : List α) : (Soc.join a l).size = l.length + 1 := rfl

theorem soc_mulHs_size {K : Soc.Cone α} {x o : Array α} (hK : K.w.size = K.dim)
    (h : Soc.mulHs K x = .ok o) : o.size = K.dim := by
  unfold Soc.mulHs at h
  obtain ⟨⟨x0, x1⟩, hx, h⟩ := bind_ok_inv h
  obtain ⟨⟨w0, w1⟩, hw, h⟩ := bind_ok_inv h
  dsimp only at h
  split at h
  · cases h
  · rename_i hg
    cases h
    have e1 := soc_split_ok hx
    have e2 := soc_split_ok hw
    simp only [Soc.mulHsCore, soc_join_size, List.length_zipWith]
    omega

theorem soc_circOp_size {y z o : Array α} (h : Soc.circOp y z = .ok o) : o.size = y.size := by
  unfold Soc.circOp at h
  obtain ⟨⟨y0, y1⟩, hy, h⟩ := bind_ok_inv h
  obtain ⟨⟨z0, z1⟩, hz, h⟩ := bind_ok_inv h
  dsimp only at h
  split at h
  · cases h
  · rename_i hg
    cases h
    have e1 := soc_split_ok hy
    have e2 := soc_split_ok hz
    simp only [Soc.circOpCore, soc_join_size, List.length_zipWith]
    omega

theorem soc_mulW_size {K : Soc.Cone α} {y x o : Array α} {a b : α} (hK : K.w.size = K.dim)
    (h : Soc.mulW K y x a b = .ok o) : o.size = K.dim := by
  unfold Soc.mulW at h
  obtain ⟨⟨w0, w1⟩, hw, h⟩ := bind_ok_inv h
  obtain ⟨⟨x0, x1⟩, hx, h⟩ := bind_ok_inv h
  obtain ⟨⟨y0, y1⟩, hy, h⟩ := bind_ok_inv h
  dsimp only at h
  split at h
  · cases h
  · rename_i hg
    cases h
    have e1 := soc_split_ok hx
    have e2 := soc_split_ok hw
    have e3 := soc_split_ok hy
    simp only [Soc.mulWCore, soc_join_size, List.length_zipWith]
    omega

theorem soc_mulWinv_size {K : Soc.Cone α} {y x o : Array α} {a b : α} (hK : K.w.size = K.dim)
    (h : Soc.mulWinv K y x a b = .ok o) : o.size = K.dim := by
  unfold Soc.mulWinv at h
  obtain ⟨⟨w0, w1⟩, hw, h⟩ := bind_ok_inv h
  obtain ⟨⟨x0, x1⟩, hx, h⟩ := bind_ok_inv h
  obtain ⟨⟨y0, y1⟩, hy, h⟩ := bind_ok_inv h
  dsimp only at h
  split at h
  · cases h
  · rename_i hg
    cases h
    have e1 := soc_split_ok hx
    have e2 := soc_split_ok hw
    have e3 := soc_split_ok hy
    simp only [Soc.mulWinvCore, soc_join_size, List.length_zipWith]
    omega

theorem soc_scaledUnitShift_size {z o : Array α} {a : α} (h : Soc.scaledUnitShift z a = .ok o) :
    o.size = z.size := by
  unfold Soc.scaledUnitShift at h
  obtain ⟨⟨z0, z1⟩, hz, h⟩ := bind_ok_inv h
  cases h
  rw [soc_split_ok hz]
  rfl

theorem soc_combinedDsShift_size {K : Soc.Cone α} {stepZ stepS : Array α} {σμ : α}
    {o : Array α × Array α × Array α} (hK : K.w.size = K.dim)
    (h : Soc.combinedDsShift K stepZ stepS σμ = .ok o) :
    o.1.size = K.dim ∧ o.2.1.size = K.dim ∧ o.2.2.size = K.dim := by
  unfold Soc.combinedDsShift at h
  obtain ⟨wz, hwz, h⟩ := bind_ok_inv h
  obtain ⟨ws, hws, h⟩ := bind_ok_inv h
  obtain ⟨sh, hsh, h⟩ := bind_ok_inv h
  obtain ⟨sh2, hsh2, h⟩ := bind_ok_inv h
  cases h
  refine ⟨?_, soc_mulW_size hK hwz, soc_mulWinv_size hK hws⟩
  show sh2.size = _
  rw [soc_scaledUnitShift_size hsh2, soc_circOp_size hsh, soc_mulWinv_size hK hws]

theorem soc_dsFromDzOffset_size {K : Soc.Cone α} {ds z o : Array α} (hK : K.w.size = K.dim)
    (h : Soc.dsFromDzOffset K ds z = .ok o) : o.size = K.dim := by
  unfold Soc.dsFromDzOffset at h
  obtain ⟨⟨z0, z1⟩, hz, h⟩ := bind_ok_inv h
  obtain ⟨⟨l0, l1⟩, hl, h⟩ := bind_ok_inv h
  obtain ⟨⟨d0, d1⟩, hd, h⟩ := bind_ok_inv h
  obtain ⟨⟨w0, w1⟩, hw, h⟩ := bind_ok_inv h
  obtain ⟨_, hg, h⟩ := bind_ok_inv h
  cases h
  unfold Soc.sizeGuard at hg
  split at hg
  · rename_i hc
    simp only [Bool.and_eq_true, beq_iff_eq] at hc
    have e1 := soc_split_ok hz
    have e2 := soc_split_ok hw
    have e3 := soc_split_ok hd
    simp only [soc_join_size, List.length_zipWith, List.length_map, List.length_zip]
    omega
  · cases hg

/-! ### the nonnegative cone kernels keep the dimension -/

theorem nn_guard {c : Bool} (h : Nonneg.sizeGuard c = .ok ()) : c = true := by
  unfold Nonneg.sizeGuard at h
  split at h
  · assumption
  · cases h

theorem nn_mulHs_size {K : Nonneg.Cone α} {x o : Array α} (h : Nonneg.mulHs K x = .ok o) :
    o.size = K.w.size := by
  unfold Nonneg.mulHs at h
  obtain ⟨_, hg, h⟩ := bind_ok_inv h
  cases h
  have hc := nn_guard hg
  simp only [beq_iff_eq] at hc
  simp only [Array.size_zipWith]
  omega

theorem nn_mulW_size {K : Nonneg.Cone α} {y x o : Array α} {a b : α} (h : Nonneg.mulW K y x a b = .ok o) :
    o.size = K.w.size := by
  unfold Nonneg.mulW at h
  split at h
  · cases h
  · split at h
    · cases h
    · cases h
      simp only [Array.size_zipWith]
      omega

theorem nn_mulWinv_size {K : Nonneg.Cone α} {y x o : Array α} {a b : α} (h : Nonneg.mulWinv K y x a b = .ok o) :
    o.size = K.w.size := by
  unfold Nonneg.mulWinv at h
  split at h
  · cases h
  · split at h
    · cases h
    · cases h
      simp only [Array.size_zipWith]
      omega

theorem nn_circOp_size {y z o : Array α} (h : Nonneg.circOp y z = .ok o) : o.size = y.size := by
  unfold Nonneg.circOp at h
  obtain ⟨_, hg, h⟩ := bind_ok_inv h
  cases h
  have hc := nn_guard hg
  simp only [beq_iff_eq] at hc
  simp only [Array.size_zipWith]
  omega

theorem nn_combinedDsShift_size {K : Nonneg.Cone α} {stepZ stepS : Array α} {σμ : α}
    {o : Array α × Array α × Array α} (h : Nonneg.combinedDsShift K stepZ stepS σμ = .ok o) :
    o.1.size = K.w.size ∧ o.2.1.size = K.w.size ∧ o.2.2.size = K.w.size := by
  unfold Nonneg.combinedDsShift at h
  obtain ⟨wz, hwz, h⟩ := bind_ok_inv h
  obtain ⟨ws, hws, h⟩ := bind_ok_inv h
  obtain ⟨sh, hsh, h⟩ := bind_ok_inv h
  cases h
  refine ⟨?_, nn_mulW_size hwz, nn_mulWinv_size hws⟩
  show (Nonneg.scaledUnitShift sh _).size = _
  unfold Nonneg.scaledUnitShift Vec.translate
  rw [Array.size_map, nn_circOp_size hsh, nn_mulWinv_size hws]

theorem nn_dsFromDzOffset_size {ds z o : Array α} (h : Nonneg.dsFromDzOffset ds z = .ok o) :
    o.size = ds.size := by
  unfold Nonneg.dsFromDzOffset at h
  obtain ⟨_, hg, h⟩ := bind_ok_inv h
  cases h
  have hc := nn_guard hg
  simp only [beq_iff_eq] at hc
  simp only [Array.size_zipWith]
  omega

/-! ### the composite cone operations keep the length of the vector they write -/

theorem ConeOk.soc_w {K : Soc.Cone α} (h : ConeOk (.soc K)) : K.w.size = K.dim := h.1

theorem mulHs_size {cones : List (ConeSt α)} {y x o : Array α} (hok : ConesOk cones)
    (h : mulHs cones y x = .ok o) : o.size = y.size := by
  unfold mulHs at h
  obtain ⟨xs, hxs, h⟩ := bind_ok_inv h
  obtain ⟨ys, hys, h⟩ := bind_ok_inv h
  obtain ⟨outs, houts, h⟩ := bind_ok_inv h
  cases h
  refine pasteBack_size hys ?_
  refine mapM_zip_out (fun c (p : Array α) => p.size = c.numel) ConeOk _ Array.size ?_ (cutE_spec hxs).1 hok
    outs houts
  intro c p o hc hp ho
  cases c with
  | zero d =>
    cases ho
    show (p.map _).size = d
    rw [Array.size_map]; exact hp
  | nonneg K => exact nn_mulHs_size ho
  | soc K => exact soc_mulHs_size hc.soc_w ho

theorem affineDs_size {cones : List (ConeSt α)} {ds o : Array α} (h : affineDs cones ds = .ok o) :
    o.size = ds.size := by
  unfold affineDs mapCones at h
  obtain ⟨ps, hps, h⟩ := bind_ok_inv h
  obtain ⟨outs, houts, h⟩ := bind_ok_inv h
  cases h
  refine pasteBack_size hps ?_
  refine mapM_zip_out (fun c (p : Array α) => p.size = c.numel) (fun _ => True) _ Array.size ?_
    (cutE_spec hps).1 (fun _ _ => trivial) outs houts
  intro c p o _ hp ho
  cases c with
  | zero d =>
    cases ho
    show (p.map _).size = d
    rw [Array.size_map]; exact hp
  | nonneg K =>
    dsimp only at ho
    unfold Nonneg.affineDs at ho
    split at ho
    · cases ho
    · rename_i hg
      cases ho
      show (K.lam.map _).size = K.w.size
      rw [Array.size_map]
      have : p.size = K.w.size := hp
      omega
  | soc K =>
    dsimp only at ho
    obtain ⟨r, hr, ho⟩ := bind_ok_inv ho
    split at ho
    · cases ho
    · rename_i hg
      cases ho
      have : p.size = K.dim := hp
      show Array.size _ = K.dim
      simp only [bne_iff_ne, ne_eq, Decidable.not_not] at hg
      omega

theorem dsFromDzOffset_size {cones : List (ConeSt α)} {out ds z o : Array α} (hok : ConesOk cones)
    (h : dsFromDzOffset cones out ds z = .ok o) : o.size = out.size := by
  unfold dsFromDzOffset at h
  obtain ⟨os, hos, h⟩ := bind_ok_inv h
  obtain ⟨dss, hdss, h⟩ := bind_ok_inv h
  obtain ⟨zs, hzs, h⟩ := bind_ok_inv h
  obtain ⟨outs, houts, h⟩ := bind_ok_inv h
  cases h
  refine pasteBack_size hos ?_
  refine mapM_zip_out _ ConeOk _ Array.size ?_
    ((cutE_spec hos).1.zip ((cutE_spec hdss).1.zip (cutE_spec hzs).1)) hok outs houts
  intro c p o hc hp ho
  obtain ⟨hp1, hp2, hp3⟩ := hp
  cases c with
  | zero d =>
    cases ho
    show (p.1.map _).size = d
    rw [Array.size_map]; exact hp1
  | nonneg K =>
    dsimp only at ho
    rw [nn_dsFromDzOffset_size ho]; exact hp2
  | soc K => exact soc_dsFromDzOffset_size hc.soc_w ho

/-- the per-cone function of `combined_ds_shift` -/
def combShift1 (σμ : α) (p : ConeSt α × Array α × Array α × Array α) : MErr (Array α × Array α × Array α) :=
  match p.1 with
  | .zero _ => pure (Zero.combinedDsShift p.2.1, p.2.2.1, p.2.2.2)
  | .nonneg K => Nonneg.combinedDsShift K p.2.2.1 p.2.2.2 σμ
  | .soc K => Soc.combinedDsShift K p.2.2.1 p.2.2.2 σμ

theorem combShift1_size (σμ : α) (c : ConeSt α) (p o : Array α × Array α × Array α) (hc : ConeOk c)
    (hp : p.1.size = c.numel ∧ p.2.1.size = c.numel ∧ p.2.2.size = c.numel)
    (ho : combShift1 σμ (c, p) = .ok o) :
    o.1.size = c.numel ∧ o.2.1.size = c.numel ∧ o.2.2.size = c.numel := by
  obtain ⟨hp1, hp2, hp3⟩ := hp
  cases c with
  | zero d =>
    cases ho
    refine ⟨?_, hp2, hp3⟩
    show (p.1.map _).size = d
    rw [Array.size_map]; exact hp1
  | nonneg K => exact nn_combinedDsShift_size ho
  | soc K => exact soc_combinedDsShift_size hc.soc_w ho

theorem combinedDsShift_size {cones : List (ConeSt α)} {shift stepZ stepS : Array α} {σμ : α}
    {o : Array α × Array α × Array α} (hok : ConesOk cones)
    (h : combinedDsShift cones shift stepZ stepS σμ = .ok o) :
    o.1.size = shift.size ∧ o.2.1.size = stepZ.size ∧ o.2.2.size = stepS.size := by
  unfold combinedDsShift at h
  obtain ⟨shs, hshs, h⟩ := bind_ok_inv h
  obtain ⟨zs, hzs, h⟩ := bind_ok_inv h
  obtain ⟨ss, hss, h⟩ := bind_ok_inv h
  obtain ⟨outs, houts, h⟩ := bind_ok_inv h
  cases h
  have hrel := (cutE_spec hshs).1.zip ((cutE_spec hzs).1.zip (cutE_spec hss).1)
  have houts' : (cones.zip (shs.zip (zs.zip ss))).mapM (combShift1 σμ) = .ok outs := houts
  refine ⟨pasteBack_size hshs ?_, pasteBack_size hzs ?_, pasteBack_size hss ?_⟩
  · rw [List.map_map]
    exact mapM_zip_out _ ConeOk _ (fun o : Array α × Array α × Array α => o.1.size)
      (fun c p o hc hp ho => (combShift1_size σμ c p o hc hp ho).1) hrel hok outs houts'
  · rw [List.map_map]
    exact mapM_zip_out _ ConeOk _ (fun o : Array α × Array α × Array α => o.2.1.size)
      (fun c p o hc hp ho => (combShift1_size σμ c p o hc hp ho).2.1) hrel hok outs houts'
  · rw [List.map_map]
    exact mapM_zip_out _ ConeOk _ (fun o : Array α × Array α × Array α => o.2.2.size)
      (fun c p o hc hp ho => (combShift1_size σμ c p o hc hp ho).2.2) hrel hok outs houts'

/-! ### `set_identity_scaling`, `update_scaling` keep the shape of the cone objects -/

theorem soc_sparse_shape_rfl (o : Option (Soc.Sparse α)) :
    (match o, o with
      | none, none => True
      | some sp, some sp' => sp.u.size = sp'.u.size ∧ sp.v.size = sp'.v.size
      | _, _ => False) := by
  cases o with
  | none => trivial
  | some sp => exact ⟨rfl, rfl⟩

theorem scalingW_len {s0 z0 ss zs w0 wsc : α} {s1 z1 w1 : List α}
    (h : Soc.scalingW s0 s1 z0 z1 ss zs = some (w0, w1, wsc)) : w1.length = min s1.length z1.length := by
  unfold Soc.scalingW at h
  dsimp only at h
  split at h
  · cases h
  · cases h
    simp only [List.length_map, List.length_zipWith]

theorem soc_core_shape (K : Soc.Cone α) (s0 : α) (s1 : List α) (z0 : α) (z1 : List α)
    (hs : s1.length + 1 = K.dim) (hz : z1.length + 1 = K.dim) (hK : ConeOk (.soc K)) :
    ConeShape (.soc K) (.soc (Soc.updateScalingCore K s0 s1 z0 z1).2)
      ∧ ConeOk (.soc (Soc.updateScalingCore K s0 s1 z0 z1).2) := by
  obtain ⟨hw, hsp⟩ := hK
  unfold Soc.updateScalingCore
  dsimp only
  split
  · exact ⟨ConeShape.rfl' _, hw, hsp⟩
  · split
    · have e : (Soc.join (s0 * (1 / Soc.sqrtSocResidual s0 s1) + z0 / Soc.sqrtSocResidual z0 z1)
          (List.zipWith (fun wi zi => -(1 / Soc.sqrtSocResidual z0 z1) * zi + 1 * wi)
            (s1.map (fun si => si * (1 / Soc.sqrtSocResidual s0 s1))) z1)).size = K.dim := by
        rw [soc_join_size, List.length_zipWith, List.length_map]
        omega
      exact ⟨⟨rfl, hw.trans e.symm, soc_sparse_shape_rfl _⟩, e, hsp⟩
    · rename_i w0 w1 wscale hW
      have hl := scalingW_len hW
      have e : (Soc.join w0 w1).size = K.dim := by
        rw [soc_join_size]
        omega
      refine ⟨⟨rfl, hw.trans e.symm, ?_⟩, e, ?_⟩
      · dsimp only
        cases hk : K.sparse with
        | none => trivial
        | some sp =>
          obtain ⟨h1, h2⟩ := hsp sp hk
          dsimp only
          refine ⟨h1.trans ?_, h2.trans ?_⟩
          · show K.dim = (List.map _ w1).length + 1
            rw [List.length_map]; omega
          · show K.dim = (List.map _ w1).length + 1
            rw [List.length_map]; omega
      · intro sp' hsp'
        dsimp only at hsp'
        cases hk : K.sparse with
        | none => rw [hk] at hsp'; cases hsp'
        | some sp =>
          rw [hk] at hsp'
          cases hsp'
          refine ⟨?_, ?_⟩
          · show (List.map _ w1).length + 1 = K.dim
            rw [List.length_map]; omega
          · show (List.map _ w1).length + 1 = K.dim
            rw [List.length_map]; omega

/-- `update_scaling` of one cone keeps its shape, on success and on failure -/
theorem updateScaling1_shape {c : ConeSt α} {s z : Array α} {r : Bool × ConeSt α} (hc : ConeOk c)
    (h : updateScaling1 c s z = .ok r) : ConeShape c r.2 ∧ ConeOk r.2 := by
  cases c with
  | zero d =>
    unfold updateScaling1 at h
    cases h
    exact ⟨rfl, trivial⟩
  | nonneg K =>
    unfold updateScaling1 at h
    obtain ⟨K1, hK, h⟩ := bind_ok_inv h
    cases h
    unfold Nonneg.updateScaling at hK
    obtain ⟨_, hg, hK⟩ := bind_ok_inv hK
    cases hK
    have hc := nn_guard hg
    simp only [Bool.and_eq_true, beq_iff_eq] at hc
    refine ⟨⟨?_, ?_⟩, trivial⟩
    · show K.w.size = (Array.zipWith _ s z).size
      rw [Array.size_zipWith]; omega
    · show K.lam.size = (Array.zipWith _ s z).size
      rw [Array.size_zipWith]; omega
  | soc K =>
    unfold updateScaling1 at h
    obtain ⟨p, hK, h⟩ := bind_ok_inv h
    cases h
    unfold Soc.updateScaling at hK
    obtain ⟨⟨z0, z1⟩, hz, hK⟩ := bind_ok_inv hK
    obtain ⟨⟨s0, s1⟩, hs, hK⟩ := bind_ok_inv hK
    dsimp only at hK
    split at hK
    · cases hK
    · split at hK
      · cases hK
      · rename_i g1 g2
        cases hK
        have e1 := soc_split_ok hz
        have e2 := soc_split_ok hs
        exact soc_core_shape K s0 s1 z0 z1 (by omega) (by omega) hc

theorem updateScaling_go_shape : ∀ (cs : List (ConeSt α)) (ss zs : List (Array α)) (r : Bool × List (ConeSt α)),
    ConesOk cs → updateScaling.go cs ss zs = .ok r → ConesShape cs r.2 ∧ ConesOk r.2 := by
  intro cs
  induction cs with
  | nil =>
    intro ss zs r hok h
    unfold updateScaling.go at h
    cases h
    exact ⟨.nil, hok⟩
  | cons c cs ih =>
    intro ss zs r hok h
    have hc : ConeOk c := hok c (List.mem_cons_self ..)
    have hcs : ConesOk cs := fun c' hc' => hok c' (List.mem_cons_of_mem _ hc')
    cases ss with
    | nil => unfold updateScaling.go at h; cases h; exact ⟨ConesShape.rfl' _, hok⟩
    | cons si ss =>
      cases zs with
      | nil => unfold updateScaling.go at h; cases h; exact ⟨ConesShape.rfl' _, hok⟩
      | cons zi zs =>
        unfold updateScaling.go at h
        obtain ⟨⟨ok, c1⟩, h1, h⟩ := bind_ok_inv h
        obtain ⟨hn1, hn2⟩ := updateScaling1_shape hc h1
        cases ok with
        | false =>
          cases h
          refine ⟨.cons hn1 (ConesShape.rfl' _), ?_⟩
          intro c' hc'
          rcases List.mem_cons.mp hc' with e | e
          · rw [e]; exact hn2
          · exact hcs c' e
        | true =>
          dsimp only [Bool.not_true, Bool.false_eq_true, ↓reduceIte] at h
          obtain ⟨⟨ok2, cs2⟩, h2, h⟩ := bind_ok_inv h
          cases h
          obtain ⟨g1, g2⟩ := ih ss zs _ hcs h2
          refine ⟨.cons hn1 g1, ?_⟩
          intro c' hc'
          rcases List.mem_cons.mp hc' with e | e
          · rw [e]; exact hn2
          · exact g2 c' e

/-- `CompositeCone::update_scaling` keeps the shape of every cone object — also on the failure
paths, where some cones are updated and some are not -/
theorem updateScaling_shape {cs : List (ConeSt α)} {s z : Array α} {r : Bool × List (ConeSt α)}
    (hok : ConesOk cs) (h : updateScaling cs s z = .ok r) : ConesShape cs r.2 ∧ ConesOk r.2 := by
  unfold updateScaling at h
  obtain ⟨_, _, h⟩ := bind_ok_inv h
  obtain ⟨_, _, h⟩ := bind_ok_inv h
  exact updateScaling_go_shape _ _ _ _ hok h

theorem setIdentityScaling1_shape (c : ConeSt α) (hc : ConeOk c) :
    ConeShape c (setIdentityScaling1 c) ∧ ConeOk (setIdentityScaling1 c) := by
  cases c with
  | zero d => exact ⟨rfl, trivial⟩
  | nonneg K =>
    refine ⟨⟨?_, rfl⟩, trivial⟩
    show K.w.size = (K.w.map _).size
    rw [Array.size_map]
  | soc K =>
    obtain ⟨hw, hsp⟩ := hc
    have e : ((K.w.map (fun _ => (0 : α))).setIfInBounds 0 1).size = K.w.size := by
      rw [Array.size_setIfInBounds, Array.size_map]
    refine ⟨⟨rfl, e.symm, ?_⟩, e.trans hw, ?_⟩
    · dsimp only
      cases K.sparse with
      | none => exact True.intro
      | some sp =>
        refine ⟨?_, ?_⟩
        · show sp.u.size = ((sp.u.map _).setIfInBounds 0 _).size
          rw [Array.size_setIfInBounds, Array.size_map]
        · show sp.v.size = (sp.v.map _).size
          rw [Array.size_map]
    · intro sp' hsp'
      have hsp'' : K.sparse.map _ = some sp' := hsp'
      cases hk : K.sparse with
      | none => rw [hk] at hsp''; cases hsp''
      | some sp =>
        rw [hk] at hsp''
        cases hsp''
        obtain ⟨h1, h2⟩ := hsp sp hk
        refine ⟨?_, ?_⟩
        · show ((sp.u.map _).setIfInBounds 0 _).size = K.dim
          rw [Array.size_setIfInBounds, Array.size_map]; exact h1
        · show (sp.v.map _).size = K.dim
          rw [Array.size_map]; exact h2

theorem setIdentityScaling_shape (cs : List (ConeSt α)) (hok : ConesOk cs) :
    ConesShape cs (setIdentityScaling cs) ∧ ConesOk (setIdentityScaling cs) := by
  induction cs with
  | nil => exact ⟨.nil, fun _ h => by cases h⟩
  | cons c cs ih =>
    have hc : ConeOk c := hok c (List.mem_cons_self ..)
    have hcs : ConesOk cs := fun c' hc' => hok c' (List.mem_cons_of_mem _ hc')
    obtain ⟨g1, g2⟩ := ih hcs
    obtain ⟨h1, h2⟩ := setIdentityScaling1_shape c hc
    refine ⟨.cons h1 g1, ?_⟩
    intro c' hc'
    rcases List.mem_cons.mp hc' with e | e
    · rw [e]; exact h2
    · exact g2 c' e
end

/-! ### `_shift_to_cone_interior` keeps the length -/

theorem foldlM_size {β : Type} (f : Array α → β → MErr (Array α))
    (hf : ∀ acc k r, f acc k = .ok r → r.size = acc.size) :
    ∀ (l : List β) (init out : Array α), l.foldlM f init = .ok out → out.size = init.size := by
  intro l
  induction l with
  | nil => intro init out h; cases h; rfl
  | cons k t ih =>
    intro init out h
    rw [List.foldlM_cons] at h
    obtain ⟨r, hr, h⟩ := bind_ok_inv h
    rw [ih r out h, hf init k r hr]

section
variable [Add α] [Sub α] [Mul α] [Div α] [Neg α] [OfNat α 0] [OfNat α 1] [OfNat α 2]
  [OfNat α 100] [OfNat α 1000] [LT α] [DecidableLT α] [LE α] [DecidableLE α] [BEq α] [FloatLike α]

theorem shift1_size {a : α} {primal : Bool} {sp : Composite.Spec} {z z' : Array α}
    (h : Composite.shift1 a primal sp z = .ok z') : z'.size = z.size := by
  cases sp with
  | zero n =>
    cases h
    show (Zero.scaledUnitShift z a primal).size = _
    unfold Zero.scaledUnitShift
    split
    · rw [Array.size_map]
    · rfl
  | nonneg n =>
    cases h
    show (Array.map _ z).size = _
    rw [Array.size_map]
  | soc n => exact soc_scaledUnitShift_size h
  | psd n =>
    refine foldlM_size _ ?_ _ _ _ h
    intro acc k r hr
    obtain ⟨v, _, hr⟩ := bind_ok_inv hr
    exact Unscale.setE_size _ _ _ _ _ hr

theorem cutL_spec : ∀ (specs : List Composite.Spec) (l : List α) (parts : List (Composite.Spec × Array α)),
    Composite.cutL specs l = .ok parts →
      (parts.map (fun p => p.2.size)).sum = Composite.totalNumel specs ∧ Composite.totalNumel specs ≤ l.length := by
  intro specs
  induction specs with
  | nil =>
    intro l parts h
    unfold Composite.cutL at h
    cases h
    exact ⟨rfl, Nat.zero_le _⟩
  | cons sp rest ih =>
    intro l parts h
    unfold Composite.cutL at h
    split at h
    · cases h
    · rename_i hg
      obtain ⟨tl, htl, h⟩ := bind_ok_inv h
      cases h
      obtain ⟨h1, h2⟩ := ih _ _ htl
      have e : Composite.totalNumel (sp :: rest) = sp.numel + Composite.totalNumel rest := by
        unfold Composite.totalNumel
        rw [List.map_cons, List.sum_cons]
      rw [e]
      rw [List.length_drop] at h2
      refine ⟨?_, by omega⟩
      rw [List.map_cons, List.sum_cons, h1]
      show (List.take sp.numel l).length + _ = _
      rw [List.length_take]
      omega

theorem mapM_shift_sizes (a : α) (primal : Bool) :
    ∀ (parts : List (Composite.Spec × Array α)) (outs : List (Array α)),
      parts.mapM (fun p => Composite.shift1 a primal p.1 p.2) = .ok outs →
      (outs.map Array.size).sum = (parts.map (fun p => p.2.size)).sum := by
  intro parts
  induction parts with
  | nil => intro outs h; cases h; rfl
  | cons p ps ih =>
    intro outs h
    simp only [List.mapM_cons] at h
    obtain ⟨o, ho, h⟩ := bind_ok_inv h
    obtain ⟨os, hos, h⟩ := bind_ok_inv h
    cases h
    simp only [List.map_cons, List.sum_cons, ih os hos, shift1_size ho]

theorem scaledUnitShift_size {specs : List Composite.Spec} {z z' : Array α} {a : α} {primal : Bool}
    (h : Composite.scaledUnitShift specs z a primal = .ok z') : z'.size = z.size := by
  unfold Composite.scaledUnitShift at h
  obtain ⟨parts, hparts, h⟩ := bind_ok_inv h
  obtain ⟨outs, houts, h⟩ := bind_ok_inv h
  cases h
  obtain ⟨h1, h2⟩ := cutL_spec specs z.toList parts hparts
  have h3 := mapM_shift_sizes a primal parts outs houts
  unfold Composite.glue
  rw [List.size_toArray, List.length_append, List.length_flatten, List.map_map, List.length_drop]
  have e : (List.map (List.length ∘ Array.toList) outs) = outs.map Array.size := by
    apply List.map_congr_left
    intro o _
    simp only [Function.comp, Array.length_toList]
  rw [e, h3, h1]
  rw [Array.length_toList] at h2 ⊢
  omega

theorem shiftToConeInterior_size {specs : List Composite.Spec} {z z' : Array α} {primal : Bool}
    (h : Composite.shiftToConeInterior specs z primal = .ok z') : z'.size = z.size := by
  unfold Composite.shiftToConeInterior at h
  obtain ⟨⟨mm, pm⟩, _, h⟩ := bind_ok_inv h
  dsimp only at h
  split at h
  · exact scaledUnitShift_size h
  · split at h
    · obtain ⟨z1, hz1, h⟩ := bind_ok_inv h
      rw [scaledUnitShift_size h, scaledUnitShift_size hz1]
    · split at h
      · exact scaledUnitShift_size h
      · exact scaledUnitShift_size h


/-! ### `DefaultVariables` -/

theorem varsCopyFrom_shape {dst src v : Vars α} (h : varsCopyFrom dst src = .ok v) : VarsShape dst v := by
  unfold varsCopyFrom at h
  obtain ⟨x, hx, h⟩ := bind_ok_inv h
  obtain ⟨s, hs, h⟩ := bind_ok_inv h
  obtain ⟨z, hz, h⟩ := bind_ok_inv h
  cases h
  exact ⟨(copyInto_size hx).symm, (copyInto_size hs).symm, (copyInto_size hz).symm⟩

theorem addStep_shape {v step v' : Vars α} {a : α} (h : addStep v step a = .ok v') : VarsShape v v' := by
  unfold addStep at h
  obtain ⟨x, hx, h⟩ := bind_ok_inv h
  obtain ⟨s, hs, h⟩ := bind_ok_inv h
  obtain ⟨z, hz, h⟩ := bind_ok_inv h
  cases h
  exact ⟨(axpbyE_size hx).symm, (axpbyE_size hs).symm, (axpbyE_size hz).symm⟩

theorem affineStepRhs_shape {self vars out : Vars α} {r : Resid α} {cones : List (ConeSt α)}
    (h : affineStepRhs self r vars cones = .ok out) : VarsShape self out := by
  unfold affineStepRhs at h
  obtain ⟨x, hx, h⟩ := bind_ok_inv h
  obtain ⟨z, hz, h⟩ := bind_ok_inv h
  obtain ⟨_, _, h⟩ := bind_ok_inv h
  obtain ⟨s, hs, h⟩ := bind_ok_inv h
  cases h
  exact ⟨(copyInto_size hx).symm, (affineDs_size hs).symm, (copyInto_size hz).symm⟩

theorem combinedStepRhs_shape {self vars step : Vars α} {r : Resid α} {cones : List (ConeSt α)} {σ μ m : α}
    {out : Vars α × Vars α} (hok : ConesOk cones)
    (h : combinedStepRhs self r vars cones step σ μ m = .ok out) :
    VarsShape self out.1 ∧ VarsShape step out.2 := by
  unfold combinedStepRhs at h
  dsimp only at h
  obtain ⟨x, hx, h⟩ := bind_ok_inv h
  obtain ⟨⟨shift, stepz, steps⟩, hc, h⟩ := bind_ok_inv h
  dsimp only at h
  obtain ⟨s, hs, h⟩ := bind_ok_inv h
  obtain ⟨z, hz, h⟩ := bind_ok_inv h
  cases h
  obtain ⟨c1, c2, c3⟩ := combinedDsShift_size hok hc
  dsimp only at c1 c2 c3
  refine ⟨⟨(axpbyE_size hx).symm, (axpbyE_size hs).symm, ?_⟩, ⟨rfl, c3.symm, ?_⟩⟩
  · show self.z.size = z.size
    rw [axpbyE_size hz, c1]
  · show step.z.size = stepz.size
    rw [c2]
    split
    · unfold Vec.scale
      rw [Array.size_map]
    · rfl

theorem symmetricInitialization_shape {v v' : Vars α} {cones : List (ConeSt α)}
    (h : symmetricInitialization v cones = .ok v') : VarsShape v v' := by
  unfold symmetricInitialization at h
  dsimp only at h
  obtain ⟨s, hs, h⟩ := bind_ok_inv h
  obtain ⟨z, hz, h⟩ := bind_ok_inv h
  cases h
  exact ⟨rfl, (shiftToConeInterior_size hs).symm, (shiftToConeInterior_size hz).symm⟩

/-! ### `DefaultKKTSystem` -/

/-- the seven work vectors of the KKT system keep their lengths (the linear solver object is not
part of the shape) -/
structure KShape (K K' : KktSys α) : Prop where
  x1 : K.x1.size = K'.x1.size
  z1 : K.z1.size = K'.z1.size
  x2 : K.x2.size = K'.x2.size
  z2 : K.z2.size = K'.z2.size
  workx : K.workx.size = K'.workx.size
  workz : K.workz.size = K'.workz.size
  workConic : K.workConic.size = K'.workConic.size

theorem KShape.rfl' (K : KktSys α) : KShape K K := ⟨rfl, rfl, rfl, rfl, rfl, rfl, rfl⟩

theorem KShape.trans {A B C : KktSys α} (h1 : KShape A B) (h2 : KShape B C) : KShape A C :=
  ⟨h1.x1.trans h2.x1, h1.z1.trans h2.z1, h1.x2.trans h2.x2, h1.z2.trans h2.z2, h1.workx.trans h2.workx,
    h1.workz.trans h2.workz, h1.workConic.trans h2.workConic⟩

theorem scalaropFrom_size (x : Array α) (op : α → α) (v : Array α) : (Vec.scalaropFrom x op v).size = x.size := by
  unfold Vec.scalaropFrom
  simp only [List.size_toArray, List.length_append, List.length_map, List.length_take, List.length_drop,
    Array.length_toList]
  omega

theorem solveConstantRhs_shape {S : KktSys α} {data : ProblemData α} {st : LinSettings α}
    {r : Bool × KktSys α} (h : S.solveConstantRhs data st = .ok r) : KShape S r.2 := by
  unfold KktSys.solveConstantRhs at h
  dsimp only at h
  obtain ⟨K, _, h⟩ := bind_ok_inv h
  obtain ⟨⟨ok, lx, lz, K2⟩, _, h⟩ := bind_ok_inv h
  dsimp only at h
  split at h
  · obtain ⟨x2, hx2, h⟩ := bind_ok_inv h
    obtain ⟨z2, hz2, h⟩ := bind_ok_inv h
    cases h
    exact ⟨rfl, rfl, (copyInto_size hx2).symm, (copyInto_size hz2).symm, (scalaropFrom_size _ _ _).symm, rfl, rfl⟩
  · cases h
    exact ⟨rfl, rfl, rfl, rfl, (scalaropFrom_size _ _ _).symm, rfl, rfl⟩

theorem kktUpdate_shape {S : KktSys α} {data : ProblemData α} {cones : List (ConeSt α)} {st : LinSettings α}
    {r : Bool × KktSys α} (h : S.update data cones st = .ok r) : KShape S r.2 := by
  unfold KktSys.update at h
  obtain ⟨⟨ok, K⟩, _, h⟩ := bind_ok_inv h
  dsimp only at h
  split at h
  · cases h
    exact ⟨rfl, rfl, rfl, rfl, rfl, rfl, rfl⟩
  · have g := solveConstantRhs_shape h
    exact ⟨g.x1, g.z1, g.x2, g.z2, g.workx, g.workz, g.workConic⟩

theorem kktSolve_shape {S : KktSys α} {lhs rhs vars : Vars α} {data : ProblemData α} {cones : List (ConeSt α)}
    {dir : StepDirection} {st : LinSettings α} {r : Bool × Vars α × KktSys α} (hok : ConesOk cones)
    (h : S.solve lhs rhs data vars cones dir st = .ok r) : VarsShape lhs r.2.1 ∧ KShape S r.2.2 := by
  unfold KktSys.solve at h
  obtain ⟨workx, hwx, h⟩ := bind_ok_inv h
  extract_lets jp at h
  have h' : ∃ dsConst : Array α, dsConst.size = S.workConic.size ∧ jp dsConst = Except.ok r := by
    cases dir with
    | affine =>
      dsimp only at h
      obtain ⟨dsConst, hdc, h⟩ := bind_ok_inv h
      exact ⟨dsConst, copyInto_size hdc, h⟩
    | combined =>
      dsimp only at h
      obtain ⟨dsConst, hdc, h⟩ := bind_ok_inv h
      exact ⟨dsConst, dsFromDzOffset_size hok hdc, h⟩
  clear h
  obtain ⟨dsConst, e1, h⟩ := h'
  unfold jp at h
  clear jp
  obtain ⟨workz, hwz, h⟩ := bind_ok_inv h
  obtain ⟨K, _, h⟩ := bind_ok_inv h
  obtain ⟨⟨ok, lx, lz, K2⟩, _, h⟩ := bind_ok_inv h
  dsimp only at h
  split at h
  · cases h
    exact ⟨VarsShape.rfl' _, rfl, rfl, rfl, rfl, (copyInto_size hwx).symm, (waxpbyE_size hwz).symm, e1.symm⟩
  · obtain ⟨x1, hx1, h⟩ := bind_ok_inv h
    obtain ⟨z1, hz1, h⟩ := bind_ok_inv h
    obtain ⟨ξ, hξ, h⟩ := bind_ok_inv h
    obtain ⟨_, _, h⟩ := bind_ok_inv h
    obtain ⟨ξm, hξm, h⟩ := bind_ok_inv h
    obtain ⟨_, _, h⟩ := bind_ok_inv h
    obtain ⟨_, _, h⟩ := bind_ok_inv h
    obtain ⟨dx, hdx, h⟩ := bind_ok_inv h
    obtain ⟨dz, hdz, h⟩ := bind_ok_inv h
    obtain ⟨hs, hhs, h⟩ := bind_ok_inv h
    obtain ⟨ds, hds, h⟩ := bind_ok_inv h
    cases h
    refine ⟨⟨(waxpbyE_size hdx).symm, ?_, (waxpbyE_size hdz).symm⟩,
      ⟨(copyInto_size hx1).symm, (copyInto_size hz1).symm, rfl, rfl, ?_, (waxpbyE_size hwz).symm, e1.symm⟩⟩
    · show lhs.s.size = ds.size
      rw [axpbyE_size hds, mulHs_size hok hhs]
    · show S.workx.size = ξm.size
      rw [axpbyE_size hξm, axpbyE_size hξ, copyInto_size hwx]

theorem solveInitialPointCore_shape {S : KktSys α} {vars : Vars α} {data : ProblemData α} {st : LinSettings α}
    {r : Bool × Vars α × KktSys α} (h : S.solveInitialPointCore vars data st = .ok r) :
    VarsShape vars r.2.1 ∧ KShape S r.2.2 := by
  have hwx : (S.workx.map (fun _ => (0 : α))).size = S.workx.size := Array.size_map ..
  have hneg : ∀ s : Array α, (Vec.negate s).size = s.size := fun s => Array.size_map ..
  unfold KktSys.solveInitialPointCore at h
  split at h
  · -- LP initialization
    obtain ⟨workz, hwz, h⟩ := bind_ok_inv h
    obtain ⟨K, _, h⟩ := bind_ok_inv h
    obtain ⟨⟨ok, lx, lz, K2⟩, _, h⟩ := bind_ok_inv h
    cases ok with
    | false =>
      simp only [Bool.false_eq_true, ↓reduceIte, Bool.not_false] at h
      obtain ⟨p, hp, h⟩ := bind_ok_inv h
      cases hp
      cases h
      exact ⟨⟨rfl, (hneg _).symm, rfl⟩, rfl, rfl, rfl, rfl, hwx.symm, (copyInto_size hwz).symm, rfl⟩
    | true =>
      simp only [↓reduceIte, Bool.not_true, Bool.false_eq_true] at h
      obtain ⟨x, hx, h⟩ := bind_ok_inv h
      obtain ⟨s, hs, h⟩ := bind_ok_inv h
      obtain ⟨p, hp, h⟩ := bind_ok_inv h
      cases hp
      dsimp only at h
      obtain ⟨K3, _, h⟩ := bind_ok_inv h
      obtain ⟨⟨ok2, lx2, lz2, K4⟩, _, h⟩ := bind_ok_inv h
      have hz : ∃ z : Array α, z.size = vars.z.size ∧ r = (ok2, { x := x, s := Vec.negate s, z := z, τ := vars.τ, κ := vars.κ },
          { kktsolver := K4, x1 := S.x1, z1 := S.z1, x2 := S.x2, z2 := S.z2,
            workx := Vec.scalaropFrom (Array.map (fun _ => (0 : α)) S.workx) (fun q => -q) data.q,
            workz := Array.map (fun _ => (0 : α)) workz, workConic := S.workConic }) := by
        cases ok2 with
        | false =>
          simp only [Bool.false_eq_true, ↓reduceIte] at h
          obtain ⟨z, hz, h⟩ := bind_ok_inv h
          cases hz
          cases h
          exact ⟨_, rfl, rfl⟩
        | true =>
          simp only [↓reduceIte] at h
          obtain ⟨z, hz, h⟩ := bind_ok_inv h
          cases h
          exact ⟨z, copyInto_size hz, rfl⟩
      obtain ⟨z, hz, rfl⟩ := hz
      refine ⟨⟨(copyInto_size hx).symm, ?_, hz.symm⟩, rfl, rfl, rfl, rfl, ?_, ?_, rfl⟩
      · show vars.s.size = (Vec.negate s).size
        rw [hneg, copyInto_size hs]
      · show S.workx.size = (Vec.scalaropFrom (Array.map (fun _ => (0 : α)) S.workx) (fun q => -q) data.q).size
        rw [scalaropFrom_size, Array.size_map]
      · show S.workz.size = (Array.map _ workz).size
        rw [Array.size_map, copyInto_size hwz]
  · -- QP initialization
    extract_lets wx jp at h
    have h2 := ite_throw_jp h
    clear h
    obtain ⟨hg, h⟩ := h2
    unfold jp wx at h
    clear jp wx
    have hgq : S.workx.size = data.q.size := by simpa using hg
    obtain ⟨workz, hwz, h⟩ := bind_ok_inv h
    obtain ⟨K, _, h⟩ := bind_ok_inv h
    obtain ⟨⟨ok, lx, lz, K2⟩, _, h⟩ := bind_ok_inv h
    have hxz : ∃ x z : Array α, x.size = vars.x.size ∧ z.size = vars.z.size ∧ vars.s.size = z.size ∧
        r = (ok, { x := x, s := Vec.negate z, z := z, τ := vars.τ, κ := vars.κ },
          { kktsolver := K2, x1 := S.x1, z1 := S.z1, x2 := S.x2, z2 := S.z2, workx := Vec.negate data.q,
            workz := workz, workConic := S.workConic }) := by
      cases ok with
      | false =>
        simp only [Bool.false_eq_true, ↓reduceIte] at h
        obtain ⟨p, hp, h⟩ := bind_ok_inv h
        cases hp
        split at h
        · cases h
        · rename_i hg2
          cases h
          exact ⟨_, _, rfl, rfl, by simpa using hg2, rfl⟩
      | true =>
        simp only [↓reduceIte] at h
        obtain ⟨x, hx, h⟩ := bind_ok_inv h
        obtain ⟨z, hz, h⟩ := bind_ok_inv h
        obtain ⟨p, hp, h⟩ := bind_ok_inv h
        cases hp
        split at h
        · cases h
        · rename_i hg2
          cases h
          exact ⟨x, z, copyInto_size hx, copyInto_size hz, by simpa using hg2, rfl⟩
    obtain ⟨x, z, hx, hz, hsz, rfl⟩ := hxz
    refine ⟨⟨hx.symm, ?_, hz.symm⟩, rfl, rfl, rfl, rfl, ?_, (copyInto_size hwz).symm, rfl⟩
    · show vars.s.size = (Vec.negate z).size
      rw [hneg]; exact hsz
    · show S.workx.size = (Vec.negate data.q).size
      rw [hneg]; exact hgq

theorem solveInitialPoint_shape {S : KktSys α} {vars : Vars α} {data : ProblemData α} {st : LinSettings α}
    {r : Bool × Vars α × KktSys α} (h : S.solveInitialPoint vars data st = .ok r) :
    VarsShape vars r.2.1 ∧ KShape S r.2.2 := by
  rw [KktSys.solveInitialPoint_eq_core] at h
  obtain ⟨h1, h2⟩ := solveInitialPointCore_shape h
  exact ⟨VarsShape.trans ⟨(zeroXSZ_size_x vars).symm, (zeroXSZ_size_s vars).symm, (zeroXSZ_size_z vars).symm⟩ h1, h2⟩

theorem kktNumerics_shape {st : Settings α} {S : SolverSt α} {cones : List (ConeSt α)} {mu : α}
    {iter : Nat} {k : KktOut α} (hok : ConesOk cones) (h : kktNumerics st S cones mu iter = .ok k) :
    KShape S.kktsystem k.S.kktsystem ∧ VarsShape S.stepRhs k.S.stepRhs ∧ VarsShape S.stepLhs k.S.stepLhs := by
  unfold kktNumerics at h
  extract_lets data at h
  obtain ⟨⟨updOk, K0⟩, hupd, h⟩ := bind_ok_inv h
  dsimp -zeta only at h
  obtain ⟨rhs1, hrhs1, h⟩ := bind_ok_inv h
  extract_lets jp at h
  have hx : ∃ x : Bool × Vars α × KktSys α, VarsShape S.stepLhs x.2.1 ∧ KShape K0 x.2.2 ∧ jp x = .ok k := by
    split at h
    · obtain ⟨x, hx, h⟩ := bind_ok_inv h
      obtain ⟨a, b⟩ := kktSolve_shape hok hx
      exact ⟨x, a, b, h⟩
    · obtain ⟨x, hx, h⟩ := bind_ok_inv h
      cases hx
      exact ⟨_, VarsShape.rfl' _, KShape.rfl' _, h⟩
  clear h
  obtain ⟨⟨affOk, lhs1, K1⟩, hl1, hK1, h⟩ := hx
  unfold jp at h
  clear jp
  dsimp only at h
  have hK0 := kktUpdate_shape hupd
  have hr1 := affineStepRhs_shape hrhs1
  split at h
  · obtain ⟨aAff, _, h⟩ := bind_ok_inv h
    obtain ⟨⟨rhs2, lhs2⟩, hc, h⟩ := bind_ok_inv h
    obtain ⟨⟨combOk, lhs3, K3⟩, hs, h⟩ := bind_ok_inv h
    cases h
    obtain ⟨c1, c2⟩ := combinedStepRhs_shape hok hc
    obtain ⟨s1, s2⟩ := kktSolve_shape hok hs
    exact ⟨(hK0.trans hK1).trans s2, hr1.trans c1, (hl1.trans c2).trans s1⟩
  · cases h
    exact ⟨hK0.trans hK1, hr1, hl1⟩

theorem stepVars_shape {S : SolverSt α} {a : α} {pv : Vars α × Vars α} (h : stepVars S a = .ok pv) :
    VarsShape S.prevVars pv.1 ∧ VarsShape S.variables pv.2 := by
  unfold stepVars at h
  obtain ⟨p, hp, h⟩ := bind_ok_inv h
  obtain ⟨v, hv, h⟩ := bind_ok_inv h
  cases h
  exact ⟨varsCopyFrom_shape hp, addStep_shape hv⟩

theorem topNumerics_shape {S : SolverSt α} {iter : Nat} {r : Resid α} {mu : α} {i' : InfoS α}
    (h : topNumerics S iter = .ok (r, mu, i')) :
    r.rx.size = S.residuals.rx.size ∧ r.rz.size = S.residuals.rz.size ∧ r.rx_inf.size = S.residuals.rx_inf.size
      ∧ r.rz_inf.size = S.residuals.rz_inf.size ∧ r.Px.size = S.residuals.Px.size := by
  unfold topNumerics at h
  dsimp only at h
  obtain ⟨r', hr, h⟩ := bind_ok_inv h
  obtain ⟨_, _, h⟩ := bind_ok_inv h
  obtain ⟨_, _, h⟩ := bind_ok_inv h
  obtain ⟨_, _, h⟩ := bind_ok_inv h
  cases h
  exact residUpdate_shape hr
end

section
variable [Add α] [Sub α] [Mul α] [Div α] [Neg α] [OfNat α 0] [OfNat α 1] [OfNat α 2]
  [OfNat α 100] [OfNat α 1000] [LT α] [DecidableLT α] [LE α] [DecidableLE α] [BEq α] [FloatLike α]

/-! ### one pass of the loop -/

theorem SameShape.build {S S' : SolverSt α} (hd : S.data = S'.data) (hv : VarsShape S.variables S'.variables)
    (hr : S'.residuals.rx.size = S.residuals.rx.size ∧ S'.residuals.rz.size = S.residuals.rz.size
      ∧ S'.residuals.rx_inf.size = S.residuals.rx_inf.size ∧ S'.residuals.rz_inf.size = S.residuals.rz_inf.size
      ∧ S'.residuals.Px.size = S.residuals.Px.size)
    (hk : KShape S.kktsystem S'.kktsystem) (hc : ConesShape S.cones S'.cones)
    (hl : VarsShape S.stepLhs S'.stepLhs) (hrh : VarsShape S.stepRhs S'.stepRhs)
    (hp : VarsShape S.prevVars S'.prevVars) : SameShape S S' :=
  ⟨hd, hv, hr.1.symm, hr.2.1.symm, hr.2.2.1.symm, hr.2.2.2.1.symm, hr.2.2.2.2.symm, hk.x1, hk.z1, hk.x2, hk.z2,
    hk.workx, hk.workz, hk.workConic, hc, hl, hrh, hp⟩

theorem SameShape.setInfo (S : SolverSt α) (i : InfoS α) : SameShape S { S with info := i } :=
  SameShape.build rfl (VarsShape.rfl' _) ⟨rfl, rfl, rfl, rfl, rfl⟩ (KShape.rfl' _) (ConesShape.rfl' _)
    (VarsShape.rfl' _) (VarsShape.rfl' _) (VarsShape.rfl' _)

/-- the part of a pass up to and including the KKT stage -/
theorem kktStage_shape {st : Settings α} {L : LoopSt α} {residuals : Resid α} {mu : α} {info1 : InfoS α}
    {ct : InfoS α × Bool} {sc : Bool × List (ConeSt α)} {k : KktOut α} (hok : ConesOk L.S.cones)
    (htop : topNumerics L.S L.iter = .ok (residuals, mu, info1))
    (hsc : scaleCones L.S.variables L.S.cones = .ok sc)
    (hk : kktNumerics st { (topS L residuals mu ct) with cones := sc.2 } sc.2 mu (L.iter + 1) = .ok k) :
    SameShape L.S k.S ∧ ConesOk k.S.cones := by
  obtain ⟨hcs, hco⟩ := updateScaling_shape hok hsc
  obtain ⟨hkS, _⟩ := kktNumerics_frame hk
  obtain ⟨g1, g2, g3⟩ := kktNumerics_shape hco hk
  have e1 : k.S.data = L.S.data := by rw [hkS]; rfl
  have e2 : k.S.variables = L.S.variables := by rw [hkS]; rfl
  have e3 : k.S.residuals = residuals := by rw [hkS]; rfl
  have e4 : k.S.cones = sc.2 := by rw [hkS]
  have e5 : k.S.prevVars = L.S.prevVars := by rw [hkS]; rfl
  refine ⟨SameShape.build e1.symm (e2 ▸ VarsShape.rfl' _) ?_ g1 (e4 ▸ hcs) g3 g2 (e5 ▸ VarsShape.rfl' _), e4 ▸ hco⟩
  rw [e3]
  exact topNumerics_shape htop

theorem pass_sameShape {st : Settings α} {L L' : LoopSt α} {c : Bool} (hok : ConesOk L.S.cones)
    (hp : pass st L = .ok (c, L')) : SameShape L.S L'.S ∧ ConesOk L'.S.cones := by
  cases pass_inv hp with
  | done residuals mu info1 htop hdone hip =>
    exact ⟨SameShape.build rfl (VarsShape.rfl' _) (topNumerics_shape htop) (KShape.rfl' _) (ConesShape.rfl' _)
      (VarsShape.rfl' _) (VarsShape.rfl' _) (VarsShape.rfl' _), hok⟩
  | rollback residuals mu info1 variables htop hdone hip hcopy =>
    exact ⟨SameShape.build rfl (varsCopyFrom_shape hcopy) (topNumerics_shape htop) (KShape.rfl' _)
      (ConesShape.rfl' _) (VarsShape.rfl' _) (VarsShape.rfl' _) (VarsShape.rfl' _), hok⟩
  | scaleFail residuals mu info1 sc htop hdone hsc hok' =>
    obtain ⟨hcs, hco⟩ := updateScaling_shape hok hsc
    exact ⟨SameShape.build rfl (VarsShape.rfl' _) (topNumerics_shape htop) (KShape.rfl' _) hcs
      (VarsShape.rfl' _) (VarsShape.rfl' _) (VarsShape.rfl' _), hco⟩
  | kktFail residuals mu info1 sc k htop hdone hsc hok' hk hkok =>
    obtain ⟨h1, h2⟩ := kktStage_shape hok htop hsc hk
    exact ⟨h1.trans (SameShape.setInfo _ _), h2⟩
  | smallStep residuals mu info1 sc k a htop hdone hsc hok' hk hkok ha hsmall =>
    obtain ⟨h1, h2⟩ := kktStage_shape hok htop hsc hk
    exact ⟨h1.trans (SameShape.setInfo _ _), h2⟩
  | step residuals mu info1 sc k a pv htop hdone hsc hok' hk hkok ha hsmall hpv =>
    obtain ⟨h1, h2⟩ := kktStage_shape hok htop hsc hk
    obtain ⟨p1, p2⟩ := stepVars_shape hpv
    refine ⟨h1.trans ?_, h2⟩
    exact SameShape.build rfl p2 ⟨rfl, rfl, rfl, rfl, rfl⟩ (KShape.rfl' _) (ConesShape.rfl' _)
      (VarsShape.rfl' _) (VarsShape.rfl' _) p1

theorem reach_sameShape {st : Settings α} {L L' : LoopSt α} (h : Reach st L L') (hok : ConesOk L.S.cones) :
    SameShape L.S L'.S ∧ ConesOk L'.S.cones := by
  induction h with
  | refl => exact ⟨SameShape.rfl' _, hok⟩
  | step hp _ ih =>
    obtain ⟨h1, h2⟩ := pass_sameShape hok hp
    obtain ⟨h3, h4⟩ := ih h2
    exact ⟨h1.trans h3, h4⟩

/-! ### `default_start`, the epilogue, `solve()` -/

theorem defaultStart_sameShape {S S' : SolverSt α} {st : Settings α} (hok : ConesOk S.cones)
    (h : S.defaultStart st = .ok S') : SameShape S S' ∧ ConesOk S'.cones := by
  unfold SolverSt.defaultStart at h
  dsimp only at h
  obtain ⟨⟨ok1, K1⟩, hu, h⟩ := bind_ok_inv h
  obtain ⟨⟨ok2, v2, K2⟩, hi, h⟩ := bind_ok_inv h
  obtain ⟨v3, hs, h⟩ := bind_ok_inv h
  cases h
  obtain ⟨hcs, hco⟩ := setIdentityScaling_shape S.cones hok
  obtain ⟨i1, i2⟩ := solveInitialPoint_shape hi
  exact ⟨SameShape.build rfl (i1.trans (symmetricInitialization_shape hs)) ⟨rfl, rfl, rfl, rfl, rfl⟩
    ((kktUpdate_shape hu).trans i2) hcs (VarsShape.rfl' _) (VarsShape.rfl' _) (VarsShape.rfl' _), hco⟩

theorem finishInfo_sameShape (st : Settings α) (L : LoopSt α) :
    SameShape L.S (finishInfo st L) ∧ (finishInfo st L).cones = L.S.cones := by
  unfold finishInfo
  dsimp only
  split
  · exact ⟨SameShape.build rfl (VarsShape.rfl' _) ⟨rfl, rfl, rfl, rfl, rfl⟩ (KShape.rfl' _) (ConesShape.rfl' _)
      (VarsShape.rfl' _) (VarsShape.rfl' _) (VarsShape.rfl' _), rfl⟩
  · exact ⟨SameShape.build rfl (VarsShape.rfl' _) ⟨rfl, rfl, rfl, rfl, rfl⟩ (KShape.rfl' _) (ConesShape.rfl' _)
      (VarsShape.rfl' _) (VarsShape.rfl' _) (VarsShape.rfl' _), rfl⟩


theorem filterMap_length_of_isSome {β γ : Type} (f : β → Option γ) :
    ∀ l : List β, (∀ b ∈ l, (f b).isSome = true) → (l.filterMap f).length = l.length
  | [], _ => rfl
  | b :: l, h => by
    have hb := h b (List.mem_cons_self ..)
    cases hf : f b with
    | none => rw [hf] at hb; cases hb
    | some c =>
      rw [List.filterMap_cons_some hf, List.length_cons, List.length_cons,
        filterMap_length_of_isSome f l (fun b' hb' => h b' (List.mem_cons_of_mem _ hb'))]

theorem hadamardInPlace_size (x y : Array α) : (Unscale.hadamardInPlace x y).size = x.size := by
  unfold Unscale.hadamardInPlace
  rw [List.size_toArray, filterMap_length_of_isSome, List.length_range]
  intro i hi
  have hi' : i < x.size := List.mem_range.mp hi
  rw [Array.getElem?_eq_getElem hi']
  cases y[i]? <;> rfl

theorem unscale_shape (v : Vars α) (eq : Info.Equil α) (b : Bool) : VarsShape v (Unscale.unscale v eq b) := by
  unfold Unscale.unscale Vec.scale
  refine ⟨?_, ?_, ?_⟩ <;> simp only [Array.size_map, hadamardInPlace_size]

theorem postProcess_shape {sol : Unscale.Solution α} {eq : Info.Equil α} {pm : Option (Unscale.PresolveMap α)}
    {v : Vars α} {i : InfoS α} {r : Unscale.Solution α × Vars α}
    (h : Unscale.postProcess sol eq pm v i = .ok r) :
    VarsShape v r.2 ∧ r.1.x.size = sol.x.size ∧ r.1.z.size = sol.z.size ∧ r.1.s.size = sol.s.size := by
  unfold Unscale.postProcess at h
  dsimp only at h
  split at h
  · rename_i p
    obtain ⟨sol', hs, h⟩ := bind_ok_inv h
    cases h
    refine ⟨unscale_shape _ _ _, ?_⟩
    unfold Unscale.reversePresolve at hs
    obtain ⟨x, hx, hs⟩ := bind_ok_inv hs
    obtain ⟨⟨s, z⟩, hl, hs⟩ := bind_ok_inv hs
    cases hs
    obtain ⟨l1, l2⟩ := Unscale.reverseLoop_size _ _ _ _ _ _ _ _ _ _ hl
    exact ⟨Unscale.copyFrom_size _ _ _ hx, l2, l1⟩
  · obtain ⟨x, hx, h⟩ := bind_ok_inv h
    obtain ⟨z, hz, h⟩ := bind_ok_inv h
    obtain ⟨s, hs, h⟩ := bind_ok_inv h
    cases h
    exact ⟨unscale_shape _ _ _, Unscale.copyFrom_size _ _ _ hx, Unscale.copyFrom_size _ _ _ hz,
      Unscale.copyFrom_size _ _ _ hs⟩

/-- **the frame of `solve()`**: starting from consistently sized cone objects, `solve()` keeps the
shape of the whole solver state (up to the norm caches of the data, which it fills), the sizing of the cone objects, and the lengths of the solution
vectors -/
theorem solve_frame {S : Solver α} {st : Settings α} {r : SolveResult α} (h : S.solve st = .ok r)
    (hok : ConesOk S.st.cones) :
    SameShape S.st { r.S.st with data := S.st.data } ∧ ConesOk r.S.st.cones
      ∧ (r.S.solution.x.size = S.solution.x.size ∧ r.S.solution.z.size = S.solution.z.size
          ∧ r.S.solution.s.size = S.solution.s.size) := by
  unfold Solver.solve at h
  obtain ⟨L, hL, h⟩ := bind_ok_inv h
  obtain ⟨p, hp, h⟩ := bind_ok_inv h
  obtain ⟨dN, hdN, h⟩ := bind_ok_inv h
  cases h
  unfold finish at hp
  obtain ⟨u, hu, hp⟩ := bind_ok_inv hp
  cases hp
  obtain ⟨pv, px, pz, ps⟩ := postProcess_shape hu
  obtain ⟨f1, f2⟩ := finishInfo_sameShape st L
  rw [runSolve_eq_runSolveO] at hL
  obtain ⟨o, ho, hl⟩ := bind_ok_inv hL
  unfold SolverSt.runSolveO at ho
  obtain ⟨S0, hds, ho⟩ := bind_ok_inv ho
  have hI := initLoopSt_inv hds
  have hspec := runLoopO_spec st (st.info.max_iter + 2) (initLoopSt S0) hI
    (by show st.info.max_iter - 0 < st.info.max_iter + 2; omega)
  rw [ho] at hspec
  cases o with
  | none => exact hspec.elim
  | some Lf =>
    cases hl
    obtain ⟨_, Lm, hr, hpm⟩ := hspec
    obtain ⟨d1, d2⟩ := defaultStart_sameShape (S := resetInfo S.st) hok hds
    obtain ⟨r1, r2⟩ := reach_sameShape hr d2
    obtain ⟨q1, q2⟩ := pass_sameShape r2 hpm
    have hfin : SameShape (finishInfo st L) { finishInfo st L with variables := u.2 } :=
      SameShape.build rfl pv ⟨rfl, rfl, rfl, rfl, rfl⟩ (KShape.rfl' _) (ConesShape.rfl' _)
        (VarsShape.rfl' _) (VarsShape.rfl' _) (VarsShape.rfl' _)
    refine ⟨?_, ?_, px, pz, ps⟩
    · exact { ((((SameShape.setInfo S.st _).trans d1).trans r1).trans q1).trans (f1.trans hfin) with
        data := rfl }
    · show ConesOk (finishInfo st L).cones
      rw [f2]; exact q2

/-! ### the statements used by the second solve -/

theorem ConeShape.numel {c c' : ConeSt α} (h : ConeShape c c') : c.numel = c'.numel := by
  cases c <;> cases c' <;> try exact h.elim
  · exact h
  · exact h.1
  · exact h.1

theorem ConesShape.numelAll {cs cs' : List (ConeSt α)} (h : ConesShape cs cs') : numelAll cs = numelAll cs' := by
  apply numelAll_congr
  induction h with
  | nil => rfl
  | cons h _ ih => simp only [List.map_cons, ih, h.numel]

theorem SameShape.wellSized {S S' : SolverSt α} (h : SameShape S S') (hw : WellSized S) : WellSized S' := by
  have e := h.cones.numelAll
  exact ⟨by rw [← h.stepLhs.s, ← e]; exact hw.stepLhs, by rw [← h.stepRhs.s, ← e]; exact hw.stepRhs,
    by rw [← h.workConic, ← e]; exact hw.workConic⟩

/-- `solve()` keeps the shape of the solver state: same data UP TO THE TWO NORM CACHES (which `solve()`
fills: `solve_data`; the statement is about the returned state with the data at entry put back),
every work vector keeps its length, every cone object keeps its shape.

The hypothesis `ConesOk` (second-order cone objects sized consistently with their `dim`) cannot be
dropped: `update_scaling` rewrites `w`, `u`, `v` of a second-order cone with vectors of length `dim`
whatever their previous length was, so
`theorem solve_sameShape (h : S.solve st = .ok r) : SameShape S.st r.S.st`
is false for a state whose cone objects are not sized consistently.  It holds of every state built by
`SolverSt.new` (`new_conesOk`) and is kept by `solve()` (`solve_conesOk`). -/
theorem solve_sameShape {S : Solver α} {st : Settings α} {r : SolveResult α} (h : S.solve st = .ok r)
    (hc : ConesOk S.st.cones) : SameShape S.st { r.S.st with data := S.st.data } := (solve_frame h hc).1

/-- `solve()` keeps the cone objects sized consistently -/
theorem solve_conesOk {S : Solver α} {st : Settings α} {r : SolveResult α} (h : S.solve st = .ok r)
    (hc : ConesOk S.st.cones) : ConesOk r.S.st.cones := (solve_frame h hc).2.1

/-- `solve()` keeps the three vectors that are cut along `rng_cones` within the cones' dimension -/
theorem solve_wellSized {S : Solver α} {st : Settings α} {r : SolveResult α} (h : S.solve st = .ok r)
    (hc : ConesOk S.st.cones) (hw : WellSized S.st) : WellSized r.S.st :=
  let w := (solve_sameShape h hc).wellSized hw
  ⟨w.stepLhs, w.stepRhs, w.workConic⟩

/-- `solve()` keeps the lengths of the three solution vectors (no hypothesis needed) -/
theorem solve_solution_shape {S : Solver α} {st : Settings α} {r : SolveResult α} (h : S.solve st = .ok r) :
    r.S.solution.x.size = S.solution.x.size ∧ r.S.solution.z.size = S.solution.z.size
      ∧ r.S.solution.s.size = S.solution.s.size := by
  unfold Solver.solve at h
  obtain ⟨L, hL, h⟩ := bind_ok_inv h
  obtain ⟨p, hp, h⟩ := bind_ok_inv h
  obtain ⟨dN, hdN, h⟩ := bind_ok_inv h
  cases h
  unfold finish at hp
  obtain ⟨u, hu, hp⟩ := bind_ok_inv hp
  cases hp
  exact (postProcess_shape hu).2
end

section
variable [Add α] [Sub α] [Mul α] [Div α] [Neg α] [OfNat α 0] [OfNat α 1] [OfNat α 2]
  [OfNat α 100] [OfNat α 1000] [LT α] [DecidableLT α] [LE α] [DecidableLE α] [BEq α] [FloatLike α]

/-! ### the state `DefaultSolver::new` builds -/

theorem makeCone_ok {t : ConeT α} {c : ConeSt α} (h : makeCone t = .ok c) : ConeOk c := by
  cases t <;> try (cases h; done)
  · cases h; trivial
  · cases h; trivial
  · rename_i n
    unfold makeCone at h
    obtain ⟨K, hK, h⟩ := bind_ok_inv h
    cases h
    unfold Soc.new at hK
    split at hK
    · cases hK
    · cases hK
      refine ⟨?_, ?_⟩
      · show (Soc.zeros n : Array α).size = n
        simp [Soc.zeros]
      · intro sp hsp
        dsimp only at hsp
        split at hsp
        · cases hsp
          exact ⟨by simp [Soc.zeros], by simp [Soc.zeros]⟩
        · cases hsp

theorem makeCones_conesOk : ∀ {ts : List (ConeT α)} {cs : List (ConeSt α)}, makeCones ts = .ok cs → ConesOk cs := by
  intro ts
  induction ts with
  | nil => intro cs h; cases h; intro c hc; cases hc
  | cons t ts ih =>
    intro cs h
    unfold makeCones at h
    simp only [List.mapM_cons] at h
    obtain ⟨c, hc, h⟩ := bind_ok_inv h
    obtain ⟨cs', hcs, h⟩ := bind_ok_inv h
    cases h
    intro c' hc'
    rcases List.mem_cons.mp hc' with e | e
    · rw [e]; exact makeCone_ok hc
    · exact ih hcs c' e


theorem new_conesOk {P : Csc α} {q : Array α} {A : Csc α} {b : Array α} {cones : List (ConeT α)}
    {st : Settings α} {perm : Array Nat} {S : SolverSt α} (h : SolverSt.new P q A b cones st perm = .ok S) :
    ConesOk S.cones := by
  unfold SolverSt.new at h
  obtain ⟨data, _, h⟩ := bind_ok_inv h
  obtain ⟨K, hK, h⟩ := bind_ok_inv h
  obtain ⟨ks, _, h⟩ := bind_ok_inv h
  cases h
  exact makeCones_conesOk hK

/-- what `equilibrate` never writes -/
def DimEq (d d' : ProblemData α) : Prop := d'.cones = d.cones ∧ d'.m = d.m ∧ d'.n = d.n

theorem applyScaling_dim (dt : ProblemData α) (dw : Option (Array α)) (ew : Array α) :
    DimEq dt (Equil.applyScaling dt dw ew) := by
  unfold Equil.applyScaling
  exact ⟨rfl, rfl, rfl⟩

theorem applyCost_dim (dt : ProblemData α) (dw : Array α) (ct : Option α) : DimEq dt (Equil.applyCost dt dw ct) := by
  unfold Equil.applyCost
  cases ct <;> exact ⟨rfl, rfl, rfl⟩

theorem DimEq.trans {a b c : ProblemData α} (h1 : DimEq a b) (h2 : DimEq b c) : DimEq a c :=
  ⟨h2.1.trans h1.1, h2.2.1.trans h1.2.1, h2.2.2.trans h1.2.2⟩

theorem ruizLoop_dim (s : Equil.Settings α) : ∀ (k : Nat) (dt : ProblemData α), DimEq dt (Equil.ruizLoop s k dt)
  | 0, dt => ⟨rfl, rfl, rfl⟩
  | k + 1, dt => by
    unfold Equil.ruizLoop
    refine DimEq.trans ?_ (ruizLoop_dim s k _)
    unfold Equil.ruizStep
    exact (applyScaling_dim _ _ _).trans (applyCost_dim _ _ _)

theorem finish_dim (dt : ProblemData α) (cones : List (ConeT α)) : DimEq dt (Equil.finish dt cones) := by
  have h1 : DimEq dt (Equil.rectifyStep dt cones) := by
    unfold Equil.rectifyStep
    dsimp only
    split
    · exact applyScaling_dim _ _ _
    · exact ⟨rfl, rfl, rfl⟩
  have h2 : ∀ d : ProblemData α, DimEq d (Equil.setInverses d) := fun d => ⟨rfl, rfl, rfl⟩
  exact h1.trans (h2 _)

theorem equilibrate_dim {dt dt' : ProblemData α} {cones : List (ConeT α)} {s : Equil.Settings α}
    (h : Equil.equilibrate dt cones s = .ok dt') : DimEq dt dt' := by
  unfold Equil.equilibrate at h
  split at h
  · cases h; exact ⟨rfl, rfl, rfl⟩
  · split at h
    · cases h
    · split at h
      · cases h
      · cases h
        exact (ruizLoop_dim s s.maxIter dt).trans (finish_dim _ _)

/-- a solver state built by `DefaultSolver::new` is well sized: the three vectors that are cut along
`rng_cones` have length `m = cones.numel` -/
theorem new_wellSized {P : Csc α} {q : Array α} {A : Csc α} {b : Array α} {cones : List (ConeT α)}
    {st : Settings α} {perm : Array Nat} {S : SolverSt α} (h : SolverSt.new P q A b cones st perm = .ok S) :
    WellSized S := by
  unfold SolverSt.new at h
  obtain ⟨data, hd, h⟩ := bind_ok_inv h
  obtain ⟨K, hK, h⟩ := bind_ok_inv h
  obtain ⟨ks, hks, h⟩ := bind_ok_inv h
  cases h
  unfold internalData at hd
  obtain ⟨data0, _, hd⟩ := bind_ok_inv hd
  obtain ⟨K0, hK0, hd⟩ := bind_ok_inv hd
  split at hd
  · cases hd
  rename_i hg
  dsimp only at hd
  obtain ⟨e1, e2, e3⟩ := equilibrate_dim hd
  rw [e1, hK0] at hK
  cases hK
  have hm : numelAll K = data.m := by
    rw [e2]
    simpa using hg
  unfold KktSys.new at hks
  dsimp only at hks
  obtain ⟨_, _, hks⟩ := bind_ok_inv hks
  cases hks
  refine ⟨?_, ?_, ?_⟩
  · show (Array.replicate data.m (0 : α)).size ≤ numelAll K
    rw [Array.size_replicate, hm]; exact Nat.le_refl _
  · show (Array.replicate data.m (0 : α)).size ≤ numelAll K
    rw [Array.size_replicate, hm]; exact Nat.le_refl _
  · show (Array.replicate data.m (0 : α)).size ≤ numelAll K
    rw [Array.size_replicate, hm]; exact Nat.le_refl _

/-- `DefaultSolver::new` builds consistently sized cone objects and a well-sized state -/
theorem solverNew_frame {P : Csc α} {q : Array α} {A : Csc α} {b : Array α} {cones : List (ConeT α)}
    {st : Settings α} {perm : Array Nat} {S : Solver α} (h : Solver.new P q A b cones st perm = .ok S) :
    ConesOk S.st.cones ∧ WellSized S.st := by
  unfold Solver.new at h
  obtain ⟨_, _, h⟩ := bind_ok_inv h
  obtain ⟨S0, hS0, h⟩ := bind_ok_inv h
  cases h
  exact ⟨new_conesOk hS0, new_wellSized hS0⟩

end

end Clarabel.Solver
