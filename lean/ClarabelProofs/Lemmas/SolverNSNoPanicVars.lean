/-
  Panic-freedom of the whole-solver model WITH NONSYMMETRIC CONES (`ClarabelModel/SolverNS/*`, C04) —
  the stage "`DefaultVariables`, `DefaultKKTSystem`, the top of a pass"
  (`SolverNS/Vars.lean`, `SolverNS/KktSys.lean`, `SolverNS.topNumerics`): every field of the bundle
  `MidStage E` of the interface `SolverNSNoPanicDefs.lean`, on top of the composite-cone stage
  `ConeStage E` and of the linear solver object (`KktTotal`).

  The cone-independent kernels (`copyInto`, `axpbyE`, `waxpbyE`, `Residuals.update`, `Info.*`,
  `KktSystem.quadForm`, `KktSys.solveConstantRhs`, `setrhs; solve`) are those of the symmetric model;
  their totality lemmas (`SolverModelNoPanic{Vars,KktSys,Top}.lean`) are re-used unchanged.

  All structural ([S]).
-/
import ClarabelProofs.Lemmas.SolverNSNoPanicDefs
import ClarabelProofs.Lemmas.SolverModelNoPanicTop

namespace Clarabel.SolverNS
open Clarabel Info Residuals
open Clarabel.Solver (NoPanic OkAnd FmaxOK VarsSized ResidSized DataOK KSized KktSolver LinSettings
  StepDirection KktSys bind_ok_of copyInto axpbyE waxpbyE copyInto_ok axpbyE_ok waxpbyE_ok equilView)

set_option linter.unusedSectionVars false
set_option linter.unusedVariables false

variable {α : Type} [Add α] [Sub α] [Mul α] [Div α] [Neg α] [LT α] [LE α] [DecidableLT α] [DecidableLE α]
  [BEq α] [OfNat α 0] [OfNat α 1] [OfNat α 2] [OfNat α 3] [OfNat α 4] [OfNat α 100] [OfNat α 1000]
  [OfScientific α] [FloatLike α]

/-! ### the top of a pass -/

/-- [S] **the numerics at the top of a pass do not panic** on well-formed data with correctly
sized variables and residual buffers; the new residuals keep the problem's dimensions -/
theorem topNumerics_ok {S : SolverSt α} (iter : Nat) (hd : DataOK S.data)
    (hv : VarsSized S.data.n S.data.m S.variables) (hr : ResidSized S.data.n S.data.m S.residuals) :
    OkAnd (topNumerics S iter) (fun r => ResidSized S.data.n S.data.m r.1) := by
  unfold topNumerics
  dsimp only
  obtain ⟨res, hres⟩ := Solver.residUpdate_ok (P := S.data.P) (A := S.data.A) (q := S.data.q)
    (b := S.data.b) hd.P_canon.canon hd.P_m hd.P_n hd.A_canon.canon hd.A_m hd.A_n hd.q hd.b hv hr
  obtain ⟨s1, s2, s3, s4, s5⟩ := Solver.residUpdate_shape hres
  have hr' : ResidSized S.data.n S.data.m res :=
    ⟨s1.trans hr.rx, s2.trans hr.rz, s3.trans hr.rx_inf, s4.trans hr.rz_inf, s5.trans hr.Px⟩
  obtain ⟨nq, hnq⟩ := Solver.getNormq_ok S.data.normq (q := S.data.q)
    (dinv := (equilView S.data.equilibration).dinv) (equilView S.data.equilibration).c
    (by rw [hd.q]; exact hd.eq_dinv.symm)
  obtain ⟨nb, hnb⟩ := Solver.getNormb_ok S.data.normb (b := S.data.b)
    (einv := (equilView S.data.equilibration).einv) (by rw [hd.b]; exact hd.eq_einv.symm)
  obtain ⟨i1, hi1⟩ := Solver.infoUpdate_ok { S.info with iterations := iter }
    (eq := equilView S.data.equilibration) nq nb hv hr' hd.eq_d hd.eq_dinv hd.eq_e hd.eq_einv
  rw [hres, Residuals.merr_ok_bind, hnq, Residuals.merr_ok_bind, hnb, Residuals.merr_ok_bind, hi1,
    Residuals.merr_ok_bind]
  exact ⟨_, rfl, hr'⟩

/-! ### `DefaultVariables` -/

/-- [S] `scale_cones`: total up to the allowed numerical sites, and the cone objects stay
consistently sized with the same layout -/
theorem scaleCones_ok {E : String → Prop} {cspecs : List Kkt.ConeSpec} (CS : ConeStage (α := α) E cspecs) {n m : Nat} {v : Vars α}
    {cones : List (ConeSt α)} (mu : α) (dual : Bool)
    (hc : ConesFull cones) (hm : numelAll cones = m) (hv : VarsSized n m v)
    (hsp : cones.map ConeSt.kktSpec = cspecs) :
    OkOr E (scaleCones v cones mu dual) (fun r => ConesFull r.2
      ∧ r.2.map ConeSt.kktSpec = cones.map ConeSt.kktSpec ∧ numelAll r.2 = m) := by
  unfold scaleCones
  refine (CS.updateScaling cones v.s v.z mu dual hc (by rw [hm]; exact hv.s)
    (by rw [hm]; exact hv.z) hsp).mono fun r h => ?_
  exact ⟨h.1, h.2.1, h.2.2.trans hm⟩

/-- [S] `affine_step_rhs` -/
theorem affineStepRhs_ok {E : String → Prop} {cspecs : List Kkt.ConeSpec} (CS : ConeStage (α := α) E cspecs) {n m : Nat}
    {self vars : Vars α} {r : Resid α}
    {cones : List (ConeSt α)} (hc : ConesFull cones) (hm : numelAll cones = m)
    (hself : VarsSized n m self) (hr : ResidSized n m r) (hv : VarsSized n m vars)
    (hsp : cones.map ConeSt.kktSpec = cspecs) :
    OkAnd (affineStepRhs self r vars cones) (VarsSized n m) := by
  unfold affineStepRhs
  refine (copyInto_ok "rhs.x" (hself.x.trans hr.rx.symm)).bind fun x hx => ?_
  refine (copyInto_ok "rhs.z" (hself.z.trans hr.rz.symm)).bind fun z hz => ?_
  refine (CS.affineDs cones self.s vars.s hc (by rw [hm]; exact hself.s)
    (by rw [hm]; exact hv.s) hsp).bind fun s hs => ?_
  subst hx hz
  exact .pure ⟨hr.rx, hs.trans hself.s, hr.rz⟩

/-- [S] `combined_step_rhs` -/
theorem combinedStepRhs_ok {E : String → Prop} {cspecs : List Kkt.ConeSpec} (CS : ConeStage (α := α) E cspecs) {n m : Nat}
    {self vars step : Vars α} {r : Resid α}
    {cones : List (ConeSt α)} (σ μ mm : α) (hc : ConesFull cones) (hm : numelAll cones = m)
    (hself : VarsSized n m self) (hr : ResidSized n m r) (hv : VarsSized n m vars)
    (hstep : VarsSized n m step) (hsp : cones.map ConeSt.kktSpec = cspecs) :
    OkAnd (combinedStepRhs self r vars cones step σ μ mm)
      (fun o => VarsSized n m o.1 ∧ VarsSized n m o.2) := by
  unfold combinedStepRhs
  dsimp only
  refine (axpbyE_ok (a := (1 : α) - σ) (b := 0) (x := r.rx) (y := self.x) "rhs.x"
    (hself.x.trans hr.rx.symm)).bind fun x hx => ?_
  have hsz : (if mm < 1 ∨ 1 < mm ∨ FloatLike.isNaN mm = true then Vec.scale step.z mm else step.z).size
      = numelAll cones := by
    split
    · unfold Vec.scale; rw [Array.size_map, hm]; exact hstep.z
    · rw [hm]; exact hstep.z
  refine (CS.combinedDsShift cones self.z _ step.s (σ * μ) hc (by rw [hm]; exact hself.z) hsz
    (by rw [hm]; exact hstep.s) hsp).bind fun o ho => ?_
  obtain ⟨c1, c2, c3⟩ := ho
  obtain ⟨shift, stepz, steps⟩ := o
  dsimp only at c1 c2 c3 ⊢
  refine (axpbyE_ok (a := (1 : α)) (b := 1) (x := shift) (y := self.s) "rhs.s"
    (by rw [c1, hself.s, hself.z])).bind fun s hs => ?_
  refine (axpbyE_ok (a := (1 : α) - σ) (b := 0) (x := r.rz) (y := shift) "rhs.z"
    (by rw [c1, hself.z, hr.rz])).bind fun z hz => ?_
  refine .pure ⟨⟨hx.trans hself.x, hs.trans hself.s, hz.trans (c1.trans hself.z)⟩,
    ⟨hstep.x, c3.trans hstep.s, ?_⟩⟩
  exact c2.trans (hsz.trans hm)

/-- [S] `calc_step_length` -/
theorem calcStepLength_ok {E : String → Prop} {cspecs : List Kkt.ConeSpec} (CS : ConeStage (α := α) E cspecs) {n m : Nat} (ls : LineSearch α)
    {vars step : Vars α} {cones : List (ConeSt α)}
    (maxValue msf : α) (dir : StepDirection) (hc : ConesFull cones) (hm : numelAll cones = m)
    (hv : VarsSized n m vars) (hs : VarsSized n m step) (hsp : cones.map ConeSt.kktSpec = cspecs) :
    OkOr E (calcStepLength ls vars step cones maxValue msf dir) (fun _ => True) := by
  unfold calcStepLength
  dsimp only
  refine (CS.stepLength ls cones step.z step.s vars.z vars.s msf
    (Loop.Step.alphaMax vars.τ vars.κ step.τ step.κ maxValue) hc (by rw [hm]; exact hs.z)
    (by rw [hm]; exact hs.s) (by rw [hm]; exact hv.z) (by rw [hm]; exact hv.s) hsp).bind fun r _ => ?_
  exact .pure trivial

/-- [S] `barrier(step, α, cones)` -/
theorem barrier_ok {E : String → Prop} {cspecs : List Kkt.ConeSpec} (CS : ConeStage (α := α) E cspecs) {n m : Nat} {v step : Vars α} (a : α)
    {cones : List (ConeSt α)} (hc : ConesFull cones) (hm : numelAll cones = m)
    (hv : VarsSized n m v) (hs : VarsSized n m step) (hsp : cones.map ConeSt.kktSpec = cspecs) :
    OkOr E (barrier v step a cones) (fun _ => True) := by
  unfold barrier
  dsimp only
  have hdot : OkAnd (Vec.dotShiftedE v.z v.s step.z step.s a) (fun _ => True) := by
    unfold Vec.dotShiftedE
    rw [if_neg (by simp [hv.z, hv.s]), if_neg (by simp [hv.z, hs.z]), if_neg (by simp [hv.s, hs.s])]
    exact .pure trivial
  refine (OkOr.of_okAnd hdot).bind fun sz _ => ?_
  refine (CS.computeBarrier cones v.z v.s step.z step.s a hc (by rw [hm]; exact hv.z)
    (by rw [hm]; exact hv.s) (by rw [hm]; exact hs.z) (by rw [hm]; exact hs.s) hsp).bind fun cb _ => ?_
  exact .pure trivial

/-- [S] `unit_initialization(cones)` -/
theorem varsUnitInitialization_ok {E : String → Prop} {cspecs : List Kkt.ConeSpec} (CS : ConeStage (α := α) E cspecs) {n m : Nat}
    {v : Vars α} {cones : List (ConeSt α)} (hc : ConesFull cones) (hm : numelAll cones = m)
    (hv : VarsSized n m v) (hsp : cones.map ConeSt.kktSpec = cspecs) :
    OkAnd (varsUnitInitialization v cones) (VarsSized n m) := by
  unfold varsUnitInitialization
  refine (CS.unitInitialization cones v.z v.s hc (by rw [hm]; exact hv.z)
    (by rw [hm]; exact hv.s) hsp).bind fun o ho => ?_
  obtain ⟨z, s⟩ := o
  obtain ⟨h1, h2⟩ := ho
  dsimp only at h1 h2 ⊢
  exact .pure ⟨by rw [Array.size_map]; exact hv.x, h2.trans hv.s, h1.trans hv.z⟩

/-! ### `DefaultKKTSystem` -/

/-- [S] `KKTSystem::update` -/
theorem kktSysUpdate_ok {KIw KIs : KktSolver α → Prop} {n m : Nat}
    {st : LinSettings α} {S : KktSys α} {data : ProblemData α} {cones : List (ConeSt α)}
    (T : KktTotal KIw KIs (cones.map ConeSt.kktSpec) n m st)
    (hS : KSized n m S) (hK : KIw S.kktsolver) (hc : ConesFull cones)
    (hq : data.q.size = n) (hb : data.b.size = m) :
    OkAnd (kktSysUpdate S data cones st) (fun r => KSized n m r.2 ∧ KIs r.2.kktsolver) := by
  unfold kktSysUpdate
  obtain ⟨r, hr, hKs⟩ := T.update S.kktsolver cones hK hc rfl
  rw [bind_ok_of hr]
  obtain ⟨ok, K⟩ := r
  dsimp only at hKs ⊢
  cases ok with
  | false =>
    simp only [Bool.not_false, ↓reduceIte]
    exact .pure ⟨⟨hS.x1, hS.z1, hS.x2, hS.z2, hS.workx, hS.workz, hS.workConic⟩, hKs⟩
  | true =>
    simp only [Bool.not_true, Bool.false_eq_true, ↓reduceIte]
    exact Solver.solveConstantRhs_ok (S := { S with kktsolver := K }) T.toSolve
      ⟨hS.x1, hS.z1, hS.x2, hS.z2, hS.workx, hS.workz, hS.workConic⟩ hKs hq hb

/-- [S] `KKTSystem::solve` -/
theorem kktSysSolve_ok {E : String → Prop} {cspecs : List Kkt.ConeSpec} (CS : ConeStage (α := α) E cspecs) {KIw KIs : KktSolver α → Prop}
    {specs : List Kkt.ConeSpec} {n m : Nat}
    {st : LinSettings α} (T : KktTotal KIw KIs specs n m st) {S : KktSys α} {data : ProblemData α}
    {lhs rhs vars : Vars α} {cones : List (ConeSt α)} (dir : StepDirection)
    (hd : DataOK data) (hn : data.n = n) (hm' : data.m = m)
    (hS : KSized n m S) (hK : KIs S.kktsolver) (hc : ConesFull cones) (hm : numelAll cones = m)
    (hlhs : VarsSized n m lhs) (hrhs : VarsSized n m rhs) (hvars : VarsSized n m vars)
    (hsp : cones.map ConeSt.kktSpec = cspecs) :
    OkAnd (kktSysSolve S lhs rhs data vars cones dir st)
      (fun r => VarsSized n m r.2.1 ∧ KSized n m r.2.2 ∧ KIs r.2.2.kktsolver) := by
  have hPn : data.P.n = n := hd.P_n.trans hn
  have hPm : data.P.m = data.P.n := hd.P_m.trans hd.P_n.symm
  have qf : ∀ y x : Array α, y.size = n → x.size = n → ∃ v, KktSystem.quadForm data.P y x = .ok v :=
    fun y x hy hx => Solver.quadForm_ok hd.P_canon.canon hPm hd.P_triu (hx.trans hPn.symm)
      (hy.trans hPn.symm)
  unfold kktSysSolve
  refine (copyInto_ok "workx" (hS.workx.trans hrhs.x.symm)).bind fun workx hwx => ?_
  subst hwx
  extract_lets jp
  have hjp : ∀ dsConst : Array α, dsConst.size = m → OkAnd (jp dsConst)
      (fun r => VarsSized n m r.2.1 ∧ KSized n m r.2.2 ∧ KIs r.2.2.kktsolver) := by
    intro dsConst hdc
    unfold jp
    clear jp
    refine (waxpbyE_ok "workz" (by rw [hdc, hS.workz]) (by rw [hrhs.z, hS.workz])).bind fun workz hwz => ?_
    have hwzm : workz.size = m := hwz.trans hS.workz
    refine (T.toSolve.solveOk hK hrhs.x hwzm).bind fun K1 h1 => ?_
    refine h1.bind fun r hr => ?_
    obtain ⟨ok, lx, lz, K2⟩ := r
    obtain ⟨hlx, hlz, hK2⟩ := hr
    dsimp only at hlx hlz hK2 ⊢
    cases ok with
    | false =>
      simp only [Bool.not_false, ↓reduceIte]
      exact .pure ⟨hlhs, ⟨hS.x1, hS.z1, hS.x2, hS.z2, hrhs.x, hwzm, hdc⟩, hK2⟩
    | true =>
      simp only [Bool.not_true, Bool.false_eq_true, ↓reduceIte]
      refine (copyInto_ok "x1" (hS.x1.trans hlx.symm)).bind fun x1 hx1 => ?_
      refine (copyInto_ok "z1" (hS.z1.trans hlz.symm)).bind fun z1 hz1 => ?_
      subst hx1 hz1
      refine (axpbyE_ok "ξ" (hrhs.x.trans hvars.x.symm)).bind fun ξ hξ => ?_
      have hξn : ξ.size = n := hξ.trans hrhs.x
      refine (OkAnd.of_exists (qf ξ x1 hξn hlx)).bind fun ξPx1 _ => ?_
      refine (axpbyE_ok "ξ_minus_x2" (hξn.trans hS.x2.symm)).bind fun ξm hξm => ?_
      have hξmn : ξm.size = n := hξm.trans hξn
      refine (OkAnd.of_exists (qf ξm ξm hξmn hξmn)).bind fun qfξm _ => ?_
      refine (OkAnd.of_exists (qf S.x2 S.x2 hS.x2 hS.x2)).bind fun qfx2 _ => ?_
      refine (waxpbyE_ok "lhs.x" (hlhs.x.trans hlx.symm) (hlhs.x.trans hS.x2.symm)).bind fun dx hdx => ?_
      refine (waxpbyE_ok "lhs.z" (hlhs.z.trans hlz.symm) (hlhs.z.trans hS.z2.symm)).bind fun dz hdz => ?_
      refine (CS.mulHs cones lhs.s dz hc (by rw [hm]; exact hlhs.s)
        (by rw [hm, hdz]; exact hlhs.z) hsp).bind fun hs hhs => ?_
      have hhsm : hs.size = m := hhs.trans hlhs.s
      refine (axpbyE_ok "lhs.s" (hhsm.trans hdc.symm)).bind fun ds hds => ?_
      exact .pure ⟨⟨hdx.trans hlhs.x, hds.trans hhsm, hdz.trans hlhs.z⟩,
        ⟨hlx, hlz, hS.x2, hS.z2, hξmn, hwzm, hdc⟩, hK2⟩
  cases dir with
  | affine =>
    dsimp only
    refine (copyInto_ok "work_conic" (hS.workConic.trans hvars.s.symm)).bind fun v hv => ?_
    exact hjp v (by rw [hv]; exact hvars.s)
  | combined =>
    dsimp only
    refine (CS.dsFromDzOffset cones S.workConic rhs.s vars.z hc (by rw [hm]; exact hS.workConic)
      (by rw [hm]; exact hrhs.s) (by rw [hm]; exact hvars.z) hsp).bind fun o ho => ?_
    exact hjp o (ho.trans hS.workConic)

/-! ### the bundle -/

/-- the `DefaultVariables` / `DefaultKKTSystem` / top-of-pass stage of the model with nonsymmetric
cones, from the composite-cone stage -/
theorem midStage {E : String → Prop} {cspecs : List Kkt.ConeSpec} (CS : ConeStage (α := α) E cspecs) :
    MidStage (α := α) E cspecs where
  topNumerics := fun S iter hd hv hr => topNumerics_ok iter hd hv hr
  scaleCones := fun n m v cones mu dual hc hm hv hsp => scaleCones_ok CS mu dual hc hm hv hsp
  affineStepRhs := fun n m self vars r cones hc hm hself hr hv hsp =>
    affineStepRhs_ok CS hc hm hself hr hv hsp
  combinedStepRhs := fun n m self vars step r cones σ μ mm hc hm hself hr hv hstep hsp =>
    combinedStepRhs_ok CS σ μ mm hc hm hself hr hv hstep hsp
  calcStepLength := fun n m ls vars step cones maxValue msf dir hc hm hv hs hsp =>
    calcStepLength_ok CS ls maxValue msf dir hc hm hv hs hsp
  barrier := fun n m v step a cones hc hm hv hs hsp => barrier_ok CS a hc hm hv hs hsp
  unitInit := fun n m v cones hc hm hv hsp => varsUnitInitialization_ok CS hc hm hv hsp
  kktSysUpdate := fun KIw KIs n m st S data cones T hS hK hc hq hb => kktSysUpdate_ok T hS hK hc hq hb
  kktSysSolve := fun KIw KIs specs n m st S data lhs rhs vars cones dir T hd hn hm' hS hK hc hm hlhs hrhs
      hvars hsp => kktSysSolve_ok CS T dir hd hn hm' hS hK hc hm hlhs hrhs hvars hsp

end Clarabel.SolverNS
