/-
  Clique-graph merge strategy (`ClarabelModel/Chordal/MergeCG.lean`, Rust
  `src/solver/chordal/merge/clique_graph.rs`): `traverse` and `evaluate` under the loop invariant
  `CGInv` (`ChordalCGDefs.lean`); the statements are `TraverseSpec` / `EvaluateSpec` of
  `ChordalCGSpecs.lean`.

  1. `Trav.entry_some_lt`, `evaluate_spec`: a stored entry has in-range coordinates, so `get_entry`
     does not panic and `evaluate` is decided by the sign of the weight;
  2. `findmax_some`, `maxElem_ok`: `max_elem` on a well-formed matrix with a stored entry returns
     `(rowval[ind], column of ind)` for a storage position `ind` (the `for … break` loop finds
     the column);
  3. `partitionPoint_colptr`, `edgeFromIndex_ok`: `index_to_coord` does the same by
     `partition_point` on `colptr` (empty columns are skipped correctly);
  4. `ispermissible_ok`, `ispermissible_inv`: `ispermissible` does not panic on a stored entry
     under the invariant (the adjacency sets only mention live cliques);
  5. `cg_edges_nonempty`: two live cliques force a stored entry (connectivity);
  6. `traverse_spec`.
  All theorems here are class [S].
-/
import ClarabelProofs.Lemmas.ChordalCGSpecs

namespace Clarabel.Chordal
open Clarabel

/-! ## `evaluate` -/

/-- [S] a stored entry has in-range coordinates -/
theorem Trav.entry_some_lt {E : IMat} (h : E.WFE) (hl : E.Lower) {r c : Nat}
    (hs : (E.entry r c).isSome = true) : r < E.n ∧ c < E.n := by
  have hc : c < E.n := by
    by_contra hc
    have h0 : E.colptr.getD (c + 1) 0 = 0 := by
      have := h.cpsize
      simp [Array.getD_eq_getD_getElem?, show ¬ (c + 1 < E.colptr.size) by omega]
    have : E.colRows c = #[] := by
      unfold IMat.colRows
      rw [h0]
      simp
    unfold IMat.entry at hs
    rw [this] at hs
    simp at hs
  obtain ⟨v, hv⟩ := Option.isSome_iff_exists.mp hs
  obtain ⟨k, hk, _, hr, _⟩ := (entry_eq_some_iff h hl hc v).mp hv
  exact ⟨hr ▸ h.rows k hk, hc⟩

/-- [S] **evaluate_spec**: `evaluate` on a stored entry does not panic; merge iff the weight is
`≥ 0`, otherwise `stop` is set -/
theorem evaluate_spec : EvaluateSpec := by
  intro N nv s t hinv r c v hv
  have hg := hinv.good
  obtain ⟨hr, hc⟩ := Trav.entry_some_lt hg.wfe hg.lower (r := r) (c := c) (by rw [hv]; rfl)
  unfold CGStrategy.evaluate
  simp only [getEntry_ok hg.wfe hg.lower.sq hr hc, hv, bind, Except.bind, pure, Except.pure]
  by_cases h : v ≥ 0
  · simp [h]
  · simp [h]

/-! ## `findmax`, `max_elem` -/

/-- [S] the running index of `findmax` stays in range -/
theorem findmax_fold_lt (v : Array Int) : ∀ (l : List Nat) (b : Nat × Int), (∀ i ∈ l, i < v.size) →
    b.1 < v.size →
    (l.foldl (fun (best : Nat × Int) i =>
      let x := v.getD i 0
      if x ≥ best.2 then (i, x) else best) b).1 < v.size := by
  intro l
  induction l with
  | nil => intro b _ hb; exact hb
  | cons a l ih =>
    intro b hl hb
    rw [List.foldl_cons]
    apply ih _ (fun i hi => hl i (by simp [hi]))
    by_cases h : v.getD a 0 ≥ b.2
    · simp only [h, if_true]; exact hl a (by simp)
    · simp only [h, if_false]; exact hb

/-- [S] `findmax` on a non-empty array returns an index of the array -/
theorem findmax_some (v : Array Int) (h : 0 < v.size) : ∃ i, findmax v = some i ∧ i < v.size := by
  unfold findmax
  have : v[0]? = some v[0] := by simp [h]
  rw [this]
  exact ⟨_, rfl, findmax_fold_lt v _ _ (fun i hi => by simpa using hi) h⟩

/-- the body of the loop of `max_elem` -/
def maxElemStep (A : IMat) (ind : Nat) (c : Nat) (col : Nat) : MErr (ForInStep Nat) := do
  let lo ← getE A.colptr c "max_elem"
  let hi ← getE A.colptr (c + 1) "max_elem"
  if lo ≤ ind ∧ ind < hi then pure (.done c) else pure (.yield col)

/-- [S] `max_elem` with its loop as `forIn` over `0 … n-1` (no hypotheses) -/
theorem maxElem_eq_forIn (A : IMat) :
    maxElem A = (do
      let ind ← match findmax A.nzval with
        | some i => pure i
        | none => throw (.panic "max_elem: unwrap")
      let row ← getE A.rowval ind "max_elem"
      let col ← forIn (List.range' 0 A.n) 0 (maxElemStep A ind)
      pure (row, col)) := by
  unfold maxElem
  simp only [Std.Legacy.Range.forIn_eq_forIn_range', Std.Legacy.Range.size, Nat.sub_zero,
    Nat.add_sub_cancel, Nat.div_one]
  cases findmax A.nzval <;> rfl

/-- [S] the loop of `max_elem` stops at the column of the entry `ind` -/
theorem forIn_maxElemStep {E : IMat} (h : E.WFE) {ind : Nat} (hind : ind < E.rowval.size)
    (len : Nat) : ∀ (i col : Nat), i + len = E.n → i ≤ E.colIdx.getD ind 0 →
      forIn (List.range' i len) col (maxElemStep E ind) = .ok (E.colIdx.getD ind 0) := by
  obtain ⟨h1, h2, h3⟩ := colIdx_spec h hind
  induction len with
  | zero => intro i col hi hle; omega
  | succ len ih =>
    intro i col hi hle
    rw [List.range'_succ, List.forIn_cons]
    have hs := h.cpsize
    simp only [maxElemStep, Kr.getE_ok E.colptr i _ 0 (by omega),
      Kr.getE_ok E.colptr (i + 1) _ 0 (by omega), bind, Except.bind, pure, Except.pure]
    by_cases e : E.colIdx.getD ind 0 = i
    · have : E.colptr.getD i 0 ≤ ind ∧ ind < E.colptr.getD (i + 1) 0 := by
        rw [← e]; exact ⟨h2, h3⟩
      simp only [this, and_self, if_true]
      rw [e]
    · have : ¬ (E.colptr.getD i 0 ≤ ind ∧ ind < E.colptr.getD (i + 1) 0) := by
        intro hc
        exact e ((colIdx_eq_iff h hind (by omega)).mpr hc)
      simp only [this, if_false]
      exact ih (i + 1) col (by omega) (by omega)

/-- [S] the entry at a storage position is a stored entry -/
theorem Trav.entry_of_index {E : IMat} (h : E.WFE) (hl : E.Lower) {k : Nat} (hk : k < E.rowval.size) :
    (E.entry (E.rowval.getD k 0) (E.colIdx.getD k 0)).isSome = true := by
  have hc := (colIdx_spec h hk).1
  rw [(entry_eq_some_iff h hl hc (E.nzval.getD k 0)).mpr ⟨k, hk, rfl, rfl, rfl⟩]
  rfl

/-- [S] `max_elem` on a well-formed matrix with at least one stored entry -/
theorem maxElem_ok {E : IMat} (h : E.WFE) (hnz : 0 < E.nzval.size) :
    ∃ ind, ind < E.rowval.size ∧
      maxElem E = .ok (E.rowval.getD ind 0, E.colIdx.getD ind 0) := by
  obtain ⟨ind, hf, hlt⟩ := findmax_some E.nzval hnz
  have hind : ind < E.rowval.size := by have := h.nnz_val; omega
  refine ⟨ind, hind, ?_⟩
  rw [maxElem_eq_forIn, hf]
  simp only [bind, Except.bind, pure, Except.pure, Kr.getE_ok E.rowval ind _ 0 hind,
    forIn_maxElemStep h hind E.n 0 0 (by omega) (by omega)]

/-! ## `partition_point`, `index_to_coord`, `edge_from_index` -/

/-- [S] `takeWhile` stops at the first element that fails the test -/
theorem Trav.takeWhile_length_eq (p : Nat → Bool) : ∀ (l : List Nat) (j : Nat), j < l.length →
    (∀ i, i < j → p (l.getD i 0) = true) → p (l.getD j 0) = false →
    (l.takeWhile p).length = j := by
  intro l
  induction l with
  | nil => intro j hj; simp at hj
  | cons a l ih =>
    intro j hj hlt hat
    cases j with
    | zero =>
      have : p a = false := by simpa using hat
      simp [this]
    | succ j =>
      have h0 : p a = true := by simpa using hlt 0 (by omega)
      rw [List.takeWhile_cons, h0]
      simp only [if_true, List.length_cons, Nat.add_right_cancel_iff]
      apply ih j (by simpa using hj)
      · intro i hi; simpa using hlt (i + 1) (by omega)
      · simpa using hat

/-- [S] `partition_point` on `colptr` finds the column of a storage position (empty columns are
skipped: the prefix ends at the LAST column pointer `≤ idx`) -/
theorem partitionPoint_colptr {E : IMat} (h : E.WFE) {idx : Nat} (hidx : idx < E.rowval.size) :
    partitionPoint E.colptr (fun c => decide (idx + 1 > c)) = E.colIdx.getD idx 0 + 1 := by
  obtain ⟨h1, h2, h3⟩ := colIdx_spec h hidx
  have hs := h.cpsize
  have hg : ∀ i, E.colptr.toList.getD i 0 = E.colptr.getD i 0 := by
    intro i; simp [Array.getD_eq_getD_getElem?, List.getD_eq_getElem?_getD]
  unfold partitionPoint
  apply Trav.takeWhile_length_eq
  · simp only [Array.length_toList]; omega
  · intro i hi
    rw [hg]
    have := colptr_mono h (E.colIdx.getD idx 0) (by omega) i (by omega)
    simp only [decide_eq_true_eq]; omega
  · rw [hg]
    simp only [decide_eq_false_iff_not]; omega

/-- [S] `index_to_coord` / `edge_from_index` on a storage position of a well-formed matrix -/
theorem edgeFromIndex_ok {E : IMat} (h : E.WFE) {idx : Nat} (hidx : idx < E.rowval.size) :
    edgeFromIndex E idx = .ok (E.rowval.getD idx 0, E.colIdx.getD idx 0) := by
  have hs := h.cpsize
  unfold edgeFromIndex IMat.indexToCoord IMat.nnz
  simp only [Kr.getE_ok E.colptr E.n _ 0 (by omega), h.nnz_row, bind, Except.bind, pure, Except.pure,
    hidx, decide_true, Bool.not_true, Bool.false_eq_true, if_false,
    Kr.getE_ok E.rowval idx _ 0 hidx, partitionPoint_colptr h hidx]
  simp

/-! ## `ispermissible` -/

/-- [S] a loop whose body never panics does not panic -/
theorem Trav.forIn_list_ok {α β : Type} (f : α → β → MErr (ForInStep β)) : ∀ (l : List α),
    (∀ x ∈ l, ∀ b, ∃ r, f x b = .ok r) → ∀ b, ∃ r, forIn l b f = .ok r := by
  intro l
  induction l with
  | nil => intro _ b; exact ⟨b, rfl⟩
  | cons a l ih =>
    intro hl b
    obtain ⟨r, hr⟩ := hl a (by simp) b
    rw [List.forIn_cons, hr]
    cases r with
    | done b' => exact ⟨b', rfl⟩
    | yield b' => exact ih (fun x hx => hl x (by simp [hx])) b'

/-- [S] a conditional between two successes is a success -/
theorem Trav.ite_ok {β : Type} (c : Prop) [Decidable c] (a b : β) :
    ∃ r, (if c then (Except.ok a : MErr β) else Except.ok b) = .ok r := by
  by_cases h : c
  · exact ⟨a, by rw [if_pos h]⟩
  · exact ⟨b, by rw [if_neg h]⟩

/-- the body of the loop of `ispermissible` -/
def ispermStep (snode : Array VSet) (c1 c2 : Nat) (neighbor : Nat) (_s : Option Bool × Unit) :
    MErr (ForInStep (Option Bool × Unit)) := do
  let s1 ← getE snode c1 "ispermissible"
  let s2 ← getE snode c2 "ispermissible"
  let sn ← getE snode neighbor "ispermissible"
  if (s1.inter sn != s2.inter sn) = true then pure (ForInStep.done (some false, ()))
  else pure (ForInStep.yield (none, ()))

/-- [S] `ispermissible` with its loop over the list of common neighbours (no hypotheses) -/
theorem ispermissible_eq (c1 c2 : Nat) (table : HMap VSet) (snode : Array VSet) :
    ispermissible (c1, c2) table snode = (do
      let a1 ← table.getP c1 "ispermissible"
      let a2 ← table.getP c2 "ispermissible"
      let r ← forIn (a1.inter a2).toList ((none : Option Bool), ()) (ispermStep snode c1 c2)
      match r.1 with
      | some r => pure r
      | none => pure true) := by
  unfold ispermissible
  simp only [← Array.forIn_toList]
  congr
  funext a1
  congr
  funext a2
  congr
  funext x
  rcases x with ⟨_ | _, _⟩ <;> rfl

/-- [S] looking up a key that is present -/
theorem Trav.getP_of_containsKey {β : Type} {h : HMap β} {k : Nat} (hk : h.containsKey k = true)
    (site : String) : ∃ v, h.get? k = some v ∧ h.getP k site = .ok v := by
  unfold HMap.containsKey at hk
  obtain ⟨v, hv⟩ := Option.isSome_iff_exists.mp hk
  exact ⟨v, hv, by unfold HMap.getP; rw [hv]; rfl⟩

/-- [S] `ispermissible` does not panic when both cliques are keys of the table and stored, and
every neighbour of the first is a stored clique -/
theorem ispermissible_ok {table : HMap VSet} {snode : Array VSet} {c1 c2 : Nat}
    (h1 : table.containsKey c1 = true) (h2 : table.containsKey c2 = true)
    (hc1 : c1 < snode.size) (hc2 : c2 < snode.size)
    (hn : ∀ b ∈ (table.nbrs c1).toList, b < snode.size) :
    ∃ b, ispermissible (c1, c2) table snode = .ok b := by
  obtain ⟨a1, hg1, hp1⟩ := Trav.getP_of_containsKey h1 "ispermissible"
  obtain ⟨a2, hg2, hp2⟩ := Trav.getP_of_containsKey h2 "ispermissible"
  have hn' : ∀ b ∈ (a1.inter a2).toList, b < snode.size := by
    intro b hb
    apply hn
    unfold HMap.nbrs
    rw [hg1]
    simp only [VSet.inter, List.mem_filter] at hb
    exact hb.1
  obtain ⟨r, hr⟩ := Trav.forIn_list_ok (ispermStep snode c1 c2) (a1.inter a2).toList (by
    intro x hx b
    unfold ispermStep
    simp only [Kr.getE_ok snode c1 _ #[] hc1, Kr.getE_ok snode c2 _ #[] hc2,
      Kr.getE_ok snode x _ #[] (hn' x hx), bind, Except.bind, pure, Except.pure]
    exact Trav.ite_ok _ _ _) (none, ())
  rw [ispermissible_eq, hp1, hp2]
  simp only [bind, Except.bind, hr]
  cases r.1 <;> exact ⟨_, rfl⟩

/-! ## `traverse` -/

/-- the body of the loop of `traverse` -/
def travStep (s : CGStrategy) (t : SuperNodeTree) (p : Array Nat) (k : Nat)
    (_st : Option (CGStrategy × Option (Nat × Nat)) × Unit) :
    MErr (ForInStep (Option (CGStrategy × Option (Nat × Nat)) × Unit)) := do
  let pk ← getE p k "traverse"
  let edge ← edgeFromIndex s.edges pk
  let b ← ispermissible edge s.adjacencyTable t.snode
  if b = true then pure (ForInStep.done (some (s, some edge), ()))
  else pure (ForInStep.yield (none, ()))

/-- [S] `traverse` with its loop as `forIn` over `1 … nz-1` (no hypotheses) -/
theorem traverse_eq_forIn (s : CGStrategy) (t : SuperNodeTree) :
    s.traverse t = (do
      let edge ← maxElem s.edges
      let b ← ispermissible edge s.adjacencyTable t.snode
      if b = true then pure (s, some edge) else
      if s.edges.nzval.size > s.p.size then throw (.panic "traverse: slice") else
      let p := sortpermRev s.edges.nzval ++ s.p.extract s.edges.nzval.size s.p.size
      let s' : CGStrategy := { s with p := p }
      let r ← forIn (List.range' 1 (s.edges.nzval.size - 1)) (none, ()) (travStep s' t p)
      match r.1 with
      | some r => pure r
      | none => pure (s', none)) := by
  unfold CGStrategy.traverse
  simp only [Std.Legacy.Range.forIn_eq_forIn_range', Std.Legacy.Range.size,
    Nat.add_sub_cancel, Nat.div_one]
  congr
  funext edge
  congr
  funext b
  by_cases hb : b = true
  · rw [if_pos hb, if_pos hb]
  · rw [if_neg hb, if_neg hb]
    by_cases hnz : s.edges.nzval.size > s.p.size
    · rw [if_pos hnz, if_pos hnz]; rfl
    · rw [if_neg hnz, if_neg hnz]
      congr
      funext x
      rcases x with ⟨_ | _, _⟩ <;> rfl

/-- [S] under the invariant `ispermissible` does not panic on a stored entry: its end points are
live cliques (keys of the table, stored), and the adjacency sets only mention live cliques -/
theorem ispermissible_inv {N nv : Nat} {s : CGStrategy} {t : SuperNodeTree} (h : CGInv N nv s t)
    {r c : Nat} (he : (s.edges.entry r c).isSome = true) :
    ∃ b, ispermissible (r, c) s.adjacencyTable t.snode = .ok b := by
  obtain ⟨hr, hc⟩ := h.edge_live r c he
  refine ispermissible_ok ((h.adj_key r).mpr hr) ((h.adj_key c).mpr hc) hr.1 hc.1 ?_
  intro b hb
  obtain ⟨hadj, _⟩ := (h.adj_iff r b hr).mp hb
  obtain ⟨h1, h2⟩ := h.edge_live _ _ hadj
  rcases Nat.le_total r b with hle | hle
  · rw [Nat.max_eq_right hle] at h1; exact h1.1
  · rw [Nat.min_eq_right hle] at h2; exact h2.1

/-- [S] a list without repetition of length `≥ 2` has two different members -/
theorem Trav.exists_two_of_nodup {l : List Nat} (hn : l.Nodup) (hl : 2 ≤ l.length) :
    ∃ a b, a ∈ l ∧ b ∈ l ∧ a ≠ b := by
  match l, hn, hl with
  | a :: b :: _, hn, _ =>
    refine ⟨a, b, by simp, by simp, ?_⟩
    intro e
    simp [e] at hn

/-- [S] under the invariant with at least two live cliques the edge matrix has a stored entry
(the live cliques are connected by the stored entries) -/
theorem cg_edges_nonempty {N nv : Nat} {s : CGStrategy} {t : SuperNodeTree} (h : CGInv N nv s t)
    (h2 : 2 ≤ t.nCliques) : 0 < s.edges.nzval.size := by
  rw [h.ncl] at h2
  obtain ⟨a, b, ha, hb, hab⟩ := Trav.exists_two_of_nodup (cgLiveList_nodup t) h2
  have hc := h.conn a b ((mem_cgLiveList t a).mp ha) ((mem_cgLiveList t b).mp hb)
  rw [h.good.wfe.nnz_val]
  by_contra h0
  have h0' : s.edges.rowval.size = 0 := by omega
  have : s.edges.edges = [] := by
    unfold IMat.edges
    rw [h0']
    rfl
  rw [this] at hc
  exact hab ((conn_nil_iff a b).mp hc)

/-- [S] a loop in `MErr` whose body keeps an invariant of the state and never panics -/
theorem Trav.forIn_list_inv {α β : Type} (P : β → Prop) (f : α → β → MErr (ForInStep β)) :
    ∀ (l : List α), (∀ x ∈ l, ∀ b, P b → ∃ r, f x b = .ok r ∧ P r.value) →
      ∀ b, P b → ∃ r, forIn l b f = .ok r ∧ P r := by
  intro l
  induction l with
  | nil => intro _ b hb; exact ⟨b, rfl, hb⟩
  | cons a l ih =>
    intro hl b hb
    obtain ⟨r, hr, hP⟩ := hl a (by simp) b hb
    rw [List.forIn_cons, hr]
    cases r with
    | done b' => exact ⟨b', rfl, hP⟩
    | yield b' => exact ih (fun x hx => hl x (by simp [hx])) b' hP

/-- [S] **traverse_spec**: under the invariant with at least two live cliques `traverse` does not
panic, changes only the workspace `p` (not its length), and a returned candidate is a stored
entry of the edge matrix -/
theorem traverse_spec : TraverseSpec := by
  intro N nv s t hinv h2
  have hg := hinv.good
  have hwf := hg.wfe
  have hnz := cg_edges_nonempty hinv h2
  have hsz := hwf.nnz_val
  -- the edge of maximal weight
  obtain ⟨ind, hind, hmax⟩ := maxElem_ok hwf hnz
  have hst0 := Trav.entry_of_index hwf hg.lower hind
  obtain ⟨b0, hb0⟩ := ispermissible_inv hinv hst0
  rw [traverse_eq_forIn, hmax]
  simp only [bind, Except.bind, hb0]
  by_cases hb : b0 = true
  · rw [if_pos hb]
    refine ⟨s.p, some (s.edges.rowval.getD ind 0, s.edges.colIdx.getD ind 0), rfl, rfl, ?_⟩
    intro r c hrc
    simp only [Option.some.injEq, Prod.mk.injEq] at hrc
    rw [← hrc.1, ← hrc.2]; exact hst0
  · rw [if_neg hb, if_neg (Nat.not_lt.mpr hinv.psize)]
    have hps := hinv.psize
    generalize hp : sortpermRev s.edges.nzval ++ s.p.extract s.edges.nzval.size s.p.size = p
    have hpsize : p.size = s.p.size := by
      rw [← hp, Array.size_append, sortpermRev_size, Array.size_extract]; omega
    have hpk : ∀ k, k < s.edges.nzval.size → p.getD k 0 < s.edges.rowval.size := by
      intro k hk
      have hk' : k < (sortpermRev s.edges.nzval).size := by rw [sortpermRev_size]; exact hk
      have : p.getD k 0 = (sortpermRev s.edges.nzval)[k] := by
        rw [← hp]
        simp [Array.getD_eq_getD_getElem?, Array.getElem?_append_left hk', hk']
      rw [this, ← hsz]
      exact sortpermRev_lt _ _ (by simp)
    obtain ⟨st, hst, hP⟩ := Trav.forIn_list_inv
      (fun st : Option (CGStrategy × Option (Nat × Nat)) × Unit =>
        ∀ res, st.1 = some res → res.1 = { s with p := p } ∧
          ∃ e, res.2 = some e ∧ (s.edges.entry e.1 e.2).isSome = true)
      (travStep { s with p := p } t p) (List.range' 1 (s.edges.nzval.size - 1)) (by
        intro k hk st _
        have hk1 : k < s.edges.nzval.size := by
          have := (List.mem_range'_1.mp hk).2; omega
        have hidx := hpk k hk1
        obtain ⟨b, hb⟩ := ispermissible_inv hinv (Trav.entry_of_index hwf hg.lower hidx)
        unfold travStep
        simp only [Kr.getE_ok p k _ 0 (by omega), edgeFromIndex_ok hwf hidx, hb, bind, Except.bind,
          pure, Except.pure]
        by_cases hbt : b = true
        · rw [if_pos hbt]
          refine ⟨_, rfl, ?_⟩
          intro res hres
          simp only [ForInStep.value, Option.some.injEq] at hres
          rw [← hres]
          exact ⟨rfl, _, rfl, Trav.entry_of_index hwf hg.lower hidx⟩
        · rw [if_neg hbt]
          refine ⟨_, rfl, ?_⟩
          intro res hres
          simp [ForInStep.value] at hres) (none, ()) (by intro res hres; simp at hres)
    rw [hst]
    rcases st with ⟨_ | res, _⟩
    · exact ⟨p, none, rfl, hpsize, by intro r c hrc; simp at hrc⟩
    · obtain ⟨h1, e, h2, h3⟩ := hP res rfl
      refine ⟨p, some e, ?_, hpsize, ?_⟩
      · show Except.ok res = _
        rw [← h1, ← h2]
      · intro r c hrc
        simp only [Option.some.injEq] at hrc
        rw [hrc] at h3; exact h3

end Clarabel.Chordal
