/-
  C04 over ℝ: the two `_wright_omega` call sites at every loop state a `solve()` REACHES.

  Round 7's interior invariant (`InteriorN`, `interiorN_initHyp`, `interiorN_stepHyp`, `Reach.tinvN`)
  says: at every loop state reached from `default_start()` through passes that go on, the iterate is
  strictly inside the cone.  Here: `InteriorN` gives `ExpSlicesOK` / `ExpCandidatesOK`, hence
    (a) `scale_cones` returns at every reached loop state, whatever `μ` and the strategy;
    (b) `backtrack_step_to_barrier(α)` returns at every reached loop state for the `α` that
        `calc_step_length(Combined)` returned, whatever the direction.
-/
import ClarabelProofs.Lemmas.SolverNSWrightRealComposite
import ClarabelProofs.Lemmas.SolverNSBridgeStep
import ClarabelProofs.Lemmas.SolverNSBridgeInit
import ClarabelProofs.Lemmas.SolverNSFullTraj

namespace Clarabel.SolverNS
open Clarabel Nonsym Residuals BridgeN
open Clarabel.Solver (VarsSized)

theorem toV3_of_v3 {x : Array ℝ} {v : V3 ℝ} (h : v3ofArray? x = some v) : toV3 x = v := by
  obtain ⟨l⟩ := x
  rcases l with _ | ⟨a0, _ | ⟨a1, _ | ⟨a2, _ | ⟨a3, t⟩⟩⟩⟩
  · cases h
  · cases h
  · cases h
  · cases h; rfl
  · cases h

/-- `InteriorN`'s rows give `ExpSlicesOK` on the slices `cutE` makes -/
theorem intRowsN_expSlices : ∀ (cs : List (ConeSt ℝ)) (z s : List ℝ),
    IntRowsN (cs.map ConeSt.typ) z s → ExpSlicesOK cs (cutListN cs s) := by
  intro cs
  induction cs with
  | nil => intro z s _ p hp; cases hp
  | cons c rest ih =>
    intro z s h p hp K hK sv hsv
    simp only [List.map_cons, IntRowsN] at h
    obtain ⟨hb, hr⟩ := h
    rw [cutListN, List.zip_cons_cons, List.mem_cons] at hp
    rcases hp with rfl | hp
    · simp only at hK hsv
      subst hK
      obtain ⟨z0, z1, z2, s0, s1, s2, _, e2, _, h2⟩ := hb
      have e2' : s.take (ConeSt.exp K).numel = [s0, s1, s2] := e2
      rw [e2'] at hsv
      have e3 : v3ofArray? ([s0, s1, s2].toArray : Array ℝ) = some (s0, s1, s2) := rfl
      rw [e3] at hsv
      cases hsv
      exact (C14.exp_isPrimalFeasible_iff _ _ _).mpr h2
    · rw [BridgeN.typ_nvars] at hr
      exact ih _ _ hr p hp K hK sv hsv

/-- [R] call site (a) from the interior invariant: `scale_cones` returns -/
theorem scaleCones_ok_of_interior {n m : Nat} {v : Vars ℝ} {cones : List (ConeSt ℝ)}
    (hc : ConesFull cones) (hm : numelAll cones = m) (hv : VarsSized n m v)
    (hI : InteriorN (cones.map ConeSt.typ) v) (mu : ℝ) (dual : Bool) :
    ∃ r, scaleCones v cones mu dual = .ok r := by
  unfold scaleCones
  refine updateScaling_ok_real cones v.s v.z mu dual hc (by rw [hm]; exact hv.s)
    (by rw [hm]; exact hv.z) (Or.inr fun ss hss => ?_)
  rw [cutE_eq hss]
  exact intRowsN_expSlices cones v.z.toList v.s.toList hI.2.2.2.2

theorem addV3_eq_segPt (s ds : V3 ℝ) (a : ℝ) : StepK.addV3 s ds a = segPt s ds a := by
  unfold StepK.addV3 segPt
  refine Prod.ext ?_ (Prod.ext ?_ ?_) <;> simp only <;> ring

/-- interior blocks after `add_step(a)` give accepted exponential candidates at `a` -/
theorem blks_expCandidates (a : ℝ) : ∀ (cs : List (ConeSt ℝ)) (z s dz ds : List ℝ),
    (∀ b ∈ (mkBlksN cs z s dz ds).map (StepK.Blk.addStep a), b.InteriorG) →
    ∀ p ∈ cs.zip ((cutListN cs z).zip ((cutListN cs s).zip ((cutListN cs dz).zip (cutListN cs ds)))),
      ∀ K, p.1 = ConeSt.exp K → ∀ sv dsv, v3ofArray? p.2.2.1 = some sv →
        v3ofArray? p.2.2.2.2 = some dsv →
        Exp.isPrimalFeasible (segPt sv dsv a).1 (segPt sv dsv a).2.1 (segPt sv dsv a).2.2 = true := by
  intro cs
  induction cs with
  | nil => intro z s dz ds _ p hp; cases hp
  | cons c rest ih =>
    intro z s dz ds h p hp K hK sv dsv hsv hdsv
    simp only [mkBlksN, List.map_cons, List.forall_mem_cons] at h
    obtain ⟨hb, hr⟩ := h
    simp only [cutListN, List.zip_cons_cons, List.mem_cons] at hp
    rcases hp with rfl | hp
    · simp only at hK hsv hdsv
      subst hK
      have hb' : C14.ExpPrimalInterior
          (StepK.addV3 (toV3 (s.take (ConeSt.exp K).numel).toArray)
            (toV3 (ds.take (ConeSt.exp K).numel).toArray) a).1
          (StepK.addV3 (toV3 (s.take (ConeSt.exp K).numel).toArray)
            (toV3 (ds.take (ConeSt.exp K).numel).toArray) a).2.1
          (StepK.addV3 (toV3 (s.take (ConeSt.exp K).numel).toArray)
            (toV3 (ds.take (ConeSt.exp K).numel).toArray) a).2.2 := hb.2
      rw [toV3_of_v3 hsv, toV3_of_v3 hdsv, addV3_eq_segPt] at hb'
      exact (C14.exp_isPrimalFeasible_iff _ _ _).mpr hb'
    · exact ih _ _ _ _ hr p hp K hK sv dsv hsv hdsv

theorem expCandidatesOK_of_blks (cs : List (ConeSt ℝ)) (z s dz ds : Array ℝ) (a : ℝ)
    (h : ∀ b ∈ (mkBlksN cs z.toList s.toList dz.toList ds.toList).map (StepK.Blk.addStep a),
      b.InteriorG) : ExpCandidatesOK cs z s dz ds a := by
  intro zs ss dzs dss e1 e2 e3 e4
  rw [cutE_eq e1, cutE_eq e2, cutE_eq e3, cutE_eq e4]
  exact blks_expCandidates a cs _ _ _ _ h

/-- [R] call site (b) from the interior invariant: for the `a0` that `calc_step_length(Combined)`
returned from an interior iterate, `backtrack_step_to_barrier(a0)` returns -/
theorem backtrack_ok_of_interior {n m : Nat} {ls : LineSearch ℝ} {cs : List (ConeSt ℝ)} {v d : Vars ℝ}
    {mv msf a0 step : ℝ} (hl0 : 0 ≤ ls.step) (hl1 : ls.step ≤ 1) (h0 : 0 < msf) (h1 : msf < 1)
    (hmv : 0 < mv) (hs0 : 0 ≤ step) (hs1 : step ≤ 1)
    (hc : ConesFull cs) (hm : numelAll cs = m) (hv : VarsSized n m v) (hd : VarsSized n m d)
    (hI : InteriorN (cs.map ConeSt.typ) v)
    (ha : calcStepLength ls v d cs mv msf .combined = .ok a0) (fuel k : Nat) :
    ∃ r, backtrackStepToBarrier step v d cs fuel a0 k = .ok r := by
  obtain ⟨hτ, hκ, hzs, hss, hrows⟩ := hI
  rw [rowsN_typ] at hzs hss
  have hdz : d.z.size = v.z.size := hd.z.trans hv.z.symm
  have hds : d.s.size = v.s.size := hd.s.trans hv.s.symm
  have hPI : (ptOfN cs v d).InteriorG :=
    ⟨hτ, hκ, (mkBlksN_interiorG_iff cs _ _ _ _ hzs hss).mpr hrows⟩
  have hPD : (ptOfN cs v d).DirOk := mkBlksN_dirOk cs _ _ _ _ hdz hds
  obtain ⟨k0, _, _, hstep⟩ := StepK.interior_stepG mv (lsK ls) hl0 hl1 hmv (ptOfN cs v d) hPI hPD
    msf a0 h0 h1 (calcStepLength_stepK hzs hss (hdz.trans hzs) (hds.trans hss) ha)
  have c0 : ExpCandidatesOK cs v.z v.s d.z d.s 0 :=
    expCandidatesOK_of_blks cs _ _ _ _ 0 (hstep 0 le_rfl k0).2.2
  have ca : ExpCandidatesOK cs v.z v.s d.z d.s a0 :=
    expCandidatesOK_of_blks cs _ _ _ _ a0 (hstep a0 k0 le_rfl).2.2
  exact okOr_false_exists (backtrackStepToBarrier_ok_real hc hm hv hd hs0 hs1 c0 fuel a0 k k0 ca)

/-- [R] **the two `_wright_omega` call sites are safe at every loop state a `solve()` reaches**: on a
sized solver state with admissible cone parameters, for every loop state `Lm` reached from
`default_start()` through passes that go on to the next one, the iterate is strictly interior and
(a) `scale_cones` on it returns, whatever `μ` and the strategy;
(b) for every direction `d` and every consistently sized cone list `cs` of the same layout (the freshly
    scaled cones), `backtrack_step_to_barrier(a0)` returns for the `a0` that `calc_step_length(Combined)`
    returned. -/
theorem wright_sites_safe_on_reached {st : Settings ℝ} (hf0 : 0 < st.maxStepFraction)
    (hf1 : st.maxStepFraction < 1) (hmv : 0 < st.maxValue) (hb0 : 0 ≤ st.linesearchBacktrackStep)
    (hb1 : st.linesearchBacktrackStep ≤ 1) {S S0 : SolverSt ℝ} {Lm : LoopSt ℝ} (hS : SizedN S)
    (hv : Equil.ValidCones (layoutN S)) (hds : (SolverNS.resetInfo S).defaultStart st = .ok S0)
    (hreach : Reach st (initLoopSt S0) Lm) :
    InteriorN (layoutN S) Lm.S.variables ∧
    (∀ (mu : ℝ) (dual : Bool), ∃ r, scaleCones Lm.S.variables Lm.S.cones mu dual = .ok r) ∧
    (∀ (cs : List (ConeSt ℝ)) (d : Vars ℝ) (a0 : ℝ), cs.map ConeSt.typ = layoutN S → ConesFull cs →
      numelAll cs = Lm.S.data.m → VarsSized Lm.S.data.n Lm.S.data.m d →
      calcStepLength st.ls Lm.S.variables d cs st.maxValue st.maxStepFraction .combined = .ok a0 →
      ∀ fuel k, ∃ r, backtrackStepToBarrier st.linesearchBacktrackStep Lm.S.variables d cs fuel a0 k
        = .ok r) := by
  have hT := hreach.tinvN (interiorN_stepHyp st hf0 hf1 hmv hb0 hb1)
    (TInvN.init (interiorN_initHyp st _ hS.resetInfo (by rw [layoutN_resetInfo]; exact hv)) hS hds)
  have hlay : Lm.S.cones.map ConeSt.typ = layoutN S := hT.lay
  refine ⟨hT.g, fun mu dual => ?_, fun cs d a0 hcs hc hm hd ha fuel k => ?_⟩
  · exact scaleCones_ok_of_interior hT.sized.full hT.sized.numel hT.sized.vars
      (by rw [hlay]; exact hT.g) mu dual
  · exact backtrack_ok_of_interior (ls := st.ls) hb0 hb1 hf0 hf1 hmv hb0 hb1 hc hm hT.sized.vars hd
      (by rw [hcs]; exact hT.g) ha fuel k

end Clarabel.SolverNS
