/-
  `update ∘ assemble`: the theorems about `Kkt.updateValues` (model of
  `DirectLDLKKTSolver::update`) instantiated with the index maps that
  `Kkt.assembleKktMatrix` PRODUCES — their side conditions (no repeated position, disjoint
  index vectors, lengths) are discharged by the assembly theorems (`KktDistinct`, `KktSpec`).

  * `ScalingFits`, `LayoutFits`: the scaling data handed to `update` have the layout of the cone
    list the matrix was assembled for;
  * `assemble_update_soc_schur`, `assemble_update_genpow_schur` [F]: for the maps of the
    assembly, the block that `update` writes for a sparse cone has Schur complement `−mul_Hs`.
-/
import ClarabelModel.Kkt
import ClarabelProofs.Lemmas.KktDistinct
import ClarabelProofs.Lemmas.KktUpdateSchur

set_option linter.unusedSectionVars false
set_option linter.unusedVariables false

namespace Clarabel.Lemmas.KktUpdateAsm
open Clarabel Clarabel.Csc Clarabel.Kkt
open Clarabel.Lemmas.KktSlots Clarabel.Lemmas.KktFillRun Clarabel.Lemmas.KktTotal
open Clarabel.Lemmas.KktFinal Clarabel.Lemmas.KktSpec Clarabel.Lemmas.KktDistinct
open Clarabel.Lemmas.KktUpdateSchur Clarabel.Lemmas.KktExpansion
open Clarabel.Lemmas.KktSorted (Canon IsTriu)

section fits
variable {α : Type} [Add α] [Sub α] [Mul α] [Div α] [Neg α] [OfNat α 0] [OfNat α 1]
  [LT α] [DecidableLT α] [FloatLike α]

/-- the scaling data of one cone have the layout of the cone (`SupportedCone` variant and
dimensions) the KKT matrix was assembled for -/
def ScalingFits : ConeScaling α → ConeSpec → Prop
  | .zero d, .zero d' => d = d'
  | .nonneg w, .nonneg d => w.size = d
  | .socDense w _, .soc d => w.size = d ∧ ¬ d > socNoExpansionMaxSize
  | .socSparse dim _ _ _ _, .soc d => dim = d ∧ d > socNoExpansionMaxSize
  | .dense Hs, .exp => Hs.size = 6
  | .dense Hs, .pow => Hs.size = 6
  | .dense Hs, .psd n => Hs.size = (n * (n + 1) / 2) * (n * (n + 1) / 2 + 1) / 2
  | .genpow _ _ _ r d1 _, .genpow a b => d1.size = a ∧ r.size = b
  | _, _ => False

theorem fits_sparse {c : ConeScaling α} {s : ConeSpec} (h : ScalingFits c s) :
    c.isSparse = s.isSparseExpandable := by
  cases c <;> cases s <;>
    simp_all [ScalingFits, ConeScaling.isSparse, ConeSpec.isSparseExpandable]

theorem socDense_len (k : Nat) (g : Nat → Nat → α) :
    ((List.range k).map (fun c => (List.range (c + 1 + 1)).map (g c))).flatten.length + 1
      = (k + 1) * (k + 1 + 1) / 2 := by
  induction k with
  | zero => simp
  | succ k ih =>
    rw [List.range_succ, List.map_append, List.flatten_append, List.length_append]
    simp only [List.map_cons, List.map_nil, List.flatten_cons, List.flatten_nil, List.append_nil,
      List.length_map, List.length_range]
    have := triNum_succ (k + 1)
    omega

theorem fits_size {c : ConeScaling α} {s : ConeSpec} {b : Array α} (h : ScalingFits c s)
    (hb : getHs c = .ok b) : b.size = s.blockLen := by
  cases c <;> cases s <;> simp only [ScalingFits] at h
  case zero.zero d d' =>
    subst h
    simp only [getHs, pure, Except.pure, Except.ok.injEq] at hb
    subst hb
    simp [ConeSpec.blockLen, ConeSpec.hsIsDiagonal, ConeSpec.numel]
  case nonneg.nonneg w d =>
    subst h
    simp only [getHs, pure, Except.pure, Except.ok.injEq] at hb
    subst hb
    simp [ConeSpec.blockLen, ConeSpec.hsIsDiagonal, ConeSpec.numel]
  case socDense.soc w η d =>
    obtain ⟨rfl, hd⟩ := h
    unfold getHs at hb
    simp only [bind, Except.bind] at hb
    split at hb
    · cases hb
    · rename_i w0 hw0
      simp only [pure, Except.pure, Except.ok.injEq] at hb
      subst hb
      have hpos : 0 < w.size := by
        rw [Clarabel.Lemmas.KktPlace.getE_ok] at hw0
        exact (Array.getElem?_eq_some_iff.mp hw0).1
      have hlen := socDense_len (α := α) (w.size - 1)
        (fun c row => if (row == c + 1) = true then (1 + 1 : α) * w.getD row 0 * w.getD (c + 1) 0 + 1
          else (1 + 1 : α) * w.getD row 0 * w.getD (c + 1) 0)
      simp only [ConeSpec.blockLen, ConeSpec.hsIsDiagonal, ConeSpec.numel, hd, decide_false,
        Bool.false_eq_true, if_false, Array.size_map, List.size_toArray, List.length_cons]
      have e : w.size - 1 + 1 = w.size := by omega
      rw [e] at hlen
      rw [← hlen]
  case socSparse.soc dim η u v d0 d =>
    obtain ⟨rfl, hd⟩ := h
    unfold getHs at hb
    simp only [] at hb
    split at hb
    · cases hb
    · simp only [pure, Except.pure, Except.ok.injEq] at hb
      subst hb
      simp [ConeSpec.blockLen, ConeSpec.hsIsDiagonal, ConeSpec.numel, hd]
  case dense.exp Hs =>
    simp only [getHs, pure, Except.pure, Except.ok.injEq] at hb
    subst hb
    simp [ConeSpec.blockLen, ConeSpec.hsIsDiagonal, ConeSpec.numel, h]
  case dense.pow Hs =>
    simp only [getHs, pure, Except.pure, Except.ok.injEq] at hb
    subst hb
    simp [ConeSpec.blockLen, ConeSpec.hsIsDiagonal, ConeSpec.numel, h]
  case dense.psd Hs n =>
    simp only [getHs, pure, Except.pure, Except.ok.injEq] at hb
    subst hb
    simp [ConeSpec.blockLen, ConeSpec.hsIsDiagonal, ConeSpec.numel, h]
  case genpow.genpow μ p q r d1 d2 a b' =>
    obtain ⟨rfl, rfl⟩ := h
    simp only [getHs, pure, Except.pure, Except.ok.injEq] at hb
    subst hb
    simp [ConeSpec.blockLen, ConeSpec.hsIsDiagonal, ConeSpec.numel]

/-- the scaling list has the layout of the cone list -/
def LayoutFits (scal : List (ConeScaling α)) (cones : List ConeSpec) : Prop :=
  List.Forall₂ ScalingFits scal cones

theorem layout_nSparse {scal : List (ConeScaling α)} {cones : List ConeSpec}
    (h : LayoutFits scal cones) : (scal.filter (fun c => c.isSparse)).length = nSparse cones := by
  induction h with
  | nil => rfl
  | cons hab _ ih =>
    rw [nSparse_cons, List.filter_cons, fits_sparse hab]
    split <;> simp_all

theorem layout_sizes {scal : List (ConeScaling α)} {cones : List ConeSpec}
    (h : LayoutFits scal cones) : ∀ {blocks : List (Array α)}, scal.mapM getHs = .ok blocks →
      (blocks.map Array.size).sum = (cones.map ConeSpec.blockLen).sum := by
  induction h with
  | nil =>
    intro blocks hb
    simp only [List.mapM_nil, pure, Except.pure, Except.ok.injEq] at hb
    subst hb
    rfl
  | cons hab _ ih =>
    intro blocks hb
    rw [List.mapM_cons] at hb
    obtain ⟨b, hb1, hb⟩ := except_bind_eq_ok hb
    obtain ⟨bs, hb2, hb⟩ := except_bind_eq_ok hb
    cases hb
    simp only [List.map_cons, List.sum_cons]
    rw [fits_size hab hb1, ih hb2]

/-- [S] **`update` leaves the `P`, `A` entries of the assembled matrix alone**: for the maps of
`assemble_kkt_matrix`, after `update` (on the assembled value array) every stored entry of `P` and
of `A` is still at its position `map.P[j]` / `map.A[j]`, at its coordinate, with its value — the
positions that `update` writes (`Hs` blocks, expansion vectors) are different positions. -/
theorem assemble_update_PA {P A : Csc α} {cones : List ConeSpec} {shape : MatrixTriangle}
    {K : Csc α} {map : LDLDataMap} (hin : KktInputs P A cones)
    (hasm : assembleKktMatrix P A cones shape = .ok (K, map))
    (scal : List (ConeScaling α)) (nz' : Array α)
    (h : updateValues K.nzval map scal = .ok nz') :
    nz'.size = K.nzval.size ∧
    (∀ i j r v, i < P.n → P.colptr.getD i 0 ≤ j → j < P.colptr.getD (i + 1) 0 →
      P.rowval[j]? = some r → P.nzval[j]? = some v →
      SlotIs { K with nzval := nz' } map.P[j]? (tri shape r i).1 (tri shape r i).2 v) ∧
    (∀ i j r v, i < A.n → A.colptr.getD i 0 ≤ j → j < A.colptr.getD (i + 1) 0 →
      A.rowval[j]? = some r → A.nzval[j]? = some v →
      SlotIs { K with nzval := nz' } map.A[j]? (tri shape i (r + A.n)).1 (tri shape i (r + A.n)).2 v) := by
  obtain ⟨sched, Kc, nd, R⟩ := asmRun_of_ok hin hasm
  obtain ⟨hnd, hdisjH, _, _⟩ := R.maps_distinct hin.m_eq
  have M := R.maps hin.P_canon hin.P_triu hin.P_square hin.A_canon hin.n_eq hin.m_eq
  obtain ⟨blocks, _, hsz, hframe, _⟩ := updateValues_frame_and_Hs K.nzval nz' map scal hnd hdisjH h
  have keep : ∀ {o : Option Nat} {r c : Nat} {v : α},
      SlotAt (colcountToColptr Kc).colptr sched o (tri shape r c).2 (tri shape r c).1 v →
      SlotIs K o (tri shape r c).1 (tri shape r c).2 v → r < A.n → c < A.n + A.m →
      SlotIs { K with nzval := nz' } o (tri shape r c).1 (tri shape r c).2 v := by
    intro o r c v hsa hsi hr hc
    obtain ⟨d, rfl, p, q, h1, h2, h3, h4, h5, h6⟩ := hsi
    obtain ⟨f1, f2⟩ := pa_positions_free R hin.m_eq (show Clarabel.Lemmas.KktFillMaps.SlotU shape _ sched (some d) r c v from hsa) hr hc
    exact ⟨d, rfl, p, q, h1, h2, h3, h4, h5, by
      show nz'[d]? = some v
      rw [hframe d f1 f2]; exact h6⟩
  refine ⟨hsz, ?_, ?_⟩
  · intro i j r v hi h1 h2 hr hv
    have hri : r ≤ i := by
      have hj : j < P.rowval.size := (Array.getElem?_eq_some_iff.mp hr).1
      have := hin.P_triu i hi j (by simpa [Array.getElem!_eq_getD] using h1)
        (by simpa [Array.getElem!_eq_getD] using h2)
      simpa [getElem!_def, hr] using this
    have hiA : i < A.n := by rw [← hin.n_eq]; exact hi
    exact keep (R.fill.P_slots i j r v hi h1 h2 hr hv) (M.P_map i j r v hi h1 h2 hr hv)
      (by omega) (by omega)
  · intro i j r v hi h1 h2 hr hv
    have hrm : r < A.m := by
      have hj : j < A.rowval.size := (Array.getElem?_eq_some_iff.mp hr).1
      have := hin.A_canon.rows_lt j hj
      simpa [getElem!_def, hr] using this
    exact keep (R.fill.A_slots i j r v hi h1 h2 hr hv) (M.A_map i j r v hi h1 h2 hr hv)
      hi (by omega)

/-- [S] **`update` writes `−get_Hs` into the Hs positions of the assembled matrix**, entry for
entry (all cones, sparse or not; for sparse cones `get_Hs` is the diagonal part): the flattened
`get_Hs` values have exactly the length of `map.Hsblocks` and position `map.Hsblocks[k]` holds
`−get_Hs[k]` afterwards.  (Where position `map.Hsblocks[k]` lies is `C11.assembly_maps`.) -/
theorem assemble_update_Hs {P A : Csc α} {cones : List ConeSpec} {shape : MatrixTriangle}
    {K : Csc α} {map : LDLDataMap} (hin : KktInputs P A cones)
    (hasm : assembleKktMatrix P A cones shape = .ok (K, map))
    (nz nz' : Array α) (scal : List (ConeScaling α)) (hfits : LayoutFits scal cones)
    (h : updateValues nz map scal = .ok nz') :
    ∃ blocks, scal.mapM getHs = .ok blocks ∧
      ((blocks.map Array.toList).flatten).length = map.Hsblocks.size ∧
      ∀ k (hk : k < map.Hsblocks.size) (hk2 : k < ((blocks.map Array.toList).flatten).length),
        nz'[map.Hsblocks[k]]? = some (-((blocks.map Array.toList).flatten)[k]) := by
  obtain ⟨sched, Kc, nd, R⟩ := asmRun_of_ok hin hasm
  obtain ⟨hnd, hdisjH, _, _⟩ := R.maps_distinct hin.m_eq
  obtain ⟨blocks, hb, _, _, hw⟩ := updateValues_frame_and_Hs nz nz' map scal hnd hdisjH h
  have hlen : ((blocks.map Array.toList).flatten).length = map.Hsblocks.size := by
    rw [R.sizes.2.2.1, Clarabel.Lemmas.KktLength.hsblocksLen_eq_sum, ← layout_sizes hfits hb,
      List.length_flatten, List.map_map]
    rfl
  exact ⟨blocks, hb, hlen, fun k hk hk2 => hw k hk (by omega) hk2⟩

end fits

-- ------------------------------------------------------------------ update ∘ assemble

section field
variable {α : Type} [Field α] [LinearOrder α] [IsStrictOrderedRing α] [FloatLike α]

/-- [F] **`update` on the maps of `assemble` writes a second-order-cone block whose Schur
complement is `−mul_Hs`.**  `K, map` are what `assemble_kkt_matrix` returned for the cone list
`preS ++ soc(n+1) :: postS` (`n + 1` above the expansion threshold); the scaling list
`pre ++ socSparse … :: post` has the layout of that cone list (`LayoutFits pre preS`); the
expansion data `u, v, d` satisfy the defining equations `SocSparse` of `update_scaling`.
Then the `#sparse(preS)`-th expansion map is `.soc mu mv mD`, and whenever `(x, a, b)` satisfies
the three block rows of the expanded system with the numbers READ BACK from the updated value
array `nz'` through `map.Hsblocks`, `mv`, `mu`, `mD`, the cone rows say `r = −mul_Hs x`. -/
theorem assemble_update_soc_schur {P A : Csc α} {preS postS : List ConeSpec} {shape : MatrixTriangle}
    {K : Csc α} {map : LDLDataMap} {n : ℕ}
    (hin : KktInputs P A (preS ++ ConeSpec.soc (n + 1) :: postS))
    (hasm : assembleKktMatrix P A (preS ++ ConeSpec.soc (n + 1) :: postS) shape = .ok (K, map))
    (hbig : n + 1 > socNoExpansionMaxSize)
    (nz nz' : Array α) (pre post : List (ConeScaling α)) {η d : α} {u v : Array α}
    (hfits : LayoutFits pre preS)
    (h : updateValues nz map (pre ++ .socSparse (n + 1) η u v d :: post) = .ok nz')
    (husz : u.size = n + 1) (hvsz : v.size = n + 1)
    {w0 u0 u1 v1 : α} {w1 : Fin n → α}
    (huk : ∀ k : Fin (n + 1), u[k.val]? = some (socU u0 u1 w1 k))
    (hvk : ∀ k : Fin (n + 1), v[k.val]? = some (socV v1 w1 k))
    (hs : SocSparse w0 w1 d u0 u1 v1) (hη : η ≠ 0) :
    ∃ mu mv mD, map.sparse_maps[nSparse preS]? = some (.soc mu mv mD) ∧
      ∀ (x r : Fin (n + 1) → α) (a b : α),
        (∀ k, readFrom nz' map.Hsblocks (preS.map ConeSpec.blockLen).sum k * x k
          + readAt nz' mv k * a + readAt nz' mu k * b = r k) →
        dot (readAt nz' mv) x + nz'.getD (mD.getD 0 0) 0 * a = 0 →
        dot (readAt nz' mu) x + nz'.getD (mD.getD 1 0) 0 * b = 0 →
        ∀ k, r k = -(socMulHs η (socW w0 w1) x k) := by
  obtain ⟨sched, Kc, nd, R⟩ := asmRun_of_ok hin hasm
  obtain ⟨hnd, hdisjH, hdisj, hndall⟩ := R.maps_distinct hin.m_eq
  have M := R.maps hin.P_canon hin.P_triu hin.P_square hin.A_canon hin.n_eq hin.m_eq
  obtain ⟨mu, mv, mD, hm, hmu, hmv, hmD, _⟩ := M.soc preS (n + 1) postS rfl hbig
  obtain ⟨blocks, _, _, hblocks, _⟩ := updateValues_inv h
  obtain ⟨bpre, hpre⟩ := mapM_prefix_ok getHs pre _ blocks hblocks
  have hoff := layout_sizes hfits hpre
  have hHsz : map.Hsblocks.size = ((preS ++ ConeSpec.soc (n + 1) :: postS).map ConeSpec.blockLen).sum := by
    rw [R.sizes.2.2.1, Clarabel.Lemmas.KktLength.hsblocksLen_eq_sum]
  have hbl : (ConeSpec.soc (n + 1)).blockLen = n + 1 := by
    simp [ConeSpec.blockLen, ConeSpec.hsIsDiagonal, ConeSpec.numel, hbig]
  refine ⟨mu, mv, mD, hm, ?_⟩
  intro x r a b hrow hrowv hrowu
  refine updateValues_soc_schur nz nz' map pre post bpre hnd hdisjH hdisj h hpre ?_
    (by rw [layout_nSparse hfits]; exact hm)
    (hndall _ (by
      obtain ⟨hlt, he⟩ := Array.getElem?_eq_some_iff.mp hm
      rw [← he]
      exact Array.getElem_mem_toList hlt))
    (by omega) (by omega) hmD huk hvk hs hη x r a b (by rw [hoff]; exact hrow) hrowv hrowu
  rw [hoff, hHsz]
  simp only [List.map_append, List.map_cons, List.sum_append, List.sum_cons, hbl]
  omega

/-- [F] **`update` on the maps of `assemble` writes a generalised-power-cone block whose Schur
complement is `−mul_Hs`** (given `√μ·√μ = μ`, i.e. `μ ≥ 0` over the reals).  `K, map` are what
`assemble_kkt_matrix` returned for the cone list `preS ++ genpow(dim1, dim2) :: postS`,
`dim1 = |d1|`, `dim2 = |r|`; the scaling list has the layout of that cone list. -/
theorem assemble_update_genpow_schur {P A : Csc α} {preS postS : List ConeSpec}
    {shape : MatrixTriangle} {K : Csc α} {map : LDLDataMap}
    (nz nz' : Array α) (pre post : List (ConeScaling α)) {μ d2 : α} {p q r d1 : Array α}
    (hin : KktInputs P A (preS ++ ConeSpec.genpow d1.size r.size :: postS))
    (hasm : assembleKktMatrix P A (preS ++ ConeSpec.genpow d1.size r.size :: postS) shape
      = .ok (K, map))
    (hfits : LayoutFits pre preS)
    (h : updateValues nz map (pre ++ .genpow μ p q r d1 d2 :: post) = .ok nz')
    (hpsz : p.size = d1.size + r.size) (hqsz : q.size = d1.size)
    (hsm : sqrt μ * sqrt μ = μ) :
    ∃ mp mq mr mD, map.sparse_maps[nSparse preS]? = some (.genpow mp mq mr mD) ∧
      ∀ (x rhs : Fin (d1.size + r.size) → α) (a b c : α),
        (∀ k, readFrom nz' map.Hsblocks (preS.map ConeSpec.blockLen).sum k * x k
          + readCol nz' mq 0 k * a + readCol nz' mr d1.size k * b + readCol nz' mp 0 k * c
          = rhs k) →
        dot (readCol nz' mq 0) x + nz'.getD (mD.getD 0 0) 0 * a = 0 →
        dot (readCol nz' mr d1.size) x + nz'.getD (mD.getD 1 0) 0 * b = 0 →
        dot (readCol nz' mp 0) x + nz'.getD (mD.getD 2 0) 0 * c = 0 →
        ∀ k, rhs k = -(genpowMulHs μ (genpowD d1 d2) (placeAt p 0) (placeAt q 0)
          (placeAt r d1.size) x k) := by
  obtain ⟨sched, Kc, nd, R⟩ := asmRun_of_ok hin hasm
  obtain ⟨hnd, hdisjH, hdisj, hndall⟩ := R.maps_distinct hin.m_eq
  have M := R.maps hin.P_canon hin.P_triu hin.P_square hin.A_canon hin.n_eq hin.m_eq
  obtain ⟨mp, mq, mr, mD, hm, hmp, hmq, hmr, hmD, _⟩ := M.genpow preS d1.size r.size postS rfl
  obtain ⟨blocks, _, _, hblocks, _⟩ := updateValues_inv h
  obtain ⟨bpre, hpre⟩ := mapM_prefix_ok getHs pre _ blocks hblocks
  have hoff := layout_sizes hfits hpre
  have hHsz : map.Hsblocks.size
      = ((preS ++ ConeSpec.genpow d1.size r.size :: postS).map ConeSpec.blockLen).sum := by
    rw [R.sizes.2.2.1, Clarabel.Lemmas.KktLength.hsblocksLen_eq_sum]
  have hbl : (ConeSpec.genpow d1.size r.size).blockLen = d1.size + r.size := by
    simp [ConeSpec.blockLen, ConeSpec.hsIsDiagonal, ConeSpec.numel]
  refine ⟨mp, mq, mr, mD, hm, ?_⟩
  intro x rhs a b c hrow hrowq hrowr hrowp
  refine updateValues_genpow_schur nz nz' map pre post bpre hnd hdisjH hdisj h hpre ?_
    (by rw [layout_nSparse hfits]; exact hm)
    (hndall _ (by
      obtain ⟨hlt, he⟩ := Array.getElem?_eq_some_iff.mp hm
      rw [← he]
      exact Array.getElem_mem_toList hlt))
    (by omega) (by omega) (by omega) hmD hsm x rhs a b c (by rw [hoff]; exact hrow) hrowq hrowr hrowp
  rw [hoff, hHsz]
  simp only [List.map_append, List.map_cons, List.sum_append, List.sum_cons, hbl]
  omega

end field

end Clarabel.Lemmas.KktUpdateAsm
