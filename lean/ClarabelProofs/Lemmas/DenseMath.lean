/-
  C16, dense matrix model: `matrix_math.rs` (scalings, sums, symmetric part, is_triu) and
  the Kronecker product of identities.
  [S] = every scalar type, [F] = exact arithmetic.
-/
import ClarabelProofs.Lemmas.DenseKron
import ClarabelProofs.Lemmas.VecKernels

namespace Clarabel.Dense
open Clarabel

variable {α : Type}

/-! ### kron of identities -/

/-- [F] `I_a ⊗ I_b = I_{ab}` -/
theorem kron_identity [MulZeroOneClass α] (a b : Nat) (Ia Ib K : Dense α)
    (hIa : identity a = .ok Ia) (hIb : identity b = .ok Ib) (hK : WF K)
    (hm : K.m = a * b) (hn : K.n = a * b) :
    ∃ R, kron K .N Ia .N Ib = .ok R ∧ R.m = a * b ∧ R.n = a * b ∧ WF R ∧
      ∀ i j, i < a * b → j < a * b → at? R i j = some (if i = j then 1 else 0) := by
  obtain ⟨Ra, ha1, ha2, ha3, ha4, ha5⟩ := identity_spec (α := α) a
  obtain ⟨Rb, hb1, hb2, hb3, hb4, hb5⟩ := identity_spec (α := α) b
  have ea : Ia = Ra := by rw [hIa] at ha1; cases ha1; rfl
  have eb : Ib = Rb := by rw [hIb] at hb1; cases hb1; rfl
  subst ea eb
  obtain ⟨R, h1, h2, h3, h4, h5⟩ := kron_spec K Ia Ib .N .N hK ha4 hb4 (by simp) (by simp)
    (by simp [nrowsV, hm, ha2, hb2]) (by simp [ncolsV, hn, ha3, hb3])
  refine ⟨R, h1, by rw [h2, hm], by rw [h3, hn], h4, ?_⟩
  intro i j hi hj
  have hb0 : 0 < b := by
    rcases Nat.eq_zero_or_pos b with h | h
    · rw [h] at hi; simp at hi
    · exact h
  have hp : i / b < a := Nat.div_lt_of_lt_mul (by rwa [Nat.mul_comm] at hi)
  have hq : j / b < a := Nat.div_lt_of_lt_mul (by rwa [Nat.mul_comm] at hj)
  have hr : i % b < b := Nat.mod_lt _ hb0
  have hs : j % b < b := Nat.mod_lt _ hb0
  obtain ⟨x, y, hx, hy, hxy⟩ := h5 (i / b) (j / b) (i % b) (j % b)
    (by simpa [nrowsV, ha2] using hp) (by simpa [ncolsV, ha3] using hq)
    (by simpa [nrowsV, hb2] using hr) (by simpa [ncolsV, hb3] using hs)
  simp only [nrowsV, ncolsV, hb2, hb3, Nat.div_add_mod'] at hxy
  rw [hxy]
  have hx' := ha5 (i / b) (j / b) (by omega) (by omega)
  have hy' := hb5 (i % b) (j % b) (by omega) (by omega)
  rw [atV?_N] at hx hy
  rw [hx] at hx'; rw [hy] at hy'
  cases hx'; cases hy'
  congr 1
  by_cases hij : i = j
  · subst hij; simp
  · have : ¬ (i / b = j / b ∧ i % b = j % b) := by
      rintro ⟨h1, h2⟩
      apply hij
      rw [← Nat.div_add_mod' i b, ← Nat.div_add_mod' j b, h1, h2]
    simp only [hij, ↓reduceIte]
    by_cases h1 : i / b = j / b
    · have h2 : ¬ i % b = j % b := fun h2 => this ⟨h1, h2⟩
      simp [h1, h2]
    · simp [h1]

/-! ### scalings -/

/-- [S] `scale(c)`: every stored value is multiplied by `c` -/
theorem scale_spec [Add α] [Mul α] [OfNat α 0] (A : Dense α) (c : α) :
    (scale A c).m = A.m ∧ (scale A c).n = A.n ∧ (scale A c).data.size = A.data.size ∧
      ∀ i j, at? (scale A c) i j = (at? A i j).map (· * c) := by
  refine ⟨rfl, rfl, by simp [scale, Vec.scale], fun i j => ?_⟩
  simp [at?, scale, Vec.scale]

/-- [S] `negate` -/
theorem negate_spec [Neg α] (A : Dense α) :
    (negate A).m = A.m ∧ (negate A).n = A.n ∧ (negate A).data.size = A.data.size ∧
      ∀ i j, at? (negate A) i j = (at? A i j).map (fun v => -v) := by
  refine ⟨rfl, rfl, by simp [negate, Vec.negate], fun i j => ?_⟩
  simp [at?, negate, Vec.negate]

theorem zipIdx_map_getElem? {β : Type} (l : List α) (f : α × Nat → β) (k : Nat) :
    ((l.zipIdx).map f)[k]? = (l[k]?).map (fun v => f (v, k)) := by
  simp [List.getElem?_zipIdx]
  cases l[k]? <;> simp

/-- [S] `lscale(l)` with `l.len() == nrows`: entry `(i, j)` is multiplied by `l[i]` -/
theorem lscale_spec [Add α] [Mul α] [OfNat α 0] (A : Dense α) (l : Array α) (hA : WF A)
    (hl : l.size = A.m) :
    ∃ R, lscale A l = .ok R ∧ R.m = A.m ∧ R.n = A.n ∧ WF R ∧
      ∀ i j (hi : i < A.m), j < A.n → at? R i j = (at? A i j).map (· * l[i]) := by
  refine ⟨{ A with data := ((A.data.toList.zipIdx).map (fun e =>
    if e.2 < A.m * A.n then
      match l[e.2 % A.m]? with
      | some li => e.1 * li
      | none => e.1
    else e.1)).toArray }, ?_, rfl, rfl, ?_, ?_⟩
  · unfold lscale
    have : ¬ (A.n > 0 ∧ A.n * A.m > A.data.size) := by
      rintro ⟨_, h⟩; rw [hA, Nat.mul_comm] at h; omega
    simp only [this, ↓reduceIte]
    rfl
  · simp only [WF, List.size_toArray, List.length_map, List.length_zipIdx, Array.length_toList]; exact hA
  · intro i j hi hj
    have hk := lin_lt hi hj
    simp only [at?, List.getElem?_toArray, zipIdx_map_getElem?, Array.getElem?_toList]
    have hlt : i + A.m * j < A.data.size := by rw [hA]; exact hk
    simp only [Array.getElem?_eq_getElem hlt, Option.map_some, hk, ↓reduceIte, lin_mod hi]
    have : l[i]? = some l[i] := Array.getElem?_eq_getElem (by omega)
    simp [this]

/-- [S] `rscale(r)` with `r.len() == ncols`: entry `(i, j)` is multiplied by `r[j]` -/
theorem rscale_spec [Add α] [Mul α] [OfNat α 0] (A : Dense α) (r : Array α) (hA : WF A)
    (hr : r.size = A.n) :
    ∃ R, rscale A r = .ok R ∧ R.m = A.m ∧ R.n = A.n ∧ WF R ∧
      ∀ i j (_ : i < A.m) (hj : j < A.n), at? R i j = (at? A i j).map (· * r[j]) := by
  refine ⟨{ A with data := ((A.data.toList.zipIdx).map (fun e =>
    if A.m > 0 then
      match r[e.2 / A.m]? with
      | some rj => e.1 * rj
      | none => e.1
    else e.1)).toArray }, ?_, rfl, rfl, ?_, ?_⟩
  · unfold rscale
    have h1 : ¬ r.size > A.n := by omega
    have h2 : ¬ r.size * A.m > A.data.size := by rw [hA, hr, Nat.mul_comm]; omega
    simp only [h1, h2, ↓reduceIte]
    rfl
  · simp only [WF, List.size_toArray, List.length_map, List.length_zipIdx, Array.length_toList]; exact hA
  · intro i j hi hj
    have hk := lin_lt hi hj
    simp only [at?, List.getElem?_toArray, zipIdx_map_getElem?, Array.getElem?_toList]
    have hlt : i + A.m * j < A.data.size := by rw [hA]; exact hk
    have hm0 : A.m > 0 := by omega
    simp only [Array.getElem?_eq_getElem hlt, Option.map_some, hm0, ↓reduceIte, lin_div hi]
    have : r[j]? = some r[j] := Array.getElem?_eq_getElem (by omega)
    simp [this]

/-- [S] `lrscale(l, r)`: entry `(i, j)` becomes `a·(l[i]·r[j])` -/
theorem lrscale_spec [Add α] [Mul α] [OfNat α 0] (A : Dense α) (l r : Array α) (hA : WF A)
    (hl : l.size = A.m) (hr : r.size = A.n) :
    ∃ R, lrscale A l r = .ok R ∧ R.m = A.m ∧ R.n = A.n ∧ WF R ∧
      ∀ i j (hi : i < A.m) (hj : j < A.n),
        at? R i j = (at? A i j).map (fun a => a * (l[i] * r[j])) := by
  obtain ⟨vals, hv1, hv2, hv3⟩ := tabulate_exists A.m A.n (fun i j => do
      let li ← getE l i "l[i]"
      let rj ← getE r j "r[j]"
      let a ← get .N A i j
      pure (a * (li * rj))) (fun i j hi hj => by
    obtain ⟨a, ha, _⟩ := get_ok .N A hA (by simp) (i := i) (j := j) hi hj
    refine ⟨a * (l[i] * r[j]), ?_⟩
    rw [getE_ok _ _ _ (by omega : i < l.size)]
    show (do let rj ← getE r j "r[j]"; let a ← get .N A i j; pure (a * (l[i] * rj))) = _
    rw [getE_ok _ _ _ (by omega : j < r.size)]
    show (do let a ← get .N A i j; pure (a * (l[i] * r[j]))) = _
    rw [ha]; rfl)
  refine ⟨{ A with data := (vals.toList ++ A.data.toList.drop vals.size).toArray }, ?_, rfl, rfl, ?_, ?_⟩
  · unfold lrscale; rw [hv1]; rfl
  · simp only [WF, List.size_toArray, List.length_append, Array.length_toList, List.length_drop]
    rw [hv2, ← hA]; omega
  · intro i j hi hj
    obtain ⟨x, hx, hxat⟩ := hv3 i j hi hj
    obtain ⟨a, ha, haat⟩ := get_ok .N A hA (by simp) (i := i) (j := j) hi hj
    rw [getE_ok _ _ _ (by omega : i < l.size)] at hx
    change (do let rj ← getE r j "r[j]"; let a ← get .N A i j; pure (a * (l[i] * rj))) = _ at hx
    rw [getE_ok _ _ _ (by omega : j < r.size)] at hx
    change (do let a ← get .N A i j; pure (a * (l[i] * r[j]))) = _ at hx
    rw [ha] at hx
    have hxe : x = a * (l[i] * r[j]) := by cases hx; rfl
    rw [atV?_N] at haat
    rw [haat]
    simp only [at?, List.getElem?_toArray, Option.map_some]
    have hlt : i + A.m * j < vals.size := by rw [hv2]; exact lin_lt hi hj
    rw [List.getElem?_append_left (by simpa using hlt), ← hxe, ← hxat]
    simp

end Clarabel.Dense
