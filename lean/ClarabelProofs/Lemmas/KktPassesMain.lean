/-
  Every pass of the interior-point loop: the dense symmetric meaning of the matrix handed to the LDL
  engine after ANY history of earlier `update` calls is `listKkt` with the CURRENT Hs blocks and
  expansion data and the regularised diagonal — `KktSymOfMain.assembled_symOf_eq_listKkt` /
  `assembled_quasiDefGE` with the start array `K.nzval` replaced by whatever the earlier passes left
  (`KktPasses.updateValues_start_irrelevant`).
-/
import ClarabelProofs.Lemmas.KktPasses
import ClarabelProofs.Lemmas.KktSymOfMain
import ClarabelProofs.Lemmas.KktSymOfExample

set_option linter.unusedSectionVars false
set_option linter.unusedVariables false

namespace Clarabel.Lemmas.KktPasses
open Clarabel Clarabel.Csc Clarabel.Kkt Clarabel.Qdldl
open Clarabel.Lemmas.KktSpec Clarabel.Lemmas.KktSymOfIdx Clarabel.Lemmas.KktSymOfEntries
open Clarabel.Lemmas.KktSymOfValues Clarabel.Lemmas.KktSymOfMain
open Clarabel.Lemmas.KktInertia Clarabel.Lemmas.KktInertiaList Clarabel.Lemmas.KktInertiaCones
open Clarabel.Lemmas.KktUpdateAsm

section main
variable {α : Type} [Field α] [LinearOrder α] [IsStrictOrderedRing α] [FloatLike α]
variable {P A : Csc α} {cones : List ConeSpec} {K : Csc α} {map : LDLDataMap}

theorem vecLens_of_vecFits {scal : List (ConeScaling α)}
    (hvec : ∀ i (hi : i < scal.length), VecFits scal[i]) : ∀ c ∈ scal, VecLens c := by
  intro c hc
  obtain ⟨i, hi, rfl⟩ := List.mem_iff_getElem.mp hc
  have := hvec i hi
  cases hsc : scal[i] <;> rw [hsc] at this <;> exact this

/-- [S] the `update` of a pass after any history is the `update` right after the assembly -/
theorem update_after_history (hin : KktInputs P A cones)
    (hasm : assembleKktMatrix P A cones .triu = .ok (K, map)) (ds0 : Array Int) (en0 : Bool)
    (c0 p0 : α) (hist : List (List (ConeScaling α))) (outs : List (PassOut α))
    (hrun : runPasses map ds0 en0 c0 p0 K.nzval hist = .ok outs)
    (scal : List (ConeScaling α)) (hfits : LayoutFits scal cones)
    (hvec : ∀ i (hi : i < scal.length), VecFits scal[i]) :
    updateValues (finalNz K.nzval outs) map scal = updateValues K.nzval map scal :=
  updateValues_start_irrelevant hin hasm scal hfits (vecLens_of_vecFits hvec) _
    (runPasses_startOK hin hasm ds0 en0 c0 p0 hist K.nzval outs (startOK_self K map) hrun)

/-- [F] **at every pass the dense symmetric meaning of the matrix handed to the LDL engine is
`listKkt` with the current scaling**: `KktSymOfMain.assembled_symOf_eq_listKkt` after any history of
earlier passes `hist` (whatever their scaling data, settings and outcome of the regularisation). -/
theorem pass_symOf_eq_listKkt (hin : KktInputs P A cones)
    (hasm : assembleKktMatrix P A cones .triu = .ok (K, map)) (ds0 : Array Int) (en0 : Bool)
    (c0 p0 : α) (hist : List (List (ConeScaling α))) (outs : List (PassOut α))
    (hrun : runPasses map ds0 en0 c0 p0 K.nzval hist = .ok outs)
    (scal : List (ConeScaling α)) (hfits : LayoutFits scal cones)
    (hvec : ∀ i (hi : i < scal.length), VecFits scal[i]) (nz' : Array α)
    (hup : updateValues (finalNz K.nzval outs) map scal = .ok nz') (blocks : List (Array α))
    (hget : scal.mapM getHs = .ok blocks)
    (ds : Array Int) (hds : fillSigns A.m A.n map.sparse_maps = .ok ds) (cst prp : α)
    (rr : Regularized α) (nzF : Array α)
    (hreg : regularizeAndRestore nz' map.diag_full ds true cst prp = .ok (rr, nzF))
    (a b : KktIdx A.n cones) :
    symOf ({ K with nzval := nzF } : Csc α) (flatPos A.n cones a) (flatPos A.n cones b)
      = listKkt (PdOf P A.n) (epOf cones scal)
          (couplingOf A.n cones (symOf ({ K with nzval := nzF } : Csc α)))
          (HOf cones blocks) (VOf cones scal) (eOf cones scal) rr.eps a b := by
  rw [update_after_history hin hasm ds0 en0 c0 p0 hist outs hrun scal hfits hvec] at hup
  exact assembled_symOf_eq_listKkt hin hasm scal hfits hvec nz' hup blocks hget ds hds cst prp rr
    nzF hreg a b

/-- [F] … hence it is quasidefinite with margin `ε = r.eps` for the pattern of `_fill_signs` at
every pass (`KktSymOfMain.assembled_quasiDefGE` after any history). -/
theorem pass_quasiDefGE (hin : KktInputs P A cones)
    (hasm : assembleKktMatrix P A cones .triu = .ok (K, map)) (ds0 : Array Int) (en0 : Bool)
    (c0 p0 : α) (hist : List (List (ConeScaling α))) (outs : List (PassOut α))
    (hrun : runPasses map ds0 en0 c0 p0 K.nzval hist = .ok outs)
    (scal : List (ConeScaling α)) (hfits : LayoutFits scal cones)
    (hvec : ∀ i (hi : i < scal.length), VecFits scal[i]) (nz' : Array α)
    (hup : updateValues (finalNz K.nzval outs) map scal = .ok nz') (blocks : List (Array α))
    (hget : scal.mapM getHs = .ok blocks)
    (ds : Array Int) (hds : fillSigns A.m A.n map.sparse_maps = .ok ds) (cst prp : α)
    (rr : Regularized α) (nzF : Array α)
    (hreg : regularizeAndRestore nz' map.diag_full ds true cst prp = .ok (rr, nzF))
    (hP : PosSemidef (PdOf P A.n))
    (hform : ∀ i y s, 0 ≤ expForm (HOf cones blocks i) (VOf cones scal i) (eOf cones scal i) y s) :
    QuasiDefGE (fun i j : Fin K.n => symOf ({ K with nzval := nzF } : Csc α) i.val j.val)
      (fun i => (kktEquiv A.n cones K.n (asm_order hin hasm) i).isLeft) Finset.univ rr.eps := by
  rw [update_after_history hin hasm ds0 en0 c0 p0 hist outs hrun scal hfits hvec] at hup
  exact assembled_quasiDefGE hin hasm scal hfits hvec nz' hup blocks hget ds hds cst prp rr nzF hreg
    hP hform

end main

-- ====================================================================================
-- non-vacuity: a second pass on the example of `KktSymOfExample`
-- ====================================================================================

open Clarabel.Lemmas.KktSymOfExample in
/-- the example of `KktSymOfExample.exAssembled`, with one earlier pass (same scaling data,
regulariser `1`): the history runs, and the second `update` returns -/
theorem exPasses :
    ∃ (K : Csc ℝ) (map : LDLDataMap) (scal : List (ConeScaling ℝ)) (nz' : Array ℝ)
      (blocks : List (Array ℝ)) (ds : Array Int) (rr : Regularized ℝ) (nzF : Array ℝ)
      (outs : List (PassOut ℝ)),
      assembleKktMatrix exP exA exCones .triu = .ok (K, map) ∧
      LayoutFits scal exCones ∧ (∀ i (hi : i < scal.length), VecFits scal[i]) ∧
      runPasses map ds true 1 0 K.nzval [scal] = .ok outs ∧ outs.length = 1 ∧
      updateValues (finalNz K.nzval outs) map scal = .ok nz' ∧ scal.mapM getHs = .ok blocks ∧
      fillSigns exA.m exA.n map.sparse_maps = .ok ds ∧
      regularizeAndRestore nz' map.diag_full ds true 1 0 = .ok (rr, nzF) ∧
      0 < rr.eps ∧ 0 < K.n ∧
      (∀ i y s, 0 ≤ expForm (HOf exCones blocks i) (VOf exCones scal i) (eOf exCones scal i) y s) := by
  obtain ⟨K, map, scal, nz', blocks, ds, rr, nzF, h1, h2, h3, h4, h5, h6, h7, h8, h9, h10⟩ :=
    exAssembled
  have hpass : updatePass K.nzval map ds true 1 0 scal
      = .ok { nzval := rr.nzval, nzFactor := nzF, eps := rr.eps } := by
    unfold updatePass
    rw [h4]
    show (regularizeAndRestore nz' map.diag_full ds true 1 0 >>= fun x => _) = _
    rw [h7]
    rfl
  have hrun : runPasses map ds true 1 0 K.nzval [scal]
      = .ok [{ nzval := rr.nzval, nzFactor := nzF, eps := rr.eps }] := by
    unfold runPasses
    rw [hpass]
    rfl
  refine ⟨K, map, scal, nz', blocks, ds, rr, nzF, _, h1, h2, h3, hrun, rfl, ?_, h5, h6, h7, h8, h9,
    h10⟩
  rw [update_after_history exInputs h1 ds true 1 0 [scal] _ hrun scal h2 h3]
  exact h4

end Clarabel.Lemmas.KktPasses
