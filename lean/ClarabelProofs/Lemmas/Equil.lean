/-
  Helper lemmas about the equilibration model (`ClarabelModel/Equil.lean`):
  pointwise behaviour of the scaling kernels and the loop invariant
  "current data = c·D·P·D, E·A·D, c·D·q, E·b for the accumulated d, e, c".
-/
import ClarabelModel.Equil
import ClarabelProofs.Lemmas.ScalarInst
import Mathlib.Algebra.Order.Field.Basic
import Mathlib.Tactic.Ring
import Mathlib.Tactic.Linarith
import Mathlib.Tactic.FieldSimp

namespace Clarabel.Equil
variable {α : Type}

/-! ### pointwise behaviour of the kernels -/

theorem getD_hadamardInPlace [Mul α] [OfNat α 1] (x y : Array α) (i : Nat) (z : α) (h : i < x.size) :
    (hadamardInPlace x y).getD i z = x.getD i z * y.getD i 1 := by
  simp [hadamardInPlace, Array.getD, h]

theorem size_hadamardInPlace [Mul α] [OfNat α 1] (x y : Array α) :
    (hadamardInPlace x y).size = x.size := by
  simp [hadamardInPlace]

theorem getD_mapEntries (M : Csc α) (f : Nat → Nat → α → α) (t : Nat) (z : α) (h : t < M.nzval.size) :
    (M.mapEntries f).nzval.getD t z = f (M.rowval.getD t 0) (M.colIdx.getD t 0) (M.nzval.getD t z) := by
  simp [Csc.mapEntries, Array.getD, h]

theorem getD_scaleMat [Mul α] (M : Csc α) (c : α) (t : Nat) (z : α) (h : t < M.nzval.size) :
    (scaleMat M c).nzval.getD t z = M.nzval.getD t z * c := by
  simp [scaleMat, Array.getD, h]

theorem getD_map_mul [Mul α] (x : Array α) (c : α) (i : Nat) (z : α) (h : i < x.size) :
    (x.map (· * c)).getD i z = x.getD i z * c := by
  simp [Array.getD, h]

/-- two matrices with the same sparsity pattern -/
structure SameShape (M N : Csc α) : Prop where
  m : N.m = M.m
  n : N.n = M.n
  colptr : N.colptr = M.colptr
  rowval : N.rowval = M.rowval
  size : N.nzval.size = M.nzval.size

theorem SameShape.refl (M : Csc α) : SameShape M M := ⟨rfl, rfl, rfl, rfl, rfl⟩

theorem SameShape.colIdx {M N : Csc α} (h : SameShape M N) : N.colIdx = M.colIdx := by
  unfold Csc.colIdx; rw [h.n, h.colptr]

theorem SameShape.mapEntries {M N : Csc α} (h : SameShape M N) (f : Nat → Nat → α → α) :
    SameShape M (N.mapEntries f) :=
  ⟨h.m, h.n, h.colptr, h.rowval, by simp [Csc.mapEntries, h.size]⟩

theorem SameShape.scaleMat [Mul α] {M N : Csc α} (h : SameShape M N) (c : α) :
    SameShape M (scaleMat N c) :=
  ⟨h.m, h.n, h.colptr, h.rowval, by simp [Equil.scaleMat, h.size]⟩

/-! ### the invariant -/

/-- index facts of the original data that `shapesOk` provides -/
structure Shapes (o : ProblemData α) : Prop where
  Prow : ∀ t, t < o.P.nzval.size → o.P.rowval.getD t 0 < o.n
  Pcol : ∀ t, t < o.P.nzval.size → o.P.colIdx.getD t 0 < o.n
  Arow : ∀ t, t < o.A.nzval.size → o.A.rowval.getD t 0 < o.m
  Acol : ∀ t, t < o.A.nzval.size → o.A.colIdx.getD t 0 < o.n
  qsize : o.q.size = o.n
  bsize : o.b.size = o.m

section inv
variable [Field α]

/-- "the current data are the original data scaled by the accumulated `d`, `e`, `c`" -/
structure Inv (o c : ProblemData α) : Prop where
  shP : SameShape o.P c.P
  shA : SameShape o.A c.A
  szq : c.q.size = o.q.size
  szb : c.b.size = o.b.size
  szd : c.equilibration.d.size = o.n
  sze : c.equilibration.e.size = o.m
  valP : ∀ t, t < o.P.nzval.size →
    c.P.nzval.getD t 0 = c.equilibration.c * c.equilibration.d.getD (o.P.rowval.getD t 0) 1 *
      o.P.nzval.getD t 0 * c.equilibration.d.getD (o.P.colIdx.getD t 0) 1
  valA : ∀ t, t < o.A.nzval.size →
    c.A.nzval.getD t 0 = c.equilibration.e.getD (o.A.rowval.getD t 0) 1 *
      o.A.nzval.getD t 0 * c.equilibration.d.getD (o.A.colIdx.getD t 0) 1
  valq : ∀ j, j < o.q.size → c.q.getD j 0 = c.equilibration.c * c.equilibration.d.getD j 1 * o.q.getD j 0
  valb : ∀ i, i < o.b.size → c.b.getD i 0 = c.equilibration.e.getD i 1 * o.b.getD i 0

theorem Inv.init (o : ProblemData α) (h : o.equilibration = EquilData.new o.n o.m) : Inv o o := by
  refine ⟨SameShape.refl _, SameShape.refl _, rfl, rfl, by simp [h, EquilData.new], by simp [h, EquilData.new],
    ?_, ?_, ?_, ?_⟩ <;> intro t ht <;> simp [h, EquilData.new, Array.getD]

theorem Inv.applyScaling_some {o c : ProblemData α} (hs : Shapes o) (h : Inv o c) (dw ew : Array α) :
    Inv o (applyScaling c (some dw) ew) := by
  have hPc := h.shP.colIdx
  have hAc := h.shA.colIdx
  refine ⟨?_, ?_, ?_, ?_, ?_, ?_, ?_, ?_, ?_, ?_⟩
  · exact (h.shP.mapEntries _ : SameShape o.P (lrscale c.P dw dw))
  · exact (h.shA.mapEntries _ : SameShape o.A (lrscale c.A ew dw))
  · simp [applyScaling, scaleData, size_hadamardInPlace, h.szq]
  · simp [applyScaling, scaleData, size_hadamardInPlace, h.szb]
  · simp [applyScaling, size_hadamardInPlace, h.szd]
  · simp [applyScaling, size_hadamardInPlace, h.sze]
  · intro t ht
    have hr := hs.Prow t ht
    have hc := hs.Pcol t ht
    simp only [applyScaling, scaleData, lrscale]
    rw [getD_mapEntries _ _ _ _ (by rw [h.shP.size]; exact ht), h.shP.rowval, hPc,
      getD_hadamardInPlace _ _ _ _ (by rw [h.szd]; exact hr),
      getD_hadamardInPlace _ _ _ _ (by rw [h.szd]; exact hc), h.valP t ht]
    ring
  · intro t ht
    have hr := hs.Arow t ht
    have hc := hs.Acol t ht
    simp only [applyScaling, scaleData, lrscale]
    rw [getD_mapEntries _ _ _ _ (by rw [h.shA.size]; exact ht), h.shA.rowval, hAc,
      getD_hadamardInPlace _ _ _ _ (by rw [h.sze]; exact hr),
      getD_hadamardInPlace _ _ _ _ (by rw [h.szd]; exact hc), h.valA t ht]
    ring
  · intro j hj
    simp only [applyScaling, scaleData]
    rw [getD_hadamardInPlace _ _ _ _ (by rw [h.szq]; exact hj),
      getD_hadamardInPlace _ _ _ _ (by rw [h.szd, ← hs.qsize]; exact hj), h.valq j hj]
    ring
  · intro i hi
    simp only [applyScaling, scaleData]
    rw [getD_hadamardInPlace _ _ _ _ (by rw [h.szb]; exact hi),
      getD_hadamardInPlace _ _ _ _ (by rw [h.sze, ← hs.bsize]; exact hi), h.valb i hi]
    ring

theorem Inv.applyScaling_none {o c : ProblemData α} (hs : Shapes o) (h : Inv o c) (ew : Array α) :
    Inv o (applyScaling c none ew) := by
  have hAc := h.shA.colIdx
  refine ⟨h.shP, ?_, h.szq, ?_, h.szd, ?_, ?_, ?_, ?_, ?_⟩
  · exact (h.shA.mapEntries _ : SameShape o.A (lscale c.A ew))
  · simp [applyScaling, scaleData, size_hadamardInPlace, h.szb]
  · simp [applyScaling, size_hadamardInPlace, h.sze]
  · intro t ht
    simpa [applyScaling, scaleData] using h.valP t ht
  · intro t ht
    have hr := hs.Arow t ht
    simp only [applyScaling, scaleData, lscale]
    rw [getD_mapEntries _ _ _ _ (by rw [h.shA.size]; exact ht), h.shA.rowval,
      getD_hadamardInPlace _ _ _ _ (by rw [h.sze]; exact hr), h.valA t ht]
    ring
  · intro j hj
    simpa [applyScaling, scaleData] using h.valq j hj
  · intro i hi
    simp only [applyScaling, scaleData]
    rw [getD_hadamardInPlace _ _ _ _ (by rw [h.szb]; exact hi),
      getD_hadamardInPlace _ _ _ _ (by rw [h.sze, ← hs.bsize]; exact hi), h.valb i hi]
    ring

theorem Inv.applyCost {o c : ProblemData α} (h : Inv o c) (w : Array α) (ct : Option α) :
    Inv o (applyCost c w ct) := by
  cases ct with
  | none => exact ⟨h.shP, h.shA, h.szq, h.szb, h.szd, h.sze, h.valP, h.valA, h.valq, h.valb⟩
  | some ct =>
    refine ⟨h.shP.scaleMat ct, h.shA, by simp [Equil.applyCost, h.szq], h.szb, h.szd, h.sze, ?_, h.valA, ?_, h.valb⟩
    · intro t ht
      simp only [Equil.applyCost]
      rw [getD_scaleMat _ _ _ _ (by rw [h.shP.size]; exact ht), h.valP t ht]
      ring
    · intro j hj
      simp only [Equil.applyCost]
      rw [getD_map_mul _ _ _ _ (by rw [h.szq]; exact hj), h.valq j hj]
      ring

theorem Inv.setInverses {o c : ProblemData α} (h : Inv o c) : Inv o (setInverses c) :=
  ⟨h.shP, h.shA, h.szq, h.szb, h.szd, h.sze, h.valP, h.valA, h.valq, h.valb⟩

end inv

section loop
variable [Field α] [LinearOrder α] [FloatLike α]

theorem Inv.ruizStep {o c : ProblemData α} (hs : Shapes o) (h : Inv o c) (s : Settings α) :
    Inv o (ruizStep s c) := by
  unfold Equil.ruizStep
  exact (h.applyScaling_some hs _ _).applyCost _ _

theorem Inv.ruizLoop {o c : ProblemData α} (hs : Shapes o) (h : Inv o c) (s : Settings α) (k : Nat) :
    Inv o (ruizLoop s k c) := by
  induction k generalizing c with
  | zero => exact h
  | succ k ih => exact ih (h.ruizStep hs s)

theorem Inv.rectifyStep {o c : ProblemData α} (hs : Shapes o) (h : Inv o c) (cones : List (ConeT α)) :
    Inv o (rectifyStep c cones) := by
  unfold Equil.rectifyStep
  simp only []
  split
  · exact h.applyScaling_none hs _
  · exact ⟨h.shP, h.shA, h.szq, h.szb, h.szd, h.sze, h.valP, h.valA, h.valq, h.valb⟩

theorem Inv.finish {o c : ProblemData α} (hs : Shapes o) (h : Inv o c) (cones : List (ConeT α)) :
    Inv o (finish c cones) :=
  (h.rectifyStep hs cones).setInverses

end loop

end Clarabel.Equil

namespace Clarabel.Equil
variable {α : Type}

/-! ### from the executable guard to index facts -/

theorem wellFormed_index (M : Csc α) (h : M.wellFormed = true) (t : Nat) (ht : t < M.nzval.size) :
    M.rowval.getD t 0 < M.m ∧ M.colIdx.getD t 0 < M.n := by
  simp only [Csc.wellFormed, Bool.and_eq_true, beq_iff_eq, List.all_eq_true, decide_eq_true_eq] at h
  obtain ⟨⟨⟨⟨_, hrs⟩, hcs⟩, hr⟩, hc⟩ := h
  constructor
  · have h1 : t < M.rowval.size := by omega
    have : M.rowval.getD t 0 = M.rowval[t] := by simp [Array.getD, h1]
    rw [this]
    exact hr _ (by simp)
  · have h1 : t < M.colIdx.size := by omega
    have : M.colIdx.getD t 0 = M.colIdx[t] := by simp [Array.getD, h1]
    rw [this]
    exact hc _ (by simp)

section
variable [Add α] [Sub α] [Mul α] [Div α] [OfNat α 0] [OfNat α 1] [LT α] [DecidableLT α] [BEq α] [FloatLike α]

theorem shapes_of_shapesOk (o : ProblemData α) (h : shapesOk o = true) : Shapes o := by
  simp only [shapesOk, Bool.and_eq_true, beq_iff_eq] at h
  obtain ⟨⟨⟨⟨⟨⟨⟨⟨⟨⟨⟨hP, hA⟩, hPm⟩, hPn⟩, hAm⟩, hAn⟩, hq⟩, hb⟩, _⟩, _⟩, _⟩, _⟩ := h
  refine ⟨?_, ?_, ?_, ?_, hq, hb⟩
  · intro t ht; rw [← hPm]; exact (wellFormed_index _ hP t ht).1
  · intro t ht; rw [← hPn]; exact (wellFormed_index _ hP t ht).2
  · intro t ht; rw [← hAm]; exact (wellFormed_index _ hA t ht).1
  · intro t ht; rw [← hAn]; exact (wellFormed_index _ hA t ht).2

end

/-! ### clipping keeps the cumulative scaling inside `[lo, hi]` -/

section bounds
variable [Field α] [LinearOrder α] [IsStrictOrderedRing α]

theorem clip_mem (w lo hi : α) (h : lo ≤ hi) : lo ≤ Vec.clip w lo hi ∧ Vec.clip w lo hi ≤ hi := by
  unfold Vec.clip
  split
  · exact ⟨le_refl _, h⟩
  · split
    · exact ⟨h, le_refl _⟩
    · constructor <;> [exact not_lt.mp ‹_›; exact not_lt.mp ‹_›]

/-- the cumulative scaling `d · clip(w, lo/d, hi/d)` stays in `[lo, hi]` -/
theorem mul_clip_mem (d w lo hi : α) (hlo : 0 < lo) (hd : lo ≤ d) (hd' : d ≤ hi) :
    lo ≤ d * Vec.clip w (lo / d) (hi / d) ∧ d * Vec.clip w (lo / d) (hi / d) ≤ hi := by
  have hdpos : 0 < d := lt_of_lt_of_le hlo hd
  have hle : lo / d ≤ hi / d := div_le_div_of_nonneg_right (le_trans hd hd') (le_of_lt hdpos)
  obtain ⟨h1, h2⟩ := clip_mem w (lo / d) (hi / d) hle
  constructor
  · calc lo = d * (lo / d) := by field_simp
      _ ≤ d * Vec.clip w (lo / d) (hi / d) := mul_le_mul_of_nonneg_left h1 (le_of_lt hdpos)
  · calc d * Vec.clip w (lo / d) (hi / d) ≤ d * (hi / d) := mul_le_mul_of_nonneg_left h2 (le_of_lt hdpos)
      _ = hi := by field_simp

/-- all entries of a vector lie in `[lo, hi]` -/
def AllIn (lo hi : α) (x : Array α) : Prop := ∀ j, j < x.size → lo ≤ x.getD j 1 ∧ x.getD j 1 ≤ hi

theorem allIn_hadamard_clipWork (lo hi : α) (hlo : 0 < lo) (hlh : lo ≤ hi) (d w : Array α)
    (h : AllIn lo hi d) : AllIn lo hi (hadamardInPlace d (clipWork w d lo hi)) := by
  intro j hj
  rw [size_hadamardInPlace] at hj
  rw [getD_hadamardInPlace _ _ _ _ hj]
  obtain ⟨h1, h2⟩ := h j hj
  by_cases hw : j < w.size
  · have : (clipWork w d lo hi).getD j 1 = Vec.clip (w.getD j 1) (lo / d.getD j 1) (hi / d.getD j 1) := by
      simp [clipWork, Array.getD, hw, hj]
    rw [this]
    exact mul_clip_mem _ _ _ _ hlo h1 h2
  · have : (clipWork w d lo hi).getD j 1 = 1 := by
      simp [clipWork, Array.getD, hw]
    rw [this, mul_one]
    exact ⟨h1, h2⟩

end bounds

/-! ### second-order cone membership under a positive uniform scaling -/

section soc
variable [Field α] [LinearOrder α] [IsStrictOrderedRing α]

/-- `Σ vᵢ²` -/
def sumSq : List α → α
  | [] => 0
  | v :: vs => v * v + sumSq vs

/-- `(t, v) ∈ SOC  ⇔  t ≥ 0 ∧ ‖v‖² ≤ t²` (square-root free form of `‖v‖ ≤ t`) -/
def SocMem : List α → Prop
  | [] => True
  | t :: v => 0 ≤ t ∧ sumSq v ≤ t * t

theorem sumSq_map_mul (k : α) (v : List α) : sumSq (v.map (k * ·)) = k * k * sumSq v := by
  induction v with
  | nil => simp [sumSq]
  | cons x xs ih => simp only [List.map_cons, sumSq, ih]; ring

theorem socMem_scale (k : α) (hk : 0 < k) (s : List α) : SocMem (s.map (k * ·)) ↔ SocMem s := by
  cases s with
  | nil => simp [SocMem]
  | cons t v =>
    simp only [List.map_cons, SocMem, sumSq_map_mul]
    have hkk : 0 < k * k := mul_pos hk hk
    constructor
    · rintro ⟨h1, h2⟩
      refine ⟨by_contra fun hn => ?_, ?_⟩
      · have : k * t < 0 := mul_neg_of_pos_of_neg hk (not_le.mp hn)
        linarith
      · have : k * k * sumSq v ≤ k * k * (t * t) := by nlinarith
        exact le_of_mul_le_mul_left this hkk
    · rintro ⟨h1, h2⟩
      refine ⟨mul_nonneg (le_of_lt hk) h1, ?_⟩
      have := mul_le_mul_of_nonneg_left h2 (le_of_lt hkk)
      nlinarith

end soc

end Clarabel.Equil

/-! ### rectification -/

namespace Clarabel.Equil
open Cones
variable {α : Type}

section rect
variable [Field α] [FloatLike α]

/-- the mean used by `rectify_equilibration` -/
def meanL (seg : List α) : α :=
  if seg.length = 0 then 0 else seg.foldl (fun acc v => acc + v) 0 / FloatLike.ofNat seg.length

theorem length_rectifyCone (c : ConeT α) (seg : List α) : (rectifyCone c seg).1.length = seg.length := by
  unfold rectifyCone; split <;> simp

theorem length_rectifyGo (cones : List (ConeT α)) (es : List α) :
    (rectifyGo cones es).1.length = es.length := by
  induction cones generalizing es with
  | nil => simp [rectifyGo]
  | cons c cs ih =>
    simp only [rectifyGo, List.length_append, length_rectifyCone, ih, List.length_take, List.length_drop]
    omega

theorem rectifyCone_nonscalar (c : ConeT α) (seg : List α) (hc : c.isScalar = false)
    (hne : ∀ x ∈ seg, x ≠ 0) (i : Nat) (hi : i < seg.length) :
    seg.getD i 0 * (rectifyCone c seg).1.getD i 0 = meanL seg ∧ (rectifyCone c seg).2 = true := by
  unfold rectifyCone meanL
  simp only [hc, Bool.false_eq_true, ↓reduceIte, and_true]
  have hx : seg[i] ≠ 0 := hne _ (List.getElem_mem hi)
  simp only [List.getD_eq_getElem?_getD, List.getElem?_map, List.getElem?_eq_getElem hi, Option.map_some,
    Option.getD_some]
  field_simp

theorem rectifyCone_scalar (c : ConeT α) (seg : List α) (hc : c.isScalar = true) (i : Nat) (hi : i < seg.length) :
    (rectifyCone c seg).1.getD i 0 = 1 := by
  unfold rectifyCone
  simp [hc, List.getD_eq_getElem?_getD, hi]

/-- the part of `δ` that belongs to the cones after a prefix `pre` -/
theorem rectifyGo_append (pre l : List (ConeT α)) (es : List α) (h : numel pre ≤ es.length) (i : Nat) :
    (rectifyGo (pre ++ l) es).1.getD (numel pre + i) 0 = (rectifyGo l (es.drop (numel pre))).1.getD i 0 := by
  induction pre generalizing es with
  | nil => simp [numel]
  | cons c r ih =>
    simp only [numel] at h
    simp only [List.cons_append, rectifyGo, numel]
    have hl : (rectifyCone c (es.take c.nvars)).1.length = c.nvars := by
      rw [length_rectifyCone]; simp; omega
    rw [List.getD_eq_getElem?_getD, List.getElem?_append_right (by omega), hl,
      show c.nvars + numel r + i - c.nvars = numel r + i by omega, ← List.getD_eq_getElem?_getD,
      ih (es.drop c.nvars) (by simp; omega), List.drop_drop]

theorem rectifyGo_flag (pre post : List (ConeT α)) (c : ConeT α) (es : List α) (hc : c.isScalar = false) :
    (rectifyGo (pre ++ c :: post) es).2 = true := by
  induction pre generalizing es with
  | nil => simp [rectifyGo, rectifyCone, hc]
  | cons c' r ih => simp [rectifyGo, ih]


/-- on the range of a non-scalar cone, `e·δ` is the mean of the cone's entries of `e` -/
theorem rectifyGo_uniform (pre post : List (ConeT α)) (c : ConeT α) (es : List α) (hc : c.isScalar = false)
    (hlen : numel pre + c.nvars ≤ es.length) (hne : ∀ x ∈ es, x ≠ 0) (i : Nat) (hi : i < c.nvars) :
    es.getD (numel pre + i) 0 * (rectifyGo (pre ++ c :: post) es).1.getD (numel pre + i) 0 =
      meanL ((es.drop (numel pre)).take c.nvars) := by
  rw [rectifyGo_append pre (c :: post) es (by omega) i]
  simp only [rectifyGo]
  have hsl : ((es.drop (numel pre)).take c.nvars).length = c.nvars := by simp; omega
  have hl : (rectifyCone c ((es.drop (numel pre)).take c.nvars)).1.length = c.nvars := by
    rw [length_rectifyCone, hsl]
  rw [List.getD_eq_getElem?_getD (l := _ ++ _), List.getElem?_append_left (by omega), ← List.getD_eq_getElem?_getD]
  have hseg : ((es.drop (numel pre)).take c.nvars).getD i 0 = es.getD (numel pre + i) 0 := by
    simp [List.getD_eq_getElem?_getD, hi]
  rw [← hseg]
  exact (rectifyCone_nonscalar c _ hc (fun x hx => hne x (List.mem_of_mem_drop (List.mem_of_mem_take hx))) i
    (by omega)).1

/-- on the range of a zero / nonnegative cone `δ = 1` -/
theorem rectifyGo_scalar (pre post : List (ConeT α)) (c : ConeT α) (es : List α) (hc : c.isScalar = true)
    (hlen : numel pre + c.nvars ≤ es.length) (i : Nat) (hi : i < c.nvars) :
    (rectifyGo (pre ++ c :: post) es).1.getD (numel pre + i) 0 = 1 := by
  rw [rectifyGo_append pre (c :: post) es (by omega) i]
  simp only [rectifyGo]
  have hsl : ((es.drop (numel pre)).take c.nvars).length = c.nvars := by simp; omega
  have hl : (rectifyCone c ((es.drop (numel pre)).take c.nvars)).1.length = c.nvars := by
    rw [length_rectifyCone, hsl]
  rw [List.getD_eq_getElem?_getD (l := _ ++ _), List.getElem?_append_left (by omega), ← List.getD_eq_getElem?_getD]
  exact rectifyCone_scalar c _ hc i (by omega)

end rect

section mean
variable [Field α] [LinearOrder α] [IsStrictOrderedRing α] [FloatLike α] [LawfulFloatLike α]

theorem foldl_add_bounds (lo hi : α) (seg : List α) (h : ∀ x ∈ seg, lo ≤ x ∧ x ≤ hi) (acc : α) :
    acc + seg.length * lo ≤ seg.foldl (fun a v => a + v) acc ∧
    seg.foldl (fun a v => a + v) acc ≤ acc + seg.length * hi := by
  induction seg generalizing acc with
  | nil => simp
  | cons x xs ih =>
    have hx := h x (by simp)
    have := ih (fun y hy => h y (by simp [hy])) (acc + x)
    simp only [List.foldl_cons, List.length_cons, Nat.cast_add, Nat.cast_one]
    constructor <;> nlinarith [this.1, this.2, hx.1, hx.2]

/-- the mean of values in `[lo, hi]` lies in `[lo, hi]` -/
theorem meanL_mem (lo hi : α) (seg : List α) (hne : seg ≠ []) (h : ∀ x ∈ seg, lo ≤ x ∧ x ≤ hi) :
    lo ≤ meanL seg ∧ meanL seg ≤ hi := by
  unfold meanL
  have hpos : 0 < seg.length := List.length_pos_iff.mpr hne
  rw [if_neg (by omega), LawfulFloatLike.ofNat_eq]
  have hc : (0:α) < (seg.length : α) := by exact_mod_cast hpos
  obtain ⟨h1, h2⟩ := foldl_add_bounds lo hi seg h 0
  rw [zero_add] at h1 h2
  constructor
  · rw [le_div_iff₀ hc]; linarith
  · rw [div_le_iff₀ hc]; linarith

end mean
end Clarabel.Equil


/-! ### zero rows -/

namespace Clarabel.Equil
variable {α : Type}

section zero
variable [Field α] [LinearOrder α] [IsStrictOrderedRing α] [FloatLike α] [LawfulFloatLike α]

theorem size_foldl_bump (L : List (Nat × Nat × α)) (g : Nat × Nat × α → Nat) (ns : Array α) :
    (L.foldl (fun ns e => bump ns (g e) (fabs e.2.2)) ns).size = ns.size := by
  induction L generalizing ns with
  | nil => rfl
  | cons e r ih => rw [List.foldl_cons, ih]; simp [bump]

theorem getD_bump_zero (ns : Array α) (k i : Nat) (v : α) (h0 : ns.getD i 0 = 0) (hv : k = i → v = 0) :
    (bump ns k v).getD i 0 = 0 := by
  unfold bump
  by_cases hi : i < ns.size
  · have h0' : ns[i] = 0 := by simpa [Array.getD, hi] using h0
    by_cases hk : k = i
    · subst hk
      simp [Array.getD, hi, Array.getElem_modify, h0', hv rfl, LawfulFloatLike.fmax_eq]
    · simp [Array.getD, hi, Array.getElem_modify, hk, h0']
  · simp [Array.getD, hi]

/-- a row whose stored entries are all zero has row norm zero -/
theorem foldl_bump_row_zero (L : List (Nat × Nat × α)) (ns : Array α) (i : Nat)
    (hL : ∀ e ∈ L, e.1 = i → e.2.2 = 0) (h0 : ns.getD i 0 = 0) :
    (L.foldl (fun ns e => bump ns e.1 (fabs e.2.2)) ns).getD i 0 = 0 := by
  induction L generalizing ns with
  | nil => exact h0
  | cons e r ih =>
    simp only [List.foldl_cons]
    apply ih _ (fun e' he' => hL e' (by simp [he']))
    apply getD_bump_zero _ _ _ _ h0
    intro hk
    rw [hL e (by simp) hk, LawfulFloatLike.fabs_eq, abs_zero]

/-- all stored entries of row `i` are zero -/
def RowZero (M : Csc α) (i : Nat) : Prop := ∀ e ∈ M.storedEntries, e.1 = i → e.2.2 = 0

theorem rowNorms_zero (M : Csc α) (w : Array α) (i : Nat) (h : RowZero M i) :
    (rowNorms M w).getD i 0 = 0 := by
  unfold rowNorms
  apply foldl_bump_row_zero _ _ _ h
  simp [Array.getD]

/-- the step scaling of an index whose norm is zero and whose cumulative scaling is 1 is 1
(`sqrt 1 = 1` is the one fact about `sqrt` that is needed) -/
theorem clipWork_zero_norm (w e : Array α) (lo hi : α) (i : Nat) (hsqrt : sqrt (1:α) = 1)
    (hw : w.getD i 0 = 0) (hiw : i < w.size) (hie : i < e.size) (he : e.getD i 1 = 1)
    (h1 : lo ≤ 1) (h2 : 1 ≤ hi) :
    (clipWork (Vec.rsqrt (unzero w)) e lo hi).getD i 1 = 1 := by
  have hw' : w[i] = 0 := by simpa [Array.getD, hiw] using hw
  have he' : e[i] = 1 := by simpa [Array.getD, hie] using he
  simp [clipWork, Vec.rsqrt, unzero, Array.getD, hiw, hie, hw', he', hsqrt, Vec.clip, not_lt.mpr h1, not_lt.mpr h2]

end zero
end Clarabel.Equil

namespace Clarabel.Equil
variable {α : Type} [Field α] [LinearOrder α] [IsStrictOrderedRing α] [FloatLike α] [LawfulFloatLike α]

theorem zero_row_step (s : Settings α) (dt : ProblemData α) (i : Nat) (hsqrt : sqrt (1:α) = 1)
    (h1 : s.minScaling ≤ 1) (h2 : 1 ≤ s.maxScaling) (hz : RowZero dt.A i)
    (hiw : i < dt.equilibration.einv.size) (hie : i < dt.equilibration.e.size)
    (he : dt.equilibration.e.getD i 1 = 1) :
    (ruizStep s dt).equilibration.e.getD i 1 = 1 := by
  have hsz : (rowNorms dt.A dt.equilibration.einv).size = dt.equilibration.einv.size := by
    unfold rowNorms
    rw [size_foldl_bump _ (fun e => e.1)]
    simp
  have key := clipWork_zero_norm (rowNorms dt.A dt.equilibration.einv) dt.equilibration.e
    s.minScaling s.maxScaling i hsqrt (rowNorms_zero _ _ _ hz) (by omega) hie he h1 h2
  unfold ruizStep applyCost
  simp only []
  split <;>
  · simp only [applyScaling, stepScalings, kktColNorms]
    rw [getD_hadamardInPlace _ _ _ _ hie, he, key, mul_one]

end Clarabel.Equil

