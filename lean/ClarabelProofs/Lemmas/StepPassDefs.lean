/-
  C06, round 6 — INTERFACE of the one-pass theorems on the whole-solver model
  (`ClarabelModel/Solver/*.lean`: `KktSys.solveInitialPoint`, `SolverSt.defaultStart`,
  `kktNumerics`, `pass`).  Definitions only; the lemma files `StepPassHs` (the dense matrix of
  the composite `mul_Hs`), `StepPassInv` (inversion of the monadic model functions),
  `StepPassResid` (dense reading of `Residuals.update`), `StepInitPoint` (the starting point) and
  `StepPass` (the composition) import it.  Scalar type ℝ.
-/
import ClarabelModel.Solver.Solve
import ClarabelProofs.Lemmas.StepBridge
import ClarabelProofs.Lemmas.ScalarInst

namespace Clarabel.Solver
open Clarabel Clarabel.Lemmas Matrix

/-- the dense meaning of a CSC encoding as an `m × n` matrix (C16's `Csc.toDense`) -/
def denseA (A : Csc ℝ) (m n : ℕ) : Matrix (Fin m) (Fin n) ℝ := fun i j => A.toDense i j

/-- the composite `mul_Hs` of the model as a total function on arrays (`#[]` on the panic paths,
which sized input never takes: `mulHs_hsMat`) -/
noncomputable def mulHsT (cones : List (ConeSt ℝ)) (y v : Array ℝ) : Array ℝ :=
  match mulHs cones y v with
  | .ok r => r
  | .error _ => #[]

/-- the composite `mul_Hs` of the model as a function on `Fin m → ℝ` -/
noncomputable def hsFun (cones : List (ConeSt ℝ)) (m : ℕ) (v : Fin m → ℝ) : Fin m → ℝ :=
  toFn (mulHsT cones (Array.replicate m 0) (Array.ofFn v)) m

/-- the dense matrix of the composite `mul_Hs` (the `Hs` block of the reduced KKT system): column
`j` is `mul_Hs(e_j)` -/
noncomputable def hsMat (cones : List (ConeSt ℝ)) (m : ℕ) : Matrix (Fin m) (Fin m) ℝ :=
  Matrix.of fun i j => hsFun cones m (Pi.single j 1) i

/-- the diagonal of the `Hs` block after `set_identity_scaling`: `0` on the rows of a zero cone,
`1` on the rows of a nonnegative or second-order cone -/
def idDiag (cones : List (ConeSt ℝ)) : List ℝ :=
  cones.flatMap fun c =>
    match c with
    | .zero d => List.replicate d 0
    | c => List.replicate c.numel 1

/-- `idDiag` as a function on `Fin m` -/
def idDiagFn (cones : List (ConeSt ℝ)) (m : ℕ) : Fin m → ℝ := fun i => (idDiag cones).getD i 0

/-- the whole-solver model's `DefaultVariables` read as the `Step` model's -/
def toStep (v : Residuals.Vars ℝ) : Step.Vars ℝ := ⟨v.x, v.s, v.z, v.τ, v.κ⟩

end Clarabel.Solver
