/-
  Helper lemmas about the nonnegative-cone model (`ClarabelModel/Cones/Nonneg.lean`):
  the ratio-test fold (C15) and the scalar Nesterov–Todd identities (C13).
-/
import ClarabelModel.Cones.Nonneg
import ClarabelProofs.Lemmas.ScalarInst

namespace Clarabel.Nonneg

section field
variable {α : Type} [Field α] [LinearOrder α] [IsStrictOrderedRing α] [FloatLike α] [LawfulFloatLike α]

omit [IsStrictOrderedRing α] in
theorem ratio_eq (a zi dzi : α) : ratio a zi dzi = if dzi < 0 then min a (-zi / dzi) else a := by
  simp [ratio, LawfulFloatLike.fmin_eq]

omit [IsStrictOrderedRing α] in
theorem ratio_le (a zi dzi : α) : ratio a zi dzi ≤ a := by
  rw [ratio_eq]; split <;> simp

omit [IsStrictOrderedRing α] in
theorem foldl_ratio_le (l : List (α × α)) (a : α) :
    l.foldl (fun a p => ratio a p.1 p.2) a ≤ a := by
  induction l generalizing a with
  | nil => simp
  | cons p t ih => exact le_trans (ih _) (ratio_le _ _ _)

omit [IsStrictOrderedRing α] in
/-- the fold is below every individual ratio -/
theorem foldl_ratio_le_mem (l : List (α × α)) (a : α) (p : α × α) (hp : p ∈ l) (hd : p.2 < 0) :
    l.foldl (fun a p => ratio a p.1 p.2) a ≤ -p.1 / p.2 := by
  induction l generalizing a with
  | nil => cases hp
  | cons q t ih =>
    rcases List.mem_cons.mp hp with rfl | hm
    · refine le_trans (foldl_ratio_le t _) ?_
      beta_reduce
      rw [ratio_eq, if_pos hd]; exact min_le_right _ _
    · exact ih _ hm

omit [IsStrictOrderedRing α] in
/-- the fold is `amax` or one of the ratios -/
theorem foldl_ratio_attained (l : List (α × α)) (a : α) :
    l.foldl (fun a p => ratio a p.1 p.2) a = a ∨
    ∃ p ∈ l, p.2 < 0 ∧ l.foldl (fun a p => ratio a p.1 p.2) a = -p.1 / p.2 := by
  induction l generalizing a with
  | nil => left; rfl
  | cons q t ih =>
    rcases ih (ratio a q.1 q.2) with h | ⟨p, hp, hd, he⟩
    · simp only [List.foldl_cons, h]
      rw [ratio_eq]
      split
      · rename_i hq
        rcases min_choice a (-q.1 / q.2) with h' | h'
        · left; exact h'
        · right; exact ⟨q, List.mem_cons_self, hq, h'⟩
      · left; rfl
    · right; exact ⟨p, List.mem_cons_of_mem _ hp, hd, he⟩

omit [IsStrictOrderedRing α] in
theorem stepComponent_le (amax : α) (z dz : List α) : stepComponent amax z dz ≤ amax :=
  foldl_ratio_le _ _

theorem stepComponent_safe (amax : α) (z dz : List α) (hz : ∀ p ∈ z.zip dz, 0 ≤ p.1)
    (a : α) (ha0 : 0 ≤ a) (ha : a ≤ stepComponent amax z dz) :
    ∀ p ∈ z.zip dz, 0 ≤ p.1 + a * p.2 := by
  intro p hp
  by_cases hd : p.2 < 0
  · have h1 := foldl_ratio_le_mem (z.zip dz) amax p hp hd
    have h2 : a ≤ -p.1 / p.2 := le_trans ha h1
    rw [le_div_iff_of_neg hd] at h2
    linarith
  · have : 0 ≤ a * p.2 := mul_nonneg ha0 (not_lt.mp hd)
    linarith [hz p hp]

theorem stepComponent_tight (amax : α) (z dz : List α) (h : stepComponent amax z dz < amax) :
    ∃ p ∈ z.zip dz, p.2 < 0 ∧ p.1 + stepComponent amax z dz * p.2 = 0 := by
  rcases foldl_ratio_attained (z.zip dz) amax with he | ⟨p, hp, hd, he⟩
  · exact absurd he (ne_of_lt h)
  · refine ⟨p, hp, hd, ?_⟩
    unfold stepComponent
    rw [he]
    field_simp [ne_of_lt hd]
    ring

end field

/-! ### scaling (over ℝ) -/

/-- the scaling computed from `(s,z)` -/
noncomputable def scaled (s z : Array ℝ) : Cone ℝ :=
  ⟨Array.zipWith (fun si zi => Real.sqrt (si / zi)) s z,
   Array.zipWith (fun si zi => Real.sqrt (si * zi)) s z⟩

/-- all entries strictly positive: the interior of the nonnegative cone -/
def Pos (x : Array ℝ) : Prop := ∀ i (h : i < x.size), 0 < x[i]

theorem updateScaling_ok (s z : Array ℝ) (h : s.size = z.size) :
    updateScaling (new s.size) s z = .ok (scaled s z) := by
  simp [updateScaling, new, sizeGuard, h, scaled]
  rfl

theorem sqrt_div_mul {s z : ℝ} (hs : 0 < s) (hz : 0 < z) :
    z * Real.sqrt (s / z) = Real.sqrt (s * z) := by
  rw [Real.sqrt_div hs.le, Real.sqrt_mul hs.le]
  have h1 : z = Real.sqrt z * Real.sqrt z := (Real.mul_self_sqrt hz.le).symm
  have hq : Real.sqrt z ≠ 0 := (Real.sqrt_pos.mpr hz).ne'
  field_simp
  nlinarith [h1]

theorem div_sqrt_div {s z : ℝ} (hs : 0 < s) (hz : 0 < z) :
    s / Real.sqrt (s / z) = Real.sqrt (s * z) := by
  rw [Real.sqrt_div hs.le, Real.sqrt_mul hs.le]
  have h1 : s = Real.sqrt s * Real.sqrt s := (Real.mul_self_sqrt hs.le).symm
  have hq : Real.sqrt z ≠ 0 := (Real.sqrt_pos.mpr hz).ne'
  have hp : Real.sqrt s ≠ 0 := (Real.sqrt_pos.mpr hs).ne'
  field_simp
  nlinarith [h1]

theorem sqrt_div_sq_mul {s z : ℝ} (hs : 0 < s) (hz : 0 < z) :
    Real.sqrt (s / z) * (Real.sqrt (s / z) * z) = s := by
  rw [← mul_assoc, Real.mul_self_sqrt (div_pos hs hz).le]
  field_simp

end Clarabel.Nonneg
