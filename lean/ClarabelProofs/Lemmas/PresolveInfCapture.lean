/-
  C09, the module-level infinity bound: capture at construction.

  `DefaultProblemData::new` reads `get_infinity()` twice — once inside `Presolver::new`
  (drop test, stored in the presolver record and later written to the dropped rows of `s`)
  and once for the cap of `b`.  In the model both reads are the single parameter `infbound`
  (single-threaded histories).  This file proves

  * `new_captures_bound`: every use of the bound by the constructed object (record, drop
    threshold, cap) is the value handed to `ProblemData.new`;
  * `constructed_in_history`: in a history of `set_infinity / default_infinity / new`, the
    object built by the `k`-th `new` is `ProblemData.new … (value in force at that moment)`,
    whatever happens afterwards;
  * the chordal-decomposition switch: `hasLargePsd` is invariant under `new_collapsed` and
    `reduce_cones`, so with `chordal_decomposition_enable = true` the model agrees with the
    switch off whenever the user's cone list has no PSD cone of side > 3, and otherwise
    refuses explicitly (`err:chordal-not-modelled`) AFTER the bound has been captured by
    the presolver; the decomposition code itself never reads `get_infinity()`.
-/
import ClarabelModel.ProblemData
import ClarabelProofs.Lemmas.Presolve
import ClarabelProofs.Lemmas.PresolveSpec

namespace Clarabel
namespace Presolve
open Cones
variable {α : Type}

/-! ### `hasLargePsd` is invariant under collapse and reduction -/

/-- a PSD cone chordal decomposition would look at -/
def isLargePsd : ConeT α → Bool
  | .psd d => decide (d > 3)
  | _ => false

theorem hasLargePsd_eq (l : List (ConeT α)) : ProblemData.hasLargePsd l = l.any isLargePsd := by
  unfold ProblemData.hasLargePsd
  congr 1

theorem hasLargePsd_append (l₁ l₂ : List (ConeT α)) :
    ProblemData.hasLargePsd (l₁ ++ l₂) = (ProblemData.hasLargePsd l₁ || ProblemData.hasLargePsd l₂) := by
  simp [hasLargePsd_eq, List.any_append]

theorem hasLargePsd_flush (acc : Nat) : ProblemData.hasLargePsd (flush acc : List (ConeT α)) = false := by
  rw [hasLargePsd_eq]
  unfold flush
  split
  · rfl
  · rfl

theorem hasLargePsd_cons (c : ConeT α) (l : List (ConeT α)) :
    ProblemData.hasLargePsd (c :: l) = (isLargePsd c || ProblemData.hasLargePsd l) := by
  simp [hasLargePsd_eq]

/-- a PSD cone of side > 3 has at least 10 rows -/
theorem triangularNumber_pos_of_gt3 (d : Nat) (h : d > 3) : ConeT.triangularNumber d ≠ 0 := by
  unfold ConeT.triangularNumber
  have : 12 ≤ d * (d + 1) := by
    have h4 : 4 ≤ d := h
    calc 12 ≤ 4 * (4 + 1) := by decide
      _ ≤ d * (d + 1) := Nat.mul_le_mul h4 (by omega)
  omega

/-- a cone that `new_collapsed` skips or merges is not a large PSD cone -/
theorem not_large_of_nvars_zero (c : ConeT α) (h : c.nvars = 0) : isLargePsd c = false := by
  cases c with
  | psd d =>
    by_cases hd : d > 3
    · exact absurd h (triangularNumber_pos_of_gt3 d hd)
    · simp [isLargePsd, hd]
  | _ => rfl

theorem not_large_of_collapsible (c : ConeT α) (d : Nat) (h : c.collapsibleDim? = some d) :
    isLargePsd c = false := by
  cases c with
  | psd k =>
    match k, h with
    | 1, _ => rfl
  | _ => rfl

/-- `new_collapsed` neither creates nor removes a PSD cone of side > 3 -/
theorem hasLargePsd_collapseGo (acc : Nat) (cs : List (ConeT α)) :
    ProblemData.hasLargePsd (collapseGo acc cs) = ProblemData.hasLargePsd cs := by
  induction cs generalizing acc with
  | nil =>
    show ProblemData.hasLargePsd (flush acc) = ProblemData.hasLargePsd []
    rw [hasLargePsd_flush]; rfl
  | cons c rest ih =>
    rw [hasLargePsd_cons]
    unfold collapseGo
    by_cases h0 : c.nvars = 0
    · rw [if_pos h0, ih, not_large_of_nvars_zero c h0, Bool.false_or]
    · rw [if_neg h0]
      cases hc : c.collapsibleDim? with
      | some d => simp only; rw [ih, not_large_of_collapsible c d hc, Bool.false_or]
      | none =>
        simp only
        rw [hasLargePsd_append, hasLargePsd_flush, Bool.false_or, hasLargePsd_cons, ih]

theorem hasLargePsd_newCollapsed (cs : List (ConeT α)) :
    ProblemData.hasLargePsd (newCollapsed cs) = ProblemData.hasLargePsd cs :=
  hasLargePsd_collapseGo 0 cs

/-- `reduce_cones` only touches nonnegative cones -/
theorem hasLargePsd_reduceConesWith (keep : List Bool) (cs : List (ConeT α)) :
    ProblemData.hasLargePsd (reduceConesWith keep cs) = ProblemData.hasLargePsd cs := by
  induction cs generalizing keep with
  | nil => rfl
  | cons c rest ih =>
    cases c with
    | nonneg n =>
      simp only [reduceConesWith]
      split
      · rw [hasLargePsd_cons, hasLargePsd_cons, ih]; rfl
      · rw [hasLargePsd_cons, ih]; rfl
    | zero n => simp only [reduceConesWith]; rw [hasLargePsd_cons, hasLargePsd_cons, ih]
    | soc n => simp only [reduceConesWith]; rw [hasLargePsd_cons, hasLargePsd_cons, ih]
    | exp => simp only [reduceConesWith]; rw [hasLargePsd_cons, hasLargePsd_cons, ih]
    | pow a => simp only [reduceConesWith]; rw [hasLargePsd_cons, hasLargePsd_cons, ih]
    | genpow a b => simp only [reduceConesWith]; rw [hasLargePsd_cons, hasLargePsd_cons, ih]
    | psd n => simp only [reduceConesWith]; rw [hasLargePsd_cons, hasLargePsd_cons, ih]

section new
variable [Add α] [Sub α] [Mul α] [Div α] [OfNat α 0] [OfNat α 1] [LT α] [DecidableLT α] [FloatLike α]

/-- the three sub-steps of `ProblemData.new` before the chordal test, as one record -/
structure NewSteps (P : Csc α) (A : Csc α) (b : Array α) (cones : List (ConeT α))
    (presolve : Bool) (inf : α) (Pn : Csc α) (pres : Option (Presolver α))
    (r : Csc α × Array α × List (ConeT α)) : Prop where
  triu : ProblemData.triuStep P = .ok Pn
  pre : ProblemData.tryPresolver b (newCollapsed cones) presolve inf = .ok pres
  red : ProblemData.reduceStep pres A b (newCollapsed cones) = .ok r

/-- whatever `ProblemData.new` returns went through the three sub-steps, and the result is
`assemble` of their outputs (either value of the chordal switch) -/
theorem new_ok_steps (P : Csc α) (q : Array α) (A : Csc α) (b : Array α) (cones : List (ConeT α))
    (presolve chordal : Bool) (inf : α) (d : ProblemData α)
    (h : ProblemData.new P q A b cones presolve chordal inf = .ok d) :
    ∃ Pn pres r, NewSteps P A b cones presolve inf Pn pres r ∧
      d = ProblemData.assemble Pn q r.1 r.2.1 r.2.2 pres inf ∧
      (chordal && ProblemData.hasLargePsd r.2.2) = false := by
  unfold ProblemData.new at h
  simp only [bind, Except.bind, pure, Except.pure] at h
  cases hT : ProblemData.triuStep P with
  | error e => rw [hT] at h; cases h
  | ok Pn =>
    rw [hT] at h
    simp only at h
    cases hp : ProblemData.tryPresolver b (newCollapsed cones) presolve inf with
    | error e => rw [hp] at h; cases h
    | ok pres =>
      rw [hp] at h
      simp only at h
      cases hr : ProblemData.reduceStep pres A b (newCollapsed cones) with
      | error e => rw [hr] at h; cases h
      | ok r =>
        rw [hr] at h
        simp only at h
        by_cases hc : (chordal && ProblemData.hasLargePsd r.2.2) = true
        · rw [if_pos hc] at h; cases h
        · rw [if_neg hc] at h
          cases h
          exact ⟨Pn, pres, r, ⟨hT, hp, hr⟩, rfl, by simpa using hc⟩

omit [Add α] [Div α] [OfNat α 0] in
/-- a presolver record produced by `try_presolver` carries the bound it was called with, the
full length of `b`, and a keep vector computed with the threshold of THAT bound -/
theorem tryPresolver_some (b : Array α) (cs : List (ConeT α)) (presolve : Bool) (inf : α)
    (p : Presolver α) (h : ProblemData.tryPresolver b cs presolve inf = .ok (some p)) :
    presolve = true ∧ p.infbound = inf ∧ p.mfull = b.size ∧
      ∃ keep, keepFlags (threshold inf) cs b.toList = .ok keep ∧ p.keep = some keep.toArray ∧
        p.mreduced = keep.count true ∧ keep.count true < b.size := by
  cases presolve with
  | false => cases h
  | true =>
    refine ⟨rfl, ?_⟩
    cases hk : keepFlags (threshold inf) cs b.toList with
    | error e =>
      unfold ProblemData.tryPresolver Presolver.new makeReductionMap at h
      simp [hk, bind, Except.bind] at h
    | ok keep =>
      rw [tryPresolver_on b cs inf keep hk] at h
      by_cases hc : keep.count true < b.size
      · rw [if_pos hc] at h
        cases h
        exact ⟨rfl, rfl, keep, rfl, rfl, rfl, hc⟩
      · rw [if_neg hc] at h; cases h

/-- **capture at construction**: every use of the infinity bound by the object that
`ProblemData.new … inf` returns is `inf` itself: the presolver record stores `inf` (this is what
`reverse_presolve` later writes into the dropped rows of `s`), the keep vector was computed
with `threshold inf`, and the internal `b` is `min(·, inf)` of the selected rows. -/
theorem new_captures_bound (P : Csc α) (q : Array α) (A : Csc α) (b : Array α) (cones : List (ConeT α))
    (presolve chordal : Bool) (inf : α) (d : ProblemData α)
    (h : ProblemData.new P q A b cones presolve chordal inf = .ok d) :
    (∀ p, d.presolver = some p →
        p.infbound = inf ∧ p.mfull = b.size ∧
        ∃ keep, keepFlags (threshold inf) (newCollapsed cones) b.toList = .ok keep ∧
          p.keep = some keep.toArray ∧ p.mreduced = keep.count true) ∧
    (∃ bsel, d.b = ProblemData.capB bsel inf ∧ (d.presolver = none → bsel = b)) := by
  obtain ⟨Pn, pres, r, hs, rfl, _⟩ := new_ok_steps P q A b cones presolve chordal inf d h
  refine ⟨?_, r.2.1, rfl, ?_⟩
  · intro p hp
    have hp' : pres = some p := hp
    have := tryPresolver_some b (newCollapsed cones) presolve inf p (hp' ▸ hs.pre)
    obtain ⟨_, h1, h2, keep, h3, h4, h5, _⟩ := this
    exact ⟨h1, h2, keep, h3, h4, h5⟩
  · intro hn
    have hn' : pres = none := hn
    have hr := hs.red
    rw [hn'] at hr
    cases hr
    rfl

/-- with the chordal switch on, a cone list without a PSD cone of side > 3 gives exactly the
same object as with the switch off (nothing is decomposed) -/
theorem new_chordal_on_small (P : Csc α) (q : Array α) (A : Csc α) (b : Array α) (cones : List (ConeT α))
    (presolve : Bool) (inf : α) (hsmall : ProblemData.hasLargePsd cones = false) :
    ProblemData.new P q A b cones presolve true inf = ProblemData.new P q A b cones presolve false inf := by
  unfold ProblemData.new
  simp only [bind, Except.bind, pure, Except.pure]
  cases ProblemData.triuStep P with
  | error e => rfl
  | ok Pn =>
    simp only
    cases hp : ProblemData.tryPresolver b (newCollapsed cones) presolve inf with
    | error e => rfl
    | ok pres =>
      simp only
      cases hr : ProblemData.reduceStep pres A b (newCollapsed cones) with
      | error e => rfl
      | ok r =>
        simp only
        have hl : ProblemData.hasLargePsd r.2.2 = false := by
          cases pres with
          | none =>
            cases hr
            show ProblemData.hasLargePsd (newCollapsed cones) = false
            rw [hasLargePsd_newCollapsed]; exact hsmall
          | some p =>
            unfold ProblemData.reduceStep Presolver.presolve at hr
            simp only [bind, Except.bind, pure, Except.pure] at hr
            cases hab : p.reduceAb A b with
            | error e => rw [hab] at hr; cases hr
            | ok ab =>
              rw [hab] at hr
              simp only at hr
              cases hc : p.reduceCones (newCollapsed cones) with
              | error e => rw [hc] at hr; cases hr
              | ok cs' =>
                rw [hc] at hr
                cases hr
                unfold Presolver.reduceCones at hc
                cases hk : p.keep with
                | none => rw [hk] at hc; cases hc
                | some keep =>
                  rw [hk] at hc
                  cases hc
                  show ProblemData.hasLargePsd (reduceConesWith keep.toList (newCollapsed cones)) = false
                  rw [hasLargePsd_reduceConesWith, hasLargePsd_newCollapsed]; exact hsmall
        simp [hl]

/-- with the chordal switch on and a PSD cone of side > 3 in the user's list the model refuses
explicitly (C18 models the decomposition) — but only AFTER the presolver captured the bound:
whenever the switch-off construction succeeds, the switch-on construction is the error
`chordal-not-modelled`, never a silently different object. -/
theorem new_chordal_on_large (P : Csc α) (q : Array α) (A : Csc α) (b : Array α) (cones : List (ConeT α))
    (presolve : Bool) (inf : α) (d : ProblemData α) (hlarge : ProblemData.hasLargePsd cones = true)
    (h : ProblemData.new P q A b cones presolve false inf = .ok d) :
    ProblemData.new P q A b cones presolve true inf = .error (.err "chordal-not-modelled") := by
  obtain ⟨Pn, pres, r, hs, _, _⟩ := new_ok_steps P q A b cones presolve false inf d h
  have hl : ProblemData.hasLargePsd r.2.2 = true := by
    have hr := hs.red
    cases pres with
    | none =>
      cases hr
      show ProblemData.hasLargePsd (newCollapsed cones) = true
      rw [hasLargePsd_newCollapsed]; exact hlarge
    | some p =>
      unfold ProblemData.reduceStep Presolver.presolve at hr
      simp only [bind, Except.bind, pure, Except.pure] at hr
      cases hab : p.reduceAb A b with
      | error e => rw [hab] at hr; cases hr
      | ok ab =>
        rw [hab] at hr
        simp only at hr
        cases hc : p.reduceCones (newCollapsed cones) with
        | error e => rw [hc] at hr; cases hr
        | ok cs' =>
          rw [hc] at hr
          cases hr
          unfold Presolver.reduceCones at hc
          cases hk : p.keep with
          | none => rw [hk] at hc; cases hc
          | some keep =>
            rw [hk] at hc
            cases hc
            show ProblemData.hasLargePsd (reduceConesWith keep.toList (newCollapsed cones)) = true
            rw [hasLargePsd_reduceConesWith, hasLargePsd_newCollapsed]; exact hlarge
  unfold ProblemData.new
  simp only [bind, Except.bind, pure, Except.pure, hs.triu, hs.pre, hs.red, hl, Bool.and_self, ↓reduceIte]
  rfl

/-! ### histories of the module-level bound with constructions -/

/-- the objects built by the `new` operations of a history, in construction order: each is
`ProblemData.new` of the same user problem with the bound captured by that `new` -/
def InfWorld.constructed (dflt : α) (ops : List (InfOp α)) (P : Csc α) (q : Array α) (A : Csc α)
    (b : Array α) (cones : List (ConeT α)) (presolve chordal : Bool) : List (MErr (ProblemData α)) :=
  (InfWorld.run dflt ops).captured.map (fun inf => ProblemData.new P q A b cones presolve chordal inf)

omit [Add α] [Sub α] [Mul α] [Div α] [OfNat α 0] [OfNat α 1] [LT α] [DecidableLT α] [FloatLike α] in
theorem InfWorld.captured_at (dflt : α) (pre post : List (InfOp α)) :
    (InfWorld.run dflt (pre ++ InfOp.new :: post)).captured[(InfWorld.run dflt pre).captured.length]?
      = some (InfWorld.run dflt pre).current := by
  simp only [InfWorld.run, List.foldl_append, List.foldl_cons]
  obtain ⟨ext, he⟩ := InfWorld.foldl_captured_prefix dflt post
    (InfWorld.step dflt (pre.foldl (InfWorld.step dflt) { current := dflt, captured := [] }) InfOp.new)
  rw [he]
  simp [InfWorld.step]

/-- **capture at construction, along a history**: the object built by the `new` that follows
the prefix `pre` is `ProblemData.new … inf₀` with `inf₀` the bound in force after `pre`; the
operations `post` that come later (`set_infinity`, `default_infinity`, further constructions)
do not change it.  By `new_captures_bound` its record, drop threshold and cap all use `inf₀`. -/
theorem constructed_in_history (dflt : α) (pre post : List (InfOp α)) (P : Csc α) (q : Array α)
    (A : Csc α) (b : Array α) (cones : List (ConeT α)) (presolve chordal : Bool) :
    (InfWorld.constructed dflt (pre ++ InfOp.new :: post) P q A b cones presolve chordal)[
        (InfWorld.run dflt pre).captured.length]?
      = some (ProblemData.new P q A b cones presolve chordal (InfWorld.run dflt pre).current) := by
  unfold InfWorld.constructed
  rw [List.getElem?_map, InfWorld.captured_at]
  rfl

end new

end Presolve
end Clarabel
