/-
  C16, dense matrix module: the LAPACK wrappers `blas/{cholesky,syevr,svd,lu}.rs`
  (last section of `ClarabelModel/Dense.lean`).

  The Fortran routine is a function parameter of the model; every theorem here is "relative
  to the LAPACK contract": what the Rust wrapper does around the call (dimension checks, the
  triangle copy before `?potrf`, the illegal-argument codes LAPACK reports for empty
  matrices because the wrappers pass `lda = n`, which engine fields are overwritten by what).
-/
import ClarabelProofs.Lemmas.DenseBasic
import ClarabelProofs.Lemmas.ScalarInst
import Mathlib.Algebra.BigOperators.Group.Finset.Basic
import Mathlib.Algebra.BigOperators.Ring.Finset

namespace Clarabel.Dense
open Clarabel

variable {α : Type}
set_option linter.unusedSectionVars false

/-! ### A. Cholesky: `CholeskyEngine::factor` -/

/-- [S] the positions `(i, j)`, `j ≤ i < n`, visited by the copy loop -/
theorem mem_cholPositions (n : Nat) (p : Nat × Nat) :
    p ∈ (List.range n).flatMap (fun j => (List.range (n - j)).map (fun k => (j + k, j))) ↔
      p.2 ≤ p.1 ∧ p.1 < n := by
  simp only [List.mem_flatMap, List.mem_range, List.mem_map]
  constructor
  · rintro ⟨j, hj, k, hk, rfl⟩
    simp only
    omega
  · rintro ⟨h1, h2⟩
    exact ⟨p.2, by omega, p.1 - p.2, by omega, by
      ext
      · simp only; omega
      · rfl⟩

/-- [S] `factor`, dimension mismatch: `IncompatibleDimension`, the engine is untouched and
LAPACK is not called. -/
theorem cholFactor_dim (L A : Dense α) (potrf : Array α → PotrfOut α)
    (hsq : L.m = L.n) (hd : (A.m, A.n) ≠ (L.m, L.n)) :
    cholFactor L A potrf = .ok (L, some .incompatibleDimension) := by
  unfold cholFactor
  simp only [hsq, bne_self_eq_false, Bool.false_eq_true, ↓reduceIte]
  have : ((A.m, A.n) != (L.n, L.n)) = true := by
    rw [hsq] at hd
    simpa using hd
  simp only [this, ↓reduceIte]
  rfl

example : cholFactor (⟨2, 2, #[1, 2, 3, 4]⟩ : Dense Int) ⟨1, 2, #[5, 6]⟩ (fun b => ⟨0, b⟩) =
    .ok (⟨2, 2, #[1, 2, 3, 4]⟩, some .incompatibleDimension) :=
  cholFactor_dim _ _ _ rfl (by decide)

/-- [S] `factor` of an empty matrix with an empty engine: nothing is copied, the wrapper
passes `lda = 0` and LAPACK rejects argument 4 — the result is `Cholesky(-4)`, not `Ok`
(finding: an empty matrix is rejected). -/
theorem cholFactor_empty (L A : Dense α) (potrf : Array α → PotrfOut α)
    (hLm : L.m = 0) (hLn : L.n = 0) (hAm : A.m = 0) (hAn : A.n = 0) :
    cholFactor L A potrf = .ok ({ L with data := L.data }, some (.cholesky (-4))) := by
  obtain ⟨m, n, d⟩ := L
  simp only at hLm hLn
  subst hLm hLn
  unfold cholFactor cholCopyWrites
  simp only [hAm, hAn, bne_self_eq_false, Bool.false_eq_true, ↓reduceIte, List.range_zero,
    List.flatMap_nil, List.mapM_nil, beq_self_eq_true]
  rfl

example : cholFactor (⟨0, 0, #[]⟩ : Dense Int) ⟨0, 0, #[]⟩ (fun b => ⟨0, b⟩) =
    .ok (⟨0, 0, #[]⟩, some (.cholesky (-4))) :=
  cholFactor_empty _ _ _ rfl rfl rfl rfl

/-- [S] the list of `(position, value)` writes of the copy loop on a well-formed square `A` -/
theorem cholCopyWrites_ok (n : Nat) (A : Dense α) (hA : WF A) (hAm : A.m = n) (hAn : A.n = n)
    (a0 : α) :
    cholCopyWrites n A = .ok
      (((List.range n).flatMap (fun j => (List.range (n - j)).map (fun k => (j + k, j)))).map
        (fun p => (p.1 + n * p.2, A.data.getD (p.2 + n * p.1) a0))) := by
  unfold cholCopyWrites
  apply mapM_ok
  intro p hp
  rw [mem_cholPositions] at hp
  have hlt : p.2 + A.m * p.1 < A.data.size := by
    rw [hA, hAn, hAm]
    exact lin_lt (by omega) hp.2
  unfold get indexLinear
  simp only
  rw [getE_ok _ _ _ hlt]
  rw [hAm] at hlt
  simp only [hAm, Array.getD, hlt, ↓reduceDIte]
  rfl

/-- [S] the buffer handed to `?potrf`: the copy loop succeeds on well-formed `n × n` operands, the
lower triangle holds the transposed upper triangle of `A`, the strictly upper part is what
the engine held -/
theorem cholPre_spec (L A : Dense α) (n : Nat) (hL : WF L) (hA : WF A)
    (hLm : L.m = n) (hLn : L.n = n) (hAm : A.m = n) (hAn : A.n = n) :
    ∃ ws pre, cholCopyWrites n A = .ok ws ∧ applyWrites L.data ws = .ok pre ∧
      pre.size = n * n ∧
      (∀ i j, j ≤ i → i < n → pre[i + n * j]? = A.data[j + n * i]?) ∧
      (∀ i j, i < j → j < n → pre[i + n * j]? = L.data[i + n * j]?) := by
  rcases Nat.eq_zero_or_pos n with h0 | hn
  · subst h0
    refine ⟨[], L.data, ?_, rfl, ?_, ?_, ?_⟩
    · simp [cholCopyWrites]
      rfl
    · rw [hL, hLm, hLn]
    · intro i j _ hi; omega
    · intro i j _ hj; omega
  have hLs : L.data.size = n * n := by rw [hL, hLm, hLn]
  have hAs : A.data.size = n * n := by rw [hA, hAm, hAn]
  have h0 : 0 < A.data.size := by rw [hAs]; exact Nat.mul_pos hn hn
  have hws := cholCopyWrites_ok n A hA hAm hAn (A.data[0]'h0)
  obtain ⟨pre, h1, h2, h3, h4⟩ := applyWrites_spec
    (((List.range n).flatMap (fun j => (List.range (n - j)).map (fun k => (j + k, j)))).map
        (fun p => (p.1 + n * p.2, A.data.getD (p.2 + n * p.1) (A.data[0]'h0)))) L.data (by
      intro w hw
      obtain ⟨p, hp, rfl⟩ := List.mem_map.mp hw
      rw [mem_cholPositions] at hp
      rw [hLs]
      exact lin_lt hp.2 (by omega))
  refine ⟨_, pre, hws, h1, by rw [h2, hLs], ?_, ?_⟩
  · intro i j hji hi
    have hlt : j + n * i < A.data.size := by rw [hAs]; exact lin_lt (by omega) hi
    rw [h4 (i + n * j) (A.data[j + n * i]'hlt)]
    · simp [hlt]
    · exact ⟨_, List.mem_map.mpr ⟨(i, j), (mem_cholPositions n (i, j)).mpr ⟨hji, hi⟩, rfl⟩, rfl⟩
    · intro w hw hk
      obtain ⟨p, hp, rfl⟩ := List.mem_map.mp hw
      rw [mem_cholPositions] at hp
      obtain ⟨e1, e2⟩ := lin_inj hp.2 hi hk
      simp only [e1, e2, Array.getD, hlt, ↓reduceDIte]
      rfl
  · intro i j hij hj
    apply h3
    intro w hw hk
    obtain ⟨p, hp, rfl⟩ := List.mem_map.mp hw
    rw [mem_cholPositions] at hp
    obtain ⟨e1, e2⟩ := lin_inj hp.2 (by omega : i < n) hk
    omega

/-- [S] `Except.ok x >>= f = f x` -/
theorem lapack_ok_bind {β γ : Type} (x : β) (f : β → MErr γ) : ((Except.ok x : MErr β) >>= f) = f x := rfl

/-- [S] `cholFactor_run` with the size hypothesis only for buffers of the size LAPACK is given -/
theorem cholFactor_run' (L A : Dense α) (potrf : Array α → PotrfOut α) (n : Nat)
    (hL : WF L) (hA : WF A) (hLm : L.m = n) (hLn : L.n = n) (hAm : A.m = n) (hAn : A.n = n)
    (hn : 0 < n) (hp : ∀ buf : Array α, buf.size = n * n → (potrf buf).buf.size = n * n) :
    ∃ ws pre, cholCopyWrites n A = .ok ws ∧ applyWrites L.data ws = .ok pre ∧
      pre.size = n * n ∧
      cholFactor L A potrf = .ok ({ L with data := (potrf pre).buf },
        if (potrf pre).info ≠ 0 then some (.cholesky (potrf pre).info) else none) ∧
      (∀ i j, j ≤ i → i < n → pre[i + n * j]? = A.data[j + n * i]?) ∧
      (∀ i j, i < j → j < n → pre[i + n * j]? = L.data[i + n * j]?) := by
  obtain ⟨ws, pre, h1, h2, h3, h4, h5⟩ := cholPre_spec L A n hL hA hLm hLn hAm hAn
  refine ⟨ws, pre, h1, h2, h3, ?_, h4, h5⟩
  subst hLm
  unfold cholFactor
  have e1 : (L.m != L.n) = false := by simp [hLn]
  have e2 : ((A.m, A.n) != (L.m, L.n)) = false := by simp [hAm, hAn, hLn]
  have e3 : (L.m == 0) = false := by simp; omega
  have e4 : ((potrf pre).buf.size != pre.size) = false := by simp [hp pre h3, h3]
  simp only [e1, e2, e3, e4, h1, h2, Bool.false_eq_true, ↓reduceIte, bind, Except.bind, pure,
    Except.pure, bne_iff_ne, ne_eq]

/-- [S] `factor` on well-formed `n × n` operands, `n > 0`, relative to a `?potrf` that keeps
the buffer length: the copy loop does not panic, LAPACK receives the buffer `pre` whose LOWER
triangle is the transposed UPPER triangle of `A` and whose strictly upper part is whatever the
engine held; the engine's `L` becomes LAPACK's buffer and the result is `Cholesky(info)` iff
`info ≠ 0`. -/
theorem cholFactor_run (L A : Dense α) (potrf : Array α → PotrfOut α) (n : Nat)
    (hL : WF L) (hA : WF A) (hLm : L.m = n) (hLn : L.n = n) (hAm : A.m = n) (hAn : A.n = n)
    (hn : 0 < n) (hp : ∀ buf, (potrf buf).buf.size = buf.size) :
    ∃ ws pre, cholCopyWrites n A = .ok ws ∧ applyWrites L.data ws = .ok pre ∧
      pre.size = n * n ∧
      cholFactor L A potrf = .ok ({ L with data := (potrf pre).buf },
        if (potrf pre).info ≠ 0 then some (.cholesky (potrf pre).info) else none) ∧
      (∀ i j, j ≤ i → i < n → pre[i + n * j]? = A.data[j + n * i]?) ∧
      (∀ i j, i < j → j < n → pre[i + n * j]? = L.data[i + n * j]?) :=
  cholFactor_run' L A potrf n hL hA hLm hLn hAm hAn hn (fun buf hb => by rw [hp, hb])

/-- non-vacuity: `A = [4 2; 9 5]` (column major `4 9 2 5`), engine holding a stale `7` above
the diagonal: LAPACK sees `A[(0,1)] = 2` at `(1,0)` and the stale `7` at `(0,1)`. -/
example : ∃ pre, cholFactor (⟨2, 2, #[0, 0, 7, 0]⟩ : Dense Int) ⟨2, 2, #[4, 9, 2, 5]⟩
      (fun b => ⟨0, b⟩) = .ok (⟨2, 2, pre⟩, none) ∧ pre[1]? = some 2 ∧ pre[2]? = some 7 := by
  obtain ⟨ws, pre, _, _, _, h, h4, h5⟩ := cholFactor_run (⟨2, 2, #[0, 0, 7, 0]⟩ : Dense Int)
    ⟨2, 2, #[4, 9, 2, 5]⟩ (fun b => ⟨0, b⟩) 2 rfl rfl rfl rfl rfl rfl (by decide) (fun _ => rfl)
  exact ⟨pre, by simpa using h, h4 1 0 (by decide) (by decide), h5 0 1 (by decide) (by decide)⟩

/-! #### relative to the `?potrf('L')` contract -/

section contract
variable [CommRing α]

/-- entry `(i, k)` of the lower-triangular factor read from an `n × n` column-major buffer -/
def cholLow (n : Nat) (b : Array α) (i k : Nat) : α := if k ≤ i then b.getD (i + n * k) 0 else 0

/-- entry `(i, j)` of the symmetric matrix whose lower triangle the buffer holds -/
def cholSymLow (n : Nat) (b : Array α) (i j : Nat) : α :=
  if j ≤ i then b.getD (i + n * j) 0 else b.getD (j + n * i) 0

/-- the contract of `?potrf('L', n, a, n)` on an `n × n` buffer: the length is kept, the
strictly upper triangle is not touched, and on `info = 0` the lower triangle `Λ` of the
result satisfies `Λ Λᵀ = ` the symmetric matrix given by the lower triangle of the input -/
def PotrfContract (n : Nat) (potrf : Array α → PotrfOut α) : Prop :=
  ∀ pre : Array α, pre.size = n * n →
    (potrf pre).buf.size = n * n ∧
    (∀ i j, i < j → j < n → (potrf pre).buf[i + n * j]? = pre[i + n * j]?) ∧
    ((potrf pre).info = 0 → ∀ i j, i < n → j < n →
      ∑ k ∈ Finset.range n, cholLow n (potrf pre).buf i k * cholLow n (potrf pre).buf j k
        = cholSymLow n pre i j)

/-- [F] `factor` relative to the `?potrf` contract: when the wrapper returns `Ok(())` the
lower triangle `Λ` of the engine's `L` satisfies `Λ Λᵀ = ` the symmetric completion of the
UPPER triangle of `A`, and the entries of `L` above the diagonal are the stale ones the
engine held before (LAPACK does not touch them: zeros stay zeros, but nothing zeroes them). -/
theorem cholFactor_contract (L A : Dense α) (potrf : Array α → PotrfOut α) (n : Nat)
    (hL : WF L) (hA : WF A) (hLm : L.m = n) (hLn : L.n = n) (hAm : A.m = n) (hAn : A.n = n)
    (hn : 0 < n) (hc : PotrfContract n potrf) (L' : Dense α)
    (hres : cholFactor L A potrf = .ok (L', none)) :
    L'.m = n ∧ L'.n = n ∧ WF L' ∧
    (∀ i j, i < n → j < n →
      ∑ k ∈ Finset.range n, cholLow n L'.data i k * cholLow n L'.data j k
        = if i ≤ j then A.data.getD (i + n * j) 0 else A.data.getD (j + n * i) 0) ∧
    (∀ i j, i < j → j < n → L'.data[i + n * j]? = L.data[i + n * j]?) := by
  obtain ⟨ws, pre, _, _, hsz, h, h4, h5⟩ := cholFactor_run' L A potrf n hL hA hLm hLn hAm hAn hn
    (fun buf hb => (hc buf hb).1)
  rw [h] at hres
  obtain ⟨c1, c2, c3⟩ := hc pre hsz
  have hres' := Prod.mk.inj (Except.ok.inj hres)
  have hinfo : (potrf pre).info = 0 := by
    by_contra hne
    have := hres'.2
    simp [hne] at this
  have hL' : L' = { L with data := (potrf pre).buf } := hres'.1.symm
  subst hL'
  refine ⟨hLm, hLn, ?_, ?_, ?_⟩
  · show (potrf pre).buf.size = L.m * L.n
    rw [c1, hLm, hLn]
  · intro i j hi hj
    show ∑ k ∈ Finset.range n, cholLow n (potrf pre).buf i k * cholLow n (potrf pre).buf j k = _
    rw [c3 hinfo i j hi hj]
    unfold cholSymLow
    by_cases hij : i ≤ j
    · by_cases hji : j ≤ i
      · have : i = j := by omega
        subst this
        simp only [le_refl, ↓reduceIte, Array.getD_eq_getD_getElem?, h4 i i (le_refl _) hi]
      · simp only [hij, hji, ↓reduceIte, Array.getD_eq_getD_getElem?, h4 j i hij hj]
    · have hji : j ≤ i := by omega
      simp only [hij, hji, ↓reduceIte, Array.getD_eq_getD_getElem?, h4 i j hji hi]
  · intro i j hij hj
    show (potrf pre).buf[i + n * j]? = _
    rw [c2 i j hij hj, h5 i j hij hj]

/-- a `1 × 1` `?potrf` over `Int` that factors exactly the matrix `(4)` -/
def exPotrf1 (pre : Array Int) : PotrfOut Int :=
  if pre.getD 0 0 = 4 then ⟨0, #[2]⟩ else ⟨1, pre⟩

/-- [F] the example routine satisfies the contract (non-vacuity of `PotrfContract`) -/
theorem exPotrf1_contract : PotrfContract 1 exPotrf1 := by
  intro pre hpre
  refine ⟨?_, ?_, ?_⟩
  · unfold exPotrf1; split <;> simp [hpre]
  · intro i j hij hj; omega
  · intro hinfo i j hi hj
    have hi0 : i = 0 := by omega
    have hj0 : j = 0 := by omega
    subst hi0 hj0
    unfold exPotrf1 at hinfo ⊢
    split at hinfo
    · rename_i h4
      simp [h4, cholLow, cholSymLow]
    · simp at hinfo

/-- non-vacuity: `A = (4)`, the contract instance above answers `L = (2)`. -/
example : ∑ k ∈ Finset.range 1, cholLow 1 (#[2] : Array Int) 0 k * cholLow 1 #[2] 0 k = 4 :=
  (cholFactor_contract (⟨1, 1, #[0]⟩ : Dense Int) ⟨1, 1, #[4]⟩ exPotrf1 1 rfl rfl rfl rfl rfl rfl
    (by decide) exPotrf1_contract ⟨1, 1, #[2]⟩ (by rfl)).2.2.2.1 0 0 (by decide) (by decide)

end contract

/-! #### the channel's instantiation `potrfObserved` -/

/-- [S] `info` is the observed one -/
theorem potrfObserved_info (n : Nat) (info : Int) (res pre : Array α) :
    (potrfObserved n info res pre).info = info := rfl

/-- [S] `potrfObserved` keeps the buffer length -/
theorem potrfObserved_size (n : Nat) (info : Int) (res pre : Array α) :
    (potrfObserved n info res pre).buf.size = pre.size := by
  simp [potrfObserved]

/-- [S] entry `k` of the observed buffer -/
theorem potrfObserved_getElem? (n : Nat) (info : Int) (res pre : Array α) (k : Nat) :
    (potrfObserved n info res pre).buf[k]? =
      pre[k]?.map (fun e => if k / n ≤ k % n then res[k]?.getD e else e) := by
  simp only [potrfObserved, List.getElem?_toArray, List.getElem?_map, List.getElem?_zipIdx,
    Array.getElem?_toList, Nat.zero_add, Option.map_map]
  cases hp : pre[k]? with
  | none => rfl
  | some x =>
    cases hr : res[k]? with
    | none => simp [hr]
    | some y => simp [hr]

/-- [S] `potrfObserved` does not touch the strictly upper triangle (the "upper untouched"
part of `PotrfContract`, for every `res`) -/
theorem potrfObserved_upper (n : Nat) (info : Int) (res pre : Array α) {i j : Nat}
    (hij : i < j) (hj : j < n) :
    (potrfObserved n info res pre).buf[i + n * j]? = pre[i + n * j]? := by
  rw [potrfObserved_getElem?, lin_mod (by omega : i < n), lin_div (by omega : i < n)]
  have hn : ¬ j ≤ i := by omega
  simp [hn]

/-- [S] the lower triangle of the observed buffer is the implementation's -/
theorem potrfObserved_lower (n : Nat) (info : Int) (res pre : Array α) {i j : Nat}
    (hr : res.size = n * n) (hpre : pre.size = n * n) (hji : j ≤ i) (hi : i < n) :
    (potrfObserved n info res pre).buf[i + n * j]? = res[i + n * j]? := by
  rw [potrfObserved_getElem?, lin_mod hi, lin_div hi]
  have hlt : i + n * j < n * n := lin_lt hi (by omega)
  have h1 : i + n * j < res.size := by rw [hr]; exact hlt
  have h2 : i + n * j < pre.size := by rw [hpre]; exact hlt
  simp [hji, h1, h2]

example : (potrfObserved 2 0 (#[2, 1, 99, 3] : Array Int) #[4, 2, 7, 5]).buf = #[2, 1, 7, 3] := by
  rfl
example : (potrfObserved 2 0 (#[2, 1, 99, 3] : Array Int) #[4, 2, 7, 5]).buf[0 + 2 * 1]? = some 7 :=
  potrfObserved_upper 2 0 #[2, 1, 99, 3] #[4, 2, 7, 5] (by decide) (by decide)
example : (potrfObserved 2 0 (#[2, 1, 99, 3] : Array Int) #[4, 2, 7, 5]).buf[1 + 2 * 0]? = some 1 :=
  potrfObserved_lower 2 0 #[2, 1, 99, 3] #[4, 2, 7, 5] rfl rfl (by decide) (by decide)

/-- [S] `factor` with the channel's `?potrf` (`info` and lower triangle as observed on the
implementation): the engine's `L` afterwards has the observed lower triangle and the engine's
previous (stale) entries strictly above the diagonal; the result is `Cholesky(info)` iff
`info ≠ 0`. -/
theorem cholFactor_observed (L A : Dense α) (n : Nat) (info : Int) (res : Array α)
    (hL : WF L) (hA : WF A) (hLm : L.m = n) (hLn : L.n = n) (hAm : A.m = n) (hAn : A.n = n)
    (hn : 0 < n) (hr : res.size = n * n) :
    ∃ L', cholFactor L A (potrfObserved n info res) =
        .ok (L', if info ≠ 0 then some (.cholesky info) else none) ∧
      L'.m = n ∧ L'.n = n ∧ WF L' ∧
      (∀ i j, j ≤ i → i < n → L'.data[i + n * j]? = res[i + n * j]?) ∧
      (∀ i j, i < j → j < n → L'.data[i + n * j]? = L.data[i + n * j]?) := by
  obtain ⟨ws, pre, _, _, hsz, h, _, h5⟩ := cholFactor_run L A (potrfObserved n info res) n hL hA
    hLm hLn hAm hAn hn (fun buf => potrfObserved_size n info res buf)
  refine ⟨_, h, hLm, hLn, ?_, ?_, ?_⟩
  · show (potrfObserved n info res pre).buf.size = L.m * L.n
    rw [potrfObserved_size, hsz, hLm, hLn]
  · intro i j hji hi
    exact potrfObserved_lower n info res pre hr hsz hji hi
  · intro i j hij hj
    show (potrfObserved n info res pre).buf[i + n * j]? = _
    rw [potrfObserved_upper n info res pre hij hj, h5 i j hij hj]

example : ∃ L', cholFactor (⟨2, 2, #[0, 0, 7, 0]⟩ : Dense Int) ⟨2, 2, #[4, 9, 2, 5]⟩
      (potrfObserved 2 0 #[2, 1, 99, 2]) = .ok (L', none) ∧ L'.data[2]? = some 7 := by
  obtain ⟨L', h, _, _, _, _, h5⟩ := cholFactor_observed (⟨2, 2, #[0, 0, 7, 0]⟩ : Dense Int)
    ⟨2, 2, #[4, 9, 2, 5]⟩ 2 0 #[2, 1, 99, 2] rfl rfl rfl rfl rfl rfl (by decide) rfl
  exact ⟨L', by simpa using h, h5 0 1 (by decide) (by decide)⟩

/-! ### B. `CholeskyEngine::solve` -/

/-- [S] `solve` with an empty engine: `lda = 0` is illegal, `assert_eq!(info, 0)` fires -/
theorem cholSolve_panic_empty (L B : Dense α) (potrs : Array α → Array α) (h : L.m = 0) :
    cholSolve L B potrs = .error (.panic "potrs: info -5") := by
  unfold cholSolve
  simp [h]
  rfl

/-- [S] `solve` with a right-hand side that has fewer rows than the factor: `ldb < n` is
illegal, the assert fires -/
theorem cholSolve_panic_rows (L B : Dense α) (potrs : Array α → Array α) (h0 : 0 < L.m)
    (h : B.m < L.m) : cholSolve L B potrs = .error (.panic "potrs: info -7") := by
  unfold cholSolve
  have e1 : (L.m == 0) = false := by simp; omega
  simp [e1, h]
  rfl

/-- [S] `solve` otherwise: `B`'s buffer becomes what `?potrs` leaves -/
theorem cholSolve_ok (L B : Dense α) (potrs : Array α → Array α) (h0 : 0 < L.m)
    (h : L.m ≤ B.m) (hL : WF L) (hB : WF B) (hp : (potrs B.data).size = B.data.size) :
    cholSolve L B potrs = .ok { B with data := potrs B.data } := by
  unfold cholSolve
  have e1 : (L.m == 0) = false := by simp; omega
  have e2 : ¬ B.m < L.m := by omega
  have e3 : wf L = true := (wf_iff L).mpr hL
  have e4 : wf B = true := (wf_iff B).mpr hB
  simp [e1, e2, e3, e4, hp]
  rfl

example : cholSolve (⟨0, 0, #[]⟩ : Dense Int) ⟨1, 1, #[3]⟩ id = .error (.panic "potrs: info -5") :=
  cholSolve_panic_empty _ _ _ rfl
example : cholSolve (⟨2, 2, #[1, 0, 0, 1]⟩ : Dense Int) ⟨1, 1, #[3]⟩ id
    = .error (.panic "potrs: info -7") :=
  cholSolve_panic_rows _ _ _ (by decide) (by decide)
example : cholSolve (⟨1, 1, #[2]⟩ : Dense Int) ⟨1, 2, #[3, 4]⟩ (fun _ => #[4, 5])
    = .ok ⟨1, 2, #[4, 5]⟩ :=
  cholSolve_ok (⟨1, 1, #[2]⟩ : Dense Int) ⟨1, 2, #[3, 4]⟩ (fun _ => #[4, 5])
    (by decide) (by decide) rfl rfl rfl

/-! ### C. `CholeskyEngine::logdet` -/

/-- [R] the fold of `logdet` over the first `n` diagonal entries -/
theorem cholLogdet_fold (L : Dense ℝ) (n : Nat) (hn : ∀ i, i < n → i + L.m * i < L.data.size) :
    (List.range n).foldlM (fun (acc : ℝ) i => do
        let v ← get .N L i i
        pure (acc + log v)) (0 : ℝ)
      = .ok (∑ i ∈ Finset.range n, Real.log (L.data.getD (i + L.m * i) 0)) := by
  induction n with
  | zero => rfl
  | succ n ih =>
    rw [List.range_succ, List.foldlM_append, ih (fun i hi => hn i (by omega)), lapack_ok_bind]
    have hlt := hn n (by omega)
    simp only [List.foldlM_cons, List.foldlM_nil, get, indexLinear, getE_ok _ _ _ hlt, lapack_ok_bind,
      Finset.sum_range_succ, real_log_eq, Array.getD, hlt, ↓reduceDIte]
    rfl

/-- [R] `logdet` of a well-formed square engine over ℝ does not panic and is twice the sum of
the logarithms of the diagonal of `L` (`= log det (L Lᵀ)` when the diagonal is positive; the
Rust code takes `ln` of whatever is there). -/
theorem cholLogdet_spec (L : Dense ℝ) (hL : WF L) (hsq : L.m = L.n) :
    cholLogdet L = .ok (2 * ∑ i ∈ Finset.range L.m, Real.log (L.data.getD (i + L.m * i) 0)) := by
  unfold cholLogdet
  rw [cholLogdet_fold L L.m (fun i hi => by rw [hL]; exact lin_lt hi (by omega)), lapack_ok_bind, two_mul]
  rfl

example : cholLogdet (⟨2, 2, #[1, 5, 7, 1]⟩ : Dense ℝ) = .ok 0 := by
  rw [cholLogdet_spec (⟨2, 2, #[1, 5, 7, 1]⟩ : Dense ℝ) (by rfl) rfl]
  simp [Finset.sum_range_succ, Array.getD]

/-! ### D. `EigEngine::syevr` -/

section eig
variable [OfNat α 0]

/-- [S] `syevr` on a non-square matrix or one whose order differs from the engine's:
`IncompatibleDimension`, nothing is touched (in particular `V` is not allocated). -/
theorem eigSyevr_dim (E : EigEngine α) (A : Dense α) (wantV : Bool) (syevr : Array α → SyevrOut α)
    (h : A.m ≠ A.n ∨ A.m ≠ E.lam.size) :
    eigSyevr E A wantV syevr = .ok (E, A, some .incompatibleDimension) := by
  unfold eigSyevr
  have e : (!(A.m == A.n) || A.m != E.lam.size) = true := by
    rcases h with h | h <;> simp [h]
  simp only [e, ↓reduceIte]
  rfl

example : eigSyevr (eigNew 2 : EigEngine Int) ⟨1, 1, #[3]⟩ true (fun a => ⟨0, a, a, a, 1, 1⟩)
    = .ok (eigNew 2, ⟨1, 1, #[3]⟩, some .incompatibleDimension) :=
  eigSyevr_dim _ _ _ _ (Or.inr (by decide))

/-- [S] `syevr` of an empty matrix with an empty engine: the wrapper passes `lda = 0`, the
workspace query reports argument 6 — the result is `Eigen(-6)`, `A` is unchanged, and `V` has
already been allocated (as `zeros 0 0`) iff eigenvectors were requested for the first time. -/
theorem eigSyevr_empty (E : EigEngine α) (A : Dense α) (wantV : Bool) (syevr : Array α → SyevrOut α)
    (hsq : A.m = A.n) (hl : A.m = E.lam.size) (h0 : A.m = 0) :
    eigSyevr E A wantV syevr =
      .ok (if wantV && E.V.isNone then { E with V := some (zeros 0 0) } else E, A,
        some (.eigen (-6))) := by
  unfold eigSyevr
  have e : (!(A.m == A.n) || A.m != E.lam.size) = false := by simp [← hsq, ← hl]
  simp only [e, Bool.false_eq_true, ↓reduceIte]
  simp only [h0, beq_self_eq_true, ↓reduceIte]
  rfl

example : eigSyevr (eigNew 0 : EigEngine Int) ⟨0, 0, #[]⟩ true (fun a => ⟨0, a, a, a, 1, 1⟩)
    = .ok ({ (eigNew 0 : EigEngine Int) with V := some (zeros 0 0) }, ⟨0, 0, #[]⟩,
        some (.eigen (-6))) :=
  eigSyevr_empty _ _ _ _ rfl rfl rfl

/-- [S] `syevr` on a well-formed square matrix of the engine's order `n > 0`, relative to a
`?syevr` that keeps the lengths of `a` and `w`: the result is `Eigen(info)` iff `info ≠ 0`;
`λ`, the work lengths and `A`'s buffer are LAPACK's; with `wantV` the engine's `V` (allocated
as `zeros n n` on the first request, kept with its shape afterwards) receives `z`; without
`wantV` the field `V` is unchanged. -/
theorem eigSyevr_run (E : EigEngine α) (A : Dense α) (wantV : Bool) (syevr : Array α → SyevrOut α)
    (hsq : A.m = A.n) (hl : A.m = E.lam.size) (h0 : 0 < A.m) (hA : WF A)
    (ha : (syevr A.data).a.size = A.data.size) (hw : (syevr A.data).w.size = E.lam.size) :
    eigSyevr E A wantV syevr =
      .ok ({ lam := (syevr A.data).w,
             V := if wantV then
                 some { (E.V.getD (zeros A.m A.m)) with data := (syevr A.data).z }
               else E.V,
             isuppzLen := E.isuppzLen,
             workLen := (syevr A.data).lwork,
             iworkLen := (syevr A.data).liwork },
           { A with data := (syevr A.data).a },
           if (syevr A.data).info ≠ 0 then some (.eigen (syevr A.data).info) else none) := by
  unfold eigSyevr
  have e : (!(A.m == A.n) || A.m != E.lam.size) = false := by simp [← hsq, ← hl]
  have e0 : (A.m == 0) = false := by simp; omega
  have e1 : wf A = true := (wf_iff A).mpr hA
  have e2 : ((syevr A.data).a.size != A.data.size || (syevr A.data).w.size != E.lam.size) = false := by
    simp [ha, hw]
  obtain ⟨lam, V, il, wl, iwl⟩ := E
  cases wantV <;> cases V <;>
    simp [e, e0, e1, e2, pure, Except.pure]

example : eigSyevr (eigNew 1 : EigEngine Int) ⟨1, 1, #[3]⟩ true (fun a => ⟨0, a, #[3], #[1], 26, 10⟩)
    = .ok (⟨#[3], some ⟨1, 1, #[1]⟩, 2, 26, 10⟩, ⟨1, 1, #[3]⟩, none) :=
  eigSyevr_run (eigNew 1 : EigEngine Int) ⟨1, 1, #[3]⟩ true (fun a => ⟨0, a, #[3], #[1], 26, 10⟩)
    rfl rfl (by decide) rfl rfl rfl

end eig

/-! ### E. `SVDEngine` -/

section svd
variable [OfNat α 0]

/-- [S] `Matrix::zeros` is well formed -/
theorem lapack_zeros_WF (m n : Nat) : WF (zeros m n : Dense α) := by
  simp [WF, zeros]

/-- [S] `Matrix::resize` gives a well-formed matrix whatever it started from -/
theorem lapack_resize_WF (A : Dense α) (m n : Nat) : WF (resize A m n) := by
  simp only [WF, resize, List.size_toArray, List.length_append, List.length_take,
    Array.length_toList, List.length_replicate]
  omega

/-- [S] `SVDEngine::new((m, n))`: `k = min m n` singular values, `U` is `m × k`, `Vt` is
`k × n`, both well formed; divide and conquer is the default algorithm. -/
theorem svdNew_shape (m n : Nat) :
    (svdNew m n : SvdEngine α).s.size = min m n ∧
    (svdNew m n : SvdEngine α).U.m = m ∧ (svdNew m n : SvdEngine α).U.n = min m n ∧
    (svdNew m n : SvdEngine α).Vt.m = min m n ∧ (svdNew m n : SvdEngine α).Vt.n = n ∧
    WF (svdNew m n : SvdEngine α).U ∧ WF (svdNew m n : SvdEngine α).Vt ∧
    (svdNew m n : SvdEngine α).qr = false :=
  ⟨by simp [svdNew], rfl, rfl, rfl, rfl, lapack_zeros_WF _ _, lapack_zeros_WF _ _, rfl⟩

/-- [S] `SVDEngine::resize((m, n))` from any state gives the shapes of `new((m, n))` -/
theorem svdResize_shape (E : SvdEngine α) (m n : Nat) :
    (svdResize E m n).s.size = min m n ∧
    (svdResize E m n).U.m = m ∧ (svdResize E m n).U.n = min m n ∧
    (svdResize E m n).Vt.m = min m n ∧ (svdResize E m n).Vt.n = n ∧
    WF (svdResize E m n).U ∧ WF (svdResize E m n).Vt ∧
    (svdResize E m n).qr = E.qr := by
  refine ⟨?_, rfl, rfl, rfl, rfl, lapack_resize_WF _ _ _, lapack_resize_WF _ _ _, rfl⟩
  simp only [svdResize, List.size_toArray, List.length_append, List.length_take,
    Array.length_toList, List.length_replicate]
  omega

example : (svdResize (svdNew 3 2 : SvdEngine Int) 1 4).s.size = 1 ∧
    WF (svdResize (svdNew 3 2 : SvdEngine Int) 1 4).U :=
  ⟨(svdResize_shape _ 1 4).1, (svdResize_shape _ 1 4).2.2.2.2.2.1⟩

end svd

/-- [S] `factor` with an engine of another shape: `IncompatibleDimension`, nothing touched -/
theorem svdFactor_dim (E : SvdEngine α) (A : Dense α) (gesvd : Array α → GesvdOut α)
    (h : E.U.m ≠ A.m ∨ E.Vt.n ≠ A.n) :
    svdFactor E A gesvd = .ok (E, A, some .incompatibleDimension) := by
  unfold svdFactor
  have e : (E.U.m != A.m || E.Vt.n != A.n) = true := by
    rcases h with h | h <;> simp [h]
  simp only [e, ↓reduceIte]
  rfl

example : svdFactor (svdNew 2 2 : SvdEngine Int) ⟨1, 2, #[3, 4]⟩ (fun a => ⟨0, a, a, a, a, 1⟩)
    = .ok (svdNew 2 2, ⟨1, 2, #[3, 4]⟩, some .incompatibleDimension) :=
  svdFactor_dim _ _ _ (Or.inl (by decide))

/-- [S] `factor` of a matrix without rows: the wrapper passes `lda = 0`; LAPACK reports
argument 5 (`?gesdd`) / 6 (`?gesvd`).  `iwork` has already been resized (to length 0) on the
divide-and-conquer path. -/
theorem svdFactor_norows (E : SvdEngine α) (A : Dense α) (gesvd : Array α → GesvdOut α)
    (hU : E.U.m = A.m) (hVt : E.Vt.n = A.n) (h0 : A.m = 0) :
    svdFactor E A gesvd =
      .ok (if E.qr then E else { E with iworkLen := 0 }, A,
        some (.svd (if E.qr then -6 else -5))) := by
  unfold svdFactor
  have e : (E.U.m != A.m || E.Vt.n != A.n) = false := by simp [hU, hVt]
  simp only [e, Bool.false_eq_true, ↓reduceIte]
  simp only [h0, beq_self_eq_true, ↓reduceIte, Nat.zero_min, Nat.mul_zero]
  obtain ⟨s, U, Vt, qr, wl, iwl⟩ := E
  cases qr <;> rfl

example : svdFactor (svdNew 0 2 : SvdEngine Int) ⟨0, 2, #[]⟩ (fun a => ⟨0, a, a, a, a, 1⟩)
    = .ok ({ (svdNew 0 2 : SvdEngine Int) with iworkLen := 0 }, ⟨0, 2, #[]⟩, some (.svd (-5))) :=
  svdFactor_norows _ _ _ rfl rfl rfl

/-- [S] `factor` of a matrix with rows but without columns: `ldvt = min(m, n) = 0`; LAPACK
reports argument 10 (`?gesdd`) / 11 (`?gesvd`). -/
theorem svdFactor_nocols (E : SvdEngine α) (A : Dense α) (gesvd : Array α → GesvdOut α)
    (hU : E.U.m = A.m) (hVt : E.Vt.n = A.n) (hm : 0 < A.m) (h0 : A.n = 0) :
    svdFactor E A gesvd =
      .ok (if E.qr then E else { E with iworkLen := 0 }, A,
        some (.svd (if E.qr then -11 else -10))) := by
  unfold svdFactor
  have e : (E.U.m != A.m || E.Vt.n != A.n) = false := by simp [hU, hVt]
  have em : (A.m == 0) = false := by simp; omega
  simp only [e, em, Bool.false_eq_true, ↓reduceIte]
  simp only [h0, beq_self_eq_true, ↓reduceIte, Nat.min_zero, Nat.mul_zero]
  obtain ⟨s, U, Vt, qr, wl, iwl⟩ := E
  cases qr <;> rfl

example : svdFactor ({ (svdNew 2 0 : SvdEngine Int) with qr := true }) ⟨2, 0, #[]⟩
      (fun a => ⟨0, a, a, a, a, 1⟩)
    = .ok ({ (svdNew 2 0 : SvdEngine Int) with qr := true }, ⟨2, 0, #[]⟩, some (.svd (-11))) :=
  svdFactor_nocols _ _ _ rfl rfl (by decide) rfl

/-- [S] `factor` of a well-formed non-empty matrix with a well-formed engine of its shape,
relative to a `?gesdd`/`?gesvd` that keeps the buffer lengths: the result is `SVD(info)` iff
`info ≠ 0`; `s`, `U`, `Vt`, the work length and `A`'s buffer are LAPACK's (shapes kept);
`iwork` has length `8·min(m, n)` on the divide-and-conquer path and is untouched with `qr`. -/
theorem svdFactor_run (E : SvdEngine α) (A : Dense α) (gesvd : Array α → GesvdOut α)
    (hU : E.U.m = A.m) (hVt : E.Vt.n = A.n) (hm : 0 < A.m) (hn : 0 < A.n)
    (hA : WF A) (hEU : WF E.U) (hEVt : WF E.Vt) (hs : E.s.size = min A.m A.n)
    (ha : (gesvd A.data).a.size = A.data.size) (hos : (gesvd A.data).s.size = E.s.size)
    (hu : (gesvd A.data).u.size = E.U.data.size) (hvt : (gesvd A.data).vt.size = E.Vt.data.size) :
    svdFactor E A gesvd =
      .ok ({ s := (gesvd A.data).s,
             U := { E.U with data := (gesvd A.data).u },
             Vt := { E.Vt with data := (gesvd A.data).vt },
             qr := E.qr,
             workLen := (gesvd A.data).lwork,
             iworkLen := if E.qr then E.iworkLen else 8 * min A.m A.n },
           { A with data := (gesvd A.data).a },
           if (gesvd A.data).info ≠ 0 then some (.svd (gesvd A.data).info) else none) := by
  unfold svdFactor
  have e : (E.U.m != A.m || E.Vt.n != A.n) = false := by simp [hU, hVt]
  have em : (A.m == 0) = false := by simp; omega
  have en : (A.n == 0) = false := by simp; omega
  have e1 : wf A = true := (wf_iff A).mpr hA
  have e2 : wf E.U = true := (wf_iff _).mpr hEU
  have e3 : wf E.Vt = true := (wf_iff _).mpr hEVt
  obtain ⟨s, U, Vt, qr, wl, iwl⟩ := E
  cases qr <;>
    simp [e, em, en, e1, e2, e3, hs, ha, hos, hu, hvt, pure, Except.pure]

example : svdFactor (svdNew 1 1 : SvdEngine Int) ⟨1, 1, #[-3]⟩ (fun a => ⟨0, a, #[3], #[-1], #[1], 7⟩)
    = .ok (⟨#[3], ⟨1, 1, #[-1]⟩, ⟨1, 1, #[1]⟩, false, 7, 8⟩, ⟨1, 1, #[-3]⟩, none) :=
  svdFactor_run (svdNew 1 1 : SvdEngine Int) ⟨1, 1, #[-3]⟩ (fun a => ⟨0, a, #[3], #[-1], #[1], 7⟩)
    rfl rfl (by decide) (by decide) rfl (by rfl) (by rfl) (by rfl) rfl rfl rfl rfl

/-! ### F. `LuSolver::lusolve` -/

/-- [S] `lusolve` with a non-square `A` or a `B` with another number of rows:
`IncompatibleDimension`, `ipiv` is not resized. -/
theorem luSolve_dim (A B : Dense α) (ipiv : Array Int) (gesv : Array α → Array α → GesvOut α)
    (h : A.m ≠ A.n ∨ A.n ≠ B.m) :
    luSolve A B ipiv gesv = .ok (A, B, ipiv, some .incompatibleDimension) := by
  unfold luSolve
  have e : (!(A.m == A.n) || A.n != B.m) = true := by
    rcases h with h | h <;> simp [h]
  simp only [e, ↓reduceIte]
  rfl

example : luSolve (⟨2, 2, #[1, 0, 0, 1]⟩ : Dense Int) ⟨1, 1, #[5]⟩ #[7] (fun a b => ⟨0, a, b, #[]⟩)
    = .ok (⟨2, 2, #[1, 0, 0, 1]⟩, ⟨1, 1, #[5]⟩, #[7], some .incompatibleDimension) :=
  luSolve_dim _ _ _ _ (Or.inr (by decide))

/-- [S] `lusolve` of an empty system: `ipiv` is resized to length 0, the wrapper passes
`lda = 0`, LAPACK reports argument 4 — `LU(-4)`. -/
theorem luSolve_empty (A B : Dense α) (ipiv : Array Int) (gesv : Array α → Array α → GesvOut α)
    (hsq : A.m = A.n) (hB : A.n = B.m) (h0 : A.m = 0) :
    luSolve A B ipiv gesv = .ok (A, B, #[], some (.lu (-4))) := by
  unfold luSolve
  have e : (!(A.m == A.n) || A.n != B.m) = false := by simp [← hsq, ← hB]
  simp only [e, Bool.false_eq_true, ↓reduceIte]
  simp only [h0, beq_self_eq_true, ↓reduceIte, List.take_zero, Nat.zero_sub, List.replicate_zero,
    List.append_nil]
  rfl

example : luSolve (⟨0, 0, #[]⟩ : Dense Int) ⟨0, 3, #[]⟩ #[7, 8] (fun a b => ⟨0, a, b, #[]⟩)
    = .ok (⟨0, 0, #[]⟩, ⟨0, 3, #[]⟩, #[], some (.lu (-4))) :=
  luSolve_empty _ _ _ _ rfl rfl rfl

/-- [S] `lusolve` of a well-formed square system of order `n > 0`, relative to a `?gesv` that
keeps the buffer lengths and returns `n` pivots: the result is `LU(info)` iff `info ≠ 0`; the
buffers of `A` (the factors), of `B` (the solution) and `ipiv` are LAPACK's. -/
theorem luSolve_run (A B : Dense α) (ipiv : Array Int) (gesv : Array α → Array α → GesvOut α)
    (hsq : A.m = A.n) (hB : A.n = B.m) (h0 : 0 < A.m) (hA : WF A) (hBw : WF B)
    (ha : (gesv A.data B.data).a.size = A.data.size)
    (hb : (gesv A.data B.data).b.size = B.data.size)
    (hp : (gesv A.data B.data).ipiv.size = A.m) :
    luSolve A B ipiv gesv =
      .ok ({ A with data := (gesv A.data B.data).a }, { B with data := (gesv A.data B.data).b },
        (gesv A.data B.data).ipiv,
        if (gesv A.data B.data).info ≠ 0 then some (.lu (gesv A.data B.data).info) else none) := by
  unfold luSolve
  have e : (!(A.m == A.n) || A.n != B.m) = false := by simp [← hsq, ← hB]
  have e0 : (A.m == 0) = false := by simp; omega
  have e1 : wf A = true := (wf_iff A).mpr hA
  have e2 : wf B = true := (wf_iff B).mpr hBw
  simp [e, e0, e1, e2, ha, hb, hp, pure, Except.pure]

example : luSolve (⟨1, 1, #[2]⟩ : Dense Int) ⟨1, 1, #[6]⟩ #[] (fun a _ => ⟨0, a, #[3], #[1]⟩)
    = .ok (⟨1, 1, #[2]⟩, ⟨1, 1, #[3]⟩, #[1], none) :=
  luSolve_run (⟨1, 1, #[2]⟩ : Dense Int) ⟨1, 1, #[6]⟩ #[] (fun a _ => ⟨0, a, #[3], #[1]⟩)
    rfl rfl (by decide) rfl rfl rfl rfl rfl

/-! ### G. `SVDEngine::solve`: the asserts and the read of `s[0]` -/

section svdsolve
variable [Add α] [Mul α] [Div α] [OfNat α 0] [OfNat α 1] [BEq α] [LT α] [DecidableLT α]
  [FloatLike α]

/-- [S] `solve` with a non-square engine: `assert_eq!(m, n)` fires -/
theorem svdSolve_panic_square (E : SvdEngine α) (B : Dense α) (h : E.U.m ≠ E.Vt.n) :
    svdSolve E B = .error (.panic "svd solve: assert_eq m n") := by
  unfold svdSolve
  have e : (E.U.m != E.Vt.n) = true := by simp [h]
  simp only [e, ↓reduceIte]
  rfl

/-- [S] `solve` with a right-hand side of another height: `assert_eq!(B.nrows(), m)` fires -/
theorem svdSolve_panic_rows (E : SvdEngine α) (B : Dense α) (h : E.U.m = E.Vt.n)
    (hB : B.m ≠ E.U.m) :
    svdSolve E B = .error (.panic "svd solve: assert_eq B.nrows") := by
  unfold svdSolve
  have e : (E.U.m != E.Vt.n) = false := by simp [h]
  have e2 : (B.m != E.U.m) = true := by simp [hB]
  simp only [e, e2, Bool.false_eq_true, ↓reduceIte]
  rfl

/-- [S] `solve` with an engine that holds no singular value (`new((0, 0))`, or resized to
it) and a right-hand side without rows: the asserts pass and the tolerance reads `s[0]` —
index out of bounds. -/
theorem svdSolve_panic_empty (E : SvdEngine α) (B : Dense α) (h : E.U.m = E.Vt.n)
    (hB : B.m = E.U.m) (hs : E.s.size = min E.U.m E.Vt.n) (h0 : E.s.size = 0) :
    svdSolve E B = .error (.panic "s[0]") := by
  unfold svdSolve
  have e : (E.U.m != E.Vt.n) = false := by simp [h]
  have e2 : (B.m != E.U.m) = false := by simp [hB]
  have e3 : (E.s.size != min E.U.m E.Vt.n) = false := by simp [hs]
  simp only [e, e2, e3, Bool.false_eq_true, ↓reduceIte, getE_panic E.s 0 "s[0]" (by omega)]
  rfl

end svdsolve

example : svdSolve (svdNew 2 3 : SvdEngine ℝ) ⟨2, 1, #[1, 1]⟩
    = .error (.panic "svd solve: assert_eq m n") :=
  svdSolve_panic_square _ _ (by show (2 : Nat) ≠ 3; decide)
example : svdSolve (svdNew 2 2 : SvdEngine ℝ) ⟨1, 1, #[1]⟩
    = .error (.panic "svd solve: assert_eq B.nrows") :=
  svdSolve_panic_rows _ _ rfl (by show (1 : Nat) ≠ 2; decide)
example : svdSolve (svdNew 0 0 : SvdEngine ℝ) ⟨0, 1, #[]⟩ = .error (.panic "s[0]") :=
  svdSolve_panic_empty _ _ rfl rfl (by simp [svdNew, zeros]) (by simp [svdNew])

end Clarabel.Dense
