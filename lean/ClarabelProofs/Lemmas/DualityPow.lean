/-
  C05 (weak duality): pairing nonnegativity `⟨s,z⟩ ≥ 0` for `s` in the (closed) 3-dimensional
  power cone `K_a = {(x,y,z) : x^a·y^(1-a) ≥ |z|, x,y ≥ 0}` of
  `src/solver/core/cones/powcone.rs` and `z` in its dual
  `K_a* = {(u,v,w) : (u/a)^a·(v/(1-a))^(1-a) ≥ |w|, u,v ≥ 0}`, `0 < a < 1`
  — by the weighted AM–GM inequality.  Helper lemmas for `Props/C05Cones.lean`.
-/
import Mathlib.Analysis.MeanInequalities

namespace Clarabel.Lemmas

/-- membership in the closed power cone `K_a` (all of it, boundary included) -/
def PowK (a x y z : ℝ) : Prop := 0 ≤ x ∧ 0 ≤ y ∧ |z| ≤ x ^ a * y ^ (1 - a)

/-- membership in the closed dual power cone `K_a*` -/
def PowKdual (a u v w : ℝ) : Prop :=
  0 ≤ u ∧ 0 ≤ v ∧ |w| ≤ (u / a) ^ a * (v / (1 - a)) ^ (1 - a)

/-- weighted AM–GM in the form used for the power cone:
`x^a y^(1-a) · (u/a)^a (v/(1-a))^(1-a) ≤ x u + y v` -/
theorem pow_geo_le_pair {a x y u v : ℝ} (ha0 : 0 < a) (ha1 : a < 1) (hx : 0 ≤ x) (hy : 0 ≤ y)
    (hu : 0 ≤ u) (hv : 0 ≤ v) :
    x ^ a * y ^ (1 - a) * ((u / a) ^ a * (v / (1 - a)) ^ (1 - a)) ≤ x * u + y * v := by
  have h1a : 0 < 1 - a := by linarith
  have hua : 0 ≤ u / a := div_nonneg hu ha0.le
  have hva : 0 ≤ v / (1 - a) := div_nonneg hv h1a.le
  have hP : x ^ a * y ^ (1 - a) * ((u / a) ^ a * (v / (1 - a)) ^ (1 - a))
      = (x * (u / a)) ^ a * (y * (v / (1 - a))) ^ (1 - a) := by
    rw [Real.mul_rpow hx hua, Real.mul_rpow hy hva]; ring
  have amgm := Real.geom_mean_le_arith_mean2_weighted ha0.le h1a.le (mul_nonneg hx hua)
    (mul_nonneg hy hva) (by ring : a + (1 - a) = 1)
  have hlin : a * (x * (u / a)) + (1 - a) * (y * (v / (1 - a))) = x * u + y * v := by
    have h1 : a * (x * (u / a)) = x * u := by field_simp
    have h2 : (1 - a) * (y * (v / (1 - a))) = y * v := by
      have hne : (1 - a) ≠ 0 := h1a.ne'
      field_simp
    rw [h1, h2]
  rw [hP]
  linarith

/-- [R] `s ∈ K_a`, `z ∈ K_a*` ⟹ `⟨s,z⟩ ≥ 0` for the closed power cone -/
theorem pow_pair_nonneg {a x y z u v w : ℝ} (ha0 : 0 < a) (ha1 : a < 1) (hs : PowK a x y z)
    (hz : PowKdual a u v w) : 0 ≤ x * u + y * v + z * w := by
  obtain ⟨hx, hy, hs⟩ := hs
  obtain ⟨hu, hv, hd⟩ := hz
  have hgeo := pow_geo_le_pair ha0 ha1 hx hy hu hv
  have hzw : |z * w| ≤ x ^ a * y ^ (1 - a) * ((u / a) ^ a * (v / (1 - a)) ^ (1 - a)) := by
    rw [abs_mul]
    exact mul_le_mul hs hd (abs_nonneg _) (le_trans (abs_nonneg _) hs)
  have := neg_abs_le (z * w)
  linarith

end Clarabel.Lemmas
