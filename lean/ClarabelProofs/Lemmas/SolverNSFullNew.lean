/-
  Composition on the whole-solver model WITH NONSYMMETRIC CONES (`ClarabelModel/SolverNS/*.lean`) —
  the anatomy of `DefaultSolver::new` (counterpart of `Lemmas/SolverFullNew.lean`,
  `SizedSt.of_anatomy` / `SizedSt.of_new` of `Lemmas/SolverFullDefs.lean` and `srec_chain` of
  `Lemmas/SolverFullUser.lean` for the first model).

  `Solver.new P q A b cones st perm = .ok S` unfolded ONCE into the facts the end-to-end compositions
  (`C01.ns_full_*`, `C02.ns_full_*`, `C03.ns_full_*`) start from: the un-equilibrated problem data
  `d0 = DefaultProblemData::new(…)`, `S.st.data = equilibrate d0`, the composite cone built by the NS
  `make_cone` from `d0.cones` and covering the `m` rows, the vectors of the solver state as
  `DefaultVariables::new(n, m)` / `DefaultResiduals::new(n, m)` allocate them.

  Everything about `ProblemData.new` (`Solver.userData_of_new`, `Solver.problemDataNew_off`,
  `Solver.problemDataNew_fresh`, `Solver.presolveMap_of_off`, `Solver.InputOK`) is shared with the
  first model (imported through `Lemmas/SolverFullUser.lean`).

  `NewAnatomyN`, `solverNew_anatomyN`, `SizedN.of_*` are structural ([S]): every scalar type, `Float`
  included.  `srec_chainN` is over ℝ (the cached norms are the user's).
-/
import ClarabelProofs.Lemmas.SolverNSFullDefs
import ClarabelProofs.Lemmas.SolverNSNoPanicNew
import ClarabelProofs.Lemmas.SolverNSLoop
import ClarabelProofs.Lemmas.SolverFullUser

namespace Clarabel.SolverNS
open Clarabel Info Residuals Clarabel.InfoUser
open Clarabel.Solver (bind_ok_inv VarsSized ResidSized varsNew residNew equilView equilibrate_dim)

set_option linter.unusedSectionVars false
set_option linter.unusedVariables false

variable {α : Type}

section
variable [Add α] [Sub α] [Mul α] [Div α] [Neg α] [LT α] [LE α] [DecidableLT α] [DecidableLE α]
  [BEq α] [OfNat α 0] [OfNat α 1] [OfNat α 2] [OfNat α 3] [OfNat α 4] [OfNat α 100] [OfNat α 1000]
  [OfScientific α] [FloatLike α]

/-- what `DefaultSolver::new … = .ok S` says (model with nonsymmetric cones), piece by piece -/
structure NewAnatomyN (P : Csc α) (q : Array α) (A : Csc α) (b : Array α) (cones : List (ConeT α))
    (st : Settings α) (S : Solver α) (d0 : ProblemData α) : Prop where
  /-- `_check_dimensions` passed -/
  dims : Loop.checkDimensions P.m P.n q.size A.m A.n b.size (cones.map ConeT.nvars) = .ok ()
  /-- `DefaultProblemData::new` (collapse, presolve, cap of `b`; identity equilibration) -/
  pdata : ProblemData.new P q A b cones st.presolveEnable false st.infbound = .ok d0
  /-- `equilibrate` on the cones of the internal problem -/
  equil : Equil.equilibrate d0 d0.cones st.equil = .ok S.st.data
  cones : makeCones d0.cones = .ok S.st.cones
  numel : numelAll S.st.cones = d0.m
  m : S.st.data.m = d0.m
  n : S.st.data.n = d0.n
  dcones : S.st.data.cones = d0.cones
  /-- `variables` (the name `variables` is a reserved token once Mathlib is imported) -/
  vars0 : S.st.variables = varsNew S.st.data.n S.st.data.m
  residuals : S.st.residuals = residNew S.st.data.n S.st.data.m
  stepLhs : S.st.stepLhs = varsNew S.st.data.n S.st.data.m
  stepRhs : S.st.stepRhs = varsNew S.st.data.n S.st.data.m
  prevVars : S.st.prevVars = varsNew S.st.data.n S.st.data.m
  solution : S.solution = Unscale.Solution.new A.n A.m
  conesFull : ConesFull S.st.cones

/-- [S] the anatomy of `DefaultSolver::new` -/
theorem solverNew_anatomyN {P : Csc α} {q : Array α} {A : Csc α} {b : Array α} {cones : List (ConeT α)}
    {st : Settings α} {perm : Array Nat} {S : Solver α} (h : Solver.new P q A b cones st perm = .ok S) :
    ∃ d0, NewAnatomyN P q A b cones st S d0 := by
  unfold Solver.new at h
  obtain ⟨u, hdim, h⟩ := bind_ok_inv h
  cases u
  obtain ⟨S0, hS0, h⟩ := bind_ok_inv h
  cases h
  unfold SolverSt.new at hS0
  obtain ⟨data, hd, hS0⟩ := bind_ok_inv hS0
  obtain ⟨K, hK, hS0⟩ := bind_ok_inv hS0
  obtain ⟨ks, hks, hS0⟩ := bind_ok_inv hS0
  cases hS0
  unfold internalData at hd
  obtain ⟨d0, hd0, hd⟩ := bind_ok_inv hd
  obtain ⟨K0, hK0, hd⟩ := bind_ok_inv hd
  split at hd
  · cases hd
  rename_i hg
  dsimp only at hd
  obtain ⟨e1, e2, e3⟩ := equilibrate_dim hd
  rw [e1, hK0] at hK
  cases hK
  have hm : numelAll K = d0.m := by simpa using hg
  exact ⟨d0, hdim, hd0, hd, hK0, hm, e2, e3, e1, rfl, rfl, rfl, rfl, rfl, rfl, makeCones_fullN hK0⟩

/-- [S] the solver object `DefaultSolver::new` returns is sized -/
theorem SizedN.of_anatomy {P : Csc α} {q : Array α} {A : Csc α} {b : Array α} {cones : List (ConeT α)}
    {st : Settings α} {S : Solver α} {d0 : ProblemData α} (h : NewAnatomyN P q A b cones st S d0) :
    SizedN S.st := by
  refine ⟨?_, ?_, ?_, h.conesFull⟩
  · rw [h.vars0]
    exact ⟨Array.size_replicate .., Array.size_replicate .., Array.size_replicate ..⟩
  · rw [h.residuals]
    exact ⟨Array.size_replicate .., Array.size_replicate .., Array.size_replicate ..,
      Array.size_replicate .., Array.size_replicate ..⟩
  · rw [h.numel, h.m]

theorem SizedN.of_new {P : Csc α} {q : Array α} {A : Csc α} {b : Array α} {cones : List (ConeT α)}
    {st : Settings α} {perm : Array Nat} {S : Solver α} (h : Solver.new P q A b cones st perm = .ok S) :
    SizedN S.st :=
  let ⟨_, hA⟩ := solverNew_anatomyN h
  SizedN.of_anatomy hA

/-- with presolve off the internal problem of the solver object has the user's dimensions, the user's
(collapsed) cone list and no presolver row map -/
theorem NewAnatomyN.off {P : Csc α} {q : Array α} {A : Csc α} {b : Array α} {cones : List (ConeT α)}
    {st : Settings α} {S : Solver α} {d0 : ProblemData α} (h : NewAnatomyN P q A b cones st S d0)
    (hpe : st.presolveEnable = false) :
    S.st.data.n = A.n ∧ S.st.data.m = A.m ∧ S.st.data.cones = Cones.newCollapsed cones
      ∧ d0.presolver = none := by
  have hp := h.pdata
  rw [hpe] at hp
  obtain ⟨-, -, -, hc, hn, hm, hpre, -⟩ := Solver.problemDataNew_off hp
  exact ⟨by rw [h.n, hn], by rw [h.m, hm], by rw [h.dcones, hc], hpre⟩

end

/-! ### over ℝ: the chain hypotheses -/

/-- **a sized pass record is an instance of the chain on the user's data** (model with nonsymmetric
cones): the hypotheses of `InfoReport.chain_figures` / `InfoUser.chain_facts` for the iterate `p.vars`,
with the norms `‖b‖∞` (of the capped, possibly row-reduced `b`) and `‖q‖∞` cached by
`DefaultProblemData::new`. -/
theorem srec_chainN {P : Csc ℝ} {q : Array ℝ} {A : Csc ℝ} {b : Array ℝ} {cones : List (ConeT ℝ)}
    {st : Settings ℝ} {S : Solver ℝ} {d0 : ProblemData ℝ} (hA : NewAnatomyN P q A b cones st S d0)
    {p : PassRec ℝ} (hp : SRecN S.st.data p) :
    ∃ (r0 res : Resid ℝ) (i : InfoS ℝ), StateShapes d0.n d0.m p.vars r0
      ∧ Residuals.update r0 p.vars (toResidData S.st.data) = .ok res
      ∧ Info.update i (toInfoEquil S.st.data.equilibration) (Vec.normInf q) (Vec.normInf d0.b) p.vars res
          = .ok p.info
      ∧ p.dotBz = res.dot_bz ∧ p.dotQx = res.dot_qx := by
  obtain ⟨S0, iter, res, mu, hd, hv, hS, htop, hbz, hqx⟩ := hp
  obtain ⟨hnb, hnq⟩ := norms_are_users P q A b cones st.presolveEnable false st.infbound d0 S.st.data
    d0.cones st.equil hA.pdata hA.equil
  unfold topNumerics at htop
  dsimp only at htop
  obtain ⟨res', hres, htop⟩ := bind_ok_inv htop
  obtain ⟨nq, hq, htop⟩ := bind_ok_inv htop
  obtain ⟨nb, hb, htop⟩ := bind_ok_inv htop
  obtain ⟨i1, hi1, htop⟩ := bind_ok_inv htop
  cases htop
  rw [hd] at hres hq hb hi1
  have hq' : nq = Vec.normInf q := by
    have : Info.getNormq S.st.data.normq S.st.data.q (equilView S.st.data.equilibration).dinv
        (equilView S.st.data.equilibration).c = .ok nq := hq
    rw [show (equilView S.st.data.equilibration).dinv = S.st.data.equilibration.dinv from rfl,
      show (equilView S.st.data.equilibration).c = S.st.data.equilibration.c from rfl, hnq] at this
    exact (Except.ok.inj this).symm
  have hb' : nb = Vec.normInf d0.b := by
    have : Info.getNormb S.st.data.normb S.st.data.b (equilView S.st.data.equilibration).einv = .ok nb := hb
    rw [show (equilView S.st.data.equilibration).einv = S.st.data.equilibration.einv from rfl, hnb] at this
    exact (Except.ok.inj this).symm
  subst hq' hb'
  have hn : S0.data.n = d0.n := by rw [hd, hA.n]
  have hm : S0.data.m = d0.m := by rw [hd, hA.m]
  refine ⟨S0.residuals, res, { S0.info with iterations := iter }, ?_, ?_, ?_, hbz, hqx⟩
  · rw [← hv, ← hn, ← hm]
    exact ⟨hS.vars.x, hS.vars.s, hS.vars.z, hS.resid.Px, hS.resid.rx, hS.resid.rz, hS.resid.rx_inf,
      hS.resid.rz_inf⟩
  · rw [← hv]; exact hres
  · rw [← hv]; exact hi1

end Clarabel.SolverNS
