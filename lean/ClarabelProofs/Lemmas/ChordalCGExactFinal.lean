/-
  Clique-graph merge strategy: THE PIPELINE `SparsityPattern::new(·, ·, "clique_graph")` WITHOUT ANY
  HYPOTHESIS ON THE RUN.  The three ingredients of `ChordalCGExactLoop.lean` discharged:

  * `initialise_exact_ok`  : after `initialise` the edge matrix is EXACTLY the reduced clique graph of
    the cliques — its stored entries are exactly the separating pairs (`ChordalCGReducedExact.lean`,
    `ChordalCGExactInit.lean`: both directions of `compute_reduced_clique_graph`, incl. completeness of
    the DFS components);
  * `JT.exact_contract`    : exactness survives a permissible merge (`ChordalJTExact.lean`);
  * `traverse_permissible` : `traverse` only returns candidates that passed `ispermissible`
    (`ChordalCGTraversePerm.lean`).

  Hence every merge merges a separating pair of the current cliques (`cg_mergesSep`), i.e. contracts an
  edge of a junction tree inside the current graph (`cg_mergesOnJT`), the graph at loop exit contains a
  junction tree and the live cliques are an antichain, Kruskal's maximum-weight tree has the
  running-intersection property, the supernodes are pairwise disjoint and non-empty:
  `analysis_cg_valid` (and the two formerly tested links `cgRipB`/`cgNonemptyB` as theorems where they
  are needed, `cg_exit_links`).
-/
import ClarabelProofs.Lemmas.ChordalCGExactLoop
import ClarabelProofs.Lemmas.ChordalJTExact
import ClarabelProofs.Lemmas.ChordalCGExactInit
import ClarabelProofs.Lemmas.ChordalCGTraversePerm

namespace Clarabel.Chordal
open Clarabel

/-- [S] `initialise` makes the edge matrix exactly the reduced clique graph of the cliques -/
theorem initialise_exact_ok : InitExactSpec := initialise_exact newFromTriplets_spec

/-- [S] **EVERY MERGE OF THE CLIQUE-GRAPH LOOP MERGES A SEPARATING PAIR OF THE CURRENT CLIQUES**, for
every filled pattern -/
theorem cg_mergesSep {L : LPat} (hf : L.Filled) : CGMergesSep L :=
  cg_mergesSep_of_specs initialise_exact_ok JT.exact_contract traverse_permissible hf

/-- [S] **EVERY MERGE CONTRACTS AN EDGE OF A JUNCTION TREE INSIDE THE CURRENT CLIQUE GRAPH**, for every
filled pattern -/
theorem cg_mergesOnJT {L : LPat} (hf : L.Filled) : CGMergesOnJT L :=
  cg_mergesOnJT_of_sep hf (cg_mergesSep hf)

/-- [S] at loop exit the graph contains a junction tree of the live cliques, and every live clique
of the tree returned by `merge_cliques` has a non-empty supernode -/
theorem cg_exit_links {L : LPat} (hf : L.Filled) : CGExitJT L ∧ CGExitNonempty L :=
  ⟨cg_exitJT_of_merges_ok hf (cg_mergesOnJT hf), cg_exitNonempty_of_merges hf (cg_mergesOnJT hf)⟩

/-- [S] the formerly tested link `cgNonemptyB` is a theorem -/
theorem cgNonemptyB_true {L : LPat} (hf : L.Filled) : cgNonemptyB L = true :=
  cgNonemptyB_of_exit hf (cg_exit_links hf).2

/-- [S] the formerly tested link `cgRipB` is a theorem: the supernodes of the tree returned by
`merge_cliques` are pairwise disjoint -/
theorem cgRipB_true {L : LPat} (hf : L.Filled) : cgRipB L = true := by
  obtain ⟨t0, hnew, hok⟩ := sntree_new_ok hf
  unfold cgRipB
  rw [hnew]
  by_cases hgt : t0.nCliques > 1
  · have h2 : 2 ≤ t0.snode.size := by rw [← hok.ncl]; omega
    obtain ⟨s1, t1, s, t, hi, hl, hrel, _, hinv, hfr, hcov, hn⟩ := cg_front_ok hf hok h2
    by_cases h1 : t.nCliques = 1
    · have hp := postProcessMerge_single s t h1
      have hmc := cg_mergeCliques_eq hi hl hp
      simp only [hgt, if_true, hmc]
      rw [snDisjointB_iff]
      have hget : ∀ c, (cgPostSingleTree t).snode.getD c #[] = (t.snode.getD c #[]).sort :=
        fun c => cgpm_getD_map_sort t.snode c
      refine ⟨fun c => by rw [hget c, VSet.nodup_sort]; exact hinv.sn_nodup c, ?_⟩
      intro a b _ _ hab v hva hvb
      rw [hget a, VSet.mem_sort] at hva
      rw [hget b, VSet.mem_sort] at hvb
      have := cgLiveList_length_ge_two hab (cgpm_live_of_mem hva) (cgpm_live_of_mem hvb)
      have := hinv.ncl
      omega
    · obtain ⟨J, hJ⟩ := (cg_exit_links hf).1 t0 s1 t1 s t hnew h2 hi hl
      obtain ⟨s', t', _, hp, _, hdisj, _⟩ :=
        post_multi_desc_jt L t0 t1 t s hf hok hrel hfr hcov hinv (by omega) hJ
      have hmc := cg_mergeCliques_eq hi hl hp
      simp only [hgt, if_true, hmc]
      exact hdisj
  · simp only [hgt, if_false]

/-- [S] **C17 FOR THE STRATEGY `clique_graph`**: for a filled pattern `L`, an `ordering` that is a
permutation and pattern entries inside `L`, `SparsityPattern::new(L, ordering, "clique_graph")`
returns without panic a tree and an ordering that satisfy `ValidCliqueTree` — every clause of the
harness oracle — and the executable checker accepts them.  No hypothesis on the run is left. -/
theorem analysis_cg_valid {L : LPat} (h : L.Filled) (ordering : Array Nat)
    (ho : ordering.toList.Perm (List.range L.n)) (edges : List (Nat × Nat))
    (hedges : EdgesIn L ordering edges) :
    ∃ tf ord', sparsityPatternNewCG L ordering = .ok (tf, ord') ∧
      ValidCliqueTree L.n edges tf ord' ∧ validCliqueTreeB L.n edges tf ord' = true :=
  analysis_cg_valid_of_exact_specs initialise_exact_ok JT.exact_contract traverse_permissible h
    ordering ho edges hedges

end Clarabel.Chordal
