/-
  Lower-triangle analogue of `KktSorted.lean`, and range facts for both triangles.

  Main results:
   * `kktSchedule_regular`      : every entry of the fill schedule has `incCol = readCol`;
   * `kktSchedule_cols_empty`   : columns `≥ n+m+p` are never written (both triangles);
   * `kktSchedule_tril_sorted`  : every column of `kktSchedule P A cones .tril` is strictly
     increasing, starts with its diagonal entry, and all rows are `< n+m+p`;
   * `kktSchedule_cols_lt`      : every entry of the schedule (both triangles) lies inside the
     `(n+m+p) × (n+m+p)` matrix and is regular.
-/
import ClarabelProofs.Lemmas.KktSorted
import ClarabelProofs.Lemmas.KktFillLink

namespace Clarabel.Lemmas.KktSortedTril
open Clarabel Clarabel.Csc Clarabel.Kkt Clarabel.Lemmas.KktSorted

set_option linter.unusedSectionVars false

variable {α : Type} [OfNat α 0]

/-! ### generic tools -/

theorem mem_colRowsOf {sched : List (Entry α)} {e : Entry α} (he : e ∈ sched) :
    e.row ∈ colRowsOf sched e.readCol := by
  simp only [colRowsOf, List.mem_map, List.mem_filter, beq_iff_eq]
  exact ⟨e, ⟨he, rfl⟩, rfl⟩

theorem regular_append_iff (l1 l2 : List (Entry α)) :
    KktPlace.Regular (l1 ++ l2) ↔ KktPlace.Regular l1 ∧ KktPlace.Regular l2 := by
  constructor
  · intro h
    exact ⟨fun e he => h e (List.mem_append.2 (Or.inl he)), fun e he => h e (List.mem_append.2 (Or.inr he))⟩
  · intro h
    exact KktFillLink.regular_append h.1 h.2

/-! ### the schedule is regular -/

theorem sparseSchedule_regular (c : ConeSpec) (row col : Nat) (shape : MatrixTriangle) :
    KktPlace.Regular (sparseSchedule (α := α) c row col shape) := by
  cases c <;> cases shape <;>
    simp [sparseSchedule, regular_append_iff, KktPlace.colvecSchedule_regular,
      KktPlace.rowvecSchedule_regular, KktPlace.diagSchedule_regular, KktFillLink.regular_nil]

theorem coneSchedule_regular (c : ConeSpec) (row pcol : Nat) (shape : MatrixTriangle) :
    KktPlace.Regular (coneSchedule (α := α) c row pcol shape) := by
  unfold coneSchedule
  simp only [regular_append_iff]
  refine ⟨?_, ?_⟩
  · split
    · exact KktPlace.diagSchedule_regular _ _
    · cases shape
      · exact KktPlace.denseTriuSchedule_regular _ _
      · exact KktPlace.denseTrilSchedule_regular _ _
  · split
    · exact sparseSchedule_regular _ _ _ _
    · exact KktFillLink.regular_nil

theorem conesSchedule_regular (cones : List ConeSpec) (row pcol : Nat) (shape : MatrixTriangle) :
    KktPlace.Regular (conesSchedule (α := α) cones row pcol shape) := by
  induction cones generalizing row pcol with
  | nil => exact KktFillLink.regular_nil
  | cons c rest ih =>
    simp only [conesSchedule, regular_append_iff]
    exact ⟨coneSchedule_regular _ _ _ _, ih _ _⟩

theorem kktSchedule_tril_ok {P A : Csc α} {cones : List ConeSpec} {sched : List (Entry α)}
    (hs : kktSchedule P A cones .tril = .ok sched) :
    ∃ sD sP sA, missingDiagSchedule P 0 = .ok sD ∧ blockSchedule P 0 0 .T = .ok sP ∧
      blockSchedule A A.n 0 .N = .ok sA ∧
      sched = sD ++ sP ++ sA ++ conesSchedule cones A.n (A.m + A.n) .tril := by
  unfold kktSchedule at hs
  simp only [] at hs
  obtain ⟨sD, hsD, hs⟩ := bind_eq_ok hs
  obtain ⟨sP, hsP, hs⟩ := bind_eq_ok hs
  obtain ⟨sA, hsA, hs⟩ := bind_eq_ok hs
  obtain ⟨head, hhead, hs⟩ := bind_eq_ok hs
  cases hhead
  cases hs
  exact ⟨sD, sP, sA, hsD, hsP, hsA, rfl⟩

/-- every entry of the global fill schedule advances the counter of the column it reads -/
theorem kktSchedule_regular (P A : Csc α) (cones : List ConeSpec) (shape : MatrixTriangle)
    (sched : List (Entry α)) (hs : kktSchedule P A cones shape = .ok sched) :
    KktPlace.Regular sched := by
  cases shape with
  | triu =>
    obtain ⟨sP, sD, sA, hsP, hsD, hsA, rfl⟩ := kktSchedule_triu_ok hs
    simp only [regular_append_iff]
    exact ⟨⟨⟨KktFillLink.blockSchedule_regular hsP, KktFillLink.missingDiagSchedule_regular hsD⟩,
      KktFillLink.blockSchedule_regular hsA⟩, conesSchedule_regular _ _ _ _⟩
  | tril =>
    obtain ⟨sD, sP, sA, hsD, hsP, hsA, rfl⟩ := kktSchedule_tril_ok hs
    simp only [regular_append_iff]
    exact ⟨⟨⟨KktFillLink.missingDiagSchedule_regular hsD, KktFillLink.blockSchedule_regular hsP⟩,
      KktFillLink.blockSchedule_regular hsA⟩, conesSchedule_regular _ _ _ _⟩

/-! ### `.triu`: nothing outside the matrix -/

/-- `.triu`: columns `≥ n+m+p` are never written -/
theorem kktSchedule_triu_cols_empty (P A : Csc α) (cones : List ConeSpec) (sched : List (Entry α))
    (hA : Canon A) (hn : P.n = A.n)
    (hm : (cones.map ConeSpec.numel).sum = A.m)
    (hs : kktSchedule P A cones .triu = .ok sched)
    (c : Nat) (hc : A.n + A.m + (cones.map conePdim).sum ≤ c) :
    colRowsOf sched c = [] := by
  obtain ⟨sP, sD, sA, hsP, hsD, hsA, rfl⟩ := kktSchedule_triu_ok hs
  have hcone := colSpec_conesSchedule (α := α) cones A.n (A.m + A.n) (by omega) c
  obtain ⟨_, _, hA3⟩ := colRowsOf_blockT hA hsA c
  have h1 : ¬ c < P.n := by omega
  simp only [colRowsOf_append, colRowsOf_blockN hsP, colRowsOf_missingDiag hsD, if_neg h1,
    hA3 (Or.inr (by omega)), hcone.2 (by omega) (by omega), List.append_nil]

/-- `.triu`: every scheduled write lies inside the `(n+m+p)²` matrix (in fact in its upper
triangle) and is regular -/
theorem kktSchedule_triu_cols_lt (P A : Csc α) (cones : List ConeSpec) (sched : List (Entry α))
    (hP : Canon P) (hPt : IsTriu P) (hPsq : P.m = P.n) (hA : Canon A) (hn : P.n = A.n)
    (hm : (cones.map ConeSpec.numel).sum = A.m)
    (hs : kktSchedule P A cones .triu = .ok sched) :
    ∀ e ∈ sched, e.readCol < A.n + A.m + (cones.map conePdim).sum ∧
      e.row < A.n + A.m + (cones.map conePdim).sum ∧ e.incCol = e.readCol ∧ e.row ≤ e.readCol := by
  intro e he
  have hmem := mem_colRowsOf he
  have hreg := kktSchedule_regular P A cones .triu sched hs e he
  by_cases h : e.readCol < A.n + A.m + (cones.map conePdim).sum
  · obtain ⟨h1, h2⟩ := kktSchedule_triu_sorted P A cones sched hP hPt hPsq hA hn hm hs e.readCol h
    have := pairwise_lt_le_last h1 h2 _ hmem
    exact ⟨h, by omega, hreg, this⟩
  · rw [kktSchedule_triu_cols_empty P A cones sched hA hn hm hs e.readCol (by omega)] at hmem
    cases hmem

/-! ### `.tril`: the pure schedules -/

theorem filter_range_add_eq (off n c : Nat) :
    (List.range n).filter (fun i => off + i == c) = if off ≤ c ∧ c < off + n then [c - off] else [] := by
  induction n with
  | zero => simp
  | succ n ih =>
    rw [List.range_succ, List.filter_append, ih]
    by_cases h1 : off ≤ c ∧ c < off + n
    · have h2 : ¬ off + n = c := by omega
      have h3 : off ≤ c ∧ c < off + (n+1) := by omega
      simp [h1, h2, h3]
    · by_cases h2 : off + n = c
      · have h3 : off ≤ c ∧ c < off + (n+1) := by omega
        have h4 : c - off = n := by omega
        rw [if_neg h1, if_pos h3, h4]
        simp [h2]
      · have h3 : ¬ (off ≤ c ∧ c < off + (n+1)) := by omega
        rw [if_neg h1, if_neg h3]
        simp [h2]

theorem colRowsOf_rowvecSchedule (len row col c : Nat) :
    colRowsOf (rowvecSchedule len row col : List (Entry α)) c
      = if col ≤ c ∧ c < col + len then [row] else [] := by
  simp only [colRowsOf, rowvecSchedule, List.filter_map, List.map_map]
  have : ((fun e : Entry α => e.readCol == c) ∘ fun i => Entry.mk' (col + i) row 0 i)
      = fun i => col + i == c := rfl
  rw [this, filter_range_add_eq]
  split <;> simp [Entry.mk']

theorem colRowsOf_denseTrilSchedule (off d c : Nat) :
    colRowsOf (denseTrilSchedule off d : List (Entry α)) c
      = if off ≤ c ∧ c < off + d then List.range' c (off + d - c) else [] := by
  unfold denseTrilSchedule
  simp only []
  rw [colRowsOf_zipIdx]
  induction d with
  | zero => simp; intros; omega
  | succ d ih =>
    rw [List.range_succ, List.flatMap_append, List.filter_append, List.map_append, ih]
    simp only [List.flatMap_cons, List.flatMap_nil, List.append_nil, List.filter_map, List.map_map]
    have : ((fun p : Nat × Nat => p.1 == c) ∘ fun c' => (off + c', off + d))
        = fun i => off + i == c := rfl
    rw [this, filter_range_add_eq]
    by_cases h1 : off ≤ c ∧ c < off + d
    · have h3 : off ≤ c ∧ c < off + (d+1) := by omega
      have h4 : off + (d + 1) - c = (off + d - c) + 1 := by omega
      have h5 : c + (off + d - c) = off + d := by omega
      rw [if_pos h1, if_pos h3, if_pos h3, h4, List.range'_1_concat, h5]
      simp
    · by_cases h2 : off + d = c
      · have h3 : off ≤ c ∧ c < off + (d+1) := by omega
        have h4 : off + (d + 1) - c = 1 := by omega
        rw [if_neg h1, if_pos h3, if_pos h3, h4]
        simp [h2]
      · have h3 : ¬ (off ≤ c ∧ c < off + (d+1)) := by omega
        rw [if_neg h1, if_neg h3, if_neg h3]
        simp

/-! ### `.tril`: column specifications -/

/-- strictly increasing, starts with `c`, every element `< hi` -/
def GoodColL (hi c : Nat) (l : List Nat) : Prop :=
  l.Pairwise (· < ·) ∧ l.head? = some c ∧ ∀ x ∈ l, x < hi

theorem GoodColL.mono {hi hi' c : Nat} {l : List Nat} (h : GoodColL hi c l) (hhi : hi ≤ hi') :
    GoodColL hi' c l :=
  ⟨h.1, h.2.1, fun x hx => Nat.lt_of_lt_of_le (h.2.2 x hx) hhi⟩

/-- `s` touches only the columns `[row, row+nrow) ∪ [pcol, pcol+np)`; each of them is
strictly increasing with the diagonal first and all rows `< hi`. -/
def ColSpecL (s : List (Entry α)) (hi row nrow pcol np : Nat) : Prop :=
  ∀ c, ((row ≤ c ∧ c < row + nrow) ∨ (pcol ≤ c ∧ c < pcol + np) → GoodColL hi c (colRowsOf s c)) ∧
       (¬(row ≤ c ∧ c < row + nrow) → ¬(pcol ≤ c ∧ c < pcol + np) → colRowsOf s c = [])

theorem ColSpecL.mono {s : List (Entry α)} {hi hi' row nrow pcol np : Nat}
    (h : ColSpecL s hi row nrow pcol np) (hhi : hi ≤ hi') : ColSpecL s hi' row nrow pcol np :=
  fun c => ⟨fun hc => ((h c).1 hc).mono hhi, (h c).2⟩

theorem ColSpecL.append {s1 s2 : List (Entry α)} {hi row n1 n2 pcol p1 p2 : Nat}
    (h1 : ColSpecL s1 hi row n1 pcol p1) (h2 : ColSpecL s2 hi (row + n1) n2 (pcol + p1) p2)
    (hle : row + n1 + n2 ≤ pcol) : ColSpecL (s1 ++ s2) hi row (n1 + n2) pcol (p1 + p2) := by
  intro c
  rw [colRowsOf_append]
  by_cases a1 : (row ≤ c ∧ c < row + n1) ∨ (pcol ≤ c ∧ c < pcol + p1)
  · have e2 : colRowsOf s2 c = [] := (h2 c).2 (by omega) (by omega)
    rw [e2, List.append_nil]
    exact ⟨fun _ => (h1 c).1 a1, fun h3 h4 => by omega⟩
  · have e1 : colRowsOf s1 c = [] := (h1 c).2 (by omega) (by omega)
    rw [e1, List.nil_append]
    refine ⟨fun h3 => (h2 c).1 (by omega), fun h3 h4 => (h2 c).2 (by omega) (by omega)⟩

theorem colSpecL_nil (hi row pcol : Nat) : ColSpecL ([] : List (Entry α)) hi row 0 pcol 0 := by
  intro c
  exact ⟨fun h => by omega, fun _ _ => rfl⟩

/-- the `Hs` block of one cone, lower triangle -/
theorem colSpecL_hs (cone : ConeSpec) (row pcol : Nat) :
    ColSpecL (if cone.hsIsDiagonal then (diagSchedule row cone.numel : List (Entry α))
      else denseTrilSchedule row cone.numel) (row + cone.numel) row cone.numel pcol 0 := by
  intro c
  split
  · rw [colRowsOf_diagSchedule]
    by_cases h : row ≤ c ∧ c < row + cone.numel
    · rw [if_pos h]
      refine ⟨fun _ => ⟨by simp, by simp, by simp; omega⟩, fun h' => absurd h h'⟩
    · rw [if_neg h]
      exact ⟨fun h' => by omega, fun _ _ => rfl⟩
  · rw [colRowsOf_denseTrilSchedule]
    by_cases h : row ≤ c ∧ c < row + cone.numel
    · rw [if_pos h]
      refine ⟨fun _ => ⟨List.pairwise_lt_range' .., ?_, ?_⟩, fun h' => absurd h h'⟩
      · have : row + cone.numel - c = (row + cone.numel - c - 1) + 1 := by omega
        rw [this, List.range'_succ]
        rfl
      · intro x hx
        simp only [List.mem_range'_1] at hx
        omega
    · rw [if_neg h]
      exact ⟨fun h' => by omega, fun _ _ => rfl⟩

/-- the expansion of a sparse cone, lower triangle: the `rowvec`s add rows of the `p`-block to
the cone's own columns, the `p`-columns get only their diagonal -/
def SparseSpecL (s : List (Entry α)) (row nrow pcol np : Nat) : Prop :=
  ∀ c, ((row ≤ c ∧ c < row + nrow) →
          (colRowsOf s c).Pairwise (· < ·) ∧ ∀ x ∈ colRowsOf s c, pcol ≤ x ∧ x < pcol + np) ∧
       ((pcol ≤ c ∧ c < pcol + np) → colRowsOf s c = [c]) ∧
       (¬(row ≤ c ∧ c < row + nrow) → ¬(pcol ≤ c ∧ c < pcol + np) → colRowsOf s c = [])

theorem sparseSpecL_sparse (cone : ConeSpec) (hsp : cone.isSparseExpandable = true) (row pcol : Nat)
    (hle : row + cone.numel ≤ pcol) :
    SparseSpecL (sparseSchedule cone row pcol .tril : List (Entry α)) row cone.numel pcol (conePdim cone) := by
  intro c
  cases cone with
  | soc d =>
    simp only [ConeSpec.numel] at hle ⊢
    simp only [sparseSchedule, conePdim, hsp, if_true, colRowsOf_append, colRowsOf_rowvecSchedule,
      colRowsOf_diagSchedule]
    by_cases hr : row ≤ c ∧ c < row + d
    · have hp : ¬ (pcol ≤ c ∧ c < pcol + 2) := by omega
      simp only [if_pos hr, if_neg hp]
      refine ⟨fun _ => ?_, fun h => absurd h hp, fun h => absurd hr h⟩
      simp <;> omega
    · by_cases hp : pcol ≤ c ∧ c < pcol + 2
      · simp only [if_neg hr, if_pos hp]
        exact ⟨fun h => absurd h hr, fun _ => rfl, fun _ h => absurd hp h⟩
      · simp only [if_neg hr, if_neg hp]
        exact ⟨fun h => absurd h hr, fun h => absurd h hp, fun _ _ => rfl⟩
  | genpow a b =>
    simp only [ConeSpec.numel] at hle ⊢
    simp only [sparseSchedule, conePdim, hsp, if_true, colRowsOf_append, colRowsOf_rowvecSchedule,
      colRowsOf_diagSchedule]
    by_cases hr : row ≤ c ∧ c < row + (a + b)
    · have hp : ¬ (pcol ≤ c ∧ c < pcol + 3) := by omega
      simp only [if_pos hr, if_neg hp]
      refine ⟨fun _ => ?_, fun h => absurd h hp, fun h => absurd hr h⟩
      by_cases h1 : row ≤ c ∧ c < row + a
      · have h2 : ¬ (row + a ≤ c ∧ c < row + a + b) := by omega
        simp only [if_pos h1, if_neg h2]
        simp <;> omega
      · have h2 : row + a ≤ c ∧ c < row + a + b := by omega
        simp only [if_neg h1, if_pos h2]
        simp <;> omega
    · have h1 : ¬ (row ≤ c ∧ c < row + a) := by omega
      have h2 : ¬ (row + a ≤ c ∧ c < row + a + b) := by omega
      by_cases hp : pcol ≤ c ∧ c < pcol + 3
      · simp only [if_neg hr, if_neg h1, if_neg h2, if_pos hp]
        exact ⟨fun h => absurd h hr, fun _ => rfl, fun _ h => absurd hp h⟩
      · simp only [if_neg hr, if_neg h1, if_neg h2, if_neg hp]
        exact ⟨fun h => absurd h hr, fun h => absurd h hp, fun _ _ => rfl⟩
  | _ => simp [ConeSpec.isSparseExpandable] at hsp

theorem sparseSpecL_nil (row nrow pcol : Nat) : SparseSpecL ([] : List (Entry α)) row nrow pcol 0 := by
  intro c
  exact ⟨fun _ => by simp, fun h => by omega, fun _ _ => rfl⟩

/-- gluing the `Hs` block of a cone with its expansion -/
theorem colSpecL_glue {hs sp : List (Entry α)} {row nrow pcol np : Nat}
    (h1 : ColSpecL hs (row + nrow) row nrow pcol 0) (h2 : SparseSpecL sp row nrow pcol np)
    (hle : row + nrow ≤ pcol) : ColSpecL (hs ++ sp) (pcol + np) row nrow pcol np := by
  intro c
  rw [colRowsOf_append]
  by_cases hr : row ≤ c ∧ c < row + nrow
  · obtain ⟨g1, g2, g3⟩ := (h1 c).1 (Or.inl hr)
    obtain ⟨k1, k2⟩ := (h2 c).1 hr
    refine ⟨fun _ => ⟨?_, ?_, ?_⟩, fun h => absurd hr h⟩
    · rw [List.pairwise_append]
      refine ⟨g1, k1, ?_⟩
      intro x hx y hy
      have := g3 x hx
      have := (k2 y hy).1
      omega
    · rw [List.head?_append, g2]
      rfl
    · intro x hx
      rcases List.mem_append.1 hx with hx | hx
      · have := g3 x hx
        omega
      · exact (k2 x hx).2
  · have e1 : colRowsOf hs c = [] := (h1 c).2 hr (by omega)
    rw [e1, List.nil_append]
    by_cases hp : pcol ≤ c ∧ c < pcol + np
    · rw [(h2 c).2.1 hp]
      exact ⟨fun _ => ⟨by simp, by simp, by simp; omega⟩, fun _ h => absurd hp h⟩
    · rw [(h2 c).2.2 hr hp]
      exact ⟨fun h => by omega, fun _ _ => rfl⟩

theorem colSpecL_coneSchedule (cone : ConeSpec) (row pcol : Nat) (hle : row + cone.numel ≤ pcol) :
    ColSpecL (coneSchedule cone row pcol .tril : List (Entry α)) (pcol + conePdim cone)
      row cone.numel pcol (conePdim cone) := by
  have hhs := colSpecL_hs (α := α) cone row pcol
  have hsp : SparseSpecL (if cone.isSparseExpandable then
      (sparseSchedule cone row pcol .tril : List (Entry α)) else []) row cone.numel pcol (conePdim cone) := by
    by_cases h : cone.isSparseExpandable = true
    · simp only [h, if_true]
      exact sparseSpecL_sparse cone h row pcol hle
    · have h' : cone.isSparseExpandable = false := by simpa using h
      rw [conePdim_of_not_sparse cone h']
      simp only [h', Bool.false_eq_true, if_false]
      exact sparseSpecL_nil _ _ _
  have := colSpecL_glue hhs hsp hle
  simpa [coneSchedule] using this

/-- **the cone part, lower triangle**: in every column `c` of the cone block / expansion block
the rows written by `conesSchedule … .tril` are strictly increasing, start with the diagonal and
are all `< pcol + p`; no other column is written. -/
theorem colSpecTril_conesSchedule (cones : List ConeSpec) (row pcol : Nat)
    (hle : row + (cones.map ConeSpec.numel).sum ≤ pcol) :
    ColSpecL (conesSchedule cones row pcol .tril : List (Entry α)) (pcol + (cones.map conePdim).sum)
      row (cones.map ConeSpec.numel).sum pcol (cones.map conePdim).sum := by
  induction cones generalizing row pcol with
  | nil => simpa [conesSchedule] using colSpecL_nil (α := α) pcol row pcol
  | cons cone rest ih =>
    simp only [List.map_cons, List.sum_cons] at hle ⊢
    simp only [conesSchedule]
    have h1 := (colSpecL_coneSchedule (α := α) cone row pcol (by omega)).mono
      (hi' := pcol + (conePdim cone + (rest.map conePdim).sum)) (by omega)
    have h2 := (ih (row + cone.numel) (pcol + conePdim cone) (by omega)).mono
      (hi' := pcol + (conePdim cone + (rest.map conePdim).sum)) (by omega)
    exact ColSpecL.append h1 h2 (by omega)

/-! ### `.tril`: the `P'` block -/

/-- which rows `fill_block(…, T)` writes into column `c` -/
theorem mem_colRowsOf_blockT {M : Csc α} {n : Nat} {s : List (Entry α)}
    (h : blockSchedule M 0 n .T = .ok s) (c x : Nat) :
    x ∈ colRowsOf s c ↔
      x < M.n ∧ ∃ j, M.colptr[x]! ≤ j ∧ j < M.colptr[x+1]! ∧ M.rowval[j]! + n = c := by
  rw [blockSchedule_ok h, colRowsOf_flatMap]
  simp only [colRowsOf_colEntries_T, List.mem_flatMap, List.mem_range, List.mem_map,
    List.mem_filter, List.mem_range'_1, beq_iff_eq]
  constructor
  · rintro ⟨i, hi, j, ⟨⟨h1, h2⟩, h3⟩, rfl⟩
    exact ⟨hi, j, h1, by omega, h3⟩
  · rintro ⟨hx, j, h1, h2, h3⟩
    exact ⟨x, hx, j, ⟨⟨h1, by omega⟩, h3⟩, rfl⟩

/-- rows of `P'` in column `c` are on or below the diagonal -/
theorem blockT_ge_of_triu {P : Csc α} (hPt : IsTriu P) {s : List (Entry α)}
    (h : blockSchedule P 0 0 .T = .ok s) (c x : Nat) (hx : x ∈ colRowsOf s c) : c ≤ x := by
  obtain ⟨hxn, j, h1, h2, h3⟩ := (mem_colRowsOf_blockT h c x).1 hx
  have := hPt x hxn j h1 h2
  omega

/-- if `P` has its diagonal entry in column `c`, then `P'` writes it -/
theorem blockT_diag_mem {P : Csc α} (hP : Canon P) {s : List (Entry α)}
    (h : blockSchedule P 0 0 .T = .ok s) {c : Nat} (hc : c < P.n) (hmd : missingDiag P c = false) :
    c ∈ colRowsOf s c := by
  rw [mem_colRowsOf_blockT h]
  have hmono := hP.colptr_mono c hc
  simp only [missingDiag, Bool.or_eq_false_iff, beq_eq_false_iff_ne, ne_eq, bne_eq_false_iff_eq] at hmd
  exact ⟨hc, P.colptr[c+1]! - 1, by omega, by omega, by omega⟩

/-- if `P` lacks its diagonal entry in column `c`, then `P'` does not write row `c` there -/
theorem blockT_diag_not_mem {P : Csc α} (hP : Canon P) (hPt : IsTriu P) {s : List (Entry α)}
    (h : blockSchedule P 0 0 .T = .ok s) {c : Nat} (hmd : missingDiag P c = true) :
    c ∉ colRowsOf s c := by
  intro hmem
  obtain ⟨hc, j, h1, h2, h3⟩ := (mem_colRowsOf_blockT h c c).1 hmem
  simp only [missingDiag, Bool.or_eq_true, beq_iff_eq, bne_iff_ne, ne_eq] at hmd
  rcases hmd with hmd | hmd
  · omega
  · by_cases e : j = P.colptr[c+1]! - 1
    · subst e; omega
    · have h4 := hP.rows_strictMono hc j (P.colptr[c+1]! - 1) h1 (by omega) (by omega)
      have h5 := hPt c hc (P.colptr[c+1]! - 1) (by omega) (by omega)
      omega

/-! ### `.tril`: the `A` block -/

theorem colRowsOf_colEntries_N_shift (M : Csc α) (r i c : Nat) :
    colRowsOf (colEntries M r 0 .N i) c = if i = c then (rowsN M i).map (· + r) else [] := by
  simp only [colRowsOf, colEntries, rowsN, List.filter_map, List.map_map]
  by_cases h : i = c
  · subst h
    simp [Entry.mk', Function.comp_def, filter_const_true]
  · simp [Entry.mk', Function.comp_def, h]

theorem colRowsOf_blockN_shift {M : Csc α} {r : Nat} {s : List (Entry α)}
    (h : blockSchedule M r 0 .N = .ok s) (c : Nat) :
    colRowsOf s c = if c < M.n then (rowsN M c).map (· + r) else [] := by
  rw [blockSchedule_ok h, colRowsOf_flatMap]
  simp only [colRowsOf_colEntries_N_shift]
  exact flatMap_range_single M.n c (fun i => (rowsN M i).map (· + r))

/-- rows of the `A` block in column `c`: strictly increasing, in `[r, r + A.m)` -/
theorem blockN_shift_sorted {A : Csc α} (hA : Canon A) {r : Nat} {s : List (Entry α)}
    (h : blockSchedule A r 0 .N = .ok s) (c : Nat) :
    (colRowsOf s c).Pairwise (· < ·) ∧ (∀ x ∈ colRowsOf s c, r ≤ x ∧ x < r + A.m) ∧
    (A.n ≤ c → colRowsOf s c = []) := by
  rw [colRowsOf_blockN_shift h]
  by_cases hc : c < A.n
  · rw [if_pos hc]
    refine ⟨?_, ?_, fun h' => by omega⟩
    · rw [List.pairwise_map]
      exact (hA.rowsN_pairwise hc).imp (fun hab => by omega)
    · intro x hx
      simp only [rowsN, List.map_map, List.mem_map, List.mem_range'_1, Function.comp] at hx
      obtain ⟨j, hj, rfl⟩ := hx
      have hmono := hA.colptr_mono c hc
      have := hA.rows_lt j (by
        have := hA.colptr_le_last (c+1) (by omega)
        omega)
      omega
  · rw [if_neg hc]
    exact ⟨by simp, by simp, fun _ => rfl⟩

/-! ### `.tril`: the whole schedule -/

theorem head?_of_mem_min {l : List Nat} {c : Nat} (hp : l.Pairwise (· < ·)) (hc : c ∈ l)
    (hmin : ∀ x ∈ l, c ≤ x) : l.head? = some c := by
  cases l with
  | nil => cases hc
  | cons a l =>
    rw [List.pairwise_cons] at hp
    rcases List.mem_cons.1 hc with rfl | hc'
    · rfl
    · have := hp.1 c hc'
      have := hmin a (by simp)
      omega

/-- `.tril`: columns `≥ n+m+p` are never written -/
theorem kktSchedule_tril_cols_empty (P A : Csc α) (cones : List ConeSpec) (sched : List (Entry α))
    (hP : Canon P) (hPsq : P.m = P.n) (hA : Canon A) (hn : P.n = A.n)
    (hm : (cones.map ConeSpec.numel).sum = A.m)
    (hs : kktSchedule P A cones .tril = .ok sched)
    (c : Nat) (hc : A.n + A.m + (cones.map conePdim).sum ≤ c) :
    colRowsOf sched c = [] := by
  obtain ⟨sD, sP, sA, hsD, hsP, hsA, rfl⟩ := kktSchedule_tril_ok hs
  have hcone := colSpecTril_conesSchedule (α := α) cones A.n (A.m + A.n) (by omega) c
  obtain ⟨_, _, hP3⟩ := colRowsOf_blockT hP hsP c
  obtain ⟨_, _, hA3⟩ := blockN_shift_sorted hA hsA c
  have h1 : ¬ c < P.n := by omega
  simp only [colRowsOf_append, colRowsOf_missingDiag hsD, if_neg h1,
    hP3 (Or.inr (by omega)), hA3 (by omega), hcone.2 (by omega) (by omega), List.append_nil]

/-- **Main theorem, lower triangle**: in every column of the assembled lower-triangular KKT
matrix the rows are strictly increasing, the first one is the diagonal, and all of them are
inside the matrix. -/
theorem kktSchedule_tril_sorted (P A : Csc α) (cones : List ConeSpec) (sched : List (Entry α))
    (hP : Canon P) (hPt : IsTriu P) (hPsq : P.m = P.n) (hA : Canon A) (hn : P.n = A.n)
    (hm : (cones.map ConeSpec.numel).sum = A.m)
    (hs : kktSchedule P A cones .tril = .ok sched)
    (c : Nat) (hc : c < A.n + A.m + (cones.map conePdim).sum) :
    (colRowsOf sched c).Pairwise (· < ·) ∧ (colRowsOf sched c).head? = some c ∧
    ∀ x ∈ colRowsOf sched c, x < A.n + A.m + (cones.map conePdim).sum := by
  obtain ⟨sD, sP, sA, hsD, hsP, hsA, rfl⟩ := kktSchedule_tril_ok hs
  have hcone := colSpecTril_conesSchedule (α := α) cones A.n (A.m + A.n) (by omega) c
  obtain ⟨hP1, hP2, hP3⟩ := colRowsOf_blockT hP hsP c
  obtain ⟨hA1, hA2, hA3⟩ := blockN_shift_sorted hA hsA c
  have hge := blockT_ge_of_triu hPt hsP c
  simp only [colRowsOf_append, colRowsOf_missingDiag hsD]
  by_cases h1 : c < A.n
  · -- a `P` column
    have e2 : colRowsOf (conesSchedule cones A.n (A.m + A.n) .tril : List (Entry α)) c = [] :=
      hcone.2 (by omega) (by omega)
    have h1' : c < P.n := by omega
    rw [e2, if_pos h1', List.append_nil]
    -- `T ++ B` is sorted
    have hTB : (colRowsOf sP c ++ colRowsOf sA c).Pairwise (· < ·) := by
      rw [List.pairwise_append]
      refine ⟨hP1, hA1, ?_⟩
      intro a ha b hb
      have := hP2 a ha
      have := (hA2 b hb).1
      omega
    have hbound : ∀ x ∈ colRowsOf sP c ++ colRowsOf sA c,
        x < A.n + A.m + (cones.map conePdim).sum := by
      intro x hx
      rcases List.mem_append.1 hx with hx | hx
      · have := hP2 x hx
        omega
      · have := (hA2 x hx).2
        omega
    cases hmd : missingDiag P c with
    | true =>
      simp only [if_true, List.cons_append]
      have hnot := blockT_diag_not_mem hP hPt hsP hmd
      refine ⟨?_, rfl, ?_⟩
      · rw [List.pairwise_cons]
        refine ⟨?_, hTB⟩
        intro x hx
        rcases List.mem_append.1 hx with hx | hx
        · have := hge x hx
          have : x ≠ c := fun e => hnot (e ▸ hx)
          omega
        · have := (hA2 x hx).1
          omega
      · intro x hx
        rcases List.mem_cons.1 hx with rfl | hx
        · omega
        · exact hbound x hx
    | false =>
      simp only [Bool.false_eq_true, if_false, List.nil_append]
      have hmem := blockT_diag_mem hP hsP h1' hmd
      refine ⟨hTB, ?_, hbound⟩
      apply head?_of_mem_min hTB (List.mem_append.2 (Or.inl hmem))
      intro x hx
      rcases List.mem_append.1 hx with hx | hx
      · exact hge x hx
      · have := (hA2 x hx).1
        omega
  · have h1' : ¬ c < P.n := by omega
    rw [if_neg h1', hP3 (Or.inr (by omega)), hA3 (by omega)]
    simp only [List.nil_append]
    obtain ⟨g1, g2, g3⟩ := hcone.1 (by omega)
    exact ⟨g1, g2, fun x hx => by have := g3 x hx; omega⟩

/-- `.tril`: every scheduled write lies inside the `(n+m+p)²` matrix (in fact in its lower
triangle) and is regular -/
theorem kktSchedule_tril_cols_lt (P A : Csc α) (cones : List ConeSpec) (sched : List (Entry α))
    (hP : Canon P) (hPt : IsTriu P) (hPsq : P.m = P.n) (hA : Canon A) (hn : P.n = A.n)
    (hm : (cones.map ConeSpec.numel).sum = A.m)
    (hs : kktSchedule P A cones .tril = .ok sched) :
    ∀ e ∈ sched, e.readCol < A.n + A.m + (cones.map conePdim).sum ∧
      e.row < A.n + A.m + (cones.map conePdim).sum ∧ e.incCol = e.readCol ∧ e.readCol ≤ e.row := by
  intro e he
  have hmem := mem_colRowsOf he
  have hreg := kktSchedule_regular P A cones .tril sched hs e he
  by_cases h : e.readCol < A.n + A.m + (cones.map conePdim).sum
  · obtain ⟨h1, h2, h3⟩ := kktSchedule_tril_sorted P A cones sched hP hPt hPsq hA hn hm hs e.readCol h
    refine ⟨h, h3 _ hmem, hreg, ?_⟩
    -- the head of a strictly increasing list is its minimum
    generalize colRowsOf sched e.readCol = l at h1 h2 hmem
    cases l with
    | nil => cases hmem
    | cons a l =>
      simp only [List.head?_cons, Option.some.injEq] at h2
      subst h2
      rw [List.pairwise_cons] at h1
      rcases List.mem_cons.1 hmem with e1 | e1
      · omega
      · exact Nat.le_of_lt (h1.1 _ e1)
  · rw [kktSchedule_tril_cols_empty P A cones sched hP hPsq hA hn hm hs e.readCol (by omega)] at hmem
    cases hmem

/-! ### both triangles -/

/-- columns `≥ n+m+p` are never written -/
theorem kktSchedule_cols_empty (P A : Csc α) (cones : List ConeSpec) (shape : MatrixTriangle)
    (sched : List (Entry α))
    (hP : Canon P) (hPsq : P.m = P.n) (hA : Canon A) (hn : P.n = A.n)
    (hm : (cones.map ConeSpec.numel).sum = A.m)
    (hs : kktSchedule P A cones shape = .ok sched)
    (c : Nat) (hc : A.n + A.m + (cones.map conePdim).sum ≤ c) :
    colRowsOf sched c = [] := by
  cases shape with
  | triu => exact kktSchedule_triu_cols_empty P A cones sched hA hn hm hs c hc
  | tril => exact kktSchedule_tril_cols_empty P A cones sched hP hPsq hA hn hm hs c hc

/-- **every scheduled write lies inside the `(n+m+p) × (n+m+p)` matrix and is regular** -/
theorem kktSchedule_cols_lt (P A : Csc α) (cones : List ConeSpec) (shape : MatrixTriangle)
    (sched : List (Entry α))
    (hP : Canon P) (hPt : IsTriu P) (hPsq : P.m = P.n) (hA : Canon A) (hn : P.n = A.n)
    (hm : (cones.map ConeSpec.numel).sum = A.m)
    (hs : kktSchedule P A cones shape = .ok sched) :
    ∀ e ∈ sched, e.readCol < A.n + A.m + (cones.map conePdim).sum ∧
      e.row < A.n + A.m + (cones.map conePdim).sum ∧ e.incCol = e.readCol := by
  intro e he
  cases shape with
  | triu =>
    obtain ⟨h1, h2, h3, _⟩ := kktSchedule_triu_cols_lt P A cones sched hP hPt hPsq hA hn hm hs e he
    exact ⟨h1, h2, h3⟩
  | tril =>
    obtain ⟨h1, h2, h3, _⟩ := kktSchedule_tril_cols_lt P A cones sched hP hPt hPsq hA hn hm hs e he
    exact ⟨h1, h2, h3⟩

end Clarabel.Lemmas.KktSortedTril
