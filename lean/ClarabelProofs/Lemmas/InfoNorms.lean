/-
  C01/C02 round 3 — the numbers `normb`, `normq` that `Info.update` receives are the USER's
  `‖b‖∞`, `‖q‖∞`: `DefaultProblemData::new` caches `norm_inf(b)` / `norm_inf(q)` of the data it
  stores, `equilibrate` never touches the cache, and `get_normb` / `get_normq` return a
  cached value as it is.  (After `update_b` / `update_q` the cache is cleared and the norms are
  recomputed through `einv` / `dinv`, `c` — that path belongs to the data-update property.)
-/
import ClarabelModel.Equil
import ClarabelModel.ProblemData
import ClarabelModel.Info
import ClarabelProofs.Lemmas.ScalarInst

set_option linter.unusedSectionVars false

namespace Clarabel.InfoUser
open Clarabel Clarabel.Equil

variable {α : Type} [Add α] [Sub α] [Mul α] [Div α] [OfNat α 0] [OfNat α 1] [LT α] [DecidableLT α] [BEq α]
  [FloatLike α]

theorem applyScaling_norms (dt : ProblemData α) (dw : Option (Array α)) (ew : Array α) :
    (applyScaling dt dw ew).normb = dt.normb ∧ (applyScaling dt dw ew).normq = dt.normq := by
  cases dw <;> exact ⟨rfl, rfl⟩

theorem applyCost_norms (dt : ProblemData α) (w : Array α) (ct : Option α) :
    (applyCost dt w ct).normb = dt.normb ∧ (applyCost dt w ct).normq = dt.normq := by
  cases ct <;> exact ⟨rfl, rfl⟩

theorem ruizStep_norms (s : Settings α) (dt : ProblemData α) :
    (ruizStep s dt).normb = dt.normb ∧ (ruizStep s dt).normq = dt.normq := by
  unfold ruizStep
  simp only
  obtain ⟨a1, a2⟩ := applyCost_norms (applyScaling dt (some (stepScalings s dt).1) (stepScalings s dt).2)
    (costScaling s (applyScaling dt (some (stepScalings s dt).1) (stepScalings s dt).2)).1
    (costScaling s (applyScaling dt (some (stepScalings s dt).1) (stepScalings s dt).2)).2
  obtain ⟨b1, b2⟩ := applyScaling_norms dt (some (stepScalings s dt).1) (stepScalings s dt).2
  exact ⟨a1.trans b1, a2.trans b2⟩

theorem ruizLoop_norms (s : Settings α) (k : Nat) (dt : ProblemData α) :
    (ruizLoop s k dt).normb = dt.normb ∧ (ruizLoop s k dt).normq = dt.normq := by
  induction k generalizing dt with
  | zero => exact ⟨rfl, rfl⟩
  | succ k ih =>
    obtain ⟨a1, a2⟩ := ih (ruizStep s dt)
    obtain ⟨b1, b2⟩ := ruizStep_norms s dt
    exact ⟨a1.trans b1, a2.trans b2⟩

theorem finish_norms (dt : ProblemData α) (cones : List (ConeT α)) :
    (finish dt cones).normb = dt.normb ∧ (finish dt cones).normq = dt.normq := by
  unfold finish setInverses rectifyStep
  simp only
  split
  · obtain ⟨a, b⟩ := applyScaling_norms dt none (rectifyGo cones dt.equilibration.e.toList).1.toArray
    exact ⟨a, b⟩
  · exact ⟨rfl, rfl⟩

/-- `equilibrate` never touches the cached norms -/
theorem equilibrate_norms (dt dt' : ProblemData α) (cones : List (ConeT α)) (s : Settings α)
    (h : equilibrate dt cones s = .ok dt') : dt'.normb = dt.normb ∧ dt'.normq = dt.normq := by
  unfold equilibrate at h
  split at h
  · cases h; exact ⟨rfl, rfl⟩
  · split at h
    · cases h
    · split at h
      · cases h
      · cases h
        obtain ⟨a1, a2⟩ := finish_norms (ruizLoop s s.maxIter dt) cones
        obtain ⟨b1, b2⟩ := ruizLoop_norms s s.maxIter dt
        exact ⟨a1.trans b1, a2.trans b2⟩

/-- `DefaultProblemData::new` caches the ∞-norms of the `b` and `q` it stores -/
theorem new_norms (P : Csc α) (q : Array α) (A : Csc α) (b : Array α) (cones : List (ConeT α))
    (pe ce : Bool) (inf : α) (d : ProblemData α)
    (h : ProblemData.new P q A b cones pe ce inf = .ok d) :
    d.normb = some (Vec.normInf d.b) ∧ d.normq = some (Vec.normInf d.q) ∧ d.q = q := by
  unfold ProblemData.new at h
  simp only [bind, Except.bind, pure, Except.pure] at h
  repeat' split at h
  all_goals first | (cases h; done) | skip
  all_goals (cases h; exact ⟨rfl, rfl, rfl⟩)

/-- **the norms handed to `Info.update` are the user's** (first solve): for the record `dt`
that `DefaultProblemData::new` returns and the `dt'` that `equilibrate` returns for it,
`get_normb` / `get_normq` on `dt'` answer `norm_inf(dt.b)` / `norm_inf(q)` — the ∞-norms of
the user's (capped, row-reduced) `b` and of the user's `q`, not of the equilibrated copies. -/
theorem norms_are_users (P : Csc α) (q : Array α) (A : Csc α) (b : Array α) (cones : List (ConeT α))
    (pe ce : Bool) (inf : α) (dt dt' : ProblemData α) (cones' : List (ConeT α)) (s : Settings α)
    (hnew : ProblemData.new P q A b cones pe ce inf = .ok dt)
    (heq : equilibrate dt cones' s = .ok dt') :
    Info.getNormb dt'.normb dt'.b dt'.equilibration.einv = .ok (Vec.normInf dt.b)
    ∧ Info.getNormq dt'.normq dt'.q dt'.equilibration.dinv dt'.equilibration.c = .ok (Vec.normInf q) := by
  obtain ⟨h1, h2, h3⟩ := new_norms P q A b cones pe ce inf dt hnew
  obtain ⟨e1, e2⟩ := equilibrate_norms dt dt' cones' s heq
  rw [e1, e2, h1, h2, h3]
  exact ⟨rfl, rfl⟩

end Clarabel.InfoUser
