/-
  Clique-graph merge strategy (`ClarabelModel/Chordal/MergeCG.lean`, Rust
  `src/solver/chordal/merge/clique_graph.rs`), front half: the vocabulary shared by the lemma
  files `ChordalCG*.lean`.

  * `IMat.Sorted` / `IMat.Good` / `IMat.Adj`: the edge matrix as a graph;
  * `CGLive`: the live (non-empty) cliques while the strategy runs (the tree structure is given
    up: `snode[c]` is the whole clique, a merged-away clique is the empty set);
  * `CGInv`: THE LOOP INVARIANT of `merge_cliques` for this strategy;
  * `CGFrame` / `CGCover`: what the loop leaves alone / coverage under merging.
  No theorem of substance lives here; see `ChordalCG{Weights,Triplets,MatOps,Reduced,Adj,
  Traverse,Update,Loop,Final}.lean`.
-/
import ClarabelProofs.Lemmas.ChordalKruskal

namespace Clarabel.Chordal
open Clarabel

/-! ## the edge matrix as a graph -/

/-- the row indices of every column are strictly increasing (what `new_from_triplets` produces and
`set_entry`'s binary search relies on) -/
structure IMat.Sorted (E : IMat) : Prop where
  sorted : ∀ c, c < E.n → ∀ k, E.colptr.getD c 0 ≤ k → k + 1 < E.colptr.getD (c + 1) 0 →
    E.rowval.getD k 0 < E.rowval.getD (k + 1) 0

/-- a well-formed, square, strictly lower triangular edge matrix with sorted columns -/
structure IMat.Good (E : IMat) : Prop where
  wfe : E.WFE
  lower : E.Lower
  sorted : E.Sorted

/-- `a` and `b` are joined by a stored entry (at `(max, min)`) -/
def IMat.Adj (E : IMat) (a b : Nat) : Prop := (E.entry (max a b) (min a b)).isSome = true

theorem IMat.Adj.symm {E : IMat} {a b : Nat} (h : E.Adj a b) : E.Adj b a := by
  unfold IMat.Adj at *
  rwa [Nat.max_comm, Nat.min_comm]

/-! ## live cliques, the adjacency table -/

/-- clique `c` is live while the clique-graph strategy runs: it is stored and not empty -/
def CGLive (t : SuperNodeTree) (c : Nat) : Prop := c < t.snode.size ∧ t.snode.getD c #[] ≠ #[]

instance (t : SuperNodeTree) (c : Nat) : Decidable (CGLive t c) := by
  unfold CGLive; exact inferInstance

/-- the live cliques in increasing order (this is `snode_post` of `post_process_merge`) -/
def cgLiveList (t : SuperNodeTree) : List Nat :=
  (List.range t.snode.size).filter (fun c => decide (CGLive t c))

theorem mem_cgLiveList (t : SuperNodeTree) (c : Nat) : c ∈ cgLiveList t ↔ CGLive t c := by
  unfold cgLiveList
  simp only [List.mem_filter, List.mem_range, decide_eq_true_eq]
  exact ⟨fun h => h.2, fun h => ⟨h.1, h⟩⟩

theorem cgLiveList_nodup (t : SuperNodeTree) : (cgLiveList t).Nodup :=
  List.Nodup.filter _ List.nodup_range

/-- the adjacency set of `c` (empty when `c` is not a key) -/
def HMap.nbrs (h : HMap VSet) (c : Nat) : VSet := (h.get? c).getD #[]

/-! ## the loop invariant -/

/-- THE LOOP INVARIANT of `merge_cliques` (clique-graph strategy), for `N` stored cliques on the
vertices `0..nv`.  What the code really maintains:
* the edge matrix is a well-formed strictly lower triangular matrix with sorted columns, and
  no stored weight is `0` (so `dropzeros` only removes what `update_strategy` zeroed; for the
  cubic weight this is Fermat's last theorem for exponent 3, `ChordalCGWeights.lean`);
* its entries join live cliques only, and the live cliques are connected by them;
* the adjacency table has exactly the live cliques as keys and `b ∈ table[a]` iff `a`, `b` are
  joined by a stored entry (in particular it is symmetric, irreflexive and NEVER MENTIONS A
  REMOVED CLIQUE — the clause the seeded change C17-c breaks);
* `n_cliques` counts the live cliques; the workspace `p` is long enough for `traverse`;
* the clique sets have no repetition and stay inside `0..nv`. -/
structure CGInv (N nv : Nat) (s : CGStrategy) (t : SuperNodeTree) : Prop where
  sz : t.snode.size = N
  small : N < inactiveNode
  em : s.edges.m = N
  en : s.edges.n = N
  good : s.edges.Good
  nz : ∀ k, k < s.edges.nzval.size → s.edges.nzval.getD k 0 ≠ 0
  edge_live : ∀ r c, (s.edges.entry r c).isSome = true → CGLive t r ∧ CGLive t c
  conn : ∀ a b, CGLive t a → CGLive t b → Conn s.edges.edges a b
  adj_key : ∀ c, s.adjacencyTable.containsKey c = true ↔ CGLive t c
  adj_iff : ∀ a b, CGLive t a → (b ∈ (s.adjacencyTable.nbrs a).toList ↔ s.edges.Adj a b ∧ a ≠ b)
  adj_nodup : ∀ a, (s.adjacencyTable.nbrs a).toList.Nodup
  ncl : t.nCliques = (cgLiveList t).length
  psize : s.edges.nzval.size ≤ s.p.size
  sn_nodup : ∀ c, (t.snode.getD c #[]).toList.Nodup
  sn_lt : ∀ c, ∀ v ∈ (t.snode.getD c #[]).toList, v < nv

/-- the fields of the tree the loop does not touch -/
structure CGFrame (t t' : SuperNodeTree) : Prop where
  snodePost : t'.snodePost = t.snodePost
  snodeParent : t'.snodeParent = t.snodeParent
  snodeChildren : t'.snodeChildren = t.snodeChildren
  post : t'.post = t.post
  separators : t'.separators = t.separators
  nblk : t'.nblk = t.nblk
  size : t'.snode.size = t.snode.size

theorem CGFrame.refl (t : SuperNodeTree) : CGFrame t t := ⟨rfl, rfl, rfl, rfl, rfl, rfl, rfl⟩

theorem CGFrame.trans {t t' t'' : SuperNodeTree} (h : CGFrame t t') (h' : CGFrame t' t'') :
    CGFrame t t'' :=
  ⟨h'.snodePost.trans h.snodePost, h'.snodeParent.trans h.snodeParent,
    h'.snodeChildren.trans h.snodeChildren, h'.post.trans h.post,
    h'.separators.trans h.separators, h'.nblk.trans h.nblk, h'.size.trans h.size⟩

/-- COVERAGE UNDER MERGING: cliques are only retired, every old live clique lies inside a new live
clique, and no vertex is invented -/
structure CGCover (t t' : SuperNodeTree) : Prop where
  live_sub : ∀ c, CGLive t' c → CGLive t c
  cover : ∀ c, CGLive t c → ∃ c', CGLive t' c' ∧
    ∀ v ∈ (t.snode.getD c #[]).toList, v ∈ (t'.snode.getD c' #[]).toList
  verts : ∀ c' v, v ∈ (t'.snode.getD c' #[]).toList → ∃ c, CGLive t c ∧ v ∈ (t.snode.getD c #[]).toList

theorem CGCover.refl (t : SuperNodeTree) : CGCover t t where
  live_sub := fun _ h => h
  cover := fun c h => ⟨c, h, fun _ hv => hv⟩
  verts := by
    intro c v hv
    refine ⟨c, ⟨?_, ?_⟩, hv⟩
    · by_contra hc
      have : t.snode.getD c #[] = #[] := by simp [Array.getD, hc]
      rw [this] at hv; simp at hv
    · intro he; rw [he] at hv; simp at hv

theorem CGCover.trans {t t' t'' : SuperNodeTree} (h : CGCover t t') (h' : CGCover t' t'') :
    CGCover t t'' where
  live_sub := fun c hc => h.live_sub c (h'.live_sub c hc)
  cover := by
    intro c hc
    obtain ⟨c', hl', hs'⟩ := h.cover c hc
    obtain ⟨c'', hl'', hs''⟩ := h'.cover c' hl'
    exact ⟨c'', hl'', fun v hv => hs'' v (hs' v hv)⟩
  verts := by
    intro c'' v hv
    obtain ⟨c', _, hv'⟩ := h'.verts c'' v hv
    exact h.verts c' v hv'

/-! ## specifications of the building blocks (each proved in its own file; the downstream files
take them as hypotheses so that the files are independent of each other) -/

/-- `new_from_triplets` on in-range strictly lower triangular triplets: no panic; the result is a
`Good` `n × n` matrix whose stored positions are exactly the triplet positions, each value being
the sum of the triplet values at that position (`ChordalCGTriplets.lean`) -/
def NewFromTripletsSpec : Prop :=
  ∀ (n : Nat) (I J : Array Nat) (V : Array Int), I.size = J.size → I.size = V.size →
    (∀ k, k < I.size → J.getD k 0 < I.getD k 0 ∧ I.getD k 0 < n) →
    ∃ E, IMat.newFromTriplets n n I J V = .ok E ∧ E.m = n ∧ E.n = n ∧ E.Good ∧
      (∀ r c, (E.entry r c).isSome = true ↔ ∃ k, k < I.size ∧ I.getD k 0 = r ∧ J.getD k 0 = c) ∧
      (∀ r c v, E.entry r c = some v →
        v = (((List.range I.size).filter (fun k => I.getD k 0 == r && J.getD k 0 == c)).map
              (fun k => V.getD k 0)).sum)

/-- `set_entry` at a strictly lower, in-range position of a `Good` matrix: no panic, `Good` is
kept, exactly the addressed entry changes — a non-zero value is written or inserted, a zero is
written over an existing entry but never inserted (`ChordalCGMatOps.lean`) -/
def SetEntrySpec : Prop :=
  ∀ (E : IMat), E.Good → ∀ (row col : Nat), col < row → row < E.n → ∀ v : Int,
    ∃ E', E.setEntry row col v = .ok E' ∧ E'.Good ∧ E'.m = E.m ∧ E'.n = E.n ∧
      (∀ r c, E'.entry r c =
        if r = row ∧ c = col then
          (if v = 0 then (E.entry row col).map (fun _ => (0 : Int)) else some v)
        else E.entry r c)

/-- `dropzeros` on a `Good` matrix: no panic, `Good` is kept, exactly the entries with value `0`
disappear (`ChordalCGMatOps.lean`) -/
def DropzerosSpec : Prop :=
  ∀ (E : IMat), E.Good →
    ∃ E', E.dropzeros = .ok E' ∧ E'.Good ∧ E'.m = E.m ∧ E'.n = E.n ∧
      (∀ r c, E'.entry r c = (E.entry r c).filter (fun v => v != 0))

/-- `compute_reduced_clique_graph` never panics; it returns the separators permuted, and pairs
`cols[k] < rows[k]` of clique indices (`ChordalCGReduced.lean`) -/
def ReducedOkSpec : Prop :=
  ∀ (separators cliques : Array VSet),
    ∃ seps' rows cols, computeReducedCliqueGraph separators cliques = .ok (seps', rows, cols) ∧
      seps'.toList.Perm separators.toList ∧ rows.size = cols.size ∧
      (∀ k, k < rows.size → cols.getD k 0 < rows.getD k 0 ∧ rows.getD k 0 < cliques.size)

/-- THE EDGES OF A CLIQUE TREE ARE EDGES OF THE REDUCED CLIQUE GRAPH: if the separator `S` is
listed, `S = clique c ∩ clique p`, and the cliques fall into two sides (`c` on one, `p` on the
other) such that cliques on different sides meet inside `S` only, then `compute_reduced_clique_graph`
returns the pair `(max c p, min c p)` (`ChordalCGReduced.lean`) -/
def ReducedTreeEdgeSpec : Prop :=
  ∀ (separators cliques seps' : Array VSet) (rows cols : Array Nat),
    computeReducedCliqueGraph separators cliques = .ok (seps', rows, cols) →
    (∀ i, i < cliques.size → (cliques.getD i #[]).toList.Nodup) →
    ∀ (c p : Nat), c < cliques.size → p < cliques.size →
    ∀ S : VSet, S ∈ separators.toList → S.toList.Nodup →
    (∀ v, v ∈ S.toList ↔ (v ∈ (cliques.getD c #[]).toList ∧ v ∈ (cliques.getD p #[]).toList)) →
    ∀ side : Nat → Prop, side c → ¬ side p →
    (∀ a b, a < cliques.size → b < cliques.size → side a → ¬ side b →
      ∀ v, v ∈ (cliques.getD a #[]).toList → v ∈ (cliques.getD b #[]).toList → v ∈ S.toList) →
    ∃ k, k < rows.size ∧ rows.getD k 0 = max c p ∧ cols.getD k 0 = min c p

end Clarabel.Chordal
