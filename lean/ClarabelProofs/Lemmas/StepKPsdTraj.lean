/-
  C07, round 5: PSD blocks in the trajectory theorem, under a named per-pass hypothesis.

  `Pt.InteriorG` / `Traj.interiorG` (`StepKAllCones.lean`) exclude PSD blocks, because the one-step
  theorem `all_step` needs, for a PSD block `.psd K γz γs z s dz ds`, facts about the scaling `K` and
  the two LAPACK answers `γz`, `γs` **of the pass**: C15's spectral contract (`PsdContract`) and
  C13's Nesterov–Todd contract `NtOk K z s` ("`update_scaling` has re-established `W z = λ = W⁻ᵀ s`,
  `R·R⁻¹ = I` at the current point").  These are packaged here as `PsdPassOk q`, a predicate on the
  direction-decorated iterate `q` of one pass (the `q` of `AcceptedPass`), which a harness can check
  pass by pass.  `AcceptedPassP` / `TrajP` are `AcceptedPass` / `Traj` with that hypothesis attached
  to every accepted pass; under it every iterate is interior for all seven cone kinds
  (`Pt.InteriorAllP`: PSD blocks `mat z ≻ 0`, `mat s ≻ 0` in original coordinates).
-/
import ClarabelProofs.Lemmas.StepKAllCones

namespace Clarabel.StepK
open Clarabel Nonsym Loop.Step PsdStep PsdTri

/-- the per-pass contract of one PSD block: both `eigvals` calls answered, C15's spectral contract
for the two answers (`Λisqrt = Λ^{-1/2} > 0`, `γz`/`γs` are the least eigenvalues of the scaled
directions) and C13's Nesterov–Todd contract of the stored scaling `K` at the block's point
`(z, s)`.  `True` for every other cone kind. -/
def Blk.PsdOk : Blk ℝ → Prop
  | .psd K γz γs z s dz ds =>
    (∃ gz gs, γz = some gz ∧ γs = some gs ∧ PsdContract K gz gs dz ds) ∧ NtOk K z s
  | _ => True

/-- **the named per-pass hypothesis**: every PSD block of the pass's iterate-with-direction `q`
(scaling `K` as left by this pass's `update_scaling`, `γz`, `γs` as answered by this pass's
`step_length`) meets `Blk.PsdOk` -/
def PsdPassOk (q : Pt ℝ) : Prop := ∀ b ∈ q.blks, b.PsdOk

/-- the whole iterate is interior, **all seven cone kinds**: `τ, κ > 0` and every block
`Blk.InteriorAll` (zero … power as `Blk.Interior`; generalised power `GenPowInterior`; PSD
`mat z ≻ 0 ∧ mat s ≻ 0`) -/
def Pt.InteriorAllP (p : Pt ℝ) : Prop := 0 < p.τ ∧ 0 < p.κ ∧ ∀ b ∈ p.blks, b.InteriorAll

theorem Blk.InteriorG.interiorAll {b : Blk ℝ} (h : b.InteriorG) : b.InteriorAll := by
  cases b with
  | genpow al z s dz ds => exact h
  | psd K γz γs z s dz ds => exact absurd h id
  | zero z s dz ds => exact h
  | nn z s dz ds => exact h
  | soc z s dz ds => exact h
  | exp z s dz ds => exact h
  | pow a z s dz ds => exact h

theorem Pt.InteriorG.interiorAllP {p : Pt ℝ} (h : p.InteriorG) : p.InteriorAllP :=
  ⟨h.1, h.2.1, fun b hb => (h.2.2 b hb).interiorAll⟩

/-- a block of the pass: same `(z, s)` as an interior block, a direction of the right shape, and
(PSD) the per-pass contract — then the block meets what `all_step` asks.  For a PSD block the
interior-ness of the previous block is not even used: `NtOk` implies `mat z, mat s ≻ 0`. -/
theorem Blk.SamePoint.stepOkAll {b b' : Blk ℝ} (h : Blk.SamePoint b b') (hI : b.InteriorAll)
    (hD : b'.DirOk) (hP : b'.PsdOk) : b'.StepOkAll := by
  cases h with
  | zero z s dz ds dz' ds' => exact ⟨hI, hD⟩
  | nn z s dz ds dz' ds' => exact ⟨hI, hD⟩
  | soc z s dz ds dz' ds' => exact ⟨hI, hD⟩
  | exp z s dz ds dz' ds' => exact ⟨hI, hD⟩
  | pow a z s dz ds dz' ds' => exact ⟨hI, hD⟩
  | genpow al z s dz ds dz' ds' => exact ⟨hI, hD.1, hD.2⟩
  | psd K γz γs K' γz' γs' z s dz ds dz' ds' => exact ⟨hP.1, hP.2, hD.1, hD.2⟩

theorem forall2_samePoint_stepOkAll {l l' : List (Blk ℝ)} (h : List.Forall₂ Blk.SamePoint l l')
    (hI : ∀ b ∈ l, b.InteriorAll) (hD : ∀ b ∈ l', b.DirOk) (hP : ∀ b ∈ l', b.PsdOk) :
    ∀ b ∈ l', b.StepOkAll := by
  induction h with
  | nil => intro b hb; cases hb
  | cons hab _ ih =>
    intro b hb
    rcases List.mem_cons.mp hb with rfl | hb
    · exact hab.stepOkAll (hI _ List.mem_cons_self) (hD _ List.mem_cons_self) (hP _ List.mem_cons_self)
    · exact ih (fun c hc => hI c (List.mem_cons_of_mem _ hc)) (fun c hc => hD c (List.mem_cons_of_mem _ hc))
        (fun c hc => hP c (List.mem_cons_of_mem _ hc)) b hb

/-- the pass's `q` meets `all_step`'s hypotheses -/
theorem Pt.SamePoint.stepOkAll {p q : Pt ℝ} (h : Pt.SamePoint p q) (hI : p.InteriorAllP)
    (hD : q.DirOk) (hP : PsdPassOk q) : 0 < q.τ ∧ 0 < q.κ ∧ ∀ b ∈ q.blks, b.StepOkAll := by
  obtain ⟨_, hτ, hκ, hb⟩ := h
  exact ⟨hτ ▸ hI.1, hκ ▸ hI.2.1, forall2_samePoint_stepOkAll hb hI.2.2 hD hP⟩

/-- [R] one step from a point whose blocks all meet `StepOkAll`: every `0 ≤ a ≤ α` leads to an
iterate that is interior for all seven cone kinds -/
theorem interior_stepAllP (maxValue : ℝ) (ls : LineSearch ℝ) (hs0 : 0 ≤ ls.step) (hs1 : ls.step ≤ 1)
    (hmax : 0 < maxValue) (q : Pt ℝ) (hτ : 0 < q.τ) (hκ : 0 < q.κ) (hok : ∀ b ∈ q.blks, b.StepOkAll)
    (f α : ℝ) (hf0 : 0 < f) (hf1 : f < 1) (h : calcStepLength maxValue ls q true f = .ok α) :
    0 ≤ α ∧ α ≤ f * alphaMax q.τ q.κ q.dτ q.dκ maxValue ∧
      (q.blks.all Blk.symmetric = false → α ≤ f * f) ∧
      ∀ a, 0 ≤ a → a ≤ α → (addStep q a).InteriorAllP := by
  obtain ⟨k0, k1, k2, k3⟩ := all_step maxValue ls hs0 hs1 hmax q hτ hκ hok f α hf0 hf1 h
  refine ⟨k0, k1, k2, fun a ha0 ha => ?_⟩
  obtain ⟨t1, t2, t3⟩ := k3 a ha0 ha
  refine ⟨t1, t2, fun b hb => ?_⟩
  obtain ⟨b0, hb0, rfl⟩ := List.mem_map.mp hb
  exact t3 b0 hb0

/-- `AcceptedPass` with the per-pass PSD hypothesis attached: the numerics supply a direction and
(PSD blocks) a scaling and two eigenvalue answers `q` for the current iterate `p`, **`q` meets
`PsdPassOk`**, `calc_step_length` returns `α`, `get_step_length` returns `a`, the small-step
checkpoint lets `a` through, `add_step(a)` gives `p'` -/
def AcceptedPassP (c : StepCfg) (cfg : Loop.Config ℝ) (sc : Loop.Scaling) (p p' : Pt ℝ) : Prop :=
  ∃ q α a, Pt.SamePoint p q ∧ q.DirOk ∧ PsdPassOk q ∧
    calcStepLength c.maxValue c.ls q true c.f = .ok α ∧ Backtracked c.btStep α a ∧
    acceptStep cfg sc q a = some p'

theorem AcceptedPassP.toAcceptedPass {c : StepCfg} {cfg : Loop.Config ℝ} {sc : Loop.Scaling}
    {p p' : Pt ℝ} (h : AcceptedPassP c cfg sc p p') : AcceptedPass c cfg sc p p' := by
  obtain ⟨q, α, a, h1, h2, _, h4, h5, h6⟩ := h
  exact ⟨q, α, a, h1, h2, h4, h5, h6⟩

/-- a block without per-pass obligations: not PSD -/
def Blk.NotPsd {α : Type} : Blk α → Prop
  | .psd .. => False
  | _ => True

theorem Blk.NotPsd.psdOk {b : Blk ℝ} (h : b.NotPsd) : b.PsdOk := by
  cases b with
  | psd K γz γs z s dz ds => exact absurd h id
  | zero z s dz ds => trivial
  | nn z s dz ds => trivial
  | soc z s dz ds => trivial
  | exp z s dz ds => trivial
  | pow a z s dz ds => trivial
  | genpow al z s dz ds => trivial

theorem Blk.SamePoint.notPsd {α : Type} {b b' : Blk α} (h : Blk.SamePoint b b') (hn : b.NotPsd) :
    b'.NotPsd := by
  cases h <;> exact hn

theorem forall2_samePoint_notPsd {α : Type} {l l' : List (Blk α)}
    (h : List.Forall₂ Blk.SamePoint l l') (hn : ∀ b ∈ l, b.NotPsd) : ∀ b ∈ l', b.NotPsd := by
  induction h with
  | nil => intro b hb; cases hb
  | cons hab _ ih =>
    intro b hb
    rcases List.mem_cons.mp hb with rfl | hb
    · exact hab.notPsd (hn _ List.mem_cons_self)
    · exact ih (fun c hc => hn c (List.mem_cons_of_mem _ hc)) b hb

/-- without PSD blocks the per-pass hypothesis is void: every `AcceptedPass` is an `AcceptedPassP` -/
theorem AcceptedPass.toP {c : StepCfg} {cfg : Loop.Config ℝ} {sc : Loop.Scaling} {p p' : Pt ℝ}
    (h : AcceptedPass c cfg sc p p') (hn : ∀ b ∈ p.blks, b.NotPsd) : AcceptedPassP c cfg sc p p' := by
  obtain ⟨q, α, a, h1, h2, h4, h5, h6⟩ := h
  exact ⟨q, α, a, h1, h2, fun b hb => (forall2_samePoint_notPsd h1.2.2.2 hn b hb).psdOk, h4, h5, h6⟩

/-- [R] an accepted pass from an iterate that is interior for all seven cone kinds, the pass's
PSD scalings and eigenvalue answers meeting `PsdPassOk`: the new iterate is interior again, and
`0 < a`, `min_terminate_step_length < a ≤ α ≤ f·min(1, ατ, ακ) ≤ f < 1` -/
theorem AcceptedPassP.interiorAllP {c : StepCfg} (hc : c.Ok) {cfg : Loop.Config ℝ}
    {sc : Loop.Scaling} {p p' : Pt ℝ} (h : AcceptedPassP c cfg sc p p') (hI : p.InteriorAllP) :
    p'.InteriorAllP ∧ ∃ q α a, Pt.SamePoint p q ∧ PsdPassOk q ∧ p' = addStep q a ∧
      calcStepLength c.maxValue c.ls q true c.f = .ok α ∧
      0 < a ∧ cfg.minTerminateStepLength < a ∧ a ≤ α ∧
      α ≤ c.f * alphaMax q.τ q.κ q.dτ q.dκ c.maxValue ∧ α ≤ c.f ∧ a < 1 := by
  obtain ⟨hm, hs0, hs1, hf0, hf1, hb0, hb1⟩ := hc
  obtain ⟨q, α, a, hsp, hD, hP, hcalc, hbt, hacc⟩ := h
  obtain ⟨hnu, rfl⟩ := acceptStep_some hacc
  obtain ⟨hτ, hκ, hok⟩ := hsp.stepOkAll hI hD hP
  obtain ⟨k0, k1, _, k4⟩ := interior_stepAllP c.maxValue c.ls hs0 hs1 hm q hτ hκ hok c.f α hf0 hf1 hcalc
  obtain ⟨b0, b1, _⟩ := hbt.le hb0 hb1 k0
  have hpos : 0 < a ∧ cfg.minTerminateStepLength < a := by
    unfold Loop.cpSmallStep at hnu
    split at hnu
    · cases hnu
    · split at hnu
      · cases hnu
      · rename_i hle
        have hle' : ¬ a ≤ max 0 cfg.minTerminateStepLength := hle
        have := not_le.mp hle'
        exact ⟨lt_of_le_of_lt (le_max_left _ _) this, lt_of_le_of_lt (le_max_right _ _) this⟩
  obtain ⟨_, h1, _, _⟩ := alphaMax_bounds q.τ q.κ q.dτ q.dκ c.maxValue hτ hκ hm
  have hαf : α ≤ c.f := le_trans k1 (by nlinarith)
  exact ⟨k4 a b0 b1, q, α, a, hsp, hP, rfl, hcalc, hpos.1, hpos.2, b1, k1, hαf,
    lt_of_le_of_lt (le_trans b1 hαf) hf1⟩

/-- `Traj` with the per-pass PSD hypothesis attached to every accepted pass (`AcceptedPassP`
instead of `AcceptedPass`); `reset_to_prev_iterate` as in `Traj` -/
inductive TrajP (c : StepCfg) (cfg : Loop.Config ℝ) (p0 : Pt ℝ) : List (Pt ℝ) → Prop
  | start : TrajP c cfg p0 [p0]
  | step {p p' : Pt ℝ} {hist : List (Pt ℝ)} (sc : Loop.Scaling) :
      TrajP c cfg p0 (p :: hist) → AcceptedPassP c cfg sc p p' → TrajP c cfg p0 (p' :: p :: hist)
  | rollback {p q : Pt ℝ} {hist : List (Pt ℝ)} :
      TrajP c cfg p0 (p :: q :: hist) → TrajP c cfg p0 (q :: p :: q :: hist)

/-- forgetting the per-pass hypothesis: a `TrajP` is a `Traj` -/
theorem TrajP.toTraj {c : StepCfg} {cfg : Loop.Config ℝ} {p0 : Pt ℝ} {l : List (Pt ℝ)}
    (h : TrajP c cfg p0 l) : Traj c cfg p0 l := by
  induction h with
  | start => exact .start
  | step sc _ hpass ih => exact .step sc ih hpass.toAcceptedPass
  | rollback _ ih => exact .rollback ih

/-- [R] **every iterate of every solve is interior, all seven cone kinds**, provided every accepted
pass meets `PsdPassOk` (that is what `TrajP` records) -/
theorem TrajP.interiorAllP {c : StepCfg} (hc : c.Ok) {cfg : Loop.Config ℝ} {p0 : Pt ℝ}
    (h0 : p0.InteriorAllP) {l : List (Pt ℝ)} (h : TrajP c cfg p0 l) : ∀ p ∈ l, p.InteriorAllP := by
  induction h with
  | start => intro p hp; simp only [List.mem_singleton] at hp; exact hp ▸ h0
  | step sc _ hpass ih =>
    intro p hp
    rcases List.mem_cons.mp hp with rfl | hp
    · exact (hpass.interiorAllP hc (ih _ List.mem_cons_self)).1
    · exact ih p hp
  | rollback _ ih =>
    intro p hp
    rcases List.mem_cons.mp hp with rfl | hp
    · exact ih _ (List.mem_cons_of_mem _ List.mem_cons_self)
    · exact ih p hp

/-! ## non-vacuity: one accepted pass with a PSD block -/
section example_psd

/-- the `n = 1` PSD block `λ = Λisqrt = R = R⁻¹ = 1`, `z = s = (1)`, `Δz = Δs = (−2)` with least
eigenvalues `−2` meets the per-pass contract -/
theorem psdOk_example : (Blk.psd (⟨1, #[1], #[1], #[1], #[1], #[]⟩ : PsdTri.Cone ℝ) (some (-2))
    (some (-2)) #[1] #[1] #[-2] #[-2]).PsdOk := by
  refine ⟨⟨-2, -2, rfl, rfl, by decide, ?_, ?_, ?_⟩, PsdStep.ntOk_example⟩
  · intro i hi
    have hi' : i < 1 := hi
    have : i = 0 := by omega
    subst this; simp
  · intro d h
    simp [PsdTri.mulW, PsdTri.mulWx, PsdTri.sizeGuard, PsdIndex.triangularNumber, PsdTri.mulWxInner,
      PsdTri.matToSvec, PsdTri.packed, PsdTri.gemm, PsdTri.mm, PsdTri.tr, PsdTri.matOf,
      PsdTri.svecToMat, PsdTri.sumN, PsdTri.isZero, bind, Except.bind, pure, Except.pure] at h
    subst h
    refine ⟨?_, fun _ => 1, ?_, ?_⟩
    · intro v
      simp [PsdStep.nrm2, PsdStep.qform, PsdStep.scaledDir, PsdTri.svecToMat, PsdIndex.triangularNumber]
      linarith
    · simp [PsdStep.nrm2]
    · simp [PsdStep.nrm2, PsdStep.qform, PsdStep.scaledDir, PsdTri.svecToMat, PsdIndex.triangularNumber]
  · intro d h
    simp [PsdTri.mulWinv, PsdTri.mulWx, PsdTri.sizeGuard, PsdIndex.triangularNumber, PsdTri.mulWxInner,
      PsdTri.matToSvec, PsdTri.packed, PsdTri.gemm, PsdTri.mm, PsdTri.tr, PsdTri.matOf,
      PsdTri.svecToMat, PsdTri.sumN, PsdTri.isZero, bind, Except.bind, pure, Except.pure] at h
    subst h
    refine ⟨?_, fun _ => 1, ?_, ?_⟩
    · intro v
      simp [PsdStep.nrm2, PsdStep.qform, PsdStep.scaledDir, PsdTri.svecToMat, PsdIndex.triangularNumber]
      linarith
    · simp [PsdStep.nrm2]
    · simp [PsdStep.nrm2, PsdStep.qform, PsdStep.scaledDir, PsdTri.svecToMat, PsdIndex.triangularNumber]

/-- an iterate with a nonnegative and a PSD block (`n = 1`), `τ = κ = 1`, with the direction, the
scaling and the eigenvalue answers of one pass -/
noncomputable def exPsd : Pt ℝ :=
  { x := #[], dx := #[],
    blks := [.nn #[1] #[1] #[-1] #[-1],
             .psd ⟨1, #[1], #[1], #[1], #[1], #[]⟩ (some (-2)) (some (-2)) #[1] #[1] #[-2] #[-2]],
    τ := 1, κ := 1, dτ := 0, dκ := 0 }

theorem exPsd_psdPassOk : PsdPassOk exPsd := by
  intro b hb
  simp only [exPsd, List.mem_cons, List.not_mem_nil, or_false] at hb
  rcases hb with rfl | rfl
  · trivial
  · exact psdOk_example

theorem exPsd_dirOk : exPsd.DirOk := by
  intro b hb
  simp only [exPsd, List.mem_cons, List.not_mem_nil, or_false] at hb
  rcases hb with rfl | rfl
  · exact ⟨rfl, rfl⟩
  · exact ⟨rfl, rfl⟩

theorem exPsd_samePoint : Pt.SamePoint exPsd exPsd :=
  ⟨rfl, rfl, rfl, List.Forall₂.cons (Blk.SamePoint.nn _ _ _ _ _ _)
    (List.Forall₂.cons (Blk.SamePoint.psd _ _ _ _ _ _ _ _ _ _ _ _) List.Forall₂.nil)⟩

/-- `exPsd` is interior for all cone kinds: the nonnegative block has `z = s = 1 > 0`, the PSD
block has `mat z = mat s = (1) ≻ 0` -/
theorem exPsd_interiorAllP : exPsd.InteriorAllP := by
  refine ⟨one_pos, one_pos, ?_⟩
  intro b hb
  simp only [exPsd, List.mem_cons, List.not_mem_nil, or_false] at hb
  rcases hb with rfl | rfl
  · refine ⟨rfl, ?_, ?_⟩ <;> (intro v hv; simp at hv; subst hv; norm_num)
  · exact (Blk.StepOkAll.interiorAll (b := Blk.psd _ _ _ _ _ _ _)
      ⟨psdOk_example.1, psdOk_example.2, rfl, rfl⟩)

/-- `calc_step_length` on `exPsd`: the nonnegative block allows `1`, the PSD block
`min(−1/γ, 1) = 1/2`, the combined step is `0.99 · 1/2` -/
theorem exPsd_calc : calcStepLength (100 : ℝ) ⟨4 / 5, 1 / 10000, 100⟩ exPsd true (99 / 100)
    = .ok (99 / 200) := by
  simp only [calcStepLength, exPsd, coneStep, alphaMax, ratio, Composite.stepLength,
    Composite.inner, List.map_cons, List.map_nil, Blk.coneFn, List.foldlM_cons, List.foldlM_nil,
    Nonneg.stepLength, Nonneg.stepComponent, Nonneg.ratio, List.all_cons, List.all_nil, bind,
    Except.bind, pure, Except.pure]
  simp [PsdStep.stepLength, PsdStep.stepLengthPsdComponent, PsdTri.mulWx, PsdTri.sizeGuard,
    PsdIndex.triangularNumber, PsdTri.mulWxInner, PsdTri.matToSvec, PsdTri.packed, PsdTri.gemm,
    PsdTri.mm, PsdTri.tr, PsdTri.matOf, PsdTri.svecToMat, PsdTri.sumN, PsdTri.isZero, bind,
    Except.bind, pure, Except.pure]
  norm_num [FloatLike.fmin]

/-- an accepted pass with a PSD block that meets the per-pass hypothesis exists -/
theorem exPsd_acceptedPassP : ∃ cfg : Loop.Config ℝ, ∃ p',
    AcceptedPassP ⟨100, ⟨4 / 5, 1 / 10000, 100⟩, 99 / 100, 4 / 5⟩ cfg .PrimalDual exPsd p' := by
  let t : Loop.Tols ℝ := ⟨0, 0, 0, 0, 0, 0⟩
  refine ⟨⟨10, 0, false, t, t, 1 / 10, 1 / 10000, true, true, true⟩, addStep exPsd (99 / 200),
    exPsd, 99 / 200, 99 / 200, exPsd_samePoint, exPsd_dirOk, exPsd_psdPassOk, exPsd_calc,
    Or.inl rfl, ?_⟩
  simp only [acceptStep, Loop.cpSmallStep]
  norm_num [FloatLike.fmax]

end example_psd

end Clarabel.StepK
