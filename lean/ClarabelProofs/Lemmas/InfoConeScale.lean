/-
  C01/C02: the point returned to the user is `s = E⁻¹ŝ/τ`, `z = Eẑ/(τc)`; on every cone that
  is not a product of scalar cones `e` is constant (`C10.uniform_on_cones`), so un-scaling
  multiplies the cone's whole segment by one positive number `k` (`C01.unscale_uniform`).
  Here: membership of the *generalised power cone* (and of its dual) and of the *PSD cone in
  svec form* (self-dual) is invariant under `seg ↦ seg.map (· * k)`, `k > 0`.

  The homogeneity computations themselves are C10's (`Lemmas/EquilGenPow.lean`:
  `prodPhiP_scale`, `prodPhi_scale`, `sumSq_map_mul`, `isPrimalFeasible_scale_seg`, … written
  with `k * ·`) and C13's `svecToMat`; this file restates them in the shape `C01` needs
  (`· * k`, `Array` segments, `Vec.scale`) and adds the strict (positive definite) PSD form.
-/
import ClarabelProofs.Lemmas.EquilGenPow
import ClarabelProofs.Lemmas.EquilCones
import ClarabelProofs.Lemmas.ConesPsdSvec

namespace Clarabel.InfoCone
open Clarabel Clarabel.GenPow
open Clarabel.Equil (quadForm quadForm_scale)
open Clarabel.PsdTri (svecToMat)

/-! ### `· * k` versus `k * ·`, `Vec.scale` -/

theorem mulRight_eq_mulLeft (k : ℝ) : (fun x : ℝ => x * k) = (fun x : ℝ => k * x) :=
  funext (fun x => mul_comm x k)

theorem scale_eq_map (seg : Array ℝ) (k : ℝ) : Vec.scale seg k = seg.map (· * k) := rfl

/-! ### PSD cone, scaled-vectorised form -/

/-- `vᵀ · mat(x) · v` for the `n × n` symmetric matrix whose svec is `x`
(`svec_to_mat`, C13's `PsdTri.svecToMat`; `quadForm` is C10's) -/
noncomputable def psdQuad (n : Nat) (x : Array ℝ) (v : Fin n → ℝ) : ℝ :=
  quadForm (fun i j : Fin n => svecToMat x i j) v

theorem psdQuad_eq (n : Nat) (x : Array ℝ) (v : Fin n → ℝ) :
    psdQuad n x v = ∑ i : Fin n, ∑ j : Fin n, v i * svecToMat x i j * v j := rfl

/-- `mat(x) ⪰ 0` (closed PSD cone; self-dual, so the same predicate serves `s` and `z`) -/
def PsdSvec (n : Nat) (x : Array ℝ) : Prop := ∀ v : Fin n → ℝ, 0 ≤ psdQuad n x v

/-- `mat(x) ≻ 0` (interior of the PSD cone) -/
def PdSvec (n : Nat) (x : Array ℝ) : Prop := ∀ v : Fin n → ℝ, v ≠ 0 → 0 < psdQuad n x v

/-- [F] `svec_to_mat` is linear: `mat(x·k) = mat(x)·k` -/
theorem svecToMat_smul (x : Array ℝ) (k : ℝ) (i j : Nat) :
    svecToMat (x.map (· * k)) i j = svecToMat x i j * k := by
  have h : ∀ p, (x.map (· * k)).getD p 0 = x.getD p 0 * k := by
    intro p
    by_cases hp : p < x.size
    · simp [Array.getD, hp]
    · simp [Array.getD, hp]
  unfold svecToMat
  simp only [h]
  split
  · rfl
  · split <;> ring

/-- [F] the quadratic form is homogeneous of degree 1 in the svec -/
theorem psdQuad_smul (n : Nat) (x : Array ℝ) (k : ℝ) (v : Fin n → ℝ) :
    psdQuad n (x.map (· * k)) v = k * psdQuad n x v := by
  unfold psdQuad
  rw [← quadForm_scale]
  congr 1
  funext i j
  rw [svecToMat_smul, mul_comm]

/-- [F] **PSD cone**: `mat(x·k) ⪰ 0 ↔ mat(x) ⪰ 0` for `k > 0` -/
theorem psd_scale (n : Nat) (x : Array ℝ) (k : ℝ) (hk : 0 < k) :
    PsdSvec n (x.map (· * k)) ↔ PsdSvec n x := by
  unfold PsdSvec
  simp only [psdQuad_smul]
  exact ⟨fun h v => le_of_mul_le_mul_left (by simpa using h v) hk,
    fun h v => mul_nonneg hk.le (h v)⟩

/-- [F] **interior of the PSD cone**: `mat(x·k) ≻ 0 ↔ mat(x) ≻ 0` for `k > 0` -/
theorem pd_scale (n : Nat) (x : Array ℝ) (k : ℝ) (hk : 0 < k) :
    PdSvec n (x.map (· * k)) ↔ PdSvec n x := by
  unfold PdSvec
  simp only [psdQuad_smul]
  exact ⟨fun h v hv => (mul_pos_iff_of_pos_left hk).mp (h v hv),
    fun h v hv => mul_pos hk (h v hv)⟩

/-- the same with `Vec.scale` -/
theorem psd_scale_vec (n : Nat) (seg : Array ℝ) (k : ℝ) (hk : 0 < k) :
    PsdSvec n (Vec.scale seg k) ↔ PsdSvec n seg := psd_scale n seg k hk

theorem pd_scale_vec (n : Nat) (seg : Array ℝ) (k : ℝ) (hk : 0 < k) :
    PdSvec n (Vec.scale seg k) ↔ PdSvec n seg := pd_scale n seg k hk

/-- the interior is inside the closed cone -/
theorem PdSvec.psd {n : Nat} {x : Array ℝ} (h : PdSvec n x) : PsdSvec n x := by
  intro v
  by_cases hv : v = 0
  · subst hv; simp [psdQuad, quadForm]
  · exact (h v hv).le

/-- [F] the segment's length (`n(n+1)/2` for a well-formed svec) is unchanged by the scaling -/
theorem size_scale (seg : Array ℝ) (k : ℝ) : (Vec.scale seg k).size = seg.size := by
  simp [Vec.scale]

/-! ### generalised power cone -/

/-- interior of `K_α = {(u,w) : u > 0, Π uᵢ^{2αᵢ} > ‖w‖²}` — what
`GenPowerCone::is_primal_feasible` tests (`GenPow.isPrimalFeasible_iff`) -/
def GenPowInt (al u w : List ℝ) : Prop := AllPos u ∧ sumSq w < prodPhiP al u

/-- interior of the dual cone: `u > 0`, `Π (uᵢ/αᵢ)^{2αᵢ} > ‖w‖²` — what `is_dual_feasible`
tests (`GenPow.isDualFeasible_iff`) -/
def GenPowDualInt (al u w : List ℝ) : Prop := AllPos u ∧ sumSq w < prodPhi al u

/-- [R] `(u,w) ∈ int K_α ↔ (u·k, w·k) ∈ int K_α` for `k > 0`, `Σ αᵢ = 1`
(`Π (k uᵢ)^{2αᵢ} = k^{2Σαᵢ} Π uᵢ^{2αᵢ} = k² Π uᵢ^{2αᵢ}`, `‖k w‖² = k² ‖w‖²`) -/
theorem genpow_primal_scale_iff (al u w : List ℝ) (k : ℝ) (hk : 0 < k) (hsum : al.sum = 1)
    (hlen : al.length = u.length) :
    GenPowInt al (u.map (· * k)) (w.map (· * k)) ↔ GenPowInt al u w := by
  unfold GenPowInt
  rw [mulRight_eq_mulLeft, allPos_map_mul k hk]
  refine and_congr_right (fun hu => ?_)
  rw [prodPhiP_scale k hk al u hlen hu.nonneg, rpow_two_sum_one k _ hsum, sumSq_map_mul]
  exact mul_lt_mul_iff_right₀ (mul_pos hk hk)

/-- [R] the same for the dual cone (`αᵢ > 0` is needed for `uᵢ/αᵢ ≥ 0`) -/
theorem genpow_dual_scale_iff (al u w : List ℝ) (k : ℝ) (hk : 0 < k) (ha : AllPos al)
    (hsum : al.sum = 1) (hlen : al.length = u.length) :
    GenPowDualInt al (u.map (· * k)) (w.map (· * k)) ↔ GenPowDualInt al u w := by
  unfold GenPowDualInt
  rw [mulRight_eq_mulLeft, allPos_map_mul k hk]
  refine and_congr_right (fun hu => ?_)
  rw [prodPhi_scale k hk al u hlen ha hu.nonneg, rpow_two_sum_one k _ hsum, sumSq_map_mul]
  exact mul_lt_mul_iff_right₀ (mul_pos hk hk)

/-- [R] **generalised power cone, primal**: the interior predicate transfers to the un-scaled
point -/
theorem genpow_primal_scale (al u w : List ℝ) (k : ℝ) (hk : 0 < k) (hsum : al.sum = 1)
    (hlen : al.length = u.length) (h : GenPowInt al u w) :
    GenPowInt al (u.map (· * k)) (w.map (· * k)) :=
  (genpow_primal_scale_iff al u w k hk hsum hlen).mpr h

/-- [R] **generalised power cone, dual** -/
theorem genpow_dual_scale (al u w : List ℝ) (k : ℝ) (hk : 0 < k) (ha : AllPos al)
    (hsum : al.sum = 1) (hlen : al.length = u.length) (h : GenPowDualInt al u w) :
    GenPowDualInt al (u.map (· * k)) (w.map (· * k)) :=
  (genpow_dual_scale_iff al u w k hk ha hsum hlen).mpr h

/-! #### the model's own tests -/

/-- `GenPow.isPrimalFeasible` on `(u ++ w)` *is* `GenPowInt` -/
theorem isPrimalFeasible_iff_int (al u w : List ℝ) (hlen : al.length = u.length) :
    GenPow.isPrimalFeasible al.toArray (u ++ w).toArray = .ok true ↔ GenPowInt al u w :=
  isPrimalFeasible_iff al u w hlen

/-- `GenPow.isDualFeasible` on `(u ++ w)` *is* `GenPowDualInt` -/
theorem isDualFeasible_iff_int (al u w : List ℝ) (hlen : al.length = u.length) (ha : AllPos al) :
    GenPow.isDualFeasible al.toArray (u ++ w).toArray = .ok true ↔ GenPowDualInt al u w :=
  isDualFeasible_iff al u w hlen ha

/-- [R] `is_primal_feasible` answers `true` on `(u·k, w·k)` iff it does on `(u, w)` -/
theorem genpow_isPrimalFeasible_scale (al u w : List ℝ) (k : ℝ) (hk : 0 < k) (hsum : al.sum = 1)
    (hlen : al.length = u.length) :
    GenPow.isPrimalFeasible al.toArray (u.map (· * k) ++ w.map (· * k)).toArray = .ok true ↔
      GenPow.isPrimalFeasible al.toArray (u ++ w).toArray = .ok true := by
  rw [isPrimalFeasible_iff_int al _ _ (by simpa using hlen), isPrimalFeasible_iff_int al u w hlen]
  exact genpow_primal_scale_iff al u w k hk hsum hlen

/-- [R] `is_dual_feasible` answers `true` on `(u·k, w·k)` iff it does on `(u, w)` -/
theorem genpow_isDualFeasible_scale (al u w : List ℝ) (k : ℝ) (hk : 0 < k) (ha : AllPos al)
    (hsum : al.sum = 1) (hlen : al.length = u.length) :
    GenPow.isDualFeasible al.toArray (u.map (· * k) ++ w.map (· * k)).toArray = .ok true ↔
      GenPow.isDualFeasible al.toArray (u ++ w).toArray = .ok true := by
  rw [isDualFeasible_iff_int al _ _ (by simpa using hlen) ha, isDualFeasible_iff_int al u w hlen ha]
  exact genpow_dual_scale_iff al u w k hk ha hsum hlen

/-- [R] **`Array` form, primal**: for the cone's whole segment `seg` (cut at `al.size` by the
cone itself; no length hypothesis — on a segment shorter than `al` both sides are not
`.ok true`) -/
theorem genpow_isPrimalFeasible_scale_seg (al seg : Array ℝ) (k : ℝ) (hk : 0 < k)
    (hsum : al.toList.sum = 1) :
    GenPow.isPrimalFeasible al (seg.map (· * k)) = .ok true ↔
      GenPow.isPrimalFeasible al seg = .ok true := by
  obtain ⟨al⟩ := al
  obtain ⟨seg⟩ := seg
  have := isPrimalFeasible_scale_seg k hk al seg hsum
  rw [← mulRight_eq_mulLeft] at this
  simpa using this

/-- [R] **`Array` form, dual** -/
theorem genpow_isDualFeasible_scale_seg (al seg : Array ℝ) (k : ℝ) (hk : 0 < k)
    (ha : AllPos al.toList) (hsum : al.toList.sum = 1) :
    GenPow.isDualFeasible al (seg.map (· * k)) = .ok true ↔
      GenPow.isDualFeasible al seg = .ok true := by
  obtain ⟨al⟩ := al
  obtain ⟨seg⟩ := seg
  have := isDualFeasible_scale_seg k hk al seg ha hsum
  rw [← mulRight_eq_mulLeft] at this
  simpa using this

/-- the same with `Vec.scale` -/
theorem genpow_isPrimalFeasible_scale_vec (al seg : Array ℝ) (k : ℝ) (hk : 0 < k)
    (hsum : al.toList.sum = 1) :
    GenPow.isPrimalFeasible al (Vec.scale seg k) = .ok true ↔
      GenPow.isPrimalFeasible al seg = .ok true :=
  genpow_isPrimalFeasible_scale_seg al seg k hk hsum

theorem genpow_isDualFeasible_scale_vec (al seg : Array ℝ) (k : ℝ) (hk : 0 < k)
    (ha : AllPos al.toList) (hsum : al.toList.sum = 1) :
    GenPow.isDualFeasible al (Vec.scale seg k) = .ok true ↔
      GenPow.isDualFeasible al seg = .ok true :=
  genpow_isDualFeasible_scale_seg al seg k hk ha hsum

/-! ### non-vacuity -/

/-- the identity `2 × 2` matrix, svec `#[1, 0, 1]`, is positive definite -/
example : PdSvec 2 #[1, 0, 1] := by
  intro v hv
  have hq : psdQuad 2 #[1, 0, 1] v = v 0 * v 0 + v 1 * v 1 := by
    simp [psdQuad, quadForm, Fin.sum_univ_two, svecToMat, PsdIndex.triangularNumber]
  rw [hq]
  have h : v 0 ≠ 0 ∨ v 1 ≠ 0 := by
    by_contra hc
    rw [not_or, not_not, not_not] at hc
    apply hv
    funext i
    fin_cases i
    · exact hc.1
    · exact hc.2
  rcases h with h | h
  · have := mul_self_pos.mpr h; nlinarith [mul_self_nonneg (v 1)]
  · have := mul_self_pos.mpr h; nlinarith [mul_self_nonneg (v 0)]

example : PsdSvec 2 #[1, 0, 1] := by
  intro v
  have hq : psdQuad 2 #[1, 0, 1] v = v 0 * v 0 + v 1 * v 1 := by
    simp [psdQuad, quadForm, Fin.sum_univ_two, svecToMat, PsdIndex.triangularNumber]
  rw [hq]
  nlinarith [mul_self_nonneg (v 0), mul_self_nonneg (v 1)]

/-- and so is its un-scaled image (`psd_scale` applies) -/
example : PsdSvec 2 ((#[1, 0, 1] : Array ℝ).map (· * 3)) := by
  rw [psd_scale 2 _ 3 (by norm_num)]
  intro v
  have hq : psdQuad 2 #[1, 0, 1] v = v 0 * v 0 + v 1 * v 1 := by
    simp [psdQuad, quadForm, Fin.sum_univ_two, svecToMat, PsdIndex.triangularNumber]
  rw [hq]
  nlinarith [mul_self_nonneg (v 0), mul_self_nonneg (v 1)]

/-- `α = (1/2, 1/2)`, `u = (1, 1)`, `w = (0)` is interior to the cone and to its dual -/
example : GenPowInt [1/2, 1/2] [1, 1] [0] := by
  refine ⟨by intro x hx; simp at hx; subst hx; norm_num, ?_⟩
  simp [sumSq, prodPhiP]

example : GenPowDualInt [1/2, 1/2] [1, 1] [0] := by
  refine ⟨by intro x hx; simp at hx; subst hx; norm_num, ?_⟩
  have h : (2 : ℝ) * (1 / 2) = 1 := by norm_num
  simp only [sumSq, prodPhi, List.zip_cons_cons, List.zip_nil_right, List.map_cons, List.map_nil,
    List.prod_cons, List.prod_nil, List.sum_cons, List.sum_nil, h, Real.rpow_one]
  norm_num

/-- the hypotheses of the scaling lemmas are satisfiable, and the model's test accepts -/
example : AllPos [1/2, 1/2] ∧ ([1/2, 1/2] : List ℝ).sum = 1 ∧
    GenPow.isPrimalFeasible (#[1/2, 1/2] : Array ℝ) #[1, 1, 0] = .ok true := by
  refine ⟨by intro x hx; simp at hx; subst hx; norm_num, by norm_num, ?_⟩
  have := (isPrimalFeasible_iff_int [1/2, 1/2] [1, 1] [0] rfl).mpr
    ⟨by intro x hx; simp at hx; subst hx; norm_num, by simp [sumSq, prodPhiP]⟩
  simpa using this

end Clarabel.InfoCone
