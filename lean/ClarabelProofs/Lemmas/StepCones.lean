/-
  C06, beyond nonnegative cones:

  * an abstract form of the linearised complementarity equation of the combined step, valid for
    every symmetric cone whose operators satisfy the Nesterov–Todd contracts (for the PSD cone
    these are C13's `psd_*` theorems, themselves conditional on the LAPACK contracts);
  * the 3-dimensional nonsymmetric cones (exponential, power): the `Δs` of the combined step is
    `−Hs Δz − (s + σμ g(z)) + η`, `η` the third-order correction, `Hs = μH(z)` (dual scaling) or
    the primal-dual scaling block.
-/
import ClarabelModel.Cones.Exp
import ClarabelModel.Cones.Pow
import ClarabelModel.Cones.Nonsym
import ClarabelProofs.Lemmas.ScalarInst
import Mathlib.Tactic.Abel
import Mathlib.Tactic.Ring

namespace Clarabel.Lemmas

/-- **symmetric cones, abstract**: `W` additive with `Hs = W∘W`, `W⁻¹W = I`, `λ∘·` odd,
`λ∘(λ\d) = d`, `Δs_from_Δz_offset(d) = W(λ\d)`; then `Δs = −(Hs Δz + offset)` satisfies
`λ∘(WΔz + W⁻¹Δs) = −d`. -/
theorem symmetric_cone_complementarity {V : Type} [AddCommGroup V] (W Winv Hs : V → V)
    (circ : V → V → V) (invc off : V → V) (lam d dz : V)
    (hW : ∀ a b, W (a + b) = W a + W b) (hWneg : ∀ a, W (-a) = -W a)
    (hHs : ∀ x, Hs x = W (W x)) (hWi : ∀ x, Winv (W x) = x)
    (hcn : ∀ a, circ lam (-a) = -circ lam a) (hci : circ lam (invc d) = d)
    (hoff : off d = W (invc d)) :
    circ lam (W dz + Winv (-(Hs dz + off d))) = -d := by
  rw [hHs, hoff, ← hW, ← hWneg, hWi]
  have : W dz + -(W dz + invc d) = -invc d := by abel
  rw [this, hcn, hci]

section nonsym3
open Clarabel.Sym3

/-- `mul` with the dual scaling `Hs = μ·H` -/
theorem mul_useDualScaling (mu : ℝ) (Hd : Sym3 ℝ) (x : V3 ℝ) :
    (Nonsym.useDualScaling mu Hd).mul x
      = (mu * (Hd.mul x).1, mu * (Hd.mul x).2.1, mu * (Hd.mul x).2.2) := by
  simp only [Nonsym.useDualScaling, Sym3.scaledFrom, Sym3.mul]
  refine Prod.ext ?_ (Prod.ext ?_ ?_) <;> simp only <;> ring

/-- the `Δs` of the combined step on a 3-d nonsymmetric cone, in the order the code computes it:
`rhs.s = 1·shift + 1·s` (`affine_ds = s`), `Δs_const = rhs.s` (`Δs_from_Δz_offset` copies),
`Δs = −1·Δs_const + (−1)·(Hs Δz)` -/
def nonsymDs (Hs : Sym3 ℝ) (s shift dz : V3 ℝ) : V3 ℝ :=
  let d : V3 ℝ := (1 * shift.1 + 1 * s.1, 1 * shift.2.1 + 1 * s.2.1, 1 * shift.2.2 + 1 * s.2.2)
  let h := Hs.mul dz
  ((-1) * d.1 + (-1) * h.1, (-1) * d.2.1 + (-1) * h.2.1, (-1) * d.2.2 + (-1) * h.2.2)

theorem nonsymDs_exp (Hs H : Sym3 ℝ) (grad s z dz dza dsa : V3 ℝ) (σμ : ℝ) :
    let η := Exp.higherCorrection H z dsa dza
    nonsymDs Hs s (Exp.combinedDsShift H grad z dza dsa σμ) dz
      = (-(Hs.mul dz).1 - (s.1 + σμ * grad.1) + η.1,
         -(Hs.mul dz).2.1 - (s.2.1 + σμ * grad.2.1) + η.2.1,
         -(Hs.mul dz).2.2 - (s.2.2 + σμ * grad.2.2) + η.2.2) := by
  intro η
  simp only [nonsymDs, Exp.combinedDsShift]
  refine Prod.ext ?_ (Prod.ext ?_ ?_) <;> simp only <;> ring

theorem nonsymDs_pow (a : ℝ) (Hs H : Sym3 ℝ) (grad s z dz dza dsa : V3 ℝ) (σμ : ℝ) :
    let η := Pow.higherCorrection a H z dsa dza
    nonsymDs Hs s (Pow.combinedDsShift a H grad z dza dsa σμ) dz
      = (-(Hs.mul dz).1 - (s.1 + σμ * grad.1) + η.1,
         -(Hs.mul dz).2.1 - (s.2.1 + σμ * grad.2.1) + η.2.1,
         -(Hs.mul dz).2.2 - (s.2.2 + σμ * grad.2.2) + η.2.2) := by
  intro η
  simp only [nonsymDs, Pow.combinedDsShift]
  refine Prod.ext ?_ (Prod.ext ?_ ?_) <;> simp only <;> ring

end nonsym3

end Clarabel.Lemmas
