/-
  C05 (iv) "`KKTSolver::update` forgets" — part 1: lock-step lemmas for the value writes.

  `AgreeOn D a a'`: two value arrays of the same length that agree on the positions in `D`.
  * `_update_values_KKT` on both: afterwards they agree on `D` and on every written position;
  * `_scale_values_KKT` on both: they still agree on `D` (a pointwise operation);
  and the same for the engine's permuted copy (`LS D F F'`: two QDLDL objects with the same symbolic
  data, buffers of the same sizes, whose `triuA.nzval` agree on the slots in `D`):
  `update_values`, `scale_values`; finally `refactor` on two objects whose `triuA.nzval` agree
  everywhere gives the same result whatever the `L / D / Dinv` buffers held (C12
  `factor_buffers_irrelevant`).
  Single-run frame lemmas (`…_frame`): what one call leaves alone.
-/
import ClarabelProofs.Lemmas.SolverStaleQdldl
import ClarabelProofs.Lemmas.QdldlHistoryMain

namespace Clarabel.Solver
open Clarabel

set_option linter.unusedSectionVars false
set_option linter.unusedVariables false

variable {α : Type}

/-! ### arrays that agree on a set of positions -/

/-- same length, same entries at the positions in `D` -/
def AgreeOn (D : Nat → Prop) (a a' : Array α) : Prop :=
  a.size = a'.size ∧ ∀ i, D i → a[i]? = a'[i]?

theorem AgreeOn.mono {D D' : Nat → Prop} {a a' : Array α} (h : AgreeOn D a a') (hD : ∀ i, D' i → D i) :
    AgreeOn D' a a' := ⟨h.1, fun i hi => h.2 i (hD i hi)⟩

theorem AgreeOn.rfl' (D : Nat → Prop) (a : Array α) : AgreeOn D a a := ⟨rfl, fun _ _ => rfl⟩

theorem AgreeOn.symm {D : Nat → Prop} {a a' : Array α} (h : AgreeOn D a a') : AgreeOn D a' a :=
  ⟨h.1.symm, fun i hi => (h.2 i hi).symm⟩

theorem AgreeOn.trans {D : Nat → Prop} {a b c : Array α} (h : AgreeOn D a b) (h' : AgreeOn D b c) :
    AgreeOn D a c := ⟨h.1.trans h'.1, fun i hi => (h.2 i hi).trans (h'.2 i hi)⟩

theorem AgreeOn.eq_of_all {D : Nat → Prop} {a a' : Array α} (h : AgreeOn D a a') (hD : ∀ i, D i) : a = a' :=
  Array.ext_getElem? fun i => h.2 i (hD i)

theorem getE_ok_of_lt {β : Type} (xs : Array β) (i : Nat) (site : String) (h : i < xs.size) :
    getE xs i site = .ok xs[i] := by
  unfold getE
  rw [Array.getElem?_eq_getElem h]
  rfl

theorem getE_err_of_not_lt {β : Type} (xs : Array β) (i : Nat) (site : String) (h : ¬ i < xs.size) :
    getE xs i site = .error (.panic site) := by
  unfold getE
  rw [Array.getElem?_eq_none (by omega)]
  rfl

theorem getE_ok_iff {β : Type} {xs : Array β} {i : Nat} {site : String} {v : β} :
    getE xs i site = .ok v ↔ xs[i]? = some v := by
  unfold getE
  cases h : xs[i]? with
  | none => simp [throw, throwThe, MonadExceptOf.throw]
  | some w => simp [pure, Except.pure]

/-- the same write on both arrays: they agree on the written position afterwards -/
theorem setE_agree {D : Nat → Prop} {a a' : Array α} (h : AgreeOn D a a') (k : Nat) (v : α) (site : String) :
    RelM (AgreeOn (fun i => D i ∨ i = k)) (setE a k v site) (setE a' k v site) := by
  unfold setE
  by_cases hk : k < a.size
  · have hk' : k < a'.size := h.1 ▸ hk
    simp only [hk, hk', dif_pos]
    refine ⟨by simp [h.1], fun i hi => ?_⟩
    by_cases hik : i = k
    · subst hik
      simp [hk, hk']
    · rw [Array.getElem?_set_ne hk (fun e => hik e.symm), Array.getElem?_set_ne hk' (fun e => hik e.symm)]
      rcases hi with hi | hi
      · exact h.2 i hi
      · exact absurd hi hik
  · have hk' : ¬ k < a'.size := h.1 ▸ hk
    simp only [hk, hk', dif_neg, not_false_eq_true]
    rfl

/-- a write at the same position with values that agree when the position is in `D` -/
theorem setE_agree' {D : Nat → Prop} {a a' : Array α} (h : AgreeOn D a a') (k : Nat) (v v' : α) (site : String)
    (hv : D k → v = v') : RelM (AgreeOn D) (setE a k v site) (setE a' k v' site) := by
  unfold setE
  by_cases hk : k < a.size
  · have hk' : k < a'.size := h.1 ▸ hk
    simp only [hk, hk', dif_pos]
    refine ⟨by simp [h.1], fun i hi => ?_⟩
    by_cases hik : i = k
    · subst hik
      simp [hk, hk', hv hi]
    · rw [Array.getElem?_set_ne hk (fun e => hik e.symm), Array.getElem?_set_ne hk' (fun e => hik e.symm)]
      exact h.2 i hi
  · have hk' : ¬ k < a'.size := h.1 ▸ hk
    simp only [hk, hk', dif_neg, not_false_eq_true]
    rfl

/-- `RelM.bind` that also hands over the two equations -/
theorem RelM.bind_ok {β γ β' γ' : Type} {R : β → γ → Prop} {Q : β' → γ' → Prop} {x : MErr β} {x' : MErr γ}
    {f : β → MErr β'} {f' : γ → MErr γ'} (h : RelM R x x')
    (hf : ∀ a a', x = .ok a → x' = .ok a' → R a a' → RelM Q (f a) (f' a')) :
    RelM Q (x >>= f) (x' >>= f') := by
  cases x with
  | error e =>
    cases x' with
    | error e' => exact h
    | ok a' => exact h.elim
  | ok a =>
    cases x' with
    | error e' => exact h.elim
    | ok a' => exact hf a a' rfl rfl h

/-- every element of the list was processed successfully -/
theorem foldlM_ok_forall {σ β : Type} (f : σ → β → MErr σ) (Q : β → Prop)
    (hq : ∀ s b s', f s b = .ok s' → Q b) :
    ∀ (l : List β) (s s' : σ), l.foldlM f s = .ok s' → ∀ b ∈ l, Q b := by
  intro l
  induction l with
  | nil => intro _ _ _ b hb; cases hb
  | cons a l ih =>
    intro s s' h b hb
    rw [List.foldlM_cons] at h
    obtain ⟨s1, h1, h2⟩ := bind_ok_inv h
    rcases List.mem_cons.mp hb with e | hb
    · subst e; exact hq s b s1 h1
    · exact ih s1 s' h2 b hb

/-- an invariant of a monadic fold (single run) -/
theorem foldlM_inv {σ β : Type} (f : σ → β → MErr σ) (P : σ → Prop) :
    ∀ (l : List β), (∀ s b s', b ∈ l → P s → f s b = .ok s' → P s') →
      ∀ (s s' : σ), P s → l.foldlM f s = .ok s' → P s' := by
  intro l
  induction l with
  | nil =>
    intro _ s s' hP h
    cases h
    exact hP
  | cons b l ih =>
    intro hstep s s' hP h
    rw [List.foldlM_cons] at h
    obtain ⟨s1, h1, h2⟩ := bind_ok_inv h
    exact ih (fun s b' s' hb => hstep s b' s' (List.mem_cons_of_mem _ hb)) s1 s'
      (hstep s b s1 (List.mem_cons_self ..) hP h1) h2

/-- a single write: the other positions keep their value -/
theorem setE_frame {a a1 : Array α} {k : Nat} {v : α} {site : String} (h : setE a k v site = .ok a1) :
    AgreeOn (fun i => i ≠ k) a a1 := by
  unfold setE at h
  by_cases hk : k < a.size
  · simp only [hk, dif_pos] at h
    cases h
    exact ⟨by simp, fun i hi => (Array.getElem?_set_ne hk (fun e => hi e.symm)).symm⟩
  · simp only [hk, dif_neg, not_false_eq_true] at h
    cases h

section kkt
variable [Add α] [Sub α] [Mul α] [Div α] [Neg α] [OfNat α 0] [OfNat α 1] [LT α] [DecidableLT α]
  [LE α] [DecidableLE α] [BEq α] [FloatLike α]

/-! ### the solver's own value array -/

theorem foldlM_setE_agree (site : String) : ∀ (l : List (Nat × α)) {D : Nat → Prop} {a a' : Array α},
    AgreeOn D a a' →
    RelM (AgreeOn (fun i => D i ∨ i ∈ l.map Prod.fst))
      (l.foldlM (fun (a : Array α) p => setE a p.1 p.2 site) a)
      (l.foldlM (fun (a : Array α) p => setE a p.1 p.2 site) a')
  | [], D, a, a', h => by
    show AgreeOn _ a a'
    exact h.mono (by simp)
  | p :: l, D, a, a', h => by
    simp only [List.foldlM_cons]
    refine RelM.bind (setE_agree h p.1 p.2 site) ?_
    intro b b' hb
    refine (foldlM_setE_agree site l hb).mono ?_
    intro c c' hc
    refine hc.mono ?_
    intro i hi
    simp only [List.map_cons, List.mem_cons] at hi
    rcases hi with hi | hi | hi
    · exact Or.inl (Or.inl hi)
    · exact Or.inl (Or.inr hi)
    · exact Or.inr hi

/-- `_update_values_KKT` on two arrays: afterwards they agree on every written position -/
theorem updateValuesKKT_agree {D : Nat → Prop} {nz nz' : Array α} (h : AgreeOn D nz nz') (index : Array Nat)
    (values : Array α) :
    RelM (AgreeOn (fun i => D i ∨ i ∈ (index.toList.zip values.toList).map Prod.fst))
      (Kkt.updateValuesKKT nz index values) (Kkt.updateValuesKKT nz' index values) :=
  foldlM_setE_agree _ _ h

theorem zip_map_fst_of_le {β γ : Type} : ∀ (l : List β) (l' : List γ), l.length ≤ l'.length →
    (l.zip l').map Prod.fst = l
  | [], _, _ => by simp
  | b :: l, [], h => by simp at h
  | b :: l, c :: l', h => by
    simp only [List.zip_cons_cons, List.map_cons, zip_map_fst_of_le l l' (by simpa using h)]

/-- one step of `_scale_values_KKT` on two arrays -/
theorem scaleStep_agree {D : Nat → Prop} {a a' : Array α} (h : AgreeOn D a a') (i : Nat) (s : α) :
    RelM (AgreeOn D)
      (do let v ← getE a i "KKT.nzval[idx]"; setE a i (v * s))
      (do let v ← getE a' i "KKT.nzval[idx]"; setE a' i (v * s)) := by
  by_cases hi : i < a.size
  · have hi' : i < a'.size := h.1 ▸ hi
    rw [getE_ok_of_lt a i _ hi, getE_ok_of_lt a' i _ hi']
    show RelM _ (setE a i (a[i] * s)) (setE a' i (a'[i] * s))
    refine setE_agree' h i _ _ _ ?_
    intro hD
    have := h.2 i hD
    rw [Array.getElem?_eq_getElem hi, Array.getElem?_eq_getElem hi'] at this
    rw [Option.some.inj this]
  · have hi' : ¬ i < a'.size := h.1 ▸ hi
    rw [getE_err_of_not_lt a i _ hi, getE_err_of_not_lt a' i _ hi']
    rfl

/-- `_scale_values_KKT` on two arrays keeps the agreement -/
theorem scaleValuesKKT_agree {D : Nat → Prop} {nz nz' : Array α} (h : AgreeOn D nz nz') (index : Array Nat)
    (scale : α) :
    RelM (AgreeOn D) (Kkt.scaleValuesKKT nz index scale) (Kkt.scaleValuesKKT nz' index scale) := by
  unfold Kkt.scaleValuesKKT
  exact foldlM_relM _ _ (fun a a' i ha => scaleStep_agree ha i scale) _ _ _ h

/-- `_update_values_KKT` (single run) leaves the positions outside the index vector alone -/
theorem updateValuesKKT_frame {nz nz1 : Array α} {index : Array Nat} {values : Array α}
    (h : Kkt.updateValuesKKT nz index values = .ok nz1) :
    AgreeOn (fun i => i ∉ index.toList) nz nz1 := by
  unfold Kkt.updateValuesKKT at h
  refine foldlM_inv _ (fun a => AgreeOn (fun i => i ∉ index.toList) nz a) _ ?_ nz nz1 (AgreeOn.rfl' _ _) h
  intro a p a1 hp hP hs
  refine hP.trans ((setE_frame hs).mono ?_)
  intro i hi e
  subst e
  exact hi (List.of_mem_zip hp).1

/-- `_scale_values_KKT` (single run) leaves the positions outside the index vector alone -/
theorem scaleValuesKKT_frame {nz nz1 : Array α} {index : Array Nat} {scale : α}
    (h : Kkt.scaleValuesKKT nz index scale = .ok nz1) :
    AgreeOn (fun i => i ∉ index.toList) nz nz1 := by
  unfold Kkt.scaleValuesKKT at h
  refine foldlM_inv _ (fun a => AgreeOn (fun i => i ∉ index.toList) nz a) _ ?_ nz nz1 (AgreeOn.rfl' _ _) h
  intro a p a1 hp hP hs
  obtain ⟨v, _, hs⟩ := bind_ok_inv hs
  refine hP.trans ((setE_frame hs).mono ?_)
  intro i hi e
  subst e
  exact hi hp

end kkt

end Clarabel.Solver
