/-
  Weak duality with residuals for  min ½xᵀPx + qᵀx  s.t.  Ax + s = b, s ∈ K
  and its dual  max −½xᵀPx − bᵀz  s.t.  Px + Aᵀz + q = 0, z ∈ K*  — dense operators over an
  ordered field.  Helper lemmas for `Props/C05.lean`.
-/
import Mathlib.Data.Matrix.Mul
import Mathlib.Algebra.Order.Field.Basic
import Mathlib.Algebra.Order.BigOperators.Group.Finset
import Mathlib.Algebra.Order.BigOperators.Ring.Finset
import Mathlib.Algebra.Order.Chebyshev
import Mathlib.Tactic.LinearCombination
import Mathlib.Tactic.Ring
import Mathlib.Tactic.Positivity
import Mathlib.Tactic.Linarith

namespace Clarabel.Lemmas
open Matrix

set_option linter.unusedSectionVars false

variable {α : Type} [Field α] [LinearOrder α] [IsStrictOrderedRing α] {n m : ℕ}

/-- primal objective `½ xᵀPx + qᵀx` -/
def pobj (P : Matrix (Fin n) (Fin n) α) (q : Fin n → α) (x : Fin n → α) : α :=
  2⁻¹ * (x ⬝ᵥ P *ᵥ x) + q ⬝ᵥ x

/-- dual objective `−½ xᵀPx − bᵀz` -/
def dobj (P : Matrix (Fin n) (Fin n) α) (b : Fin m → α) (x : Fin n → α) (z : Fin m → α) : α :=
  -(2⁻¹ * (x ⬝ᵥ P *ᵥ x)) - b ⬝ᵥ z

/-- primal residual `Ax + s − b` -/
def rp (A : Matrix (Fin m) (Fin n) α) (b : Fin m → α) (x : Fin n → α) (s : Fin m → α) : Fin m → α :=
  A *ᵥ x + s - b

/-- dual residual `Px + Aᵀz + q` -/
def rd (P : Matrix (Fin n) (Fin n) α) (A : Matrix (Fin m) (Fin n) α) (q : Fin n → α)
    (x : Fin n → α) (z : Fin m → α) : Fin n → α :=
  P *ᵥ x + Aᵀ *ᵥ z + q

omit [LinearOrder α] [IsStrictOrderedRing α] in
theorem transpose_mulVec_dot (A : Matrix (Fin m) (Fin n) α) (z : Fin m → α) (x : Fin n → α) :
    (Aᵀ *ᵥ z) ⬝ᵥ x = z ⬝ᵥ (A *ᵥ x) := by
  rw [Matrix.mulVec_transpose, ← Matrix.dotProduct_mulVec]

omit [LinearOrder α] [IsStrictOrderedRing α] in
theorem sym_dot (P : Matrix (Fin n) (Fin n) α) (hP : Pᵀ = P) (x y : Fin n → α) :
    x ⬝ᵥ P *ᵥ y = y ⬝ᵥ P *ᵥ x := by
  rw [Matrix.dotProduct_mulVec, ← Matrix.mulVec_transpose, hP, dotProduct_comm]

/-- the duality-gap identity across two points of one problem -/
theorem gap_identity (P : Matrix (Fin n) (Fin n) α) (hP : Pᵀ = P) (A : Matrix (Fin m) (Fin n) α)
    (q : Fin n → α) (b : Fin m → α) (x₁ : Fin n → α) (s₁ : Fin m → α) (x₂ : Fin n → α)
    (z₂ : Fin m → α) :
    pobj P q x₁ - dobj P b x₂ z₂ =
      2⁻¹ * ((x₁ - x₂) ⬝ᵥ P *ᵥ (x₁ - x₂)) + s₁ ⬝ᵥ z₂ - rp A b x₁ s₁ ⬝ᵥ z₂ + rd P A q x₂ z₂ ⬝ᵥ x₁ := by
  have h1 := transpose_mulVec_dot A z₂ x₁
  have h2 := sym_dot P hP x₂ x₁
  have h3 : (A *ᵥ x₁) ⬝ᵥ z₂ = z₂ ⬝ᵥ (A *ᵥ x₁) := dotProduct_comm _ _
  have h4 : (P *ᵥ x₂) ⬝ᵥ x₁ = x₁ ⬝ᵥ P *ᵥ x₂ := dotProduct_comm _ _
  simp only [pobj, dobj, rp, rd, Matrix.mulVec_sub, sub_dotProduct, dotProduct_sub, add_dotProduct,
    h1, h3, h4]
  linear_combination (2⁻¹ : α) * h2

theorem nn_pair_nonneg {ι : Type} (S : Finset ι) (s z : ι → α) (hs : ∀ i ∈ S, 0 ≤ s i)
    (hz : ∀ i ∈ S, 0 ≤ z i) : 0 ≤ ∑ i ∈ S, s i * z i :=
  Finset.sum_nonneg fun i hi => mul_nonneg (hs i hi) (hz i hi)

/-- second-order cone: `s₀ ≥ ‖s̄‖`, `z₀ ≥ ‖z̄‖` (stated with squares) gives `s₀z₀ + s̄·z̄ ≥ 0` -/
theorem soc_pair_nonneg {ι : Type} (S : Finset ι) (s z : ι → α) (s0 z0 : α) (hs0 : 0 ≤ s0)
    (hz0 : 0 ≤ z0) (hs : ∑ i ∈ S, s i ^ 2 ≤ s0 ^ 2) (hz : ∑ i ∈ S, z i ^ 2 ≤ z0 ^ 2) :
    0 ≤ s0 * z0 + ∑ i ∈ S, s i * z i := by
  have cs := Finset.sum_mul_sq_le_sq_mul_sq S s z
  have h0 : (∑ i ∈ S, s i * z i) ^ 2 ≤ (s0 * z0) ^ 2 := by
    calc (∑ i ∈ S, s i * z i) ^ 2 ≤ (∑ i ∈ S, s i ^ 2) * ∑ i ∈ S, z i ^ 2 := cs
      _ ≤ s0 ^ 2 * z0 ^ 2 := by
        apply mul_le_mul hs hz (Finset.sum_nonneg fun i _ => sq_nonneg _) (sq_nonneg _)
      _ = (s0 * z0) ^ 2 := by ring
  have h1 : |∑ i ∈ S, s i * z i| ≤ |s0 * z0| := sq_le_sq.mp h0
  rw [abs_of_nonneg (mul_nonneg hs0 hz0)] at h1
  have := neg_abs_le (∑ i ∈ S, s i * z i)
  linarith

/-- Hölder (∞,1): `|r·z| ≤ T ‖z‖₁` when every `|rₖ| ≤ T` -/
theorem dot_le_bound_mul_l1 {k : ℕ} (r z : Fin k → α) (T : α) (h : ∀ i, |r i| ≤ T) :
    |r ⬝ᵥ z| ≤ T * ∑ i, |z i| := by
  unfold dotProduct
  calc |∑ i, r i * z i| ≤ ∑ i, |r i * z i| := Finset.abs_sum_le_sum_abs _ _
    _ = ∑ i, |r i| * |z i| := by simp only [abs_mul]
    _ ≤ ∑ i, T * |z i| := Finset.sum_le_sum fun i _ => mul_le_mul_of_nonneg_right (h i) (abs_nonneg _)
    _ = T * ∑ i, |z i| := by rw [Finset.mul_sum]

end Clarabel.Lemmas
